(* EngineSafetyDecode.v -- safety and termination (fuel sufficiency) of the two block decoders of
   RModel/Engine.v: decodeLiteralBlock (lit_drain, copy_list) and decodeHuffman (huff_outer,
   huff_inner, litlen_decode, dist_decode, byteCopy).

   Main results:  decodeLiteralBlock_spec  (exactly as requested)
                  decodeHuffman_spec_v2    (requested statement + one extra hypothesis)

   DEVIATION.  decodeHuffman_spec as requested (hypotheses br_inv, 0 <= r_len, tabs_ok, w <= outLen)
   is FALSE: e <> EFuel fails.  Counterexample (checked with vm_compute):
     e0 = 0x19000500  (plain litShort entry: bitCount 1, symCount 2, symbol field 0x1000500;
                       lit_short_okb e0 = true)
     t0 = mkTB (arr_of_list (repeat e0 4096)) aempty aempty aempty          (tabs_ok t0)
     s0 = mkInflate (mkBR 0 0 (repeat 0 16) 16) false ov0 t0 phaseHeaderDecoded 0 0 0 [] dyn0 0
     decodeHuffman s0 aempty outLen  =  (_, _, 65536, EFuel).
   Reason: with w = outLen the literal branch of huff_inner takes the output-overflow `continue`
   (symCount := 1, nextLits := nextLits >> 8*(symCount-1) = 0x10005); the low 16 bits of that value
   are < 256, so the next iteration is again the literal branch with w = outLen and the same
   `continue` is taken forever (the Go loop would spin as well).  tabs_ok (lit_short_ok) does not
   bound the symbol field of a plain entry.  Tables built by genForLitLen never look like this: the
   symbol field of an entry with symCount k fits in 8*(k+1) bits.  The missing per-entry clause is
     lit_short_sym_ok e :=
       N.land e largeFlagBit = 0 -> N.shiftr e 28 <> 0 ->
       N.shiftr (N.land e largeShortSymMask) (8 * (N.land (N.shiftr e 26) 3 - 1)) < 65536
   (lit_short_sym_ok_of_lt: it follows from  land e largeShortSymMask < 2^(8*symCount+8);
    static_lit_short_sym_ok: the static table satisfies it).
   decodeHuffman_spec_v2 = the requested statement with the additional hypothesis
     all_entries lit_short_sym_ok (litShort (tb s));  conclusion unchanged. *)
From Verif Require Import Engine EngineTables.
From Verif Require Import Base EngineSafetyBase EngineSafetyBits EngineSafetyInv.
From Coq Require Import List NArith ZArith Bool Lia ZifyBool ZifyNat ZifyN.
Import ListNotations.
Open Scope N_scope.

(* ---------------------------------------------------------------- decodeLiteralBlock *)
Lemma lit_drain_spec : forall fuel b out w count length j,
  r_len b = (8 * Z.of_nat j)%Z -> (j < fuel)%nat ->
  exists b' out' w' count' fl,
    lit_drain fuel b out w count length = Some (b', out', w', count', fl) /\
    r_in b' = r_in b /\ r_inlen b' = r_inlen b /\
    (0 <= r_len b')%Z /\
    count <= count' /\ w' = w + (count' - count) /\
    r_len b' = (r_len b - 8 * Z.of_N (count' - count))%Z /\
    (fl = true -> count' = length) /\ (fl = false -> r_len b' = 0%Z) /\
    (count <= length -> count < length \/ r_len b = 0%Z -> count' <= length).
Proof.
  induction fuel as [|f IH]; intros b out w count length j Hj Hf; [lia|].
  cbn [lit_drain]. destruct (r_len b =? 0)%Z eqn:E0.
  - exists b, out, w, count, false. split; [reflexivity|].
    split; [reflexivity|]. split; [reflexivity|]. split; [lia|]. split; [lia|]. split; [lia|].
    split; [lia|]. split; [discriminate|]. split; [intros _; lia|]. intros Hc [H|H]; lia.
  - set (b1 := br_drop b 8).
    assert (Hb1 : r_len b1 = (r_len b - 8)%Z) by reflexivity.
    destruct (count + 1 =? length) eqn:E1.
    + exists b1, (aset out w (N.land (r_bits b) 255)), (w + 1), (count + 1), true.
      split; [reflexivity|]. split; [reflexivity|]. split; [reflexivity|].
      split; [lia|]. split; [lia|]. split; [lia|]. split; [lia|].
      split; [intros _; lia|]. split; [discriminate|]. intros _ _. lia.
    + destruct (IH b1 (aset out w (N.land (r_bits b) 255)) (w + 1) (count + 1) length (j - 1)%nat)
        as (b' & out' & w' & count' & fl & R & A1 & A2 & A3 & A4 & A5 & A6 & A7 & A8 & A9).
      { rewrite Hb1. lia. } { lia. }
      exists b', out', w', count', fl. split; [exact R|].
      split; [rewrite A1; reflexivity|]. split; [rewrite A2; reflexivity|].
      split; [exact A3|]. split; [lia|]. split; [lia|]. split; [rewrite A6, Hb1; lia|].
      split; [exact A7|]. split; [exact A8|]. intros Hc [H|H]; [|lia]. apply A9; [lia|]. left. lia.
Qed.

Lemma copy_list_length : forall n l out pos,
  length (snd (copy_list l n out pos)) = (length l - Nat.min n (length l))%nat.
Proof.
  induction n as [|k IH]; intros l out pos.
  - destruct l; cbn [copy_list snd length]; lia.
  - destruct l as [|x r]; cbn [copy_list snd length]; [lia|]. rewrite IH. lia.
Qed.

Definition lit_frame (s s' : inflate) : Prop :=
  inputNil s' = inputNil s /\ ov s' = ov s /\ tb s' = tb s /\ bfinal s' = bfinal s /\
  headerBuffered s' = headerBuffered s /\ headerBuffer s' = headerBuffer s /\ dyn s' = dyn s /\
  roffset s' = roffset s.

Lemma lit_tail : forall s out w length err s' out' w' e,
  match lit_drain 16 (rd s) out w 0 length with
  | None => (s, out, w, EFuel)
  | Some (b, out, written, count, true) => (set_rd s b, out, written, err)
  | Some (b, out, written, count, false) =>
      let n := length - count in
      let '(out, inrest) := copy_list (r_in b) (N.to_nat n) out written in
      let num := N.min n (r_inlen b) in
      (set_rd s (mkBR 0 (r_len b) inrest (r_inlen b - num)), out, written + num, err)
  end = (s', out', w', e) ->
  br_inv (rd s) -> (0 <= r_len (rd s))%Z -> (r_len (rd s) mod 8 = 0)%Z ->
  length <= Z.to_N (r_len (rd s)) / 8 + r_inlen (rd s) ->
  (1 <= length \/ r_len (rd s) = 0%Z) ->
  e = err /\ br_inv (rd s') /\ (0 <= r_len (rd s'))%Z /\ (r_len (rd s') mod 8 = 0)%Z /\
  w <= w' /\ w' = w + length /\
  (avail (rd s') <= avail (rd s))%Z /\ r_inlen (rd s') <= r_inlen (rd s) /\
  (length = Z.to_N (r_len (rd s)) / 8 + r_inlen (rd s) -> r_inlen (rd s') = 0) /\
  phase s' = phase s /\ lit_frame s s'.
Proof.
  intros s out w length err s' out' w' e H (I1 & I2 & I3) H0 Hm Hl H1.
  set (b := rd s) in *.
  assert (Hq : exists j, r_len b = (8 * Z.of_nat j)%Z /\ (j <= 8)%nat).
  { exists (Z.to_nat (r_len b / 8)).
    pose proof (Z.div_mod (r_len b) 8 ltac:(lia)) as Hd. rewrite Hm in Hd.
    assert (0 <= r_len b / 8 <= 8)%Z.
    { split; [apply Z.div_pos; lia|]. apply Z.div_le_upper_bound; lia. }
    split; lia. }
  destruct Hq as (j & Hj & Hj8).
  assert (Hdiv : Z.to_N (r_len b) / 8 = N.of_nat j).
  { rewrite Hj. replace (Z.to_N (8 * Z.of_nat j)) with (N.of_nat j * 8) by lia.
    apply N.div_mul. lia. }
  rewrite Hdiv in Hl |- *.
  destruct (lit_drain_spec 16 b out w 0 length j Hj ltac:(lia))
    as (b' & o1 & w1 & c1 & fl & R & A1 & A2 & A3 & A4 & A5 & A6 & A7 & A8 & A9).
  rewrite R in H.
  assert (Hc1 : c1 <= length) by (apply A9; lia).
  assert (Hmod' : (r_len b' mod 8 = 0)%Z).
  { rewrite A6, Hj. replace (8 * Z.of_nat j - 8 * Z.of_N (c1 - 0))%Z
      with ((Z.of_nat j - Z.of_N (c1 - 0)) * 8)%Z by lia. apply Z_mod_mult. }
  destruct fl.
  - inversion H; subst s' out' w' e. clear H.
    cbn [rd set_rd phase inputNil ov tb bfinal headerBuffered headerBuffer dyn roffset].
    split; [reflexivity|].
    split; [unfold br_inv; rewrite A1, A2; split; [exact I1|split; [lia|intros; lia]]|].
    split; [exact A3|]. split; [exact Hmod'|]. split; [lia|]. split; [lia|].
    split; [unfold avail; rewrite A2; lia|]. split; [lia|].
    split; [intros He; specialize (A7 eq_refl); lia|].
    split; [reflexivity|]. unfold lit_frame. cbn. repeat split; reflexivity.
  - specialize (A8 eq_refl). cbv zeta in H.
    destruct (copy_list (r_in b') (N.to_nat (length - c1)) o1 w1) as [o2 inrest] eqn:Ec.
    inversion H; subst s' out' w' e. clear H.
    pose proof (copy_list_length (N.to_nat (length - c1)) (r_in b') o1 w1) as Hcl.
    rewrite Ec in Hcl. cbn [snd] in Hcl. rewrite A1 in Hcl.
    cbn [rd set_rd phase inputNil ov tb bfinal headerBuffered headerBuffer dyn roffset].
    split; [reflexivity|].
    split; [unfold br_inv; cbn [r_in r_inlen r_len]; rewrite A2; split; [lia|split; [lia|intros; lia]]|].
    cbn [r_len r_inlen].
    split; [lia|]. split; [exact Hmod'|]. split; [lia|]. split; [lia|].
    split; [unfold avail; cbn [r_len r_inlen]; lia|]. split; [lia|].
    split; [intros He; lia|].
    split; [reflexivity|]. unfold lit_frame. cbn. repeat split; reflexivity.
Qed.

Lemma lit_frame_trans : forall s1 s2 s3, lit_frame s1 s2 -> lit_frame s2 s3 -> lit_frame s1 s3.
Proof.
  unfold lit_frame. intros s1 s2 s3 (A1&A2&A3&A4&A5&A6&A7&A8) (B1&B2&B3&B4&B5&B6&B7&B8).
  repeat split; congruence.
Qed.

Lemma lit_mid : forall s1 out w L err1 s' out' w' e,
  (let b := rd s1 in
   if (r_len b <? 0)%Z then (s1, out, w, EPanic)
   else
     let avail := Z.to_N (r_len b) / 8 + r_inlen b in
     let '(length, s, err) :=
       if avail <? L then (avail, set_phase s1 phaseLitBlock, EEndInput)
       else (L, s1, err1) in
     let s := set_litBlockLength s (litBlockLength s - length) in
     match lit_drain 16 b out w 0 length with
     | None => (s, out, w, EFuel)
     | Some (b, out, written, count, true) => (set_rd s b, out, written, err)
     | Some (b, out, written, count, false) =>
       let n := length - count in
       let '(out, inrest) := copy_list (r_in b) (N.to_nat n) out written in
       let num := N.min n (r_inlen b) in
       (set_rd s (mkBR 0 (r_len b) inrest (r_inlen b - num)), out, written + num, err)
     end) = (s', out', w', e) ->
  br_inv (rd s1) -> (0 <= r_len (rd s1))%Z -> (r_len (rd s1) mod 8 = 0)%Z -> 1 <= L ->
  err1 <> EEndInput ->
  (e = err1 \/ e = EEndInput) /\
  br_inv (rd s') /\ (0 <= r_len (rd s'))%Z /\ (r_len (rd s') mod 8 = 0)%Z /\
  w <= w' /\ w' <= w + L /\
  (avail (rd s') <= avail (rd s1))%Z /\ r_inlen (rd s') <= r_inlen (rd s1) /\
  (e = EEndInput -> r_inlen (rd s') = 0) /\
  (e = err1 -> phase s' = phase s1) /\
  (e = EEndInput -> phase s' = phaseLitBlock) /\
  (e = err1 -> w' = w + L) /\
  lit_frame s1 s'.
Proof.
  intros s1 out w L err1 s' out' w' e H Hinv H0 Hm HL Herr.
  cbv zeta in H.
  destruct (r_len (rd s1) <? 0)%Z eqn:En; [lia|].
  destruct (Z.to_N (r_len (rd s1)) / 8 + r_inlen (rd s1) <? L) eqn:E3; cbv beta iota in H.
  - set (av := Z.to_N (r_len (rd s1)) / 8 + r_inlen (rd s1)) in *.
    set (s2 := set_litBlockLength (set_phase s1 phaseLitBlock)
                 (litBlockLength (set_phase s1 phaseLitBlock) - av)) in H.
    pose proof (lit_tail s2 out w av EEndInput s' out' w' e H) as T.
    change (rd s2) with (rd s1) in T.
    assert (Hav : 1 <= av \/ r_len (rd s1) = 0%Z).
    { destruct (N.eq_dec av 0) as [Hz|Hz]; [|left; lia]. right.
      unfold av in Hz.
      assert (Hd : Z.to_N (r_len (rd s1)) / 8 = 0) by lia.
      apply N.div_small_iff in Hd; [|lia].
      pose proof (Z.div_mod (r_len (rd s1)) 8 ltac:(lia)) as Hdm. rewrite Hm in Hdm.
      lia. }
    specialize (T Hinv H0 Hm ltac:(unfold av; lia) Hav).
    destruct T as (T1 & T2 & T3 & T4 & T5 & T6 & T7 & T8 & T9 & T10 & T11).
    split; [right; exact T1|]. split; [exact T2|]. split; [exact T3|]. split; [exact T4|].
    split; [exact T5|]. split; [lia|]. split; [exact T7|]. split; [exact T8|].
    split; [intros _; apply T9; reflexivity|].
    split; [intros He; congruence|].
    split; [intros _; rewrite T10; reflexivity|].
    split; [intros He; congruence|].
    apply (lit_frame_trans s1 s2 s'); [|exact T11].
    unfold lit_frame, s2. cbn. repeat split; reflexivity.
  - set (s2 := set_litBlockLength s1 (litBlockLength s1 - L)) in H.
    pose proof (lit_tail s2 out w L err1 s' out' w' e H) as T.
    change (rd s2) with (rd s1) in T.
    specialize (T Hinv H0 Hm ltac:(lia) ltac:(left; exact HL)).
    destruct T as (T1 & T2 & T3 & T4 & T5 & T6 & T7 & T8 & T9 & T10 & T11).
    split; [left; exact T1|]. split; [exact T2|]. split; [exact T3|]. split; [exact T4|].
    split; [exact T5|]. split; [lia|]. split; [exact T7|]. split; [exact T8|].
    split; [intros He; congruence|].
    split; [intros _; rewrite T10; reflexivity|].
    split; [intros He; congruence|].
    split; [intros _; exact T6|].
    apply (lit_frame_trans s1 s2 s'); [|exact T11].
    unfold lit_frame, s2. cbn. repeat split; reflexivity.
Qed.

Theorem decodeLiteralBlock_spec : forall s out w s' out' w' e,
  decodeLiteralBlock s out w = (s', out', w', e) ->
  br_inv (rd s) -> (0 <= r_len (rd s))%Z -> (r_len (rd s) mod 8 = 0)%Z -> w <= outLen ->
  (e = ENone \/ e = EOutputOverflow \/ e = EEndInput) /\
  br_inv (rd s') /\ (0 <= r_len (rd s'))%Z /\ (r_len (rd s') mod 8 = 0)%Z /\
  w <= w' /\ w' <= outLen /\
  (avail (rd s') <= avail (rd s))%Z /\ r_inlen (rd s') <= r_inlen (rd s) /\
  (e = EEndInput -> r_inlen (rd s') = 0) /\
  (e = EOutputOverflow -> w' = outLen) /\
  (e = ENone -> phase s' = phaseStreamEnd \/ phase s' = phaseNewBlock) /\
  (e <> ENone -> phase s' = phaseLitBlock) /\
  inputNil s' = inputNil s /\ ov s' = ov s /\ tb s' = tb s /\ bfinal s' = bfinal s /\
  headerBuffered s' = headerBuffered s /\ headerBuffer s' = headerBuffer s /\ dyn s' = dyn s /\
  roffset s' = roffset s.
Proof.
  intros s out w s' out' w' e H Hinv H0 Hm Hw.
  change (inputNil s' = inputNil s /\ ov s' = ov s /\ tb s' = tb s /\ bfinal s' = bfinal s /\
    headerBuffered s' = headerBuffered s /\ headerBuffer s' = headerBuffer s /\ dyn s' = dyn s /\
    roffset s' = roffset s) with (lit_frame s s').
  unfold decodeLiteralBlock in H.
  set (ph := if negb (bfinal s =? 0) then phaseStreamEnd else phaseNewBlock) in H.
  assert (Hph : ph = phaseStreamEnd \/ ph = phaseNewBlock)
    by (unfold ph; destruct (negb (bfinal s =? 0)); auto).
  set (s0 := set_phase s ph) in H.
  assert (Hf0 : lit_frame s s0) by (unfold lit_frame, s0; cbn; repeat split; reflexivity).
  change (litBlockLength s0) with (litBlockLength s) in H.
  destruct (litBlockLength s =? 0) eqn:E0.
  - inversion H; subst s' out' w' e. clear H. change (rd s0) with (rd s). change (phase s0) with ph.
    split; [left; reflexivity|]. split; [exact Hinv|]. split; [exact H0|]. split; [exact Hm|].
    split; [lia|]. split; [exact Hw|]. split; [lia|]. split; [lia|].
    split; [discriminate|]. split; [discriminate|]. split; [intros _; exact Hph|].
    split; [congruence|]. exact Hf0.
  - destruct (outLen - w <? litBlockLength s) eqn:E1; cbv beta iota in H.
    + change (ierr_eqb EOutputOverflow EOutputOverflow) with true in H. cbn [andb] in H.
      destruct (outLen - w =? 0) eqn:E2.
      * inversion H; subst s' out' w' e. clear H.
        change (rd (set_phase s0 phaseLitBlock)) with (rd s).
        change (phase (set_phase s0 phaseLitBlock)) with phaseLitBlock.
        split; [right; left; reflexivity|]. split; [exact Hinv|]. split; [exact H0|].
        split; [exact Hm|].
        split; [lia|]. split; [exact Hw|]. split; [lia|]. split; [lia|].
        split; [discriminate|]. split; [intros _; lia|]. split; [discriminate|].
        split; [reflexivity|]. unfold lit_frame. cbn. repeat split; reflexivity.
      * set (s1 := set_phase s0 phaseLitBlock) in H.
        pose proof (lit_mid s1 out w (outLen - w) EOutputOverflow s' out' w' e H) as T.
        change (rd s1) with (rd s) in T. change (phase s1) with phaseLitBlock in T.
        specialize (T Hinv H0 Hm ltac:(lia) ltac:(discriminate)).
        destruct T as (T1 & T2 & T3 & T4 & T5 & T6 & T7 & T8 & T9 & T10 & T11 & T12 & T13).
        split; [destruct T1 as [T1|T1]; auto|]. split; [exact T2|]. split; [exact T3|].
        split; [exact T4|]. split; [exact T5|]. split; [lia|]. split; [exact T7|].
        split; [exact T8|]. split; [exact T9|].
        split; [intros He; specialize (T12 He); lia|].
        split; [intros He; destruct T1 as [T1|T1]; congruence|].
        split; [intros _; destruct T1 as [T1|T1]; [apply T10; exact T1|apply T11; exact T1]|].
        apply (lit_frame_trans s s1 s'); [|exact T13].
        unfold lit_frame, s1, s0. cbn. repeat split; reflexivity.
    + change (ierr_eqb ENone EOutputOverflow) with false in H. cbn [andb] in H.
      pose proof (lit_mid s0 out w (litBlockLength s) ENone s' out' w' e H) as T.
      change (rd s0) with (rd s) in T. change (phase s0) with ph in T.
      specialize (T Hinv H0 Hm ltac:(lia) ltac:(discriminate)).
      destruct T as (T1 & T2 & T3 & T4 & T5 & T6 & T7 & T8 & T9 & T10 & T11 & T12 & T13).
      split; [destruct T1 as [T1|T1]; auto|]. split; [exact T2|]. split; [exact T3|].
      split; [exact T4|]. split; [exact T5|]. split; [lia|]. split; [exact T7|].
      split; [exact T8|]. split; [exact T9|].
      split; [intros He; destruct T1 as [T1|T1]; congruence|].
      split; [intros He; rewrite (T10 He); exact Hph|].
      split; [intros He; destruct T1 as [T1|T1]; [congruence|apply T11; exact T1]|].
      apply (lit_frame_trans s s0 s'); [exact Hf0|exact T13].
Qed.

(* ---------------------------------------------------------------- arithmetic helpers *)
Lemma shiftr_lt_gen : forall x a m, x < 2 ^ m -> N.shiftr x a < 2 ^ (m - a).
Proof.
  intros x a m H. apply shiftr_lt. apply N.lt_le_trans with (2 ^ m); [exact H|].
  apply N.pow_le_mono_r; lia.
Qed.

Lemma shiftr_zero_lt : forall x k, N.shiftr x k = 0 -> x < 2 ^ k.
Proof.
  intros x k H. rewrite N.shiftr_div_pow2 in H. apply N.div_small_iff in H; [exact H|].
  apply N.pow_nonzero. lia.
Qed.

Lemma shiftr_lt_mul : forall x k c, x < c * 2 ^ k -> N.shiftr x k < c.
Proof.
  intros x k c H. rewrite N.shiftr_div_pow2. apply N.div_lt_upper_bound.
  - apply N.pow_nonzero. lia.
  - lia.
Qed.

Lemma shiftr_le_self : forall x k, N.shiftr x k <= x.
Proof.
  intros x k. rewrite N.shiftr_div_pow2.
  assert (H : 2 ^ k <> 0) by (apply N.pow_nonzero; lia).
  pose proof (N.mul_div_le x (2 ^ k) H).
  assert (1 <= 2 ^ k) by lia. nia.
Qed.

Lemma land_flag_ge : forall e n, N.land e (2 ^ n) <> 0 -> 2 ^ n <= e.
Proof.
  intros e n H. destruct (N.lt_ge_cases e (2 ^ n)) as [Hlt|Hge]; [|exact Hge].
  exfalso. apply H. apply land_pow2_testbit. apply (testbit_small e n n); [exact Hlt|lia].
Qed.

Fixpoint allb_below (n : nat) (f : N -> bool) : bool :=
  match n with O => true | S k => f (N.of_nat k) && allb_below k f end.

Lemma allb_below_spec : forall n f, allb_below n f = true -> forall i, i < N.of_nat n -> f i = true.
Proof.
  induction n as [|k IH]; intros f H i Hi; [lia|].
  cbn [allb_below] in H. apply andb_prop in H. destruct H as [H1 H2].
  destruct (N.eq_dec i (N.of_nat k)) as [->|Hne]; [exact H1|]. apply IH; [exact H2|lia].
Qed.

Lemma rfc_dist_extra_le : forall nd, nd < 30 -> aget rfc_dist_extra nd <= 13.
Proof.
  intros nd H.
  assert (Hb : allb_below 30 (fun i => aget rfc_dist_extra i <=? 13) = true) by (vm_compute; reflexivity).
  pose proof (allb_below_spec 30 _ Hb nd ltac:(lia)) as Hx. cbv beta in Hx. lia.
Qed.

(* ---------------------------------------------------------------- table lookups *)
(* the symbol field of a plain litShort entry with symCount k fits in 8*(k+1) bits
   (NOT part of tabs_ok; without it the output-overflow `continue` of huff_inner can spin) *)
Definition lit_short_sym_ok (e : N) : Prop :=
  N.land e largeFlagBit = 0 -> N.shiftr e 28 <> 0 ->
  N.shiftr (N.land e largeShortSymMask) (8 * (N.land (N.shiftr e 26) 3 - 1)) < 65536.

Lemma lit_short_sym_ok_of_lt : forall e,
  (N.land e largeFlagBit = 0 -> N.shiftr e 28 <> 0 ->
   N.land e largeShortSymMask < 2 ^ (8 * N.land (N.shiftr e 26) 3 + 8)) ->
  lit_short_sym_ok e.
Proof.
  intros e H Hf Hb. specialize (H Hf Hb).
  change 65536 with (2 ^ 16). apply shiftr_lt.
  apply N.lt_le_trans with (1 := H). apply N.pow_le_mono_r; lia.
Qed.

Definition lit_short_sym_okb (e : N) : bool :=
  negb (N.land e largeFlagBit =? 0) || (N.shiftr e 28 =? 0) ||
  (N.shiftr (N.land e largeShortSymMask) (8 * (N.land (N.shiftr e 26) 3 - 1)) <? 65536).

Lemma lit_short_sym_okb_ok : forall e, lit_short_sym_okb e = true -> lit_short_sym_ok e.
Proof. intros e H Hf Hb. unfold lit_short_sym_okb in H. lia. Qed.

Lemma static_lit_short_sym_ok : all_entries lit_short_sym_ok static_lit_short.
Proof.
  apply all_entries_of_list.
  - apply lit_short_sym_okb_ok. vm_compute. reflexivity.
  - apply (forallb_Forall_impl lit_short_sym_okb); [exact lit_short_sym_okb_ok|]. vm_compute. reflexivity.
Qed.

Lemma litlen_decode_spec : forall t b,
  tabs_ok t -> all_entries lit_short_sym_ok (litShort t) ->
  exists b' sc nl, litlen_decode t b = Some (b', sc, nl) /\
    r_in b' = r_in b /\ r_inlen b' = r_inlen b /\
    (r_len b - 21 <= r_len b')%Z /\ (r_len b' <= r_len b)%Z /\
    sc <= 3 /\ (sc = 0 -> r_len b' = r_len b) /\
    (sc <> 0 -> N.shiftr nl (8 * (sc - 1)) < 65536).
Proof.
  intros t b (T1 & T2 & _ & _) Hsym. unfold litlen_decode.
  set (e := aget (litShort t) (N.land (r_bits b) 4095)).
  destruct (T1 (N.land (r_bits b) 4095)) as (E1 & E2 & E3). fold e in E1, E2, E3.
  pose proof (Hsym (N.land (r_bits b) 4095)) as E4. fold e in E4.
  cbv zeta.
  destruct (N.land e largeFlagBit =? 0) eqn:Ef.
  - assert (Hf : N.land e largeFlagBit = 0) by lia.
    assert (Hbc : N.shiftr e 28 < 16).
    { apply (shiftr_lt_mul e 28 16). change (16 * 2 ^ 28) with 4294967296. exact E1. }
    eexists. eexists. eexists. split; [reflexivity|].
    unfold br_drop; cbn [r_in r_inlen r_len].
    split; [reflexivity|]. split; [reflexivity|]. split; [lia|]. split; [lia|].
    destruct (N.shiftr e 28 =? 0) eqn:Eb.
    + change (N.land (N.shiftr invalidSymbolValue 26) 3) with 0.
      split; [lia|]. split; [intros _; lia|]. intros Hc; exfalso; apply Hc; reflexivity.
    + assert (Hb : N.shiftr e 28 <> 0) by lia.
      split; [apply land_le_r|]. split; [intros Hc; exfalso; exact (E2 Hf Hb Hc)|].
      intros _. exact (E4 Hf Hb).
  - assert (Hf : N.land e largeFlagBit <> 0) by lia.
    destruct (E3 Hf) as (M1 & M2).
    set (ml := N.shiftr e 26) in *.
    assert (Hones : ones32 ml = N.ones ml).
    { unfold ones32. destruct (32 <=? ml) eqn:E32; [lia|reflexivity]. }
    rewrite Hones.
    set (nb := N.land (u32 (r_bits b)) (N.ones ml)).
    assert (Hnb : nb < 2 ^ ml) by (unfold nb; apply land_ones_lt).
    pose proof (shiftr_lt_gen nb 12 ml Hnb) as Hsh.
    destruct (1264 <=? N.land e largeShortSymMask + N.shiftr nb 12) eqn:Ei; [lia|].
    set (e2 := aget (litLong t) (N.land e largeShortSymMask + N.shiftr nb 12)).
    assert (E5 : e2 < 22528) by (apply T2).
    assert (Hbc : N.shiftr e2 10 < 22).
    { apply (shiftr_lt_mul e2 10 22). change (22 * 2 ^ 10) with 22528. exact E5. }
    eexists. eexists. eexists. split; [reflexivity|].
    unfold br_drop; cbn [r_in r_inlen r_len].
    split; [reflexivity|]. split; [reflexivity|]. split; [lia|]. split; [lia|].
    split; [lia|]. split; [intros Hc; lia|]. intros _.
    change (8 * (1 - 1)) with 0. rewrite N.shiftr_0_r.
    apply N.le_lt_trans with 1023; [apply land_le_r|lia].
Qed.

Lemma dist_decode_spec : forall t b,
  tabs_ok t ->
  exists nd b', dist_decode t b = Some (nd, b') /\
    r_in b' = r_in b /\ r_inlen b' = r_inlen b /\
    (r_len b - 15 <= r_len b')%Z /\ (r_len b' <= r_len b)%Z.
Proof.
  intros t b (_ & _ & T3 & T4). unfold dist_decode.
  set (e := aget (distShort t) (N.land (r_bits b) 1023)).
  destruct (T3 (N.land (r_bits b) 1023)) as (E1 & E2 & E3). fold e in E1, E2, E3.
  cbv zeta. unfold smallFlagBit.
  destruct (N.land e 1024 =? 0) eqn:Ef.
  - assert (Hf : N.land e 1024 = 0) by lia.
    destruct (E2 Hf) as (P1 & P2).
    assert (Hbc : N.shiftr e 11 < 16).
    { apply (shiftr_lt_mul e 11 16). change (16 * 2 ^ 11) with 32768. exact P1. }
    destruct (N.shiftr e 11 =? 0) eqn:Eb.
    + assert (He : e < 2048).
      { change 2048 with (2 ^ 11). apply shiftr_zero_lt. lia. }
      specialize (P2 He).
      eexists. eexists. split; [reflexivity|].
      unfold br_set_len, br_drop; cbn [r_in r_inlen r_len].
      split; [reflexivity|]. split; [reflexivity|]. split; lia.
    + eexists. eexists. split; [reflexivity|].
      unfold br_drop; cbn [r_in r_inlen r_len].
      split; [reflexivity|]. split; [reflexivity|]. split; lia.
  - assert (Hf : N.land e 1024 <> 0) by lia.
    specialize (E3 Hf).
    assert (Hge : 1024 <= e) by (apply (land_flag_ge e 10); exact Hf).
    assert (Hsub : sub32 e 1024 = e - 1024).
    { unfold sub32, subw. destruct (1024 <=? e) eqn:Ege; [reflexivity|lia]. }
    rewrite Hsub.
    set (ml := N.shiftr (e - 1024) 11) in *.
    assert (Hml : ml < 32).
    { apply (shiftr_lt_mul (e - 1024) 11 32). change (32 * 2 ^ 11) with 65536. lia. }
    assert (Hones : ones32 ml = N.ones ml).
    { unfold ones32. destruct (32 <=? ml) eqn:E32; [lia|reflexivity]. }
    rewrite Hones.
    set (nb := u16 (N.land (r_bits b) (N.ones ml))).
    assert (Hnb : nb < 2 ^ ml).
    { unfold nb, u16. apply N.le_lt_trans with (N.land (r_bits b) (N.ones ml)); [apply land_le_l|].
      apply land_ones_lt. }
    pose proof (shiftr_lt_gen nb 10 ml Hnb) as Hsh.
    assert (Hidx : N.land e 511 + N.shiftr nb 10 < 80) by lia.
    rewrite (u16_small (N.land e 511 + N.shiftr nb 10)) by lia.
    destruct (80 <=? N.land e 511 + N.shiftr nb 10) eqn:Ei; [lia|].
    set (e2 := aget (distLong t) (N.land e 511 + N.shiftr nb 10)).
    destruct (T4 (N.land e 511 + N.shiftr nb 10)) as (Q1 & Q2). fold e2 in Q1, Q2.
    assert (Hbc : N.shiftr e2 10 < 16).
    { apply (shiftr_lt_mul e2 10 16). change (16 * 2 ^ 10) with 16384. exact Q1. }
    destruct (N.shiftr e2 10 =? 0) eqn:Eb.
    + assert (He : e2 < 1024).
      { change 1024 with (2 ^ 10). apply shiftr_zero_lt. lia. }
      specialize (Q2 He).
      eexists. eexists. split; [reflexivity|].
      unfold br_set_len, br_drop; cbn [r_in r_inlen r_len].
      split; [reflexivity|]. split; [reflexivity|]. split; lia.
    + eexists. eexists. split; [reflexivity|].
      unfold br_drop; cbn [r_in r_inlen r_len].
      split; [reflexivity|]. split; [reflexivity|]. split; lia.
Qed.

(* ---------------------------------------------------------------- decodeHuffman: the inner loop *)
Definition rd_good (b : bitrd) : Prop := br_inv b /\ (0 <= r_len b)%Z.
Definition rd_le (b b0 : bitrd) : Prop := (avail b <= avail b0)%Z /\ r_inlen b <= r_inlen b0.

Definition huff_frame (s s' : inflate) : Prop :=
  inputNil s' = inputNil s /\ tb s' = tb s /\ bfinal s' = bfinal s /\
  litBlockLength s' = litBlockLength s /\
  headerBuffered s' = headerBuffered s /\ headerBuffer s' = headerBuffer s /\ dyn s' = dyn s /\
  roffset s' = roffset s.
Definition phase_rel (s s' : inflate) : Prop :=
  phase s' = phase s \/ phase s' = phaseStreamEnd \/ phase s' = phaseNewBlock.

Lemma huff_frame_refl : forall s, huff_frame s s.
Proof. intros s. unfold huff_frame. repeat split; reflexivity. Qed.
Lemma huff_frame_trans : forall s1 s2 s3, huff_frame s1 s2 -> huff_frame s2 s3 -> huff_frame s1 s3.
Proof.
  unfold huff_frame. intros s1 s2 s3 (A1&A2&A3&A4&A5&A6&A7&A8) (B1&B2&B3&B4&B5&B6&B7&B8).
  repeat split; congruence.
Qed.
Lemma phase_rel_refl : forall s, phase_rel s s.
Proof. intros s. left. reflexivity. Qed.
Lemma phase_rel_trans : forall s1 s2 s3, phase_rel s1 s2 -> phase_rel s2 s3 -> phase_rel s1 s3.
Proof.
  unfold phase_rel. intros s1 s2 s3 A B.
  destruct B as [B|[B|B]]; [rewrite B; exact A|right; left; exact B|right; right; exact B].
Qed.
Lemma rd_le_refl : forall b, rd_le b b.
Proof. intros b. split; lia. Qed.
Lemma rd_le_trans : forall b1 b2 b3, rd_le b1 b2 -> rd_le b2 b3 -> rd_le b1 b3.
Proof. unfold rd_le. intros b1 b2 b3 (A1 & A2) (B1 & B2). split; lia. Qed.

Definition inner_post (s : inflate) (w sc : N) (bT : bitrd) (wT : N) (r : hres) : Prop :=
  match r with
  | HCont s' b' _ w' =>
      huff_frame s s' /\ phase_rel s s' /\ copyOverflowLength (ov s') = 0 /\
      rd_good b' /\ rd_le b' bT /\ w <= w' /\ w' <= outLen /\
      (sc <> 0 -> w < w' \/ phase s' <> phaseHeaderDecoded)
  | HFin s' b' _ w' e =>
      huff_frame s s' /\ phase_rel s s' /\
      (e = EInvalidSymbol \/ e = EInvalidLookBack \/ e = EEndInput \/ e = EOutputOverflow) /\
      rd_good b' /\ rd_le b' bT /\ wT <= w' /\ w' <= outLen /\
      (e = EEndInput -> r_inlen b' = 0) /\ (e = EOutputOverflow -> w' = outLen)
  end.

Lemma inner_post_step : forall s s1 w w1 sc sc1 bT wT r,
  huff_frame s s1 -> phase_rel s s1 -> w <= w1 ->
  (sc1 <> 0 \/ w < w1 \/ phase s1 = phaseStreamEnd \/ phase s1 = phaseNewBlock) ->
  inner_post s1 w1 sc1 bT wT r -> inner_post s w sc bT wT r.
Proof.
  intros s s1 w w1 sc sc1 bT wT r Hf Hp Hw Hprog H.
  destruct r as [s' b' o' w'|s' b' o' w' e]; unfold inner_post in *.
  - destruct H as (A1 & A2 & A3 & A4 & A5 & A6 & A7 & A8).
    split; [exact (huff_frame_trans _ _ _ Hf A1)|]. split; [exact (phase_rel_trans _ _ _ Hp A2)|].
    split; [exact A3|]. split; [exact A4|]. split; [exact A5|]. split; [lia|]. split; [exact A7|].
    intros _. destruct Hprog as [Hq|[Hq|Hq]].
    + destruct (A8 Hq) as [Hr|Hr]; [left; lia|right; exact Hr].
    + left; lia.
    + right. unfold phase_rel in A2.
      destruct A2 as [A2|[A2|A2]]; rewrite A2; try discriminate.
      destruct Hq as [Hq|Hq]; rewrite Hq; discriminate.
  - destruct H as (A1 & A2 & A3 & A4 & A5 & A6 & A7 & A8 & A9).
    split; [exact (huff_frame_trans _ _ _ Hf A1)|]. split; [exact (phase_rel_trans _ _ _ Hp A2)|].
    split; [exact A3|]. split; [exact A4|]. split; [exact A5|]. split; [exact A6|]. split; [exact A7|].
    split; [exact A8|exact A9].
Qed.

(* the part of the length branch after the distance has been read *)
Definition step2_body (K : inflate -> bitrd -> arr -> N -> hres) (s : inflate) (bT : bitrd) (wT : N)
    (out : arr) (w rl : N) (b : bitrd) (lookBackDist : N) : hres :=
  if (r_len b <? 0)%Z then HFin (set_wov s 0 0) bT out wT EEndInput
  else if w <? lookBackDist then HFin s b out w EInvalidLookBack
  else
    let availOut := outLen - w in
    let '(s, repeatLength) :=
      if availOut <? rl then (set_cov s (rl - availOut) lookBackDist, availOut) else (s, rl) in
    let out := byteCopy out w lookBackDist repeatLength in
    let w := w + repeatLength in
    if 0 <? copyOverflowLength (ov s) then HFin s b out w EOutputOverflow
    else K s b out w.

Definition len_branch (K : inflate -> bitrd -> arr -> N -> hres) (s : inflate) (bT : bitrd) (wT : N)
    (out : arr) (w rl : N) (b : bitrd) : hres :=
  match load_le15 b with
  | None => HFin s b out w EPanic
  | Some b =>
    match dist_decode (tb s) b with
    | None => HFin s b out w EPanic
    | Some (nextDist, b) =>
      if (0 <=? r_len b)%Z then
        if distLen <=? nextDist then HFin s b out w EInvalidSymbol
        else
          match load_lt57 b with
          | None => HFin s b out w EPanic
          | Some b =>
            let '(extraBits, b) := next_bits b (aget rfc_dist_extra nextDist) in
            step2_body K s bT wT out w rl b (aget rfc_dist_start nextDist + extraBits)
          end
      else step2_body K s bT wT out w rl b 0
    end
  end.

Lemma huff_inner_S : forall f s b out w sc nl bT wT,
  huff_inner (S f) s b out w sc nl bT wT =
  if sc =? 0 then HCont s b out w
  else
    let nextLit := N.land nl 0xFFFF in
    if (nextLit <? 256) || (1 <? sc) then
      if w =? outLen then
        let s1 := set_wov s nl sc in
        let nl' := N.shiftr nl (8 * (sc - 1)) in
        if nl' <? 256 then HFin s1 b out w EOutputOverflow
        else
          let s2 := set_wov s1 (writeOverflowLits (ov s1)) (writeOverflowLen (ov s1) - 1) in
          if nl' =? 256 then HFin (end_of_block s2) b out w EOutputOverflow
          else huff_inner f s2 b out w 1 nl' bT wT
      else huff_inner f s b (aset out w (N.land nextLit 255)) (w + 1) (sc - 1) (N.shiftr nl 8) bT wT
    else if nextLit =? 256 then
      huff_inner f (end_of_block s) b out w (sc - 1) (N.shiftr nl 8) bT wT
    else if nextLit <=? maxLitLenSym then
      len_branch (fun s b out w => huff_inner f s b out w (sc - 1) (N.shiftr nl 8) bT wT)
                 s bT wT out w (nextLit - 254) b
    else HFin s b out w EInvalidSymbol.
Proof. reflexivity. Qed.

Lemma step2_spec : forall K s bT wT out w rl b dist,
  copyOverflowLength (ov s) = 0 -> 1 <= rl ->
  br_inv b -> rd_le b bT -> rd_good bT -> ((r_len b < 0)%Z -> r_inlen bT = 0) ->
  wT <= w -> w <= outLen ->
  (forall b' out' w', rd_good b' -> rd_le b' bT -> w < w' -> w' <= outLen ->
     inner_post s w' 0 bT wT (K s b' out' w')) ->
  inner_post s w 1 bT wT (step2_body K s bT wT out w rl b dist).
Proof.
  intros K s bT wT out w rl b dist Hcov Hrl Hb Hle HbT Hneg HwT Hw HK.
  unfold step2_body.
  destruct (r_len b <? 0)%Z eqn:En.
  - unfold inner_post.
    split; [unfold huff_frame; cbn; repeat split; reflexivity|].
    split; [left; reflexivity|]. split; [right; right; left; reflexivity|].
    split; [exact HbT|]. split; [apply rd_le_refl|]. split; [lia|]. split; [lia|].
    split; [intros _; apply Hneg; lia|discriminate].
  - destruct (w <? dist) eqn:Ed.
    + unfold inner_post.
      split; [apply huff_frame_refl|]. split; [apply phase_rel_refl|].
      split; [right; left; reflexivity|].
      split; [split; [exact Hb|lia]|]. split; [exact Hle|]. split; [lia|]. split; [lia|].
      split; discriminate.
    + cbv zeta. destruct (outLen - w <? rl) eqn:Ec; cbv beta iota.
      * change (copyOverflowLength (ov (set_cov s (rl - (outLen - w)) dist))) with (rl - (outLen - w)).
        destruct (0 <? rl - (outLen - w)) eqn:E0; [|lia].
        unfold inner_post.
        split; [unfold huff_frame; cbn; repeat split; reflexivity|].
        split; [left; reflexivity|]. split; [right; right; right; reflexivity|].
        split; [split; [exact Hb|lia]|]. split; [exact Hle|]. split; [lia|]. split; [lia|].
        split; [discriminate|intros _; lia].
      * rewrite Hcov. change (0 <? 0) with false. cbv iota.
        apply (inner_post_step s s w (w + rl) 1 0 bT wT).
        -- apply huff_frame_refl.
        -- apply phase_rel_refl.
        -- lia.
        -- right; left; lia.
        -- apply HK; [split; [exact Hb|lia]|exact Hle|lia|lia].
Qed.

Lemma len_branch_spec : forall K s bT wT out w rl b,
  tabs_ok (tb s) -> copyOverflowLength (ov s) = 0 -> 1 <= rl ->
  rd_good b -> rd_le b bT -> rd_good bT -> (r_inlen bT = 0 \/ (36 <= r_len b)%Z) ->
  wT <= w -> w <= outLen ->
  (forall b' out' w', rd_good b' -> rd_le b' bT -> w < w' -> w' <= outLen ->
     inner_post s w' 0 bT wT (K s b' out' w')) ->
  inner_post s w 1 bT wT (len_branch K s bT wT out w rl b).
Proof.
  intros K s bT wT out w rl b Ht Hcov Hrl (Hb & Hb0) Hle HbT Hpre HwT Hw HK.
  unfold len_branch.
  destruct (load_le15_spec b Hb) as (b1 & L1 & L2 & L3 & L4 & L5). rewrite L1.
  destruct (dist_decode_spec (tb s) b1 Ht) as (nd & b2 & D1 & D2 & D3 & D4 & D5). rewrite D1.
  assert (Hb2 : br_inv b2).
  { destruct L2 as ((I1 & I2 & I3) & Hk). unfold br_inv. rewrite D2, D3.
    split; [exact I1|]. split; [lia|]. intros Hn. destruct Hk as [Hk|Hk]; [exact Hk|lia]. }
  assert (Hle2 : rd_le b2 bT).
  { unfold rd_le, avail in *. rewrite D3. lia. }
  destruct (0 <=? r_len b2)%Z eqn:E0.
  - destruct (distLen <=? nd) eqn:Ed.
    + unfold inner_post.
      split; [apply huff_frame_refl|]. split; [apply phase_rel_refl|].
      split; [left; reflexivity|].
      split; [split; [exact Hb2|lia]|]. split; [exact Hle2|]. split; [lia|]. split; [lia|].
      split; discriminate.
    + destruct (load_lt57_spec b2 Hb2) as (b3 & M1 & M2 & M3 & M4 & M5). rewrite M1.
      unfold next_bits. cbv beta iota.
      assert (Hk : aget rfc_dist_extra nd <= 13) by (apply rfc_dist_extra_le; unfold distLen in Ed; lia).
      set (k := aget rfc_dist_extra nd) in *.
      destruct (br_drop_ok 57 b3 k M2 ltac:(lia)) as (N1 & N2 & N3 & N4 & N5).
      apply step2_spec; try assumption.
      * exact (proj1 N1).
      * unfold rd_le, avail in *. rewrite N3, N5. lia.
      * rewrite N5. intros Hn. destruct Hpre as [Hp|Hp]; [exact Hp|lia].
  - apply step2_spec; try assumption.
    intros Hn. destruct Hpre as [Hp|Hp]; [exact Hp|lia].
Qed.

Lemma huff_inner_spec : forall fuel s b out w sc nl bT wT,
  sc + 2 <= N.of_nat fuel -> sc <= 3 ->
  (sc <> 0 -> N.shiftr nl (8 * (sc - 1)) < 65536) ->
  tabs_ok (tb s) -> copyOverflowLength (ov s) = 0 ->
  rd_good b -> rd_le b bT -> rd_good bT -> (sc <> 0 -> r_inlen bT = 0 \/ (36 <= r_len b)%Z) ->
  wT <= w -> w <= outLen ->
  inner_post s w sc bT wT (huff_inner fuel s b out w sc nl bT wT).
Proof.
  induction fuel as [|f IH]; intros s b out w sc nl bT wT Hfuel Hsc HJ Ht Hcov Hb Hle HbT Hpre HwT Hw;
    [lia|].
  rewrite huff_inner_S.
  destruct (sc =? 0) eqn:Esc.
  - unfold inner_post.
    split; [apply huff_frame_refl|]. split; [apply phase_rel_refl|]. split; [exact Hcov|].
    split; [exact Hb|]. split; [exact Hle|]. split; [lia|]. split; [exact Hw|].
    intros Hc; lia.
  - assert (Hsc0 : sc <> 0) by lia. specialize (HJ Hsc0). specialize (Hpre Hsc0).
    cbv zeta.
    set (nextLit := N.land nl 65535).
    destruct ((nextLit <? 256) || (1 <? sc)) eqn:Elit.
    + destruct (w =? outLen) eqn:Ew.
      * set (s1 := set_wov s nl sc).
        set (nl' := N.shiftr nl (8 * (sc - 1))) in *.
        destruct (nl' <? 256) eqn:E1.
        { unfold inner_post.
          split; [unfold huff_frame, s1; cbn; repeat split; reflexivity|].
          split; [left; reflexivity|]. split; [right; right; right; reflexivity|].
          split; [exact Hb|]. split; [exact Hle|]. split; [lia|]. split; [lia|].
          split; [discriminate|intros _; lia]. }
        set (s2 := set_wov s1 (writeOverflowLits (ov s1)) (writeOverflowLen (ov s1) - 1)).
        destruct (nl' =? 256) eqn:E2.
        { unfold inner_post.
          split; [unfold huff_frame, s2, s1; cbn; repeat split; reflexivity|].
          split; [unfold phase_rel, end_of_block; cbn [phase set_phase];
                  destruct (bfinal s2 =? 1); [right; left; reflexivity|right; right; reflexivity]|].
          split; [right; right; right; reflexivity|].
          split; [exact Hb|]. split; [exact Hle|]. split; [lia|]. split; [lia|].
          split; [discriminate|intros _; lia]. }
        assert (Hsc2 : 2 <= sc).
        { destruct (N.eq_dec sc 1) as [H1|H1]; [|lia]. exfalso. subst sc.
          change (8 * (1 - 1)) with 0 in nl'. unfold nl' in *. rewrite N.shiftr_0_r in *.
          assert (Hnl : nextLit = nl).
          { unfold nextLit. change 65535 with (N.ones 16). rewrite N.land_ones.
            apply N.mod_small. exact HJ. }
          rewrite Hnl in Elit. change (1 <? 1) with false in Elit. lia. }
        apply (inner_post_step s s2 w w sc 1 bT wT);
          [unfold huff_frame, s2, s1; cbn; repeat split; reflexivity
          |left; reflexivity|lia|left; discriminate|].
        apply IH; [lia|lia| |exact Ht|exact Hcov|exact Hb|exact Hle|exact HbT
                  |intros _; exact Hpre|exact HwT|exact Hw].
        intros _. change (8 * (1 - 1)) with 0. rewrite N.shiftr_0_r. exact HJ.
      * apply (inner_post_step s s w (w + 1) sc (sc - 1) bT wT);
          [apply huff_frame_refl|apply phase_rel_refl|lia|right; left; lia|].
        apply IH; [lia|lia| |exact Ht|exact Hcov|exact Hb|exact Hle|exact HbT
                  |intros _; exact Hpre|lia|lia].
        intros Hc. rewrite N.shiftr_shiftr.
        replace (8 + 8 * (sc - 1 - 1)) with (8 * (sc - 1)) by lia. exact HJ.
    + assert (Hsc1 : sc = 1) by lia. subst sc.
      destruct (nextLit =? 256) eqn:E256.
      * apply (inner_post_step s (end_of_block s) w w 1 (1 - 1) bT wT).
        -- unfold huff_frame, end_of_block; cbn; repeat split; reflexivity.
        -- unfold phase_rel, end_of_block; cbn [phase set_phase].
           destruct (bfinal s =? 1); [right; left; reflexivity|right; right; reflexivity].
        -- lia.
        -- right; right. unfold end_of_block; cbn [phase set_phase].
           destruct (bfinal s =? 1); [left; reflexivity|right; reflexivity].
        -- apply IH; [lia|lia|intros Hc; exfalso; apply Hc; reflexivity|exact Ht|exact Hcov
                      |exact Hb|exact Hle|exact HbT|intros Hc; exfalso; apply Hc; reflexivity
                      |exact HwT|exact Hw].
      * destruct (nextLit <=? maxLitLenSym) eqn:Emax.
        -- apply len_branch_spec;
             [exact Ht|exact Hcov|lia|exact Hb|exact Hle|exact HbT|exact Hpre|exact HwT|exact Hw|].
           intros b' out' w' Hb' Hle' Hw1 Hw2.
           apply IH; [lia|lia|intros Hc; exfalso; apply Hc; reflexivity|exact Ht|exact Hcov
                     |exact Hb'|exact Hle'|exact HbT|intros Hc; exfalso; apply Hc; reflexivity
                     |lia|exact Hw2].
        -- unfold inner_post.
           split; [apply huff_frame_refl|]. split; [apply phase_rel_refl|].
           split; [left; reflexivity|].
           split; [exact Hb|]. split; [exact Hle|]. split; [lia|]. split; [lia|].
           split; discriminate.
Qed.

(* ---------------------------------------------------------------- decodeHuffman: the outer loop *)
Lemma huff_outer_S : forall f s b out w,
  huff_outer (S f) s b out w =
  if phase s =? phaseHeaderDecoded then
    match load_lt57 b with
    | None => (s, b, out, w, EPanic)
    | Some bT =>
      match load_le15 bT with
      | None => (s, bT, out, w, EPanic)
      | Some b1 =>
        match litlen_decode (tb s) b1 with
        | None => (s, b1, out, w, EPanic)
        | Some (b2, symCount, nextLits) =>
          if symCount =? 0 then (s, b2, out, w, EInvalidSymbol)
          else if (r_len b2 <? 0)%Z then (s, bT, out, w, EEndInput)
          else
            match huff_inner 8 s b2 out w symCount nextLits bT w with
            | HCont s b out w => huff_outer f s b out w
            | HFin s b out w e => (s, b, out, w, e)
            end
        end
      end
    end
  else (s, b, out, w, ENone).
Proof. reflexivity. Qed.

Definition outer_err (e : ierr) : Prop :=
  e = ENone \/ e = EInvalidSymbol \/ e = EInvalidLookBack \/ e = EEndInput \/ e = EOutputOverflow.

Lemma huff_outer_spec : forall fuel s b out w s' b' out' w' e,
  huff_outer fuel s b out w = (s', b', out', w', e) ->
  2 * (outLen - w) + (if phase s =? phaseHeaderDecoded then 1 else 0) < N.of_nat fuel ->
  tabs_ok (tb s) -> all_entries lit_short_sym_ok (litShort (tb s)) ->
  copyOverflowLength (ov s) = 0 -> rd_good b -> w <= outLen ->
  huff_frame s s' /\ phase_rel s s' /\ outer_err e /\
  rd_good b' /\ rd_le b' b /\ w <= w' /\ w' <= outLen /\
  (e = EEndInput -> r_inlen b' = 0) /\ (e = EOutputOverflow -> w' = outLen) /\
  (e = ENone -> phase s' <> phaseHeaderDecoded).
Proof.
  induction fuel as [|f IH]; intros s b out w s' b' out' w' e H Hfuel Ht Hsym Hcov Hb Hw; [lia|].
  rewrite huff_outer_S in H.
  destruct (phase s =? phaseHeaderDecoded) eqn:Eph.
  - destruct Hb as (Hbi & Hb0).
    destruct (load_lt57_spec b Hbi) as (bT & L1 & L2 & L3 & L4 & L5). rewrite L1 in H.
    destruct (load_le15_spec bT (proj1 L2)) as (b1 & M1 & M2 & M3 & M4 & M5). rewrite M1 in H.
    pose proof (load_le15_keeps bT b1 57 L2 M1 ltac:(lia)) as M6.
    destruct (litlen_decode_spec (tb s) b1 Ht Hsym)
      as (b2 & sc & nl & D1 & D2 & D3 & D4 & D5 & D6 & D7 & D8).
    rewrite D1 in H.
    assert (HbT : rd_good bT) by (split; [exact (proj1 L2)|lia]).
    assert (HleT : rd_le bT b) by (unfold rd_le; lia).
    assert (Hb2 : br_inv b2).
    { destruct M6 as ((I1 & I2 & I3) & Hk). unfold br_inv. rewrite D2, D3.
      split; [exact I1|]. split; [lia|]. intros Hn. destruct Hk as [Hk|Hk]; [exact Hk|lia]. }
    assert (Hle2 : rd_le b2 bT).
    { unfold rd_le, avail in *. rewrite D3. lia. }
    assert (Hpre : r_inlen bT = 0 \/ (36 <= r_len b2)%Z).
    { destruct L2 as (_ & [Hk|Hk]); [left; exact Hk|right; lia]. }
    destruct (sc =? 0) eqn:Esc.
    + inversion H; subst s' b' out' w' e. clear H.
      split; [apply huff_frame_refl|]. split; [apply phase_rel_refl|].
      split; [right; left; reflexivity|].
      split; [split; [exact Hb2|rewrite D7; lia]|].
      split; [exact (rd_le_trans _ _ _ Hle2 HleT)|]. split; [lia|]. split; [exact Hw|].
      split; [discriminate|]. split; discriminate.
    + destruct (r_len b2 <? 0)%Z eqn:En.
      * inversion H; subst s' b' out' w' e. clear H.
        split; [apply huff_frame_refl|]. split; [apply phase_rel_refl|].
        split; [right; right; right; left; reflexivity|].
        split; [exact HbT|]. split; [exact HleT|]. split; [lia|]. split; [exact Hw|].
        split; [intros _; destruct Hpre as [Hp|Hp]; [exact Hp|lia]|].
        split; discriminate.
      * pose proof (huff_inner_spec 8 s b2 out w sc nl bT w ltac:(lia) D6 D8 Ht Hcov
                      ltac:(split; [exact Hb2|lia]) Hle2 HbT ltac:(intros _; exact Hpre)
                      ltac:(lia) Hw) as P.
        destruct (huff_inner 8 s b2 out w sc nl bT w) as [s1 b3 o1 w1|s1 b3 o1 w1 e1].
        -- unfold inner_post in P.
           destruct P as (P1 & P2 & P3 & P4 & P5 & P6 & P7 & P8).
           assert (Htb : tb s1 = tb s) by (destruct P1 as (_ & Q & _); exact Q).
           specialize (IH s1 b3 o1 w1 s' b' out' w' e H).
           assert (Hm : 2 * (outLen - w1) + (if phase s1 =? phaseHeaderDecoded then 1 else 0)
                        < N.of_nat f).
           { destruct (P8 ltac:(lia)) as [Q|Q].
             - destruct (phase s1 =? phaseHeaderDecoded); lia.
             - destruct (phase s1 =? phaseHeaderDecoded) eqn:E1; [lia|]. lia. }
           rewrite Htb in IH.
           specialize (IH Hm Ht Hsym P3 P4 P7).
           destruct IH as (R1 & R2 & R3 & R4 & R5 & R6 & R7 & R8 & R9 & R10).
           split; [exact (huff_frame_trans _ _ _ P1 R1)|].
           split; [exact (phase_rel_trans _ _ _ P2 R2)|]. split; [exact R3|].
           split; [exact R4|].
           split; [exact (rd_le_trans _ _ _ R5 (rd_le_trans _ _ _ P5 HleT))|].
           split; [lia|]. split; [exact R7|]. split; [exact R8|]. split; [exact R9|exact R10].
        -- inversion H; subst s' b' out' w' e. clear H.
           unfold inner_post in P.
           destruct P as (P1 & P2 & P3 & P4 & P5 & P6 & P7 & P8 & P9).
           split; [exact P1|]. split; [exact P2|].
           split; [unfold outer_err; destruct P3 as [Q|[Q|[Q|Q]]]; auto|].
           split; [exact P4|]. split; [exact (rd_le_trans _ _ _ P5 HleT)|].
           split; [exact P6|]. split; [exact P7|]. split; [exact P8|].
           split; [exact P9|]. intros Hc. destruct P3 as [Q|[Q|[Q|Q]]]; congruence.
  - inversion H; subst s' b' out' w' e. clear H.
    split; [apply huff_frame_refl|]. split; [apply phase_rel_refl|]. split; [left; reflexivity|].
    split; [exact Hb|]. split; [apply rd_le_refl|]. split; [lia|]. split; [exact Hw|].
    split; [discriminate|]. split; [discriminate|]. intros _. lia.
Qed.

Lemma big_fuel_enough : forall w (c : bool),
  2 * (outLen - w) + (if c then 1 else 0) < N.of_nat big_fuel.
Proof.
  intros w c. unfold big_fuel. rewrite N2Nat.id. unfold outLen. destruct c; lia.
Qed.

(* the body of decodeHuffman with the fuel as a variable (big_fuel must never be unfolded: the
   hypothesis is written exactly as `unfold decodeHuffman` leaves it) *)
Lemma decodeHuffman_gen : forall F s out w s' out' w' e,
  (let '(s1, b, out1, w1, err) :=
     huff_outer F (set_cov s 0 0) (rd (set_cov s 0 0)) out w in
   if (r_len b <? 0)%Z then
     (set_rd s1 b, out1, w1, match err with EFuel => EFuel | _ => EPanic end)
   else
     (set_rd s1 (br_set_bits b (if Z.to_N (r_len b) <? N.size (r_bits b)
                                then N.land (r_bits b) (ones64 (Z.to_N (r_len b)))
                                else r_bits b)), out1, w1, err)) = (s', out', w', e) ->
  2 * (outLen - w) + (if phase (set_cov s 0 0) =? phaseHeaderDecoded then 1 else 0) < N.of_nat F ->
  br_inv (rd s) -> (0 <= r_len (rd s))%Z -> tabs_ok (tb s) ->
  all_entries lit_short_sym_ok (litShort (tb s)) -> w <= outLen ->
  outer_err e /\
  br_inv (rd s') /\ (0 <= r_len (rd s'))%Z /\
  w <= w' /\ w' <= outLen /\
  (avail (rd s') <= avail (rd s))%Z /\ r_inlen (rd s') <= r_inlen (rd s) /\
  (e = EEndInput -> r_inlen (rd s') = 0) /\
  (e = EOutputOverflow -> w' = outLen) /\
  (e = ENone -> phase s' <> phaseHeaderDecoded) /\
  phase_rel s s' /\ huff_frame s s'.
Proof.
  intros F s out w s' out' w' e H Hfuel Hinv H0 Ht Hsym Hw.
  set (s0 := set_cov s 0 0) in *.
  destruct (huff_outer F s0 (rd s0) out w) as [[[[s1 b1] o1] w1] e1] eqn:Eo.
  pose proof (huff_outer_spec F s0 (rd s0) out w s1 b1 o1 w1 e1 Eo Hfuel Ht Hsym
                eq_refl (conj Hinv H0) Hw)
    as (R1 & R2 & R3 & (R4 & R4') & (R5 & R5') & R6 & R7 & R8 & R9 & R10).
  destruct (r_len b1 <? 0)%Z eqn:En; [lia|].
  inversion H; subst s' out' w' e. clear H.
  cbn [rd set_rd phase inputNil tb bfinal litBlockLength headerBuffered headerBuffer dyn roffset].
  split; [exact R3|].
  split; [exact R4|]. split; [exact R4'|].
  split; [exact R6|]. split; [exact R7|].
  split; [exact R5|]. split; [exact R5'|].
  split; [exact R8|]. split; [exact R9|]. split; [exact R10|].
  split; [exact R2|]. exact R1.
Qed.

(* decodeHuffman_spec as stated in the task is FALSE (see the top of the file): tabs_ok does not
   bound the symbol field of a plain litShort entry.  decodeHuffman_spec_v2 = the requested
   statement plus the hypothesis  all_entries lit_short_sym_ok (litShort (tb s)). *)
Theorem decodeHuffman_spec_v2 : forall s out w s' out' w' e,
  decodeHuffman s out w = (s', out', w', e) ->
  br_inv (rd s) -> (0 <= r_len (rd s))%Z -> tabs_ok (tb s) ->
  all_entries lit_short_sym_ok (litShort (tb s)) -> w <= outLen ->
  e <> EPanic /\ e <> EFuel /\ e <> EInvalidBlock /\
  br_inv (rd s') /\ (0 <= r_len (rd s'))%Z /\
  w <= w' /\ w' <= outLen /\
  (avail (rd s') <= avail (rd s))%Z /\ r_inlen (rd s') <= r_inlen (rd s) /\
  (e = EEndInput -> r_inlen (rd s') = 0) /\
  (e = EOutputOverflow -> w' = outLen) /\
  (e = ENone -> phase s' <> phaseHeaderDecoded) /\
  (phase s' = phase s \/ phase s' = phaseStreamEnd \/ phase s' = phaseNewBlock) /\
  inputNil s' = inputNil s /\ tb s' = tb s /\ bfinal s' = bfinal s /\
  litBlockLength s' = litBlockLength s /\
  headerBuffered s' = headerBuffered s /\ headerBuffer s' = headerBuffer s /\ dyn s' = dyn s /\
  roffset s' = roffset s.
Proof.
  intros s out w s' out' w' e.
  (* unfold in the goal, not in a hypothesis: the kernel then unfolds decodeHuffman before
     huff_outer and never evaluates big_fuel *)
  unfold decodeHuffman.
  intros H Hinv H0 Ht Hsym Hw.
  pose proof (decodeHuffman_gen big_fuel s out w s' out' w' e H
                (big_fuel_enough w _) Hinv H0 Ht Hsym Hw)
    as (R1 & R2 & R3 & R4 & R5 & R6 & R7 & R8 & R9 & R10 & R11 & R12).
  unfold outer_err in R1.
  split; [destruct R1 as [Q|[Q|[Q|[Q|Q]]]]; rewrite Q; discriminate|].
  split; [destruct R1 as [Q|[Q|[Q|[Q|Q]]]]; rewrite Q; discriminate|].
  split; [destruct R1 as [Q|[Q|[Q|[Q|Q]]]]; rewrite Q; discriminate|].
  split; [exact R2|]. split; [exact R3|]. split; [exact R4|]. split; [exact R5|].
  split; [exact R6|]. split; [exact R7|]. split; [exact R8|]. split; [exact R9|].
  split; [exact R10|]. split; [exact R11|]. exact R12.
Qed.

(* the counterexample to the requested decodeHuffman_spec, machine-checked *)
Lemma decodeHuffman_spec_counterexample :
  exists s out w,
    br_inv (rd s) /\ (0 <= r_len (rd s))%Z /\ tabs_ok (tb s) /\ w <= outLen /\
    snd (decodeHuffman s out w) = EFuel.
Proof.
  exists (mkInflate (mkBR 0 0%Z (repeat 0 16) 16) false ov0
            (mkTB (arr_of_list (repeat 0x19000500 4096)) aempty aempty aempty)
            phaseHeaderDecoded 0 0 0 [] dyn0 0%Z), aempty, outLen.
  cbn [rd tb r_len].
  split; [unfold br_inv; cbn [r_inlen r_in r_len]; split; [reflexivity|split; [lia|intros; lia]]|].
  split; [lia|]. split.
  - unfold tabs_ok; cbn [litShort litLong distShort distLong].
    split; [|split; [|split]].
    + apply all_entries_of_list; [exact lit_short_ok_0|].
      apply (forallb_Forall_impl lit_short_okb); [exact lit_short_okb_ok|]. vm_compute. reflexivity.
    + apply all_entries_empty. exact lit_long_ok_0.
    + apply all_entries_empty. exact dist_short_ok_0.
    + apply all_entries_empty. exact dist_long_ok_0.
  - split; [unfold outLen; lia|]. vm_compute. reflexivity.
Qed.

Print Assumptions decodeLiteralBlock_spec.
Print Assumptions decodeHuffman_spec_v2.

Print Assumptions decodeHuffman_spec_counterexample.
