(* EngineCompleteHuffPad.v -- completeness side of M5, layer 1: what a table lookup on the
   zero-padded buffer means for the reference decoder:
   - a matched word that ends beyond the real bits: the reference needs input (need_word,
     need_dist);
   - no word matches: the reference calls the symbol corrupt, or (only for the prefixes of the
     words of the unassigned symbols 286/287 of the fixed code) needs input (bad_lit, bad_dist). *)
From Coq Require Import List NArith ZArith Bool Lia ZifyBool ZifyNat ZifyN.
From Verif Require Import Bits Huffman HuffmanSpec Inflate InflateSpec InflateMono.
From Verif Require Import Base EngineTables Engine EngineRefineSpec EngineRefineSpecBlock
                          EngineRefineBits EngineRefineBridge.
From Verif Require HuffmanProofs SymbolsProofs EngineFacts.
From Verif Require Import EngineRefineHuffBase EngineRefineHuffSyms.
From Verif Require Import EngineCompleteSpecA EngineCompleteHuffTrie.
Import ListNotations.
Open Scope N_scope.

(* ---------------------------------------------------------------- lists *)
Lemma firstn_repeat_le : forall (A : Type) (x : A) n m, (n <= m)%nat -> firstn n (repeat x m) = repeat x n.
Proof.
  induction n as [|n IH]; intros m H; [reflexivity|].
  destruct m as [|m]; [lia|]. cbn [repeat firstn]. f_equal. apply IH. lia.
Qed.

Lemma padded_short : forall l k, (length l <= k)%nat -> padded l k = l ++ repeat false (k - length l).
Proof.
  intros l k H. unfold padded. rewrite firstn_app, firstn_all2 by lia. f_equal.
  apply firstn_repeat_le. lia.
Qed.

Lemma firstn_zeros_padded : forall l k m, (length l <= k)%nat -> (k <= length l + m)%nat ->
  firstn k (l ++ repeat false m) = padded l k.
Proof.
  intros l k m H1 H2. rewrite padded_short by exact H1. rewrite firstn_app, firstn_all2 by lia.
  f_equal. apply firstn_repeat_le. lia.
Qed.

Lemma app_prefix : forall (A : Type) (l1 r1 l2 r2 : list A), l1 ++ r1 = l2 ++ r2 ->
  (length l1 <= length l2)%nat -> exists z, l2 = l1 ++ z /\ r1 = z ++ r2.
Proof.
  induction l1 as [|a l1 IH]; intros r1 l2 r2 H Hl.
  - exists l2. split; [reflexivity|exact H].
  - destruct l2 as [|b l2]; [cbn in Hl; lia|]. cbn [app] in H. injection H as -> H.
    destruct (IH _ _ _ H ltac:(cbn in Hl; lia)) as (z & -> & ->). exists z. auto.
Qed.

Lemma take_short : forall k l p, (length l < k)%nat -> take k (mkbs l p) = None.
Proof.
  induction k as [|k IH]; intros l p H; [lia|]. cbn [take]. unfold take1. cbn [bl bp].
  destruct l as [|b r]; [reflexivity|]. rewrite IH by (cbn in H; lia). reflexivity.
Qed.

Lemma repeat_nonnil : forall (A : Type) (x : A) n, (0 < n)%nat -> repeat x n <> [].
Proof. intros A x n H. destruct n; [lia|discriminate]. Qed.

(* ---------------------------------------------------------------- matching = padded stream *)
Lemma br_loaded_le : forall k k' b, br_loaded k b -> (k' <= k)%Z -> br_loaded k' b.
Proof. intros k k' b [H|H] Hk; [left; exact H|right; lia]. Qed.

Lemma match_padded : forall b len w, br_wf b -> br_loaded (Z.of_nat len) b ->
  N.land (r_bits b) (N.ones (N.of_nat len)) = N_of_bits w -> length w = len ->
  padded (br_bits b) len = w.
Proof.
  intros b len w Hwf Hld H Hl.
  assert (Hld' : br_loaded (Z.of_N (N.of_nat len)) b) by (rewrite nat_N_Z; exact Hld).
  rewrite (peek_bits b (N.of_nat len) Hwf Hld'), Nat2N.id in H.
  apply N_of_bits_inj; [rewrite padded_length; lia|exact H].
Qed.

Lemma cw_match_padded : forall b len c, br_wf b -> br_loaded (Z.of_nat len) b ->
  cw_match (r_bits b) len c -> padded (br_bits b) len = code_bits len c.
Proof.
  intros b len c Hwf Hld H. apply match_padded; [exact Hwf|exact Hld|exact H|apply code_bits_length].
Qed.

Lemma padded_cw_match : forall b len c, br_wf b -> br_loaded (Z.of_nat len) b ->
  padded (br_bits b) len = code_bits len c -> cw_match (r_bits b) len c.
Proof.
  intros b len c Hwf Hld H. unfold cw_match, rcode.
  assert (Hld' : br_loaded (Z.of_N (N.of_nat len)) b) by (rewrite nat_N_Z; exact Hld).
  rewrite (peek_bits b (N.of_nat len) Hwf Hld'), Nat2N.id, H. reflexivity.
Qed.

Lemma xmatch_padded : forall b len val, br_wf b -> br_loaded (Z.of_nat len) b ->
  xmatch (r_bits b) len val -> padded (br_bits b) len = bits_of_N len val.
Proof.
  intros b len val Hwf Hld H. apply match_padded; [exact Hwf|exact Hld| |apply bits_of_N_length].
  rewrite N_of_bits_of_N; [exact H|]. unfold xmatch in H. rewrite <- H, N.land_ones.
  apply N.mod_lt. apply N.pow_nonzero. lia.
Qed.

Lemma br_bits_exhausted : forall b, r_in b = [] -> length (br_bits b) = Z.to_nat (r_len b).
Proof. intros b H. rewrite br_bits_length, H. cbn [length]. lia. Qed.

(* ---------------------------------------------------------------- building xcodes *)
Lemma xcodes_lit : forall ll s0 len0 c, In (s0, len0, c) (canon ll) -> (s0 <= 256)%nat ->
  In (N.of_nat s0, len0, rcode len0 c) (xcodes ll).
Proof.
  intros ll s0 len0 c Hin Hs. unfold xcodes. apply in_flat_map. exists (s0, len0, c).
  split; [exact Hin|]. destruct (Nat.leb_spec s0 256) as [_|H]; [left; reflexivity|lia].
Qed.

Lemma xcodes_len : forall ll s0 len0 c base eb x, In (s0, len0, c) (canon ll) -> (256 < s0)%nat ->
  nth_error len_table (s0 - 257) = Some (base, eb) -> x < 2 ^ eb ->
  In (base + x + 254, (len0 + N.to_nat eb)%nat, rcode len0 c + x * 2 ^ N.of_nat len0) (xcodes ll).
Proof.
  intros ll s0 len0 c base eb x Hin Hs Hn Hx. unfold xcodes. apply in_flat_map. exists (s0, len0, c).
  split; [exact Hin|]. destruct (Nat.leb_spec s0 256) as [H|_]; [lia|]. rewrite Hn.
  apply in_map_iff. exists x. split; [reflexivity|]. apply hs_seqN_In. lia.
Qed.

Lemma len_table_valid : forall s0, (256 < s0 < 286)%nat -> exists base eb, nth_error len_table (s0 - 257) = Some (base, eb).
Proof.
  intros s0 H. destruct (nth_error len_table (s0 - 257)) as [[base eb]|] eqn:E; [eauto|].
  apply nth_error_None in E. cbn [len_table length] in E. lia.
Qed.

Lemma len_table_invalid : forall s0, (286 <= s0)%nat -> nth_error len_table (s0 - 257) = None.
Proof. intros s0 H. apply nth_error_None. cbn [len_table length]. lia. Qed.

(* a matched code word of an assigned symbol gives a matched extended code word *)
Lemma match_gives_xcode : forall ll s0 len0 c v, In (s0, len0, c) (canon ll) -> (s0 < 286)%nat ->
  cw_match v len0 c -> exists s len val, In (s, len, val) (xcodes ll) /\ xmatch v len val.
Proof.
  intros ll s0 len0 c v Hin Hs Hm.
  destruct (Nat.leb_spec s0 256) as [Hle|Hgt].
  - exists (N.of_nat s0), len0, (rcode len0 c). split; [apply xcodes_lit; assumption|exact Hm].
  - destruct (len_table_valid s0 ltac:(lia)) as (base & eb & Hn).
    set (x := N.land (N.shiftr v (N.of_nat len0)) (N.ones eb)).
    assert (Hx : x < 2 ^ eb).
    { unfold x. rewrite N.land_ones. apply N.mod_lt. apply N.pow_nonzero. lia. }
    exists (base + x + 254), (len0 + N.to_nat eb)%nat, (rcode len0 c + x * 2 ^ N.of_nat len0).
    split; [apply (xcodes_len ll s0 len0 c base eb x Hin ltac:(lia) Hn Hx)|].
    unfold xmatch. unfold cw_match in Hm. rewrite <- Hm. unfold x.
    rewrite !N.land_ones, N.shiftr_div_pow2.
    replace (N.of_nat (len0 + N.to_nat eb)) with (N.of_nat len0 + eb) by lia.
    rewrite N.pow_add_r. rewrite N.mod_mul_r by (apply N.pow_nonzero; lia). lia.
Qed.

Lemma xcodes_len_bound : forall ll s len val, Forall (fun x => (x <= 15)%nat) ll ->
  In (s, len, val) (xcodes ll) -> (1 <= len <= 20)%nat /\ (s <= 256 -> (len <= 15)%nat).
Proof.
  intros ll s len val Hl Hin.
  destruct (xcodes_inv _ _ _ _ Hin) as (s0 & len0 & c & Hc & [(H1 & -> & -> & ->)|(H1 & base & eb & x & Hn & Hx & -> & -> & ->)]);
    pose proof (canon_len 15 ll s0 len0 c ltac:(lia) Hl Hc) as Hb.
  - split; [lia|]. intros _. lia.
  - destruct (len_table_bounds _ _ _ Hn) as (B1 & B2 & B3). split; [lia|]. intros Hs. lia.
Qed.

(* ---------------------------------------------------------------- a matched word that ends
   beyond the real bits *)
Lemma need_word : forall ll lt dt s len val b st p,
  mktrie 15 ll = Some lt -> In (s, len, val) (xcodes ll) -> xmatch (r_bits b) len val ->
  br_wf b -> r_in b = [] -> (0 <= r_len b < Z.of_nat len)%Z ->
  sym1 lt dt st (mkbs (br_bits b) p) = SStop st (mkbs (br_bits b) p) NeedInput.
Proof.
  intros ll lt dt s len val b st p Hmk Hin Hm Hwf Hex Hlen.
  pose proof (br_bits_exhausted b Hex) as HR.
  assert (Hld : br_loaded (Z.of_nat len) b) by (left; exact Hex).
  pose proof (xmatch_padded b len val Hwf Hld Hm) as HP.
  rewrite padded_short in HP by lia.
  set (R := br_bits b) in *.
  assert (Hz : repeat false (len - length R) <> []) by (apply repeat_nonnil; lia).
  destruct (xcodes_inv _ _ _ _ Hin) as (s0 & len0 & c & Hc & [(H1 & -> & -> & ->)|(H1 & base & eb & x & Hn & Hx & -> & -> & ->)]).
  - rewrite rcode_word in HP.
    unfold sym1. rewrite (canon_need 15%nat ll lt s0 len0 c R _ p Hmk Hc (eq_sym HP) Hz). reflexivity.
  - rewrite xword in HP by (rewrite N2Nat.id; exact Hx).
    destruct (Nat.ltb_spec (length R) len0) as [Hsh|Hlo].
    + destruct (app_prefix _ _ _ _ _ HP ltac:(rewrite code_bits_length; lia)) as (z & Ez & _).
      assert (Hz' : z <> []).
      { intros ->. rewrite app_nil_r in Ez. apply (f_equal (@length bool)) in Ez.
        rewrite code_bits_length in Ez. lia. }
      unfold sym1. rewrite (canon_need 15%nat ll lt s0 len0 c R z p Hmk Hc Ez Hz'). reflexivity.
    + destruct (app_prefix _ _ _ _ _ (eq_sym HP) ltac:(rewrite code_bits_length; lia)) as (z & Ez & Ez2).
      assert (Hzl : (length z < N.to_nat eb)%nat).
      { apply (f_equal (@length bool)) in Ez. rewrite app_length, code_bits_length in Ez. lia. }
      unfold sym1. rewrite Ez.
      rewrite (HuffmanProofs.decode_encode 15%nat ll lt s0 len0 c z p Hmk Hc).
      destruct (Nat.ltb_spec s0 256) as [Hl|_]; [lia|].
      destruct (Nat.eqb_spec s0 256) as [He|_]; [lia|].
      rewrite Hn, take_short by exact Hzl. reflexivity.
Qed.

Lemma need_dist : forall dl dt d len c b p,
  mktrie 15 dl = Some dt -> In (d, len, c) (canon dl) -> cw_match (r_bits b) len c ->
  br_wf b -> r_in b = [] -> (0 <= r_len b < Z.of_nat len)%Z ->
  decode_sym dt (mkbs (br_bits b) p) = DNeed.
Proof.
  intros dl dt d len c b p Hmk Hin Hm Hwf Hex Hlen.
  pose proof (br_bits_exhausted b Hex) as HR.
  assert (Hld : br_loaded (Z.of_nat len) b) by (left; exact Hex).
  pose proof (cw_match_padded b len c Hwf Hld Hm) as HP.
  rewrite padded_short in HP by lia.
  apply (canon_need 15%nat dl dt d len c (br_bits b) _ p Hmk Hin (eq_sym HP)).
  apply repeat_nonnil. lia.
Qed.

(* ---------------------------------------------------------------- padding a prefix of a code
   word: the padded buffer matches a code word *)
Lemma pad_match : canon_pad_statement ->
  forall l t b s len c z, mktrie 15 l = Some t -> Forall (fun x => (x <= 15)%nat) l ->
  br_wf b -> br_loaded 16 b ->
  In (s, len, c) (canon l) -> code_bits len c = br_bits b ++ z ->
  exists s' len' c' z', In (s', len', c') (canon l) /\ cw_match (r_bits b) len' c' /\
    (length (br_bits b) <= len')%nat /\ br_bits b ++ repeat false 15 = code_bits len' c' ++ z'.
Proof.
  intros CP l t b s len c z Hmk Hl Hwf Hld Hin Hw.
  destruct (mktrie_build _ _ _ Hmk) as [Ho _].
  destruct (CP 15%nat l (br_bits b) z s len c ltac:(lia) Hl Ho Hin Hw) as (s' & len' & c' & z' & Hin' & Hp & Hlen).
  exists s', len', c', z'. split; [exact Hin'|].
  pose proof (canon_len 15 l s' len' c' ltac:(lia) Hl Hin') as Hb.
  split; [|split; [exact Hlen|exact Hp]].
  apply padded_cw_match; [exact Hwf|eapply br_loaded_le; [exact Hld|lia]|].
  rewrite <- (firstn_zeros_padded (br_bits b) len' 15) by lia.
  rewrite Hp, firstn_app_le by (rewrite code_bits_length; lia).
  rewrite <- (code_bits_length len' c') at 1. apply firstn_all.
Qed.

(* the code words of the unassigned symbols 286/287 (fixed code only) *)
Definition fixed_canon := Eval vm_compute in canon fixed_lit_lens.
Lemma fixed_canon_eq : canon fixed_lit_lens = fixed_canon.
Proof. vm_compute. reflexivity. Qed.

Definition p7 : list bool := [true; true; false; false; false; true; true].
Fixpoint bools_eqb (a b : list bool) : bool :=
  match a, b with
  | [], [] => true
  | x :: a', y :: b' => Bool.eqb x y && bools_eqb a' b'
  | _, _ => false
  end.
Lemma bools_eqb_refl : forall a, bools_eqb a a = true.
Proof. induction a as [|x a IH]; [reflexivity|]. cbn. rewrite IH. destruct x; reflexivity. Qed.

Lemma fixed_check1 :
  forallb (fun e : nat * nat * N => let '(s, len, c) := e in
             (s <? 286)%nat || bools_eqb (firstn 7 (code_bits len c)) p7) fixed_canon = true.
Proof. vm_compute. reflexivity. Qed.
Lemma fixed_check2 :
  forallb (fun e : nat * nat * N => let '(s, len, c) := e in
             (286 <=? s)%nat || negb (bools_eqb (firstn 7 (code_bits len c)) p7)) fixed_canon = true.
Proof. vm_compute. reflexivity. Qed.

Lemma pad286 : forall ll s' len' c' s len c R z z',
  ((length ll <= 286)%nat \/ ll = fixed_lit_lens) ->
  In (s', len', c') (canon ll) -> (286 <= s')%nat ->
  In (s, len, c) (canon ll) -> code_bits len c = R ++ z ->
  R ++ repeat false 15 = code_bits len' c' ++ z' -> (length R <= len')%nat ->
  (286 <= s)%nat.
Proof.
  intros ll s' len' c' s len c R z z' [Hlen| ->] Hin' Hs' Hin Hw Hp HR.
  - apply canon_sym_lt in Hin'. lia.
  - rewrite fixed_canon_eq in Hin, Hin'.
    pose proof fixed_check1 as C1. rewrite forallb_forall in C1. specialize (C1 _ Hin').
    pose proof fixed_check2 as C2. rewrite forallb_forall in C2. specialize (C2 _ Hin).
    cbn beta iota in C1, C2.
    destruct (Nat.ltb_spec s' 286) as [Hlt|_]; [lia|]. cbn [orb] in C1.
    destruct (Nat.leb_spec 286 s) as [Hge|Hlt]; [exact Hge|]. cbn [orb] in C2.
    exfalso.
    (* the first 7 bits of the word of s' are p7; bit 6 is set, so R has at least 7 bits *)
    assert (E7 : firstn 7 (code_bits len' c') = p7).
    { revert C1. generalize (firstn 7 (code_bits len' c')). unfold p7.
      intros l H.
      repeat (destruct l as [|[] l]; cbn in H; try discriminate). reflexivity. }
    assert (H7 : (7 <= length R)%nat).
    { destruct (Nat.leb_spec 7 (length R)) as [H|H]; [exact H|]. exfalso.
      assert (Hn : nth 6 (R ++ repeat false 15) false = false).
      { rewrite app_nth2 by lia. apply nth_repeat. }
      rewrite Hp in Hn.
      assert (Hl7 : (7 <= len')%nat).
      { apply (f_equal (@length bool)) in E7. rewrite firstn_length, code_bits_length in E7.
        unfold p7 in E7. cbn [length] in E7. lia. }
      rewrite app_nth1 in Hn by (rewrite code_bits_length; lia).
      rewrite <- (nth_firstn_lt _ (code_bits len' c') 7 6 false) in Hn by lia.
      rewrite E7 in Hn. cbn in Hn. discriminate. }
    assert (ER : firstn 7 R = p7).
    { rewrite <- E7. apply (f_equal (firstn 7)) in Hp.
      rewrite firstn_app_le in Hp by lia.
      rewrite firstn_app_le in Hp by (rewrite code_bits_length; lia). exact Hp. }
    rewrite Hw, firstn_app_le, ER, bools_eqb_refl in C2 by lia. discriminate.
Qed.

(* ---------------------------------------------------------------- no extended code word
   matches: the next symbol is corrupt (or, at a prefix of an unassigned code word, incomplete) *)
Lemma bad_lit : canon_pad_statement ->
  forall ll lt dt b st p e,
  mktrie 15 ll = Some lt -> Forall (fun x => (x <= 15)%nat) ll ->
  ((length ll <= 286)%nat \/ ll = fixed_lit_lens) ->
  br_wf b -> (0 <= r_len b)%Z -> br_loaded 57 b ->
  (forall s len val, In (s, len, val) (xcodes ll) -> ~ xmatch (r_bits b) len val) ->
  exists x, sym1 lt dt st (mkbs (br_bits b ++ e) p) = SStop st (mkbs (br_bits b ++ e) p) x /\
            (x = Corrupt \/ x = NeedInput) /\ ((15 <= length e)%nat -> x = Corrupt).
Proof.
  intros CP ll lt dt b st p e Hmk Hl H286 Hwf H0 Hld Hno.
  assert (Hld16 : br_loaded 16 b) by (eapply br_loaded_le; [exact Hld|lia]).
  assert (Hnocw : forall s0 len0 c, In (s0, len0, c) (canon ll) -> (s0 < 286)%nat ->
                    ~ cw_match (r_bits b) len0 c).
  { intros s0 len0 c Hin Hs Hm.
    destruct (match_gives_xcode ll s0 len0 c (r_bits b) Hin Hs Hm) as (s & len & val & Hx & Hxm).
    exact (Hno _ _ _ Hx Hxm). }
  set (R := br_bits b) in *.
  unfold sym1.
  destruct (decode_sym lt (mkbs (R ++ e) p)) as [sym s1| |] eqn:Hd.
  - destruct (decode_sym_canon 15%nat ll lt (R ++ e) p sym s1 Hmk Hd) as (len0 & c & Hin & Hw & _).
    pose proof (canon_len 15 ll sym len0 c ltac:(lia) Hl Hin) as Hb.
    assert (Hbig : (286 <= sym)%nat).
    { destruct (Nat.leb_spec 286 sym) as [H|Hsm]; [exact H|]. exfalso.
      destruct (Nat.leb_spec len0 (length R)) as [Hin'|Hout].
      - apply (Hnocw sym len0 c Hin Hsm).
        apply padded_cw_match; [exact Hwf|eapply br_loaded_le; [exact Hld|lia]|].
        unfold R in *. rewrite padded_enough by exact Hin'.
        apply (f_equal (firstn len0)) in Hw.
        rewrite firstn_app_le in Hw by exact Hin'.
        rewrite firstn_app_le in Hw by (rewrite code_bits_length; lia).
        rewrite Hw. rewrite <- (code_bits_length len0 c) at 1. apply firstn_all.
      - destruct (app_prefix _ _ _ _ _ Hw ltac:(rewrite code_bits_length; lia)) as (z & Ez & _).
        destruct (pad_match CP ll lt b sym len0 c z Hmk Hl Hwf Hld16 Hin Ez)
          as (s' & len' & c' & z' & Hin' & Hm' & Hlen' & Hp').
        destruct (Nat.ltb_spec s' 286) as [Hs'|Hs'].
        + exact (Hnocw s' len' c' Hin' Hs' Hm').
        + pose proof (pad286 ll s' len' c' sym len0 c R z z' H286 Hin' Hs' Hin Ez Hp' Hlen'). lia. }
    destruct (Nat.ltb_spec sym 256) as [Hlt|_]; [lia|].
    destruct (Nat.eqb_spec sym 256) as [He|_]; [lia|].
    rewrite len_table_invalid by exact Hbig.
    exists Corrupt. split; [reflexivity|]. split; [left; reflexivity|]. intros _; reflexivity.
  - exists NeedInput. split; [reflexivity|]. split; [right; reflexivity|].
    intros He. exfalso.
    destruct (need_canon 15%nat ll lt (R ++ e) p Hmk Hd) as (s & len & c & z & Hin & Hw & Hz).
    pose proof (canon_len 15 ll s len c ltac:(lia) Hl Hin) as Hb.
    apply (f_equal (@length bool)) in Hw. rewrite !app_length, code_bits_length in Hw.
    destruct z; [contradiction|]. cbn [length] in Hw. lia.
  - exists Corrupt. split; [reflexivity|]. split; [left; reflexivity|]. intros _; reflexivity.
Qed.

Lemma bad_dist : canon_pad_statement ->
  forall dl dt b p e,
  mktrie 15 dl = Some dt -> Forall (fun x => (x <= 15)%nat) dl ->
  br_wf b -> (0 <= r_len b)%Z -> br_loaded 16 b ->
  (forall d len c, In (d, len, c) (canon dl) -> ~ cw_match (r_bits b) len c) ->
  decode_sym dt (mkbs (br_bits b ++ e) p) = DBad.
Proof.
  intros CP dl dt b p e Hmk Hl Hwf H0 Hld Hno.
  set (R := br_bits b) in *.
  destruct (decode_sym dt (mkbs (R ++ e) p)) as [sym s1| |] eqn:Hd; [| |reflexivity]; exfalso.
  - destruct (decode_sym_canon 15%nat dl dt (R ++ e) p sym s1 Hmk Hd) as (len0 & c & Hin & Hw & _).
    pose proof (canon_len 15 dl sym len0 c ltac:(lia) Hl Hin) as Hb.
    destruct (Nat.leb_spec len0 (length R)) as [Hin'|Hout].
    + apply (Hno sym len0 c Hin).
      apply padded_cw_match; [exact Hwf|eapply br_loaded_le; [exact Hld|lia]|].
      unfold R in *. rewrite padded_enough by exact Hin'.
      apply (f_equal (firstn len0)) in Hw.
      rewrite firstn_app_le in Hw by exact Hin'.
      rewrite firstn_app_le in Hw by (rewrite code_bits_length; lia).
      rewrite Hw. rewrite <- (code_bits_length len0 c) at 1. apply firstn_all.
    + destruct (app_prefix _ _ _ _ _ Hw ltac:(rewrite code_bits_length; lia)) as (z & Ez & _).
      destruct (pad_match CP dl dt b sym len0 c z Hmk Hl Hwf Hld Hin Ez)
        as (s' & len' & c' & z' & Hin' & Hm' & _).
      exact (Hno s' len' c' Hin' Hm').
  - destruct (need_canon 15%nat dl dt (R ++ e) p Hmk Hd) as (s & len & c & z & Hin & Hw & Hz).
    rewrite <- app_assoc in Hw.
    destruct (pad_match CP dl dt b s len c (e ++ z) Hmk Hl Hwf Hld Hin Hw)
      as (s' & len' & c' & z' & Hin' & Hm' & _).
    exact (Hno s' len' c' Hin' Hm').
Qed.
