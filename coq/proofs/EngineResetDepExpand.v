(* SNAPSHOT (frozen copy, taken for the Reset-equivalence proof EngineResetProofs.v) of
   proofs/EngineSafetyExpand.v as of 2026-10-01 23:40, truncated before its final theorem
   setAndExpand_spec (its content is re-proved, strengthened, in EngineResetHdr4.v). *)
(* EngineSafetyExpand.v -- safety (no Go panic) and the sorting post-condition of
   setAndExpandLitLenHuffCode (with calcCodeForLit and expandLenCodes) of RModel/Engine.v.

   Main result: setAndExpand_spec (statement exactly as requested). *)
From Verif Require Import Engine EngineTables.
From Verif Require Import Base EngineSafetyBase EngineSafetyBits EngineSafetyInv.
From Coq Require Import List NArith ZArith Bool Lia ZifyBool ZifyNat ZifyN.
Import ListNotations.
Open Scope N_scope.

(* ---------------------------------------------------------------- small arithmetic *)
Lemma u16_u32 : forall x, u16 (u32 x) = u16 x.
Proof.
  intros x. unfold u16, u32. rewrite <- N.land_assoc. f_equal.
Qed.

Lemma mod_add_congr : forall a a' b b' m, m <> 0 ->
  a mod m = a' mod m -> b mod m = b' mod m -> (a + b) mod m = (a' + b') mod m.
Proof.
  intros a a' b b' m Hm Ha Hb.
  rewrite (N.add_mod a b m), (N.add_mod a' b' m) by exact Hm. rewrite Ha, Hb. reflexivity.
Qed.

Lemma shiftr_le : forall a b, N.shiftr a b <= a.
Proof.
  intros a b. rewrite N.shiftr_div_pow2.
  apply N.div_le_upper_bound; [apply N.pow_nonzero; lia|].
  assert (H : 2 ^ b <> 0) by (apply N.pow_nonzero; lia).
  nia.
Qed.

Lemma rev_bits_bound : forall n x acc, rev_bits n x acc + 1 <= 2 ^ N.of_nat n * (acc + 1).
Proof.
  induction n as [|k IH]; intros x acc.
  - cbn [rev_bits]. change (2 ^ N.of_nat 0) with 1. lia.
  - cbn [rev_bits]. specialize (IH (N.shiftr x 1) (2 * acc + N.land x 1)).
    pose proof (land_le_r x 1) as Hb.
    replace (N.of_nat (S k)) with (N.succ (N.of_nat k)) by lia.
    rewrite N.pow_succ_r'.
    assert (H2 : 2 ^ N.of_nat k * (2 * acc + N.land x 1 + 1) <= 2 ^ N.of_nat k * (2 * (acc + 1))).
    { apply N.mul_le_mono_l. lia. }
    lia.
Qed.

Lemma bitReverse2_lt : forall c l, bitReverse2 c l < 65536.
Proof.
  intros c l. unfold bitReverse2.
  pose proof (shiftr_le (rev_bits 16 (u16 c) 0) (u8 (subw 8 16 (u8 l)))) as H1.
  pose proof (rev_bits_bound 16 (u16 c) 0) as H2.
  change (2 ^ N.of_nat 16) with 65536 in H2. lia.
Qed.

Lemma hc_len_set : forall c l, c < 16777216 -> l < 256 -> hc_len (hc_set c l) = l.
Proof.
  intros c l Hc Hl. unfold hc_len, hc_set.
  assert (Hs : N.shiftl l 24 < 2 ^ 32).
  { change 32 with (8 + 24). apply shiftl_lt_pow2. exact Hl. }
  rewrite u32_small.
  - apply shiftr_lor_shiftl. exact Hc.
  - change 4294967296 with (2 ^ 32). apply lor_lt_pow2; [|exact Hs].
    change (2 ^ 32) with 4294967296. lia.
Qed.

Lemma hc_set_lt : forall c l, hc_set c l < 4294967296.
Proof. intros. unfold hc_set. apply u32_lt. Qed.

(* ---------------------------------------------------------------- array-filling loops *)
Lemma forN_aset_get : forall (g : N -> N) lo hi a j, lo <= hi ->
  aget (forN lo hi (fun i t => aset t i (g i)) a) j =
  if (lo <=? j) && (j <? hi) then g j else aget a j.
Proof.
  intros g lo hi a j Hle.
  apply (forN_ind arr (fun k t => forall j, aget t j = if (lo <=? j) && (j <? k) then g j else aget a j)).
  - exact Hle.
  - intros j0. destruct (lo <=? j0) eqn:E1; destruct (j0 <? lo) eqn:E2; try reflexivity. lia.
  - intros k t Hk IH j0. rewrite aget_aset. rewrite IH.
    destruct (N.eqb_spec j0 k) as [->|Hne].
    + replace ((lo <=? k) && (k <? k + 1)) with true by lia. reflexivity.
    + destruct (lo <=? j0) eqn:E1; cbn [andb]; [|reflexivity].
      destruct (j0 <? k) eqn:E2; destruct (j0 <? k + 1) eqn:E3; try reflexivity; lia.
Qed.

(* ---------------------------------------------------------------- counting *)
Lemma count_len_succ : forall h b j l,
  count_len h b (N.to_nat (j + 1)) l =
  count_len h b (N.to_nat j) l + (if hc_len (aget h (b + j)) =? l then 1 else 0).
Proof.
  intros h b j l. replace (N.to_nat (j + 1)) with (S (N.to_nat j)) by lia.
  cbn [count_len]. rewrite N2Nat.id. reflexivity.
Qed.

Lemma count_len_mono : forall h b l n m, (n <= m)%nat -> count_len h b n l <= count_len h b m l.
Proof.
  intros h b l n m H. induction H as [|m H IH]; [lia|]. cbn [count_len]. lia.
Qed.

Lemma count_len_ext : forall h h' b l n,
  (forall i, b <= i < b + N.of_nat n -> aget h i = aget h' i) ->
  count_len h b n l = count_len h' b n l.
Proof.
  intros h h' b l n. induction n as [|k IH]; intros H; [reflexivity|].
  cbn [count_len]. rewrite IH by (intros i Hi; apply H; lia).
  rewrite (H (b + N.of_nat k)) by lia. reflexivity.
Qed.

Lemma count_len_split : forall h l a b,
  count_len h 0 (a + b) l = count_len h 0 a l + count_len h (N.of_nat a) b l.
Proof.
  intros h l a b. induction b as [|k IH].
  - rewrite Nat.add_0_r. cbn [count_len]. lia.
  - rewrite Nat.add_succ_r. cbn [count_len]. rewrite IH.
    replace (0 + N.of_nat (a + k)) with (N.of_nat a + N.of_nat k) by lia. lia.
Qed.

Lemma count_len_none : forall h b l n,
  (forall i, hc_len (aget h i) <> l) -> count_len h b n l = 0.
Proof.
  intros h b l n H. induction n as [|k IH]; [reflexivity|].
  cbn [count_len]. rewrite IH. specialize (H (b + N.of_nat k)).
  destruct (N.eqb_spec (hc_len (aget h (b + N.of_nat k))) l); [contradiction|reflexivity].
Qed.

(* sum_{j=1..n} f j *)
Fixpoint psum (f : N -> N) (n : nat) : N :=
  match n with O => 0 | S k => psum f k + f (N.of_nat k + 1) end.

Lemma psum_ext : forall f g n, (forall j, 1 <= j <= N.of_nat n -> f j = g j) -> psum f n = psum g n.
Proof.
  intros f g n. induction n as [|k IH]; intros H; [reflexivity|].
  cbn [psum]. rewrite IH by (intros j Hj; apply H; lia). rewrite H by lia. reflexivity.
Qed.

Lemma psum_add : forall f g n, psum (fun j => f j + g j) n = psum f n + psum g n.
Proof.
  intros f g n. induction n as [|k IH]; [reflexivity|]. cbn [psum]. rewrite IH. lia.
Qed.

Lemma psum_mono : forall f n m, (n <= m)%nat -> psum f n <= psum f m.
Proof.
  intros f n m H. induction H as [|m H IH]; [lia|]. cbn [psum]. lia.
Qed.

Lemma psum_single : forall f t n, (forall j, j <> t -> f j = 0) ->
  psum f n = if (1 <=? t) && (t <=? N.of_nat n) then f t else 0.
Proof.
  intros f t n H. induction n as [|k IH].
  - cbn [psum]. replace ((1 <=? t) && (t <=? N.of_nat 0)) with false by lia. reflexivity.
  - cbn [psum]. rewrite IH.
    destruct (N.eq_dec (N.of_nat k + 1) t) as [Heq|Hne].
    + rewrite Heq.
      replace ((1 <=? t) && (t <=? N.of_nat k)) with false by lia.
      replace ((1 <=? t) && (t <=? N.of_nat (S k))) with true by lia. lia.
    + rewrite (H _ Hne).
      replace ((1 <=? t) && (t <=? N.of_nat (S k))) with ((1 <=? t) && (t <=? N.of_nat k)) by lia.
      lia.
Qed.

Lemma psum_single_le : forall f t w n, (forall j, j <> t -> f j = 0) -> f t <= w -> psum f n <= w.
Proof.
  intros f t w n H Hw. rewrite (psum_single f t n H).
  destruct ((1 <=? t) && (t <=? N.of_nat n)); lia.
Qed.

(* every position counts for at most one length *)
Lemma psum_count_len : forall h b n m, psum (fun l => count_len h b n l) m <= N.of_nat n.
Proof.
  intros h b n m. induction n as [|k IH].
  - cbn [count_len]. rewrite (psum_single (fun _ => 0) 0 m) by reflexivity.
    destruct ((1 <=? 0) && (0 <=? N.of_nat m)); lia.
  - cbn [count_len]. rewrite psum_add.
    pose proof (psum_single_le
      (fun l => if hc_len (aget h (b + N.of_nat k)) =? l then 1 else 0)
      (hc_len (aget h (b + N.of_nat k))) 1 m) as H1.
    assert (H2 : psum (fun l => if hc_len (aget h (b + N.of_nat k)) =? l then 1 else 0) m <= 1).
    { apply H1.
      - intros j Hj. destruct (N.eqb_spec (hc_len (aget h (b + N.of_nat k))) j); [congruence|reflexivity].
      - rewrite N.eqb_refl. lia. }
    change (psum (fun l => count_len h b k l) m) with (psum (count_len h b k) m) in IH.
    clear H1. lia.
Qed.

(* ---------------------------------------------------------------- the length symbols *)
(* number of expanded codes of the length symbol 257 + k *)
Definition xw (k : N) : N := N.shiftl 1 (aget rfc_len_extra k).
(* sum_{k<n} xw k : expandsIdx - 257 before the iteration lenSym = n *)
Fixpoint xsum (n : nat) : N :=
  match n with O => 0 | S k => xsum k + xw (N.of_nat k) end.
(* number of expanded codes of expanded length L produced by the length symbols below n *)
Definition xitem (lh : arr) (k L : N) : N :=
  if negb (hc_len (aget lh k) =? 0) && (hc_len (aget lh k) + aget rfc_len_extra k =? L)
  then xw k else 0.
Fixpoint cntB (lh : arr) (n : nat) (L : N) : N :=
  match n with O => 0 | S k => cntB lh k L + xitem lh (N.of_nat k) L end.

Lemma cntB_succ : forall lh j L,
  cntB lh (N.to_nat (j + 1)) L = cntB lh (N.to_nat j) L + xitem lh j L.
Proof.
  intros lh j L. replace (N.to_nat (j + 1)) with (S (N.to_nat j)) by lia.
  cbn [cntB]. rewrite N2Nat.id. reflexivity.
Qed.

Lemma xsum_succ : forall j, xsum (N.to_nat (j + 1)) = xsum (N.to_nat j) + xw j.
Proof.
  intros j. replace (N.to_nat (j + 1)) with (S (N.to_nat j)) by lia.
  cbn [xsum]. rewrite N2Nat.id. reflexivity.
Qed.

Lemma cntB_mono : forall lh L n m, (n <= m)%nat -> cntB lh n L <= cntB lh m L.
Proof.
  intros lh L n m H. induction H as [|m H IH]; [lia|]. cbn [cntB]. lia.
Qed.

Lemma xsum_mono : forall n m, (n <= m)%nat -> xsum n <= xsum m.
Proof.
  intros n m H. induction H as [|m H IH]; [lia|]. cbn [xsum]. lia.
Qed.

Lemma xsum_29 : xsum 29 = 257.
Proof. vm_compute. reflexivity. Qed.

Lemma lt29_cases : forall (P : N -> Prop),
  (forall k : nat, (k < 29)%nat -> P (N.of_nat k)) -> forall n, n < 29 -> P n.
Proof.
  intros P H n Hn. rewrite <- (N2Nat.id n). apply H. lia.
Qed.

Lemma len_extra_facts : forall n, n < 29 ->
  aget rfc_len_extra n <= 5 /\ 1 <= xw n <= 32 /\ xw n = 2 ^ aget rfc_len_extra n.
Proof.
  apply lt29_cases. intros k Hk.
  assert (Hb : ((aget rfc_len_extra (N.of_nat k) <=? 5) && (1 <=? xw (N.of_nat k)) &&
                (xw (N.of_nat k) <=? 32) &&
                (xw (N.of_nat k) =? 2 ^ aget rfc_len_extra (N.of_nat k))) = true).
  { do 29 (destruct k as [|k]; [vm_compute; reflexivity|]). lia. }
  lia.
Qed.

Lemma len_extra_low : forall n, n < 7 -> aget rfc_len_extra n = 0.
Proof.
  intros n Hn. rewrite <- (N2Nat.id n).
  assert (Hk : (N.to_nat n < 7)%nat) by lia. revert Hk. generalize (N.to_nat n). intros k Hk.
  do 7 (destruct k as [|k]; [vm_compute; reflexivity|]). lia.
Qed.

(* the expanded codes of all lengths together: at most xsum n *)
Lemma psum_xitem : forall lh k m, psum (fun L => xitem lh k L) m <= xw k.
Proof.
  intros lh k m.
  apply (psum_single_le _ (hc_len (aget lh k) + aget rfc_len_extra k)).
  - intros j Hj. unfold xitem.
    destruct (N.eqb_spec (hc_len (aget lh k) + aget rfc_len_extra k) j) as [Heq|Hne]; [congruence|].
    rewrite andb_false_r. reflexivity.
  - unfold xitem. destruct (negb _ && _); lia.
Qed.

Lemma psum_cntB : forall lh n m, psum (cntB lh n) m <= xsum n.
Proof.
  intros lh n m. induction n as [|k IH].
  - rewrite (psum_ext _ (fun _ => 0)) by (intros; reflexivity).
    rewrite (psum_single (fun _ => 0) 0 m) by reflexivity.
    destruct ((1 <=? 0) && (0 <=? N.of_nat m)); cbn [xsum]; lia.
  - rewrite (psum_ext _ (fun L => cntB lh k L + xitem lh (N.of_nat k) L)) by (intros; reflexivity).
    rewrite psum_add. cbn [xsum].
    pose proof (psum_xitem lh (N.of_nat k) m) as H1.
    change (psum (fun L => cntB lh k L) m) with (psum (cntB lh k) m).
    change (psum (fun L => xitem lh (N.of_nat k) L) m) with (psum (xitem lh (N.of_nat k)) m) in *.
    lia.
Qed.

(* ---------------------------------------------------------------- the counting sort *)
Section Sort.
  (* E L: the number of expanded codes of expanded length L *)
  Variable E : N -> N.
  (* start offset of the expanded length L in codeList *)
  Definition Soff (L : N) : N := psum E (N.to_nat (L - 1)).

  Lemma Soff_0 : Soff 0 = 0. Proof. reflexivity. Qed.
  Lemma Soff_1 : Soff 1 = 0. Proof. reflexivity. Qed.
  Lemma Soff_succ : forall L, 1 <= L -> Soff (L + 1) = Soff L + E L.
  Proof.
    intros L HL. unfold Soff. replace (N.to_nat (L + 1 - 1)) with (S (N.to_nat (L - 1))) by lia.
    cbn [psum]. f_equal. f_equal. lia.
  Qed.
  Lemma Soff_mono : forall L L', L <= L' -> Soff L <= Soff L'.
  Proof. intros L L' H. unfold Soff. apply psum_mono. lia. Qed.

  Hypothesis Hsum : Soff 22 <= 514.

  (* the slots [Soff L, Soff L + fill L) of codeList are filled with indices below fr whose
     huffCode has length L *)
  Definition placed (fr : N) (fill : N -> N) (hf cl : arr) : Prop :=
    (forall i, aget hf i < 4294967296) /\
    (forall L k, 1 <= L <= 21 -> Soff L <= k < Soff L + fill L ->
       aget cl k < fr /\ hc_len (aget hf (aget cl k)) = L).

  Lemma placed_weaken : forall fr fr' fill fill' hf cl,
    placed fr fill hf cl -> fr <= fr' ->
    (forall L, 1 <= L <= 21 -> fill' L = fill L) ->
    placed fr' fill' hf cl.
  Proof.
    intros fr fr' fill fill' hf cl [H1 H2] Hfr Hf. split; [exact H1|].
    intros L k HL Hk. rewrite (Hf L HL) in Hk. destruct (H2 L k HL Hk) as [Ha Hb].
    split; [lia|exact Hb].
  Qed.

  Lemma place_one : forall fr fill hf cl L idx v,
    placed fr fill hf cl ->
    1 <= L <= 21 ->
    (forall L', 1 <= L' <= 21 -> fill L' <= E L') ->
    fill L < E L ->
    fr <= idx -> hc_len v = L -> v < 4294967296 ->
    placed (idx + 1) (fun L' => if L' =? L then fill L + 1 else fill L')
           (aset hf idx v) (aset cl (Soff L + fill L) idx).
  Proof.
    intros fr fill hf cl L idx v [Hlt Hsl] HL Hfill HfL Hidx Hv Hv32. split.
    - intros i. rewrite aget_aset. destruct (i =? idx); [exact Hv32|apply Hlt].
    - intros L' k HL' Hk. cbv beta in Hk.
      destruct (N.eqb_spec L' L) as [->|Hne].
      + destruct (N.eq_dec k (Soff L + fill L)) as [->|Hk2].
        * rewrite aget_aset_same. split; [lia|]. rewrite aget_aset_same. exact Hv.
        * rewrite aget_aset_other by exact Hk2.
          destruct (Hsl L k HL) as [Ha Hb]; [lia|]. split; [lia|].
          rewrite aget_aset_other by lia. exact Hb.
      + assert (Hk2 : k <> Soff L + fill L).
        { pose proof (Soff_succ L' (proj1 HL')) as S1. pose proof (Soff_succ L (proj1 HL)) as S2.
          pose proof (Hfill L' HL') as F1.
          destruct (N.lt_ge_cases L' L) as [Hlt'|Hge].
          - pose proof (Soff_mono (L' + 1) L) as M. lia.
          - pose proof (Soff_mono (L + 1) L') as M. lia. }
        rewrite aget_aset_other by exact Hk2.
        destruct (Hsl L' k HL' Hk) as [Ha Hb]. split; [lia|].
        rewrite aget_aset_other by lia. exact Hb.
  Qed.

  Lemma slot_bound : forall L fill, 1 <= L <= 21 -> fill < E L -> Soff L + fill < 514.
  Proof.
    intros L fill HL Hf. pose proof (Soff_succ L (proj1 HL)) as S1.
    pose proof (Soff_mono (L + 1) 22) as M. lia.
  Qed.

  (* ------------------------------------------------------------ calcCodeForLit *)
  Definition calc_inv (huff0 : arr) (j : N) (st : arr * arr * arr * arr * bool) : Prop :=
    let '(hf, cl, ex, nc, pan) := st in
    pan = false /\
    placed j (fun L => count_len huff0 0 (N.to_nat j) L) hf cl /\
    (forall L, 1 <= L <= 21 -> aget ex L = Soff L + count_len huff0 0 (N.to_nat j) L) /\
    (forall i, j <= i -> aget hf i = aget huff0 i).

  Lemma calc_spec : forall huff cl ex nc,
    (forall i, aget huff i < 4294967296) ->
    (forall i, i < 257 -> hc_len (aget huff i) <= 15) ->
    (forall L, 1 <= L <= 21 -> aget ex L = Soff L) ->
    (forall L, 1 <= L <= 21 -> count_len huff 0 257 L <= E L) ->
    calc_inv huff 257 (calcCodeForLit huff cl ex nc).
  Proof.
    intros huff cl ex nc H32 H15 Hex HE. unfold calcCodeForLit.
    apply (forN_ind _ (calc_inv huff)).
    - unfold litSymbolsSize. lia.
    - unfold calc_inv. split; [reflexivity|]. split; [|split].
      + split; [exact H32|]. intros L k HL Hk. change (N.to_nat 0) with O in Hk.
        cbn [count_len] in Hk. lia.
      + intros L HL. change (N.to_nat 0) with O. cbn [count_len]. rewrite (Hex L HL). lia.
      + intros i _. reflexivity.
    - intros j x Hj Hx. unfold litSymbolsSize in Hj.
      destruct x as [[[[hf cl'] ex'] nc'] pan].
      unfold calc_inv in Hx. destruct Hx as (Hpan & Hpl & Hex' & Hfr). subst pan.
      cbv beta iota zeta. rewrite (Hfr j) by lia.
      assert (Hcnt : forall L, count_len huff 0 (N.to_nat (j + 1)) L =
                count_len huff 0 (N.to_nat j) L + (if hc_len (aget huff j) =? L then 1 else 0)).
      { intros L. rewrite count_len_succ. reflexivity. }
      pose proof (H15 j (proj2 Hj)) as Hl15.
      set (l := hc_len (aget huff j)) in *.
      destruct (N.eqb_spec l 0) as [Hl0|Hl0].
      + unfold calc_inv. split; [reflexivity|]. split; [|split].
        * apply (placed_weaken j _ (fun L => count_len huff 0 (N.to_nat j) L)); [exact Hpl|lia|].
          intros L HL. rewrite Hcnt. destruct (N.eqb_spec l L); lia.
        * intros L HL. rewrite Hcnt, (Hex' L HL). destruct (N.eqb_spec l L); lia.
        * intros i Hi. apply Hfr. lia.
      + assert (HL : 1 <= l <= 21) by lia.
        assert (Hlt : count_len huff 0 (N.to_nat j) l < E l).
        { pose proof (HE l HL) as H1.
          pose proof (count_len_mono huff 0 l (N.to_nat (j + 1)) 257) as H2.
          rewrite Hcnt, N.eqb_refl in H2. lia. }
        assert (Hle : forall L', 1 <= L' <= 21 -> count_len huff 0 (N.to_nat j) L' <= E L').
        { intros L' HL'. pose proof (HE L' HL') as H1.
          pose proof (count_len_mono huff 0 L' (N.to_nat j) 257) as H2. lia. }
        rewrite (Hex' l HL).
        pose proof (slot_bound l _ HL Hlt) as Hsb.
        destruct (516 <=? Soff l + count_len huff 0 (N.to_nat j) l) eqn:E516; [lia|].
        unfold calc_inv. split; [reflexivity|]. split; [|split].
        * pose proof (place_one j _ hf cl' l j (hc_set (bitReverse2 (u16 (aget nc' l)) l) l)
                        Hpl HL Hle Hlt) as Hp.
          apply (placed_weaken (j + 1) _ _ _ _ _ (Hp ltac:(lia)
                   ltac:(apply hc_len_set; [pose proof (bitReverse2_lt (u16 (aget nc' l)) l); lia|lia])
                   (hc_set_lt _ _))); [lia|].
          intros L HL'. rewrite Hcnt. destruct (N.eqb_spec L l) as [->|Hne].
          -- rewrite N.eqb_refl. reflexivity.
          -- destruct (N.eqb_spec l L); [congruence|lia].
        * intros L HL'. rewrite aget_aset, Hcnt.
          destruct (N.eqb_spec L l) as [->|Hne].
          -- rewrite N.eqb_refl. rewrite u16_small by lia. lia.
          -- destruct (N.eqb_spec l L); [congruence|]. rewrite (Hex' L HL'). lia.
        * intros i Hi. rewrite aget_aset_other by lia. apply Hfr. lia.
  Qed.

  (* ------------------------------------------------------------ expandLenCodes, inner loop *)
  Definition inner_inv (fill : N -> N) (L base x : N) (st : arr * arr * bool) : Prop :=
    let '(hf, cl, pan) := st in
    pan = false /\
    placed (base + x) (fun L' => fill L' + (if L' =? L then x else 0)) hf cl.

  Lemma inner_spec : forall (v : N -> N) fill L ins base n hf cl,
    placed base fill hf cl -> 1 <= L <= 21 -> ins = Soff L + fill L ->
    fill L + n <= E L ->
    (forall L', 1 <= L' <= 21 -> fill L' <= E L') ->
    base + n <= 514 ->
    (forall x, x < n -> hc_len (v x) = L /\ v x < 4294967296) ->
    inner_inv fill L base n
      (forN 0 n (fun extra (a : arr * arr * bool) =>
         let '(huff, cl, pan) := a in
         if (516 <=? ins + extra) || (514 <=? base + extra) then (huff, cl, true)
         else (aset huff (base + extra) (v extra), aset cl (ins + extra) (base + extra), pan))
         (hf, cl, false)).
  Proof.
    intros v fill L ins base n hf cl Hpl HL Hins HfL Hfill Hbase Hv.
    apply (forN_ind _ (inner_inv fill L base)).
    - lia.
    - unfold inner_inv. split; [reflexivity|].
      apply (placed_weaken base _ fill); [exact Hpl|lia|].
      intros L' HL'. destruct (L' =? L); lia.
    - intros x st Hx Hst. destruct st as [[hf' cl'] pan].
      unfold inner_inv in Hst. destruct Hst as [Hpan Hpl']. subst pan.
      cbv beta iota zeta.
      assert (Hlt : fill L + x < E L) by lia.
      pose proof (slot_bound L _ HL Hlt) as Hsb.
      destruct ((516 <=? ins + x) || (514 <=? base + x)) eqn:Ep; [lia|].
      unfold inner_inv. split; [reflexivity|].
      destruct (Hv x (proj2 Hx)) as [Hv1 Hv2].
      assert (Hle : forall L', 1 <= L' <= 21 -> fill L' + (if L' =? L then x else 0) <= E L').
      { intros L' HL'. pose proof (Hfill L' HL'). destruct (N.eqb_spec L' L) as [->|Hne]; lia. }
      assert (Hlt' : fill L + (if L =? L then x else 0) < E L) by (rewrite N.eqb_refl; lia).
      pose proof (place_one (base + x) _ hf' cl' L (base + x) (v x) Hpl' HL Hle Hlt'
                    (N.le_refl _) Hv1 Hv2) as Hp.
      cbv beta in Hp. rewrite N.eqb_refl in Hp.
      replace (Soff L + (fill L + x)) with (ins + x) in Hp by lia.
      apply (placed_weaken _ _ _ _ _ _ Hp); [lia|].
      intros L' HL'. destruct (N.eqb_spec L' L) as [->|Hne]; lia.
  Qed.

  (* ------------------------------------------------------------ expandLenCodes, outer loop *)
  Definition expand_inv (lh : arr) (A : N -> N) (n : N)
             (st : arr * arr * arr * arr * N * bool) : Prop :=
    let '(hf, cl, ex, nc, xi, pan) := st in
    pan = false /\
    xi = 257 + xsum (N.to_nat n) /\
    placed xi (fun L => A L + cntB lh (N.to_nat n) L) hf cl /\
    (forall L, 1 <= L <= 21 -> aget ex L = Soff L + A L + cntB lh (N.to_nat n) L).

  Lemma expand_spec : forall (A : N -> N) huff cl ex nc lh,
    placed 257 A huff cl ->
    (forall i, i < 29 -> hc_len (aget lh i) <= 15) ->
    (forall L, 1 <= L <= 21 -> aget ex L = Soff L + A L) ->
    (forall L, 1 <= L <= 21 -> A L + cntB lh 29 L <= E L) ->
    exists hf' cl' ex' nc',
      expandLenCodes huff cl ex nc lh = (hf', cl', ex', nc', false) /\
      placed 514 (fun L => A L + cntB lh 29 L) hf' cl'.
  Proof.
    intros A huff cl ex nc lh Hpl H15 Hex HE. unfold expandLenCodes.
    match goal with |- context [forN 0 29 ?f ?s] =>
      assert (Hinv : expand_inv lh A 29 (forN 0 29 f s)) end.
    { apply (forN_ind _ (expand_inv lh A)).
      - lia.
      - unfold expand_inv, litSymbolsSize. change (N.to_nat 0) with O. cbn [xsum cntB].
        split; [reflexivity|]. split; [lia|]. split.
        + apply (placed_weaken 257 _ A); [exact Hpl|lia|]. intros L HL. lia.
        + intros L HL. rewrite (Hex L HL). lia.
      - intros n st Hn Hst. destruct st as [[[[[hf cl'] ex'] nc'] xi] pan].
        unfold expand_inv in Hst. destruct Hst as (Hpan & Hxi & Hpl' & Hex'). subst pan.
        cbv beta iota zeta.
        destruct (len_extra_facts n (proj2 Hn)) as (He5 & Hxw & Hpow).
        pose proof (H15 n (proj2 Hn)) as Hl15.
        assert (HcB : forall L, cntB lh (N.to_nat (n + 1)) L = cntB lh (N.to_nat n) L + xitem lh n L).
        { intros L. apply cntB_succ. }
        pose proof (xsum_succ n) as Hxs.
        assert (Hx514 : 257 + xsum (N.to_nat (n + 1)) <= 514).
        { pose proof (xsum_mono (N.to_nat (n + 1)) 29). rewrite xsum_29 in H. lia. }
        fold (xw n).
        set (e := aget rfc_len_extra n) in *.
        set (l := hc_len (aget lh n)) in *.
        assert (Hmono : forall L, cntB lh (N.to_nat (n + 1)) L <= cntB lh 29 L).
        { intros L. apply cntB_mono. lia. }
        destruct (N.eqb_spec l 0) as [Hl0|Hl0].
        + assert (Hit : forall L, xitem lh n L = 0).
          { intros L. unfold xitem. fold l. rewrite Hl0. reflexivity. }
          unfold expand_inv. split; [reflexivity|]. split; [lia|]. split.
          * apply (placed_weaken xi _ (fun L => A L + cntB lh (N.to_nat n) L)); [exact Hpl'|lia|].
            intros L HL. rewrite HcB, Hit. lia.
          * intros L HL. rewrite HcB, Hit, (Hex' L HL). lia.
        + assert (HL : 1 <= l + e <= 21) by lia.
          assert (Hit : forall L, xitem lh n L = if L =? l + e then xw n else 0).
          { intros L. unfold xitem. fold l. fold e.
            destruct (N.eqb_spec l 0) as [|_]; [contradiction|]. cbn [negb andb].
            destruct (N.eqb_spec (l + e) L) as [<-|Hne].
            - rewrite N.eqb_refl. reflexivity.
            - destruct (N.eqb_spec L (l + e)); [congruence|reflexivity]. }
          rewrite (Hex' (l + e) HL).
          set (code := bitReverse2 (u16 (aget nc' l)) l).
          set (fill := fun L => A L + cntB lh (N.to_nat n) L) in *.
          set (ins := Soff (l + e) + A (l + e) + cntB lh (N.to_nat n) (l + e)).
          assert (HfL : fill (l + e) + xw n <= E (l + e)).
          { unfold fill. pose proof (HE (l + e) HL). pose proof (Hmono (l + e)) as Hm.
            rewrite HcB, Hit, N.eqb_refl in Hm. lia. }
          assert (Hfill : forall L', 1 <= L' <= 21 -> fill L' <= E L').
          { intros L' HL'. unfold fill. pose proof (HE L' HL'). pose proof (Hmono L') as Hm.
            rewrite HcB in Hm. lia. }
          pose proof (inner_spec (fun extra => hc_set (N.lor code (shl32 extra l)) (l + e))
                        fill (l + e) ins xi (xw n) hf cl' Hpl' HL
                        ltac:(unfold ins, fill; lia) HfL Hfill ltac:(lia)) as Hin.
          match type of Hin with _ -> inner_inv _ _ _ _ ?t =>
            destruct t as [[hf2 cl2] pan2] eqn:Et end.
          unfold inner_inv in Hin. destruct Hin as [Hpan2 Hpl2].
          { intros x Hx. split; [|apply hc_set_lt].
            apply hc_len_set; [|lia].
            change 16777216 with (2 ^ 24). apply lor_lt_pow2.
            - pose proof (bitReverse2_lt (u16 (aget nc' l)) l). fold code in H.
              change (2 ^ 24) with 16777216. lia.
            - unfold shl32. destruct (32 <=? l) eqn:E32; [lia|].
              pose proof (land_le_l (N.shiftl x l) mask32) as H1. fold (u32 (N.shiftl x l)) in H1.
              assert (H2 : N.shiftl x l < 2 ^ (5 + l)).
              { apply shiftl_lt_pow2. change (2 ^ 5) with 32. lia. }
              assert (H3 : 2 ^ (5 + l) <= 2 ^ 24) by (apply N.pow_le_mono_r; lia).
              lia. }
          subst pan2.
          unfold expand_inv. split; [reflexivity|]. split; [lia|]. split.
          * apply (placed_weaken _ _ _ _ _ _ Hpl2); [lia|].
            intros L' HL'. unfold fill. rewrite HcB, Hit. lia.
          * intros L' HL'. rewrite aget_aset, HcB, Hit.
            destruct (N.eqb_spec L' (l + e)) as [->|Hne].
            -- assert (Hb : ins + xw n <= 514).
               { pose proof (Soff_succ (l + e) (proj1 HL)) as S1.
                 pose proof (Soff_mono (l + e + 1) 22) as M. unfold ins. unfold fill in HfL. lia. }
               rewrite u16_small by lia. unfold ins. lia.
            -- rewrite (Hex' L' HL'). lia. }
    destruct (forN 0 29 _ _) as [[[[[hf' cl'] ex'] nc'] xi] pan].
    unfold expand_inv in Hinv. destruct Hinv as (Hpan & Hxi & Hpl' & _). subst pan.
    exists hf', cl', ex', nc'. split; [reflexivity|].
    change (N.to_nat 29) with 29%nat in *. rewrite xsum_29 in Hxi.
    apply (placed_weaken xi _ _ _ _ _ Hpl'); [lia|]. intros L HL. reflexivity.
  Qed.
End Sort.

(* ---------------------------------------------------------------- the prefix-sum loops *)
Definition ps_loop1 (lc ex nc : arr) (ctmp : N) : arr * arr * N * N :=
  forN 1 15 (fun i (st : arr * arr * N * N) =>
    let '(ex, nc, countTotal, countTmp) := st in
    let countTotal := u32 (aget lc i + countTmp + countTotal) in
    let countTmp := aget ex (i + 1) in
    (aset ex (i + 1) (u16 countTotal),
     aset nc (i + 1) (shl32 (u32 (aget nc i + aget lc i)) 1), countTotal, countTmp))
    (ex, nc, 0, ctmp).

Definition ps_loop2 (ex : arr) (ct ctmp : N) : arr * N * N :=
  forN 15 22 (fun i (st : arr * N * N) =>
    let '(ex, countTotal, countTmp) := st in
    let countTotal := u32 (countTmp + countTotal) in
    let countTmp := aget ex (i + 1) in
    (aset ex (i + 1) (u16 countTotal), countTotal, countTmp))
    (ex, ct, ctmp).

Lemma setAndExpand_eq : forall d,
  setAndExpandLitLenHuffCode d =
  let '(ex, nc, ct, ctmp) :=
    ps_loop1 (litCount d) (aset (aset (litExpandCount d) 0 0) 1 0)
             (aset (aset (nextCode d) 0 0) 1 0) (aget (litExpandCount d) 1) in
  let '(ex, _, _) := ps_loop2 ex ct (u32 (aget (litCount d) 15 + ctmp)) in
  if 32768 <? u32 (aget nc 15 + aget (litCount d) 15)
  then (mkDyn (litAndDistHuff d) (clcShort d) (clcLong d) (codeList d) (litCount d) (distCount d)
              ex nc (lenHuffCodes d), EInvalidBlock)
  else
    let lc := forN 0 maxLitLenCount (fun i t => aset t i (aget ex i)) (litCount d) in
    let lenHuff := forN 0 29 (fun i t => aset t i (aget (litAndDistHuff d) (litSymbolsSize + i)))
                        (lenHuffCodes d) in
    let huff := forN litSymbolsSize litLenElems (fun i t => aset t i 0) (litAndDistHuff d) in
    let '(huff, cl, ex, nc, pan1) := calcCodeForLit huff (codeList d) ex nc in
    let '(huff, cl, ex, nc, pan2) := expandLenCodes huff cl ex nc lenHuff in
    (mkDyn huff (clcShort d) (clcLong d) cl lc (distCount d) ex nc lenHuff,
     if pan1 || pan2 then EPanic else ENone).
Proof.
  intros d. unfold setAndExpandLitLenHuffCode, ps_loop1, ps_loop2. cbv zeta. reflexivity.
Qed.

Lemma mod16_u32 : forall x, u32 x mod 65536 = x mod 65536.
Proof. intros x. rewrite <- !u16_mod. apply u16_u32. Qed.

Section Prefix.
  Variable E : N -> N.
  Hypothesis Hsum : Soff E 22 <= 514.
  Variables lc ex0 : arr.

  Definition ps1_inv (i : N) (st : arr * arr * N * N) : Prop :=
    let '(ex, nc, ct, ctmp) := st in
    ct mod 65536 = Soff E i mod 65536 /\
    ctmp = aget ex0 i /\
    (forall j, j <= i -> aget ex j = Soff E j) /\
    (forall j, i < j -> aget ex j = aget ex0 j).

  Lemma Soff_small : forall j, j <= 22 -> Soff E j mod 65536 = Soff E j.
  Proof.
    intros j Hj. apply N.mod_small. pose proof (Soff_mono E j 22 Hj). lia.
  Qed.

  Lemma ps_loop1_spec : forall nc,
    (forall L, 1 <= L <= 15 -> (aget lc L + aget ex0 L) mod 65536 = E L mod 65536) ->
    ps1_inv 15 (ps_loop1 lc (aset (aset ex0 0 0) 1 0) nc (aget ex0 1)).
  Proof.
    intros nc HE. unfold ps_loop1. apply (forN_ind _ ps1_inv).
    - lia.
    - unfold ps1_inv. split; [reflexivity|]. split; [reflexivity|]. split.
      + intros j Hj. rewrite !aget_aset.
        destruct (N.eqb_spec j 1) as [->|H1]; [reflexivity|].
        destruct (N.eqb_spec j 0) as [->|H0]; [reflexivity|lia].
      + intros j Hj. rewrite !aget_aset_other by lia. reflexivity.
    - intros i st Hi Hst. destruct st as [[[ex nc'] ct] ctmp].
      unfold ps1_inv in Hst. destruct Hst as (Hct & Hctmp & Hlo & Hhi). subst ctmp.
      cbv beta iota zeta. unfold ps1_inv.
      assert (Hnew : u32 (aget lc i + aget ex0 i + ct) mod 65536 = Soff E (i + 1) mod 65536).
      { rewrite mod16_u32, (Soff_succ E i) by lia.
        rewrite (N.add_comm (Soff E i)). apply mod_add_congr; [lia| |exact Hct].
        apply HE. lia. }
      split; [exact Hnew|]. split; [apply Hhi; lia|]. split.
      + intros j Hj. rewrite aget_aset. destruct (N.eqb_spec j (i + 1)) as [->|Hne].
        * rewrite u16_mod, Hnew. apply Soff_small. lia.
        * apply Hlo. lia.
      + intros j Hj. rewrite aget_aset_other by lia. apply Hhi. lia.
  Qed.

  Definition ps2_inv (i : N) (st : arr * N * N) : Prop :=
    let '(ex, ct, ctmp) := st in
    ct mod 65536 = Soff E i mod 65536 /\
    ctmp mod 65536 = E i mod 65536 /\
    (forall j, j <= i -> aget ex j = Soff E j) /\
    (forall j, i < j -> aget ex j = aget ex0 j).

  Lemma ps_loop2_spec : forall ex ct ctmp,
    (forall L, 16 <= L -> aget ex0 L mod 65536 = E L mod 65536) ->
    ps2_inv 15 (ex, ct, ctmp) ->
    ps2_inv 22 (ps_loop2 ex ct ctmp).
  Proof.
    intros ex ct ctmp HE H0. unfold ps_loop2. apply (forN_ind _ ps2_inv).
    - lia.
    - exact H0.
    - intros i st Hi Hst. destruct st as [[ex' ct'] ctmp'].
      unfold ps2_inv in Hst. destruct Hst as (Hct & Hctmp & Hlo & Hhi).
      cbv beta iota zeta. unfold ps2_inv.
      assert (Hnew : u32 (ctmp' + ct') mod 65536 = Soff E (i + 1) mod 65536).
      { rewrite mod16_u32, (Soff_succ E i) by lia.
        rewrite (N.add_comm (Soff E i)). apply mod_add_congr; [lia|exact Hctmp|exact Hct]. }
      split; [exact Hnew|]. split; [|split].
      + rewrite Hhi by lia. apply HE. lia.
      + intros j Hj. rewrite aget_aset. destruct (N.eqb_spec j (i + 1)) as [->|Hne].
        * rewrite u16_mod, Hnew. apply Soff_small. lia.
        * apply Hlo. lia.
      + intros j Hj. rewrite aget_aset_other by lia. apply Hhi. lia.
  Qed.
End Prefix.

(* ---------------------------------------------------------------- the number of expanded codes
   per expanded length, against count_len / ex_dec / ex_inc of EngineSafetyInv *)
Definition Ecnt (h lh : arr) (L : N) : N := count_len h 0 257 L + cntB lh 29 L.

Section Ecount.
  Variables h lh : arr.
  Hypothesis Hlh : forall i, i < 29 -> aget lh i = aget h (257 + i).

  Lemma cntB_low : forall L m, 1 <= L -> (m <= 7)%nat -> cntB lh m L = count_len h 257 m L.
  Proof.
    intros L m HL. induction m as [|k IH]; intros Hm; [reflexivity|].
    cbn [cntB count_len]. rewrite IH by lia. f_equal.
    unfold xitem, xw. rewrite (len_extra_low (N.of_nat k)) by lia.
    rewrite (Hlh (N.of_nat k)) by lia. rewrite N.add_0_r.
    change (N.shiftl 1 0) with 1.
    destruct (N.eqb_spec (hc_len (aget h (257 + N.of_nat k))) L) as [Heq|Hne].
    - destruct (N.eqb_spec (hc_len (aget h (257 + N.of_nat k))) 0); [lia|reflexivity].
    - rewrite andb_false_r. reflexivity.
  Qed.

  Lemma cntB_high : forall L m, (m <= 22)%nat -> cntB lh (7 + m) L = cntB lh 7 L + ex_inc h m L.
  Proof.
    intros L m. induction m as [|k IH]; intros Hm.
    - rewrite Nat.add_0_r. cbn [ex_inc]. lia.
    - rewrite Nat.add_succ_r. cbn [cntB ex_inc]. rewrite IH by lia.
      rewrite <- N.add_assoc. f_equal. f_equal.
      unfold xitem, len_extra. rewrite (Hlh (N.of_nat (7 + k))) by lia.
      replace (257 + N.of_nat (7 + k)) with (264 + N.of_nat k) by lia.
      replace (264 + N.of_nat k - 257) with (N.of_nat (7 + k)) by lia.
      destruct (len_extra_facts (N.of_nat (7 + k))) as (_ & _ & Hp); [lia|].
      rewrite Hp. reflexivity.
  Qed.

  Lemma Ecnt_alt : forall L, 1 <= L -> Ecnt h lh L = count_len h 0 264 L + ex_inc h 22 L.
  Proof.
    intros L HL. unfold Ecnt.
    pose proof (count_len_split h L 257 7) as H1.
    change (257 + 7)%nat with 264%nat in H1. change (N.of_nat 257) with 257 in H1.
    pose proof (cntB_high L 22 (le_n _)) as H2. change (7 + 22)%nat with 29%nat in H2.
    pose proof (cntB_low L 7 HL (le_n _)) as H3. lia.
  Qed.

  Lemma Ecnt_sum : Soff (Ecnt h lh) 22 <= 514.
  Proof.
    unfold Soff. change (N.to_nat (22 - 1)) with 21%nat. unfold Ecnt.
    rewrite psum_add.
    pose proof (psum_count_len h 0 257 21) as H1.
    pose proof (psum_cntB lh 29 21) as H2. rewrite xsum_29 in H2.
    change (psum (fun l => count_len h 0 257 l) 21) with (psum (count_len h 0 257) 21) in H1.
    change (psum (fun j => count_len h 0 257 j) 21) with (psum (count_len h 0 257) 21).
    change (psum (fun j => cntB lh 29 j) 21) with (psum (cntB lh 29) 21).
    lia.
  Qed.
End Ecount.

Lemma count_ex_dec : forall h L n, L <> 0 -> count_len h 264 n L = ex_dec h n L.
Proof.
  intros h L n HL. induction n as [|k IH]; [reflexivity|].
  cbn [count_len ex_dec]. rewrite IH. f_equal.
  destruct (N.eqb_spec L 0); [contradiction|]. cbn [negb]. rewrite andb_true_r. reflexivity.
Qed.

Lemma ex_dec_none : forall h L n, (forall i, hc_len (aget h i) <> L) -> ex_dec h n L = 0.
Proof.
  intros h L n H. induction n as [|k IH]; [reflexivity|].
  cbn [ex_dec]. rewrite IH. specialize (H (264 + N.of_nat k)).
  destruct (N.eqb_spec (hc_len (aget h (264 + N.of_nat k))) L); [contradiction|reflexivity].
Qed.

(* the two congruences used by the prefix-sum loops *)
Lemma Ecnt_congr_low : forall h lh lc ex,
  (forall i, i < 29 -> aget lh i = aget h (257 + i)) ->
  rl_post_lit h lc ex ->
  forall L, 1 <= L <= 15 -> (aget lc L + aget ex L) mod 65536 = Ecnt h lh L mod 65536.
Proof.
  intros h lh lc ex Hlh (Hok & Hlc & Hex & Hmod) L HL.
  rewrite (Ecnt_alt h lh Hlh L) by lia. rewrite (Hlc L HL).
  pose proof (count_len_split h L 264 22) as H1.
  change (264 + 22)%nat with 286%nat in H1. change (N.of_nat 264) with 264 in H1.
  rewrite H1. rewrite count_ex_dec by lia.
  rewrite <- N.add_assoc. apply mod_add_congr; [lia|reflexivity|].
  rewrite N.add_comm. apply Hmod. lia.
Qed.

Lemma Ecnt_congr_high : forall h lh lc ex,
  (forall i, i < 29 -> aget lh i = aget h (257 + i)) ->
  rl_post_lit h lc ex ->
  forall L, 16 <= L -> aget ex L mod 65536 = Ecnt h lh L mod 65536.
Proof.
  intros h lh lc ex Hlh (Hok & Hlc & Hex & Hmod) L HL.
  assert (Hno : forall i, hc_len (aget h i) <> L).
  { intros i. destruct (Hok i) as [_ H15]. lia. }
  rewrite (Ecnt_alt h lh Hlh L) by lia.
  rewrite (count_len_none h 0 L 264 Hno). rewrite N.add_0_l.
  rewrite <- (Hmod L) by lia. rewrite (ex_dec_none h L 22 Hno). rewrite N.add_0_r. reflexivity.
Qed.

(* (snapshot truncated here: setAndExpand_spec is re-proved, strengthened, in EngineResetHdr4.v) *)
