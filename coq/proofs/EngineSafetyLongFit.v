(* EngineSafetyLongFit.v -- proof of the hypothesis LongCodesFit of EngineSafetyHeader.v:
   the long-code groups built by encodeLongCodes for an accepted literal/length code fit
   longCodeLookup[1264] (the ISA-L table-size claim ISAL_L_SIZE, for this implementation,
   including the effect of the invalidCodeValue quirk on the group with key 4095).

   Structure (definitions and statements of the parts: EngineSafetyLongFitDefs.v):
     Part A  EngineSafetyLongFitCodes.v  codes_desc    : the stored code values
     Part B  EngineSafetyLongFitLoop.v   groups_bound  : elc_loop against a weight function on keys
     Part C  this file                   the weights of a canonical code are dominated by a run of
                                         the track machine (track_inv), assembly (long_codes_fit)
     Part D  EngineSafetyLongFitDP.v     machine_bound : every run of the machine is <= 1264
     bits    EngineSafetyLongFitBits.v   facts about bitReverse2 checked exhaustively *)
From Verif Require Import Engine EngineTables.
From Verif Require Import Base EngineSafetyBase EngineSafetyBits EngineSafetyInv.
From Coq Require Import List NArith ZArith Bool Lia ZifyBool ZifyNat ZifyN.
From Verif Require Import EngineSafetyExpand EngineSafetyLongFitDefs EngineSafetyLongFitBits.
Import ListNotations.
Open Scope N_scope.

(* ---------------------------------------------------------------- finite sums *)
Lemma sumN_ext : forall n f f', (forall g, g < N.of_nat n -> f g = f' g) -> sumN n f = sumN n f'.
Proof.
  induction n as [|k IH]; intros f f' H; [reflexivity|].
  cbn [sumN]. rewrite (IH f f') by (intros g Hg; apply H; lia). rewrite H by lia. reflexivity.
Qed.

Lemma sumN_le : forall n f f', (forall g, g < N.of_nat n -> f g <= f' g) -> sumN n f <= sumN n f'.
Proof.
  induction n as [|k IH]; intros f f' H; [cbn [sumN]; lia|].
  cbn [sumN]. pose proof (IH f f' ltac:(intros g Hg; apply H; lia)) as H1.
  pose proof (H (N.of_nat k) ltac:(lia)) as H2. lia.
Qed.

Lemma sumN_add : forall n f f', sumN n (fun g => f g + f' g) = sumN n f + sumN n f'.
Proof.
  induction n as [|k IH]; intros f f'; [reflexivity|]. cbn [sumN]. rewrite IH. lia.
Qed.

Lemma sumN_term : forall n f g0, g0 < N.of_nat n -> f g0 <= sumN n f.
Proof.
  induction n as [|k IH]; intros f g0 H; [lia|]. cbn [sumN].
  destruct (N.eq_dec g0 (N.of_nat k)) as [->|Hne]; [lia|].
  pose proof (IH f g0 ltac:(lia)). lia.
Qed.

Lemma sumN_zero : forall n f, (forall g, g < N.of_nat n -> f g = 0) -> sumN n f = 0.
Proof.
  induction n as [|k IH]; intros f H; [reflexivity|]. cbn [sumN].
  rewrite IH by (intros g Hg; apply H; lia). rewrite H by lia. reflexivity.
Qed.

(* one key raised to at least w *)
Lemma sumN_upd : forall n f g0 w, g0 < N.of_nat n ->
  sumN n (fun g => N.max (f g) (if g =? g0 then w else 0)) + f g0 = sumN n f + N.max (f g0) w.
Proof.
  induction n as [|k IH]; intros f g0 w H; [lia|]. cbn [sumN].
  destruct (N.eq_dec g0 (N.of_nat k)) as [->|Hne].
  - rewrite N.eqb_refl.
    rewrite (sumN_ext k (fun g => N.max (f g) (if g =? N.of_nat k then w else 0)) f).
    + lia.
    + intros g Hg. destruct (N.eqb_spec g (N.of_nat k)); lia.
  - pose proof (IH f g0 w ltac:(lia)) as H1.
    destruct (N.eqb_spec (N.of_nat k) g0) as [Heq|_]; [congruence|]. lia.
Qed.

Lemma sumN_indicator_le : forall n k w, sumN n (fun g => if k =? g then w else 0) <= w.
Proof.
  induction n as [|j IH]; intros k w; [cbn [sumN]; lia|]. cbn [sumN].
  destruct (N.eqb_spec k (N.of_nat j)) as [Heq|Hne].
  - rewrite (sumN_zero j) by (intros g Hg; destruct (N.eqb_spec k g); [lia|reflexivity]). lia.
  - pose proof (IH k w). lia.
Qed.

Lemma sumN_swap : forall n m (F : N -> N -> N),
  sumN n (fun g => sumN m (fun y => F g y)) = sumN m (fun y => sumN n (fun g => F g y)).
Proof.
  induction n as [|k IH]; intros m F.
  - cbn [sumN]. symmetry. apply sumN_zero. intros; reflexivity.
  - cbn [sumN]. rewrite IH. rewrite <- sumN_add. reflexivity.
Qed.

Lemma sumN_const : forall m w, sumN m (fun _ => w) = N.of_nat m * w.
Proof. induction m as [|k IH]; intros w; [reflexivity|]. cbn [sumN]. rewrite IH. lia. Qed.

(* ---------------------------------------------------------------- the canonical code *)
Local Notation cnt h l := (count_len h 0 286 l).

Lemma fcode_SS : forall h k,
  fcode h (S (S k)) = 2 * (fcode h (S k) + cnt h (N.of_nat (S k))).
Proof. intros h k. reflexivity. Qed.

(* the codes of length l end before those of length l + d begin (scaled) *)
Lemma fcode_mono : forall h d l, (1 <= l)%nat ->
  2 ^ N.of_nat d * (fcode h l + cnt h (N.of_nat l)) <=
  fcode h (l + d) + cnt h (N.of_nat (l + d)).
Proof.
  intros h d. induction d as [|d IH]; intros l Hl.
  - rewrite Nat.add_0_r. change (2 ^ N.of_nat 0) with 1. lia.
  - specialize (IH l Hl).
    replace (l + S d)%nat with (S (l + d)) by lia.
    destruct (l + d)%nat as [|k] eqn:E; [lia|].
    rewrite fcode_SS.
    replace (N.of_nat (S d)) with (N.succ (N.of_nat d)) by lia. rewrite N.pow_succ_r'.
    lia.
Qed.

Lemma rank_lt : forall h s l, s < 286 -> Hlen h s = l ->
  count_len h 0 (N.to_nat s) l + 1 <= cnt h l.
Proof.
  intros h s l Hs Hl.
  pose proof (count_len_succ h 0 s l) as H1. rewrite N.add_0_l in H1.
  unfold Hlen in Hl. rewrite Hl, N.eqb_refl in H1.
  pose proof (count_len_mono h 0 l (N.to_nat (s + 1)) 286 ltac:(lia)) as H2. lia.
Qed.

Definition kraft_ok (h : arr) : Prop := fcode h 15 + cnt h 15 <= 32768.

(* the code of a used symbol lies inside the range of its length *)
Lemma ccode_range : forall h s, s < 286 ->
  ccode h s + 1 <= fcode h (N.to_nat (Hlen h s)) + cnt h (Hlen h s).
Proof.
  intros h s Hs. unfold ccode. pose proof (rank_lt h s (Hlen h s) Hs eq_refl). lia.
Qed.

Lemma range_15 : forall h l, 1 <= l <= 15 ->
  2 ^ (15 - l) * (fcode h (N.to_nat l) + cnt h l) <= fcode h 15 + cnt h 15.
Proof.
  intros h l Hl.
  pose proof (fcode_mono h (N.to_nat (15 - l)) (N.to_nat l) ltac:(lia)) as H.
  rewrite !N2Nat.id in H.
  replace (N.to_nat l + N.to_nat (15 - l))%nat with 15%nat in H by lia.
  change (N.of_nat 15) with 15 in H. exact H.
Qed.

Lemma ccode_lt : forall h s, kraft_ok h -> s < 286 -> 1 <= Hlen h s <= 15 ->
  ccode h s < 2 ^ Hlen h s.
Proof.
  intros h s Hk Hs Hl. pose proof (ccode_range h s Hs) as H1.
  pose proof (range_15 h (Hlen h s) Hl) as H2. unfold kraft_ok in Hk.
  set (l := Hlen h s) in *.
  assert (H3 : 2 ^ (15 - l) * (ccode h s + 1) <= 2 ^ (15 - l) * 2 ^ l).
  { rewrite <- N.pow_add_r. replace (15 - l + l) with 15 by lia. change (2 ^ 15) with 32768.
    assert (H4 : 2 ^ (15 - l) * (ccode h s + 1) <=
                 2 ^ (15 - l) * (fcode h (N.to_nat l) + cnt h l)).
    { apply N.mul_le_mono_l. exact H1. }
    lia. }
  apply N.mul_le_mono_pos_l in H3; [lia|].
  apply N.neq_0_lt_0. apply N.pow_nonzero. lia.
Qed.

(* ---------------------------------------------------------------- classes *)
Lemma sym_extra_class : forall s, s < 286 -> sym_extra s = sym_class s.
Proof.
  intros s Hs.
  assert (H : forallb (fun s => sym_extra s =? sym_class s) (Nrange 286) = true)
    by (vm_compute; reflexivity).
  pose proof (forallb_Nrange _ _ s H ltac:(lia)) as H1. cbv beta in H1. lia.
Qed.

Lemma sym_class_le : forall s, s < 286 -> sym_class s <= 5.
Proof.
  intros s Hs.
  assert (H : forallb (fun s => sym_class s <=? 5) (Nrange 286) = true)
    by (vm_compute; reflexivity).
  pose proof (forallb_Nrange _ _ s H ltac:(lia)) as H1. cbv beta in H1. lia.
Qed.

(* ---------------------------------------------------------------- the track machine, by track *)
Definition trS (lv : N) : N := if lv =? 13 then 2 else if lv =? 14 then 4 else 8.
Definition tro (lv : N) (st : mst) : N :=
  if lv =? 13 then o13 st else if lv =? 14 then o14 st else o15 st.
Definition trm (lv : N) (st : mst) : N :=
  if lv =? 13 then m13 st else if lv =? 14 then m14 st else m15 st.

Lemma trS_pow : forall lv, 13 <= lv <= 15 -> trS lv = 2 ^ (lv - 12).
Proof.
  intros lv H. assert (C : lv = 13 \/ lv = 14 \/ lv = 15) by lia.
  destruct C as [->|[->| ->]]; reflexivity.
Qed.

Lemma blkval_mono : forall S a b, a <= b -> blkval S a <= blkval S b.
Proof.
  intros S a b H. unfold blkval.
  destruct (N.eqb_spec a 0) as [Ha|Ha]; [lia|].
  destruct (N.eqb_spec b 0) as [Hb|Hb]; [lia|].
  apply N.mul_le_mono_l. apply N.pow_le_mono_r; lia.
Qed.

Lemma blkval_max : forall S a b, blkval S (N.max a b) = N.max (blkval S a) (blkval S b).
Proof.
  intros S a b. destruct (N.le_ge_cases a b) as [H|H].
  - pose proof (blkval_mono S a b H). rewrite !N.max_r by lia. reflexivity.
  - pose proof (blkval_mono S b a H). rewrite !N.max_l by lia. reflexivity.
Qed.

Lemma place_spec : forall S o m e o' m' g, place S o m e = (o', m', g) ->
  blkval S m' + g = N.max (blkval S m) (blkval S (e + 1)) /\
  (o + 1 = S -> o' = 0 /\ m' = 0) /\
  (o + 1 <> S -> o' = o + 1 /\ m' = N.max m (e + 1) /\ g = 0).
Proof.
  intros S o m e o' m' g H. unfold place in H.
  destruct (N.eqb_spec (o + 1) S) as [Heq|Hne].
  - apply pair_equal_spec in H. destruct H as [H Hg]. apply pair_equal_spec in H.
    destruct H as [Ho Hm]. subst o' m' g. rewrite blkval_max.
    change (blkval S 0) with 0. split; [lia|]. split; [intros _; split; reflexivity|].
    intros Hc. contradiction.
  - apply pair_equal_spec in H. destruct H as [H Hg]. apply pair_equal_spec in H.
    destruct H as [Ho Hm]. subst o' m' g. rewrite blkval_max.
    split; [lia|]. split; [intros Hc; contradiction|]. intros _. split; [reflexivity|].
    split; reflexivity.
Qed.

(* a symbol placed on track lv *)
Lemma mstep_on : forall lv e st o m g, 13 <= lv <= 15 ->
  place (trS lv) (tro lv st) (trm lv st) e = (o, m, g) ->
  tro lv (mstep e lv st) = o /\ trm lv (mstep e lv st) = m /\
  acc (mstep e lv st) = acc st + g /\ mM (mstep e lv st) = N.max (mM st) (lv + e) /\
  (forall lv', 13 <= lv' <= 15 -> lv' <> lv ->
     tro lv' (mstep e lv st) = tro lv' st /\ trm lv' (mstep e lv st) = trm lv' st).
Proof.
  intros lv e st o m g Hlv Hp.
  assert (C : lv = 13 \/ lv = 14 \/ lv = 15) by lia.
  destruct C as [->|[->| ->]]; unfold mstep, trS, tro, trm in *; cbn [N.eqb Pos.eqb] in *;
    rewrite Hp; cbn [o13 m13 o14 m14 o15 m15 mM acc];
    (split; [reflexivity|]); (split; [reflexivity|]); (split; [reflexivity|]);
    (split; [reflexivity|]);
    intros lv' Hlv' Hne;
    assert (C' : lv' = 13 \/ lv' = 14 \/ lv' = 15) by lia;
    destruct C' as [->|[->| ->]]; try lia; cbn [N.eqb Pos.eqb]; split; reflexivity.
Qed.

(* a symbol not placed on a track *)
Lemma mstep_off : forall e c st, c <> 13 -> c <> 14 -> c <> 15 ->
  acc (mstep e c st) = acc st + 2 ^ e /\ mM (mstep e c st) = N.max (mM st) (12 + e) /\
  (forall lv, tro lv (mstep e c st) = tro lv st /\ trm lv (mstep e c st) = trm lv st).
Proof.
  intros e c st H13 H14 H15. unfold mstep.
  destruct (N.eqb_spec c 13) as [?|_]; [contradiction|].
  destruct (N.eqb_spec c 14) as [?|_]; [contradiction|].
  destruct (N.eqb_spec c 15) as [?|_]; [contradiction|].
  cbn [acc mM]. split; [reflexivity|]. split; [reflexivity|].
  intros lv. unfold tro, trm. cbn [o13 m13 o14 m14 o15 m15]. split; reflexivity.
Qed.

(* ---------------------------------------------------------------- weights of the canonical code *)
(* the symbol has codes of more than 12 bits *)
Definition is_long (h : arr) (s : N) : bool :=
  negb (Hlen h s =? 0) && (13 <=? Hlen h s + sym_extra s).
(* key (low 12 bits of the stored code) of the expansion x of symbol s *)
Definition xfb (h : arr) (s x : N) : N :=
  N.land (N.lor (bitReverse2 (ccode h s) (Hlen h s)) (N.shiftl x (Hlen h s))) 4095.
(* size of a group whose longest code is an expansion of s *)
Definition xw (h : arr) (s : N) : N := 2 ^ (Hlen h s + sym_extra s - 12).

(* the largest weight of the expansions x < nx of s with key g *)
Fixpoint Bx (h : arr) (s g : N) (nx : nat) : N :=
  match nx with
  | O => 0
  | S k => N.max (Bx h s g k) (if xfb h s (N.of_nat k) =? g then xw h s else 0)
  end.
Definition Bsym (h : arr) (s g : N) : N :=
  if is_long h s then Bx h s g (N.to_nat (2 ^ sym_extra s)) else 0.
(* the same over the symbols s < n *)
Fixpoint Bf (h : arr) (n : nat) (g : N) : N :=
  match n with
  | O => 0
  | S k => N.max (Bf h k g) (Bsym h (N.of_nat k) g)
  end.

Lemma xfb_lt : forall h s x, xfb h s x < 4096.
Proof. intros h s x. unfold xfb. pose proof (land_le_r (N.lor (bitReverse2 (ccode h s) (Hlen h s)) (N.shiftl x (Hlen h s))) 4095). lia. Qed.

Lemma Bx_ge : forall h s nx x, x < N.of_nat nx -> xw h s <= Bx h s (xfb h s x) nx.
Proof.
  intros h s nx. induction nx as [|k IH]; intros x Hx; [lia|]. cbn [Bx].
  destruct (N.eq_dec x (N.of_nat k)) as [->|Hne].
  - rewrite N.eqb_refl. lia.
  - pose proof (IH x ltac:(lia)). lia.
Qed.

Lemma Bx_pos : forall h s g nx, Bx h s g nx <> 0 -> exists x, x < N.of_nat nx /\ xfb h s x = g.
Proof.
  intros h s g nx. induction nx as [|k IH]; intros H; [cbn [Bx] in H; lia|]. cbn [Bx] in H.
  destruct (N.eqb_spec (xfb h s (N.of_nat k)) g) as [Heq|Hne].
  - exists (N.of_nat k). split; [lia|exact Heq].
  - destruct (IH ltac:(lia)) as (x & Hx & Hg). exists x. split; [lia|exact Hg].
Qed.

Lemma Bx_const : forall h s g key nx, (forall x, xfb h s x = key) -> (0 < nx)%nat ->
  Bx h s g nx = if key =? g then xw h s else 0.
Proof.
  intros h s g key nx Hk. induction nx as [|k IH]; intros Hn; [lia|]. cbn [Bx]. rewrite Hk.
  destruct k as [|k'].
  - cbn [Bx]. lia.
  - rewrite IH by lia. lia.
Qed.

Lemma Bf_mono : forall h k g, Bf h k g <= Bf h (S k) g.
Proof. intros. cbn [Bf]. lia. Qed.

Lemma Bf_ge : forall h k s x, s < N.of_nat k -> is_long h s = true -> x < 2 ^ sym_extra s ->
  xw h s <= Bf h k (xfb h s x).
Proof.
  intros h k. induction k as [|k IH]; intros s x Hs Hl Hx; [lia|]. cbn [Bf].
  destruct (N.eq_dec s (N.of_nat k)) as [->|Hne].
  - unfold Bsym. rewrite Hl.
    pose proof (Bx_ge h (N.of_nat k) (N.to_nat (2 ^ sym_extra (N.of_nat k))) x ltac:(lia)). lia.
  - pose proof (IH s x ltac:(lia) Hl Hx). lia.
Qed.

Lemma Bf_pos : forall h k g, Bf h k g <> 0 ->
  exists s x, s < N.of_nat k /\ is_long h s = true /\ x < 2 ^ sym_extra s /\ xfb h s x = g.
Proof.
  intros h k g. induction k as [|k IH]; intros H; [cbn [Bf] in H; lia|]. cbn [Bf] in H.
  destruct (N.eq_dec (Bsym h (N.of_nat k) g) 0) as [Hz|Hnz].
  - destruct (IH ltac:(lia)) as (s & x & Hs & Hr). exists s, x. split; [lia|exact Hr].
  - unfold Bsym in Hnz. destruct (is_long h (N.of_nat k)) eqn:El; [|lia].
    destruct (Bx_pos _ _ _ _ Hnz) as (x & Hx & Hg).
    exists (N.of_nat k), x. split; [lia|]. split; [exact El|]. split; [lia|exact Hg].
Qed.

(* ---------------------------------------------------------------- keys of a symbol *)
(* Huffman length 13..15: all expansions have the key of the block of the code *)
Lemma xfb_high : forall h s x, kraft_ok h -> s < 286 -> 13 <= Hlen h s <= 15 ->
  xfb h s x = Fkey (Hlen h s) (ccode h s / trS (Hlen h s)).
Proof.
  intros h s x Hk Hs Hl. unfold xfb.
  rewrite land_lor_shiftl_high by lia.
  rewrite key_high; [|exact Hl|apply ccode_lt; [exact Hk|exact Hs|lia]].
  rewrite trS_pow by exact Hl. reflexivity.
Qed.

Lemma xw_high : forall h s, 13 <= Hlen h s <= 15 ->
  xw h s = blkval (trS (Hlen h s)) (sym_extra s + 1).
Proof.
  intros h s Hl. unfold xw, blkval.
  destruct (N.eqb_spec (sym_extra s + 1) 0) as [Hc|_]; [lia|].
  rewrite trS_pow by exact Hl. rewrite <- N.pow_add_r. f_equal. lia.
Qed.

Lemma is_long_high : forall h s, 13 <= Hlen h s -> is_long h s = true.
Proof. intros h s H. unfold is_long. lia. Qed.

Lemma Bsym_high : forall h s g, kraft_ok h -> s < 286 -> 13 <= Hlen h s <= 15 ->
  Bsym h s g =
  if g =? Fkey (Hlen h s) (ccode h s / trS (Hlen h s))
  then blkval (trS (Hlen h s)) (sym_extra s + 1) else 0.
Proof.
  intros h s g Hk Hs Hl. unfold Bsym. rewrite is_long_high by lia.
  rewrite (Bx_const h s g (Fkey (Hlen h s) (ccode h s / trS (Hlen h s)))).
  - rewrite xw_high by exact Hl. rewrite N.eqb_sym. reflexivity.
  - intros x. apply xfb_high; assumption.
  - assert (H : 2 ^ sym_extra s <> 0) by (apply N.pow_nonzero; lia). lia.
Qed.

(* Huffman length 1..12: only the low 12 - l bits of x matter *)
Lemma xfb_low : forall h s x, Hlen h s <= 12 ->
  xfb h s x = xfb h s (x mod 2 ^ (12 - Hlen h s)).
Proof. intros h s x Hl. unfold xfb. apply land_lor_shiftl_low. exact Hl. Qed.

Lemma Bx_low : forall h s g nx, Hlen h s <= 12 ->
  Bx h s g nx <=
  sumN (N.to_nat (2 ^ (12 - Hlen h s))) (fun y => if xfb h s y =? g then xw h s else 0).
Proof.
  intros h s g nx Hl. induction nx as [|k IH]; [cbn [Bx]; lia|]. cbn [Bx].
  destruct (N.eqb_spec (xfb h s (N.of_nat k)) g) as [Heq|Hne]; [|lia].
  apply N.max_lub; [exact IH|].
  set (P := 2 ^ (12 - Hlen h s)) in *.
  assert (HP : P <> 0) by (apply N.pow_nonzero; lia).
  pose proof (N.mod_lt (N.of_nat k) P HP) as Hm.
  pose proof (sumN_term (N.to_nat P) (fun y => if xfb h s y =? g then xw h s else 0)
                (N.of_nat k mod P) ltac:(lia)) as Ht.
  cbv beta in Ht. unfold P in Ht. rewrite <- (xfb_low h s (N.of_nat k) Hl) in Ht.
  rewrite Heq, N.eqb_refl in Ht. exact Ht.
Qed.

Lemma Bsym_low_sum : forall KN h s, 1 <= Hlen h s <= 12 ->
  sumN KN (Bsym h s) <= 2 ^ sym_extra s.
Proof.
  intros KN h s Hl. unfold Bsym. destruct (is_long h s) eqn:El.
  2:{ rewrite sumN_zero by (intros; reflexivity). lia. }
  unfold is_long in El.
  set (P := 2 ^ (12 - Hlen h s)).
  apply N.le_trans with
    (sumN KN (fun g => sumN (N.to_nat P) (fun y => if xfb h s y =? g then xw h s else 0))).
  { apply sumN_le. intros g _. apply Bx_low. lia. }
  rewrite sumN_swap.
  apply N.le_trans with (sumN (N.to_nat P) (fun _ => xw h s)).
  { apply sumN_le. intros y _. apply sumN_indicator_le. }
  rewrite sumN_const, N2Nat.id. unfold P, xw. rewrite <- N.pow_add_r.
  apply N.pow_le_mono_r; lia.
Qed.

(* ---------------------------------------------------------------- the invariant *)
Ltac Zify.zify_post_hook ::= Z.div_mod_to_equations.

Section Inv.
Variable KN : nat.
Hypothesis HKN : N.of_nat KN = 4096.
Variable h : arr.
Hypothesis Hk : kraft_ok h.
Hypothesis H15 : forall s, Hlen h s <= 15.

(* the next code of length lv after the symbols below k *)
Definition tcode (k : nat) (lv : N) : N := fcode h (N.to_nat lv) + count_len h 0 k lv.

Lemma tcode_S : forall k lv,
  tcode (S k) lv = tcode k lv + (if Hlen h (N.of_nat k) =? lv then 1 else 0).
Proof.
  intros k lv. unfold tcode. cbn [count_len]. rewrite N.add_0_l. unfold Hlen. lia.
Qed.

Lemma tcode_ccode : forall k, tcode k (Hlen h (N.of_nat k)) = ccode h (N.of_nat k).
Proof. intros k. unfold tcode, ccode. rewrite Nat2N.id. reflexivity. Qed.

Definition trk_inv (k : nat) (st : mst) (lv : N) : Prop :=
  tro lv st = tcode k lv mod trS lv /\
  (trm lv st <> 0 -> tro lv st <> 0) /\
  blkval (trS lv) (trm lv st) <= Bf h k (Fkey lv (tcode k lv / trS lv)).

Definition run_inv (k : nat) (st : mst) : Prop :=
  sumN KN (Bf h k) <= acc st + blkval 2 (m13 st) + blkval 4 (m14 st) + blkval 8 (m15 st) /\
  trk_inv k st 13 /\ trk_inv k st 14 /\ trk_inv k st 15 /\
  (forall s, s < N.of_nat k -> is_long h s = true -> Hlen h s + sym_extra s <= mM st).

Lemma trk_keep : forall k st st' lv,
  trk_inv k st lv -> tro lv st' = tro lv st -> trm lv st' = trm lv st ->
  Hlen h (N.of_nat k) <> lv -> trk_inv (S k) st' lv.
Proof.
  intros k st st' lv (I1 & I2 & I3) Ho Hm Hne. unfold trk_inv.
  rewrite Ho, Hm, tcode_S.
  destruct (N.eqb_spec (Hlen h (N.of_nat k)) lv) as [?|_]; [contradiction|].
  rewrite N.add_0_r. split; [exact I1|]. split; [exact I2|].
  pose proof (Bf_mono h k (Fkey lv (tcode k lv / trS lv))). lia.
Qed.

Lemma trS_cases : forall lv, 13 <= lv <= 15 -> trS lv = 2 \/ trS lv = 4 \/ trS lv = 8.
Proof.
  intros lv H. assert (C : lv = 13 \/ lv = 14 \/ lv = 15) by lia.
  destruct C as [->|[->| ->]]; [left|right; left|right; right]; reflexivity.
Qed.

Lemma Bf_S_high : forall k g, N.of_nat k < 286 -> 13 <= Hlen h (N.of_nat k) <= 15 ->
  Bf h (S k) g =
  N.max (Bf h k g)
        (if g =? Fkey (Hlen h (N.of_nat k)) (tcode k (Hlen h (N.of_nat k)) / trS (Hlen h (N.of_nat k)))
         then blkval (trS (Hlen h (N.of_nat k))) (sym_extra (N.of_nat k) + 1) else 0).
Proof.
  intros k g Hs Hl. cbn [Bf]. rewrite Bsym_high by assumption. rewrite tcode_ccode. reflexivity.
Qed.

Lemma trk_place : forall k st st' o m g,
  N.of_nat k < 286 -> 13 <= Hlen h (N.of_nat k) <= 15 ->
  trk_inv k st (Hlen h (N.of_nat k)) ->
  place (trS (Hlen h (N.of_nat k))) (tro (Hlen h (N.of_nat k)) st) (trm (Hlen h (N.of_nat k)) st)
        (sym_extra (N.of_nat k)) = (o, m, g) ->
  tro (Hlen h (N.of_nat k)) st' = o -> trm (Hlen h (N.of_nat k)) st' = m ->
  trk_inv (S k) st' (Hlen h (N.of_nat k)).
Proof.
  intros k st st' o m g Hs Hl (I1 & I2 & I3) Hp Ho Hm.
  set (lv := Hlen h (N.of_nat k)) in *.
  destruct (place_spec _ _ _ _ _ _ _ Hp) as (P1 & P2 & P3).
  unfold trk_inv. rewrite Ho, Hm, tcode_S. fold lv. rewrite N.eqb_refl.
  pose proof (trS_cases lv Hl) as HS.
  set (c := tcode k lv) in *. set (S := trS lv) in *.
  destruct (N.eq_dec (tro lv st + 1) S) as [Heq|Hne].
  - destruct (P2 Heq) as [-> ->]. change (blkval S 0) with 0.
    split; [|split; [intros Hc; contradiction|lia]].
    clearbody S c. clear P1 P2 P3 Hp I2 I3. destruct HS as [->|[->| ->]]; lia.
  - destruct (P3 Hne) as (-> & -> & ->).
    assert (Hdiv : (c + 1) / S = c / S /\ (c + 1) mod S = c mod S + 1).
    { clearbody S c. clear P1 P2 P3 Hp I2 I3. destruct HS as [->|[->| ->]]; lia. }
    destruct Hdiv as [Hd1 Hd2]. rewrite Hd1, Hd2.
    split; [lia|]. split; [intros _; lia|].
    rewrite (Bf_S_high k _ Hs Hl). fold lv. fold c. fold S. rewrite N.eqb_refl.
    rewrite blkval_max. lia.
Qed.

Lemma sum_place : forall k key w A V V' g,
  key < 4096 ->
  (forall x, Bf h (S k) x = N.max (Bf h k x) (if x =? key then w else 0)) ->
  sumN KN (Bf h k) <= A + V -> V <= Bf h k key -> V' + g = N.max V w ->
  sumN KN (Bf h (S k)) <= A + g + V'.
Proof.
  intros k key w A V V' g Hkey HB HS HV Hg.
  rewrite (sumN_ext KN (Bf h (S k)) (fun x => N.max (Bf h k x) (if x =? key then w else 0)))
    by (intros x _; apply HB).
  pose proof (sumN_upd KN (Bf h k) key w ltac:(lia)) as Hu. lia.
Qed.

Lemma Fkey_lt : forall l b, Fkey l b < 4096.
Proof. intros l b. unfold Fkey. pose proof (land_le_r (bitReverse2 (b * 2 ^ (l - 12)) l) 4095). lia. Qed.
