(* EngineSafetyLongFit.v -- proof of the hypothesis LongCodesFit of EngineSafetyHeader.v:
   the long-code groups built by encodeLongCodes for an accepted literal/length code fit
   longCodeLookup[1264] (the ISA-L table-size claim ISAL_L_SIZE, for this implementation).

     Theorem long_codes_fit : LongCodesFit.          (closed under the global context)

   Facts found on the way (see also EngineSafetyLongFitDefs.v):
   * The claim is true but NOT for the textbook reason only.  encodeLongCodes marks processed codes
     with invalidCodeValue = 0xFFFFFF, whose low 12 bits are 4095; when the group with key 4095
     (twelve leading 1 bits) is processed, the already marked entries of earlier groups match again
     and maxLen becomes the length of the last of them: that group can be inflated to 2^(M-12),
     M = the largest expanded length of all long codes (up to 256 entries instead of 8).  The Go
     code (and ISA-L) behave the same.  Largest totals found by search: 1166 without this effect,
     1196 with it (Coq model evaluated on that code: lcl = 1196); upper bound proved here: 1234.
   * Not modelled in Engine.v (hence not covered): the index tempCodeList[tempCodeLength] of the
     Go code (array of 512).  It cannot overflow: a group holds at most 256 codes (Kraft within a
     12-bit prefix, expanded length <= 20), 512 matches after position i need i <= 1 (at most 514
     codes), and then at most one earlier group is marked: at most 255 + 255 matches.

   Structure (definitions and statements of the parts: EngineSafetyLongFitDefs.v):
     M1  EngineSafetyLongFitCodes.v  codes_desc    : every stored huffCode is the bit-reversed,
                                     expanded canonical code (fcode/ccode) of a symbol; Kraft
     M2  EngineSafetyLongFitLoop.v   groups_bound  : elc_loop does not panic if a weight function B
                                     on the 4096 keys dominates 2^(len-12) of every long code
                                     (the key 4095: also 2^(M-12)) and sum B <= 1264
     M3  this file                   run_all / final_bound: the weights Bf of a canonical code are
                                     dominated by a run of the "track machine" (one track per
                                     Huffman length 13, 14, 15; blocks = 12-bit prefixes; symbols
                                     in index order, the codes of one length are consecutive);
         EngineSafetyLongFitDP.v     machine_bound : every run of the machine is <= 1264 (exact
                                     maximum 1234), by a certified forward dynamic programme
         EngineSafetyLongFitBits.v   facts about bitReverse2 checked exhaustively by vm_compute *)
From Verif Require Import Engine EngineTables.
From Verif Require Import Base EngineSafetyBase EngineSafetyBits EngineSafetyInv.
From Coq Require Import List NArith ZArith Bool Lia ZifyBool ZifyNat ZifyN.
From Verif Require Import EngineSafetyExpand EngineSafetyLongFitDefs EngineSafetyLongFitBits.
Import ListNotations.
Open Scope N_scope.

(* ---------------------------------------------------------------- finite sums *)
Lemma sumN_ext : forall n f f', (forall g, g < N.of_nat n -> f g = f' g) -> sumN n f = sumN n f'.
Proof.
  induction n as [|k IH]; intros f f' H; [reflexivity|].
  cbn [sumN]. rewrite (IH f f') by (intros g Hg; apply H; lia). rewrite H by lia. reflexivity.
Qed.

Lemma sumN_le : forall n f f', (forall g, g < N.of_nat n -> f g <= f' g) -> sumN n f <= sumN n f'.
Proof.
  induction n as [|k IH]; intros f f' H; [cbn [sumN]; lia|].
  cbn [sumN]. pose proof (IH f f' ltac:(intros g Hg; apply H; lia)) as H1.
  pose proof (H (N.of_nat k) ltac:(lia)) as H2. lia.
Qed.

Lemma sumN_add : forall n f f', sumN n (fun g => f g + f' g) = sumN n f + sumN n f'.
Proof.
  induction n as [|k IH]; intros f f'; [reflexivity|]. cbn [sumN]. rewrite IH. lia.
Qed.

Lemma sumN_term : forall n f g0, g0 < N.of_nat n -> f g0 <= sumN n f.
Proof.
  induction n as [|k IH]; intros f g0 H; [lia|]. cbn [sumN].
  destruct (N.eq_dec g0 (N.of_nat k)) as [->|Hne]; [lia|].
  pose proof (IH f g0 ltac:(lia)). lia.
Qed.

Lemma sumN_zero : forall n f, (forall g, g < N.of_nat n -> f g = 0) -> sumN n f = 0.
Proof.
  induction n as [|k IH]; intros f H; [reflexivity|]. cbn [sumN].
  rewrite IH by (intros g Hg; apply H; lia). rewrite H by lia. reflexivity.
Qed.

(* one key raised to at least w *)
Lemma sumN_upd : forall n f g0 w, g0 < N.of_nat n ->
  sumN n (fun g => N.max (f g) (if g =? g0 then w else 0)) + f g0 = sumN n f + N.max (f g0) w.
Proof.
  induction n as [|k IH]; intros f g0 w H; [lia|]. cbn [sumN].
  destruct (N.eq_dec g0 (N.of_nat k)) as [->|Hne].
  - rewrite N.eqb_refl.
    rewrite (sumN_ext k (fun g => N.max (f g) (if g =? N.of_nat k then w else 0)) f).
    + lia.
    + intros g Hg. destruct (N.eqb_spec g (N.of_nat k)); lia.
  - pose proof (IH f g0 w ltac:(lia)) as H1.
    destruct (N.eqb_spec (N.of_nat k) g0) as [Heq|_]; [congruence|]. lia.
Qed.

Lemma sumN_indicator_le : forall n k w, sumN n (fun g => if k =? g then w else 0) <= w.
Proof.
  induction n as [|j IH]; intros k w; [cbn [sumN]; lia|]. cbn [sumN].
  destruct (N.eqb_spec k (N.of_nat j)) as [Heq|Hne].
  - rewrite (sumN_zero j) by (intros g Hg; destruct (N.eqb_spec k g); [lia|reflexivity]). lia.
  - pose proof (IH k w). lia.
Qed.

Lemma sumN_swap : forall n m (F : N -> N -> N),
  sumN n (fun g => sumN m (fun y => F g y)) = sumN m (fun y => sumN n (fun g => F g y)).
Proof.
  induction n as [|k IH]; intros m F.
  - cbn [sumN]. symmetry. apply sumN_zero. intros; reflexivity.
  - cbn [sumN]. rewrite IH. rewrite <- sumN_add. reflexivity.
Qed.

Lemma sumN_const : forall m w, sumN m (fun _ => w) = N.of_nat m * w.
Proof. induction m as [|k IH]; intros w; [reflexivity|]. cbn [sumN]. rewrite IH. lia. Qed.

(* ---------------------------------------------------------------- the canonical code *)
Local Notation cnt h l := (count_len h 0 286 l).

Lemma fcode_SS : forall h k,
  fcode h (S (S k)) = 2 * (fcode h (S k) + cnt h (N.of_nat (S k))).
Proof. intros h k. reflexivity. Qed.

(* the codes of length l end before those of length l + d begin (scaled) *)
Lemma fcode_mono : forall h d l, (1 <= l)%nat ->
  2 ^ N.of_nat d * (fcode h l + cnt h (N.of_nat l)) <=
  fcode h (l + d) + cnt h (N.of_nat (l + d)).
Proof.
  intros h d. induction d as [|d IH]; intros l Hl.
  - rewrite Nat.add_0_r. change (2 ^ N.of_nat 0) with 1. lia.
  - specialize (IH l Hl).
    replace (l + S d)%nat with (S (l + d)) by lia.
    destruct (l + d)%nat as [|k] eqn:E; [lia|].
    rewrite fcode_SS.
    replace (N.of_nat (S d)) with (N.succ (N.of_nat d)) by lia. rewrite N.pow_succ_r'.
    lia.
Qed.

Lemma rank_lt : forall h s l, s < 286 -> Hlen h s = l ->
  count_len h 0 (N.to_nat s) l + 1 <= cnt h l.
Proof.
  intros h s l Hs Hl.
  pose proof (count_len_succ h 0 s l) as H1. rewrite N.add_0_l in H1.
  unfold Hlen in Hl. rewrite Hl, N.eqb_refl in H1.
  pose proof (count_len_mono h 0 l (N.to_nat (s + 1)) 286 ltac:(lia)) as H2. lia.
Qed.

Definition kraft_ok (h : arr) : Prop := fcode h 15 + cnt h 15 <= 32768.

(* the code of a used symbol lies inside the range of its length *)
Lemma ccode_range : forall h s, s < 286 ->
  ccode h s + 1 <= fcode h (N.to_nat (Hlen h s)) + cnt h (Hlen h s).
Proof.
  intros h s Hs. unfold ccode. pose proof (rank_lt h s (Hlen h s) Hs eq_refl). lia.
Qed.

Lemma range_15 : forall h l, 1 <= l <= 15 ->
  2 ^ (15 - l) * (fcode h (N.to_nat l) + cnt h l) <= fcode h 15 + cnt h 15.
Proof.
  intros h l Hl.
  pose proof (fcode_mono h (N.to_nat (15 - l)) (N.to_nat l) ltac:(lia)) as H.
  rewrite !N2Nat.id in H.
  replace (N.to_nat l + N.to_nat (15 - l))%nat with 15%nat in H by lia.
  change (N.of_nat 15) with 15 in H. exact H.
Qed.

Lemma ccode_lt : forall h s, kraft_ok h -> s < 286 -> 1 <= Hlen h s <= 15 ->
  ccode h s < 2 ^ Hlen h s.
Proof.
  intros h s Hk Hs Hl. pose proof (ccode_range h s Hs) as H1.
  pose proof (range_15 h (Hlen h s) Hl) as H2. unfold kraft_ok in Hk.
  set (l := Hlen h s) in *.
  assert (H3 : 2 ^ (15 - l) * (ccode h s + 1) <= 2 ^ (15 - l) * 2 ^ l).
  { rewrite <- N.pow_add_r. replace (15 - l + l) with 15 by lia. change (2 ^ 15) with 32768.
    assert (H4 : 2 ^ (15 - l) * (ccode h s + 1) <=
                 2 ^ (15 - l) * (fcode h (N.to_nat l) + cnt h l)).
    { apply N.mul_le_mono_l. exact H1. }
    lia. }
  apply N.mul_le_mono_pos_l in H3; [lia|].
  apply N.neq_0_lt_0. apply N.pow_nonzero. lia.
Qed.

(* ---------------------------------------------------------------- classes *)
Lemma sym_extra_class : forall s, s < 286 -> sym_extra s = sym_class s.
Proof.
  intros s Hs.
  assert (H : forallb (fun s => sym_extra s =? sym_class s) (Nrange 286) = true)
    by (vm_compute; reflexivity).
  pose proof (forallb_Nrange _ _ s H ltac:(lia)) as H1. cbv beta in H1. lia.
Qed.

Lemma sym_class_le : forall s, s < 286 -> sym_class s <= 5.
Proof.
  intros s Hs.
  assert (H : forallb (fun s => sym_class s <=? 5) (Nrange 286) = true)
    by (vm_compute; reflexivity).
  pose proof (forallb_Nrange _ _ s H ltac:(lia)) as H1. cbv beta in H1. lia.
Qed.

(* ---------------------------------------------------------------- the track machine, by track *)
Definition trS (lv : N) : N := if lv =? 13 then 2 else if lv =? 14 then 4 else 8.
Definition tro (lv : N) (st : mst) : N :=
  if lv =? 13 then o13 st else if lv =? 14 then o14 st else o15 st.
Definition trm (lv : N) (st : mst) : N :=
  if lv =? 13 then m13 st else if lv =? 14 then m14 st else m15 st.

Lemma trS_pow : forall lv, 13 <= lv <= 15 -> trS lv = 2 ^ (lv - 12).
Proof.
  intros lv H. assert (C : lv = 13 \/ lv = 14 \/ lv = 15) by lia.
  destruct C as [->|[->| ->]]; reflexivity.
Qed.

Lemma blkval_mono : forall S a b, a <= b -> blkval S a <= blkval S b.
Proof.
  intros S a b H. unfold blkval.
  destruct (N.eqb_spec a 0) as [Ha|Ha]; [lia|].
  destruct (N.eqb_spec b 0) as [Hb|Hb]; [lia|].
  apply N.mul_le_mono_l. apply N.pow_le_mono_r; lia.
Qed.

Lemma blkval_max : forall S a b, blkval S (N.max a b) = N.max (blkval S a) (blkval S b).
Proof.
  intros S a b. destruct (N.le_ge_cases a b) as [H|H].
  - pose proof (blkval_mono S a b H). rewrite !N.max_r by lia. reflexivity.
  - pose proof (blkval_mono S b a H). rewrite !N.max_l by lia. reflexivity.
Qed.

Lemma place_spec : forall S o m e o' m' g, place S o m e = (o', m', g) ->
  blkval S m' + g = N.max (blkval S m) (blkval S (e + 1)) /\
  (o + 1 = S -> o' = 0 /\ m' = 0) /\
  (o + 1 <> S -> o' = o + 1 /\ m' = N.max m (e + 1) /\ g = 0).
Proof.
  intros S o m e o' m' g H. unfold place in H.
  destruct (N.eqb_spec (o + 1) S) as [Heq|Hne].
  - apply pair_equal_spec in H. destruct H as [H Hg]. apply pair_equal_spec in H.
    destruct H as [Ho Hm]. subst o' m' g. rewrite blkval_max.
    change (blkval S 0) with 0. split; [lia|]. split; [intros _; split; reflexivity|].
    intros Hc. contradiction.
  - apply pair_equal_spec in H. destruct H as [H Hg]. apply pair_equal_spec in H.
    destruct H as [Ho Hm]. subst o' m' g. rewrite blkval_max.
    split; [lia|]. split; [intros Hc; contradiction|]. intros _. split; [reflexivity|].
    split; reflexivity.
Qed.

(* a symbol placed on track lv *)
Lemma mstep_on : forall lv e st o m g, 13 <= lv <= 15 ->
  place (trS lv) (tro lv st) (trm lv st) e = (o, m, g) ->
  tro lv (mstep e lv st) = o /\ trm lv (mstep e lv st) = m /\
  acc (mstep e lv st) = acc st + g /\ mM (mstep e lv st) = N.max (mM st) (lv + e) /\
  (forall lv', 13 <= lv' <= 15 -> lv' <> lv ->
     tro lv' (mstep e lv st) = tro lv' st /\ trm lv' (mstep e lv st) = trm lv' st).
Proof.
  intros lv e st o m g Hlv Hp.
  assert (C : lv = 13 \/ lv = 14 \/ lv = 15) by lia.
  destruct C as [->|[->| ->]]; unfold mstep, trS, tro, trm in *; cbn [N.eqb Pos.eqb] in *;
    rewrite Hp; cbn [o13 m13 o14 m14 o15 m15 mM acc];
    (split; [reflexivity|]); (split; [reflexivity|]); (split; [reflexivity|]);
    (split; [reflexivity|]);
    intros lv' Hlv' Hne;
    assert (C' : lv' = 13 \/ lv' = 14 \/ lv' = 15) by lia;
    destruct C' as [->|[->| ->]]; try lia; cbn [N.eqb Pos.eqb]; split; reflexivity.
Qed.

(* a symbol not placed on a track *)
Lemma mstep_off : forall e c st, c <> 13 -> c <> 14 -> c <> 15 ->
  acc (mstep e c st) = acc st + 2 ^ e /\ mM (mstep e c st) = N.max (mM st) (12 + e) /\
  (forall lv, tro lv (mstep e c st) = tro lv st /\ trm lv (mstep e c st) = trm lv st).
Proof.
  intros e c st H13 H14 H15. unfold mstep.
  destruct (N.eqb_spec c 13) as [?|_]; [contradiction|].
  destruct (N.eqb_spec c 14) as [?|_]; [contradiction|].
  destruct (N.eqb_spec c 15) as [?|_]; [contradiction|].
  cbn [acc mM]. split; [reflexivity|]. split; [reflexivity|].
  intros lv. unfold tro, trm. cbn [o13 m13 o14 m14 o15 m15]. split; reflexivity.
Qed.

(* ---------------------------------------------------------------- weights of the canonical code *)
(* the symbol has codes of more than 12 bits *)
Definition is_long (h : arr) (s : N) : bool :=
  negb (Hlen h s =? 0) && (13 <=? Hlen h s + sym_extra s).
(* key (low 12 bits of the stored code) of the expansion x of symbol s *)
Definition xfb (h : arr) (s x : N) : N :=
  N.land (N.lor (bitReverse2 (ccode h s) (Hlen h s)) (N.shiftl x (Hlen h s))) 4095.
(* size of a group whose longest code is an expansion of s *)
Definition xw (h : arr) (s : N) : N := 2 ^ (Hlen h s + sym_extra s - 12).

(* the largest weight of the expansions x < nx of s with key g *)
Fixpoint Bx (h : arr) (s g : N) (nx : nat) : N :=
  match nx with
  | O => 0
  | S k => N.max (Bx h s g k) (if xfb h s (N.of_nat k) =? g then xw h s else 0)
  end.
Definition Bsym (h : arr) (s g : N) : N :=
  if is_long h s then Bx h s g (N.to_nat (2 ^ sym_extra s)) else 0.
(* the same over the symbols s < n *)
Fixpoint Bf (h : arr) (n : nat) (g : N) : N :=
  match n with
  | O => 0
  | S k => N.max (Bf h k g) (Bsym h (N.of_nat k) g)
  end.

Lemma xfb_lt : forall h s x, xfb h s x < 4096.
Proof. intros h s x. unfold xfb. pose proof (land_le_r (N.lor (bitReverse2 (ccode h s) (Hlen h s)) (N.shiftl x (Hlen h s))) 4095). lia. Qed.

Lemma Bx_ge : forall h s nx x, x < N.of_nat nx -> xw h s <= Bx h s (xfb h s x) nx.
Proof.
  intros h s nx. induction nx as [|k IH]; intros x Hx; [lia|]. cbn [Bx].
  destruct (N.eq_dec x (N.of_nat k)) as [->|Hne].
  - rewrite N.eqb_refl. lia.
  - pose proof (IH x ltac:(lia)). lia.
Qed.

Lemma Bx_pos : forall h s g nx, Bx h s g nx <> 0 -> exists x, x < N.of_nat nx /\ xfb h s x = g.
Proof.
  intros h s g nx. induction nx as [|k IH]; intros H; [cbn [Bx] in H; lia|]. cbn [Bx] in H.
  destruct (N.eqb_spec (xfb h s (N.of_nat k)) g) as [Heq|Hne].
  - exists (N.of_nat k). split; [lia|exact Heq].
  - destruct (IH ltac:(lia)) as (x & Hx & Hg). exists x. split; [lia|exact Hg].
Qed.

Lemma Bx_const : forall h s g key nx, (forall x, xfb h s x = key) -> (0 < nx)%nat ->
  Bx h s g nx = if key =? g then xw h s else 0.
Proof.
  intros h s g key nx Hk. induction nx as [|k IH]; intros Hn; [lia|]. cbn [Bx]. rewrite Hk.
  destruct k as [|k'].
  - cbn [Bx]. lia.
  - rewrite IH by lia. lia.
Qed.

Lemma Bf_mono : forall h k g, Bf h k g <= Bf h (S k) g.
Proof. intros. cbn [Bf]. lia. Qed.

Lemma Bf_ge : forall h k s x, s < N.of_nat k -> is_long h s = true -> x < 2 ^ sym_extra s ->
  xw h s <= Bf h k (xfb h s x).
Proof.
  intros h k. induction k as [|k IH]; intros s x Hs Hl Hx; [lia|]. cbn [Bf].
  destruct (N.eq_dec s (N.of_nat k)) as [->|Hne].
  - unfold Bsym. rewrite Hl.
    pose proof (Bx_ge h (N.of_nat k) (N.to_nat (2 ^ sym_extra (N.of_nat k))) x ltac:(lia)). lia.
  - pose proof (IH s x ltac:(lia) Hl Hx). lia.
Qed.

Lemma Bf_pos : forall h k g, Bf h k g <> 0 ->
  exists s x, s < N.of_nat k /\ is_long h s = true /\ x < 2 ^ sym_extra s /\ xfb h s x = g.
Proof.
  intros h k g. induction k as [|k IH]; intros H; [cbn [Bf] in H; lia|]. cbn [Bf] in H.
  destruct (N.eq_dec (Bsym h (N.of_nat k) g) 0) as [Hz|Hnz].
  - destruct (IH ltac:(lia)) as (s & x & Hs & Hr). exists s, x. split; [lia|exact Hr].
  - unfold Bsym in Hnz. destruct (is_long h (N.of_nat k)) eqn:El; [|lia].
    destruct (Bx_pos _ _ _ _ Hnz) as (x & Hx & Hg).
    exists (N.of_nat k), x. split; [lia|]. split; [exact El|]. split; [lia|exact Hg].
Qed.

(* ---------------------------------------------------------------- keys of a symbol *)
(* Huffman length 13..15: all expansions have the key of the block of the code *)
Lemma xfb_high : forall h s x, kraft_ok h -> s < 286 -> 13 <= Hlen h s <= 15 ->
  xfb h s x = Fkey (Hlen h s) (ccode h s / trS (Hlen h s)).
Proof.
  intros h s x Hk Hs Hl. unfold xfb.
  rewrite land_lor_shiftl_high by lia.
  rewrite key_high; [|exact Hl|apply ccode_lt; [exact Hk|exact Hs|lia]].
  rewrite trS_pow by exact Hl. reflexivity.
Qed.

Lemma xw_high : forall h s, 13 <= Hlen h s <= 15 ->
  xw h s = blkval (trS (Hlen h s)) (sym_extra s + 1).
Proof.
  intros h s Hl. unfold xw, blkval.
  destruct (N.eqb_spec (sym_extra s + 1) 0) as [Hc|_]; [lia|].
  rewrite trS_pow by exact Hl. rewrite <- N.pow_add_r. f_equal. lia.
Qed.

Lemma is_long_high : forall h s, 13 <= Hlen h s -> is_long h s = true.
Proof. intros h s H. unfold is_long. lia. Qed.

Lemma Bsym_high : forall h s g, kraft_ok h -> s < 286 -> 13 <= Hlen h s <= 15 ->
  Bsym h s g =
  if g =? Fkey (Hlen h s) (ccode h s / trS (Hlen h s))
  then blkval (trS (Hlen h s)) (sym_extra s + 1) else 0.
Proof.
  intros h s g Hk Hs Hl. unfold Bsym. rewrite is_long_high by lia.
  rewrite (Bx_const h s g (Fkey (Hlen h s) (ccode h s / trS (Hlen h s)))).
  - rewrite xw_high by exact Hl. rewrite N.eqb_sym. reflexivity.
  - intros x. apply xfb_high; assumption.
  - assert (H : 2 ^ sym_extra s <> 0) by (apply N.pow_nonzero; lia). lia.
Qed.

(* Huffman length 1..12: only the low 12 - l bits of x matter *)
Lemma xfb_low : forall h s x, Hlen h s <= 12 ->
  xfb h s x = xfb h s (x mod 2 ^ (12 - Hlen h s)).
Proof. intros h s x Hl. unfold xfb. apply land_lor_shiftl_low. exact Hl. Qed.

Lemma Bx_low : forall h s g nx, Hlen h s <= 12 ->
  Bx h s g nx <=
  sumN (N.to_nat (2 ^ (12 - Hlen h s))) (fun y => if xfb h s y =? g then xw h s else 0).
Proof.
  intros h s g nx Hl. induction nx as [|k IH]; [cbn [Bx]; lia|]. cbn [Bx].
  destruct (N.eqb_spec (xfb h s (N.of_nat k)) g) as [Heq|Hne]; [|lia].
  apply N.max_lub; [exact IH|].
  set (P := 2 ^ (12 - Hlen h s)) in *.
  assert (HP : P <> 0) by (apply N.pow_nonzero; lia).
  pose proof (N.mod_lt (N.of_nat k) P HP) as Hm.
  pose proof (sumN_term (N.to_nat P) (fun y => if xfb h s y =? g then xw h s else 0)
                (N.of_nat k mod P) ltac:(lia)) as Ht.
  cbv beta in Ht. unfold P in Ht. rewrite <- (xfb_low h s (N.of_nat k) Hl) in Ht.
  rewrite Heq, N.eqb_refl in Ht. exact Ht.
Qed.

Lemma Bsym_low_sum : forall KN h s, 1 <= Hlen h s <= 12 ->
  sumN KN (Bsym h s) <= 2 ^ sym_extra s.
Proof.
  intros KN h s Hl. unfold Bsym. destruct (is_long h s) eqn:El.
  2:{ rewrite sumN_zero by (intros; reflexivity). lia. }
  unfold is_long in El.
  set (P := 2 ^ (12 - Hlen h s)).
  apply N.le_trans with
    (sumN KN (fun g => sumN (N.to_nat P) (fun y => if xfb h s y =? g then xw h s else 0))).
  { apply sumN_le. intros g _. apply Bx_low. lia. }
  rewrite sumN_swap.
  apply N.le_trans with (sumN (N.to_nat P) (fun _ => xw h s)).
  { apply sumN_le. intros y _. apply sumN_indicator_le. }
  rewrite sumN_const, N2Nat.id. unfold P, xw. rewrite <- N.pow_add_r.
  apply N.pow_le_mono_r; lia.
Qed.

(* ---------------------------------------------------------------- the invariant *)
Ltac Zify.zify_post_hook ::= Z.div_mod_to_equations.

Section Inv.
Variable KN : nat.
Hypothesis HKN : N.of_nat KN = 4096.
Variable h : arr.
Hypothesis Hk : kraft_ok h.
Hypothesis H15 : forall s, Hlen h s <= 15.

(* the next code of length lv after the symbols below k *)
Definition tcode (k : nat) (lv : N) : N := fcode h (N.to_nat lv) + count_len h 0 k lv.

Lemma tcode_S : forall k lv,
  tcode (S k) lv = tcode k lv + (if Hlen h (N.of_nat k) =? lv then 1 else 0).
Proof.
  intros k lv. unfold tcode. cbn [count_len]. rewrite N.add_0_l. unfold Hlen. lia.
Qed.

Lemma tcode_ccode : forall k, tcode k (Hlen h (N.of_nat k)) = ccode h (N.of_nat k).
Proof. intros k. unfold tcode, ccode. rewrite Nat2N.id. reflexivity. Qed.

Definition trk_inv (k : nat) (st : mst) (lv : N) : Prop :=
  tro lv st = tcode k lv mod trS lv /\
  (trm lv st <> 0 -> tro lv st <> 0) /\
  blkval (trS lv) (trm lv st) <= Bf h k (Fkey lv (tcode k lv / trS lv)).

Definition run_inv (k : nat) (st : mst) : Prop :=
  sumN KN (Bf h k) <= acc st + blkval 2 (m13 st) + blkval 4 (m14 st) + blkval 8 (m15 st) /\
  trk_inv k st 13 /\ trk_inv k st 14 /\ trk_inv k st 15 /\
  (forall s, s < N.of_nat k -> is_long h s = true -> Hlen h s + sym_extra s <= mM st).

Lemma trk_keep : forall k st st' lv,
  trk_inv k st lv -> tro lv st' = tro lv st -> trm lv st' = trm lv st ->
  Hlen h (N.of_nat k) <> lv -> trk_inv (S k) st' lv.
Proof.
  intros k st st' lv (I1 & I2 & I3) Ho Hm Hne. unfold trk_inv.
  rewrite Ho, Hm, tcode_S.
  destruct (N.eqb_spec (Hlen h (N.of_nat k)) lv) as [?|_]; [contradiction|].
  rewrite N.add_0_r. split; [exact I1|]. split; [exact I2|].
  pose proof (Bf_mono h k (Fkey lv (tcode k lv / trS lv))). lia.
Qed.

Lemma trS_cases : forall lv, 13 <= lv <= 15 -> trS lv = 2 \/ trS lv = 4 \/ trS lv = 8.
Proof.
  intros lv H. assert (C : lv = 13 \/ lv = 14 \/ lv = 15) by lia.
  destruct C as [->|[->| ->]]; [left|right; left|right; right]; reflexivity.
Qed.

Lemma Bf_S_high : forall k g, N.of_nat k < 286 -> 13 <= Hlen h (N.of_nat k) <= 15 ->
  Bf h (S k) g =
  N.max (Bf h k g)
        (if g =? Fkey (Hlen h (N.of_nat k)) (tcode k (Hlen h (N.of_nat k)) / trS (Hlen h (N.of_nat k)))
         then blkval (trS (Hlen h (N.of_nat k))) (sym_extra (N.of_nat k) + 1) else 0).
Proof.
  intros k g Hs Hl. cbn [Bf]. rewrite Bsym_high by assumption. rewrite tcode_ccode. reflexivity.
Qed.

Lemma trk_place : forall k st st' o m g,
  N.of_nat k < 286 -> 13 <= Hlen h (N.of_nat k) <= 15 ->
  trk_inv k st (Hlen h (N.of_nat k)) ->
  place (trS (Hlen h (N.of_nat k))) (tro (Hlen h (N.of_nat k)) st) (trm (Hlen h (N.of_nat k)) st)
        (sym_extra (N.of_nat k)) = (o, m, g) ->
  tro (Hlen h (N.of_nat k)) st' = o -> trm (Hlen h (N.of_nat k)) st' = m ->
  trk_inv (S k) st' (Hlen h (N.of_nat k)).
Proof.
  intros k st st' o m g Hs Hl (I1 & I2 & I3) Hp Ho Hm.
  set (lv := Hlen h (N.of_nat k)) in *.
  destruct (place_spec _ _ _ _ _ _ _ Hp) as (P1 & P2 & P3).
  unfold trk_inv. rewrite Ho, Hm, tcode_S. fold lv. rewrite N.eqb_refl.
  pose proof (trS_cases lv Hl) as HS.
  set (c := tcode k lv) in *. set (S := trS lv) in *.
  destruct (N.eq_dec (tro lv st + 1) S) as [Heq|Hne].
  - destruct (P2 Heq) as [-> ->]. change (blkval S 0) with 0.
    split; [|split; [intros Hc; contradiction|lia]].
    clearbody S c. clear P1 P2 P3 Hp I2 I3. destruct HS as [->|[->| ->]]; lia.
  - destruct (P3 Hne) as (-> & -> & ->).
    assert (Hdiv : (c + 1) / S = c / S /\ (c + 1) mod S = c mod S + 1).
    { clearbody S c. clear P1 P2 P3 Hp I2 I3. destruct HS as [->|[->| ->]]; lia. }
    destruct Hdiv as [Hd1 Hd2]. rewrite Hd1, Hd2.
    split; [lia|]. split; [intros _; lia|].
    rewrite (Bf_S_high k _ Hs Hl). fold lv. fold c. fold S. rewrite N.eqb_refl.
    rewrite blkval_max. apply N.max_le_compat_r. exact I3.
Qed.

Lemma sum_place : forall k key w A V V' g,
  key < 4096 ->
  (forall x, Bf h (S k) x = N.max (Bf h k x) (if x =? key then w else 0)) ->
  sumN KN (Bf h k) <= A + V -> V <= Bf h k key -> V' + g = N.max V w ->
  sumN KN (Bf h (S k)) <= A + g + V'.
Proof.
  intros k key w A V V' g Hkey HB HS HV Hg.
  rewrite (sumN_ext KN (Bf h (S k)) (fun x => N.max (Bf h k x) (if x =? key then w else 0)))
    by (intros x _; apply HB).
  pose proof (sumN_upd KN (Bf h k) key w ltac:(lia)) as Hu. lia.
Qed.

Lemma Fkey_lt : forall l b, Fkey l b < 4096.
Proof. intros l b. unfold Fkey. pose proof (land_le_r (bitReverse2 (b * 2 ^ (l - 12)) l) 4095). lia. Qed.

Lemma Bsym_sum_le : forall s, Hlen h s <= 12 -> sumN KN (Bsym h s) <= 2 ^ sym_extra s.
Proof.
  intros s Hl. destruct (N.eq_dec (Hlen h s) 0) as [H0|H0].
  - rewrite sumN_zero; [lia|]. intros g _. unfold Bsym, is_long. rewrite H0. reflexivity.
  - apply Bsym_low_sum. lia.
Qed.

Lemma run_step_off : forall k st, N.of_nat k < 286 -> Hlen h (N.of_nat k) <= 12 -> run_inv k st ->
  run_inv (S k) (mstep (sym_extra (N.of_nat k)) (Hlen h (N.of_nat k)) st).
Proof.
  intros k st Hs Hl (I1 & T13 & T14 & T15 & I5).
  destruct (mstep_off (sym_extra (N.of_nat k)) (Hlen h (N.of_nat k)) st
              ltac:(lia) ltac:(lia) ltac:(lia)) as (Hacc & HM & Hsame).
  set (st' := mstep (sym_extra (N.of_nat k)) (Hlen h (N.of_nat k)) st) in *.
  unfold run_inv. split; [|split; [|split; [|split]]].
  - change (m13 st') with (trm 13 st'). change (m14 st') with (trm 14 st').
    change (m15 st') with (trm 15 st').
    rewrite (proj2 (Hsame 13)), (proj2 (Hsame 14)), (proj2 (Hsame 15)), Hacc.
    change (trm 13 st) with (m13 st). change (trm 14 st) with (m14 st).
    change (trm 15 st) with (m15 st).
    pose proof (Bsym_sum_le (N.of_nat k) Hl) as Hb.
    assert (Hle : sumN KN (Bf h (S k)) <= sumN KN (Bf h k) + sumN KN (Bsym h (N.of_nat k))).
    { rewrite <- sumN_add. apply sumN_le. intros g _. cbn [Bf]. lia. }
    lia.
  - apply (trk_keep k st st' 13 T13); [apply Hsame|apply Hsame|lia].
  - apply (trk_keep k st st' 14 T14); [apply Hsame|apply Hsame|lia].
  - apply (trk_keep k st st' 15 T15); [apply Hsame|apply Hsame|lia].
  - intros s Hsk Hlong. rewrite HM.
    destruct (N.eq_dec s (N.of_nat k)) as [->|Hne]; [lia|].
    pose proof (I5 s ltac:(lia) Hlong). lia.
Qed.

Lemma run_step_on : forall k st, N.of_nat k < 286 -> 13 <= Hlen h (N.of_nat k) <= 15 ->
  run_inv k st ->
  run_inv (S k) (mstep (sym_extra (N.of_nat k)) (Hlen h (N.of_nat k)) st).
Proof.
  intros k st Hs Hl (I1 & T13 & T14 & T15 & I5).
  set (e := sym_extra (N.of_nat k)) in *.
  destruct (place (trS (Hlen h (N.of_nat k))) (tro (Hlen h (N.of_nat k)) st)
                  (trm (Hlen h (N.of_nat k)) st) e) as [[o m] g] eqn:Hp.
  destruct (mstep_on (Hlen h (N.of_nat k)) e st o m g Hl Hp) as (Ho & Hm & Hacc & HM & Hoth).
  set (st' := mstep e (Hlen h (N.of_nat k)) st) in *.
  assert (Tlv : trk_inv k st (Hlen h (N.of_nat k))).
  { assert (C : Hlen h (N.of_nat k) = 13 \/ Hlen h (N.of_nat k) = 14 \/ Hlen h (N.of_nat k) = 15)
      by lia.
    destruct C as [C|[C|C]]; rewrite C; assumption. }
  pose proof (trk_place k st st' o m g Hs Hl Tlv Hp Ho Hm) as Tnew.
  destruct (place_spec _ _ _ _ _ _ _ Hp) as (P1 & _ & _).
  destruct Tlv as (_ & _ & TV).
  pose proof (Fkey_lt (Hlen h (N.of_nat k))
                (tcode k (Hlen h (N.of_nat k)) / trS (Hlen h (N.of_nat k)))) as Hkey.
  pose proof (fun x => Bf_S_high k x Hs Hl) as HB. fold e in HB.
  assert (I5' : forall s, s < N.of_nat (S k) -> is_long h s = true ->
                  Hlen h s + sym_extra s <= mM st').
  { intros s Hsk Hlong. rewrite HM.
    destruct (N.eq_dec s (N.of_nat k)) as [->|Hne]; [fold e; lia|].
    pose proof (I5 s ltac:(lia) Hlong). lia. }
  assert (C : Hlen h (N.of_nat k) = 13 \/ Hlen h (N.of_nat k) = 14 \/ Hlen h (N.of_nat k) = 15)
    by lia.
  unfold run_inv.
  destruct C as [C|[C|C]]; rewrite C in *.
  - destruct (Hoth 14 ltac:(lia) ltac:(lia)) as [Ho14 Hm14].
    destruct (Hoth 15 ltac:(lia) ltac:(lia)) as [Ho15 Hm15].
    split; [|split; [exact Tnew|split; [|split; [|exact I5']]]].
    + change (m13 st') with (trm 13 st'). change (m14 st') with (trm 14 st').
      change (m15 st') with (trm 15 st'). rewrite Hm, Hm14, Hm15, Hacc.
      change (trm 14 st) with (m14 st). change (trm 15 st) with (m15 st).
      pose proof (sum_place k _ _ (acc st + blkval 4 (m14 st) + blkval 8 (m15 st))
                    (blkval 2 (m13 st)) (blkval 2 m) g Hkey HB ltac:(lia) TV P1) as Hsp.
      lia.
    + apply (trk_keep k st st' 14 T14 Ho14 Hm14). lia.
    + apply (trk_keep k st st' 15 T15 Ho15 Hm15). lia.
  - destruct (Hoth 13 ltac:(lia) ltac:(lia)) as [Ho13 Hm13].
    destruct (Hoth 15 ltac:(lia) ltac:(lia)) as [Ho15 Hm15].
    split; [|split; [|split; [exact Tnew|split; [|exact I5']]]].
    + change (m13 st') with (trm 13 st'). change (m14 st') with (trm 14 st').
      change (m15 st') with (trm 15 st'). rewrite Hm, Hm13, Hm15, Hacc.
      change (trm 13 st) with (m13 st). change (trm 15 st) with (m15 st).
      pose proof (sum_place k _ _ (acc st + blkval 2 (m13 st) + blkval 8 (m15 st))
                    (blkval 4 (m14 st)) (blkval 4 m) g Hkey HB ltac:(lia) TV P1) as Hsp.
      lia.
    + apply (trk_keep k st st' 13 T13 Ho13 Hm13). lia.
    + apply (trk_keep k st st' 15 T15 Ho15 Hm15). lia.
  - destruct (Hoth 13 ltac:(lia) ltac:(lia)) as [Ho13 Hm13].
    destruct (Hoth 14 ltac:(lia) ltac:(lia)) as [Ho14 Hm14].
    split; [|split; [|split; [|split; [exact Tnew|exact I5']]]].
    + change (m13 st') with (trm 13 st'). change (m14 st') with (trm 14 st').
      change (m15 st') with (trm 15 st'). rewrite Hm, Hm13, Hm14, Hacc.
      change (trm 13 st) with (m13 st). change (trm 14 st) with (m14 st).
      pose proof (sum_place k _ _ (acc st + blkval 2 (m13 st) + blkval 4 (m14 st))
                    (blkval 8 (m15 st)) (blkval 8 m) g Hkey HB ltac:(lia) TV P1) as Hsp.
      lia.
    + apply (trk_keep k st st' 13 T13 Ho13 Hm13). lia.
    + apply (trk_keep k st st' 14 T14 Ho14 Hm14). lia.
Qed.

Definition st0 : mst := minit (fcode h 13 mod 2) (fcode h 14 mod 4) (fcode h 15 mod 8).

Lemma run_init : run_inv 0 st0.
Proof.
  unfold run_inv, st0. split; [|split; [|split; [|split]]].
  - rewrite sumN_zero by (intros; reflexivity). lia.
  - unfold trk_inv, tcode. cbn [count_len]. rewrite N.add_0_r. split; [reflexivity|].
    split; [intros Hc; exfalso; apply Hc; reflexivity|]. change (blkval (trS 13) (trm 13 (minit (fcode h 13 mod 2) (fcode h 14 mod 4) (fcode h 15 mod 8)))) with 0. lia.
  - unfold trk_inv, tcode. cbn [count_len]. rewrite N.add_0_r. split; [reflexivity|].
    split; [intros Hc; exfalso; apply Hc; reflexivity|]. change (blkval (trS 14) (trm 14 (minit (fcode h 13 mod 2) (fcode h 14 mod 4) (fcode h 15 mod 8)))) with 0. lia.
  - unfold trk_inv, tcode. cbn [count_len]. rewrite N.add_0_r. split; [reflexivity|].
    split; [intros Hc; exfalso; apply Hc; reflexivity|]. change (blkval (trS 15) (trm 15 (minit (fcode h 13 mod 2) (fcode h 14 mod 4) (fcode h 15 mod 8)))) with 0. lia.
  - intros s Hs. lia.
Qed.

Lemma run_all : forall k, (k <= 286)%nat -> run_inv k (mrun (Hlen h) k st0).
Proof.
  induction k as [|k IH]; intros Hk286.
  - exact run_init.
  - cbn [mrun]. specialize (IH ltac:(lia)).
    assert (Hs : N.of_nat k < 286) by lia.
    rewrite <- (sym_extra_class (N.of_nat k) Hs).
    destruct (N.le_gt_cases (Hlen h (N.of_nat k)) 12) as [Hle|Hgt].
    + apply run_step_off; assumption.
    + apply run_step_on; [exact Hs| |exact IH]. pose proof (H15 (N.of_nat k)). lia.
Qed.

(* if some long code has the key 4095, the open block of track 15 is the block 4095 *)
Lemma top_block : forall st, run_inv 286 st -> Bf h 286 4095 <> 0 ->
  blkval 8 (m15 st) <= Bf h 286 4095.
Proof.
  intros st (_ & _ & _ & T15 & _) Hnz.
  destruct T15 as (I1 & I2 & I3).
  change (trm 15 st) with (m15 st) in *. change (tro 15 st) with (o15 st) in *.
  change (trS 15) with 8 in *.
  destruct (N.eq_dec (m15 st) 0) as [Hm0|Hm0].
  { rewrite Hm0. change (blkval 8 0) with 0. lia. }
  specialize (I2 Hm0).
  assert (HT : tcode 286 15 = fcode h 15 + cnt h 15) by reflexivity.
  assert (HK : tcode 286 15 <= 32768) by (rewrite HT; exact Hk).
  assert (Htop : tcode 286 15 / 8 = 4095).
  { destruct (Bf_pos h 286 4095 Hnz) as (s & x & Hs & Hlong & Hx & Hfb).
    change (N.of_nat 286) with 286 in Hs.
    pose proof (H15 s) as Hs15.
    pose proof (ccode_range h s Hs) as Hr.
    unfold is_long in Hlong.
    destruct (N.le_gt_cases (Hlen h s) 12) as [Hle|Hgt].
    - exfalso.
      assert (Hl : 1 <= Hlen h s <= 12) by lia.
      pose proof (ccode_lt h s Hk Hs ltac:(lia)) as Hc.
      destruct (key_low (Hlen h s) (ccode h s) Hl Hc) as [Hb1 Hb2].
      unfold xfb in Hfb.
      pose proof (key_low_ones _ _ _ Hle Hb1 Hfb) as Hones.
      specialize (Hb2 Hones).
      pose proof (range_15 h (Hlen h s) ltac:(lia)) as H2.
      assert (H3 : 2 ^ (15 - Hlen h s) * 2 ^ Hlen h s <=
                   2 ^ (15 - Hlen h s) * (fcode h (N.to_nat (Hlen h s)) + cnt h (Hlen h s))).
      { apply N.mul_le_mono_l.
        assert (Hp : 2 ^ Hlen h s <> 0) by (apply N.pow_nonzero; lia). lia. }
      rewrite <- N.pow_add_r in H3. replace (15 - Hlen h s + Hlen h s) with 15 in H3 by lia.
      change (2 ^ 15) with 32768 in H3.
      assert (H4 : tcode 286 15 = 32768) by lia.
      rewrite H4 in I1. change (32768 mod 8) with 0 in I1. lia.
    - assert (Hl : 13 <= Hlen h s <= 15) by lia.
      rewrite (xfb_high h s x Hk Hs Hl) in Hfb.
      pose proof (ccode_lt h s Hk Hs ltac:(lia)) as Hc.
      pose proof (range_15 h (Hlen h s) ltac:(lia)) as H2.
      assert (C : Hlen h s = 13 \/ Hlen h s = 14 \/ Hlen h s = 15) by lia.
      destruct C as [C|[C|C]]; rewrite C in *.
      + change (trS 13) with 2 in Hfb. change (2 ^ 13) with 8192 in Hc.
        change (2 ^ (15 - 13)) with 4 in H2. change (N.to_nat 13) with 13%nat in *.
        assert (Hb : ccode h s / 2 < 4096) by lia.
        apply (proj1 (Fkey_4095 13 _ ltac:(lia) Hb)) in Hfb. lia.
      + change (trS 14) with 4 in Hfb. change (2 ^ 14) with 16384 in Hc.
        change (2 ^ (15 - 14)) with 2 in H2. change (N.to_nat 14) with 14%nat in *.
        assert (Hb : ccode h s / 4 < 4096) by lia.
        apply (proj1 (Fkey_4095 14 _ ltac:(lia) Hb)) in Hfb. lia.
      + change (trS 15) with 8 in Hfb. change (2 ^ 15) with 32768 in Hc.
        change (2 ^ (15 - 15)) with 1 in H2. change (N.to_nat 15) with 15%nat in *.
        assert (Hb : ccode h s / 8 < 4096) by lia.
        apply (proj1 (Fkey_4095 15 _ ltac:(lia) Hb)) in Hfb. lia. }
  rewrite Htop in I3.
  assert (HF : Fkey 15 4095 = 4095) by (apply Fkey_4095; lia).
  rewrite HF in I3. exact I3.
Qed.

(* the weight function handed to Part B *)
Definition Bq (V : N) (g : N) : N :=
  N.max (Bf h 286 g) (if g =? 4095 then (if Bf h 286 4095 =? 0 then 0 else V) else 0).

Lemma final_bound : forall st, run_inv 286 st -> mfinal st <= 1264 ->
  sumN KN (Bq (2 ^ (mM st - 12))) <= 1264.
Proof.
  intros st Hinv Hfin. pose proof Hinv as (I1 & _).
  unfold mfinal in Hfin. unfold Bq.
  pose proof (sumN_upd KN (Bf h 286) 4095
                (if Bf h 286 4095 =? 0 then 0 else 2 ^ (mM st - 12)) ltac:(lia)) as Hu.
  destruct (N.eqb_spec (Bf h 286 4095) 0) as [Hz|Hnz].
  - lia.
  - pose proof (top_block st Hinv Hnz) as Ht. lia.
Qed.

End Inv.

(* ---------------------------------------------------------------- assembly *)
From Verif Require EngineSafetyLitLen EngineSafetyHeader.
From Verif Require Import EngineSafetyLongFitCodes EngineSafetyLongFitLoop EngineSafetyLongFitDP.

Lemma hc_code_set' : forall c l, c < 16777216 -> l < 256 -> hc_code (hc_set c l) = c.
Proof.
  intros c l Hc Hl. unfold hc_code, hc_set.
  assert (Hs : N.shiftl l 24 < 2 ^ 32).
  { change 32 with (8 + 24). apply shiftl_lt_pow2. exact Hl. }
  rewrite u32_small.
  - change 16777215 with (N.ones 24). apply land_ones_lor_shiftl. exact Hc.
  - change 4294967296 with (2 ^ 32). apply lor_lt_pow2; [|exact Hs].
    change (2 ^ 32) with 4294967296. lia.
Qed.

(* the stored entry of an expansion: length, code, key *)
Lemma xentry_facts : forall h s x, s < 286 -> x < 2 ^ sym_extra s -> Hlen h s <= 15 ->
  hc_len (xentry h s x) = Hlen h s + sym_extra s /\
  hc_code (xentry h s x) < 1048576 /\
  N.land (hc_code (xentry h s x)) 4095 = xfb h s x.
Proof.
  intros h s x Hs Hx Hl.
  pose proof (sym_class_le s Hs) as He. rewrite <- (sym_extra_class s Hs) in He.
  set (code := N.lor (bitReverse2 (ccode h s) (Hlen h s)) (N.shiftl x (Hlen h s))).
  assert (Hcode : code < 1048576).
  { change 1048576 with (2 ^ 20). apply lor_lt_pow2.
    - pose proof (bitReverse2_lt (ccode h s) (Hlen h s)). change (2 ^ 20) with 1048576. lia.
    - apply N.lt_le_trans with (2 ^ (5 + Hlen h s)).
      + apply shiftl_lt_pow2. apply N.lt_le_trans with (2 ^ sym_extra s); [exact Hx|].
        apply N.pow_le_mono_r; lia.
      + apply N.pow_le_mono_r; lia. }
  unfold xentry. fold code.
  rewrite hc_len_set by lia. rewrite hc_code_set' by lia.
  split; [reflexivity|]. split; [exact Hcode|reflexivity].
Qed.

Theorem long_codes_fit : EngineSafetyHeader.LongCodesFit.
Proof.
  unfold EngineSafetyHeader.LongCodesFit. intros d d1 Hpost Hset.
  destruct (codes_desc d d1 Hpost Hset) as [Hkr Hent].
  destruct (setAndExpand_spec d d1 ENone Hset Hpost) as (_ & Hsorted & _).
  specialize (Hsorted eq_refl).
  remember (litAndDistHuff d) as h eqn:Eh.
  assert (Hkraft : kraft_ok h) by exact Hkr.
  assert (H15 : forall s, Hlen h s <= 15).
  { intros s. destruct Hpost as (Hok & _). destruct (Hok s) as [_ H]. exact H. }
  pose proof (run_all 4096%nat eq_refl h Hkraft H15 286%nat (le_n _)) as Hinv.
  assert (Hm : mfinal (mrun (Hlen h) 286 (st0 h)) <= 1264).
  { apply machine_bound; apply N.mod_lt; lia. }
  remember (mrun (Hlen h) 286 (st0 h)) as st eqn:Est.
  pose proof (final_bound 4096%nat eq_refl h Hkraft H15 st Hinv Hm) as Hsum.
  apply (groups_bound d1 (Bq h (2 ^ (mM st - 12))) (2 ^ (mM st - 12)) Hsorted); [|exact Hsum].
  clear Hsum Hm.
  intros k Hklt. cbv zeta. unfold long_entry.
  pose proof (EngineSafetyLitLen.lc_mono d1 Hsorted 13 22 ltac:(lia) ltac:(lia)) as Hmono.
  destruct (EngineSafetyLitLen.bucket_ex d1 Hsorted 13 22 (aget (litCount d1) 13 + k)
              ltac:(lia) ltac:(lia) ltac:(lia)) as (L & HL & _ & Ht & HlenL).
  set (t := aget (codeList d1) (aget (litCount d1) 13 + k)) in *.
  destruct (Hent t Ht ltac:(lia)) as (s & x & Hs & Hx & Hnz & Hv).
  rewrite Hv in *.
  destruct (xentry_facts h s x Hs Hx (H15 s)) as (F1 & F2 & F3).
  rewrite F1 in *. rewrite F3.
  assert (Hlong : is_long h s = true) by (unfold is_long; lia).
  destruct Hinv as (_ & _ & _ & _ & I5).
  pose proof (I5 s ltac:(lia) Hlong) as HM.
  pose proof (Bf_ge h 286 s x ltac:(lia) Hlong Hx) as Hge. unfold xw in Hge.
  assert (Hpos : 2 ^ (Hlen h s + sym_extra s - 12) <> 0) by (apply N.pow_nonzero; lia).
  split; [exact F2|]. split; [|split].
  - unfold Bq. lia.
  - apply N.pow_le_mono_r; lia.
  - intros H4095. unfold Bq. rewrite H4095 in Hge. rewrite N.eqb_refl.
    destruct (N.eqb_spec (Bf h 286 4095) 0) as [Hz|_]; lia.
Qed.

Print Assumptions long_codes_fit.
