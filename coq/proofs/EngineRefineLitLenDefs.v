(* EngineRefineLitLenDefs.v -- interface definitions for the proof of gen_litlen_statement
   (RModel/EngineRefineSpec.v), shared by the files proofs/EngineRefineLitLen*.v:

     xcodes ll  --(xc_char)-->  semantic description of the extended code words
     setAndExpandLitLenHuffCode = prefix-sum loops (ps_loop1/2, ps_post) ; sae_tail (xsorted)
     genForLitLen = gll_phase1 (short_ok) ; encodeLongCodes (long_ok)
     litlen_decode on (short_ok, long_ok) tables = lit_tab_ok                                 *)
From Coq Require Import List NArith ZArith Bool Lia ZifyBool ZifyNat ZifyN.
From Verif Require Import Bits Huffman Inflate.
From Verif Require Import Base EngineTables Engine EngineRefineSpec.
From Verif Require Import EngineRefineLitLenBase.
From Verif Require HuffmanProofs.
Import ListNotations.
Open Scope N_scope.

(* an extended code: list of (engine symbol, number of bits, value read LSB first) *)
Definition xlist := list (N * nat * N).

Definition xc_wf (xc : xlist) : Prop :=
  forall s len val, In (s, len, val) xc ->
    (1 <= len <= 20)%nat /\ val < 2 ^ N.of_nat len /\ s <= 512.

(* no extended code word is a proper prefix of another one *)
Definition xc_prefix_free (xc : xlist) : Prop :=
  forall s1 l1 v1 s2 l2 v2, In (s1, l1, v1) xc -> In (s2, l2, v2) xc -> (l1 <= l2)%nat ->
    N.land v2 (N.ones (N.of_nat l1)) = v1 -> l1 = l2.

(* ---------------------------------------------------------------- the canonical code, by position *)
(* the code value of symbol i: first code of its length + number of earlier symbols of that length *)
Definition cw (ll : lens) (i : nat) : N :=
  first_code ll (nth i ll 0%nat) + HuffmanProofs.occ (firstn i ll) (nth i ll 0%nat).

(* sum_{k<n} f k *)
Fixpoint bsum (f : nat -> N) (n : nat) : N :=
  match n with O => 0 | S k => bsum f k + f k end.

(* number of expanded codes of the length symbol 257 + k *)
Definition xw (k : nat) : N := 2 ^ aget rfc_len_extra (N.of_nat k).
(* index in litAndDistHuff[257..514) of the first expanded code of the length symbol 257 + k *)
Definition xbase (k : nat) : N := 257 + bsum xw k.

(* (len, val) is the extended code word stored at index idx of litAndDistHuff *)
Definition xin_idx (ll : lens) (idx : N) (len : nat) (val : N) : Prop :=
  (exists i, (i <= 256)%nat /\ idx = N.of_nat i /\ nth i ll 0%nat <> 0%nat /\
     len = nth i ll 0%nat /\ val = rcode len (cw ll i))
  \/
  (exists k x, (k < 29)%nat /\ x < xw k /\ idx = xbase k + x /\
     nth (257 + k) ll 0%nat <> 0%nat /\
     len = (nth (257 + k) ll 0%nat + N.to_nat (aget rfc_len_extra (N.of_nat k)))%nat /\
     val = rcode (nth (257 + k) ll 0%nat) (cw ll (257 + k))
           + x * 2 ^ N.of_nat (nth (257 + k) ll 0%nat)).

Definition xc_char (ll : lens) (xc : xlist) : Prop :=
  forall s len val, In (s, len, val) xc <->
    exists idx, s = indexToSym idx /\ xin_idx ll idx len val.

(* ---------------------------------------------------------------- counts per expanded length *)
Definition litem (ll : lens) (L : N) (i : nat) : N :=
  if negb (L =? 0) && (N.of_nat (nth i ll 0%nat) =? L) then 1 else 0.
Definition xitem (ll : lens) (L : N) (k : nat) : N :=
  let li := N.of_nat (nth (257 + k) ll 0%nat) in
  if negb (li =? 0) && (li + aget rfc_len_extra (N.of_nat k) =? L) then xw k else 0.
(* number of extended codes of expanded length L *)
Definition Ecount (ll : lens) (L : N) : N := bsum (litem ll L) 257 + bsum (xitem ll L) 29.
(* number of extended codes of expanded length < L: start offset of the class L in codeList *)
Definition Soff (ll : lens) (L : N) : N := bsum (fun L' => Ecount ll (N.of_nat L')) (N.to_nat L).

(* ---------------------------------------------------------------- setAndExpandLitLenHuffCode, cut *)
Definition ps_loop1 (lc ex nc : arr) (ctmp : N) : arr * arr * N * N :=
  forN 1 15 (fun i (st : arr * arr * N * N) =>
    let '(ex, nc, countTotal, countTmp) := st in
    let countTotal := u32 (aget lc i + countTmp + countTotal) in
    let countTmp := aget ex (i + 1) in
    (aset ex (i + 1) (u16 countTotal),
     aset nc (i + 1) (shl32 (u32 (aget nc i + aget lc i)) 1), countTotal, countTmp))
    (ex, nc, 0, ctmp).

Definition ps_loop2 (ex : arr) (ct ctmp : N) : arr * N * N :=
  forN 15 22 (fun i (st : arr * N * N) =>
    let '(ex, countTotal, countTmp) := st in
    let countTotal := u32 (countTmp + countTotal) in
    let countTmp := aget ex (i + 1) in
    (aset ex (i + 1) (u16 countTotal), countTotal, countTmp))
    (ex, ct, ctmp).

(* the part after the over-subscription test *)
Definition sae_tail (d : dynHdr) (ex nc : arr) : dynHdr * ierr :=
  let lc := forN 0 maxLitLenCount (fun i t => aset t i (aget ex i)) (litCount d) in
  let lenHuff := forN 0 29 (fun i t => aset t i (aget (litAndDistHuff d) (litSymbolsSize + i)))
                      (lenHuffCodes d) in
  let huff := forN litSymbolsSize litLenElems (fun i t => aset t i 0) (litAndDistHuff d) in
  let '(huff, cl, ex, nc, pan1) := calcCodeForLit huff (codeList d) ex nc in
  let '(huff, cl, ex, nc, pan2) := expandLenCodes huff cl ex nc lenHuff in
  (mkDyn huff (clcShort d) (clcLong d) cl lc (distCount d) ex nc lenHuff,
   if pan1 || pan2 then EPanic else ENone).

Lemma setAndExpand_eq : forall d,
  setAndExpandLitLenHuffCode d =
  let '(ex, nc, ct, ctmp) :=
    ps_loop1 (litCount d) (aset (aset (litExpandCount d) 0 0) 1 0)
             (aset (aset (nextCode d) 0 0) 1 0) (aget (litExpandCount d) 1) in
  let '(ex, _, _) := ps_loop2 ex ct (u32 (aget (litCount d) 15 + ctmp)) in
  if 32768 <? u32 (aget nc 15 + aget (litCount d) 15)
  then (mkDyn (litAndDistHuff d) (clcShort d) (clcLong d) (codeList d) (litCount d) (distCount d)
              ex nc (lenHuffCodes d), EInvalidBlock)
  else sae_tail d ex nc.
Proof.
  intros d. unfold setAndExpandLitLenHuffCode, ps_loop1, ps_loop2, sae_tail. cbv zeta. reflexivity.
Qed.

(* what the two prefix-sum loops establish *)
Definition ps_post (ll : lens) (ex nc : arr) : Prop :=
  (forall L, L <= 22 -> aget ex L = Soff ll L) /\
  (forall b, (1 <= b <= 15)%nat -> aget nc (N.of_nat b) = first_code ll b).

(* post-condition of setAndExpandLitLenHuffCode: codeList is the list of the indices of all
   extended codes, sorted by expanded length; litCount[L] .. litCount[L+1] is the class L *)
Definition xsorted (xc : xlist) (d : dynHdr) : Prop :=
  let lc := litCount d in
  let cl := codeList d in
  let h := litAndDistHuff d in
  aget lc 0 = 0 /\
  (forall L, L < 22 -> aget lc L <= aget lc (L + 1)) /\
  aget lc 22 <= 514 /\
  (forall L k, L < 22 -> aget lc L <= k < aget lc (L + 1) ->
     aget cl k < 514 /\
     exists val, aget h (aget cl k) = hc_set val L /\
                 In (indexToSym (aget cl k), N.to_nat L, val) xc) /\
  (forall s len val, In (s, len, val) xc ->
     exists k, aget lc (N.of_nat len) <= k < aget lc (N.of_nat len + 1) /\
               indexToSym (aget cl k) = s /\
               aget h (aget cl k) = hc_set val (N.of_nat len)) /\
  (forall k k', k < aget lc 22 -> k' < aget lc 22 -> aget cl k = aget cl k' -> k = k').

(* ---------------------------------------------------------------- genForLitLen, cut *)
Definition gll_step (d : dynHdr) (multisym minLen : N) (ll : N) (st : arr * N * ierr)
  : arr * N * ierr :=
  let '(t, cs, err) := st in
  match err with
  | ENone =>
    let t := forN 0 (N.min cs (4096 - cs)) (fun i t => aset t (cs + i) (aget t i)) t in
    let cs := cs * 2 in
    let '(t, pan) := encodeSingles t d ll in
    if pan then (t, cs, EPanic)
    else if (singleSymFlag <=? multisym) || (ll <? 2 * minLen) then (t, cs, ENone)
    else
      let '(t, e) := encodePairs t d ll minLen in
      match e with
      | ENone =>
        if (doubleSymFlag <=? multisym) || (ll <? 3 * minLen) then (t, cs, ENone)
        else let '(t, e) := encodeTriples t d ll minLen in (t, cs, e)
      | _ => (t, cs, e)
      end
  | _ => st
  end.

(* the short table before encodeLongCodes *)
Definition gll_phase1 (short : arr) (d : dynHdr) (multisym : N) : arr * N * ierr :=
  let lastLen0 := hc_len (aget (litAndDistHuff d) (aget (codeList d) 0)) in
  let lastLen := if 12 <? lastLen0 then 13 else lastLen0 in
  let copySize := if lastLen =? 0 then 0 else N.shiftl 1 (lastLen - 1) in
  let short := forN 0 copySize (fun i t => aset t i 0) short in
  forN lastLen 13 (gll_step d multisym lastLen) (short, copySize, ENone).

Lemma genForLitLen_eq : forall short long d multisym,
  genForLitLen short long d multisym =
  let codeListLen := aget (litCount d) (maxLitLenCount - 1) in
  if codeListLen =? 0 then (aempty, long, d, ENone)
  else
    let '(short, _, err) := gll_phase1 short d multisym in
    match err with
    | ENone =>
      let '(short, long, huff, pan) := encodeLongCodes short long d codeListLen in
      (short, long, set_dyn_huff d huff, if pan then EPanic else ENone)
    | _ => (short, long, d, err)
    end.
Proof. intros. reflexivity. Qed.

(* a plain short-table entry: symbols, count at bit 26, total bit count at bit 28 *)
Definition short_entry (syms : list (N * nat)) : N :=
  pack_syms syms + 2 ^ 26 * N.of_nat (length syms) + 2 ^ 28 * N.of_nat (syms_bits syms).

(* e is 0 or a valid decode of (the low bits of) x of at most maxbits bits *)
Definition entry_ok (xc : xlist) (maxbits : nat) (x e : N) : Prop :=
  e = 0 \/
  exists syms, (1 <= length syms <= 3)%nat /\ lits_then_any syms /\ xseq xc x syms /\
    (syms_bits syms <= maxbits)%nat /\ pack_syms syms < 2 ^ 25 /\ e = short_entry syms.

(* the short table restricted to [0, 2^n): every entry is 0 or a valid decode, and every x that
   starts with an extended code word of at most n bits has a non-zero entry *)
Definition short_ok (xc : xlist) (n : nat) (t : arr) : Prop :=
  forall x, x < 2 ^ N.of_nat n ->
    entry_ok xc n x (aget t x) /\
    (forall s len val, In (s, len, val) xc -> (len <= n)%nat -> xmatch x len val -> aget t x <> 0).

(* ---------------------------------------------------------------- long codes *)
(* short-table pointer to a group of longCodeLookup *)
Definition long_ptr (base maxLen : N) : N := base + 2 ^ 25 + 2 ^ 26 * maxLen.

(* the group of the extended codes of more than 12 bits whose low 12 bits are F *)
Definition group_ok (xc : xlist) (F : N) (sh lg : arr) : Prop :=
  exists base maxLen,
    aget sh F = long_ptr base maxLen /\ 13 <= maxLen <= 20 /\ base + 2 ^ (maxLen - 12) <= 1264 /\
    (forall s len val, In (s, len, val) xc -> (12 < len)%nat -> N.land val 4095 = F ->
       N.of_nat len <= maxLen) /\
    (forall p, p < 2 ^ (maxLen - 12) ->
       (aget lg (base + p) = 0 \/
        exists s len val, In (s, len, val) xc /\ (12 < len)%nat /\ N.land val 4095 = F /\
          p mod 2 ^ (N.of_nat len - 12) = N.shiftr val 12 /\
          aget lg (base + p) = s + 1024 * N.of_nat len) /\
       (forall s len val, In (s, len, val) xc -> (12 < len)%nat -> N.land val 4095 = F ->
          p mod 2 ^ (N.of_nat len - 12) = N.shiftr val 12 -> aget lg (base + p) <> 0)).

(* result of encodeLongCodes started on the short table sh0 *)
Definition long_ok (xc : xlist) (sh0 sh lg : arr) : Prop :=
  (forall x, x < 4096 ->
     (forall s len val, In (s, len, val) xc -> (12 < len)%nat -> N.land val 4095 <> x) ->
     aget sh x = aget sh0 x) /\
  (forall s len val, In (s, len, val) xc -> (12 < len)%nat ->
     group_ok xc (N.land val 4095) sh lg).

(* lit_tab_ok for an abstract extended code *)
Definition lit_tab_ok_x (xc : xlist) (t : tabs) : Prop :=
  forall b : bitrd,
    (exists syms,
       (1 <= length syms <= 3)%nat /\ lits_then_any syms /\
       xseq xc (r_bits b) syms /\
       litlen_decode t b =
       Some (br_drop b (N.of_nat (syms_bits syms)), N.of_nat (length syms), pack_syms syms)) \/
    ((forall s len val, In (s, len, val) xc -> ~ xmatch (r_bits b) len val) /\
     exists cnt lits, litlen_decode t b = Some (b, cnt, lits) /\
                      (cnt = 0 \/ (cnt = 1 /\ 512 < N.land lits 0xFFFF))).

Lemma lit_tab_ok_x_eq : forall ll t, lit_tab_ok_x (xcodes ll) t = lit_tab_ok ll t.
Proof. reflexivity. Qed.
