(* TraceDecode.v — layer G of CodecSpec.v: the reference inflater decodes the bit stream of a
   complete trace to the trace's data (trace_decode), and the bit stream of a trace ending with
   a sync marker to all its data followed by "need more input" (trace_flush).

   Both theorems are proved under the three hypotheses header_statement, symbols_statement,
   apply_toks_expand_statement (exactly as stated in CodecSpec.v). *)
From Verif Require Import CodecSpec HuffmanProofs.
From Verif Require Import InflateMono.
From Coq Require Import ZArith Lia ZifyBool ZifyNat ZifyN.
Ltac Zify.zify_post_hook ::= Z.div_mod_to_equations.
Open Scope N_scope.

(* ------------------------------------------------------------------ *)
(* bits, bytes, pad8                                                   *)
(* ------------------------------------------------------------------ *)

Definition padk (m : nat) : nat := ((8 - m mod 8) mod 8)%nat.

Lemma pad8_eq l : pad8 l = l ++ repeat false (padk (length l)).
Proof. reflexivity. Qed.

Lemma padk_lt m : (padk m < 8)%nat.
Proof. unfold padk. lia. Qed.

Lemma padk_mod m : ((m + padk m) mod 8 = 0)%nat.
Proof. unfold padk. lia. Qed.

Lemma padk_0 m : (m mod 8 = 0)%nat -> padk m = 0%nat.
Proof. unfold padk. lia. Qed.

Lemma pad8_id l : (length l mod 8 = 0)%nat -> pad8 l = l.
Proof.
  intros H. rewrite pad8_eq, (padk_0 _ H). cbn [repeat]. apply app_nil_r.
Qed.

Lemma bits_of_N_zero n : bits_of_N n 0 = repeat false n.
Proof. induction n as [|n IH]; cbn [bits_of_N repeat]; [reflexivity|]. f_equal. exact IH. Qed.

Lemma odd_bit (b : bool) x : N.odd ((if b then 1 else 0) + 2 * x) = b.
Proof.
  rewrite N.odd_add_mul_2. destruct b; reflexivity.
Qed.

Lemma div2_bit (b : bool) x : N.div2 ((if b then 1 else 0) + 2 * x) = x.
Proof.
  rewrite N.div2_div. destruct b; lia.
Qed.

Lemma bits_of_N_of_bits : forall n l, (length l <= n)%nat ->
  bits_of_N n (N_of_bits l) = l ++ repeat false (n - length l).
Proof.
  induction n as [|n IH]; intros l Hl.
  - destruct l; [reflexivity | cbn [length] in Hl; lia].
  - destruct l as [|b r].
    + cbn [N_of_bits length app]. apply bits_of_N_zero.
    + cbn [N_of_bits bits_of_N length app]. rewrite odd_bit, div2_bit.
      f_equal. cbn [length] in Hl. rewrite IH by lia. reflexivity.
Qed.

Lemma bytes_bits_fuel : forall fuel l, (length l < fuel)%nat ->
  bits_of_bytes (bytes_of_bits_fuel fuel l) = pad8 l.
Proof.
  induction fuel as [|fuel IH]; intros l Hl; [lia|].
  destruct l as [|b0 r0] eqn:El.
  - reflexivity.
  - rewrite <- El in *. assert (Hne : l <> []) by (rewrite El; discriminate).
    assert (Hlen : (length l >= 1)%nat) by (rewrite El; cbn [length]; lia).
    replace (bytes_of_bits_fuel (S fuel) l)
      with (N_of_bits (firstn 8 l) :: bytes_of_bits_fuel fuel (skipn 8 l))
      by (rewrite El; reflexivity).
    unfold bits_of_bytes. cbn [flat_map]. fold (bits_of_bytes (bytes_of_bits_fuel fuel (skipn 8 l))).
    rewrite IH by (rewrite skipn_length; lia).
    rewrite bits_of_N_of_bits by (rewrite firstn_length; lia).
    rewrite !pad8_eq. rewrite firstn_length, skipn_length.
    destruct (Nat.le_gt_cases 8 (length l)) as [Hge|Hlt].
    + replace (8 - Nat.min 8 (length l))%nat with 0%nat by lia. cbn [repeat].
      rewrite app_nil_r, app_assoc, firstn_skipn. f_equal. f_equal. unfold padk. lia.
    + rewrite (firstn_all2 l) by lia. rewrite (skipn_all2 l) by lia.
      cbn [app]. replace (length l - 8)%nat with 0%nat by lia.
      rewrite app_nil_r. f_equal. f_equal. unfold padk. lia.
Qed.

Lemma bits_bytes_pad l : bits_of_bytes (bytes_of_bits l) = pad8 l.
Proof. apply bytes_bits_fuel. lia. Qed.

(* ------------------------------------------------------------------ *)
(* take / align on explicit streams                                    *)
(* ------------------------------------------------------------------ *)

Lemma take_app : forall l n rest p, length l = n ->
  take n (mkbs (l ++ rest) p) = Some (N_of_bits l, mkbs rest (p + N.of_nat n)).
Proof.
  induction l as [|b r IH]; intros n rest p Hn; subst n.
  - cbn [length take app N_of_bits]. do 2 f_equal. f_equal. lia.
  - cbn [length take app N_of_bits]. unfold take1. cbn [bl bp].
    rewrite (IH (length r) rest (p + 1) eq_refl). do 2 f_equal. f_equal. lia.
Qed.

Lemma skipn_repeat_app {A} (x : A) k l : skipn k (repeat x k ++ l) = l.
Proof. induction k as [|k IH]; [reflexivity | exact IH]. Qed.

Lemma align_pad k Y q : N.of_nat k = (8 - q mod 8) mod 8 ->
  align (mkbs (repeat false k ++ Y) q) = mkbs Y (q + N.of_nat k).
Proof.
  intros Hk. unfold align. cbn [bl bp]. rewrite <- Hk. rewrite Nat2N.id.
  rewrite skipn_repeat_app. reflexivity.
Qed.

(* ------------------------------------------------------------------ *)
(* one iteration of the block loop, equationally                       *)
(* ------------------------------------------------------------------ *)

Lemma block1_eq st s bf s1 bt s2 :
  take 1 s = Some (bf, s1) -> take 2 s1 = Some (bt, s2) ->
  block1 st s = block_body bf bt st s s2.
Proof. intros H1 H2. unfold block1. rewrite H1, H2. reflexivity. Qed.

Lemma block_body_dyn bf st s s2 lt dt s3 :
  dyn_header s2 = HOk (lt, dt) s3 ->
  block_body bf 2 st s s2 = huff_block bf lt dt st s3.
Proof. intros H. unfold block_body. rewrite H. reflexivity. Qed.

Lemma huff_block_end bf lt dt st s F a b :
  nonleaf lt -> (blen s < F)%nat ->
  loop (sym1 lt dt) F st s = SEnd a b ->
  huff_block bf lt dt st s = close bf a b.
Proof.
  intros Hn HF HL. unfold huff_block.
  rewrite (loop_fuel (sym1 lt dt) (sym1_len' lt dt) (sym1_prog lt dt Hn) (sym1_nf lt dt)
                     (sym1_ext lt dt) (S (length (bl s))) F st s).
  - rewrite HL. reflexivity.
  - unfold blen. lia.
  - exact HF.
Qed.

Definition sync_st (st : ostate) (s : bs) : ostate :=
  mkost (rout st) (olen st) (oavail st) (omax st) ((olen st, bp s / 8) :: osyncs st).

Lemma stored_block_empty bf st s s2 s4 s5 :
  take 16 (align s2) = Some (0, s4) -> take 16 s4 = Some (65535, s5) ->
  stored_block bf st s s2 = close bf (if bf =? 0 then sync_st st s5 else st) s5.
Proof.
  intros H1 H2. unfold stored_block. rewrite H1, H2.
  change (negb (0 + 65535 =? 65535)) with false. cbv iota.
  change (N.to_nat 0) with 0%nat. cbn [stored]. cbv iota beta.
  change (negb true) with false. cbv iota.
  change (0 =? 0) with true. cbn [andb]. reflexivity.
Qed.

Lemma marker_split : marker_bytes = repeat false 16 ++ repeat true 16.
Proof. reflexivity. Qed.

(* an empty stored block: 3 header bits, padding, 00 00 ff ff *)
Lemma empty_block_step (final : bool) st k rest p :
  N.of_nat k = (8 - (p + N.of_nat 1 + N.of_nat 2) mod 8) mod 8 ->
  block1 st (mkbs (([final; false; false] ++ repeat false k ++ marker_bytes) ++ rest) p)
  = let s' := mkbs rest (p + N.of_nat (3 + k + 32)) in
    close (if final then 1 else 0) (if final then st else sync_st st s') s'.
Proof.
  intros Hk. cbv zeta.
  set (s5 := mkbs rest (p + N.of_nat (3 + k + 32))).
  rewrite <- app_assoc.
  change ([final; false; false] ++ (repeat false k ++ marker_bytes) ++ rest)
    with ([final] ++ [false; false] ++ (repeat false k ++ marker_bytes) ++ rest).
  erewrite block1_eq; [| apply take_app; reflexivity | apply take_app; reflexivity].
  change (N_of_bits [false; false]) with 0.
  change (block_body (N_of_bits [final]) 0) with (stored_block (N_of_bits [final])).
  rewrite <- app_assoc.
  erewrite stored_block_empty; cycle 1.
  - rewrite align_pad by exact Hk. rewrite marker_split, <- app_assoc.
    rewrite (take_app (repeat false 16) 16) by reflexivity. reflexivity.
  - rewrite (take_app (repeat true 16) 16) by reflexivity. reflexivity.
  - replace (mkbs rest (p + N.of_nat 1 + N.of_nat 2 + N.of_nat k + N.of_nat 16 + N.of_nat 16)) with s5
      by (unfold s5; f_equal; lia).
    destruct final; reflexivity.
Qed.

(* ------------------------------------------------------------------ *)
(* histograms: a symbol that occurs has a non-zero count               *)
(* ------------------------------------------------------------------ *)

Lemma incN_length l i d : length (incN l i d) = length l.
Proof. unfold incN, updN. apply upd_length. Qed.

Lemma incN_same l i : (N.to_nat i < length l)%nat -> nthN (incN l i 1) i <> 0.
Proof.
  intros H. unfold incN, updN, nthN. rewrite nth_upd_same by exact H. lia.
Qed.

Lemma incN_keep l i j : nthN l j <> 0 -> nthN (incN l i 1) j <> 0.
Proof.
  intros H. destruct (N.eq_dec i j) as [E|E].
  - subst j. destruct (Nat.lt_ge_cases (N.to_nat i) (length l)) as [Hlt|Hge].
    + apply incN_same. exact Hlt.
    + exfalso. apply H. unfold nthN. apply nth_overflow. exact Hge.
  - unfold incN, updN, nthN. rewrite nth_upd_other by lia. exact H.
Qed.

Definition tok_step (acc : list N * list N) (t : tok) : list N * list N :=
  let '(lc, dc) := acc in
  match t with
  | TLit b => (incN lc b 1, dc)
  | TMatch len dist => (incN lc (len + 254) 1, incN dc (fst (dist_symbol dist)) 1)
  end.

Lemma fold_left_ext {A B} (f g : A -> B -> A) : (forall a b, f a b = g a b) ->
  forall l a, fold_left f l a = fold_left g l a.
Proof.
  intros H l. induction l as [|x r IH]; intros a; [reflexivity|].
  cbn [fold_left]. rewrite H. apply IH.
Qed.

Lemma tok_counts_fold ts : tok_counts ts = fold_left tok_step ts (repeat 0 513, repeat 0 30).
Proof.
  unfold tok_counts. apply fold_left_ext. intros [lc dc] t. reflexivity.
Qed.

Definition counted (lc dc : list N) (t : tok) : Prop :=
  match t with
  | TLit b => (N.to_nat b < 513)%nat -> nthN lc b <> 0
  | TMatch len dist =>
    ((N.to_nat (len + 254) < 513)%nat -> nthN lc (len + 254) <> 0) /\
    ((N.to_nat (fst (dist_symbol dist)) < 30)%nat -> nthN dc (fst (dist_symbol dist)) <> 0)
  end.

Lemma tok_fold_spec : forall ts lc0 dc0 lc dc,
  fold_left tok_step ts (lc0, dc0) = (lc, dc) ->
  length lc = length lc0 /\ length dc = length dc0 /\
  (forall j, nthN lc0 j <> 0 -> nthN lc j <> 0) /\
  (forall j, nthN dc0 j <> 0 -> nthN dc j <> 0) /\
  (length lc0 = 513%nat -> length dc0 = 30%nat -> forall t, In t ts -> counted lc dc t).
Proof.
  induction ts as [|t r IH]; intros lc0 dc0 lc dc H.
  - cbn [fold_left] in H. inversion H; subst. repeat split; auto. intros _ _ t [].
  - cbn [fold_left] in H.
    destruct (tok_step (lc0, dc0) t) as [lc1 dc1] eqn:E1.
    destruct (IH lc1 dc1 lc dc H) as (L1 & L2 & K1 & K2 & C).
    assert (Hs : length lc1 = length lc0 /\ length dc1 = length dc0 /\
                 (forall j, nthN lc0 j <> 0 -> nthN lc1 j <> 0) /\
                 (forall j, nthN dc0 j <> 0 -> nthN dc1 j <> 0)).
    { unfold tok_step in E1. destruct t as [b|len dist]; inversion E1; subst;
        rewrite ?incN_length; repeat split; auto using incN_keep. }
    destruct Hs as (M1 & M2 & N1 & N2).
    repeat split; try congruence; auto.
    intros Hl Hd t' [Ht|Ht].
    + subst t'. unfold tok_step in E1. destruct t as [b|len dist]; inversion E1; subst; cbn [counted].
      * intros Hb. apply K1. apply incN_same. lia.
      * split; intros Hb; [apply K1 | apply K2]; apply incN_same; lia.
    + apply C; [congruence | congruence | exact Ht].
Qed.

Lemma tok_counts_spec ts lc dc : tok_counts ts = (lc, dc) ->
  length lc = 513%nat /\ length dc = 30%nat /\ forall t, In t ts -> counted lc dc t.
Proof.
  rewrite tok_counts_fold. intros H.
  destruct (tok_fold_spec _ _ _ _ _ H) as (L1 & L2 & _ & _ & C).
  rewrite repeat_length in L1, L2. split; [exact L1|]. split; [exact L2|].
  apply C; apply repeat_length.
Qed.

Lemma tok_counts_lits : forall data lc0 dc0,
  fold_left tok_step (map TLit data) (lc0, dc0) = (fold_left (fun h x => incN h x 1) data lc0, dc0).
Proof.
  induction data as [|x r IH]; intros lc0 dc0; [reflexivity|].
  cbn [map fold_left tok_step]. apply IH.
Qed.

(* ---- reduce_counts ---- *)

Lemma sumN_nz : forall l k, nth k l 0 <> 0 -> sumN l <> 0.
Proof.
  induction l as [|x r IH]; intros k H.
  - destruct k; cbn [nth] in H; congruence.
  - cbn [sumN]. destruct k as [|k]; cbn [nth] in H; [lia|]. specialize (IH k H). lia.
Qed.

Lemma nth_firstn_lt' : forall (l : list N) n k, (k < n)%nat -> nth k (firstn n l) 0 = nth k l 0.
Proof.
  induction l as [|x r IH]; intros n k H.
  - rewrite firstn_nil. reflexivity.
  - destruct n as [|n]; [lia|]. destruct k as [|k]; [reflexivity|]. cbn [firstn nth]. apply IH. lia.
Qed.

Lemma nth_skipn_add' : forall (l : list N) k i, nth i (skipn k l) 0 = nth (k + i) l 0.
Proof.
  induction l as [|x r IH]; intros k i.
  - rewrite skipn_nil. destruct i, k; reflexivity.
  - destruct k as [|k]; [reflexivity|]. cbn [skipn]. rewrite IH. reflexivity.
Qed.

Lemma group_nz h i st sz : nthN h i <> 0 -> (st <= N.to_nat i < st + sz)%nat ->
  sumN (firstn sz (skipn st h)) <> 0.
Proof.
  intros H Hr. apply (sumN_nz _ (N.to_nat i - st)).
  rewrite nth_firstn_lt' by lia. rewrite nth_skipn_add'.
  replace (st + (N.to_nat i - st))%nat with (N.to_nat i) by lia. exact H.
Qed.

Definition gtab : list (nat * nat) :=
  [ (265,2); (267,2); (269,2); (271,2); (273,4); (277,4); (281,4); (285,4);
    (289,8); (297,8); (305,8); (313,8); (321,16); (337,16); (353,16); (369,16);
    (385,32); (417,32); (449,32); (481,32) ]%nat.

Lemma group_sums_nth h k : (k < 20)%nat ->
  nth k (group_sums h) 0
  = sumN (firstn (snd (nth k gtab (0, 0)%nat)) (skipn (fst (nth k gtab (0, 0)%nat)) h)).
Proof.
  intros Hk. do 20 (destruct k as [|k]; [reflexivity|]). lia.
Qed.

Lemma group_sums_length h : length (group_sums h) = 20%nat.
Proof. reflexivity. Qed.

Lemma reduce_counts_length h : length h = 513%nat -> length (reduce_counts h) = 286%nat.
Proof.
  intros H. unfold reduce_counts, updN. rewrite upd_length, !app_length, firstn_length, H.
  rewrite group_sums_length. reflexivity.
Qed.

Lemma reduce_counts_256 h : length h = 513%nat -> nthN (reduce_counts h) 256 = 1.
Proof.
  intros H. unfold reduce_counts, updN, nthN. apply nth_upd_same.
  rewrite !app_length, firstn_length, H, group_sums_length. cbn. lia.
Qed.

Lemma reduce_counts_low h j : length h = 513%nat -> j < 265 -> j <> 256 ->
  nthN (reduce_counts h) j = nthN h j.
Proof.
  intros H Hj Hn. unfold reduce_counts, updN, nthN. rewrite nth_upd_other by lia.
  rewrite app_nth1 by (rewrite firstn_length, H; lia).
  apply nth_firstn_lt'. lia.
Qed.

Lemma reduce_counts_group h k : length h = 513%nat -> (k < 20)%nat ->
  nthN (reduce_counts h) (265 + N.of_nat k) = nth k (group_sums h) 0.
Proof.
  intros H Hk. unfold reduce_counts, updN, nthN. rewrite nth_upd_other by lia.
  rewrite app_nth2 by (rewrite firstn_length, H; lia).
  rewrite firstn_length, H.
  replace (N.to_nat (265 + N.of_nat k) - Nat.min 265 513)%nat with k by lia.
  apply app_nth1. rewrite group_sums_length. exact Hk.
Qed.

Lemma reduce_counts_285 h : length h = 513%nat -> nthN (reduce_counts h) 285 = nthN h 512.
Proof.
  intros H. unfold reduce_counts, updN, nthN. rewrite nth_upd_other by lia.
  rewrite app_nth2 by (rewrite firstn_length, H; lia).
  rewrite firstn_length, H.
  rewrite app_nth2 by (rewrite group_sums_length; lia).
  rewrite group_sums_length. reflexivity.
Qed.

(* source range (start, size) in the 513-entry histogram of a reduced index *)
Definition src (s : N) : nat * nat :=
  if s <? 265 then (N.to_nat s, 1%nat)
  else if s =? 285 then (512%nat, 1%nat)
  else nth (N.to_nat (s - 265)) gtab (0, 0)%nat.

Lemma reduce_counts_src h s i : length h = 513%nat -> s < 286 -> s <> 256 ->
  (fst (src s) <= N.to_nat i < fst (src s) + snd (src s))%nat ->
  nthN h i <> 0 -> nthN (reduce_counts h) s <> 0.
Proof.
  intros H Hs Hn Hr Hi. unfold src in Hr.
  destruct (s <? 265) eqn:E1.
  - cbn [fst snd] in Hr. rewrite reduce_counts_low by lia.
    replace s with i by lia. exact Hi.
  - destruct (s =? 285) eqn:E2.
    + cbn [fst snd] in Hr. assert (s = 285) by lia. subst s.
      rewrite reduce_counts_285 by exact H. replace 512 with i by lia. exact Hi.
    + replace s with (265 + N.of_nat (N.to_nat (s - 265))) by lia.
      rewrite reduce_counts_group by lia. rewrite group_sums_nth by lia.
      eapply group_nz; eauto.
Qed.

Definition len_check (len : N) : bool :=
  let s := fst (fst (len_symbol len)) in
  (s <? 286) && negb (s =? 256) &&
  (fst (src s) <=? N.to_nat (len + 254))%nat && (N.to_nat (len + 254) <? fst (src s) + snd (src s))%nat.

Lemma In_seqN : forall n a x, a <= x < a + N.of_nat n -> In x (seqN a n).
Proof.
  induction n as [|n IH]; intros a x H; [lia|].
  cbn [seqN]. destruct (N.eq_dec a x) as [E|E]; [left; exact E|].
  right. apply IH. lia.
Qed.

Lemma len_check_all : forallb len_check (seqN 3 256) = true.
Proof. vm_compute. reflexivity. Qed.

Lemma len_coded h len : length h = 513%nat -> 3 <= len -> len <= 258 ->
  nthN h (len + 254) <> 0 -> nthN (reduce_counts h) (fst (fst (len_symbol len))) <> 0.
Proof.
  intros H H3 H258 Hc.
  assert (Hk : len_check len = true).
  { pose proof len_check_all as A. rewrite forallb_forall in A. apply A. apply In_seqN. lia. }
  unfold len_check in Hk. cbv zeta in Hk.
  apply (reduce_counts_src h _ (len + 254)); try exact H; try exact Hc; lia.
Qed.

Definition dist_check (d : N) : bool := fst (dist_symbol d) <? 30.

Lemma dist_check_all : forallb dist_check (seqN 1 (N.to_nat 32768)) = true.
Proof. vm_compute. reflexivity. Qed.

Lemma dist_symbol_lt d : 1 <= d -> d <= 32768 -> fst (dist_symbol d) < 30.
Proof.
  intros H1 H2. pose proof dist_check_all as A. rewrite forallb_forall in A.
  specialize (A d). unfold dist_check in A.
  assert (Hin : In d (seqN 1 (N.to_nat 32768))) by (apply In_seqN; rewrite N2Nat.id; lia).
  apply A in Hin. lia.
Qed.

(* ------------------------------------------------------------------ *)
(* the tokens of a block are coded                                     *)
(* ------------------------------------------------------------------ *)

Definition lit256 (t : tok) : Prop := match t with TLit b => b < 256 | _ => True end.

Lemma toks_ok_In : forall W ts b t, toks_ok W b ts -> In t ts -> exists b', tok_ok W b' t.
Proof.
  induction ts as [|x r IH]; intros b t H Hin; [destruct Hin|].
  cbn [toks_ok] in H. destruct H as [H1 H2]. destruct Hin as [E|Hin].
  - subst x. exists b. exact H1.
  - eapply IH; eauto.
Qed.

Lemma coded_of_counts litlens distlens lc dc ts b :
  length lc = 513%nat -> length dc = 30%nat -> (forall t, In t ts -> counted lc dc t) ->
  lens_valid 15 (reduce_counts lc) litlens -> lens_valid 15 dc distlens ->
  toks_ok 32768 b ts -> Forall lit256 ts -> Forall (tok_coded litlens distlens) ts.
Proof.
  intros Hlc Hdc Hcnt (_ & _ & _ & Vl) (_ & _ & _ & Vd) Hok Hlit.
  rewrite Forall_forall in *. intros t Hin.
  specialize (Hcnt t Hin). specialize (Hlit t Hin).
  destruct (toks_ok_In _ _ _ _ Hok Hin) as [b' Hb'].
  destruct t as [x|len dist]; cbn [tok_coded counted lit256 tok_ok] in *.
  - split; [exact Hlit|]. apply Vl. rewrite reduce_counts_low by lia. apply Hcnt. lia.
  - destruct Hb' as (B1 & B2 & B3 & B4 & _). destruct Hcnt as [C1 C2]. split.
    + apply Vl. apply len_coded; try assumption. apply C1. lia.
    + apply Vd. apply C2. pose proof (dist_symbol_lt dist B3 B4). lia.
Qed.

Lemma lens_valid_props maxl counts lens n : length counts = n -> lens_valid maxl counts lens ->
  length lens = n /\ Forall (fun x => x <= N.of_nat maxl) lens /\
  oversubscribed maxl (map N.to_nat lens) = false.
Proof. intros H (A & B & C & _). repeat split; auto; congruence. Qed.

(* ---- expansion ---- *)

Lemma copy_from_length : forall k h d, length (copy_from h d k) = (length h + k)%nat.
Proof.
  induction k as [|k IH]; intros h d; cbn [copy_from]; [lia|].
  rewrite IH. cbn [length]. lia.
Qed.

Lemma expand_rev_length : forall ts h,
  N.of_nat (length (expand_rev ts h)) = N.of_nat (length h) + sumN (map tok_len ts).
Proof.
  induction ts as [|t r IH]; intros h; cbn [expand_rev map sumN]; [lia|].
  destruct t as [b|len dist]; rewrite IH; cbn [tok_len length].
  - lia.
  - rewrite copy_from_length. lia.
Qed.

Lemma expand_rev_lits : forall d h, expand_rev (map TLit d) h = rev_append d h.
Proof. induction d as [|x r IH]; intros h; [reflexivity|]. cbn [map expand_rev rev_append]. apply IH. Qed.

Lemma toks_ok_lits : forall W d b, toks_ok W b (map TLit d).
Proof. induction d as [|x r IH]; intros b; cbn [map toks_ok tok_ok]; auto. Qed.

Lemma flat_map_lits lcodes dcodes : forall d,
  flat_map (token_bits lcodes dcodes) (map TLit d) = flat_map (sym_word lcodes) d.
Proof. induction d as [|x r IH]; [reflexivity|]. cbn [map flat_map token_bits]. rewrite IH. reflexivity. Qed.

Lemma rev_append_length {A} : forall (d h : list A), length (rev_append d h) = (length d + length h)%nat.
Proof. intros d h. rewrite rev_append_rev, app_length, rev_length. reflexivity. Qed.

(* ------------------------------------------------------------------ *)
(* trace structure                                                     *)
(* ------------------------------------------------------------------ *)

Lemma trace_bits_cons e r sofar : trace_bits (e :: r) sofar = trace_bits r (trace_bits [e] sofar).
Proof. destruct e as [ts l|d f| |]; reflexivity. Qed.

Lemma trace_bits_app : forall a b sofar, trace_bits (a ++ b) sofar = trace_bits b (trace_bits a sofar).
Proof.
  induction a as [|e r IH]; intros b sofar; [reflexivity|].
  cbn [app]. rewrite trace_bits_cons, IH, <- trace_bits_cons. reflexivity.
Qed.

Lemma trace_data_rev_app : forall a b h, trace_data_rev (a ++ b) h = trace_data_rev b (trace_data_rev a h).
Proof.
  induction a as [|e r IH]; intros b h; [reflexivity|].
  destruct e as [ts l|d f| |]; cbn [app trace_data_rev]; apply IH.
Qed.

Lemma trace_complete_split : forall evs, trace_complete evs = true ->
  exists pre e, evs = pre ++ [e] /\ Forall (fun x => ev_final x = false) pre /\ ev_final e = true.
Proof.
  induction evs as [|e r IH]; intros H; [discriminate|].
  destruct r as [|e2 r2].
  - exists [], e. repeat split; auto.
  - change (negb (ev_final e) && trace_complete (e2 :: r2) = true) in H.
    apply andb_prop in H. destruct H as [H1 H2].
    destruct (IH H2) as (pre & x & E & F & G).
    exists (e :: pre), x. rewrite E. repeat split; auto.
    constructor; [destruct (ev_final e); [discriminate | reflexivity] | exact F].
Qed.

(* the bits of one event at bit position n, and the padding after a final block *)
Definition ev_bits (e : event) (n : nat) : list bool :=
  match e with
  | EBlock ts last => block_bits ts last
  | EHBlock d f => hblock_bits d f
  | ESync => [false; false; false] ++ repeat false (padk (n + 3)) ++ marker_bytes
  | EFinalEmpty => [true; false; false] ++ repeat false (padk (n + 3)) ++ marker_bytes
  end.

Definition ev_pad (e : event) (n : nat) : list bool :=
  match e with
  | EBlock _ true | EHBlock _ true => repeat false (padk (n + length (ev_bits e n)))
  | _ => []
  end.

Lemma trace_bits_one e sofar :
  trace_bits [e] sofar = sofar ++ ev_bits e (length sofar) ++ ev_pad e (length sofar).
Proof.
  destruct e as [ts l|d f| |]; cbn [trace_bits ev_bits ev_pad].
  - destruct l; [rewrite pad8_eq, app_length, <- app_assoc | rewrite app_nil_r]; reflexivity.
  - destruct f; [rewrite pad8_eq, app_length, <- app_assoc | rewrite app_nil_r]; reflexivity.
  - rewrite pad8_eq, app_length, app_nil_r, <- !app_assoc. reflexivity.
  - rewrite pad8_eq, app_length, app_nil_r, <- !app_assoc. reflexivity.
Qed.

Lemma ev_pad_nonfinal e n : ev_final e = false -> ev_pad e n = [].
Proof. destruct e as [ts l|d f| |]; cbn [ev_final ev_pad]; intros H; try rewrite H; reflexivity. Qed.

Lemma marker_length : length marker_bytes = 32%nat.
Proof. reflexivity. Qed.

Lemma ev_final_len e n : ev_final e = true ->
  ((n + length (ev_bits e n ++ ev_pad e n)) mod 8 = 0)%nat /\ (length (ev_pad e n) < 8)%nat.
Proof.
  destruct e as [ts l|d f| |]; cbn [ev_final]; intros H; try discriminate; try subst.
  - cbn [ev_pad]. rewrite app_length, repeat_length. split; [|apply padk_lt].
    rewrite Nat.add_assoc. apply padk_mod.
  - cbn [ev_pad]. rewrite app_length, repeat_length. split; [|apply padk_lt].
    rewrite Nat.add_assoc. apply padk_mod.
  - cbn [ev_pad ev_bits]. rewrite !app_length, repeat_length, marker_length. cbn [length].
    pose proof (padk_mod (n + 3)). split; lia.
Qed.

Definition inv (st : ostate) : Prop :=
  oavail st = N.of_nat (length (rout st)) /\ olen st = oavail st.

Lemma loop_more step : forall f f' st s r,
  loop step f st s = r -> (forall a b, r <> SStop a b Fuel) -> (f <= f')%nat ->
  loop step f' st s = r.
Proof.
  induction f as [|f IH]; intros f' st s r H Hn Hle.
  - cbn [loop] in H. subst r. exfalso. eapply Hn. reflexivity.
  - destruct f' as [|f']; [lia|]. cbn [loop] in *.
    destruct (step st s) as [a b|a b|a b x]; try exact H.
    apply IH; [exact H | exact Hn | lia].
Qed.

Section WithCodec.
  Hypothesis Hheader : header_statement.
  Hypothesis Hsymbols : symbols_statement.
  Hypothesis Hexpand : apply_toks_expand_statement.

  (* a dynamic block: header, tokens, end-of-block *)
  Lemma dyn_block_core litlens distlens ts (last : bool) st rest p :
    length litlens = 286%nat -> length distlens = 30%nat ->
    Forall (fun x => x <= 15) litlens -> Forall (fun x => x <= 15) distlens ->
    oversubscribed 15 (map N.to_nat litlens) = false ->
    oversubscribed 15 (map N.to_nat distlens) = false ->
    nthN litlens 256 <> 0 ->
    lens_valid 7 (cl_hist litlens distlens) (generate 7 (cl_hist litlens distlens)) ->
    Forall (tok_coded litlens distlens) ts ->
    toks_ok 32768 (oavail st) ts ->
    oavail st <= N.of_nat (length (rout st)) ->
    let B := header_bits litlens distlens last ++
             flat_map (token_bits (gen_codes litlens) (gen_codes distlens)) ts ++
             sym_word (gen_codes litlens) 256 in
    block1 st (mkbs (B ++ rest) p)
    = close (if last then 1 else 0) (apply_toks ts st) (mkbs rest (p + N.of_nat (length B)))
    /\ (3 <= length B)%nat.
  Proof.
    intros L1 L2 F1 F2 O1 O2 H256 Hcl Hcoded Htok Hav B.
    set (T := flat_map (token_bits (gen_codes litlens) (gen_codes distlens)) ts ++
              sym_word (gen_codes litlens) 256) in *.
    destruct (Hheader litlens distlens last (T ++ rest) (p + N.of_nat 1 + N.of_nat 2)
                      L1 L2 F1 F2 O1 O2 H256 Hcl) as (body & lt & dt & Hh & Hlt & Hdt & Hdyn).
    assert (Hn : nonleaf lt) by (eapply mktrie_nonleaf; exact Hlt).
    pose proof (Hsymbols litlens distlens lt dt ts st rest
                         (p + N.of_nat 1 + N.of_nat 2 + N.of_nat (length body))
                         (S (length (T ++ rest) + length ts))
                         L1 L2 Hlt Hdt H256 Hcoded Htok Hav) as Hsym.
    cbv zeta in Hsym. fold T in Hsym. specialize (Hsym ltac:(lia)).
    rewrite symbols_loop in Hsym.
    split.
    2:{ unfold B. rewrite Hh, !app_length. cbn [length]. lia. }
    unfold B. rewrite Hh.
    replace (([last; false; true] ++ body) ++ T) with ([last] ++ [false; true] ++ body ++ T)
      by (rewrite <- !app_assoc; reflexivity).
    rewrite <- !app_assoc.
    erewrite block1_eq; [| apply take_app; reflexivity | apply take_app; reflexivity].
    change (N_of_bits [false; true]) with 2.
    erewrite block_body_dyn by exact Hdyn.
    destruct (loop (sym1 lt dt) (S (length (T ++ rest) + length ts)) st
                   (mkbs (T ++ rest) (p + N.of_nat 1 + N.of_nat 2 + N.of_nat (length body))))
      as [a b|a b|a b x] eqn:EL; cbn [bres_of] in Hsym; try discriminate.
    inversion Hsym; subst a b.
    erewrite huff_block_end; [| exact Hn | | exact EL].
    2:{ unfold blen. cbn [bl]. lia. }
    replace (N_of_bits [last]) with (if last then 1 else 0) by (destruct last; reflexivity).
    f_equal. f_equal. rewrite !app_length. cbn [length]. lia.
  Qed.

  Lemma inv_apply ts st : toks_ok 32768 (oavail st) ts -> inv st ->
    inv (apply_toks ts st) /\ rout (apply_toks ts st) = expand_rev ts (rout st) /\
    oavail (apply_toks ts st) = oavail st + sumN (map tok_len ts).
  Proof.
    intros Htok [I1 I2].
    assert (I3 : olen st <= oavail st) by (rewrite I2; apply N.le_refl).
    destruct (Hexpand ts st Htok I1 I3) as (E1 & E2 & E3 & _).
    rewrite I2, N.sub_diag, N.add_0_r in E3.
    split; [split; [exact E2 | exact E3]|]. split; [exact E1|].
    rewrite E2, E1, expand_rev_length, I1. reflexivity.
  Qed.

  Lemma ev_core e n st tl :
    event_ok e -> trace_toks_ok 32768 (e :: tl) (oavail st) -> inv st ->
    exists st',
      (forall rest, block1 st (mkbs (ev_bits e n ++ rest) (N.of_nat n))
                    = close (if ev_final e then 1 else 0) st'
                            (mkbs rest (N.of_nat (n + length (ev_bits e n))))) /\
      inv st' /\ rout st' = trace_data_rev [e] (rout st) /\
      trace_toks_ok 32768 tl (oavail st') /\ (3 <= length (ev_bits e n))%nat.
  Proof.
    intros Hok Htr Hinv.
    assert (Hav : oavail st <= N.of_nat (length (rout st)))
      by (destruct Hinv as [Hi _]; rewrite Hi; apply N.le_refl).
    destruct e as [ts l|d f| |].
    - (* EBlock *)
      cbn [event_ok] in Hok. cbn [trace_toks_ok] in Htr. destruct Htr as (Htok & Hlit & Htl).
      cbn [ev_bits ev_final trace_data_rev].
      unfold block_ok, block_bits, block_lens in *.
      destruct (tok_counts ts) as [lc dc] eqn:Etc.
      destruct Hok as (V1 & V2 & V3).
      set (litlens := generate 15 (reduce_counts lc)) in *.
      set (distlens := generate 15 dc) in *.
      destruct (tok_counts_spec ts lc dc Etc) as (Llc & Ldc & Hcnt).
      destruct (lens_valid_props _ _ _ 286%nat (reduce_counts_length lc Llc) V1) as (L1 & F1 & O1).
      destruct (lens_valid_props _ _ _ 30%nat Ldc V2) as (L2 & F2 & O2).
      change (N.of_nat 15) with 15 in F1, F2.
      assert (H256 : nthN litlens 256 <> 0).
      { destruct V1 as (_ & _ & _ & V). apply V. rewrite reduce_counts_256 by exact Llc. lia. }
      assert (Hcoded : Forall (tok_coded litlens distlens) ts).
      { exact (coded_of_counts litlens distlens lc dc ts (oavail st) Llc Ldc Hcnt V1 V2 Htok Hlit). }
      destruct (inv_apply ts st Htok Hinv) as (I' & R' & A').
      exists (apply_toks ts st). split; [|split; [exact I' | split; [exact R' | split]]].
      + intros rest.
        destruct (dyn_block_core litlens distlens ts l st rest (N.of_nat n)
                                 L1 L2 F1 F2 O1 O2 H256 V3 Hcoded Htok Hav) as [Hb _].
        cbv zeta in Hb. rewrite Hb. f_equal. f_equal. lia.
      + rewrite A'. exact Htl.
      + destruct (dyn_block_core litlens distlens ts l st [] 0
                                 L1 L2 F1 F2 O1 O2 H256 V3 Hcoded Htok Hav) as [_ Hlen].
        exact Hlen.
    - (* EHBlock *)
      cbn [event_ok] in Hok. destruct Hok as [Hok Hbytes]. cbn [trace_toks_ok] in Htr.
      cbn [ev_bits ev_final trace_data_rev].
      unfold hblock_ok, hblock_bits in *. cbv zeta in Hok.
      destruct Hok as (V1 & V3).
      set (h := fold_left (fun h x => incN h x 1) d (repeat 0 513)) in *.
      assert (Etc : tok_counts (map TLit d) = (h, repeat 0 30)).
      { rewrite tok_counts_fold. apply tok_counts_lits. }
      destruct (tok_counts_spec _ _ _ Etc) as (Llc & _ & Hcnt).
      fold h in V1. unfold hblock_lens in *. fold h. fold h in V1, V3.
      set (litlens := generate 15 (reduce_counts h)) in *.
      destruct (lens_valid_props _ _ _ 286%nat (reduce_counts_length h Llc) V1) as (L1 & F1 & O1).
      change (N.of_nat 15) with 15 in F1.
      assert (H256 : nthN litlens 256 <> 0).
      { destruct V1 as (_ & _ & _ & V). apply V. rewrite reduce_counts_256 by exact Llc. lia. }
      assert (Hcoded : Forall (tok_coded litlens (repeat 0 30)) (map TLit d)).
      { rewrite Forall_forall. intros t Hin. pose proof (Hcnt t Hin) as C.
        apply in_map_iff in Hin. destruct Hin as (x & Ex & Hx). subst t.
        rewrite Forall_forall in Hbytes. specialize (Hbytes x Hx).
        cbn [tok_coded counted] in *. split; [exact Hbytes|].
        destruct V1 as (_ & _ & _ & V). apply V. rewrite reduce_counts_low by lia. apply C. lia. }
      assert (F2 : Forall (fun x => x <= 15) (repeat 0 30)).
      { rewrite Forall_forall. intros x Hx. apply repeat_spec in Hx. subst x. lia. }
      assert (Htok : toks_ok 32768 (oavail st) (map TLit d)) by apply toks_ok_lits.
      destruct (inv_apply _ st Htok Hinv) as (I' & R' & A').
      rewrite expand_rev_lits in R'.
      exists (apply_toks (map TLit d) st). split; [|split; [exact I' | split; [exact R' | split]]].
      + intros rest.
        destruct (dyn_block_core litlens (repeat 0 30) (map TLit d) f st rest (N.of_nat n)
                                 L1 eq_refl F1 F2 O1 eq_refl H256 V3 Hcoded Htok Hav) as [Hb _].
        cbv zeta in Hb. rewrite flat_map_lits in Hb. rewrite Hb. f_equal. f_equal. lia.
      + destruct I' as [I1' _]. rewrite I1', R', rev_append_length.
        destruct Hinv as [I1 _]. rewrite I1 in Htr. unfold lenN in Htr.
        rewrite Nat2N.inj_add, N.add_comm.
        exact Htr.
      + destruct (dyn_block_core litlens (repeat 0 30) (map TLit d) f st [] 0
                                 L1 eq_refl F1 F2 O1 eq_refl H256 V3 Hcoded Htok Hav) as [_ Hlen].
        cbv zeta in Hlen. rewrite flat_map_lits in Hlen. exact Hlen.
    - (* ESync *)
      cbn [trace_toks_ok] in Htr. cbn [ev_bits ev_final trace_data_rev].
      assert (Hk : N.of_nat (padk (n + 3)) = (8 - (N.of_nat n + N.of_nat 1 + N.of_nat 2) mod 8) mod 8)
        by (unfold padk; lia).
      exists (sync_st st (mkbs [] (N.of_nat n + N.of_nat (3 + padk (n + 3) + 32)))).
      split; [|split; [exact Hinv | split; [reflexivity | split; [exact Htr|]]]].
      + intros rest. rewrite (empty_block_step false st _ rest _ Hk). cbv zeta.
        rewrite !app_length, repeat_length, marker_length. cbn [length].
        replace (N.of_nat (n + (3 + (padk (n + 3) + 32)))) with (N.of_nat n + N.of_nat (3 + padk (n + 3) + 32)) by lia.
        reflexivity.
      + rewrite !app_length. cbn [length]. lia.
    - (* EFinalEmpty *)
      cbn [trace_toks_ok] in Htr. cbn [ev_bits ev_final trace_data_rev].
      assert (Hk : N.of_nat (padk (n + 3)) = (8 - (N.of_nat n + N.of_nat 1 + N.of_nat 2) mod 8) mod 8)
        by (unfold padk; lia).
      exists st.
      split; [|split; [exact Hinv | split; [reflexivity | split; [exact Htr|]]]].
      + intros rest. rewrite (empty_block_step true st _ rest _ Hk). cbv zeta.
        rewrite !app_length, repeat_length, marker_length. cbn [length].
        replace (N.of_nat (n + (3 + (padk (n + 3) + 32)))) with (N.of_nat n + N.of_nat (3 + padk (n + 3) + 32)) by lia.
        reflexivity.
      + rewrite !app_length. cbn [length]. lia.
  Qed.

  (* all events of a non-final prefix are consumed one per iteration *)
  Lemma run_prefix : forall evs tl sofar st,
    Forall (fun e => ev_final e = false) evs -> Forall event_ok evs ->
    trace_toks_ok 32768 (evs ++ tl) (oavail st) -> inv st ->
    exists X st',
      trace_bits evs sofar = sofar ++ X /\
      (forall rest f,
         loop block1 (length evs + f) st (mkbs (X ++ rest) (N.of_nat (length sofar)))
         = loop block1 f st' (mkbs rest (N.of_nat (length (sofar ++ X))))) /\
      inv st' /\ rout st' = trace_data_rev evs (rout st) /\
      trace_toks_ok 32768 tl (oavail st').
  Proof.
    induction evs as [|e r IH]; intros tl sofar st Hnf Hok Htr Hinv.
    - exists [], st. cbn [trace_bits length app Nat.add trace_data_rev].
      rewrite app_nil_r. split; [reflexivity|]. split; [intros rest f; reflexivity|].
      split; [exact Hinv|]. split; [reflexivity | exact Htr].
    - inversion Hnf as [|? ? Hnf1 Hnf2]; subst. inversion Hok as [|? ? Hok1 Hok2]; subst.
      cbn [app] in Htr.
      destruct (ev_core e (length sofar) st (r ++ tl) Hok1 Htr Hinv)
        as (st1 & Hstep & Hinv1 & Hr1 & Htr1 & _).
      rewrite Hnf1 in Hstep. unfold close in Hstep. change (0 =? 1) with false in Hstep. cbv iota in Hstep.
      set (X1 := ev_bits e (length sofar)) in *.
      destruct (IH tl (sofar ++ X1) st1 Hnf2 Hok2 Htr1 Hinv1) as (X2 & st2 & Hb2 & Hl2 & Hinv2 & Hr2 & Htr2).
      exists (X1 ++ X2), st2.
      split; [|split; [|split; [exact Hinv2 | split; [|exact Htr2]]]].
      + rewrite trace_bits_cons, trace_bits_one, (ev_pad_nonfinal e _ Hnf1), app_nil_r.
        fold X1. rewrite Hb2, app_assoc. reflexivity.
      + intros rest f. cbn [length Nat.add loop]. rewrite <- app_assoc, Hstep.
        rewrite <- app_length. rewrite Hl2. rewrite app_assoc. reflexivity.
      + rewrite Hr2, Hr1. destruct e as [ts l|d fl| |]; reflexivity.
  Qed.

  Lemma st0_inv : inv (st0 []).
  Proof. split; reflexivity. Qed.

  Lemma finish_out st s e : inv st -> out (finish st s e) = rev (rout st).
  Proof.
    intros [_ I2]. unfold finish. cbn [out]. rewrite I2, N.sub_diag.
    change (N.to_nat 0) with 0%nat. cbn [skipn]. apply InflateMono.frev_rev.
  Qed.

  Theorem trace_decode : trace_decode_statement.
  Proof.
    intros evs Hc Hok Htr. cbv zeta.
    destruct (trace_complete_split evs Hc) as (pre & e & Eevs & Hnf & Hfin).
    subst evs. apply Forall_app in Hok. destruct Hok as [Hok1 Hok2].
    inversion Hok2 as [|? ? Hoke _]; subst.
    destruct (run_prefix pre [e] [] (st0 []) Hnf Hok1 Htr st0_inv)
      as (X & st1 & Hb & Hl & Hinv1 & Hr1 & Htr1).
    cbn [app length] in Hb, Hl.
    destruct (ev_core e (length X) st1 [] Hoke Htr1 Hinv1) as (st2 & Hstep & Hinv2 & Hr2 & _ & _).
    rewrite Hfin in Hstep. unfold close in Hstep. change (1 =? 1) with true in Hstep. cbv iota in Hstep.
    destruct (ev_final_len e (length X) Hfin) as [Hmod Hpad].
    set (Eb := ev_bits e (length X)) in *. set (Ep := ev_pad e (length X)) in *.
    assert (HT : trace_bits (pre ++ [e]) [] = X ++ Eb ++ Ep).
    { rewrite trace_bits_app, Hb, trace_bits_one. reflexivity. }
    rewrite HT.
    set (T := X ++ Eb ++ Ep) in *.
    assert (HTlen : (length T mod 8 = 0)%nat).
    { unfold T. rewrite app_length. exact Hmod. }
    set (stream := bytes_of_bits T).
    assert (Hbits : bits_of_bytes stream = T).
    { unfold stream. rewrite bits_bytes_pad. apply pad8_id. exact HTlen. }
    assert (Hslen : (8 * length stream = length T)%nat).
    { rewrite <- bits_len, Hbits. reflexivity. }
    rewrite (inflate_form [] stream (length pre + S (8 * length stream))) by lia.
    unfold run, bs_of_bytes. rewrite Hbits. unfold T.
    rewrite Hl. cbn [loop]. rewrite Hstep. cbn [fin].
    split; [reflexivity|]. split.
    - rewrite finish_out by exact Hinv2. rewrite Hr2, Hr1.
      unfold trace_data. rewrite trace_data_rev_app. reflexivity.
    - cbn [finish bitpos bp]. unfold T in Hslen. rewrite !app_length in Hslen.
      rewrite app_length in Hmod. lia.
  Qed.

  Theorem trace_flush : trace_flush_statement.
  Proof.
    intros evs Hnf Hok Htr. cbv zeta.
    assert (Hnf' : Forall (fun e => ev_final e = false) (evs ++ [ESync])).
    { apply Forall_app. split; [exact Hnf | constructor; [reflexivity | constructor]]. }
    assert (Hok' : Forall event_ok (evs ++ [ESync])).
    { apply Forall_app. split; [exact Hok | constructor; [exact I | constructor]]. }
    rewrite <- (app_nil_r (evs ++ [ESync])) in Htr.
    destruct (run_prefix (evs ++ [ESync]) [] [] (st0 []) Hnf' Hok' Htr st0_inv)
      as (X & st1 & Hb & Hl & Hinv1 & Hr1 & _).
    cbn [app length] in Hb, Hl.
    rewrite Hb.
    assert (HXlen : (length X mod 8 = 0)%nat).
    { rewrite <- Hb, trace_bits_app. cbn [trace_bits].
      rewrite app_length, marker_length, pad8_eq, app_length, repeat_length.
      pose proof (padk_mod (length (trace_bits evs [] ++ [false; false; false]))). lia. }
    set (stream := bytes_of_bits X).
    assert (Hbits : bits_of_bytes stream = X).
    { unfold stream. rewrite bits_bytes_pad. apply pad8_id. exact HXlen. }
    assert (Hslen : (8 * length stream = length X)%nat).
    { rewrite <- bits_len, Hbits. reflexivity. }
    assert (Hinf : inflate [] stream = finish st1 (mkbs [] (N.of_nat (length X))) NeedInput).
    { rewrite (inflate_form [] stream (length (evs ++ [ESync]) + S (8 * length stream))) by lia.
      unfold run, bs_of_bytes. rewrite Hbits.
      rewrite <- (app_nil_r X) at 1. rewrite Hl. cbn [loop].
      change (block1 st1 (mkbs [] (N.of_nat (length X))))
        with (SStop st1 (mkbs [] (N.of_nat (length X))) NeedInput).
      reflexivity. }
    rewrite Hinf. split; [reflexivity|]. split.
    - rewrite finish_out by exact Hinv1. rewrite Hr1, trace_data_rev_app. reflexivity.
    - symmetry. exact Hslen.
  Qed.
End WithCodec.

Print Assumptions trace_decode.
Print Assumptions trace_flush.
