(* EngineCompleteStd.v -- proofs of the statements of RModel/EngineCompleteSpecG.v:
   the length vectors parsed by the reference are well formed, and a stream all of whose
   dynamic blocks have a complete (or short) distance code is strict. *)
From Coq Require Import List NArith ZArith Bool Relations Lia ZifyBool ZifyNat ZifyN.
From Verif Require Import Bits Huffman Inflate InflateSpec InflateMono.
From Verif Require Import Base EngineTables Engine EngineRefineSpecReach EngineCompleteSpecB
     EngineCompleteSpecG.
From Verif Require Import EngineRefineReach EngineCompleteSmall EngineCompleteSmallFit
     EngineCompleteGlue.
Import ListNotations.
Open Scope N_scope.

Definition le15 (x : nat) : Prop := (x <= 15)%nat.

Lemma Forall_repeat {A} (P : A -> Prop) v n : P v -> Forall P (repeat v n).
Proof.
  intros Hv. induction n as [|n IH]; cbn [repeat]; constructor; assumption.
Qed.

Lemma frev_shape acc : Forall le15 acc ->
  Forall le15 (frev acc) /\ length (frev acc) = (length acc + 0)%nat.
Proof.
  intros H. rewrite frev_rev. split; [apply Forall_rev; exact H | rewrite rev_length; lia].
Qed.

Lemma read_lens_shape f ct : forall total acc s all s',
  read_lens f ct total acc s = HOk all s' -> Forall le15 acc ->
  Forall le15 all /\ length all = (length acc + total)%nat.
Proof.
  induction f as [|f IH]; intros total acc s all s'; destruct total as [|t]; cbn [read_lens];
    try discriminate.
  - intros H Ha. inversion H; subst. apply frev_shape; exact Ha.
  - intros H Ha. inversion H; subst. apply frev_shape; exact Ha.
  - assert (Hrep : forall v n s2, le15 v -> Forall le15 acc -> (S t <? n)%nat = false ->
              read_lens f ct (S t - n) (repeat v n ++ acc) s2 = HOk all s' ->
              Forall le15 all /\ length all = (length acc + S t)%nat).
    { intros v n s2 Hv Ha Hn H.
      destruct (IH _ _ _ _ _ H) as [H1 H2].
      - apply Forall_app. split; [apply Forall_repeat; exact Hv | exact Ha].
      - split; [exact H1|]. rewrite H2, app_length, repeat_length. lia. }
    destruct (decode_sym ct s) as [sym s1| |]; try discriminate.
    destruct (sym <? 16)%nat eqn:E16.
    { intros H Ha.
      destruct (IH _ _ _ _ _ H) as [H1 H2].
      - constructor; [unfold le15; lia | exact Ha].
      - split; [exact H1|]. rewrite H2. cbn [length]. lia. }
    destruct (sym =? 16)%nat; [|destruct (sym =? 17)%nat]; cbv beta iota zeta.
    + destruct (take 2 s1) as [[e s2]|]; [|discriminate].
      destruct (hd_error acc) as [v|] eqn:Ev; [|discriminate].
      destruct (S t <? 3 + N.to_nat e)%nat eqn:En; [discriminate|].
      intros H Ha. apply (Hrep v (3 + N.to_nat e)%nat s2); try assumption.
      destruct acc as [|x acc']; [discriminate|]. cbn [hd_error] in Ev. inversion Ev; subst.
      inversion Ha; assumption.
    + destruct (take 3 s1) as [[e s2]|]; [|discriminate].
      destruct (S t <? 3 + N.to_nat e)%nat eqn:En; [discriminate|].
      intros H Ha. apply (Hrep 0%nat (3 + N.to_nat e)%nat s2); try assumption. unfold le15; lia.
    + destruct (take 7 s1) as [[e s2]|]; [|discriminate].
      destruct (S t <? 11 + N.to_nat e)%nat eqn:En; [discriminate|].
      intros H Ha. apply (Hrep 0%nat (11 + N.to_nat e)%nat s2); try assumption. unfold le15; lia.
Qed.

Theorem dyn_lens_shape : dyn_lens_shape_statement.
Proof.
  intros s ll dl s3. unfold dyn_lens.
  destruct (take 5 s) as [[hlit s1]|]; [|discriminate].
  destruct (take 5 s1) as [[hdist s2]|]; [|discriminate].
  destruct (take 4 s2) as [[hclen s4]|]; [|discriminate].
  destruct ((29 <? hlit) || (29 <? hdist)) eqn:E29; [discriminate|].
  destruct (read_clens (N.to_nat hclen + 4) s4) as [cl s5|x]; [|discriminate].
  cbv zeta.
  destruct (mktrie 7 (scatter clen_order cl (repeat 0%nat 19))) as [ct|]; [|discriminate].
  set (nlit := (N.to_nat hlit + 257)%nat). set (ndist := (N.to_nat hdist + 1)%nat).
  destruct (read_lens (nlit + ndist) ct (nlit + ndist) [] s5) as [all s6|x] eqn:ER; [|discriminate].
  intros H. inversion H; subst ll dl s6. clear H.
  destruct (read_lens_shape _ _ _ _ _ _ _ ER (Forall_nil _)) as [HF HL]. cbn [length] in HL.
  fold le15.
  rewrite <- (firstn_skipn nlit all) in HF. apply Forall_app in HF. destruct HF as [HF1 HF2].
  split; [exact HF1 | split; [exact HF2|]].
  rewrite firstn_length, skipn_length, HL. unfold nlit, ndist. lia.
Qed.

Lemma mktrie_not_over maxl l t : mktrie maxl l = Some t -> oversubscribed maxl l = false.
Proof.
  unfold mktrie. destruct (oversubscribed maxl l); [discriminate | reflexivity].
Qed.

Theorem strict_std : strict_std_statement.
Proof.
  intros data Hd Hstd st S Hr bf s1 s2 ll dl s3 E1 E2 EL.
  pose proof (Hstd st S bf s1 s2 ll dl s3 Hr E1 E2 EL) as Hdist.
  destruct (dyn_lens_shape s2 ll dl s3 EL) as [_ [HF [_ HL]]].
  destruct Hdist as [Hc|Hs].
  { apply dist_fits_complete; [lia | exact HF | exact Hc]. }
  apply dist_fits_short; [lia | exact Hs|].
  destruct (reach_complete data Hd) as [_ Hprog].
  destruct (Hprog _ Hr) as [[st' [s' Hc]]|[c' Hstep]]; [discriminate Hc|].
  inversion Hstep as
    [st0 s0 bf0 s10 s20 lt dt F1 F2 FF
    |st0 s0 bf0 s10 s20 lt dt s30 F1 F2 FD
    |st0 s0 bf0 s10 s20 len s40 nlen s50 F1 F2 F3 F4 F5
    | | | | ]; subst.
  - clear FF. rewrite E1 in F1. inversion F1; subst. rewrite E2 in F2. discriminate F2.
  - rewrite E1 in F1. inversion F1; subst. rewrite E2 in F2. inversion F2; subst.
    rewrite dyn_header_lens, EL in FD.
    destruct (nth 256 ll 0 =? 0)%nat; [discriminate FD|].
    destruct (mktrie 15 ll) as [lt'|]; [|discriminate FD].
    destruct (mktrie 15 dl) as [dt'|] eqn:ED; [|discriminate FD].
    eapply mktrie_not_over; exact ED.
  - rewrite E1 in F1. inversion F1; subst. rewrite E2 in F2. discriminate F2.
Qed.

Print Assumptions dyn_lens_shape.
Print Assumptions strict_std.
