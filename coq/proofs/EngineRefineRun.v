(* EngineRefineRun.v -- Read (read_loop / dRead) and the top level (erun_loop), from the
   step theorem. *)
From Coq Require Import List NArith ZArith Bool Lia ZifyBool ZifyNat ZifyN Relations.
From Verif Require Import Bits Huffman Inflate InflateSpec InflateMono.
From Verif Require Import Base EngineTables Engine EngineRefineSpec EngineRefineSpecBlock
     EngineRefineSpecHdr EngineRefineSpecReach EngineRefineSpecBuf EngineRefineSpecNeed
     EngineRefineSpecBlock2 EngineRefineSpecTop EngineRefineSpecFinal
     EngineRefineBits EngineRefineTopBase EngineRefineTop.
Import ListNotations.
Open Scope N_scope.

(* the quantified part of step_refine2_statement *)
Definition step_body : Prop :=
  forall data delivered f,
    Forall (fun x => x < 256) data ->
    dec_inv data delivered f -> readPos f = writePos f -> derr f = None ->
    let '(f', r) := step f in step_post data delivered f' r.

(* invariant of a decompressor between Read calls (the error may be set) *)
Definition run_inv (data delivered : list N) (f : decompressor) : Prop :=
  (exists c, reach data c /\
             delivered ++ pending_out f = frev (rout (cfg_st c)) /\
             readPos f <= writePos f /\
             (derr f = Some REOF ->
                exists st S0, c = CDone st S0 /\ consumed (rBuf f) = (bp S0 + 7) / 8)) /\
  (derr f = None -> dec_inv data delivered f).

Lemma dec_inv_deliver : forall data delivered f num,
  dec_inv data delivered f -> num <= writePos f - readPos f ->
  dec_inv data (delivered ++ hist_slice (N.to_nat num) (hist f) (readPos f))
          (mkD (state f) (writePos f) (readPos f + num) (hist f) (rBuf f) (derr f) (peekSize f)
               (eof f) (haveBits f)).
Proof.
  intros data delivered f num (Hbuf & HD & Hrp & Hwp & Hph & c & u & Hreach & Hsim & Hwin & Hdel & Hu) Hnum.
  unfold dec_inv. cbn [rBuf state writePos readPos hist peekSize].
  split; [exact Hbuf|]. split; [exact HD|]. split; [lia|]. split; [exact Hwp|]. split; [exact Hph|].
  exists c, u. split; [exact Hreach|]. split; [exact Hsim|]. split; [exact Hwin|].
  split; [|exact Hu].
  rewrite <- Hdel, <- app_assoc. f_equal.
  unfold pending_out. cbn [writePos readPos hist].
  replace (N.to_nat (writePos f - readPos f)) with (N.to_nat num + N.to_nat (writePos f - (readPos f + num)))%nat by lia.
  rewrite hist_slice_app. rewrite N2Nat.id. reflexivity.
Qed.

Lemma pending_deliver : forall f num, num <= writePos f - readPos f ->
  pending_out f =
  hist_slice (N.to_nat num) (hist f) (readPos f) ++
  pending_out (mkD (state f) (writePos f) (readPos f + num) (hist f) (rBuf f) (derr f) (peekSize f)
                   (eof f) (haveBits f)).
Proof.
  intros f num Hnum. unfold pending_out. cbn [writePos readPos hist].
  replace (N.to_nat (writePos f - readPos f)) with (N.to_nat num + N.to_nat (writePos f - (readPos f + num)))%nat by lia.
  rewrite hist_slice_app. rewrite N2Nat.id. reflexivity.
Qed.

Lemma read_loop_ok : step_body -> forall data, Forall (fun x => x < 256) data ->
  forall fuel f plen delivered,
    run_inv data delivered f ->
    let '(f', bytes, r) := read_loop fuel f plen in
    run_inv data (delivered ++ bytes) f' /\
    (r = REOF -> derr f' = Some REOF /\ readPos f' = writePos f').
Proof.
  intros Hstep data Hdata. induction fuel as [|k IH]; intros f plen delivered Hinv.
  - cbn [read_loop]. cbv iota beta. rewrite app_nil_r. split; [exact Hinv|discriminate].
  - cbn [read_loop].
    destruct Hinv as ((c & R1 & R2 & R3 & R4) & Hd).
    destruct (readPos f <? writePos f) eqn:Elt.
    + apply N.ltb_lt in Elt.
      set (num := N.min plen (writePos f - readPos f)).
      assert (Hnum : num <= writePos f - readPos f) by (unfold num; lia).
      set (f' := mkD (state f) (writePos f) (readPos f + num) (hist f) (rBuf f) (derr f) (peekSize f)
                     (eof f) (haveBits f)).
      assert (Hinv' : run_inv data (delivered ++ hist_slice (N.to_nat num) (hist f) (readPos f)) f').
      { split.
        - exists c. split; [exact R1|]. split.
          + rewrite <- R2, <- app_assoc. f_equal. symmetry. apply pending_deliver. exact Hnum.
          + split; [unfold f'; cbn [readPos writePos]; lia|]. exact R4.
        - intros Hn. apply dec_inv_deliver; [apply Hd; exact Hn|exact Hnum]. }
      destruct (writePos f' =? readPos f') eqn:Eall; unfold f' in Eall; cbn [writePos readPos] in Eall.
      * cbv iota beta. split; [exact Hinv'|]. intros Hr. apply N.eqb_eq in Eall.
        change (derr f') with (derr f) in *.
        destruct (derr f) as [e|] eqn:Ede; [|discriminate]. subst e.
        split; [reflexivity|]. unfold f'. cbn [readPos writePos]. lia.
      * cbv iota beta. split; [exact Hinv'|discriminate].
    + apply N.ltb_ge in Elt.
      destruct (derr f) as [e|] eqn:Ede.
      * cbv iota beta. rewrite app_nil_r. split.
        { unfold run_inv. rewrite Ede.
          split; [exists c; split; [exact R1|]; split; [exact R2|]; split; [exact R3|exact R4]|exact Hd]. }
        intros ->. split; [exact Ede|lia].
      * specialize (Hd eq_refl).
        pose proof (Hstep data delivered f Hdata Hd ltac:(lia) Ede) as HS.
        destruct (step f) as [f1 r1].
        destruct HS as ((c1 & S1 & S2 & S3 & S4) & S5 & S6).
        assert (Hinv1 : run_inv data delivered (set_err f1 r1)).
        { split.
          - exists c1. split; [exact S1|]. split; [exact S2|]. split; [exact S3|].
            intros He. cbn [derr set_err] in He. exact (S4 He).
          - intros He. cbn [derr set_err] in He. specialize (S6 He).
            destruct S6 as (Q1 & Q2 & Q3 & Q4 & Q5 & Q6). unfold dec_inv.
            split; [exact Q1|]. split; [exact Q2|]. split; [exact Q3|]. split; [exact Q4|]. split; [exact Q5|exact Q6]. }
        destruct r1 as [e'|].
        -- cbn [writePos readPos set_err].
           destruct (writePos f1 <=? readPos f1) eqn:Ele.
           ++ cbv iota beta. rewrite app_nil_r. split; [exact Hinv1|]. intros ->. split; [reflexivity|].
              apply N.leb_le in Ele. cbn [readPos writePos set_err]. lia.
           ++ apply IH. exact Hinv1.
        -- apply IH. exact Hinv1.
Qed.

(* ---------------------------------------------------------------- erun_loop *)
Lemma results_bytes_snoc : forall (acc : list (list N * rres)) bytes r,
  results_bytes (frev ((bytes, r) :: acc)) = results_bytes (frev acc) ++ bytes.
Proof.
  intros acc bytes r. unfold results_bytes. rewrite !frev_rev. cbn [rev].
  rewrite map_app, concat_app. cbn [map fst concat]. rewrite app_nil_r. reflexivity.
Qed.

Lemma in_reof : forall (acc : list (list N * rres)) bytes r,
  Forall (fun x : list N * rres => snd x = ROk) acc ->
  In REOF (map snd (frev ((bytes, r) :: acc))) -> r = REOF.
Proof.
  intros acc bytes r Hacc Hin. rewrite frev_rev in Hin. apply in_map_iff in Hin.
  destruct Hin as ([b r0] & Hr & Hin). cbn [snd] in Hr. subst r0.
  apply in_rev in Hin. destruct Hin as [Hin|Hin].
  - injection Hin as _ Hin. exact Hin.
  - rewrite Forall_forall in Hacc. specialize (Hacc _ Hin). discriminate.
Qed.

Lemma erun_loop_ok : step_body -> forall data, Forall (fun x => x < 256) data ->
  forall reads f acc,
    run_inv data (results_bytes (frev acc)) f ->
    Forall (fun x : list N * rres => snd x = ROk) acc ->
    let '(l, f') := erun_loop f reads acc in
    run_inv data (results_bytes l) f' /\
    (In REOF (map snd l) -> derr f' = Some REOF /\ readPos f' = writePos f').
Proof.
  intros Hstep data Hdata. induction reads as [|p rest IH]; intros f acc Hinv Hacc.
  - cbn [erun_loop]. split; [exact Hinv|].
    intros Hin. exfalso. rewrite frev_rev in Hin. apply in_map_iff in Hin.
    destruct Hin as ([b r] & Hr & Hin). cbn [snd] in Hr. subst r.
    apply in_rev in Hin. rewrite Forall_forall in Hacc. specialize (Hacc _ Hin). discriminate.
  - cbn [erun_loop]. unfold dRead.
    pose proof (read_loop_ok Hstep data Hdata big_fuel f p (results_bytes (frev acc)) Hinv) as HR.
    destruct (read_loop big_fuel f p) as [[f1 bytes] r].
    destruct HR as (R1 & R2).
    rewrite <- results_bytes_snoc with (r := r) in R1.
    assert (Hstop : run_inv data (results_bytes (frev ((bytes, r) :: acc))) f1 /\
                    (In REOF (map snd (frev ((bytes, r) :: acc))) ->
                     derr f1 = Some REOF /\ readPos f1 = writePos f1)).
    { split; [exact R1|]. intros Hin. apply R2. exact (in_reof acc bytes r Hacc Hin). }
    destruct r; try exact Hstop.
    apply IH; [exact R1|]. constructor; [reflexivity|exact Hacc].
Qed.

(* the initial decompressor *)
Lemma newReader_inv : newbuf_ok_statement -> forall data cs bufsize t,
  concat cs = data -> Forall (fun c => c <> []) cs ->
  run_inv data [] (newReader bufsize cs t).
Proof.
  intros Hnb data cs bufsize t Hcs Hne.
  destruct (Hnb bufsize cs t Hne) as (B1 & B2 & B3).
  assert (Hdec : dec_inv data [] (newReader bufsize cs t)).
  { unfold dec_inv, newReader. cbn [rBuf state writePos readPos hist peekSize].
    split; [exact B1|].
    split; [exists []; cbn [app length]; split; [rewrite B2; symmetry; exact Hcs|exact B3]|].
    split; [lia|]. split; [cbv; discriminate|]. split; [cbv; discriminate|].
    exists (rinit data), data.
    split; [apply rt_refl|].
    split.
    { unfold st_sim, rinit. split; [reflexivity|].
      split; [left; reflexivity|].
      split.
      { unfold hdr_ok, lrd, inflate0, br0.
        cbn [rd r_bits r_len r_in r_inlen headerBuffer headerBuffered phase app].
        split.
        - unfold br_wf, br_bits. cbn [r_bits r_len r_in r_inlen length bits_of_bytes flat_map Z.to_nat bits_of_N app].
          split; [reflexivity|]. split; [lia|]. split; [intros; reflexivity|]. split; [constructor|].
          intros i Hi. rewrite N.bits_0 in Hi. discriminate.
        - split; [lia|]. split; [reflexivity|]. split; [cbv; discriminate|].
          split; [left; reflexivity|intros; reflexivity]. }
      split; [intros Hp; discriminate Hp|].
      split; [intros Hp; discriminate Hp|].
      reflexivity. }
    split.
    { unfold win_rel, rinit, st0. cbn [cfg_st oavail olen rout length].
      split; [reflexivity|]. split; [reflexivity|]. split; [lia|]. split; [left; reflexivity|].
      intros i Hi. lia. }
    split; [reflexivity|].
    cbn [inputNil inflate0 rd br0 r_in r_inlen r_len].
    split; [reflexivity|]. split; [reflexivity|].
    rewrite B2. cbn. symmetry. exact Hcs. }
  split.
  - exists (rinit data). split; [apply rt_refl|]. split; [reflexivity|].
    split; [cbn; lia|]. intros H; discriminate H.
  - intros _. exact Hdec.
Qed.

(* ---------------------------------------------------------------- the top-level theorem,
   from step_body and the reference facts *)
Lemma erun_ext_loop : erun_ext_loop_statement.
Proof. intros bufsize cs t reads. reflexivity. Qed.

Lemma is_prefix_trans : forall (A : Type) (a b c : list A), is_prefix a b -> is_prefix b c -> is_prefix a c.
Proof. intros A a b c [u ->] [v ->]. exists (u ++ v). apply app_assoc_reverse. Qed.

Theorem erun_sound_from_step :
  step_body -> newbuf_ok_statement ->
  reach_out_prefix_statement -> reach_done_statement ->
  erun_sound_statement.
Proof.
  intros Hstep Hnb Hpre Hdone data cs bufsize t reads Hdata Hcs Hne.
  rewrite erun_ext_loop.
  pose proof (erun_loop_ok Hstep data Hdata reads (newReader bufsize cs t) []
                (newReader_inv Hnb data cs bufsize t Hcs Hne) (Forall_nil _)) as HR.
  destruct (erun_loop (newReader bufsize cs t) reads []) as [l f].
  destruct HR as (((c & R1 & R2 & R3 & R4) & _) & HE).
  assert (Hp : is_prefix (results_bytes l) (out (Inflate.inflate [] data))).
  { apply is_prefix_trans with (b := frev (rout (cfg_st c))).
    - exists (pending_out f). symmetry. exact R2.
    - apply Hpre. exact R1. }
  assert (Heof : In REOF (map snd l) ->
            status (Inflate.inflate [] data) = Done /\
            results_bytes l = out (Inflate.inflate [] data) /\
            consumed (rBuf f) = (bitpos (Inflate.inflate [] data) + 7) / 8).
  { intros Hin. destruct (HE Hin) as (E1 & E2).
    destruct (R4 E1) as (st & S0 & Hc & Hcons). subst c.
    destruct (Hdone data st S0 R1) as (D1 & D2 & D3).
    split; [exact D1|]. split.
    - rewrite D2. cbn [cfg_st] in R2. rewrite <- R2.
      rewrite (pending_out_nil f E2). symmetry. apply app_nil_r.
    - rewrite D3. exact Hcons. }
  split; [exact Hp|]. split; [exact Heof|].
  intros Hnd Hin. apply Hnd. exact (proj1 (Heof Hin)).
Qed.
