(* EngineCompleteHuffMain.v -- completeness side of M5: what the outcomes of decodeHuffman mean
   for the reference (decodeHuffman_outcome2_statement of RModel/EngineCompleteSpecD.v).

   The first version of the statement (decodeHuffman_outcome_statement, EngineCompleteSpecA.v)
   is false; see EngineCompleteHuffCex.v:
   - the engine holding exactly the 7 bits 1,1,0,0,0,1,1 of a fixed-code block (a proper prefix
     of the words of the unassigned symbols 286/287) and no more input reports EInvalidSymbol
     (the zero-padded lookup hits the invalid entry of 286, and symCount = 0 is tested before
     bitsLen < 0), while the reference on exactly these bits needs input; every continuation
     is corrupt, which is what clause (2) of the second version says;
   - tabs_for does not bound the code lengths (mktrie 15 does not), which canon_pad and every
     "at most 35 + 15 + 13 bits" argument need. *)
From Coq Require Import List NArith ZArith Bool Lia ZifyBool ZifyNat ZifyN.
From Verif Require Import Bits Huffman HuffmanSpec Inflate InflateSpec InflateMono.
From Verif Require Import Base EngineTables Engine EngineRefineSpec EngineRefineSpecBlock
                          EngineRefineBits EngineRefineBridge.
From Verif Require HuffmanProofs SymbolsProofs EngineFacts.
From Verif Require Import EngineRefineHuffBase EngineRefineHuffSyms EngineRefineHuffDist
                          EngineRefineHuffInner EngineRefineHuffOuter.
From Verif Require Import EngineCompleteSpecA EngineCompleteSpecD.
From Verif Require Import EngineCompleteHuffTrie EngineCompleteHuffPad EngineCompleteHuffInner
                          EngineCompleteHuffBound.
From Verif Require EngineCompletePad.
Import ListNotations.
Open Scope N_scope.

(* after load_lt57 the 16-bit reload is a no-op *)
Lemma load_le15_loaded57 : forall b b1, br_wf b -> br_loaded 57 b -> load_le15 b = Some b1 -> b1 = b.
Proof.
  intros b b1 (W1 & W2 & W3 & W4 & W5) Hld H. unfold load_le15 in H.
  destruct (Z.leb_spec (r_len b) 15) as [Hle|_]; [|congruence].
  assert (Hin : r_in b = []) by (destruct Hld as [E|E]; [exact E|lia]).
  assert (Hil : r_inlen b = 0) by (rewrite W1, Hin; reflexivity).
  unfold load_raw in H. rewrite Hil in H.
  destruct (r_len b <? 0)%Z; [cbn in H; congruence|].
  destruct (Z.ltb_spec 64 (r_len b)) as [Hbig|_]; [lia|].
  change (8 <=? 0) with false in H. cbv iota in H.
  rewrite N.min_0_r in H. cbn [N.to_nat load_bytes] in H. congruence.
Qed.

(* what the results of the outer loop mean, relative to the call (st, bs0) *)
Definition OExtra (lt dt : trie) (e : list bool) (st : ostate) (bs0 : bs)
    (r : inflate * bitrd * arr * N * ierr) : Prop :=
  let '(s', b', out', w', err) := r in
  (err = EEndInput ->
     r_in b' = [] /\
     (e = [] -> exists st2 bs2, sym_run lt dt st bs0 st2 bs2 false /\
                exists a c, sym1 lt dt st2 bs2 = SStop a c NeedInput)) /\
  (isError err = true ->
     exists st2 bs2 a c x, sym_run lt dt st bs0 st2 bs2 false /\
       sym1 lt dt st2 bs2 = SStop a c x /\ (x = Corrupt \/ x = NeedInput) /\
       ((15 <= length e)%nat -> x = Corrupt)).

Lemma OExtra_prepend : forall lt dt e st bs0 st1 bs1 r,
  sym_run lt dt st bs0 st1 bs1 false -> OExtra lt dt e st1 bs1 r -> OExtra lt dt e st bs0 r.
Proof.
  intros lt dt e st bs0 st1 bs1 [[[[s' b'] out'] w'] err] R H. cbn [OExtra] in *.
  destruct H as [H1 H2]. split.
  - intros He. destruct (H1 He) as [A B]. split; [exact A|]. intros Hnil.
    destruct (B Hnil) as (st2 & bs2 & R2 & Hs). exists st2, bs2. split; [|exact Hs].
    eapply sym_run_trans; eassumption.
  - intros He. destruct (H2 He) as (st2 & bs2 & a & c & x & R2 & Hs). exists st2, bs2, a, c, x.
    split; [|exact Hs]. eapply sym_run_trans; eassumption.
Qed.

Lemma huff_outer_extra : canon_pad_statement ->
  forall L0 D ll dl lt dt e fuel s b out w st bs0,
  mktrie 15 ll = Some lt -> mktrie 15 dl = Some dt ->
  Forall (fun x => (x <= 15)%nat) ll -> Forall (fun x => (x <= 15)%nat) dl ->
  ((length ll <= 286)%nat \/ ll = fixed_lit_lens) ->
  lit_tab_ok ll (tb s) -> dist_tab_ok dl (tb s) ->
  phase s = phaseHeaderDecoded -> ov s = mkOV L0 0 0 0 ->
  winD D out w st -> w <= outLen -> good_rd e b bs0 ->
  OExtra lt dt e st bs0 (huff_outer fuel s b out w).
Proof.
  intros CP L0 D ll dl lt dt e.
  induction fuel as [|f IH]; intros s b out w st bs0 Hlt Hdt Hll Hdl H286 Hlit Hdist Hph Hov W Hw (Hwf & H0 & Hbl).
  { cbn [huff_outer OExtra]. split; intros Hx; discriminate Hx. }
  rewrite huff_outer_S. rewrite Hph. change (phaseHeaderDecoded =? phaseHeaderDecoded) with true. cbv iota.
  destruct (load_lt57_bits b Hwf) as (bT & LT & WfT & BitsT & LdT & LenT). rewrite LT.
  destruct (load_le15 bT) as [b1|] eqn:L1.
  2:{ cbn [OExtra]. split; intros Hx; discriminate Hx. }
  pose proof (load_le15_loaded57 bT b1 WfT LdT L1) as Eb1. subst b1.
  destruct bs0 as [l0 p0]. cbn [bl] in Hbl. subst l0. rewrite <- BitsT.
  assert (HInv : forall sc nl, Inv L0 D s out w st sc nl).
  { intros sc nl. unfold Inv. rewrite Hov. cbn [copyOverflowLength copyOverflowDistance writeOverflowLen writeOverflowLits].
    split; [reflexivity|]. split; [reflexivity|]. left. auto. }
  assert (Hs_id : s = upd s (phase s) (mkOV L0 0 0 0)) by (rewrite <- Hov; symmetry; apply upd_id).
  destruct (Hlit bT) as [(syms & Hn & Hlta & Hx & Hdec)|(Hnone & cnt & lits & Hdec & Hcnt)]; rewrite Hdec.
  2:{ (* no extended code word matches the padded buffer *)
    assert (HE : forall bx, OExtra lt dt e st (mkbs (br_bits bT ++ e) p0) (s, bx, out, w, EInvalidSymbol)).
    { intros bx. cbn [OExtra]. split; [intros Hx; discriminate Hx|]. intros _.
      destruct (bad_lit CP ll lt dt bT st p0 e Hlt Hll H286 WfT ltac:(lia) LdT Hnone) as (x & Hs & Hx1 & Hx2).
      eexists st, _, _, _, x. split; [apply sr_refl|]. split; [exact Hs|]. split; [exact Hx1|exact Hx2]. }
    destruct Hcnt as [->|[-> Hbig]].
    - cbn [N.eqb]. apply HE.
    - change (1 =? 0) with false. cbv iota.
      destruct (Z.ltb_spec (r_len bT) 0) as [Hneg|_]; [lia|].
      rewrite (huff_inner_S 7). change (1 =? 0) with false. cbv iota zeta.
      change 65535 with 0xFFFF in *.
      destruct (N.ltb_spec (N.land lits 0xFFFF) 256) as [Hlt256|_]; [lia|].
      change (1 <? 1) with false. cbn [orb].
      destruct (N.eqb_spec (N.land lits 0xFFFF) 256) as [Heq|_]; [lia|].
      unfold maxLitLenSym. destruct (N.leb_spec (N.land lits 0xFFFF) 512) as [Hle|_]; [lia|].
      apply HE. }
  pose proof (entry_bits_bound ll (tb s) Hlit Hll bT syms Hn Hlta Hx Hdec) as HK.
  set (K := N.of_nat (syms_bits syms)) in *.
  set (b2 := br_drop bT K) in *.
  destruct (N.eqb_spec (N.of_nat (length syms)) 0) as [Hz|_]; [lia|].
  assert (Hr2 : r_len b2 = (r_len bT - Z.of_nat (syms_bits syms))%Z).
  { unfold b2, br_drop, K. cbn [r_len]. lia. }
  assert (Hin2 : r_in b2 = r_in bT) by reflexivity.
  assert (Hload : r_in bT <> [] -> r_in b2 <> [] /\ (20 <= r_len b2)%Z).
  { intros Hne. split; [rewrite Hin2; exact Hne|]. destruct LdT as [E|E]; [contradiction|lia]. }
  destruct (Z.ltb_spec (r_len b2) 0) as [Hneg|Hge].
  { (* the entry ends beyond the real bits *)
    cbn [OExtra]. split; [|intros Hx'; discriminate Hx']. intros _.
    assert (HinT : r_in bT = []).
    { destruct (r_in bT) as [|x0 r0] eqn:E; [reflexivity|]. exfalso.
      destruct Hload as [_ H20]; [discriminate|]. lia. }
    split; [exact HinT|]. intros ->. rewrite app_nil_r.
    apply (need_entry ll lt dt syms bT st p0 Hlt Hlta Hx WfT HinT). lia. }
  assert (HKr : (Z.of_nat (syms_bits syms) <= r_len bT)%Z) by lia.
  destruct (br_drop_bits bT K WfT ltac:(unfold K; lia)) as (Wf2 & _ & _). fold b2 in Wf2.
  pose proof (xseq_pend (xcodes ll) e syms bT WfT HKr Hx) as Hp. fold K b2 in Hp.
  set (bs0 := mkbs (br_bits bT ++ e) p0) in *.
  pose proof (huff_inner_spec L0 D ll dl lt dt e bT w 8 s b2 out w syms st bs0 Hlt Hdt Hdist
               (HInv _ _) Hw ltac:(lia) Wf2 Hge Hlta ltac:(lia) Hp) as HP.
  pose proof (huff_inner_extra CP L0 D ll dl lt dt e bT w 8 s b2 out w syms st bs0 Hlt Hdt Hdl Hdist
               (HInv _ _) Hw Wf2 Hge Hlta ltac:(lia) Hp Hload) as HX.
  destruct (huff_inner 8 s b2 out w (N.of_nat (length syms)) (pack_syms syms) bT w)
    as [s1 b3 out1 w1|s1 b3 out1 w1 err]; cbn [Post Extra] in HP, HX.
  - destruct HP as (st1 & bs1 & ended & R & Es1 & G1 & W1 & Hw1 & Hw1').
    destruct ended.
    + unfold ph_of in Es1.
      destruct f as [|f'].
      * cbn [huff_outer OExtra]. split; intros Hx'; discriminate Hx'.
      * rewrite huff_outer_S.
        assert (Eph : phase s1 =? phaseHeaderDecoded = false).
        { rewrite Es1. unfold upd. cbn [set_ov set_phase phase]. apply eob_phase_not_hd. }
        rewrite Eph. cbn [OExtra]. split; intros Hx'; discriminate Hx'.
    + unfold ph_of in Es1. rewrite <- Hs_id in Es1. subst s1.
      apply (OExtra_prepend lt dt e st bs0 st1 bs1 _ R).
      apply IH; assumption.
  - cbn [OExtra]. destruct HX as [HX1 HX2]. split.
    + intros ->. destruct (HX1 eq_refl) as [A B].
      destruct HP as [(_ & -> & _)|(st' & bs' & ended & o' & _ & _ & _ & _ & _ & [(Hc & _)|[Hc|[Hc|Hc]]])];
        try discriminate Hc.
      split; [exact A|exact B].
    + intros He. destruct (HX2 He) as (st2 & bs2 & a & c & R2 & Hs).
      exists st2, bs2, a, c, Corrupt. split; [exact R2|]. split; [exact Hs|].
      split; [left; reflexivity|]. intros _; reflexivity.
Qed.

(* ---------------------------------------------------------------- the theorem *)
Theorem decodeHuffman_outcome2 : decodeHuffman_outcome2_statement.
Proof.
  intros CP s out w lt dt st p Hwf H0 Hph Hbf Hov (ll & dl & Hlt & Hdt & Hlit & Hdist & (Hll & Hdl & H286 & _)) Hwin Hw.
  set (s0 := set_cov s 0 0).
  assert (Es0 : s0 = upd s (phase s) (mkOV 0 0 0 0)).
  { unfold s0. rewrite set_cov_upd, Hov. reflexivity. }
  pose proof Hwin as (A1 & A2 & A3 & A4 & A5).
  set (D := olen st - w).
  assert (W : winD D out w st) by (split; [exact Hwin|unfold D; lia]).
  assert (Erd : rd s0 = rd s) by (rewrite Es0; reflexivity).
  assert (HX : forall e, OExtra lt dt e st (mkbs (br_bits (rd s) ++ e) p) (huff_outer big_fuel s0 (rd s0) out w)).
  { intros e.
    apply (huff_outer_extra CP 0 D ll dl lt dt e big_fuel s0 (rd s0) out w st _ Hlt Hdt Hll Hdl H286).
    - rewrite Es0. exact Hlit.
    - rewrite Es0. exact Hdist.
    - rewrite Es0. exact Hph.
    - rewrite Es0. reflexivity.
    - exact W.
    - exact Hw.
    - rewrite Erd. split; [exact Hwf|split; [exact H0|reflexivity]]. }
  unfold decodeHuffman. fold s0.
  destruct (huff_outer big_fuel s0 (rd s0) out w) as [[[[s1 b1] out1] w1] err].
  cbn [OExtra] in HX.
  destruct (Z.ltb_spec (r_len b1) 0) as [Hneg|Hge].
  - split; [intros Hx; destruct err; discriminate Hx|].
    split; [intros Hx; destruct err; discriminate Hx|].
    destruct err; auto 10.
  - split; [|split].
    + intros ->. destruct (HX []) as [H1 _]. destruct (H1 eq_refl) as [A B].
      split; [exact A|]. specialize (B eq_refl). rewrite app_nil_r in B. exact B.
    + intros He e. destruct (HX e) as [_ H2]. exact (H2 He).
    + destruct err; auto 10.
Qed.

(* with the premise discharged (proofs/EngineCompletePad.v) *)
Theorem decodeHuffman_outcome2_body_holds : decodeHuffman_outcome2_body.
Proof. exact (decodeHuffman_outcome2 EngineCompletePad.canon_pad). Qed.

Print Assumptions decodeHuffman_outcome2.
Print Assumptions decodeHuffman_outcome2_body_holds.
