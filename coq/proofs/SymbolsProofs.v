(* SymbolsProofs.v — layer D of CodecSpec.v: the reference block decoder run on the bits the
   writer model emits for a token list.

   History.  The first versions of the two statements were false and were refuted in Coq
   (the refutations are no longer here since the statements have been corrected):

   1. symbols_statement without the premise  oavail st <= N.of_nat (length (rout st)) :
      in a state whose counter oavail exceeds the bytes really held in rout, copy_match copies
      nothing (the segment `firstn d (rout st)` is empty), so oavail does not grow by the match
      length while toks_ok assumes it does; the next distance check of Spec.symbols fails.
        st = mkost [] 0 1 0 [],  ts = [TMatch 3 1; TMatch 3 2],
        litlens = 256 zeros, 1, 1, 28 zeros;  distlens = 1, 1, 28 zeros
      gave BStop _ _ Corrupt instead of BEnd.

   2. apply_toks_expand_statement without the premise  olen st <= oavail st : the conjunct
        olen (apply_toks ts st) + (oavail st - olen st) = oavail (apply_toks ts st)
      uses truncated subtraction;  ts = [], st = mkost [] 1 0 0 []  gave 1 + (0 - 1) = 1 <> 0. *)
From Verif Require Import CodecSpec HuffmanProofs.
From Coq Require Import Lia ZifyBool ZifyNat ZifyN.
Open Scope N_scope.

(* ------------------------------------------------------------------ *)
(* seqN                                                                 *)

Lemma In_seqN : forall n a x, a <= x < a + N.of_nat n -> In x (seqN a n).
Proof.
  induction n as [|n IH]; intros a x Hx.
  - lia.
  - cbn [seqN]. destruct (N.eq_dec a x) as [E|E].
    + left. exact E.
    + right. apply IH. lia.
Qed.

(* ------------------------------------------------------------------ *)
(* the length and distance tables                                       *)

Definition len_check (len : N) : bool :=
  let '(sym, eb, ev) := len_symbol len in
  match nth_error len_table (N.to_nat sym - 257) with
  | Some (base, eb') => (eb' =? eb) && (base + ev =? len) && (ev <? 2 ^ eb) && (257 <=? sym) && (sym <? 286)
  | None => false
  end.

Lemma len_check_all : forallb len_check (seqN 3 256) = true.
Proof. vm_compute. reflexivity. Qed.

Lemma len_symbol_table : forall len ls lb lv,
  3 <= len -> len <= 258 -> len_symbol len = (ls, lb, lv) ->
  exists base, nth_error len_table (N.to_nat ls - 257) = Some (base, lb) /\
               base + lv = len /\ lv < 2 ^ lb /\ 257 <= ls /\ ls < 286.
Proof.
  intros len ls lb lv H1 H2 E.
  pose proof len_check_all as HA. rewrite forallb_forall in HA.
  assert (HIn : In len (seqN 3 256)) by (apply In_seqN; lia).
  specialize (HA _ HIn). unfold len_check in HA. rewrite E in HA.
  destruct (nth_error len_table (N.to_nat ls - 257)) as [[base eb']|] eqn:En; try discriminate.
  exists base.
  assert (eb' = lb) by lia. subst eb'.
  repeat split; try lia; reflexivity.
Qed.

Definition dist_check (dist : N) : bool :=
  let '(ds, dv) := dist_symbol dist in
  match nth_error dist_table (N.to_nat ds) with
  | Some (dbase, de) => (de =? dist_extra_bits ds) && (dbase + dv =? dist) && (dv <? 2 ^ de)
  | None => false
  end.

Lemma dist_check_all : forallb dist_check (seqN 1 (N.to_nat 32768)) = true.
Proof. vm_compute. reflexivity. Qed.

Lemma dist_symbol_table : forall dist ds dv,
  1 <= dist -> dist <= 32768 -> dist_symbol dist = (ds, dv) ->
  exists dbase, nth_error dist_table (N.to_nat ds) = Some (dbase, dist_extra_bits ds) /\
                dbase + dv = dist /\ dv < 2 ^ dist_extra_bits ds.
Proof.
  intros dist ds dv H1 H2 E.
  pose proof dist_check_all as HA. rewrite forallb_forall in HA.
  assert (HIn : In dist (seqN 1 (N.to_nat 32768))) by (apply In_seqN; lia).
  specialize (HA _ HIn). unfold dist_check in HA. rewrite E in HA.
  destruct (nth_error dist_table (N.to_nat ds)) as [[dbase de]|] eqn:En; try discriminate.
  exists dbase.
  assert (de = dist_extra_bits ds) by lia. subst de.
  repeat split; try lia; reflexivity.
Qed.

(* ------------------------------------------------------------------ *)
(* gen_codes agrees with canon                                          *)

Lemma assign_all_assign : forall lens nc sym s,
  nth s lens 0 <> 0 ->
  exists c, nth s (assign_all lens nc) (0, 0) = (nth s lens 0, c) /\
            In ((sym + s)%nat, N.to_nat (nth s lens 0), c) (assign (map N.to_nat lens) sym nc).
Proof.
  induction lens as [|x r IH]; intros nc sym s Hs.
  - destruct s; cbn [nth] in Hs; congruence.
  - cbn [assign_all map assign].
    destruct (x =? 0) eqn:Ex.
    + assert (E0 : Nat.eqb (N.to_nat x) 0 = true) by lia. rewrite E0.
      destruct s as [|s']; cbn [nth] in Hs |- *.
      * lia.
      * replace (sym + S s')%nat with (S sym + s')%nat by lia. apply IH. exact Hs.
    + assert (E0 : Nat.eqb (N.to_nat x) 0 = false) by lia. rewrite E0.
      destruct s as [|s']; cbn [nth] in Hs |- *.
      * exists (nthN nc x). split; [reflexivity|]. left.
        unfold nthN. replace (sym + 0)%nat with sym by lia. reflexivity.
      * destruct (IH (updN nc x (nthN nc x + 1)) (S sym) s' Hs) as [c [Hc1 Hc2]].
        exists c. split; [exact Hc1|]. right.
        replace (sym + S s')%nat with (S sym + s')%nat by lia.
        unfold updN, nthN in Hc2. exact Hc2.
Qed.

(* ------------------------------------------------------------------ *)
(* trimming trailing zero lengths                                       *)

Definition tzf (acc : list N) (x : N) : list N := if x =? 0 then x :: acc else [].

Lemma repeat_snoc : forall A (a : A) n, repeat a n ++ [a] = a :: repeat a n.
Proof.
  intros A a n. induction n as [|n IH]; cbn [repeat app].
  - reflexivity.
  - rewrite IH. reflexivity.
Qed.

Lemma trailing_zeros : forall l,
  (length (fold_left tzf l []) <= length l)%nat /\
  skipn (length l - length (fold_left tzf l [])) l = repeat 0 (length (fold_left tzf l [])).
Proof.
  intros l. induction l as [|x l IH] using rev_ind.
  - cbn. split; [lia|reflexivity].
  - rewrite fold_left_app. cbn [fold_left]. unfold tzf at 1 3 5.
    destruct IH as [IH1 IH2].
    set (r := fold_left tzf l []) in *.
    rewrite app_length. cbn [length].
    destruct (x =? 0) eqn:Ex.
    + assert (x = 0) by lia. subst x. cbn [length]. split; [lia|].
      replace (length l + 1 - S (length r))%nat with (length l - length r)%nat by lia.
      rewrite skipn_app. rewrite IH2.
      replace (length l - length r - length l)%nat with 0%nat by lia.
      cbn [skipn repeat]. apply repeat_snoc.
    + cbn [length]. split; [lia|].
      replace (length l + 1 - 0)%nat with (length (l ++ [x])) by (rewrite app_length; cbn [length]; lia).
      rewrite skipn_all. reflexivity.
Qed.

Lemma used_count_nat : forall l,
  N.to_nat (used_count l) = (length l - length (fold_left tzf l []))%nat.
Proof.
  intros l. unfold used_count, lenN. fold tzf. lia.
Qed.

Lemma trim_decomp : forall l, exists n, l = trim l ++ repeat 0 n.
Proof.
  intros l. destruct (trailing_zeros l) as [H1 H2].
  exists (length (fold_left tzf l [])).
  unfold trim. rewrite used_count_nat. rewrite <- H2. symmetry. apply firstn_skipn.
Qed.

Lemma count_occ_repeat0 : forall n b, b <> 0%nat -> count_occ Nat.eq_dec (repeat 0%nat n) b = 0%nat.
Proof.
  induction n as [|n IH]; intros b Hb; cbn [repeat count_occ].
  - reflexivity.
  - destruct (Nat.eq_dec 0 b) as [E|E]; [congruence|]. apply IH. exact Hb.
Qed.

Lemma first_code_zeros : forall l n b, first_code (l ++ repeat 0%nat n) b = first_code l b.
Proof.
  intros l n b. induction b as [|b IH]; cbn [first_code].
  - reflexivity.
  - rewrite IH. destruct (Nat.eqb b 0) eqn:Eb.
    + reflexivity.
    + unfold count_len. rewrite count_occ_app. rewrite count_occ_repeat0 by lia.
      rewrite Nat.add_0_r. reflexivity.
Qed.

Lemma assign_zeros_nil : forall n sym nc, assign (repeat 0%nat n) sym nc = [].
Proof.
  induction n as [|n IH]; intros sym nc; cbn [repeat assign].
  - reflexivity.
  - cbn [Nat.eqb]. apply IH.
Qed.

Lemma assign_zeros : forall l n sym nc, assign (l ++ repeat 0%nat n) sym nc = assign l sym nc.
Proof.
  induction l as [|x r IH]; intros n sym nc; cbn [app assign].
  - apply assign_zeros_nil.
  - destruct (Nat.eqb x 0).
    + apply IH.
    + rewrite IH. reflexivity.
Qed.

Lemma map_to_nat_zeros : forall n, map N.to_nat (repeat 0 n) = repeat 0%nat n.
Proof.
  induction n as [|n IH]; cbn [repeat map].
  - reflexivity.
  - rewrite IH. reflexivity.
Qed.

Lemma canon_trim : forall l, canon (map N.to_nat (trim l)) = canon (map N.to_nat l).
Proof.
  intros l. destruct (trim_decomp l) as [n D].
  set (t := trim l) in *. clearbody t. subst l.
  rewrite map_app, map_to_nat_zeros. unfold canon.
  rewrite assign_zeros. f_equal. apply map_ext. intros b.
  symmetry. apply first_code_zeros.
Qed.

Lemma gen_codes_canon : forall lens s, nthN lens s <> 0 ->
  exists c, nth (N.to_nat s) (gen_codes lens) (0, 0) = (nthN lens s, c) /\
            In (N.to_nat s, N.to_nat (nthN lens s), c) (canon (map N.to_nat (trim lens))).
Proof.
  intros lens s Hs. rewrite canon_trim. unfold gen_codes, canon.
  destruct (assign_all_assign lens (map (first_code (map N.to_nat lens)) (seq 0 17)) 0%nat (N.to_nat s) Hs)
    as [c [H1 H2]].
  exists c. split; [exact H1|]. exact H2.
Qed.

Lemma used_nonzero : forall l s, nthN l s <> 0 -> used_count l <> 0.
Proof.
  intros l s Hs Hu. destruct (trim_decomp l) as [n D].
  unfold trim in D. rewrite Hu in D. cbn [N.to_nat firstn app] in D.
  apply Hs. unfold nthN. rewrite D.
  destruct (nth_in_or_default (N.to_nat s) (repeat 0 n) 0) as [HIn|E]; [|exact E].
  apply repeat_spec in HIn. exact HIn.
Qed.

Lemma dist_sent_trim : forall l s, nthN l s <> 0 -> dist_lens_sent l = trim l.
Proof.
  intros l s Hs. unfold dist_lens_sent.
  destruct (used_count l =? 0) eqn:E; [|reflexivity].
  exfalso. apply (used_nonzero l s Hs). lia.
Qed.

(* the code word of a used symbol decodes to that symbol *)
Lemma decode_word : forall maxl lens t s rest p,
  mktrie maxl (map N.to_nat (trim lens)) = Some t -> nthN lens s <> 0 ->
  decode_sym t (mkbs (sym_word (gen_codes lens) s ++ rest) p)
    = DOk (N.to_nat s) (mkbs rest (p + N.of_nat (length (sym_word (gen_codes lens) s)))).
Proof.
  intros maxl lens t s rest p Hmk Hs.
  destruct (gen_codes_canon lens s Hs) as [c [H1 H2]].
  unfold sym_word. rewrite H1. unfold code_word. cbn [fst snd].
  rewrite code_bits_length.
  exact (decode_encode maxl _ t _ _ c rest p Hmk H2).
Qed.

(* ------------------------------------------------------------------ *)
(* take                                                                 *)

Lemma take_app : forall l rest p,
  take (length l) (mkbs (l ++ rest) p) = Some (N_of_bits l, mkbs rest (p + N.of_nat (length l))).
Proof.
  induction l as [|b r IH]; intros rest p.
  - cbn [length take app N_of_bits]. replace (p + N.of_nat 0) with p by lia. reflexivity.
  - cbn [length take app N_of_bits]. unfold take1. cbn [bl bp].
    rewrite IH.
    replace (p + 1 + N.of_nat (length r)) with (p + N.of_nat (S (length r))) by lia.
    reflexivity.
Qed.

Lemma take_bits : forall k v rest p, v < 2 ^ k ->
  take (N.to_nat k) (mkbs (bits_of_N (N.to_nat k) v ++ rest) p) = Some (v, mkbs rest (p + k)).
Proof.
  intros k v rest p Hv.
  pose proof (take_app (bits_of_N (N.to_nat k) v) rest p) as H.
  rewrite bits_of_N_length in H. rewrite H.
  rewrite N_of_bits_of_N by (rewrite N2Nat.id; exact Hv).
  rewrite N2Nat.id. reflexivity.
Qed.

(* ------------------------------------------------------------------ *)
(* copy_cyc / copy_match                                                *)

Lemma copy_cyc_fields : forall seg n cur st, seg <> [] ->
  length (rout (copy_cyc seg cur n st)) = (length (rout st) + n)%nat /\
  olen (copy_cyc seg cur n st) = olen st + N.of_nat n /\
  oavail (copy_cyc seg cur n st) = oavail st + N.of_nat n /\
  osyncs (copy_cyc seg cur n st) = osyncs st.
Proof.
  intros seg n. induction n as [|n IH]; intros cur st Hseg; cbn [copy_cyc].
  - repeat split; lia.
  - destruct cur as [|b cur'].
    + destruct seg as [|b s'] eqn:Es; [congruence|]. rewrite <- Es in *.
      destruct (IH s' (push b st) Hseg) as (A & B & C & D).
      cbn [push rout olen oavail osyncs length] in A, B, C, D.
      repeat split; try lia. exact D.
    + destruct (IH cur' (push b st) Hseg) as (A & B & C & D).
      cbn [push rout olen oavail osyncs length] in A, B, C, D.
      repeat split; try lia. exact D.
Qed.

Lemma seg_nonempty : forall d (h : list byte), 1 <= d -> d <= N.of_nat (length h) ->
  frev (firstn (N.to_nat d) h) <> [].
Proof.
  intros d h H1 H2 E. rewrite frev_rev in E.
  apply (f_equal (@length _)) in E. rewrite rev_length, firstn_length in E.
  cbn [length] in E. lia.
Qed.

Lemma copy_match_fields : forall len d st, 1 <= d -> d <= N.of_nat (length (rout st)) ->
  N.of_nat (length (rout (copy_match len d st))) = N.of_nat (length (rout st)) + len /\
  olen (copy_match len d st) = olen st + len /\
  oavail (copy_match len d st) = oavail st + len /\
  osyncs (copy_match len d st) = osyncs st.
Proof.
  intros len d st H1 H2. unfold copy_match. cbn [rout olen oavail osyncs].
  set (seg := frev (firstn (N.to_nat d) (rout st))).
  destruct (copy_cyc_fields seg (N.to_nat len) seg st (seg_nonempty d (rout st) H1 H2)) as (A & B & C & D).
  repeat split; try lia. exact D.
Qed.

Lemma firstn_snoc : forall A (z : A) (h : list A) d, (d < length h)%nat ->
  firstn (S d) h = firstn d h ++ [nth d h z].
Proof.
  intros A z. induction h as [|a h IH]; intros d H; cbn [length] in H; [lia|].
  destruct d as [|d].
  - reflexivity.
  - change (firstn (S (S d)) (a :: h)) with (a :: firstn (S d) h).
    rewrite IH by lia. reflexivity.
Qed.

Lemma copy_cyc_copy_from : forall seg D dist, N.to_nat dist = S D ->
  forall n cur st pre,
    seg = pre ++ cur -> rev (firstn (S D) (rout st)) = cur ++ pre ->
    (S D <= length (rout st))%nat ->
    rout (copy_cyc seg cur n st) = copy_from (rout st) dist n.
Proof.
  intros seg D dist Hd. induction n as [|n IH]; intros cur st pre Hseg Hrev Hlen.
  - reflexivity.
  - assert (HN : exists b cur' pre',
               seg = pre' ++ b :: cur' /\
               rev (firstn (S D) (rout st)) = (b :: cur') ++ pre' /\
               copy_cyc seg cur (S n) st = copy_cyc seg cur' n (push b st)).
    { destruct cur as [|b cur'].
      - cbn [app] in Hrev. rewrite app_nil_r in Hseg. subst pre.
        destruct seg as [|b s'].
        + exfalso. apply (f_equal (@length _)) in Hrev.
          rewrite rev_length, firstn_length in Hrev. cbn [length] in Hrev.
          rewrite (Nat.min_l _ _ Hlen) in Hrev. discriminate Hrev.
        + exists b, s', []. cbn [app]. rewrite app_nil_r.
          split; [reflexivity|]. split; [exact Hrev|]. reflexivity.
      - exists b, cur', pre. split; [exact Hseg|]. split; [exact Hrev|]. reflexivity. }
    destruct HN as (b & cur' & pre' & Hs & Hr & Hc). rewrite Hc.
    cbn [copy_from]. rewrite Hd. replace (S D - 1)%nat with D by lia.
    assert (HD : (D < length (rout st))%nat) by lia.
    rewrite (firstn_snoc byte 0 _ _ HD) in Hr. rewrite rev_app_distr in Hr. cbn [rev app] in Hr.
    injection Hr as Hb Hr'.
    rewrite (IH cur' (push b st) (pre' ++ [b])).
    + cbn [push rout]. subst b. reflexivity.
    + rewrite <- app_assoc. exact Hs.
    + cbn [push rout]. change (firstn (S D) (b :: rout st)) with (b :: firstn D (rout st)).
      cbn [rev]. rewrite Hr'. rewrite app_assoc. reflexivity.
    + cbn [push rout length]. lia.
Qed.

Lemma copy_match_rout : forall len d st, 1 <= d -> d <= N.of_nat (length (rout st)) ->
  rout (copy_match len d st) = copy_from (rout st) d (N.to_nat len).
Proof.
  intros len d st H1 H2. unfold copy_match. cbn [rout].
  apply (copy_cyc_copy_from _ (N.to_nat d - 1)%nat d) with (pre := []).
  - lia.
  - reflexivity.
  - replace (S (N.to_nat d - 1)) with (N.to_nat d) by lia.
    rewrite app_nil_r, frev_rev. reflexivity.
  - lia.
Qed.

(* ------------------------------------------------------------------ *)
(* one token                                                            *)

Lemma apply_tok_fields : forall W st t,
  tok_ok W (oavail st) t -> oavail st <= N.of_nat (length (rout st)) ->
  N.of_nat (length (rout (apply_tok st t))) = N.of_nat (length (rout st)) + tok_len t /\
  olen (apply_tok st t) = olen st + tok_len t /\
  oavail (apply_tok st t) = oavail st + tok_len t /\
  osyncs (apply_tok st t) = osyncs st.
Proof.
  intros W st t Hok Hinv. destruct t as [b|len dist]; cbn [apply_tok tok_len].
  - cbn [push rout olen oavail osyncs length]. repeat split; lia.
  - cbn [tok_ok] in Hok. apply copy_match_fields; lia.
Qed.

Lemma apply_tok_rout : forall W st t,
  tok_ok W (oavail st) t -> oavail st <= N.of_nat (length (rout st)) ->
  rout (apply_tok st t) = expand_rev [t] (rout st).
Proof.
  intros W st t Hok Hinv. destruct t as [b|len dist]; cbn [apply_tok expand_rev].
  - reflexivity.
  - cbn [tok_ok] in Hok. apply copy_match_rout; lia.
Qed.

Lemma apply_toks_cons : forall t r st, apply_toks (t :: r) st = apply_toks r (apply_tok st t).
Proof. reflexivity. Qed.

Lemma expand_rev_cons : forall t r h, expand_rev (t :: r) h = expand_rev r (expand_rev [t] h).
Proof. intros t r h. destruct t; reflexivity. Qed.

Theorem apply_toks_expand : apply_toks_expand_statement.
Proof.
  unfold apply_toks_expand_statement.
  induction ts as [|t r IH]; intros st Hok Hinv Hle.
  - cbn [apply_toks fold_left expand_rev]. repeat split; try lia.
  - cbn [toks_ok] in Hok. destruct Hok as [Ht Hr].
    assert (Hinv' : oavail st <= N.of_nat (length (rout st))) by lia.
    destruct (apply_tok_fields _ st t Ht Hinv') as (A & B & C & D).
    pose proof (apply_tok_rout _ st t Ht Hinv') as E.
    rewrite apply_toks_cons, expand_rev_cons.
    rewrite <- C in Hr.
    destruct (IH (apply_tok st t) Hr) as (I1 & I2 & I3 & I4); try lia.
    rewrite <- E. repeat split.
    + exact I1.
    + exact I2.
    + lia.
    + congruence.
Qed.

(* ------------------------------------------------------------------ *)
(* one step of Spec.symbols                                             *)

Lemma symbols_lit : forall f lt dt st s sym s1,
  decode_sym lt s = DOk sym s1 -> (sym < 256)%nat ->
  symbols (S f) lt dt st s = symbols f lt dt (push (N.of_nat sym) st) s1.
Proof.
  intros f lt dt st s sym s1 Hd Hs. cbn [symbols]. rewrite Hd.
  destruct (sym <? 256)%nat eqn:E; [reflexivity|lia].
Qed.

Lemma symbols_end : forall f lt dt st s s1,
  decode_sym lt s = DOk 256%nat s1 -> symbols (S f) lt dt st s = BEnd st s1.
Proof.
  intros f lt dt st s s1 Hd. cbn [symbols]. rewrite Hd. reflexivity.
Qed.

Lemma symbols_match : forall f lt dt st s sym s1 lbase lextra le s2 dsym s3 dbase dextra de s4,
  decode_sym lt s = DOk sym s1 -> (256 < sym)%nat ->
  nth_error len_table (sym - 257) = Some (lbase, lextra) ->
  take (N.to_nat lextra) s1 = Some (le, s2) ->
  decode_sym dt s2 = DOk dsym s3 ->
  nth_error dist_table dsym = Some (dbase, dextra) ->
  take (N.to_nat dextra) s3 = Some (de, s4) ->
  dbase + de <= oavail st ->
  symbols (S f) lt dt st s = symbols f lt dt (copy_match (lbase + le) (dbase + de) st) s4.
Proof.
  intros f lt dt st s sym s1 lbase lextra le s2 dsym s3 dbase dextra de s4
         Hd Hs Hl Ht1 Hd2 Hdt Ht2 Hav.
  cbn [symbols]. rewrite Hd.
  destruct (sym <? 256)%nat eqn:E1; [lia|].
  destruct (sym =? 256)%nat eqn:E2; [lia|].
  rewrite Hl, Ht1, Hd2, Hdt, Ht2.
  destruct (oavail st <? dbase + de) eqn:E3; [lia|]. reflexivity.
Qed.

(* ------------------------------------------------------------------ *)
(* D: symbols round trip                                                *)

Lemma symbols_core : forall litlens distlens lt dt,
  mktrie 15 (map N.to_nat (trim litlens)) = Some lt ->
  mktrie 15 (map N.to_nat (dist_lens_sent distlens)) = Some dt ->
  nthN litlens 256 <> 0 ->
  forall ts st rest p fuel,
    Forall (tok_coded litlens distlens) ts ->
    toks_ok 32768 (oavail st) ts ->
    oavail st <= N.of_nat (length (rout st)) ->
    (length ts < fuel)%nat ->
    symbols fuel lt dt st
      (mkbs ((flat_map (token_bits (gen_codes litlens) (gen_codes distlens)) ts
                ++ sym_word (gen_codes litlens) 256) ++ rest) p)
      = BEnd (apply_toks ts st)
             (mkbs rest (p + N.of_nat (length
                (flat_map (token_bits (gen_codes litlens) (gen_codes distlens)) ts
                   ++ sym_word (gen_codes litlens) 256)))).
Proof.
  intros litlens distlens lt dt Hlt Hdt H256.
  induction ts as [|t r IH]; intros st rest p fuel Hcoded Hok Hinv Hfuel.
  - cbn [flat_map app apply_toks fold_left].
    destruct fuel as [|f]; [cbn [length] in Hfuel; lia|].
    apply symbols_end.
    exact (decode_word 15 litlens lt 256 rest p Hlt H256).
  - destruct fuel as [|f]; [cbn [length] in Hfuel; lia|].
    cbn [length] in Hfuel.
    inversion Hcoded as [|t0 r0 Hc Hcr]; subst t0 r0.
    cbn [toks_ok] in Hok. destruct Hok as [Ht Hr].
    destruct (apply_tok_fields _ st t Ht Hinv) as (A & _ & C & _).
    rewrite <- C in Hr.
    assert (Hinv' : oavail (apply_tok st t) <= N.of_nat (length (rout (apply_tok st t)))) by lia.
    rewrite apply_toks_cons.
    cbn [flat_map].
    rewrite <- (app_assoc (token_bits (gen_codes litlens) (gen_codes distlens) t) _
                          (sym_word (gen_codes litlens) 256)).
    set (X := flat_map (token_bits (gen_codes litlens) (gen_codes distlens)) r
                ++ sym_word (gen_codes litlens) 256) in *.
    clearbody X.
    destruct t as [b|len dist].
    + (* literal *)
      cbn [tok_coded] in Hc. destruct Hc as [Hb Hnz].
      cbn [token_bits apply_tok] in *.
      rewrite <- !app_assoc.
      rewrite (symbols_lit f lt dt st _ (N.to_nat b) _
                 (decode_word 15 litlens lt b _ p Hlt Hnz)) by lia.
      rewrite N2Nat.id.
      rewrite (IH _ rest _ f Hcr Hr Hinv') by lia.
      f_equal. f_equal. rewrite !app_length. lia.
    + (* match *)
      cbn [tok_coded] in Hc. cbn [tok_ok] in Ht.
      cbn [token_bits apply_tok] in *.
      destruct (len_symbol len) as [[ls lb] lv] eqn:El.
      destruct (dist_symbol dist) as [ds dv] eqn:Ed.
      cbn [fst] in Hc. destruct Hc as [Hlnz Hdnz].
      destruct (len_symbol_table len ls lb lv) as (lbase & HL1 & HL2 & HL3 & HL4 & HL5);
        [lia|lia|exact El|].
      destruct (dist_symbol_table dist ds dv) as (dbase & HD1 & HD2 & HD3);
        [lia|lia|exact Ed|].
      rewrite (dist_sent_trim distlens ds Hdnz) in Hdt.
      rewrite <- !app_assoc.
      rewrite (symbols_match f lt dt st _ (N.to_nat ls) _ lbase lb lv _ (N.to_nat ds) _
                 dbase (dist_extra_bits ds) dv _
                 (decode_word 15 litlens lt ls _ p Hlt Hlnz)
                 ltac:(lia)
                 HL1
                 (take_bits lb lv _ _ HL3)
                 (decode_word 15 distlens dt ds _ _ Hdt Hdnz)
                 HD1
                 (take_bits (dist_extra_bits ds) dv _ _ HD3)
                 ltac:(lia)).
      rewrite HL2, HD2.
      rewrite (IH _ rest _ f Hcr Hr Hinv') by lia.
      f_equal. f_equal. rewrite !app_length, !bits_of_N_length. lia.
Qed.

Theorem symbols_ok : symbols_statement.
Proof.
  unfold symbols_statement. cbv zeta.
  intros litlens distlens lt dt ts st rest p fuel _ _ Hlt Hdt H256 Hcoded Hok Hinv Hfuel.
  apply symbols_core; assumption.
Qed.

(* the instance for states that satisfy the invariant of Spec.inflate *)
Theorem symbols_ok_eq :
  forall litlens distlens lt dt ts st rest p fuel,
    length litlens = 286%nat -> length distlens = 30%nat ->
    mktrie 15 (map N.to_nat (trim litlens)) = Some lt ->
    mktrie 15 (map N.to_nat (dist_lens_sent distlens)) = Some dt ->
    nthN litlens 256 <> 0 ->
    Forall (tok_coded litlens distlens) ts ->
    toks_ok 32768 (oavail st) ts ->
    oavail st = N.of_nat (length (rout st)) ->
    (length ts < fuel)%nat ->
    let lcodes := gen_codes litlens in
    let dcodes := gen_codes distlens in
    let bits := flat_map (token_bits lcodes dcodes) ts ++ sym_word lcodes 256 in
    symbols fuel lt dt st (mkbs (bits ++ rest) p)
      = BEnd (apply_toks ts st) (mkbs rest (p + N.of_nat (length bits))).
Proof.
  intros litlens distlens lt dt ts st rest p fuel H1 H2 Hlt Hdt H256 Hcoded Hok Hinv Hfuel.
  cbv zeta. apply symbols_core; try assumption. lia.
Qed.

Print Assumptions symbols_ok.
Print Assumptions symbols_ok_eq.
Print Assumptions apply_toks_expand.
