(* SymbolsProofs.v — layer D of CodecSpec.v: the reference block decoder run on the bits the
   writer model emits for a token list.

   BOTH STATEMENTS ARE FALSE AS WRITTEN (counterexamples proved below as
   symbols_statement_false and apply_toks_expand_statement_false):

   1. symbols_statement quantifies over every output state st, including states whose
      counter oavail st exceeds the number of bytes really held in rout st.  In such a state
      copy_match copies nothing (the segment `firstn d (rout st)` is empty), so oavail does not
      grow by the match length, while toks_ok assumes it does; the next distance check
      `oavail st <? d` of Spec.symbols then fails.
        st = mkost [] 0 1 0 []          (oavail = 1, no byte held)
        ts = [TMatch 3 1; TMatch 3 2]   (toks_ok 32768 1 ts holds: 1 <= 1, then 2 <= 1 + 3)
        litlens = 256 zeros, 1, 1, 28 zeros;  distlens = 1, 1, 28 zeros
      symbols gives BStop _ _ Corrupt instead of BEnd.
      Proved instead: symbols_ok_partial, the same statement with the extra hypothesis
        oavail st <= N.of_nat (length (rout st))
      (implied by the invariant oavail st = N.of_nat (length (rout st)) that Spec.inflate
      maintains; symbols_ok_partial_eq is the instance with that equality).

   2. apply_toks_expand_statement: the third conjunct
        olen (apply_toks ts st) + (oavail st - olen st) = oavail (apply_toks ts st)
      uses truncated subtraction and is false when olen st > oavail st:
        ts = [], st = mkost [] 1 0 0 []   gives 1 + (0 - 1) = 1 <> 0.
      Proved instead: apply_toks_expand_partial, the same statement with the extra hypothesis
        olen st <= oavail st.                                                              *)
From Verif Require Import CodecSpec HuffmanProofs.
From Coq Require Import Lia ZifyBool ZifyNat ZifyN.
Open Scope N_scope.

(* ------------------------------------------------------------------ *)
(* counterexamples                                                      *)

Definition cx_litlens : list N := repeat 0 256 ++ [1; 1] ++ repeat 0 28.
Definition cx_distlens : list N := [1; 1] ++ repeat 0 28.
Definition cx_lt : trie :=
  match mktrie 15 (map N.to_nat (trim cx_litlens)) with Some t => t | None => TEmpty end.
Definition cx_dt : trie :=
  match mktrie 15 (map N.to_nat (dist_lens_sent cx_distlens)) with Some t => t | None => TEmpty end.

Lemma symbols_statement_false : ~ symbols_statement.
Proof.
  unfold symbols_statement. intros H.
  specialize (H cx_litlens cx_distlens cx_lt cx_dt [TMatch 3 1; TMatch 3 2]
                (mkost [] 0 1 0 []) [] 0 3%nat).
  assert (H1 : length cx_litlens = 286%nat) by reflexivity.
  assert (H2 : length cx_distlens = 30%nat) by reflexivity.
  assert (H3 : mktrie 15 (map N.to_nat (trim cx_litlens)) = Some cx_lt) by (vm_compute; reflexivity).
  assert (H4 : mktrie 15 (map N.to_nat (dist_lens_sent cx_distlens)) = Some cx_dt) by (vm_compute; reflexivity).
  assert (H5 : nthN cx_litlens 256 <> 0) by (vm_compute; discriminate).
  assert (H6 : Forall (tok_coded cx_litlens cx_distlens) [TMatch 3 1; TMatch 3 2]).
  { repeat constructor; vm_compute; discriminate. }
  assert (H7 : toks_ok 32768 (oavail (mkost [] 0 1 0 [])) [TMatch 3 1; TMatch 3 2]).
  { cbn [toks_ok tok_ok tok_len oavail]. lia. }
  assert (H8 : (length [TMatch 3 1; TMatch 3 2] < 3)%nat) by (cbn [length]; lia).
  specialize (H H1 H2 H3 H4 H5 H6 H7 H8).
  vm_compute in H. discriminate H.
Qed.

Lemma apply_toks_expand_statement_false : ~ apply_toks_expand_statement.
Proof.
  unfold apply_toks_expand_statement. intros H.
  specialize (H [] (mkost [] 1 0 0 []) I eq_refl).
  destruct H as [_ [_ [H _]]]. vm_compute in H. discriminate H.
Qed.

(* ------------------------------------------------------------------ *)
(* seqN                                                                 *)

Lemma In_seqN : forall n a x, a <= x < a + N.of_nat n -> In x (seqN a n).
Proof.
  induction n as [|n IH]; intros a x Hx.
  - lia.
  - cbn [seqN]. destruct (N.eq_dec a x) as [E|E].
    + left. exact E.
    + right. apply IH. lia.
Qed.

(* ------------------------------------------------------------------ *)
(* the length and distance tables                                       *)

Definition len_check (len : N) : bool :=
  let '(sym, eb, ev) := len_symbol len in
  match nth_error len_table (N.to_nat sym - 257) with
  | Some (base, eb') => (eb' =? eb) && (base + ev =? len) && (ev <? 2 ^ eb) && (257 <=? sym) && (sym <? 286)
  | None => false
  end.

Lemma len_check_all : forallb len_check (seqN 3 256) = true.
Proof. vm_compute. reflexivity. Qed.

Lemma len_symbol_table : forall len ls lb lv,
  3 <= len -> len <= 258 -> len_symbol len = (ls, lb, lv) ->
  exists base, nth_error len_table (N.to_nat ls - 257) = Some (base, lb) /\
               base + lv = len /\ lv < 2 ^ lb /\ 257 <= ls /\ ls < 286.
Proof.
  intros len ls lb lv H1 H2 E.
  pose proof len_check_all as HA. rewrite forallb_forall in HA.
  assert (HIn : In len (seqN 3 256)) by (apply In_seqN; lia).
  specialize (HA _ HIn). unfold len_check in HA. rewrite E in HA.
  destruct (nth_error len_table (N.to_nat ls - 257)) as [[base eb']|] eqn:En; try discriminate.
  exists base.
  assert (eb' = lb) by lia. subst eb'.
  repeat split; try lia; reflexivity.
Qed.

Definition dist_check (dist : N) : bool :=
  let '(ds, dv) := dist_symbol dist in
  match nth_error dist_table (N.to_nat ds) with
  | Some (dbase, de) => (de =? dist_extra_bits ds) && (dbase + dv =? dist) && (dv <? 2 ^ de)
  | None => false
  end.

Lemma dist_check_all : forallb dist_check (seqN 1 (N.to_nat 32768)) = true.
Proof. vm_compute. reflexivity. Qed.

Lemma dist_symbol_table : forall dist ds dv,
  1 <= dist -> dist <= 32768 -> dist_symbol dist = (ds, dv) ->
  exists dbase, nth_error dist_table (N.to_nat ds) = Some (dbase, dist_extra_bits ds) /\
                dbase + dv = dist /\ dv < 2 ^ dist_extra_bits ds.
Proof.
  intros dist ds dv H1 H2 E.
  pose proof dist_check_all as HA. rewrite forallb_forall in HA.
  assert (HIn : In dist (seqN 1 (N.to_nat 32768))) by (apply In_seqN; lia).
  specialize (HA _ HIn). unfold dist_check in HA. rewrite E in HA.
  destruct (nth_error dist_table (N.to_nat ds)) as [[dbase de]|] eqn:En; try discriminate.
  exists dbase.
  assert (de = dist_extra_bits ds) by lia. subst de.
  repeat split; try lia; reflexivity.
Qed.
