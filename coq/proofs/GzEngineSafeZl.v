(* GzEngineSafeZl.v -- GzEngineSpec3.v: the zlib reader model (no dictionary, FDICT clear) never
   reports a panic or gets stuck, from the engine layer (section E of GzEngineSpec3.v, taken as
   hypotheses exactly as stated there):
     zl_safe_from : dRead_rs_statement -> newReader_on_rs_statement -> sbuf_of_strm_statement ->
                    zl_safe_statement
   The bufio / stream layers are used as closed theorems (GzEngineBuf.ioReadFull_spec,
   GzEngineBuf.zl_sticky, GzEngineStrm.dRead_strm, EngineRefineBuf.newbuf_ok). *)
From Coq Require Import List NArith ZArith Bool Lia.
From Verif Require Import Bits Huffman Inflate InflateSpec.
From Verif Require Import Containers ContainersSpec.
From Verif Require Import Base Engine EngineReset EngineRefineSpecBuf
     EngineSafetyBase EngineSafetyInv EngineSafetyBuf EngineSafetyHeader EngineSafety GzEngine GzEngineSpec.
From Verif Require Import EngineRefineBuf GzEngineBuf GzEngineStrm GzEngineZl GzEngineSpec3.
Import ListNotations.
Open Scope N_scope.

(* see GzEngineZl.v: ioReadFull / dRead are unfolded last by the kernel *)
Local Strategy opaque [ioReadFull dRead big_fuel].

Definition TT : N := 262141.

(* ---------------------------------------------------------------- errors *)
Definition four (r : rres) : Prop := r = ROk \/ r = REOF \/ r = RUnexpectedEOF \/ r = RSrcErr.

Lemma four_safe : forall r, four r -> gres_safe (noEOF (GR r)).
Proof. intros r [->|[->|[->| ->]]]; split; discriminate. Qed.

Lemma four_not_ok : forall r, four r -> r <> ROk -> noEOF (GR r) <> GR ROk.
Proof. intros r [->|[->|[->| ->]]] Hn; try discriminate. exfalso. apply Hn. reflexivity. Qed.

Lemma GR_safe : forall r, r <> RPanic -> r <> RStuck -> gres_safe (GR r).
Proof.
  intros r H1 H2. split; intros Hx; injection Hx as Hx; [exact (H1 Hx)|exact (H2 Hx)].
Qed.

Lemma gnil_ok : forall e, gnil e = true -> e = GR ROk.
Proof.
  intros e G. destruct e as [r| | | | |]; try discriminate G. destruct r; try discriminate G. reflexivity.
Qed.

(* ---------------------------------------------------------------- the stream invariant *)
Lemma strm_step : forall data b b' bytes,
  strm_inv data b -> buf_ok b' -> bstream b = bytes ++ bstream b' ->
  consumed b' = consumed b + lenN bytes -> strm_inv data b'.
Proof.
  intros data b b' bytes (_ & D & Hd & Hc) Hok Hs Hcon. split; [exact Hok|].
  exists (D ++ bytes). split.
  - rewrite Hd, Hs, app_assoc. reflexivity.
  - rewrite Hcon, Hc, app_length. unfold lenN. lia.
Qed.

(* ---------------------------------------------------------------- the invariant between Reads *)
Definition ZS (data : list N) (z : zlreader) : Prop :=
  exists d, strm_inv data (zl_r z) /\ bsize (zl_r z) <= BUFMAX /\ zl_dec z = ZFast d /\
            rs_inv TT (set_rBuf d (zl_r z)).

(* ---------------------------------------------------------------- NewReader *)
Lemma zlNew_safe :
  newReader_on_rs_statement -> sbuf_of_strm_statement ->
  forall data cs bufsize t z e,
    GzEngineSpec.bytes_ok data -> concat cs = data -> Forall (fun c => c <> []) cs ->
    bufsize <= 90000 -> lenN data <= TT ->
    N.testbit (nth 1 data 0) 5 = false ->
    zlNewReaderDict (mkbufrd bufsize cs t) [] = (z, e) ->
    gres_safe e /\ (e = GR ROk -> ZS data z /\ zl_err z = GR ROk).
Proof.
  intros HNR HSB data cs bufsize t z e Hbytes Hcs Hne Hbuf Hlen Hbit HN.
  pose proof ioReadFull_spec as HRF.
  destruct (newbuf_ok bufsize cs t Hne) as (B1 & B2 & B3).
  change (mkBuf (N.max bufsize 16) [] 0 None cs t 0) with (mkbufrd bufsize cs t) in *.
  assert (Hbs : bsize (mkbufrd bufsize cs t) <= BUFMAX).
  { unfold mkbufrd, BUFMAX. cbn [bsize]. lia. }
  set (b := mkbufrd bufsize cs t) in *. clearbody b.
  assert (Hstrm : strm_inv data b).
  { split; [exact B1|]. exists []. split.
    - cbn [app]. rewrite B2. symmetry. exact Hcs.
    - rewrite B3. reflexivity. }
  unfold zlNewReaderDict, zlReset, zlZero in HN. cbn [zl_r zl_dec] in HN.
  pose proof (HRF b 2 B1 ltac:(lia)) as HR.
  destruct (ioReadFull b 2) as [[buf r] b'].
  destruct HR as (R1 & R2 & R3 & R4 & R5 & R6 & R7 & R8 & _).
  fold (four r) in R6.
  destruct r; cbv beta iota zeta in HN;
    try (injection HN as _ HN; subst e;
         split; [exact (four_safe _ R6)|
                 intros He; exfalso; exact (four_not_ok _ R6 ltac:(discriminate) He)]).
  specialize (R7 eq_refl). unfold lenN in R7.
  destruct buf as [|s0 [|s1 [|s2 buf]]]; cbn [length] in R7; try lia.
  assert (Hdata : data = s0 :: s1 :: bstream b').
  { rewrite <- Hcs, <- B2. exact R2. }
  change (nthN [s0; s1] 0) with s0 in HN. change (nthN [s0; s1] 1) with s1 in HN.
  rewrite zl_hdr_test in HN.
  destruct (negb ((s0 mod 16 =? 8) && (s0 / 16 <=? 7) && ((s0 * 256 + s1) mod 31 =? 0))) eqn:Ehdr.
  { injection HN as _ HN. subst e. split; [split; discriminate|intros He; discriminate He]. }
  assert (Hbit' : N.testbit s1 5 = false).
  { rewrite Hdata in Hbit. exact Hbit. }
  rewrite (land32_testbit s1 Hbit') in HN.
  cbn [N.eqb negb gnil zl_set_r zl_r zl_dec zl_digest zl_err] in HN.
  injection HN as HN1 HN2. subst z e.
  split; [split; discriminate|]. intros _.
  split; [|reflexivity].
  exists (newReader_on b'). cbn [zl_r zl_dec].
  assert (Hstrm' : strm_inv data b').
  { apply (strm_step data b b' [s0; s1] Hstrm R1 R2 R3). }
  assert (Hbs' : bsize b' <= BUFMAX) by (rewrite R4; exact Hbs).
  split; [exact Hstrm'|]. split; [exact Hbs'|]. split; [reflexivity|].
  replace (set_rBuf (newReader_on b') b') with (newReader_on b') by reflexivity.
  apply HNR. apply (HSB data TT b' Hstrm' Hbytes Hlen Hbs').
Qed.

(* ---------------------------------------------------------------- one Read *)
Lemma zlRead_safe :
  dRead_rs_statement ->
  forall data z p,
    ZS data z -> zl_err z = GR ROk ->
    let '(z', bytes, e) := zlRead z p in
    gres_safe e /\ (e = GR ROk -> ZS data z' /\ zl_err z' = GR ROk).
Proof.
  intros HDR data z p (d & Hstrm & Hbs & Hdec & Hinv) Herr.
  pose proof ioReadFull_spec as HRF. pose proof dRead_strm as HST.
  unfold zlRead. rewrite Herr. cbn [gnil negb]. unfold zl_decRead. rewrite Hdec.
  pose proof (HDR TT (set_rBuf d (zl_r z)) p Hinv ltac:(unfold TT; lia)) as HR.
  assert (Hstrm0 : strm_inv data (rBuf (set_rBuf d (zl_r z)))) by exact Hstrm.
  pose proof (HST data (set_rBuf d (zl_r z)) p Hstrm0) as HS.
  destruct (dRead (set_rBuf d (zl_r z)) p) as [[d' bytes] r].
  destruct HR as ((N1 & N2) & R2). destruct HS as (S1 & S2 & _).
  cbv beta iota zeta. cbn [zl_r zl_dec zl_digest zl_err].
  destruct (gisEOF (GR r)) eqn:Eeof; cbn [negb].
  2:{ split; [exact (GR_safe r N1 N2)|]. intros He. split; [|exact He].
      exists d'. cbn [zl_r zl_dec]. split; [exact S1|].
      split; [rewrite S2; exact Hbs|]. split; [reflexivity|].
      rewrite set_rBuf_same. exact R2. }
  pose proof (HRF (rBuf d') 4 (proj1 S1) ltac:(lia)) as HF.
  destruct (ioReadFull (rBuf d') 4) as [[buf r2] b3].
  destruct HF as (F1 & F2 & F3 & F4 & F5 & F6 & _).
  fold (four r2) in F6.
  destruct r2; cbv beta iota zeta;
    try (split; [exact (four_safe _ F6)|
                 intros He; exfalso; exact (four_not_ok _ F6 ltac:(discriminate) He)]).
  match goal with |- context [if negb ?c then _ else _] => destruct c end;
    cbn [negb]; cbv beta iota;
    (split; [split; discriminate|intros He; discriminate He]).
Qed.

(* ---------------------------------------------------------------- the Reads *)
Lemma zl_reads_safe :
  dRead_rs_statement ->
  forall data reads z acc,
    ZS data z -> zl_err z = GR ROk ->
    Forall (fun br : list N * gres => gres_safe (snd br)) acc ->
    Forall (fun br : list N * gres => gres_safe (snd br)) (fst (zl_reads_g z reads acc)).
Proof.
  intros HDR data. pose proof zl_sticky as HSK.
  induction reads as [|p rest IH]; intros z acc HZ Herr Hacc.
  - cbn [zl_reads_g fst]. rewrite zfrev_rev. apply Forall_rev. exact Hacc.
  - cbn [zl_reads_g].
    pose proof (zlRead_safe HDR data z p HZ Herr) as HR.
    destruct (zlRead z p) as [[z' bytes] e] eqn:ER.
    destruct HR as (P1 & P2).
    assert (Hacc' : Forall (fun br : list N * gres => gres_safe (snd br)) ((bytes, e) :: acc)).
    { constructor; [exact P1|exact Hacc]. }
    destruct (gnil e) eqn:G.
    + destruct (P2 (gnil_ok e G)) as (Q1 & Q2).
      apply (IH z' ((bytes, e) :: acc) Q1 Q2 Hacc').
    + destruct HSK as (_ & _ & K3).
      pose proof (K3 z p z' bytes e rest ER G) as Hall.
      rewrite zl_reads_acc. apply Forall_app. split.
      * apply Forall_rev. exact Hacc'.
      * eapply Forall_impl; [|exact Hall]. intros br ->. exact P1.
Qed.

(* ---------------------------------------------------------------- the theorem *)
Theorem zl_safe_from :
  dRead_rs_statement -> newReader_on_rs_statement -> sbuf_of_strm_statement -> zl_safe_statement.
Proof.
  intros HDR HNR HSB data cs bufsize t reads Hbytes Hcs Hne Hbuf Hlen Hbit.
  destruct (zlrun bufsize cs t [] reads) as [e0 l] eqn:ERun.
  unfold zlrun in ERun.
  destruct (zlNewReaderDict (mkbufrd bufsize cs t) []) as [z e] eqn:EN.
  destruct (zlNew_safe HNR HSB data cs bufsize t z e Hbytes Hcs Hne Hbuf Hlen Hbit EN) as (S1 & S2).
  destruct (gnil e) eqn:G; cbn [negb] in ERun; injection ERun as <- <-.
  - split; [exact S1|].
    destruct (S2 (gnil_ok e G)) as (HZ & Herr).
    exact (zl_reads_safe HDR data reads z [] HZ Herr (Forall_nil _)).
  - split; [exact S1|constructor].
Qed.

Print Assumptions zl_safe_from.
