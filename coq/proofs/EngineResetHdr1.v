(* EngineResetHdr1.v -- generic two-run ("lockstep") reasoning tools for the Reset-equivalence
   proof, and the parts of the dynamic-header argument that need nothing but Engine.v:
   agreement on a set of positions, rl_loop only sees the code-length table through clc_decode. *)
From Coq Require Import List NArith ZArith Bool Lia ZifyBool ZifyNat ZifyN.
From Verif Require Import Base Engine EngineTables EngineSafetyBase EngineResetDefs.
Import ListNotations.
Open Scope N_scope.

(* ---------------------------------------------------------------- two runs of one loop *)
Lemma iterN_ind2 : forall (S1 S2 : Type) (P : N -> S1 -> S2 -> Prop)
    (f1 : N -> S1 -> S1) (f2 : N -> S2 -> S2) n i s1 s2,
  P i s1 s2 ->
  (forall j x1 x2, i <= j < i + N.of_nat n -> P j x1 x2 -> P (j + 1) (f1 j x1) (f2 j x2)) ->
  P (i + N.of_nat n) (iterN n i f1 s1) (iterN n i f2 s2).
Proof.
  intros S1 S2 P f1 f2 n. induction n as [|k IH]; intros i s1 s2 H0 Hstep.
  - cbn [iterN]. replace (i + N.of_nat 0) with i by lia. exact H0.
  - cbn [iterN]. replace (i + N.of_nat (S k)) with ((i + 1) + N.of_nat k) by lia.
    apply IH.
    + apply Hstep; [lia|exact H0].
    + intros j x1 x2 Hj Hx. apply Hstep; [lia|exact Hx].
Qed.

Lemma forN_ind2 : forall (S1 S2 : Type) (P : N -> S1 -> S2 -> Prop)
    (f1 : N -> S1 -> S1) (f2 : N -> S2 -> S2) lo hi s1 s2,
  lo <= hi ->
  P lo s1 s2 ->
  (forall j x1 x2, lo <= j < hi -> P j x1 x2 -> P (j + 1) (f1 j x1) (f2 j x2)) ->
  P hi (forN lo hi f1 s1) (forN lo hi f2 s2).
Proof.
  intros S1 S2 P f1 f2 lo hi s1 s2 Hle H0 Hstep. unfold forN.
  replace hi with (lo + N.of_nat (N.to_nat (hi - lo))) at 1 by lia.
  apply iterN_ind2; [exact H0|].
  intros j x1 x2 Hj Hx. apply Hstep; [lia|exact Hx].
Qed.

(* without an index *)
Lemma forN_inv2 : forall (S1 S2 : Type) (P : S1 -> S2 -> Prop)
    (f1 : N -> S1 -> S1) (f2 : N -> S2 -> S2) lo hi s1 s2,
  P s1 s2 ->
  (forall j x1 x2, lo <= j < hi -> P x1 x2 -> P (f1 j x1) (f2 j x2)) ->
  P (forN lo hi f1 s1) (forN lo hi f2 s2).
Proof.
  intros S1 S2 P f1 f2 lo hi s1 s2 H0 Hstep.
  destruct (N.le_gt_cases lo hi) as [Hle|Hgt].
  - apply (forN_ind2 S1 S2 (fun _ x1 x2 => P x1 x2)); auto.
  - unfold forN. replace (hi - lo) with 0 by lia. cbn. exact H0.
Qed.

Lemma fold_left_inv2 : forall (A S1 S2 : Type) (P : S1 -> S2 -> Prop)
    (f1 : S1 -> A -> S1) (f2 : S2 -> A -> S2) l s1 s2,
  P s1 s2 ->
  (forall a x1 x2, In a l -> P x1 x2 -> P (f1 x1 a) (f2 x2 a)) ->
  P (fold_left f1 l s1) (fold_left f2 l s2).
Proof.
  intros A S1 S2 P f1 f2 l. induction l as [|a r IH]; intros s1 s2 H0 Hstep.
  - exact H0.
  - cbn [fold_left]. apply IH.
    + apply Hstep; [left; reflexivity|exact H0].
    + intros b x1 x2 Hb Hx. apply Hstep; [right; exact Hb|exact Hx].
Qed.

(* ---------------------------------------------------------------- agreement on a set *)
Definition agree_on (W : N -> Prop) (a b : arr) : Prop := forall k, W k -> aget a k = aget b k.

Lemma agree_on_sub : forall (W W' : N -> Prop) a b,
  agree_on W a b -> (forall k, W' k -> W k) -> agree_on W' a b.
Proof. intros W W' a b H Hs k Hk. apply H, Hs, Hk. Qed.

Lemma agree_on_aset : forall (W : N -> Prop) a b i v,
  agree_on W a b -> agree_on (fun k => W k \/ k = i) (aset a i v) (aset b i v).
Proof.
  intros W a b i v H k Hk. rewrite !aget_aset. destruct (N.eqb_spec k i) as [_|Hne]; [reflexivity|].
  destruct Hk as [Hk|Hk]; [apply H, Hk|contradiction].
Qed.

Lemma agree_on_aset_same : forall (W : N -> Prop) a b i v,
  agree_on W a b -> agree_on W (aset a i v) (aset b i v).
Proof.
  intros W a b i v H k Hk. rewrite !aget_aset. destruct (k =? i); [reflexivity|apply H, Hk].
Qed.

Lemma agree_on_lt : forall n a b, agree_on (fun k => k < n) a b <-> agree n a b.
Proof. intros n a b. split; intros H k Hk; apply H, Hk. Qed.

(* ---------------------------------------------------------------- rl_loop and the code-length table *)
Lemma rl_loop_clc : forall fuel S1 L1 S2 L2 split endv st,
  clc_eq S1 L1 S2 L2 ->
  rl_loop fuel S1 L1 split endv st = rl_loop fuel S2 L2 split endv st.
Proof.
  induction fuel as [|f IH]; intros S1 L1 S2 L2 split endv st Heq; [reflexivity|].
  cbn [rl_loop].
  destruct (rl_curr st <? endv)%Z; [|reflexivity].
  destruct (load_le15 (rl_b st)) as [b|]; [|reflexivity].
  rewrite (Heq b).
  destruct (clc_decode S2 L2 b) as [[symbol b']|]; [|reflexivity].
  destruct (r_len b' <? 0)%Z; [reflexivity|].
  destruct (symbol <? 16).
  { destruct (rl_put (rl_set_b st b') split endv (hc_set 0 symbol)) as [st'|]; [|reflexivity].
    apply IH, Heq. }
  destruct (symbol =? 16).
  { destruct (load_raw b') as [b2|]; [|reflexivity].
    destruct (next_bits b2 2) as [ret b3].
    match goal with |- (if ?c then _ else _) = _ => destruct c; [reflexivity|] end.
    match goal with |- context [rl_rep ?a ?b ?c ?d ?e] => destruct (rl_rep a b c d e) as [st'|]; [|reflexivity] end.
    apply IH, Heq. }
  destruct ((symbol =? 17) || (symbol =? 18)); [|reflexivity].
  destruct (load_raw b') as [b2|]; [|reflexivity].
  destruct (if symbol =? 17 then next_bits b2 3 else next_bits b2 7) as [ret b3].
  match goal with |- context [if negb ?x && ?y then _ else _] => destruct (negb x && y) end;
    apply IH, Heq.
Qed.

(* ---------------------------------------------------------------- calcCodeForLit / expandLenCodes,
   two runs over different codeList / nextCode / lenHuffCodes scratch *)
(* the slots of codeList written since the start: [exI L, ex L) for every length L *)
Definition cl_written (exI ex : arr) (k : N) : Prop := exists L, aget exI L <= k < aget ex L.

Lemma u16_le : forall x, u16 x <= x.
Proof. intros x. unfold u16. apply land_le_l. Qed.

Definition calc_P (exI huff : arr) (j : N) (st1 st2 : arr * arr * arr * arr * bool) : Prop :=
  let '(h1, c1, e1, n1, p1) := st1 in
  let '(h2, c2, e2, n2, p2) := st2 in
  h1 = h2 /\ e1 = e2 /\ p1 = p2 /\ agree 16 n1 n2 /\ agree_on (cl_written exI e1) c1 c2 /\
  (forall i, j <= i -> aget h1 i = aget huff i).

Lemma cl_written_step : forall exI ex L ins k,
  ins = aget ex L ->
  cl_written exI (aset ex L (u16 (ins + 1))) k -> cl_written exI ex k \/ k = ins.
Proof.
  intros exI ex L ins k Hins [L' HL']. rewrite aget_aset in HL'.
  destruct (N.eq_dec L' L) as [HLL|Hne].
  - subst L'. rewrite N.eqb_refl in HL'. pose proof (u16_le (ins + 1)) as Hu.
    destruct (N.eq_dec k ins) as [->|Hk]; [right; reflexivity|].
    left. exists L. lia.
  - replace (L' =? L) with false in HL' by lia. left. exists L'. exact HL'.
Qed.

Lemma calc_sim : forall exI huff cl1 cl2 ex nc1 nc2,
  (forall i, i < 257 -> hc_len (aget huff i) <= 15) -> agree 16 nc1 nc2 ->
  agree_on (cl_written exI ex) cl1 cl2 ->
  calc_P exI huff 257 (calcCodeForLit huff cl1 ex nc1) (calcCodeForLit huff cl2 ex nc2).
Proof.
  intros exI huff cl1 cl2 ex nc1 nc2 H15 Hnc Hcl. unfold calcCodeForLit, litSymbolsSize.
  apply (forN_ind2 _ _ (calc_P exI huff)).
  - lia.
  - unfold calc_P. repeat split; try reflexivity; assumption.
  - intros j [[[[h1 c1] e1] n1] p1] [[[[h2 c2] e2] n2] p2] Hj HP.
    unfold calc_P in HP. destruct HP as (Hh & He & Hp & Hn & Hc & Hfr). subst h2 e2 p2.
    cbv beta iota zeta.
    rewrite (Hfr j) by lia.
    pose proof (H15 j (proj2 Hj)) as Hl.
    set (len := hc_len (aget huff j)) in *.
    destruct (len =? 0) eqn:E0.
    { unfold calc_P. repeat split; try reflexivity; try assumption. intros i Hi. apply Hfr. lia. }
    rewrite <- (Hn len) by lia.
    destruct (516 <=? aget e1 len) eqn:E516.
    { unfold calc_P. repeat split; try reflexivity; try assumption. intros i Hi. apply Hfr. lia. }
    unfold calc_P. split; [reflexivity|]. split; [reflexivity|]. split; [reflexivity|].
    split; [apply agree_aset; exact Hn|]. split.
    + intros k Hk. apply cl_written_step in Hk; [|reflexivity].
      rewrite !aget_aset. destruct (N.eqb_spec k (aget e1 len)) as [_|Hne]; [reflexivity|].
      destruct Hk as [Hk|Hk]; [apply Hc, Hk|contradiction].
    + intros i Hi. rewrite aget_aset_other by lia. apply Hfr. lia.
Qed.

Lemma cl_written_stepn : forall exI ex L ins n k,
  ins = aget ex L ->
  cl_written exI (aset ex L (u16 (ins + n))) k -> cl_written exI ex k \/ ins <= k < ins + n.
Proof.
  intros exI ex L ins n k Hins [L' HL']. rewrite aget_aset in HL'.
  destruct (N.eq_dec L' L) as [HLL|Hne].
  - subst L'. rewrite N.eqb_refl in HL'. pose proof (u16_le (ins + n)) as Hu.
    destruct (N.lt_ge_cases k ins) as [Hlt|Hge]; [|right; lia].
    left. exists L. lia.
  - replace (L' =? L) with false in HL' by lia. left. exists L'. exact HL'.
Qed.

Definition expand_P (exI : arr) (st1 st2 : arr * arr * arr * arr * N * bool) : Prop :=
  let '(h1, c1, e1, n1, x1, p1) := st1 in
  let '(h2, c2, e2, n2, x2, p2) := st2 in
  h1 = h2 /\ e1 = e2 /\ x1 = x2 /\ p1 = p2 /\ agree 16 n1 n2 /\
  (p1 = false -> agree_on (cl_written exI e1) c1 c2).

Definition expand_Q (exI : arr) (st1 st2 : arr * arr * arr * arr * bool) : Prop :=
  let '(h1, c1, e1, n1, p1) := st1 in
  let '(h2, c2, e2, n2, p2) := st2 in
  h1 = h2 /\ e1 = e2 /\ p1 = p2 /\ (p1 = false -> agree_on (cl_written exI e1) c1 c2).

Lemma expand_inner_sim : forall (W : N -> Prop) (v : N -> N) ins xi n
    (F : N -> arr * arr * bool -> arr * arr * bool),
  (forall extra a, F extra a =
         let '(huff, cl, pan) := a in
         if (516 <=? ins + extra) || (514 <=? xi + extra) then (huff, cl, true)
         else (aset huff (xi + extra) (v extra), aset cl (ins + extra) (xi + extra), pan)) ->
  forall huff cl1 cl2 pan,
  (pan = false -> agree_on W cl1 cl2) ->
  exists h' c1' c2' p',
    forN 0 n F (huff, cl1, pan) = (h', c1', p') /\ forN 0 n F (huff, cl2, pan) = (h', c2', p') /\
    (p' = false -> agree_on (fun k => W k \/ ins <= k < ins + n) c1' c2').
Proof.
  intros W v ins xi n F HF huff cl1 cl2 pan Hcl.
  pose (P := fun x (st1 st2 : arr * arr * bool) =>
            let '(h1, c1, p1) := st1 in let '(h2, c2, p2) := st2 in
            h1 = h2 /\ p1 = p2 /\ (p1 = false -> agree_on (fun k => W k \/ ins <= k < ins + x) c1 c2)).
  assert (HI : P n (forN 0 n F (huff, cl1, pan)) (forN 0 n F (huff, cl2, pan))).
  { apply (forN_ind2 _ _ P).
    - lia.
    - split; [reflexivity|]. split; [reflexivity|]. intros Hp.
      apply (agree_on_sub W); [apply Hcl, Hp|]. intros k [Hk|Hk]; [exact Hk|lia].
    - intros x [[h1 c1] p1] [[h2 c2] p2] Hx (Hh & Hp & Hc). subst h2 p2. rewrite !HF.
      destruct ((516 <=? ins + x) || (514 <=? xi + x)).
      + split; [reflexivity|]. split; [reflexivity|]. intros Hc'. discriminate Hc'.
      + split; [reflexivity|]. split; [reflexivity|]. intros Hp.
        intros k Hk. rewrite !aget_aset. destruct (N.eqb_spec k (ins + x)) as [_|Hne]; [reflexivity|].
        apply (Hc Hp). destruct Hk as [Hk|Hk]; [left; exact Hk|right; lia]. }
  unfold P in HI.
  destruct (forN 0 n F (huff, cl1, pan)) as [[h1 c1] p1].
  destruct (forN 0 n F (huff, cl2, pan)) as [[h2 c2] p2].
  destruct HI as (Hh & Hp & Hc). subst h2 p2.
  exists h1, c1, c2, p1. split; [reflexivity|]. split; [reflexivity|exact Hc].
Qed.

Lemma expand_sim : forall exI huff cl1 cl2 ex nc1 nc2 lh1 lh2,
  agree 29 lh1 lh2 -> (forall i, i < 29 -> hc_len (aget lh1 i) <= 15) -> agree 16 nc1 nc2 ->
  agree_on (cl_written exI ex) cl1 cl2 ->
  expand_Q exI (expandLenCodes huff cl1 ex nc1 lh1) (expandLenCodes huff cl2 ex nc2 lh2).
Proof.
  intros exI huff cl1 cl2 ex nc1 nc2 lh1 lh2 Hlh H15 Hnc Hcl. unfold expandLenCodes.
  match goal with |- context [forN 0 29 ?f1 (huff, cl1, ex, nc1, litSymbolsSize, false)] =>
    set (F1 := f1) end.
  match goal with |- context [forN 0 29 ?f2 (huff, cl2, ex, nc2, litSymbolsSize, false)] =>
    set (F2 := f2) end.
  assert (HI : expand_P exI (forN 0 29 F1 (huff, cl1, ex, nc1, litSymbolsSize, false))
                            (forN 0 29 F2 (huff, cl2, ex, nc2, litSymbolsSize, false)));
    [|destruct (forN 0 29 F1 (huff, cl1, ex, nc1, litSymbolsSize, false)) as [[[[[h1 c1] e1] n1] x1] p1];
      destruct (forN 0 29 F2 (huff, cl2, ex, nc2, litSymbolsSize, false)) as [[[[[h2 c2] e2] n2] x2] p2]].
  - apply (forN_ind2 _ _ (fun _ => expand_P exI)).
    + lia.
    + unfold expand_P. repeat split; try reflexivity; try assumption. intros _. exact Hcl.
    + intros n [[[[[h1 c1] e1] n1] x1] p1] [[[[[h2 c2] e2] n2] x2] p2] Hn HP.
      unfold expand_P in HP. destruct HP as (Hh & He & Hx & Hp & Hnn & Hc). subst h2 e2 x2 p2.
      unfold F1, F2. cbv beta iota zeta.
      rewrite <- (Hlh n) by lia.
      pose proof (H15 n (proj2 Hn)) as Hl.
      set (len := hc_len (aget lh1 n)) in *.
      set (extra := aget rfc_len_extra n).
      destruct (len =? 0) eqn:E0.
      { unfold expand_P. repeat split; try reflexivity; assumption. }
      rewrite <- (Hnn len) by lia.
      set (code := bitReverse2 (u16 (aget n1 len)) len).
      set (ins := aget e1 (len + extra)).
      set (sz := N.shiftl 1 extra).
      match goal with |- context [forN 0 sz ?f (h1, c1, p1)] =>
        destruct (expand_inner_sim (cl_written exI e1)
                    (fun x => hc_set (N.lor code (shl32 x len)) (len + extra))
                    ins x1 sz f (fun _ _ => eq_refl) h1 c1 c2 p1 Hc)
          as (h' & c1' & c2' & p' & E1 & E2 & Hc')
      end.
      rewrite E1, E2.
      unfold expand_P. split; [reflexivity|]. split; [reflexivity|]. split; [reflexivity|].
      split; [reflexivity|]. split; [apply agree_aset; exact Hnn|].
      intros Hp. apply (agree_on_sub _ _ _ _ (Hc' Hp)).
      intros k Hk. apply (cl_written_stepn exI e1 (len + extra) ins sz k eq_refl Hk).
  - unfold expand_P in HI. destruct HI as (Hh & He & Hx & Hp & Hnn & Hc).
    unfold expand_Q. repeat split; assumption.
Qed.
