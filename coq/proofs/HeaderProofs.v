(* HeaderProofs.v — the dynamic block header written by write_header is parsed back by the
   reference inflater's dyn_header (CodecSpec.header_statement). *)
From Verif Require Import CodecSpec HuffmanProofs.
From Coq Require Import ZArith Lia ZifyBool ZifyNat ZifyN.
Open Scope N_scope.
Ltac Zify.zify_post_hook ::= Z.div_mod_to_equations.

(* ------------------------------------------------------------------ *)
(* 1. bits and the bit buffer                                           *)

Lemma hp_bits_of_N_of_bits : forall l, bits_of_N (length l) (N_of_bits l) = l.
Proof.
  induction l as [|b r IH]; [reflexivity|].
  cbn [length bits_of_N N_of_bits].
  f_equal.
  - rewrite N.odd_add_mul_2. destruct b; reflexivity.
  - replace (N.div2 ((if b then 1 else 0) + 2 * N_of_bits r)) with (N_of_bits r).
    + exact IH.
    + rewrite N.div2_div. destruct b; lia.
Qed.

Lemma hp_push_bytes_S : forall f l out, l <> [] ->
  push_bytes (S f) l out = push_bytes f (skipn 8 l) (N_of_bits (firstn 8 l) :: out).
Proof. intros f l out H. destruct l; [congruence | reflexivity]. Qed.

Lemma hp_bits_of_bytes_app : forall a b, bits_of_bytes (a ++ b) = bits_of_bytes a ++ bits_of_bytes b.
Proof. intros a b. unfold bits_of_bytes. apply flat_map_app. Qed.

Lemma hp_push_bytes_bits : forall f l out, length l = (8 * f)%nat ->
  bits_of_bytes (rev (push_bytes f l out)) = bits_of_bytes (rev out) ++ l.
Proof.
  induction f as [|f IH]; intros l out Hl.
  - destruct l; [|cbn [length] in Hl; lia]. cbn [push_bytes]. rewrite app_nil_r. reflexivity.
  - assert (Hne : l <> []) by (intros ->; cbn [length] in Hl; lia).
    rewrite hp_push_bytes_S by exact Hne.
    rewrite IH by (rewrite skipn_length; lia).
    cbn [rev]. rewrite hp_bits_of_bytes_app.
    unfold bits_of_bytes at 2. cbn [flat_map]. rewrite app_nil_r.
    assert (H8 : length (firstn 8 l) = 8%nat) by (rewrite firstn_length; lia).
    pose proof (hp_bits_of_N_of_bits (firstn 8 l)) as HB. rewrite H8 in HB. rewrite HB.
    rewrite <- app_assoc. rewrite firstn_skipn. reflexivity.
Qed.

Lemma hp_write_bits_bits : forall b l, bb_bits (write_bits b l) = bb_bits b ++ l.
Proof.
  intros b l. unfold write_bits, bb_bits.
  destruct (64 <? length (bb_acc b ++ l))%nat eqn:E; cbn [bb_out bb_acc].
  - rewrite hp_push_bytes_bits by (rewrite firstn_length; lia).
    rewrite <- !app_assoc. rewrite firstn_skipn. reflexivity.
  - rewrite app_assoc. reflexivity.
Qed.

Lemma hp_write_num_bits : forall b c n, bb_bits (write_num b c n) = bb_bits b ++ bits_of_N (N.to_nat n) c.
Proof. intros. unfold write_num. apply hp_write_bits_bits. Qed.

Lemma hp_fold_bits : forall A (F : bitbuf -> A -> bitbuf) (g : A -> list bool),
  (forall bb x, bb_bits (F bb x) = bb_bits bb ++ g x) ->
  forall l b, bb_bits (fold_left F l b) = bb_bits b ++ flat_map g l.
Proof.
  intros A F g H. induction l as [|x r IH]; intros b.
  - cbn [fold_left flat_map]. rewrite app_nil_r. reflexivity.
  - cbn [fold_left flat_map]. rewrite IH, H, app_assoc. reflexivity.
Qed.

(* ------------------------------------------------------------------ *)
(* 2. the bits of the header as a concatenation                         *)

Definition item_bits (clcodes : list (N * N)) (it : N * N) : list bool :=
  code_word (nth (N.to_nat (fst it)) clcodes (0, 0)) ++
  (if 16 <=? fst it then bits_of_N (N.to_nat (cl_extra_bits (fst it))) (snd it) else []).

Definition h_litnum (ll : list N) : N := used_count ll.
Definition h_distnum (dl : list N) : N := if used_count dl =? 0 then 1 else used_count dl.
Definition h_cllens (ll dl : list N) : list N := generate 7 (cl_hist ll dl).
Definition h_tz (cllens : list N) : list N :=
  fold_left (fun acc s => if nthN cllens s =? 0 then s :: acc else []) hclen_order [].
Definition h_codesize (ll dl : list N) : N :=
  let cs := 19 - lenN (h_tz (h_cllens ll dl)) in if cs <? 4 then 4 else cs.

Definition header_body (ll dl : list N) : list bool :=
  bits_of_N 5 (h_litnum ll - 257) ++ bits_of_N 5 (h_distnum dl - 1) ++
  bits_of_N 4 (h_codesize ll dl - 4) ++
  flat_map (fun s => bits_of_N 3 (nthN (h_cllens ll dl) s))
           (firstn (N.to_nat (h_codesize ll dl)) hclen_order) ++
  flat_map (item_bits (gen_codes (h_cllens ll dl))) (cl_data ll dl).

Lemma hp_cl_data_eq : forall ll dl,
  cl_data ll dl = alphabet (trim ll) ++ alphabet (dist_lens_sent dl).
Proof.
  intros. unfold cl_data, trim, dist_lens_sent. reflexivity.
Qed.

Lemma hp_header_bits : forall ll dl final,
  header_bits ll dl final = [final; false; true] ++ header_body ll dl.
Proof.
  intros ll dl final. unfold header_bits, write_header. cbv zeta.
  replace (if used_count dl =? 0 then [1]
           else firstn (N.to_nat (if used_count dl =? 0 then 1 else used_count dl)) dl)
    with (if used_count dl =? 0 then [1] else firstn (N.to_nat (used_count dl)) dl)
    by (destruct (used_count dl =? 0); reflexivity).
  change (fold_left (fun (h : list N) (it : N * N) => incN h (fst it) 1)
            (alphabet (firstn (N.to_nat (used_count ll)) ll) ++
             alphabet (if used_count dl =? 0 then [1] else firstn (N.to_nat (used_count dl)) dl))
            (repeat 0 19)) with (cl_hist ll dl).
  change (generate 7 (cl_hist ll dl)) with (h_cllens ll dl).
  rewrite (hp_fold_bits _ _ (item_bits (gen_codes (h_cllens ll dl)))).
  2:{ intros bb it. unfold item_bits.
      destruct (16 <=? fst it) eqn:E.
      - rewrite hp_write_num_bits, hp_write_bits_bits, app_assoc. reflexivity.
      - rewrite hp_write_bits_bits, app_nil_r. reflexivity. }
  rewrite (hp_fold_bits _ _ (fun s => bits_of_N 3 (nthN (h_cllens ll dl) s))).
  2:{ intros bb s. rewrite hp_write_num_bits. reflexivity. }
  rewrite !hp_write_num_bits.
  unfold header_body. cbn [bb_bits bb_empty bb_out bb_acc rev bits_of_bytes flat_map app].
  rewrite <- !app_assoc.
  replace (bits_of_N (N.to_nat 3) (if final then 5 else 4)) with [final; false; true]
    by (destruct final; reflexivity).
  reflexivity.
Qed.

(* ------------------------------------------------------------------ *)
(* 3. take / read_clens on written numbers                              *)

Lemma hp_take_bits : forall l rest p,
  take (length l) (mkbs (l ++ rest) p) = Some (N_of_bits l, mkbs rest (p + N.of_nat (length l))).
Proof.
  induction l as [|b r IH]; intros rest p.
  - cbn [length take app N_of_bits]. rewrite N.add_0_r. reflexivity.
  - cbn [length take app N_of_bits]. unfold take1. cbn [bl bp].
    rewrite IH. do 3 f_equal. lia.
Qed.

Lemma hp_take_num : forall n v rest p, v < 2 ^ N.of_nat n ->
  take n (mkbs (bits_of_N n v ++ rest) p) = Some (v, mkbs rest (p + N.of_nat n)).
Proof.
  intros n v rest p Hv.
  pose proof (hp_take_bits (bits_of_N n v) rest p) as H.
  rewrite bits_of_N_length in H. rewrite H. rewrite N_of_bits_of_N by exact Hv. reflexivity.
Qed.

Lemma hp_read_clens : forall vs rest p, Forall (fun v => v < 8) vs ->
  read_clens (length vs) (mkbs (flat_map (bits_of_N 3) vs ++ rest) p)
  = HOk (map N.to_nat vs) (mkbs rest (p + 3 * N.of_nat (length vs))).
Proof.
  induction vs as [|v r IH]; intros rest p HF.
  - cbn [length read_clens flat_map app map]. do 2 f_equal. lia.
  - inversion HF as [|v' r' Hv Hr]; subst.
    cbn [length read_clens flat_map map]. rewrite <- app_assoc.
    rewrite hp_take_num by (change (2 ^ N.of_nat 3) with 8; exact Hv).
    rewrite IH by exact Hr. do 2 f_equal. lia.
Qed.

(* ------------------------------------------------------------------ *)
(* 4. scatter                                                           *)

Lemma hp_scatter_length : forall order vals acc, length (scatter order vals acc) = length acc.
Proof.
  induction order as [|o order IH]; intros vals acc; [reflexivity|].
  destruct vals as [|v vals]; [reflexivity|].
  cbn [scatter]. rewrite IH, upd_length. reflexivity.
Qed.

Lemma hp_firstn_In : forall A n (l : list A) x, In x (firstn n l) -> In x l.
Proof.
  intros A n l x H. rewrite <- (firstn_skipn n l). apply in_or_app. left. exact H.
Qed.

Lemma hp_firstn_min : forall A n (l : list A), firstn (Nat.min n (length l)) l = firstn n l.
Proof.
  intros A n l. destruct (le_lt_dec n (length l)) as [H|H].
  - replace (Nat.min n (length l)) with n by lia. reflexivity.
  - replace (Nat.min n (length l)) with (length l) by lia.
    rewrite firstn_all, firstn_all2 by lia. reflexivity.
Qed.

Lemma hp_scatter_other : forall order vals acc j d,
  ~ In j (firstn (length vals) order) -> nth j (scatter order vals acc) d = nth j acc d.
Proof.
  induction order as [|o order IH]; intros vals acc j d Hj; [reflexivity|].
  destruct vals as [|v vals]; [reflexivity|].
  cbn [scatter]. cbn [length firstn In] in Hj.
  rewrite IH by tauto. apply nth_upd_other. tauto.
Qed.

Lemma hp_scatter_same : forall order vals acc i d, NoDup order ->
  (i < length vals)%nat -> (i < length order)%nat -> (nth i order 0 < length acc)%nat ->
  nth (nth i order 0%nat) (scatter order vals acc) d = nth i vals d.
Proof.
  induction order as [|o order IH]; intros vals acc i d Hnd Hv Ho Ha.
  - cbn [length] in Ho. lia.
  - destruct vals as [|v vals]; [cbn [length] in Hv; lia|].
    inversion Hnd as [|o' order' Hnin Hnd']; subst.
    cbn [scatter]. destruct i as [|i].
    + cbn [nth] in *. rewrite hp_scatter_other.
      * apply nth_upd_same. exact Ha.
      * intros HIn. apply Hnin. eapply hp_firstn_In. exact HIn.
    + cbn [nth length] in *. apply IH; try assumption; try lia.
      rewrite upd_length. exact Ha.
Qed.

Lemma hp_scatter_firstn : forall (order : list nat) (L : list nat) cs, NoDup order ->
  (forall j, (j < length L)%nat -> In j order) ->
  (forall s, In s order -> (s < length L)%nat) ->
  (forall s, In s (skipn cs order) -> nth s L 0%nat = 0%nat) ->
  scatter order (map (fun s => nth s L 0%nat) (firstn cs order)) (repeat 0%nat (length L)) = L.
Proof.
  intros order L cs Hnd Hall Hlt Hz.
  apply (nth_ext _ _ 0%nat 0%nat).
  - rewrite hp_scatter_length, repeat_length. reflexivity.
  - intros j Hj. rewrite hp_scatter_length, repeat_length in Hj.
    destruct (In_nth _ _ 0%nat (Hall j Hj)) as [i [Hi Hij]].
    destruct (Nat.ltb i cs) eqn:E.
    + apply Nat.ltb_lt in E. rewrite <- Hij.
      rewrite hp_scatter_same; try assumption.
      * rewrite (nth_indep _ 0%nat (nth 0%nat L 0%nat)) by (rewrite map_length, firstn_length; lia).
        rewrite (map_nth (fun s => nth s L 0%nat)).
        rewrite <- (firstn_skipn cs order) at 2.
        rewrite app_nth1 by (rewrite firstn_length; lia). reflexivity.
      * rewrite map_length, firstn_length. lia.
      * rewrite repeat_length. apply Hlt. apply nth_In. exact Hi.
    + apply Nat.ltb_ge in E.
      assert (Hsk : In j (skipn cs order)).
      { rewrite <- Hij. rewrite <- (firstn_skipn cs order) at 1.
        rewrite app_nth2 by (rewrite firstn_length; lia).
        apply nth_In. rewrite firstn_length, skipn_length. lia. }
      rewrite (Hz j Hsk).
      rewrite hp_scatter_other.
      * apply nth_repeat.
      * rewrite map_length, firstn_length, hp_firstn_min.
        intros HIn'.
        rewrite <- (firstn_skipn cs order) in Hnd.
        revert Hnd HIn' Hsk. generalize (firstn cs order) (skipn cs order).
        intros a b Hnd Ha Hb.
        induction a as [|x a IHa]; [destruct Ha|].
        cbn [app] in Hnd. inversion Hnd as [|x' l' Hx Hnd']; subst.
        destruct Ha as [-> | Ha].
        -- apply Hx. apply in_or_app. right. exact Hb.
        -- apply IHa; assumption.
Qed.

(* ------------------------------------------------------------------ *)
(* 5. the "trailing run" fold of used_count and of the code size        *)

Definition tzf {A} (f : A -> bool) (l : list A) : list A :=
  fold_left (fun acc x => if f x then x :: acc else []) l [].

Lemma hp_tzf_snoc : forall A (f : A -> bool) l x,
  tzf f (l ++ [x]) = if f x then x :: tzf f l else [].
Proof. intros. unfold tzf. rewrite fold_left_app. reflexivity. Qed.

Lemma hp_skipn_In : forall A n (l : list A) x, In x (skipn n l) -> In x l.
Proof.
  intros A n l x H. rewrite <- (firstn_skipn n l). apply in_or_app. right. exact H.
Qed.

Lemma hp_skipn_add : forall A k a (l : list A), skipn (a + k) l = skipn a (skipn k l).
Proof.
  intros A. induction k as [|k IH]; intros a l.
  - rewrite Nat.add_0_r. reflexivity.
  - rewrite Nat.add_succ_r. destruct l as [|x r].
    + rewrite !skipn_nil. reflexivity.
    + cbn [skipn]. apply IH.
Qed.

Lemma hp_tzf_spec : forall A (f : A -> bool) l,
  (length (tzf f l) <= length l)%nat /\
  forall x, In x (skipn (length l - length (tzf f l)) l) -> f x = true.
Proof.
  intros A f. induction l as [|x l IH] using rev_ind.
  - split; [cbn; lia|]. intros x H. destruct H.
  - destruct IH as [IH1 IH2]. rewrite hp_tzf_snoc. rewrite app_length. cbn [length].
    destruct (f x) eqn:E.
    + cbn [length]. split; [lia|]. intros y Hy.
      replace (length l + 1 - S (length (tzf f l)))%nat with (length l - length (tzf f l))%nat in Hy by lia.
      rewrite skipn_app in Hy.
      replace (length l - length (tzf f l) - length l)%nat with 0%nat in Hy by lia.
      cbn [skipn] in Hy. apply in_app_or in Hy. destruct Hy as [Hy|Hy].
      * apply IH2. exact Hy.
      * destruct Hy as [<-|[]]. exact E.
    + cbn [length]. split; [lia|]. intros y Hy.
      rewrite skipn_all2 in Hy by (rewrite app_length; cbn [length]; lia). destruct Hy.
Qed.

Lemma hp_used_count_eq : forall l,
  used_count l = lenN l - lenN (tzf (fun x => x =? 0) l).
Proof. reflexivity. Qed.

Lemma hp_used_count_le : forall l, (N.to_nat (used_count l) <= length l)%nat.
Proof. intros l. rewrite hp_used_count_eq. unfold lenN. lia. Qed.

Lemma hp_used_count_nz : forall l i, nthN l i <> 0 -> i < used_count l.
Proof.
  intros l i Hi. rewrite hp_used_count_eq.
  destruct (hp_tzf_spec _ (fun x => x =? 0) l) as [H1 H2].
  unfold lenN.
  destruct (N.ltb i (N.of_nat (length l) - N.of_nat (length (tzf (fun x => x =? 0) l)))) eqn:E.
  - apply N.ltb_lt in E. exact E.
  - apply N.ltb_ge in E. exfalso. apply Hi. unfold nthN.
    destruct (le_lt_dec (length l) (N.to_nat i)) as [Hl|Hl].
    + apply nth_overflow. exact Hl.
    + apply N.eqb_eq. apply H2.
      set (k := (length l - length (tzf (fun x => (x =? 0)%N) l))%nat).
      rewrite <- (firstn_skipn k l) at 1.
      rewrite app_nth2 by (rewrite firstn_length; lia).
      apply nth_In. rewrite firstn_length, skipn_length. lia.
Qed.

Lemma hp_codesize_bounds : forall ll dl, 4 <= h_codesize ll dl <= 19.
Proof.
  intros. unfold h_codesize. cbv zeta.
  destruct (19 - lenN (h_tz (h_cllens ll dl)) <? 4) eqn:E; lia.
Qed.

Lemma hp_codesize_zero : forall ll dl s,
  In s (skipn (N.to_nat (h_codesize ll dl)) hclen_order) -> nthN (h_cllens ll dl) s = 0.
Proof.
  intros ll dl s Hs.
  destruct (hp_tzf_spec _ (fun s => nthN (h_cllens ll dl) s =? 0) hclen_order) as [H1 H2].
  apply N.eqb_eq. apply (H2 s).
  change (tzf (fun s0 : N => nthN (h_cllens ll dl) s0 =? 0) hclen_order) with (h_tz (h_cllens ll dl)) in *.
  change (length hclen_order) with 19%nat in *.
  set (k := (19 - length (h_tz (h_cllens ll dl)))%nat).
  assert (Hk : (k <= N.to_nat (h_codesize ll dl))%nat).
  { unfold h_codesize, lenN. cbv zeta. fold k.
    destruct (19 - N.of_nat (length (h_tz (h_cllens ll dl))) <? 4) eqn:E; lia. }
  replace (N.to_nat (h_codesize ll dl)) with ((N.to_nat (h_codesize ll dl) - k) + k)%nat in Hs by lia.
  rewrite hp_skipn_add in Hs. eapply hp_skipn_In. exact Hs.
Qed.

(* ------------------------------------------------------------------ *)
(* 6. gen_codes (writer) versus canon (specification)                   *)

Lemma hp_assign_all_assign : forall l nc sym i, nth i l 0 <> 0 ->
  fst (nth i (assign_all l nc) (0, 0)) = nth i l 0 /\
  In ((sym + i)%nat, N.to_nat (nth i l 0), snd (nth i (assign_all l nc) (0, 0)))
     (assign (map N.to_nat l) sym nc).
Proof.
  induction l as [|x r IH]; intros nc sym i Hi.
  - destruct i; cbn [nth] in Hi; congruence.
  - cbn [assign_all map assign].
    destruct (x =? 0) eqn:E.
    + apply N.eqb_eq in E. subst x. cbn [N.to_nat Nat.eqb].
      destruct i as [|i]; [cbn [nth] in Hi; congruence|].
      cbn [nth] in Hi |- *.
      replace (sym + S i)%nat with (S sym + i)%nat by lia. apply IH. exact Hi.
    + apply N.eqb_neq in E.
      assert (E' : Nat.eqb (N.to_nat x) 0 = false) by (apply Nat.eqb_neq; lia).
      rewrite E'. cbv zeta.
      destruct i as [|i].
      * cbn [nth fst snd]. split; [reflexivity|]. left.
        replace (sym + 0)%nat with sym by lia. reflexivity.
      * cbn [nth] in Hi |- *.
        replace (sym + S i)%nat with (S sym + i)%nat by lia.
        destruct (IH (updN nc x (nthN nc x + 1)) (S sym) i Hi) as [H1 H2].
        split; [exact H1|]. right. exact H2.
Qed.

Lemma hp_code_decodes : forall lens maxl ct s rest p,
  mktrie maxl (map N.to_nat lens) = Some ct -> nthN lens s <> 0 ->
  decode_sym ct (mkbs (code_word (nth (N.to_nat s) (gen_codes lens) (0, 0)) ++ rest) p)
  = DOk (N.to_nat s)
        (mkbs rest (p + N.of_nat (length (code_word (nth (N.to_nat s) (gen_codes lens) (0, 0)))))).
Proof.
  intros lens maxl ct s rest p Hmk Hs.
  unfold nthN in Hs.
  destruct (hp_assign_all_assign lens (map (first_code (map N.to_nat lens)) (seq 0 17)) 0%nat
              (N.to_nat s) Hs) as [H1 H2].
  change (assign_all lens (map (first_code (map N.to_nat lens)) (seq 0 17))) with (gen_codes lens) in *.
  change (assign (map N.to_nat lens) 0 (map (first_code (map N.to_nat lens)) (seq 0 17)))
    with (canon (map N.to_nat lens)) in H2.
  destruct (nth (N.to_nat s) (gen_codes lens) (0, 0)) as [len c] eqn:En.
  cbn [fst snd] in *. unfold code_word. cbn [fst snd].
  cbn [Nat.add] in H2. rewrite <- H1 in H2.
  rewrite (decode_encode maxl _ ct _ _ _ rest p Hmk H2).
  rewrite code_bits_length. reflexivity.
Qed.

(* ------------------------------------------------------------------ *)
(* 7. items of the code-length alphabet and what read_lens does with them *)

Definition item_count (it : N * N) : nat :=
  if fst it <? 16 then 1%nat
  else if fst it =? 18 then (11 + N.to_nat (snd it))%nat
  else (3 + N.to_nat (snd it))%nat.

Definition item_step (it : N * N) (acc : list nat) : list nat :=
  if fst it <? 16 then N.to_nat (fst it) :: acc
  else if fst it =? 16 then repeat (hd 0%nat acc) (item_count it) ++ acc
  else repeat 0%nat (item_count it) ++ acc.

Definition item_wf (it : N * N) (acc : list nat) : Prop :=
  fst it <= 18 /\ (fst it = 16 -> acc <> [] /\ snd it < 4) /\
  (fst it = 17 -> snd it < 8) /\ (fst it = 18 -> snd it < 128).

Definition item_decodes (ct : trie) (clcodes : list (N * N)) (it : N * N) : Prop :=
  forall rest p,
    decode_sym ct (mkbs (code_word (nth (N.to_nat (fst it)) clcodes (0, 0)) ++ rest) p)
    = DOk (N.to_nat (fst it))
          (mkbs rest (p + N.of_nat (length (code_word (nth (N.to_nat (fst it)) clcodes (0, 0)))))).

Lemma hp_item_count_pos : forall it, (1 <= item_count it)%nat.
Proof.
  intros it. unfold item_count.
  destruct (fst it <? 16); [lia|]. destruct (fst it =? 18); lia.
Qed.

Lemma hp_read_lens_item : forall ct clcodes it fuel total acc rest p,
  item_wf it acc -> item_decodes ct clcodes it -> (item_count it <= total)%nat ->
  read_lens (S fuel) ct total acc (mkbs (item_bits clcodes it ++ rest) p)
  = read_lens fuel ct (total - item_count it) (item_step it acc)
              (mkbs rest (p + N.of_nat (length (item_bits clcodes it)))).
Proof.
  intros ct clcodes [s e] fuel total acc rest p Hwf Hdec Hc.
  pose proof (hp_item_count_pos (s, e)) as Hpos.
  unfold item_wf in Hwf. unfold item_decodes in Hdec.
  unfold item_bits, item_step. unfold item_count in *. cbn [fst snd] in *.
  destruct Hwf as [Hle [H16 [H17 H18]]].
  destruct total as [|t]; [lia|].
  rewrite <- app_assoc. cbn [read_lens]. rewrite Hdec.
  set (w := code_word (nth (N.to_nat s) clcodes (0, 0))) in *.
  assert (Hcase : s < 16 \/ s = 16 \/ s = 17 \/ s = 18) by lia.
  destruct Hcase as [Hs | [Hs | [Hs | Hs]]].
  - assert (E1 : (s <? 16) = true) by (apply N.ltb_lt; exact Hs).
    assert (E2 : (16 <=? s) = false) by (apply N.leb_gt; exact Hs).
    assert (E3 : (N.to_nat s <? 16)%nat = true) by (apply Nat.ltb_lt; lia).
    rewrite E1 in *. rewrite E2, E3. cbn [app]. rewrite app_nil_r. reflexivity.
  - subst s. destruct (H16 eq_refl) as [Hacc He].
    change (16 <? 16) with false in *. change (16 =? 16) with true.
    change (16 =? 18) with false in *. change (16 <=? 16) with true.
    change (N.to_nat 16) with 16%nat. change (16 <? 16)%nat with false.
    change (16 =? 16)%nat with true. cbv iota beta in Hc |- *.
    change (N.to_nat (cl_extra_bits 16)) with 2%nat.
    rewrite hp_take_num by (change (2 ^ N.of_nat 2) with 4; exact He).
    destruct acc as [|a acc']; [congruence|]. cbn [hd_error hd].
    destruct (S t <? 3 + N.to_nat e)%nat eqn:Et; [apply Nat.ltb_lt in Et; lia|].
    rewrite app_length, bits_of_N_length. do 2 f_equal. lia.
  - subst s. specialize (H17 eq_refl).
    change (17 <? 16) with false in *. change (17 =? 16) with false.
    change (17 =? 18) with false in *. change (16 <=? 17) with true.
    change (N.to_nat 17) with 17%nat. change (17 <? 16)%nat with false.
    change (17 =? 16)%nat with false. change (17 =? 17)%nat with true. cbv iota beta in Hc |- *.
    change (N.to_nat (cl_extra_bits 17)) with 3%nat.
    rewrite hp_take_num by (change (2 ^ N.of_nat 3) with 8; exact H17).
    destruct (S t <? 3 + N.to_nat e)%nat eqn:Et; [apply Nat.ltb_lt in Et; lia|].
    rewrite app_length, bits_of_N_length. do 2 f_equal. lia.
  - subst s. specialize (H18 eq_refl).
    change (18 <? 16) with false in *. change (18 =? 16) with false.
    change (18 =? 18) with true in *. change (16 <=? 18) with true.
    change (N.to_nat 18) with 18%nat. change (18 <? 16)%nat with false.
    change (18 =? 16)%nat with false. change (18 =? 17)%nat with false. cbv iota beta in Hc |- *.
    change (N.to_nat (cl_extra_bits 18)) with 7%nat.
    rewrite hp_take_num by (change (2 ^ N.of_nat 7) with 128; exact H18).
    destruct (S t <? 11 + N.to_nat e)%nat eqn:Et; [apply Nat.ltb_lt in Et; lia|].
    rewrite app_length, bits_of_N_length. do 2 f_equal. lia.
Qed.

Fixpoint items_ok (items : list (N * N)) (acc : list nat) : Prop :=
  match items with
  | [] => True
  | it :: r => item_wf it acc /\ items_ok r (item_step it acc)
  end.

Definition run_items (items : list (N * N)) (acc : list nat) : list nat :=
  fold_left (fun a it => item_step it a) items acc.

Fixpoint items_count (items : list (N * N)) : nat :=
  match items with [] => 0%nat | it :: r => (item_count it + items_count r)%nat end.

Lemma hp_items_ok_app : forall a b acc,
  items_ok a acc -> items_ok b (run_items a acc) -> items_ok (a ++ b) acc.
Proof.
  induction a as [|it a IH]; intros b acc Ha Hb.
  - exact Hb.
  - cbn [app items_ok] in *. destruct Ha as [H1 H2]. split; [exact H1|].
    apply IH; [exact H2 | exact Hb].
Qed.

Lemma hp_run_items_app : forall a b acc, run_items (a ++ b) acc = run_items b (run_items a acc).
Proof. intros. unfold run_items. apply fold_left_app. Qed.

Lemma hp_items_count_app : forall a b, items_count (a ++ b) = (items_count a + items_count b)%nat.
Proof.
  induction a as [|it a IH]; intros b; [reflexivity|].
  cbn [app items_count]. rewrite IH. lia.
Qed.

Lemma hp_item_step_length : forall it acc,
  length (item_step it acc) = (item_count it + length acc)%nat.
Proof.
  intros it acc. unfold item_step.
  destruct (fst it <? 16) eqn:E1.
  - unfold item_count. rewrite E1. reflexivity.
  - destruct (fst it =? 16); rewrite app_length, repeat_length; reflexivity.
Qed.

Lemma hp_run_items_length : forall items acc,
  length (run_items items acc) = (items_count items + length acc)%nat.
Proof.
  induction items as [|it r IH]; intros acc; [reflexivity|].
  change (run_items (it :: r) acc) with (run_items r (item_step it acc)).
  rewrite IH, hp_item_step_length. cbn [items_count]. lia.
Qed.

Lemma hp_items_count_ge : forall items, (length items <= items_count items)%nat.
Proof.
  induction items as [|it r IH]; [cbn; lia|].
  cbn [length items_count]. pose proof (hp_item_count_pos it). lia.
Qed.

Lemma hp_items_ok_le18 : forall items acc, items_ok items acc ->
  Forall (fun it => fst it <= 18) items.
Proof.
  induction items as [|it r IH]; intros acc H; [constructor|].
  cbn [items_ok] in H. destruct H as [H1 H2]. constructor.
  - exact (proj1 H1).
  - eapply IH. exact H2.
Qed.

Lemma hp_read_lens_items : forall ct clcodes items fuel total acc rest p,
  items_ok items acc -> Forall (item_decodes ct clcodes) items ->
  (length items <= fuel)%nat -> (items_count items <= total)%nat ->
  read_lens fuel ct total acc (mkbs (flat_map (item_bits clcodes) items ++ rest) p)
  = read_lens (fuel - length items) ct (total - items_count items) (run_items items acc)
              (mkbs rest (p + N.of_nat (length (flat_map (item_bits clcodes) items)))).
Proof.
  intros ct clcodes. induction items as [|it r IH]; intros fuel total acc rest p Hok Hdec Hf Ht.
  - cbn [flat_map app length items_count run_items fold_left].
    rewrite !Nat.sub_0_r, N.add_0_r. reflexivity.
  - cbn [items_ok] in Hok. destruct Hok as [Hwf Hok].
    inversion Hdec as [|it' r' Hd Hdr]; subst.
    cbn [length items_count] in *.
    destruct fuel as [|fuel]; [lia|].
    cbn [flat_map]. rewrite <- app_assoc.
    rewrite hp_read_lens_item by (try assumption; lia).
    rewrite IH by (try assumption; lia).
    change (run_items (it :: r) acc) with (run_items r (item_step it acc)).
    rewrite app_length.
    replace (S fuel - S (length r))%nat with (fuel - length r)%nat by lia.
    replace (total - item_count it - items_count r)%nat
      with (total - (item_count it + items_count r))%nat by lia.
    do 2 f_equal. lia.
Qed.

(* ------------------------------------------------------------------ *)
(* 8. the run-length coder: alphabet l expands back to l                *)

Lemma hp_repeat_comm : forall A (x : A) n l, repeat x n ++ x :: l = x :: repeat x n ++ l.
Proof.
  intros A x. induction n as [|n IH]; intros l; [reflexivity|].
  cbn [repeat app]. rewrite IH. reflexivity.
Qed.

Lemma hp_step_lit : forall s e acc, s < 16 -> item_step (s, e) acc = N.to_nat s :: acc.
Proof.
  intros s e acc Hs. unfold item_step. cbn [fst].
  apply N.ltb_lt in Hs. rewrite Hs. reflexivity.
Qed.

Lemma hp_wf_lit : forall s e acc, s < 16 -> item_wf (s, e) acc.
Proof. intros s e acc Hs. unfold item_wf. cbn [fst snd]. lia. Qed.

Lemma hp_step_16 : forall e acc,
  item_step (16, e) acc = repeat (hd 0%nat acc) (3 + N.to_nat e) ++ acc.
Proof. reflexivity. Qed.
Lemma hp_step_17 : forall e acc, item_step (17, e) acc = repeat 0%nat (3 + N.to_nat e) ++ acc.
Proof. reflexivity. Qed.
Lemma hp_step_18 : forall e acc, item_step (18, e) acc = repeat 0%nat (11 + N.to_nat e) ++ acc.
Proof. reflexivity. Qed.

Lemma hp_run_cons : forall it r acc, run_items (it :: r) acc = run_items r (item_step it acc).
Proof. reflexivity. Qed.

Lemma hp_lits : forall s n acc, s < 16 ->
  items_ok (repeat (s, 0) n) acc /\
  run_items (repeat (s, 0) n) acc = repeat (N.to_nat s) n ++ acc.
Proof.
  intros s n. induction n as [|n IH]; intros acc Hs.
  - split; [exact I | reflexivity].
  - cbn [repeat items_ok]. rewrite hp_run_cons, hp_step_lit by exact Hs.
    destruct (IH (N.to_nat s :: acc) Hs) as [H1 H2].
    split; [split; [apply hp_wf_lit; exact Hs | exact H1]|].
    rewrite H2. rewrite hp_repeat_comm. reflexivity.
Qed.

Lemma hp_num_repeat : forall fuel num k acc, num < 16 -> k <= 7 * N.of_nat fuel ->
  items_ok (num_repeat fuel num k) acc /\
  run_items (num_repeat fuel num k) acc = repeat (N.to_nat num) (N.to_nat k) ++ acc.
Proof.
  induction fuel as [|f IH]; intros num k acc Hn Hk.
  - replace k with 0 by lia. split; [exact I | reflexivity].
  - cbn [num_repeat].
    destruct (k =? 0) eqn:E0.
    { apply N.eqb_eq in E0. subst k. split; [exact I | reflexivity]. }
    apply N.eqb_neq in E0.
    destruct (k <=? 3) eqn:E3.
    { apply hp_lits. exact Hn. }
    apply N.leb_gt in E3.
    destruct (k <=? 7) eqn:E7.
    { apply N.leb_le in E7. cbn [items_ok].
      rewrite !hp_run_cons, hp_step_lit, hp_step_16 by exact Hn. cbn [hd].
      split.
      - split; [apply hp_wf_lit; exact Hn|]. split; [|exact I].
        unfold item_wf. cbn [fst snd]. repeat split; try lia. congruence.
      - cbn [run_items fold_left]. rewrite hp_repeat_comm.
        replace (N.to_nat k) with (S (3 + N.to_nat (k - 4))) by lia. reflexivity. }
    apply N.leb_gt in E7. cbn [items_ok].
    rewrite !hp_run_cons, hp_step_lit, hp_step_16 by exact Hn. cbn [hd].
    destruct (IH num (k - 7) (repeat (N.to_nat num) (3 + N.to_nat 3) ++ N.to_nat num :: acc) Hn) as [H1 H2];
      [lia|].
    split.
    + split; [apply hp_wf_lit; exact Hn|]. split; [|exact H1].
      unfold item_wf. cbn [fst snd]. repeat split; try lia. congruence.
    + rewrite H2. rewrite hp_repeat_comm.
      change (N.to_nat num :: repeat (N.to_nat num) (3 + N.to_nat 3) ++ acc)
        with (repeat (N.to_nat num) 7 ++ acc).
      rewrite app_assoc, <- repeat_app. f_equal. f_equal. lia.
Qed.

Lemma hp_zero_repeat : forall fuel k acc, k <= 138 * N.of_nat fuel ->
  items_ok (zero_repeat fuel k) acc /\
  run_items (zero_repeat fuel k) acc = repeat 0%nat (N.to_nat k) ++ acc.
Proof.
  induction fuel as [|f IH]; intros k acc Hk.
  - replace k with 0 by lia. split; [exact I | reflexivity].
  - cbn [zero_repeat].
    destruct (k =? 0) eqn:E0.
    { apply N.eqb_eq in E0. subst k. split; [exact I | reflexivity]. }
    apply N.eqb_neq in E0.
    destruct (k <? 3) eqn:E3.
    { apply (hp_lits 0). lia. }
    apply N.ltb_ge in E3.
    destruct (k <? 11) eqn:E11.
    { apply N.ltb_lt in E11. cbn [items_ok]. rewrite hp_run_cons, hp_step_17.
      split.
      - split; [|exact I]. unfold item_wf. cbn [fst snd]. repeat split; try lia; intros; try lia; try discriminate.
      - cbn [run_items fold_left]. f_equal. f_equal. lia. }
    apply N.ltb_ge in E11.
    destruct (k <? 139) eqn:E139.
    { apply N.ltb_lt in E139. cbn [items_ok]. rewrite hp_run_cons, hp_step_18.
      split.
      - split; [|exact I]. unfold item_wf. cbn [fst snd]. repeat split; try lia; intros; try lia; try discriminate.
      - cbn [run_items fold_left]. f_equal. f_equal. lia. }
    apply N.ltb_ge in E139. cbn [items_ok]. rewrite hp_run_cons, hp_step_18.
    destruct (IH (k - 138) (repeat 0%nat (11 + N.to_nat 127) ++ acc)) as [H1 H2]; [lia|].
    split.
    + split; [|exact H1]. unfold item_wf. cbn [fst snd]. repeat split; try lia; intros; try lia; try discriminate.
    + rewrite H2. rewrite app_assoc, <- repeat_app. f_equal. f_equal. lia.
Qed.

Definition emit_run (prev run : N) : list (N * N) :=
  if prev =? 0 then zero_repeat 64 run else num_repeat 64 prev run.

Lemma hp_emit_run : forall prev run acc, prev < 16 -> run <= 448 ->
  items_ok (emit_run prev run) acc /\
  run_items (emit_run prev run) acc = repeat (N.to_nat prev) (N.to_nat run) ++ acc.
Proof.
  intros prev run acc Hp Hr. unfold emit_run.
  destruct (prev =? 0) eqn:E.
  - apply N.eqb_eq in E. subst prev. apply hp_zero_repeat. lia.
  - apply hp_num_repeat; [exact Hp | lia].
Qed.

Lemma hp_rle_runs : forall l prev run acc, prev < 16 -> Forall (fun x => x <= 15) l ->
  run + N.of_nat (length l) <= 448 ->
  items_ok (rle_runs l prev run) acc /\
  run_items (rle_runs l prev run) acc
  = rev (map N.to_nat l) ++ repeat (N.to_nat prev) (N.to_nat run) ++ acc.
Proof.
  induction l as [|x r IH]; intros prev run acc Hp Hl Hr.
  - cbn [rle_runs map rev app]. apply hp_emit_run; [exact Hp | cbn [length] in Hr; lia].
  - inversion Hl as [|x' r' Hx Hlr]; subst. cbn [length] in Hr.
    cbn [rle_runs]. fold (emit_run prev run).
    destruct (x =? prev) eqn:E.
    + apply N.eqb_eq in E. subst x.
      destruct (IH prev (run + 1) acc Hp Hlr) as [H1 H2]; [lia|].
      split; [exact H1|]. rewrite H2. cbn [map rev]. rewrite <- app_assoc. f_equal.
      replace (N.to_nat (run + 1)) with (S (N.to_nat run)) by lia. reflexivity.
    + destruct (hp_emit_run prev run acc Hp) as [H1 H2]; [lia|].
      destruct (IH x 1 (repeat (N.to_nat prev) (N.to_nat run) ++ acc)) as [H3 H4]; [lia|exact Hlr|lia|].
      split.
      * apply hp_items_ok_app; [exact H1|]. rewrite H2. exact H3.
      * rewrite hp_run_items_app, H2, H4. cbn [map rev]. rewrite <- app_assoc. reflexivity.
Qed.

Lemma hp_alphabet : forall l acc, Forall (fun x => x <= 15) l -> (length l <= 448)%nat ->
  items_ok (alphabet l) acc /\ run_items (alphabet l) acc = rev (map N.to_nat l) ++ acc.
Proof.
  intros l acc Hl Hn. destruct l as [|x r].
  - split; [exact I | reflexivity].
  - inversion Hl as [|x' r' Hx Hlr]; subst. cbn [length] in Hn. cbn [alphabet].
    destruct (hp_rle_runs r x 1 acc) as [H1 H2]; [lia | exact Hlr | lia |].
    split; [exact H1|]. rewrite H2. cbn [map rev]. rewrite <- app_assoc. reflexivity.
Qed.

(* ------------------------------------------------------------------ *)
(* 9. the code-length histogram counts every symbol that is used        *)

Lemma hp_incN_length : forall h i d, length (incN h i d) = length h.
Proof. intros. unfold incN, updN. apply upd_length. Qed.

Lemma hp_incN_ge : forall h i d s, nthN h s <= nthN (incN h i d) s.
Proof.
  intros h i d s. unfold incN, updN, nthN.
  destruct (Nat.eq_dec (N.to_nat i) (N.to_nat s)) as [E|E].
  - rewrite E. destruct (le_lt_dec (length h) (N.to_nat s)) as [Hl|Hl].
    + rewrite (nth_overflow h) by exact Hl. lia.
    + rewrite nth_upd_same by exact Hl. lia.
  - rewrite nth_upd_other by exact E. lia.
Qed.

Lemma hp_incN_same : forall h s, (N.to_nat s < length h)%nat ->
  nthN (incN h s 1) s = nthN h s + 1.
Proof. intros h s Hs. unfold incN, updN, nthN. apply nth_upd_same. exact Hs. Qed.

Lemma hp_hist_length : forall (items : list (N * N)) h,
  length (fold_left (fun h it => incN h (fst it) 1) items h) = length h.
Proof.
  induction items as [|it r IH]; intros h; [reflexivity|].
  cbn [fold_left]. rewrite IH. apply hp_incN_length.
Qed.

Lemma hp_hist_mono : forall (items : list (N * N)) h s,
  nthN h s <= nthN (fold_left (fun h it => incN h (fst it) 1) items h) s.
Proof.
  induction items as [|it r IH]; intros h s; [cbn [fold_left]; lia|].
  cbn [fold_left]. pose proof (IH (incN h (fst it) 1) s). pose proof (hp_incN_ge h (fst it) 1 s). lia.
Qed.

Lemma hp_hist_in : forall (items : list (N * N)) h it, In it items ->
  (N.to_nat (fst it) < length h)%nat ->
  nthN (fold_left (fun h it => incN h (fst it) 1) items h) (fst it) <> 0.
Proof.
  induction items as [|x r IH]; intros h it HIn Hl; [destruct HIn|].
  cbn [fold_left]. destruct HIn as [->|HIn].
  - pose proof (hp_hist_mono r (incN h (fst it) 1) (fst it)) as H.
    rewrite hp_incN_same in H by exact Hl. lia.
  - apply IH; [exact HIn|]. rewrite hp_incN_length. exact Hl.
Qed.

(* ------------------------------------------------------------------ *)
(* 10. small list facts                                                 *)

Lemma hp_Forall_firstn : forall A (P : A -> Prop) n l, Forall P l -> Forall P (firstn n l).
Proof.
  intros A P n l H. rewrite Forall_forall in *. intros x Hx. apply H.
  eapply hp_firstn_In. exact Hx.
Qed.

Lemma hp_kraft_firstn : forall maxl n l, kraft maxl (firstn n l) <= kraft maxl l.
Proof.
  intros maxl. induction n as [|n IH]; intros l.
  - cbn [firstn kraft]. lia.
  - destruct l as [|x r]; [cbn [firstn kraft]; lia|].
    cbn [firstn kraft]. specialize (IH r). lia.
Qed.

Lemma hp_oversub_firstn : forall maxl n (l : list N),
  oversubscribed maxl (map N.to_nat l) = false ->
  oversubscribed maxl (map N.to_nat (firstn n l)) = false.
Proof.
  intros maxl n l H. unfold oversubscribed in *. apply N.ltb_ge in H. apply N.ltb_ge.
  rewrite <- firstn_map. pose proof (hp_kraft_firstn maxl n (map N.to_nat l)). lia.
Qed.

Lemma hp_Forall_to_nat : forall m (l : list N), Forall (fun x => x <= N.of_nat m) l ->
  Forall (fun x => (x <= m)%nat) (map N.to_nat l).
Proof.
  intros m l H. rewrite Forall_forall in *. intros x Hx.
  apply in_map_iff in Hx. destruct Hx as [y [<- Hy]]. specialize (H y Hy). lia.
Qed.

Lemma hp_nth_firstn : forall A i n (l : list A) d, (i < n)%nat -> nth i (firstn n l) d = nth i l d.
Proof.
  intros A. induction i as [|i IH]; intros n l d Hi.
  - destruct n as [|n]; [lia|]. destruct l; reflexivity.
  - destruct n as [|n]; [lia|]. destruct l as [|x r]; [reflexivity|].
    cbn [firstn nth]. apply IH. lia.
Qed.

Lemma hp_firstn_app_exact : forall A (a b : list A), firstn (length a) (a ++ b) = a.
Proof.
  intros A a b. rewrite firstn_app, Nat.sub_diag, firstn_all. cbn [firstn]. apply app_nil_r.
Qed.

Lemma hp_skipn_app_exact : forall A (a b : list A), skipn (length a) (a ++ b) = b.
Proof.
  intros A a b. rewrite skipn_app, Nat.sub_diag, skipn_all. reflexivity.
Qed.

Lemma hp_flat_map_map : forall A B C (f : B -> list C) (g : A -> B) l,
  flat_map f (map g l) = flat_map (fun x => f (g x)) l.
Proof.
  intros A B C f g. induction l as [|x r IH]; [reflexivity|].
  cbn [map flat_map]. rewrite IH. reflexivity.
Qed.

Lemma hp_flat_map_bits_length : forall n vs,
  length (flat_map (bits_of_N n) vs) = (n * length vs)%nat.
Proof.
  intros n. induction vs as [|v r IH]; [cbn; lia|].
  cbn [flat_map length]. rewrite app_length, bits_of_N_length, IH. lia.
Qed.

Lemma hp_read_lens_0 : forall fuel ct acc s, read_lens fuel ct 0 acc s = HOk (frev acc) s.
Proof. intros. destruct fuel; reflexivity. Qed.

Lemma hp_nthN_Forall : forall (P : N -> Prop) l i, Forall P l -> P 0 -> P (nthN l i).
Proof.
  intros P l i H H0. unfold nthN.
  destruct (le_lt_dec (length l) (N.to_nat i)) as [Hl|Hl].
  - rewrite nth_overflow by exact Hl. exact H0.
  - rewrite Forall_forall in H. apply H. apply nth_In. exact Hl.
Qed.

Lemma hp_clen_order_nodup : NoDup clen_order.
Proof.
  unfold clen_order.
  repeat (constructor; [cbn [In]; intuition lia|]). constructor.
Qed.

Lemma hp_clen_order_all : forall j, (j < 19)%nat -> In j clen_order.
Proof.
  intros j Hj. unfold clen_order.
  do 19 (destruct j as [|j]; [cbn [In]; repeat (first [left; reflexivity | right])|]). lia.
Qed.

Lemma hp_clen_order_lt : forall s, In s clen_order -> (s < 19)%nat.
Proof. intros s H. unfold clen_order in H. cbn [In] in H. intuition lia. Qed.

Lemma hp_hclen_order_eq : hclen_order = map N.of_nat clen_order.
Proof. reflexivity. Qed.

(* ------------------------------------------------------------------ *)
(* 11. the code length code lengths, scattered back                     *)

Lemma hp_scatter_cllens : forall ll dl, length (h_cllens ll dl) = 19%nat ->
  scatter clen_order
    (map N.to_nat (map (nthN (h_cllens ll dl)) (firstn (N.to_nat (h_codesize ll dl)) hclen_order)))
    (repeat 0%nat 19) = map N.to_nat (h_cllens ll dl).
Proof.
  intros ll dl Hlen.
  set (L := map N.to_nat (h_cllens ll dl)).
  assert (HL : length L = 19%nat) by (unfold L; rewrite map_length; exact Hlen).
  replace (repeat 0%nat 19) with (repeat 0%nat (length L)) by (rewrite HL; reflexivity).
  rewrite hp_hclen_order_eq, firstn_map, !map_map.
  rewrite (map_ext (fun x => N.to_nat (nthN (h_cllens ll dl) (N.of_nat x))) (fun s => nth s L 0%nat)).
  2:{ intros s. unfold nthN, L. rewrite Nat2N.id.
      exact (eq_sym (map_nth N.to_nat (h_cllens ll dl) 0 s)). }
  apply hp_scatter_firstn.
  - exact hp_clen_order_nodup.
  - intros j Hj. apply hp_clen_order_all. lia.
  - intros s Hs. rewrite HL. apply hp_clen_order_lt. exact Hs.
  - intros s Hs. unfold L.
    change 0%nat with (N.to_nat 0) at 1. rewrite map_nth.
    pose proof (hp_codesize_zero ll dl (N.of_nat s)) as Hz.
    unfold nthN in Hz. rewrite Nat2N.id in Hz. rewrite Hz; [reflexivity|].
    rewrite hp_hclen_order_eq, skipn_map. apply in_map. exact Hs.
Qed.

(* ------------------------------------------------------------------ *)
(* 12. the header round trip                                            *)

Theorem header_ok : header_statement.
Proof.
  unfold header_statement.
  intros ll dl final rest p Hll Hdl Fll Fdl Oll Odl H256 Hval.
  (* the literal/length lengths that are sent *)
  pose proof (hp_used_count_nz ll 256 H256) as Hlit_lo.
  pose proof (hp_used_count_le ll) as Hlit_hi. rewrite Hll in Hlit_hi.
  set (T := trim ll).
  assert (HTlen : length T = N.to_nat (used_count ll)).
  { unfold T, trim. rewrite firstn_length. lia. }
  assert (HTF : Forall (fun x => x <= 15) T) by (apply hp_Forall_firstn; exact Fll).
  assert (HTO : oversubscribed 15 (map N.to_nat T) = false) by (apply hp_oversub_firstn; exact Oll).
  (* the distance lengths that are sent *)
  pose proof (hp_used_count_le dl) as Hdist_hi. rewrite Hdl in Hdist_hi.
  set (D := dist_lens_sent dl).
  assert (HDlen : length D = N.to_nat (h_distnum dl)).
  { unfold D, dist_lens_sent, h_distnum, trim. destruct (used_count dl =? 0) eqn:E; [reflexivity|].
    rewrite firstn_length. lia. }
  assert (HDnum : 1 <= h_distnum dl <= 30).
  { unfold h_distnum. destruct (used_count dl =? 0) eqn:E; lia. }
  assert (HDF : Forall (fun x => x <= 15) D).
  { unfold D, dist_lens_sent. destruct (used_count dl =? 0).
    - constructor; [lia | constructor].
    - apply hp_Forall_firstn. exact Fdl. }
  assert (HDO : oversubscribed 15 (map N.to_nat D) = false).
  { unfold D, dist_lens_sent. destruct (used_count dl =? 0).
    - reflexivity.
    - apply hp_oversub_firstn. exact Odl. }
  (* the three tries *)
  destruct (kraft_sufficient 15%nat (map N.to_nat T)) as [lt Hlt];
    [lia | apply (hp_Forall_to_nat 15%nat); exact HTF | exact HTO |].
  destruct (kraft_sufficient 15%nat (map N.to_nat D)) as [dt Hdt];
    [lia | apply (hp_Forall_to_nat 15%nat); exact HDF | exact HDO |].
  fold (h_cllens ll dl) in Hval.
  destruct Hval as [Hcl_len [Hcl_F [Hcl_O Hcl_nz]]].
  assert (Hcl19 : length (h_cllens ll dl) = 19%nat).
  { rewrite Hcl_len. unfold cl_hist. rewrite hp_hist_length. reflexivity. }
  destruct (kraft_sufficient 7%nat (map N.to_nat (h_cllens ll dl))) as [ct Hct];
    [lia | apply (hp_Forall_to_nat 7%nat); exact Hcl_F | exact Hcl_O |].
  (* the items *)
  assert (Hdata : cl_data ll dl = alphabet T ++ alphabet D) by apply hp_cl_data_eq.
  destruct (hp_alphabet T [] HTF) as [HokT HrunT]; [lia|].
  destruct (hp_alphabet D (run_items (alphabet T) []) HDF) as [HokD HrunD]; [lia|].
  assert (Hok : items_ok (cl_data ll dl) []).
  { rewrite Hdata. apply hp_items_ok_app; assumption. }
  assert (Hrun : run_items (cl_data ll dl) [] = rev (map N.to_nat D) ++ rev (map N.to_nat T)).
  { rewrite Hdata, hp_run_items_app, HrunD, HrunT, app_nil_r. reflexivity. }
  assert (Hcount : items_count (cl_data ll dl) = (length T + length D)%nat).
  { pose proof (hp_run_items_length (cl_data ll dl) []) as H. rewrite Hrun in H.
    rewrite app_length, !rev_length, !map_length in H. cbn [length] in H. lia. }
  assert (Hdec : Forall (item_decodes ct (gen_codes (h_cllens ll dl))) (cl_data ll dl)).
  { pose proof (hp_items_ok_le18 _ _ Hok) as H18. rewrite Forall_forall in *.
    intros it Hit. specialize (H18 it Hit). unfold item_decodes. intros rest0 p0.
    apply (hp_code_decodes _ 7%nat); [exact Hct|].
    apply Hcl_nz. unfold cl_hist. apply hp_hist_in; [exact Hit|].
    rewrite repeat_length. lia. }
  exists (header_body ll dl), lt, dt.
  split; [apply hp_header_bits|]. split; [exact Hlt|]. split; [exact Hdt|].
  (* parsing *)
  pose proof (hp_codesize_bounds ll dl) as Hcs.
  unfold header_body. rewrite <- !app_assoc.
  rewrite <- (hp_flat_map_map _ _ _ (bits_of_N 3) (nthN (h_cllens ll dl))).
  set (vs := map (nthN (h_cllens ll dl)) (firstn (N.to_nat (h_codesize ll dl)) hclen_order)).
  assert (Hvs_len : length vs = N.to_nat (h_codesize ll dl)).
  { unfold vs. rewrite map_length, firstn_length. change (length hclen_order) with 19%nat. lia. }
  assert (Hvs_F : Forall (fun v => v < 8) vs).
  { unfold vs. rewrite Forall_forall. intros v Hv. apply in_map_iff in Hv.
    destruct Hv as [s [<- _]].
    apply (hp_nthN_Forall (fun v => v < 8)); [|lia].
    rewrite Forall_forall in *. intros x Hx. specialize (Hcl_F x Hx). lia. }
  set (ibits := flat_map (item_bits (gen_codes (h_cllens ll dl))) (cl_data ll dl)).
  unfold h_litnum.
  unfold dyn_header.
  rewrite hp_take_num by (change (2 ^ N.of_nat 5) with 32; lia). cbv iota beta.
  rewrite hp_take_num by (change (2 ^ N.of_nat 5) with 32; lia). cbv iota beta.
  rewrite hp_take_num by (change (2 ^ N.of_nat 4) with 16; lia). cbv iota beta.
  assert (E29 : ((29 <? used_count ll - 257) || (29 <? h_distnum dl - 1)) = false).
  { apply orb_false_iff. split; apply N.ltb_ge; lia. }
  rewrite E29.
  replace (N.to_nat (h_codesize ll dl - 4) + 4)%nat with (length vs) by lia.
  rewrite hp_read_clens by exact Hvs_F. cbv iota beta.
  unfold vs at 1. rewrite hp_scatter_cllens by exact Hcl19.
  rewrite Hct.
  replace (N.to_nat (used_count ll - 257) + 257)%nat with (length T) by lia.
  replace (N.to_nat (h_distnum dl - 1) + 1)%nat with (length D) by lia.
  unfold ibits.
  rewrite hp_read_lens_items; [| exact Hok | exact Hdec | | ].
  2:{ pose proof (hp_items_count_ge (cl_data ll dl)). lia. }
  2:{ lia. }
  rewrite Hcount, Nat.sub_diag, hp_read_lens_0. rewrite Hrun.
  rewrite frev_rev, rev_app_distr, !rev_involutive.
  rewrite <- (map_length N.to_nat T).
  rewrite hp_firstn_app_exact, hp_skipn_app_exact.
  assert (E256 : (nth 256 (map N.to_nat T) 0 =? 0)%nat = false).
  { apply Nat.eqb_neq.
    change (nth 256 (map N.to_nat T) 0%nat) with (nth 256 (map N.to_nat T) (N.to_nat 0)).
    rewrite map_nth.
    unfold T, trim. rewrite hp_nth_firstn by lia. unfold nthN in H256.
    change (N.to_nat 256) with 256%nat in H256. lia. }
  rewrite E256, Hlt, Hdt.
  do 2 f_equal.
  rewrite !app_length, !bits_of_N_length, hp_flat_map_bits_length. lia.
Qed.

Print Assumptions header_ok.

(* the same, in the conditional form (the bit-buffer facts needed are proved locally above,
   so the hypothesis is not used) *)
Theorem header_ok_cond : bitbuf_statement -> header_statement.
Proof. intros _. exact header_ok. Qed.

Print Assumptions header_ok_cond.
