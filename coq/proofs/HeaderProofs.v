(* HeaderProofs.v — the dynamic block header written by write_header is parsed back by the
   reference inflater's dyn_header (CodecSpec.header_statement). *)
From Verif Require Import CodecSpec HuffmanProofs.
From Coq Require Import ZArith Lia ZifyBool ZifyNat ZifyN.
Open Scope N_scope.
Ltac Zify.zify_post_hook ::= Z.div_mod_to_equations.

(* ------------------------------------------------------------------ *)
(* 1. bits and the bit buffer                                           *)

Lemma hp_bits_of_N_of_bits : forall l, bits_of_N (length l) (N_of_bits l) = l.
Proof.
  induction l as [|b r IH]; [reflexivity|].
  cbn [length bits_of_N N_of_bits].
  f_equal.
  - rewrite N.odd_add_mul_2. destruct b; reflexivity.
  - replace (N.div2 ((if b then 1 else 0) + 2 * N_of_bits r)) with (N_of_bits r).
    + exact IH.
    + rewrite N.div2_div. destruct b; lia.
Qed.

Lemma hp_push_bytes_S : forall f l out, l <> [] ->
  push_bytes (S f) l out = push_bytes f (skipn 8 l) (N_of_bits (firstn 8 l) :: out).
Proof. intros f l out H. destruct l; [congruence | reflexivity]. Qed.

Lemma hp_bits_of_bytes_app : forall a b, bits_of_bytes (a ++ b) = bits_of_bytes a ++ bits_of_bytes b.
Proof. intros a b. unfold bits_of_bytes. apply flat_map_app. Qed.

Lemma hp_push_bytes_bits : forall f l out, length l = (8 * f)%nat ->
  bits_of_bytes (rev (push_bytes f l out)) = bits_of_bytes (rev out) ++ l.
Proof.
  induction f as [|f IH]; intros l out Hl.
  - destruct l; [|cbn [length] in Hl; lia]. cbn [push_bytes]. rewrite app_nil_r. reflexivity.
  - assert (Hne : l <> []) by (intros ->; cbn [length] in Hl; lia).
    rewrite hp_push_bytes_S by exact Hne.
    rewrite IH by (rewrite skipn_length; lia).
    cbn [rev]. rewrite hp_bits_of_bytes_app.
    unfold bits_of_bytes at 2. cbn [flat_map]. rewrite app_nil_r.
    assert (H8 : length (firstn 8 l) = 8%nat) by (rewrite firstn_length; lia).
    pose proof (hp_bits_of_N_of_bits (firstn 8 l)) as HB. rewrite H8 in HB. rewrite HB.
    rewrite <- app_assoc. rewrite firstn_skipn. reflexivity.
Qed.

Lemma hp_write_bits_bits : forall b l, bb_bits (write_bits b l) = bb_bits b ++ l.
Proof.
  intros b l. unfold write_bits, bb_bits.
  destruct (64 <? length (bb_acc b ++ l))%nat eqn:E; cbn [bb_out bb_acc].
  - rewrite hp_push_bytes_bits by (rewrite firstn_length; lia).
    rewrite <- !app_assoc. rewrite firstn_skipn. reflexivity.
  - rewrite app_assoc. reflexivity.
Qed.

Lemma hp_write_num_bits : forall b c n, bb_bits (write_num b c n) = bb_bits b ++ bits_of_N (N.to_nat n) c.
Proof. intros. unfold write_num. apply hp_write_bits_bits. Qed.

Lemma hp_fold_bits : forall A (F : bitbuf -> A -> bitbuf) (g : A -> list bool),
  (forall bb x, bb_bits (F bb x) = bb_bits bb ++ g x) ->
  forall l b, bb_bits (fold_left F l b) = bb_bits b ++ flat_map g l.
Proof.
  intros A F g H. induction l as [|x r IH]; intros b.
  - cbn [fold_left flat_map]. rewrite app_nil_r. reflexivity.
  - cbn [fold_left flat_map]. rewrite IH, H, app_assoc. reflexivity.
Qed.

(* ------------------------------------------------------------------ *)
(* 2. the bits of the header as a concatenation                         *)

Definition item_bits (clcodes : list (N * N)) (it : N * N) : list bool :=
  code_word (nth (N.to_nat (fst it)) clcodes (0, 0)) ++
  (if 16 <=? fst it then bits_of_N (N.to_nat (cl_extra_bits (fst it))) (snd it) else []).

Definition h_litnum (ll : list N) : N := used_count ll.
Definition h_distnum (dl : list N) : N := if used_count dl =? 0 then 1 else used_count dl.
Definition h_cllens (ll dl : list N) : list N := generate 7 (cl_hist ll dl).
Definition h_tz (cllens : list N) : list N :=
  fold_left (fun acc s => if nthN cllens s =? 0 then s :: acc else []) hclen_order [].
Definition h_codesize (ll dl : list N) : N :=
  let cs := 19 - lenN (h_tz (h_cllens ll dl)) in if cs <? 4 then 4 else cs.

Definition header_body (ll dl : list N) : list bool :=
  bits_of_N 5 (h_litnum ll - 257) ++ bits_of_N 5 (h_distnum dl - 1) ++
  bits_of_N 4 (h_codesize ll dl - 4) ++
  flat_map (fun s => bits_of_N 3 (nthN (h_cllens ll dl) s))
           (firstn (N.to_nat (h_codesize ll dl)) hclen_order) ++
  flat_map (item_bits (gen_codes (h_cllens ll dl))) (cl_data ll dl).

Lemma hp_cl_data_eq : forall ll dl,
  cl_data ll dl = alphabet (trim ll) ++ alphabet (dist_lens_sent dl).
Proof.
  intros. unfold cl_data, trim, dist_lens_sent. reflexivity.
Qed.

Lemma hp_header_bits : forall ll dl final,
  header_bits ll dl final = [final; false; true] ++ header_body ll dl.
Proof.
  intros ll dl final. unfold header_bits, write_header. cbv zeta.
  replace (if used_count dl =? 0 then [1]
           else firstn (N.to_nat (if used_count dl =? 0 then 1 else used_count dl)) dl)
    with (if used_count dl =? 0 then [1] else firstn (N.to_nat (used_count dl)) dl)
    by (destruct (used_count dl =? 0); reflexivity).
  change (fold_left (fun (h : list N) (it : N * N) => incN h (fst it) 1)
            (alphabet (firstn (N.to_nat (used_count ll)) ll) ++
             alphabet (if used_count dl =? 0 then [1] else firstn (N.to_nat (used_count dl)) dl))
            (repeat 0 19)) with (cl_hist ll dl).
  change (generate 7 (cl_hist ll dl)) with (h_cllens ll dl).
  rewrite (hp_fold_bits _ _ (item_bits (gen_codes (h_cllens ll dl)))).
  2:{ intros bb it. unfold item_bits.
      destruct (16 <=? fst it) eqn:E.
      - rewrite hp_write_num_bits, hp_write_bits_bits, app_assoc. reflexivity.
      - rewrite hp_write_bits_bits, app_nil_r. reflexivity. }
  rewrite (hp_fold_bits _ _ (fun s => bits_of_N 3 (nthN (h_cllens ll dl) s))).
  2:{ intros bb s. rewrite hp_write_num_bits. reflexivity. }
  rewrite !hp_write_num_bits.
  unfold header_body. cbn [bb_bits bb_empty bb_out bb_acc rev bits_of_bytes flat_map app].
  rewrite <- !app_assoc.
  replace (bits_of_N (N.to_nat 3) (if final then 5 else 4)) with [final; false; true]
    by (destruct final; reflexivity).
  reflexivity.
Qed.

(* ------------------------------------------------------------------ *)
(* 3. take / read_clens on written numbers                              *)

Lemma hp_take_bits : forall l rest p,
  take (length l) (mkbs (l ++ rest) p) = Some (N_of_bits l, mkbs rest (p + N.of_nat (length l))).
Proof.
  induction l as [|b r IH]; intros rest p.
  - cbn [length take app N_of_bits]. rewrite N.add_0_r. reflexivity.
  - cbn [length take app N_of_bits]. unfold take1. cbn [bl bp].
    rewrite IH. do 3 f_equal. lia.
Qed.

Lemma hp_take_num : forall n v rest p, v < 2 ^ N.of_nat n ->
  take n (mkbs (bits_of_N n v ++ rest) p) = Some (v, mkbs rest (p + N.of_nat n)).
Proof.
  intros n v rest p Hv.
  pose proof (hp_take_bits (bits_of_N n v) rest p) as H.
  rewrite bits_of_N_length in H. rewrite H. rewrite N_of_bits_of_N by exact Hv. reflexivity.
Qed.

Lemma hp_read_clens : forall vs rest p, Forall (fun v => v < 8) vs ->
  read_clens (length vs) (mkbs (flat_map (bits_of_N 3) vs ++ rest) p)
  = HOk (map N.to_nat vs) (mkbs rest (p + 3 * N.of_nat (length vs))).
Proof.
  induction vs as [|v r IH]; intros rest p HF.
  - cbn [length read_clens flat_map app map]. do 2 f_equal. lia.
  - inversion HF as [|v' r' Hv Hr]; subst.
    cbn [length read_clens flat_map map]. rewrite <- app_assoc.
    rewrite hp_take_num by (change (2 ^ N.of_nat 3) with 8; exact Hv).
    rewrite IH by exact Hr. do 2 f_equal. lia.
Qed.

(* ------------------------------------------------------------------ *)
(* 4. scatter                                                           *)

Lemma hp_scatter_length : forall order vals acc, length (scatter order vals acc) = length acc.
Proof.
  induction order as [|o order IH]; intros vals acc; [reflexivity|].
  destruct vals as [|v vals]; [reflexivity|].
  cbn [scatter]. rewrite IH, upd_length. reflexivity.
Qed.

Lemma hp_scatter_other : forall order vals acc j d,
  ~ In j (firstn (length vals) order) -> nth j (scatter order vals acc) d = nth j acc d.
Proof.
  induction order as [|o order IH]; intros vals acc j d Hj; [reflexivity|].
  destruct vals as [|v vals]; [reflexivity|].
  cbn [scatter]. cbn [length firstn In] in Hj.
  rewrite IH by tauto. apply nth_upd_other. tauto.
Qed.

Lemma hp_scatter_same : forall order vals acc i d, NoDup order ->
  (i < length vals)%nat -> (i < length order)%nat -> (nth i order 0 < length acc)%nat ->
  nth (nth i order 0%nat) (scatter order vals acc) d = nth i vals d.
Proof.
  induction order as [|o order IH]; intros vals acc i d Hnd Hv Ho Ha.
  - cbn [length] in Ho. lia.
  - destruct vals as [|v vals]; [cbn [length] in Hv; lia|].
    inversion Hnd as [|o' order' Hnin Hnd']; subst.
    cbn [scatter]. destruct i as [|i].
    + cbn [nth] in *. rewrite hp_scatter_other.
      * apply nth_upd_same. exact Ha.
      * intros HIn. apply Hnin. eapply firstn_In. exact HIn.
    + cbn [nth length] in *. apply IH; try assumption; try lia.
      rewrite upd_length. exact Ha.
Qed.

Lemma hp_scatter_firstn : forall (order : list nat) (L : list nat) cs, NoDup order ->
  (forall j, (j < length L)%nat -> In j order) ->
  (forall s, In s order -> (s < length L)%nat) ->
  (forall s, In s (skipn cs order) -> nth s L 0%nat = 0%nat) ->
  scatter order (map (fun s => nth s L 0%nat) (firstn cs order)) (repeat 0%nat (length L)) = L.
Proof.
  intros order L cs Hnd Hall Hlt Hz.
  apply (nth_ext _ _ 0%nat 0%nat).
  - rewrite hp_scatter_length, repeat_length. reflexivity.
  - intros j Hj. rewrite hp_scatter_length, repeat_length in Hj.
    destruct (In_nth _ _ 0%nat (Hall j Hj)) as [i [Hi Hij]].
    destruct (Nat.ltb i cs) eqn:E.
    + apply Nat.ltb_lt in E. rewrite <- Hij.
      rewrite hp_scatter_same; try assumption.
      * rewrite (nth_indep _ 0%nat (nth 0%nat L 0%nat)) by (rewrite map_length, firstn_length; lia).
        rewrite (map_nth (fun s => nth s L 0%nat)).
        rewrite <- (firstn_skipn cs order) at 2.
        rewrite app_nth1 by (rewrite firstn_length; lia). reflexivity.
      * rewrite map_length, firstn_length. lia.
      * rewrite repeat_length. apply Hlt. apply nth_In. exact Hi.
    + apply Nat.ltb_ge in E.
      assert (Hsk : In j (skipn cs order)).
      { rewrite <- Hij. rewrite <- (firstn_skipn cs order) at 1.
        rewrite app_nth2 by (rewrite firstn_length; lia).
        apply nth_In. rewrite firstn_length, skipn_length. lia. }
      rewrite (Hz j Hsk).
      rewrite hp_scatter_other.
      * apply nth_repeat.
      * rewrite map_length. rewrite firstn_firstn.
        intros HIn.
        rewrite <- (firstn_skipn cs order) in Hnd.
        apply NoDup_app_remove_l in Hnd as Hnd2.
        assert (HIn' : In j (firstn cs order)).
        { eapply (firstn_In). rewrite firstn_firstn. 
          replace (Nat.min (Nat.min cs (length (firstn cs order))) cs) with (Nat.min cs (length (firstn cs order))) by lia.
          exact HIn. }
        clear HIn.
        revert Hnd HIn' Hsk. generalize (firstn cs order) (skipn cs order).
        intros a b Hnd Ha Hb.
        induction a as [|x a IHa]; [destruct Ha|].
        cbn [app] in Hnd. inversion Hnd as [|x' l' Hx Hnd']; subst.
        destruct Ha as [-> | Ha].
        -- apply Hx. apply in_or_app. right. exact Hb.
        -- apply IHa; assumption.
Qed.
