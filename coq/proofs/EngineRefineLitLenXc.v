(* EngineRefineLitLenXc.v -- spec-side facts about the extended code `xcodes ll`
   (RModel/EngineRefineSpec.v):
     xcodes_char         its elements, by index of litAndDistHuff (xc_char)
     xcodes_wf           1 <= len <= 20, val < 2^len, symbol <= 512
     xcodes_prefix_free  no extended code word is a proper prefix of another one *)
From Coq Require Import List NArith ZArith Bool Lia ZifyBool ZifyNat ZifyN.
From Verif Require Import Bits Huffman Inflate.
From Verif Require Import Base EngineTables Engine EngineRefineSpec.
From Verif Require Import EngineRefineLitLenBase EngineRefineLitLenDefs EngineRefineLitLenCode.
From Verif Require HuffmanProofs.
Import ListNotations.
Open Scope N_scope.

(* ================================================================ 1. canon, by position *)

Lemma occ_nil : forall x, HuffmanProofs.occ [] x = 0.
Proof. intros x. reflexivity. Qed.

Lemma assign_char : forall r sym nc s x c,
  Forall (fun y => (y < length nc)%nat) r ->
  (In (s, x, c) (assign r sym nc) <->
   exists i, s = (sym + i)%nat /\ (i < length r)%nat /\ nth i r 0%nat = x /\ x <> 0%nat /\
             c = nth x nc 0 + HuffmanProofs.occ (firstn i r) x).
Proof.
  induction r as [|x0 r IH]; intros sym nc s x c HF.
  - cbn [assign In length]. split; [intros []|].
    intros (i & _ & Hi & _). lia.
  - inversion HF as [|y0 r0 Hx0 HFr]; subst.
    cbn [assign]. destruct (Nat.eqb x0 0) eqn:E.
    + apply Nat.eqb_eq in E. subst x0. rewrite (IH _ _ _ _ _ HFr). split.
      * intros (i & Hs & Hi & Hn & Hx & Hc). exists (S i).
        cbn [length nth firstn]. rewrite HuffmanProofs.occ_cons_other by congruence.
        repeat split; try assumption; lia.
      * intros (i & Hs & Hi & Hn & Hx & Hc). destruct i as [|i].
        -- cbn [nth] in Hn. congruence.
        -- exists i. cbn [length nth firstn] in Hi, Hn, Hc.
           rewrite HuffmanProofs.occ_cons_other in Hc by congruence.
           repeat split; try assumption; lia.
    + apply Nat.eqb_neq in E.
      assert (HFr' : Forall (fun y => Nat.lt y (length (upd x0 (nth x0 nc 0 + 1) nc))) r).
      { rewrite HuffmanProofs.upd_length. exact HFr. }
      cbn [In]. rewrite (IH _ _ _ _ _ HFr'). split.
      * intros [HEq|(i & Hs & Hi & Hn & Hx & Hc)].
        -- injection HEq as <- <- <-. exists 0%nat. cbn [length nth firstn].
           rewrite occ_nil. repeat split; try assumption; lia.
        -- exists (S i). cbn [length nth firstn].
           split; [lia|]. split; [lia|]. split; [exact Hn|]. split; [exact Hx|].
           destruct (Nat.eq_dec x0 x) as [He|Hne].
           ++ subst x0. rewrite HuffmanProofs.nth_upd_same in Hc by exact Hx0.
              rewrite HuffmanProofs.occ_cons_same. lia.
           ++ rewrite HuffmanProofs.nth_upd_other in Hc by exact Hne.
              rewrite HuffmanProofs.occ_cons_other by exact Hne. exact Hc.
      * intros (i & Hs & Hi & Hn & Hx & Hc). destruct i as [|i].
        -- left. cbn [nth firstn] in Hn, Hc. rewrite occ_nil in Hc. subst x0.
           f_equal; [f_equal; lia|lia].
        -- right. exists i. cbn [length nth firstn] in Hi, Hn, Hc.
           split; [lia|]. split; [lia|]. split; [exact Hn|]. split; [exact Hx|].
           destruct (Nat.eq_dec x0 x) as [He|Hne].
           ++ subst x0. rewrite HuffmanProofs.nth_upd_same by exact Hx0.
              rewrite HuffmanProofs.occ_cons_same in Hc. lia.
           ++ rewrite HuffmanProofs.nth_upd_other by exact Hne.
              rewrite HuffmanProofs.occ_cons_other in Hc by exact Hne. exact Hc.
Qed.

Lemma nth_le15 : forall ll i, Forall (fun x => (x <= 15)%nat) ll -> (nth i ll 0%nat <= 15)%nat.
Proof.
  intros ll i HF. destruct (Nat.lt_ge_cases i (length ll)) as [Hi|Hi].
  - rewrite Forall_forall in HF. apply HF. apply nth_In. exact Hi.
  - rewrite nth_overflow by exact Hi. lia.
Qed.

Lemma nth_nonzero_lt : forall (ll : lens) i, nth i ll 0%nat <> 0%nat -> (i < length ll)%nat.
Proof.
  intros ll i Hn. destruct (Nat.lt_ge_cases i (length ll)) as [H|H]; [exact H|].
  rewrite nth_overflow in Hn by exact H. congruence.
Qed.

Lemma canon_char : forall ll s x c, Forall (fun x => (x <= 15)%nat) ll ->
  (In (s, x, c) (canon ll) <-> x = nth s ll 0%nat /\ x <> 0%nat /\ c = cw ll s).
Proof.
  intros ll s x c HF. unfold canon.
  assert (HF' : Forall (fun y => (y < length (map (first_code ll) (seq 0 17)))%nat) ll).
  { rewrite map_length, seq_length. rewrite Forall_forall in *.
    intros y Hy. specialize (HF y Hy). lia. }
  rewrite (assign_char _ _ _ _ _ _ HF'). split.
  - intros (i & Hs & Hi & Hn & Hx & Hc). cbn [Nat.add] in Hs. subst i.
    split; [symmetry; exact Hn|]. split; [exact Hx|].
    rewrite HuffmanProofs.nth_first_codes in Hc.
    + unfold cw. rewrite Hn. exact Hc.
    + pose proof (nth_le15 ll s HF). lia.
  - intros (Hn & Hx & Hc). exists s. split; [reflexivity|].
    split; [apply nth_nonzero_lt; congruence|]. split; [symmetry; exact Hn|].
    split; [exact Hx|].
    rewrite HuffmanProofs.nth_first_codes.
    + rewrite Hc. unfold cw. rewrite <- Hn. reflexivity.
    + pose proof (nth_le15 ll s HF). lia.
Qed.

(* ================================================================ 2. the length table *)

Definition tabcheck : bool :=
  forallb (fun k =>
    match nth_error len_table k with
    | None => false
    | Some (base, ebits) =>
      (ebits =? aget rfc_len_extra (N.of_nat k)) && (ebits <=? 5) &&
      (if (k <? 28)%nat then (base + 254 =? xbase k) && (xbase k + xw k <=? 513)
       else (base =? 258) && (xw k =? 1) && (xbase k =? 513))
    end) (seq 0 29).

Lemma tabcheck_true : tabcheck = true.
Proof. vm_compute. reflexivity. Qed.

Lemma len_table_facts : forall k, (k < 29)%nat ->
  exists base ebits, nth_error len_table k = Some (base, ebits) /\
    ebits = aget rfc_len_extra (N.of_nat k) /\ ebits <= 5 /\
    xbase k + xw k <= 514 /\
    (forall x, x < xw k -> base + x + 254 = indexToSym (xbase k + x)).
Proof.
  intros k Hk. pose proof tabcheck_true as H. unfold tabcheck in H.
  rewrite forallb_forall in H. specialize (H k).
  rewrite in_seq in H. specialize (H ltac:(lia)).
  destruct (nth_error len_table k) as [[base ebits]|]; [|discriminate].
  exists base, ebits. split; [reflexivity|].
  destruct (k <? 28)%nat eqn:E.
  - split; [lia|]. split; [lia|]. split; [lia|].
    intros x Hx. unfold indexToSym.
    destruct (N.eqb_spec (xbase k + x) 513) as [He|Hne]; lia.
  - split; [lia|]. split; [lia|]. split; [lia|].
    intros x Hx. unfold indexToSym.
    destruct (N.eqb_spec (xbase k + x) 513) as [He|Hne]; lia.
Qed.

Lemma len_table_some : forall k base ebits, nth_error len_table k = Some (base, ebits) ->
  (k < 29)%nat.
Proof.
  intros k base ebits H.
  assert (Hl : (k < length len_table)%nat) by (apply nth_error_Some; congruence).
  exact Hl.
Qed.

(* ================================================================ 3. xc_char *)

Lemma indexToSym_small : forall i, (i <= 256)%nat -> indexToSym (N.of_nat i) = N.of_nat i.
Proof.
  intros i Hi. unfold indexToSym. destruct (N.eqb_spec (N.of_nat i) 513) as [He|Hne]; [lia|reflexivity].
Qed.

Theorem xcodes_char : forall ll, (length ll <= 286)%nat -> Forall (fun x => (x <= 15)%nat) ll ->
  xc_char ll (xcodes ll).
Proof.
  intros ll Hlen HF s len val. unfold xcodes. rewrite in_flat_map. split.
  - intros ([[s0 x] c] & HIn & Hel). rewrite (canon_char _ _ _ _ HF) in HIn.
    destruct HIn as (Hx & Hx0 & Hc).
    assert (Hs0 : (s0 < length ll)%nat) by (apply nth_nonzero_lt; congruence).
    destruct (s0 <=? 256)%nat eqn:E.
    + apply Nat.leb_le in E. cbn [In] in Hel. destruct Hel as [Hel|[]].
      injection Hel as <- <- <-.
      exists (N.of_nat s0). split; [symmetry; apply indexToSym_small; exact E|].
      left. exists s0. split; [exact E|]. split; [reflexivity|].
      split; [congruence|]. split; [exact Hx|]. subst c. reflexivity.
    + apply Nat.leb_gt in E.
      destruct (nth_error len_table (s0 - 257)) as [[base ebits]|] eqn:Et; [|destruct Hel].
      pose proof (len_table_some _ _ _ Et) as Hk.
      destruct (len_table_facts _ Hk) as (base' & ebits' & Et' & Heb & _ & _ & Hsym).
      rewrite Et in Et'. injection Et' as <- <-.
      rewrite in_map_iff in Hel. destruct Hel as (xx & Hel & Hxx).
      rewrite In_seqN in Hxx. injection Hel as <- <- <-.
      assert (Hxw : xx < xw (s0 - 257)) by (unfold xw; rewrite <- Heb; lia).
      exists (xbase (s0 - 257) + xx). split; [apply Hsym; exact Hxw|].
      right. exists (s0 - 257)%nat, xx.
      replace (257 + (s0 - 257))%nat with s0 by lia.
      split; [exact Hk|]. split; [exact Hxw|]. split; [reflexivity|].
      split; [congruence|]. rewrite <- Heb, <- Hx, <- Hc. split; reflexivity.
  - intros (idx & Hs & [(i & Hi & Hidx & Hn & Hl & Hv)|(k & xx & Hk & Hxx & Hidx & Hn & Hl & Hv)]).
    + exists (i, nth i ll 0%nat, cw ll i). split.
      * rewrite (canon_char _ _ _ _ HF). split; [reflexivity|]. split; [exact Hn|reflexivity].
      * assert (E : (i <=? 256)%nat = true) by (apply Nat.leb_le; exact Hi).
        rewrite E. left. subst idx. rewrite (indexToSym_small _ Hi) in Hs.
        subst s val len. reflexivity.
    + exists ((257 + k)%nat, nth (257 + k) ll 0%nat, cw ll (257 + k)). split.
      * rewrite (canon_char _ _ _ _ HF). split; [reflexivity|]. split; [exact Hn|reflexivity].
      * assert (E : (257 + k <=? 256)%nat = false) by (apply Nat.leb_gt; lia).
        rewrite E. replace (257 + k - 257)%nat with k by lia.
        destruct (len_table_facts _ Hk) as (base & ebits & Et & Heb & _ & _ & Hsym).
        rewrite Et. rewrite in_map_iff. exists xx. split.
        -- rewrite (Hsym _ Hxx), <- Hidx, <- Hs, Heb, <- Hl, <- Hv. reflexivity.
        -- rewrite In_seqN. unfold xw in Hxx. rewrite <- Heb in Hxx. lia.
Qed.

(* ================================================================ 4. xc_wf *)

Lemma nth_ge1 : forall ll i, nth i ll 0%nat <> 0%nat -> (1 <= nth i ll 0%nat)%nat.
Proof. intros ll i H. lia. Qed.

Lemma xval_lt : forall li e c x, x < 2 ^ e ->
  rcode li c + x * 2 ^ N.of_nat li < 2 ^ N.of_nat (li + N.to_nat e).
Proof.
  intros li e c x Hx. pose proof (rcode_lt li c) as Hr.
  rewrite HuffmanProofs.pow2_add. rewrite N2Nat.id.
  remember (2 ^ N.of_nat li) as P. remember (2 ^ e) as Q.
  assert (H : (x + 1) * P <= Q * P) by (apply N.mul_le_mono_r; lia).
  lia.
Qed.

Lemma xcodes_wf_gen : forall ll, (length ll <= 286)%nat -> Forall (fun x => (x <= 15)%nat) ll ->
  xc_wf (xcodes ll).
Proof.
  intros ll Hlen HF s len val HIn.
  apply (xcodes_char ll Hlen HF) in HIn.
  destruct HIn as (idx & Hs & [(i & Hi & Hidx & Hn & Hl & Hv)|(k & xx & Hk & Hxx & Hidx & Hn & Hl & Hv)]).
  - pose proof (nth_le15 ll i HF) as H15. split; [lia|]. split.
    + subst val. apply rcode_lt.
    + subst idx. rewrite (indexToSym_small _ Hi) in Hs. lia.
  - pose proof (nth_le15 ll (257 + k) HF) as H15.
    destruct (len_table_facts _ Hk) as (base & ebits & Et & Heb & He5 & Hb & _).
    rewrite <- Heb in Hl. split; [lia|]. split.
    + subst val len. apply xval_lt. unfold xw in Hxx. rewrite <- Heb in Hxx. exact Hxx.
    + subst s idx. unfold indexToSym.
      destruct (N.eqb_spec (xbase k + xx) 513) as [He|Hne]; lia.
Qed.

Theorem xcodes_wf : forall ll, (length ll <= 286)%nat -> Forall (fun x => (x <= 15)%nat) ll ->
  oversubscribed 15 ll = false -> xc_wf (xcodes ll).
Proof. intros ll Hlen HF _. apply xcodes_wf_gen; assumption. Qed.

(* ================================================================ 5. xc_prefix_free *)

Lemma N_of_bits_inj : forall l1 l2, length l1 = length l2 -> N_of_bits l1 = N_of_bits l2 -> l1 = l2.
Proof.
  induction l1 as [|a l1 IH]; intros l2 Hlen He.
  - destruct l2 as [|b l2]; [reflexivity|]. cbn [length] in Hlen. lia.
  - destruct l2 as [|b l2]; [cbn [length] in Hlen; lia|].
    cbn [length] in Hlen. cbn [N_of_bits] in He.
    assert (Hab : a = b) by (destruct a, b; try reflexivity; lia).
    subst b. f_equal. apply IH; [lia|]. destruct a; lia.
Qed.

(* the low m bits of an extended code word are the first m bits of the canonical code word *)
Lemma low_bits : forall b c x m, (m <= b)%nat ->
  (rcode b c + x * 2 ^ N.of_nat b) mod 2 ^ N.of_nat m = N_of_bits (firstn m (code_bits b c)).
Proof.
  intros b c x m Hm. unfold rcode.
  rewrite <- (firstn_skipn m (code_bits b c)) at 1.
  rewrite HuffmanProofs.N_of_bits_app.
  assert (Hl : length (firstn m (code_bits b c)) = m).
  { rewrite firstn_length, HuffmanProofs.code_bits_length. lia. }
  rewrite Hl.
  replace b with (m + (b - m))%nat at 3 by lia. rewrite HuffmanProofs.pow2_add.
  pose proof (HuffmanProofs.N_of_bits_lt (firstn m (code_bits b c))) as Hlt. rewrite Hl in Hlt.
  pose proof (HuffmanProofs.pow2_pos m) as Hp.
  remember (2 ^ N.of_nat m) as P. remember (2 ^ N.of_nat (b - m)) as Q.
  remember (N_of_bits (firstn m (code_bits b c))) as A.
  remember (N_of_bits (skipn m (code_bits b c))) as B.
  replace (A + P * B + x * (P * Q)) with (A + (B + x * Q) * P) by lia.
  rewrite N.mod_add by lia. apply N.mod_small. exact Hlt.
Qed.

Lemma mod_mod_pow2 : forall v (m l : nat), (m <= l)%nat ->
  (v mod 2 ^ N.of_nat l) mod 2 ^ N.of_nat m = v mod 2 ^ N.of_nat m.
Proof.
  intros v m l Hml.
  pose proof (HuffmanProofs.pow2_pos m) as Hp. pose proof (HuffmanProofs.pow2_pos l) as Hq.
  pose proof (N.div_mod v (2 ^ N.of_nat l) ltac:(lia)) as Hd.
  rewrite Hd at 2.
  replace l with (m + (l - m))%nat at 2 by lia. rewrite HuffmanProofs.pow2_add.
  remember (2 ^ N.of_nat m) as P. remember (2 ^ N.of_nat (l - m)) as Q.
  remember (v / 2 ^ N.of_nat l) as q. remember (v mod 2 ^ N.of_nat l) as r.
  replace (P * Q * q + r) with (r + (Q * q) * P) by lia.
  rewrite N.mod_add by lia. reflexivity.
Qed.

Lemma occ_firstn_strict : forall (l : lens) i j x, x <> 0%nat -> nth i l 0%nat = x -> (i < j)%nat ->
  HuffmanProofs.occ (firstn i l) x < HuffmanProofs.occ (firstn j l) x.
Proof.
  induction l as [|a l IH]; intros i j x Hx Hn Hij.
  - destruct i; cbn [nth] in Hn; congruence.
  - destruct j as [|j]; [lia|]. destruct i as [|i].
    + cbn [nth] in Hn. subst a. cbn [firstn]. rewrite occ_nil, HuffmanProofs.occ_cons_same. lia.
    + cbn [nth] in Hn. cbn [firstn].
      specialize (IH i j x Hx Hn ltac:(lia)).
      destruct (Nat.eq_dec a x) as [->|Hne].
      * rewrite !HuffmanProofs.occ_cons_same. lia.
      * rewrite !HuffmanProofs.occ_cons_other by exact Hne. exact IH.
Qed.

Lemma cw_inj : forall ll i j, nth i ll 0%nat <> 0%nat -> nth j ll 0%nat = nth i ll 0%nat ->
  cw ll i = cw ll j -> i = j.
Proof.
  intros ll i j Hn Hij He. unfold cw in He. rewrite Hij in He.
  destruct (Nat.lt_trichotomy i j) as [H|[H|H]]; [|exact H|].
  - pose proof (occ_firstn_strict ll i j _ Hn eq_refl H). lia.
  - pose proof (occ_firstn_strict ll j i _ Hn Hij H). lia.
Qed.

Lemma cw_good : forall ll i, Forall (fun x => (x <= 15)%nat) ll -> nth i ll 0%nat <> 0%nat ->
  HuffmanProofs.good 15 ll (i, nth i ll 0%nat, cw ll i).
Proof.
  intros ll i HF Hn. unfold HuffmanProofs.good.
  split; [exact Hn|]. split; [apply nth_le15; exact HF|].
  exact (cw_range ll i Hn).
Qed.

Lemma firstn_prefix : forall b1 c1 b2 c2, (b1 <= b2)%nat ->
  firstn b1 (code_bits b1 c1) = firstn b1 (code_bits b2 c2) ->
  HuffmanProofs.prefix (code_bits b1 c1) (code_bits b2 c2).
Proof.
  intros b1 c1 b2 c2 Hb He. exists (skipn b1 (code_bits b2 c2)).
  rewrite firstn_all2 in He by (rewrite HuffmanProofs.code_bits_length; lia).
  rewrite He. symmetry. apply firstn_skipn.
Qed.

(* two code words one of which is a prefix of the other belong to the same symbol *)
Lemma prefix_same : forall ll i1 i2, Forall (fun x => (x <= 15)%nat) ll ->
  oversubscribed 15 ll = false ->
  nth i1 ll 0%nat <> 0%nat -> nth i2 ll 0%nat <> 0%nat ->
  HuffmanProofs.prefix (code_bits (nth i1 ll 0%nat) (cw ll i1)) (code_bits (nth i2 ll 0%nat) (cw ll i2)) ->
  i1 = i2.
Proof.
  intros ll i1 i2 HF Ho H1 H2 Hp.
  destruct (Nat.eq_dec (nth i1 ll 0%nat) (nth i2 ll 0%nat)) as [Hb|Hb].
  - destruct (N.eq_dec (cw ll i1) (cw ll i2)) as [Hc|Hc].
    + apply (cw_inj ll i1 i2 H1); [symmetry; exact Hb|exact Hc].
    + exfalso. revert Hp.
      apply (HuffmanProofs.good_noprefix 15 ll i1 _ _ i2 _ _ Ho (cw_good _ _ HF H1) (cw_good _ _ HF H2)).
      intros _. exact Hc.
  - exfalso. revert Hp.
    apply (HuffmanProofs.good_noprefix 15 ll i1 _ _ i2 _ _ Ho (cw_good _ _ HF H1) (cw_good _ _ HF H2)).
    intros Hb'. contradiction.
Qed.

(* number of extra bits of the symbol i *)
Definition ext (i : nat) : N :=
  if (i <=? 256)%nat then 0 else aget rfc_len_extra (N.of_nat (i - 257)).

Lemma xin_idx_el : forall ll idx len val, xin_idx ll idx len val ->
  exists i x, nth i ll 0%nat <> 0%nat /\
    len = (nth i ll 0%nat + N.to_nat (ext i))%nat /\
    val = rcode (nth i ll 0%nat) (cw ll i) + x * 2 ^ N.of_nat (nth i ll 0%nat).
Proof.
  intros ll idx len val [(i & Hi & Hidx & Hn & Hl & Hv)|(k & xx & Hk & Hxx & Hidx & Hn & Hl & Hv)].
  - exists i, 0. split; [exact Hn|]. unfold ext.
    assert (E : (i <=? 256)%nat = true) by (apply Nat.leb_le; exact Hi). rewrite E.
    split; [change (N.to_nat 0) with 0%nat; lia|]. subst len. lia.
  - exists (257 + k)%nat, xx. split; [exact Hn|]. unfold ext.
    assert (E : (257 + k <=? 256)%nat = false) by (apply Nat.leb_gt; lia). rewrite E.
    replace (257 + k - 257)%nat with k by lia. split; [exact Hl|exact Hv].
Qed.

Theorem xcodes_prefix_free : forall ll, (length ll <= 286)%nat -> Forall (fun x => (x <= 15)%nat) ll ->
  oversubscribed 15 ll = false -> xc_prefix_free (xcodes ll).
Proof.
  intros ll Hlen HF Ho s1 l1 v1 s2 l2 v2 HIn1 HIn2 Hle Hland.
  apply (xcodes_char ll Hlen HF) in HIn1. apply (xcodes_char ll Hlen HF) in HIn2.
  destruct HIn1 as (idx1 & _ & HX1). destruct HIn2 as (idx2 & _ & HX2).
  destruct (xin_idx_el _ _ _ _ HX1) as (i1 & x1 & Hn1 & Hl1 & Hv1).
  destruct (xin_idx_el _ _ _ _ HX2) as (i2 & x2 & Hn2 & Hl2 & Hv2).
  rewrite N.land_ones in Hland.
  assert (Hi : i1 = i2).
  { remember (nth i1 ll 0%nat) as b1. remember (nth i2 ll 0%nat) as b2.
    assert (Hm : forall m, (m <= b1)%nat -> (m <= b2)%nat ->
              firstn m (code_bits b1 (cw ll i1)) = firstn m (code_bits b2 (cw ll i2))).
    { intros m Hm1 Hm2. apply N_of_bits_inj.
      - rewrite !firstn_length, !HuffmanProofs.code_bits_length. lia.
      - rewrite <- (low_bits b1 _ x1 m Hm1), <- (low_bits b2 _ x2 m Hm2).
        rewrite <- Hv1, <- Hv2, <- Hland. apply mod_mod_pow2. lia. }
    destruct (Nat.le_ge_cases b1 b2) as [Hb|Hb].
    - apply (prefix_same ll i1 i2 HF Ho); [congruence|congruence|].
      rewrite <- Heqb1, <- Heqb2. apply firstn_prefix; [exact Hb|].
      apply Hm; lia.
    - symmetry. apply (prefix_same ll i2 i1 HF Ho); [congruence|congruence|].
      rewrite <- Heqb1, <- Heqb2. apply firstn_prefix; [exact Hb|].
      symmetry. apply Hm; lia. }
  subst i2. lia.
Qed.

Print Assumptions xcodes_char.
Print Assumptions xcodes_wf.
Print Assumptions xcodes_prefix_free.
