(* EngineRefineBits.v -- M1: the bit buffer of RModel/Engine.v as an abstract bit stream
   (statements in RModel/EngineRefineSpec.v). *)
From Coq Require Import List NArith ZArith Bool Lia ZifyBool ZifyNat ZifyN.
From Verif Require Import Base EngineTables Engine EngineRefineSpec.
From Verif Require Import Bits Huffman Inflate.
Import ListNotations.
Open Scope N_scope.

(* ---------------------------------------------------------------- lists of bits *)
Lemma bits_of_N_length : forall n v, length (bits_of_N n v) = n.
Proof. induction n as [|n IH]; intros v; cbn [bits_of_N length]; [reflexivity|now rewrite IH]. Qed.

Lemma nth_bits_of_N : forall n v i, (i < n)%nat ->
  nth i (bits_of_N n v) false = N.testbit v (N.of_nat i).
Proof.
  induction n as [|n IH]; intros v i Hi; [lia|].
  cbn [bits_of_N]. destruct i as [|i]; cbn [nth].
  - symmetry. apply N.bit0_odd.
  - rewrite IH by lia. rewrite Nat2N.inj_succ. symmetry. apply N.testbit_succ_r_div2. lia.
Qed.

Lemma nth_bits_of_N_ge : forall n v i, (n <= i)%nat -> nth i (bits_of_N n v) false = false.
Proof. intros n v i H. apply nth_overflow. rewrite bits_of_N_length. exact H. Qed.

Lemma testbit_N_of_bits : forall l i, N.testbit (N_of_bits l) (N.of_nat i) = nth i l false.
Proof.
  induction l as [|b r IH]; intros i.
  - cbn [N_of_bits]. destruct i; reflexivity.
  - cbn [N_of_bits]. destruct i as [|i].
    + cbn [nth]. change (N.of_nat 0) with 0.
      destruct b.
      * replace (1 + 2 * N_of_bits r) with (2 * N_of_bits r + 1) by lia. apply N.testbit_odd_0.
      * rewrite N.add_0_l. apply N.testbit_even_0.
    + cbn [nth]. rewrite Nat2N.inj_succ. rewrite <- IH.
      destruct b.
      * replace (1 + 2 * N_of_bits r) with (2 * N_of_bits r + 1) by lia. apply N.testbit_odd_succ. lia.
      * rewrite N.add_0_l. apply N.testbit_even_succ. lia.
Qed.

Lemma N_of_bits_lt : forall l, N_of_bits l < 2 ^ N.of_nat (length l).
Proof.
  induction l as [|b r IH].
  - cbn. lia.
  - cbn [length N_of_bits]. rewrite Nat2N.inj_succ, N.pow_succ_r by lia. destruct b; lia.
Qed.

Lemma N_of_bits_app : forall l1 l2,
  N_of_bits (l1 ++ l2) = N_of_bits l1 + 2 ^ N.of_nat (length l1) * N_of_bits l2.
Proof.
  induction l1 as [|b r IH]; intros l2.
  - cbn [app length N_of_bits]. change (2 ^ N.of_nat 0) with 1. lia.
  - cbn [app length N_of_bits]. rewrite IH, Nat2N.inj_succ, N.pow_succ_r by lia. lia.
Qed.

Lemma N_of_bits_of_N : forall n v, v < 2 ^ N.of_nat n -> N_of_bits (bits_of_N n v) = v.
Proof.
  intros n v Hv. apply N.bits_inj. intros i.
  rewrite <- (N2Nat.id i). rewrite testbit_N_of_bits.
  destruct (Nat.ltb_spec (N.to_nat i) n) as [Hi|Hi].
  - apply nth_bits_of_N. exact Hi.
  - rewrite nth_bits_of_N_ge by exact Hi. symmetry.
    destruct (N.eq_dec v 0) as [->|Hv0]; [apply N.bits_0|].
    apply N.bits_above_log2. apply N.log2_lt_pow2; [lia|].
    eapply N.lt_le_trans; [exact Hv|]. apply N.pow_le_mono_r; lia.
Qed.

Lemma N_of_bits_inj_testbit : forall l v, (forall i, N.testbit v (N.of_nat i) = nth i l false) ->
  v = N_of_bits l.
Proof.
  intros l v H. apply N.bits_inj. intros i. rewrite <- (N2Nat.id i).
  rewrite testbit_N_of_bits. apply H.
Qed.

Lemma bits_of_bytes_cons : forall x r, bits_of_bytes (x :: r) = bits_of_N 8 x ++ bits_of_bytes r.
Proof. reflexivity. Qed.

Lemma bits_of_bytes_app : forall a b, bits_of_bytes (a ++ b) = bits_of_bytes a ++ bits_of_bytes b.
Proof. intros a b. unfold bits_of_bytes. apply flat_map_app. Qed.

Lemma bits_of_bytes_length : forall l, length (bits_of_bytes l) = (8 * length l)%nat.
Proof.
  induction l as [|x r IH]; [reflexivity|].
  rewrite bits_of_bytes_cons, app_length, bits_of_N_length, IH. cbn [length]. lia.
Qed.

(* the value of a little-endian byte string *)
Lemma N_of_bits_bytes_cons : forall x r, x < 256 ->
  N_of_bits (bits_of_bytes (x :: r)) = x + 256 * N_of_bits (bits_of_bytes r).
Proof.
  intros x r Hx. rewrite bits_of_bytes_cons, N_of_bits_app, bits_of_N_length.
  rewrite N_of_bits_of_N by (cbn; lia). reflexivity.
Qed.

Lemma le64_bits : forall a0 a1 a2 a3 a4 a5 a6 a7,
  a0 < 256 -> a1 < 256 -> a2 < 256 -> a3 < 256 -> a4 < 256 -> a5 < 256 -> a6 < 256 -> a7 < 256 ->
  le64 a0 a1 a2 a3 a4 a5 a6 a7 = N_of_bits (bits_of_bytes [a0; a1; a2; a3; a4; a5; a6; a7]).
Proof.
  intros. repeat rewrite N_of_bits_bytes_cons by assumption.
  change (N_of_bits (bits_of_bytes [])) with 0.
  unfold le64. rewrite !N.shiftl_mul_pow2.
  change (2 ^ 8) with 256. change (2 ^ 16) with 65536. change (2 ^ 24) with 16777216.
  change (2 ^ 32) with 4294967296. change (2 ^ 40) with 1099511627776.
  change (2 ^ 48) with 281474976710656. change (2 ^ 56) with 72057594037927936. lia.
Qed.

(* ---------------------------------------------------------------- the abstract stream *)
Lemma br_bits_nth_low : forall b i, (Z.of_nat i < r_len b)%Z ->
  nth i (br_bits b) false = N.testbit (r_bits b) (N.of_nat i).
Proof.
  intros b i Hi. unfold br_bits. rewrite app_nth1 by (rewrite bits_of_N_length; lia).
  apply nth_bits_of_N. lia.
Qed.

Lemma br_bits_nth_high : forall b i, (0 <= r_len b)%Z -> (r_len b <= Z.of_nat i)%Z ->
  nth i (br_bits b) false = nth (i - Z.to_nat (r_len b)) (bits_of_bytes (r_in b)) false.
Proof.
  intros b i H0 Hi. unfold br_bits. rewrite app_nth2 by (rewrite bits_of_N_length; lia).
  rewrite bits_of_N_length. reflexivity.
Qed.

Lemma br_bits_length : forall b,
  length (br_bits b) = (Z.to_nat (r_len b) + 8 * length (r_in b))%nat.
Proof. intros b. unfold br_bits. rewrite app_length, bits_of_N_length, bits_of_bytes_length. reflexivity. Qed.

(* OR-ing stream bits into the buffer and counting c more bytes keeps the stream *)
Lemma br_merge : forall b X c,
  br_wf b -> (0 <= r_len b)%Z -> (r_len b + 8 * Z.of_nat c <= 64)%Z -> (c <= length (r_in b))%nat ->
  (forall i, N.testbit X i = true -> nth (N.to_nat i) (br_bits b) false = true) ->
  (forall i, (r_len b <= Z.of_nat i < r_len b + 8 * Z.of_nat c)%Z ->
             nth i (br_bits b) false = true -> N.testbit X (N.of_nat i) = true) ->
  let b' := mkBR (N.lor (r_bits b) X) (r_len b + 8 * Z.of_nat c)%Z (skipn c (r_in b))
                 (r_inlen b - N.of_nat c) in
  br_wf b' /\ br_bits b' = br_bits b.
Proof.
  intros b X c (W1 & W2 & W3 & W4 & W5) H0 H64 Hc HX1 HX2 b'.
  assert (Hsplit : br_bits b = (bits_of_N (Z.to_nat (r_len b)) (r_bits b) ++ bits_of_bytes (firstn c (r_in b)))
                               ++ bits_of_bytes (skipn c (r_in b))).
  { unfold br_bits. rewrite <- app_assoc, <- bits_of_bytes_app, firstn_skipn. reflexivity. }
  assert (Hbits : br_bits b' = br_bits b).
  { rewrite Hsplit. unfold br_bits at 1. unfold b'. cbn [r_len r_bits r_in].
    f_equal.
    apply (nth_ext _ _ false false).
    - rewrite app_length, !bits_of_N_length, bits_of_bytes_length, firstn_length. lia.
    - intros i Hi. rewrite bits_of_N_length in Hi.
      rewrite nth_bits_of_N by exact Hi. rewrite N.lor_spec.
      (* the stream bit at position i *)
      assert (Hs : nth i (bits_of_N (Z.to_nat (r_len b)) (r_bits b) ++ bits_of_bytes (firstn c (r_in b))) false
                   = nth i (br_bits b) false).
      { rewrite Hsplit. symmetry. apply app_nth1.
        rewrite app_length, bits_of_N_length, bits_of_bytes_length, firstn_length. lia. }
      rewrite Hs.
      destruct (nth i (br_bits b) false) eqn:Es.
      + destruct (Z.ltb_spec (Z.of_nat i) (r_len b)) as [Hlo|Hhi].
        * rewrite br_bits_nth_low in Es by exact Hlo. rewrite Es. reflexivity.
        * rewrite (HX2 i) by (try exact Es; lia). apply orb_true_r.
      + destruct (N.testbit (r_bits b) (N.of_nat i)) eqn:E1.
        { apply W5 in E1. rewrite Nat2N.id in E1. congruence. }
        destruct (N.testbit X (N.of_nat i)) eqn:E2.
        { apply HX1 in E2. rewrite Nat2N.id in E2. congruence. }
        reflexivity. }
  split; [|exact Hbits].
  unfold br_wf. rewrite Hbits. unfold b'; cbn [r_len r_bits r_in r_inlen].
  split; [rewrite skipn_length; lia|].
  split; [lia|]. split; [intros; lia|].
  split.
  - rewrite <- (firstn_skipn c (r_in b)) in W4. apply Forall_app in W4. exact (proj2 W4).
  - intros i Hi. rewrite N.lor_spec in Hi. apply orb_true_iff in Hi. destruct Hi as [Hi|Hi].
    + apply W5; exact Hi.
    + apply HX1; exact Hi.
Qed.

Lemma shl64_testbit : forall x n i, n <= 64 -> x < 2 ^ 64 ->
  N.testbit (shl64 x n) i = (i <? 64) && (n <=? i) && N.testbit x (i - n).
Proof.
  intros x n i Hn Hx. unfold shl64.
  destruct (N.leb_spec 64 n) as [H|H].
  - assert (n = 64) by lia. subst n. rewrite N.bits_0.
    destruct (N.ltb_spec i 64); [|reflexivity].
    replace (64 <=? i) with false by lia. reflexivity.
  - unfold u64, mask64. change 18446744073709551615 with (N.ones 64).
    rewrite N.land_spec.
    destruct (N.ltb_spec i 64) as [Hi|Hi].
    + rewrite N.ones_spec_low by lia. rewrite andb_true_r. cbn [andb].
      destruct (N.leb_spec n i) as [Hni|Hni].
      * rewrite N.shiftl_spec_high' by lia. reflexivity.
      * rewrite N.shiftl_spec_low by lia. reflexivity.
    + rewrite N.ones_spec_high by lia. apply andb_false_r.
Qed.

Lemma testbit_lt_pow2 : forall x k i, x < 2 ^ k -> k <= i -> N.testbit x i = false.
Proof.
  intros x k i Hx Hi. destruct (N.eq_dec x 0) as [->|Hx0]; [apply N.bits_0|].
  apply N.bits_above_log2. apply N.log2_lt_pow2; [lia|].
  eapply N.lt_le_trans; [exact Hx|]. apply N.pow_le_mono_r; lia.
Qed.

(* one byte *)
Lemma load_byte_bits : forall b x rest,
  br_wf b -> (0 <= r_len b)%Z -> (r_len b + 8 <= 64)%Z -> r_in b = x :: rest ->
  let b' := mkBR (N.lor (r_bits b) (shl64 x (Z.to_N (r_len b)))) (r_len b + 8)%Z rest (r_inlen b - 1) in
  br_wf b' /\ br_bits b' = br_bits b.
Proof.
  intros b x rest Hwf H0 H64 Hin b'.
  pose proof Hwf as (W1 & W2 & W3 & W4 & W5).
  assert (Hx : x < 256). { rewrite Hin in W4. inversion W4; assumption. }
  pose proof (br_merge b (shl64 x (Z.to_N (r_len b))) 1 Hwf H0 ltac:(lia)
               ltac:(rewrite Hin; cbn [length]; lia)) as M.
  cbn zeta in M. rewrite Hin in M. cbn [skipn] in M.
  replace (r_len b + 8 * Z.of_nat 1)%Z with (r_len b + 8)%Z in M by lia.
  change (N.of_nat 1) with 1 in M.
  apply M; clear M.
  - intros i Hi. rewrite shl64_testbit in Hi by (try lia; change (2^64) with 18446744073709551616; lia).
    apply andb_true_iff in Hi. destruct Hi as [Hi Hi3]. apply andb_true_iff in Hi. destruct Hi as [Hi1 Hi2].
    assert (Hlt : i - Z.to_N (r_len b) < 8).
    { destruct (N.ltb_spec (i - Z.to_N (r_len b)) 8) as [|Hge]; [assumption|].
      rewrite (testbit_lt_pow2 x 8) in Hi3 by (try lia; exact Hx). discriminate. }
    rewrite br_bits_nth_high by lia. rewrite Hin, bits_of_bytes_cons.
    rewrite app_nth1 by (rewrite bits_of_N_length; lia).
    rewrite nth_bits_of_N by lia. rewrite <- Hi3. f_equal. lia.
  - intros i Hi Hs. rewrite shl64_testbit by (try lia; change (2^64) with 18446744073709551616; lia).
    rewrite br_bits_nth_high in Hs by lia. rewrite Hin, bits_of_bytes_cons in Hs.
    rewrite app_nth1 in Hs by (rewrite bits_of_N_length; lia).
    rewrite nth_bits_of_N in Hs by lia.
    replace (N.of_nat i <? 64) with true by lia.
    replace (Z.to_N (r_len b) <=? N.of_nat i) with true by lia. cbn [andb].
    rewrite <- Hs. f_equal. lia.
Qed.

Lemma load_bytes_bits : forall n b,
  br_wf b -> (0 <= r_len b)%Z -> (r_len b + 8 * Z.of_nat n <= 64)%Z ->
  let b' := load_bytes n b in
  let m := Nat.min n (length (r_in b)) in
  br_wf b' /\ br_bits b' = br_bits b /\ r_len b' = (r_len b + 8 * Z.of_nat m)%Z /\
  r_in b' = skipn m (r_in b).
Proof.
  induction n as [|n IH]; intros b Hwf H0 H64; cbn [load_bytes].
  - cbn zeta. cbn [Nat.min skipn]. split; [exact Hwf|]. split; [reflexivity|]. split; [lia|reflexivity].
  - destruct (r_in b) as [|x rest] eqn:Ein.
    + cbn zeta. cbn [length]. rewrite Nat.min_0_r. cbn [skipn].
      split; [exact Hwf|]. split; [reflexivity|]. split; [lia|]. exact Ein.
    + pose proof (load_byte_bits b x rest Hwf H0 ltac:(lia) Ein) as (Hwf1 & Hb1).
      set (b1 := mkBR (N.lor (r_bits b) (shl64 x (Z.to_N (r_len b)))) (r_len b + 8)%Z rest (r_inlen b - 1)) in *.
      specialize (IH b1 Hwf1). cbn zeta in IH.
      assert (E1 : r_len b1 = (r_len b + 8)%Z) by reflexivity.
      assert (E2 : r_in b1 = rest) by reflexivity.
      rewrite E1, E2 in IH.
      destruct IH as (I1 & I2 & I3 & I4); [lia|lia|].
      cbn zeta. cbn [length]. rewrite <- Nat.succ_min_distr. cbn [skipn].
      split; [exact I1|]. split; [congruence|]. split; [lia|exact I4].
Qed.

Lemma firstn8_eq : forall (l : list N) a0 a1 a2 a3 a4 a5 a6 a7 r,
  l = a0 :: a1 :: a2 :: a3 :: a4 :: a5 :: a6 :: a7 :: r ->
  l = [a0; a1; a2; a3; a4; a5; a6; a7] ++ r.
Proof. intros; subst; reflexivity. Qed.

Theorem load_raw_bits : load_raw_bits_statement.
Proof.
  intros b Hwf. pose proof Hwf as (W1 & W2 & W3 & W4 & W5).
  unfold load_raw.
  destruct (r_len b <? 0)%Z eqn:Eneg.
  - rewrite W1, (W3 ltac:(lia)). cbn [length N.of_nat N.eqb].
    exists b. split; [reflexivity|]. split; [exact Hwf|]. split; [reflexivity|].
    split; [left; apply W3; lia|]. lia.
  - destruct (64 <? r_len b)%Z eqn:E64; [lia|].
    set (n := Z.to_N (r_len b)).
    assert (Hn : Z.of_N n = r_len b) by (unfold n; lia).
    destruct (8 <=? r_inlen b) eqn:E8.
    + destruct (r_in b) as [|a0 [|a1 [|a2 [|a3 [|a4 [|a5 [|a6 [|a7 rest]]]]]]]] eqn:Ein;
        cbn [length] in W1; try lia.
      eexists. split; [reflexivity|].
      set (c := 8 - (n + 7) / 8).
      assert (Hc2 : 8 * ((n + 7) / 8) <= n + 7) by (apply N.mul_div_le; lia).
      assert (Hc3 : n + 7 < 8 * ((n + 7) / 8) + 8).
      { pose proof (N.div_mod (n + 7) 8 ltac:(lia)). pose proof (N.mod_lt (n + 7) 8 ltac:(lia)). lia. }
      assert (Hcv : c + (n + 7) / 8 = 8) by (unfold c; lia).
      assert (Esplit : r_in b = [a0; a1; a2; a3; a4; a5; a6; a7] ++ rest) by (rewrite Ein; reflexivity).
      assert (Hb : Forall (fun x => x < 256) [a0; a1; a2; a3; a4; a5; a6; a7]).
      { change (a0 :: a1 :: a2 :: a3 :: a4 :: a5 :: a6 :: a7 :: rest)
          with ([a0; a1; a2; a3; a4; a5; a6; a7] ++ rest) in W4. apply Forall_app in W4. exact (proj1 W4). }
      assert (Ht : le64 a0 a1 a2 a3 a4 a5 a6 a7 = N_of_bits (bits_of_bytes [a0; a1; a2; a3; a4; a5; a6; a7])).
      { repeat match goal with H : Forall _ (_ :: _) |- _ => inversion H; clear H; subst end.
        apply le64_bits; assumption. }
      set (temp := le64 a0 a1 a2 a3 a4 a5 a6 a7) in *.
      assert (Htlt : temp < 2 ^ 64).
      { rewrite Ht. eapply N.lt_le_trans; [apply N_of_bits_lt|].
        rewrite bits_of_bytes_length. cbn [length]. apply N.pow_le_mono_r; lia. }
      assert (Htb : forall j, N.testbit temp (N.of_nat j) = true ->
                    (j < 64)%nat /\ nth j (bits_of_bytes (r_in b)) false = true).
      { intros j Hj. rewrite Ht, testbit_N_of_bits in Hj.
        assert (j < 64)%nat.
        { destruct (Nat.ltb_spec j 64); [assumption|].
          rewrite nth_overflow in Hj; [discriminate|]. rewrite bits_of_bytes_length. cbn [length]. lia. }
        split; [assumption|].
        rewrite Esplit, bits_of_bytes_app.
        rewrite app_nth1 by (rewrite bits_of_bytes_length; cbn [length]; lia). exact Hj. }
      assert (Htb2 : forall j, (j < 64)%nat -> nth j (bits_of_bytes (r_in b)) false = true ->
                     N.testbit temp (N.of_nat j) = true).
      { intros j Hj Hs. rewrite Ht, testbit_N_of_bits.
        rewrite Esplit, bits_of_bytes_app in Hs.
        rewrite app_nth1 in Hs by (rewrite bits_of_bytes_length; cbn [length]; lia). exact Hs. }
      pose proof (br_merge b (shl64 temp n) (N.to_nat c) Hwf ltac:(lia) ltac:(lia)
                    ltac:(rewrite Ein; cbn [length]; lia)) as M.
      cbn zeta in M. rewrite Ein in M.
      replace (r_len b + 8 * Z.of_nat (N.to_nat c))%Z with (r_len b + 8 * Z.of_N c)%Z in M by lia.
      rewrite N2Nat.id in M.
      destruct M as (M1 & M2).
      * intros i Hi. rewrite shl64_testbit in Hi by (try lia; exact Htlt).
        apply andb_true_iff in Hi. destruct Hi as [Hi Hi3]. apply andb_true_iff in Hi. destruct Hi as [Hi1 Hi2].
        rewrite <- (N2Nat.id (i - n)) in Hi3. apply Htb in Hi3. destruct Hi3 as [Hj Hs].
        rewrite br_bits_nth_high by lia. rewrite <- Hs. f_equal. lia.
      * intros i Hi Hs. rewrite shl64_testbit by (try lia; exact Htlt).
        rewrite br_bits_nth_high in Hs by lia.
        replace (N.of_nat i <? 64) with true by lia.
        replace (n <=? N.of_nat i) with true by lia. cbn [andb].
        replace (N.of_nat i - n) with (N.of_nat (i - Z.to_nat (r_len b))) by lia.
        apply Htb2; [lia|exact Hs].
      * split; [exact M1|]. split; [exact M2|].
        split; [right; cbn [r_len]; lia|]. cbn [r_len]. lia.
    + set (size := N.min ((64 - n) / 8) (r_inlen b)).
      assert (Hd : 8 * ((64 - n) / 8) <= 64 - n) by (apply N.mul_div_le; lia).
      assert (Hd2 : 64 - n < 8 * ((64 - n) / 8) + 8).
      { pose proof (N.div_mod (64 - n) 8 ltac:(lia)). pose proof (N.mod_lt (64 - n) 8 ltac:(lia)). lia. }
      pose proof (load_bytes_bits (N.to_nat size) b Hwf ltac:(lia) ltac:(unfold size; lia)) as L.
      cbn zeta in L. destruct L as (L1 & L2 & L3 & L4).
      eexists. split; [reflexivity|]. split; [exact L1|]. split; [exact L2|].
      assert (Hm : N.of_nat (Nat.min (N.to_nat size) (length (r_in b))) = size) by (unfold size; lia).
      split.
      * unfold br_loaded. rewrite L3, L4.
        assert (Hs3 : size = r_inlen b \/ size = (64 - n) / 8) by (unfold size; lia).
        destruct Hs3 as [Hs3|Hs3].
        -- left. apply length_zero_iff_nil. rewrite skipn_length. lia.
        -- right. lia.
      * rewrite L3. lia.
Qed.

Theorem load_lt57_bits : load_lt57_bits_statement.
Proof.
  intros b Hwf. unfold load_lt57. destruct (r_len b <? 57)%Z eqn:E.
  - destruct (load_raw_bits b Hwf) as (b' & L1 & L2 & L3 & L4 & L5 & L6).
    exists b'. split; [exact L1|]. split; [exact L2|]. split; [exact L3|]. split; [exact L4|exact L5].
  - exists b. split; [reflexivity|]. split; [exact Hwf|]. split; [reflexivity|].
    split; [right; lia|lia].
Qed.

Theorem load_le15_bits : load_le15_bits_statement.
Proof.
  intros b Hwf. unfold load_le15. destruct (r_len b <=? 15)%Z eqn:E.
  - destruct (load_raw_bits b Hwf) as (b' & L1 & L2 & L3 & L4 & L5 & L6).
    exists b'. split; [exact L1|]. split; [exact L2|]. split; [exact L3|].
    split; [|exact L5]. destruct L4 as [L4|L4]; [left; exact L4|right; lia].
  - exists b. split; [reflexivity|]. split; [exact Hwf|]. split; [reflexivity|].
    split; [right; lia|lia].
Qed.

(* ---------------------------------------------------------------- peek / drop *)
Lemma nth_firstn_lt : forall (A : Type) (l : list A) k i d, (i < k)%nat -> nth i (firstn k l) d = nth i l d.
Proof.
  intros A l. induction l as [|x r IH]; intros k i d Hi.
  - rewrite firstn_nil. reflexivity.
  - destruct k as [|k]; [lia|]. cbn [firstn]. destruct i as [|i]; [reflexivity|].
    cbn [nth]. apply IH. lia.
Qed.

Lemma nth_padded : forall l k i, (i < k)%nat -> nth i (padded l k) false = nth i l false.
Proof.
  intros l k i Hi. unfold padded. rewrite nth_firstn_lt by exact Hi.
  destruct (Nat.ltb_spec i (length l)) as [H|H].
  - apply app_nth1; exact H.
  - rewrite app_nth2 by exact H. rewrite nth_repeat. symmetry. apply nth_overflow. exact H.
Qed.

Lemma padded_length : forall l k, length (padded l k) = k.
Proof. intros l k. unfold padded. rewrite firstn_length, app_length, repeat_length. lia. Qed.

Theorem peek_bits : peek_bits_statement.
Proof.
  intros b k Hwf Hl. pose proof Hwf as (W1 & W2 & W3 & W4 & W5).
  apply N_of_bits_inj_testbit. intros i.
  rewrite N.land_spec.
  destruct (Nat.ltb_spec i (N.to_nat k)) as [Hi|Hi].
  - rewrite N.ones_spec_low by lia. rewrite andb_true_r.
    rewrite nth_padded by exact Hi.
    destruct (Z.ltb_spec (Z.of_nat i) (r_len b)) as [Hlo|Hhi].
    + symmetry. apply br_bits_nth_low. exact Hlo.
    + destruct Hl as [Hl|Hl]; [|lia].
      (* input exhausted: no stream bit there, so no buffer bit *)
      destruct (N.testbit (r_bits b) (N.of_nat i)) eqn:E.
      * apply W5 in E. rewrite Nat2N.id in E. rewrite nth_overflow in E; [discriminate|].
        rewrite br_bits_length, Hl. cbn [length]. lia.
      * symmetry. apply nth_overflow. rewrite br_bits_length, Hl. cbn [length]. lia.
  - rewrite N.ones_spec_high by lia. rewrite andb_false_r.
    symmetry. apply nth_overflow. rewrite padded_length. exact Hi.
Qed.

Lemma nth_skipn_add : forall (A : Type) (l : list A) k i d, nth i (skipn k l) d = nth (k + i) l d.
Proof.
  intros A l. induction l as [|x r IH]; intros k i d.
  - rewrite skipn_nil. destruct i, k; reflexivity.
  - destruct k as [|k]; [reflexivity|]. cbn [skipn Nat.add nth]. apply IH.
Qed.

Lemma skipn_bits_of_N : forall n k v, (k <= n)%nat ->
  skipn k (bits_of_N n v) = bits_of_N (n - k) (N.shiftr v (N.of_nat k)).
Proof.
  intros n k v Hk. apply (nth_ext _ _ false false).
  - rewrite skipn_length, !bits_of_N_length. reflexivity.
  - intros i Hi. rewrite skipn_length, bits_of_N_length in Hi.
    rewrite nth_skipn_add. rewrite !nth_bits_of_N by lia.
    rewrite N.shiftr_spec by lia. f_equal. lia.
Qed.

Theorem br_drop_bits : br_drop_bits_statement.
Proof.
  intros b k Hwf Hk. pose proof Hwf as (W1 & W2 & W3 & W4 & W5).
  assert (Hbits : br_bits (br_drop b k) = skipn (N.to_nat k) (br_bits b)).
  { unfold br_bits, br_drop. cbn [r_len r_bits r_in].
    rewrite skipn_app, bits_of_N_length.
    replace (N.to_nat k - Z.to_nat (r_len b))%nat with 0%nat by lia. cbn [skipn].
    f_equal. rewrite skipn_bits_of_N by lia. rewrite N2Nat.id. f_equal. lia. }
  split; [|split; [exact Hbits|rewrite br_bits_length; lia]].
  unfold br_wf. rewrite Hbits. unfold br_drop; cbn [r_len r_bits r_in r_inlen].
  split; [exact W1|]. split; [lia|]. split; [intros; lia|]. split; [exact W4|].
  intros i Hi. rewrite N.shiftr_spec in Hi by lia. apply W5 in Hi.
  rewrite nth_skipn_add. rewrite <- Hi. f_equal. lia.
Qed.

Lemma wf_exhausted_small : forall b, br_wf b -> r_in b = [] -> (0 <= r_len b)%Z ->
  r_bits b < 2 ^ Z.to_N (r_len b).
Proof.
  intros b (W1 & W2 & W3 & W4 & W5) Hin H0.
  destruct (N.eq_dec (r_bits b) 0) as [E|E]; [rewrite E; apply N.neq_0_lt_0, N.pow_nonzero; lia|].
  apply N.log2_lt_pow2; [lia|].
  destruct (N.ltb_spec (N.log2 (r_bits b)) (Z.to_N (r_len b))) as [H|H]; [exact H|].
  pose proof (N.bit_log2 (r_bits b) E) as Hb. apply W5 in Hb.
  rewrite nth_overflow in Hb; [discriminate|]. rewrite br_bits_length, Hin. cbn [length]. lia.
Qed.

Theorem br_drop_short : br_drop_short_statement.
Proof.
  intros b k Hwf Hin Hk. pose proof Hwf as (W1 & W2 & W3 & W4 & W5).
  split; [|split].
  - assert (Hz : N.shiftr (r_bits b) k = 0).
    { apply N.shiftr_eq_0_iff.
      destruct (N.eq_dec (r_bits b) 0) as [E|E]; [left; exact E|right].
      split; [lia|].
      pose proof (wf_exhausted_small b Hwf Hin ltac:(lia)) as Hs.
      apply N.log2_lt_pow2 in Hs; lia. }
    unfold br_wf, br_bits, br_drop; cbn [r_len r_bits r_in r_inlen]. rewrite Hz.
    split; [exact W1|]. split; [lia|]. split; [intros; exact Hin|]. split; [exact W4|].
    intros i Hi. rewrite N.bits_0 in Hi. discriminate.
  - unfold br_drop; cbn [r_len]. lia.
  - rewrite br_bits_length, Hin. cbn [length]. lia.
Qed.

Lemma take_firstn : forall k l e p, (k <= length l)%nat ->
  take k (mkbs (l ++ e) p) = Some (N_of_bits (firstn k l), mkbs (skipn k l ++ e) (p + N.of_nat k)).
Proof.
  induction k as [|k IH]; intros l e p Hk.
  - cbn [take firstn skipn N_of_bits]. rewrite N.add_0_r. reflexivity.
  - destruct l as [|x r]; [cbn [length] in Hk; lia|].
    cbn [take]. unfold take1. cbn [bl app bp].
    rewrite IH by (cbn [length] in Hk; lia).
    cbn [firstn skipn N_of_bits]. replace (p + 1 + N.of_nat k) with (p + N.of_nat (S k)) by lia. reflexivity.
Qed.

Lemma padded_enough : forall l k, (k <= length l)%nat -> padded l k = firstn k l.
Proof. intros l k H. unfold padded. rewrite firstn_app. replace (k - length l)%nat with 0%nat by lia. cbn [firstn]. apply app_nil_r. Qed.

Theorem next_bits_take : next_bits_take_statement.
Proof.
  intros b k e p Hwf Hk. unfold next_bits.
  destruct (br_drop_bits b k Hwf Hk) as (D1 & D2 & D3).
  split; [exact D1|].
  rewrite take_firstn by exact D3. rewrite D2, N2Nat.id.
  rewrite (peek_bits b k Hwf (or_intror Hk)), padded_enough by exact D3. reflexivity.
Qed.

Theorem readBits_take : readBits_take_statement.
Proof.
  intros s k e p Hwf H0 Hk57. unfold readBits, loadBits.
  destruct (load_lt57_bits (rd s) Hwf) as (b1 & L1 & L2 & L3 & L4 & L5).
  rewrite L1. cbn [rd set_rd]. unfold next_bits.
  eexists. eexists. split; [reflexivity|]. cbn [rd set_rd].
  destruct (Z.leb_spec (Z.of_N k) (r_len b1)) as [Hk|Hk].
  - destruct (br_drop_bits b1 k L2 Hk) as (D1 & D2 & D3).
    split; [exact D1|]. split; [destruct s; reflexivity|].
    split.
    + intros _. pose proof (next_bits_take b1 k e p L2 Hk) as T. unfold next_bits in T.
      destruct T as [_ T]. rewrite <- L3. exact T.
    + unfold br_drop; cbn [r_len]. lia.
  - destruct L4 as [L4|L4]; [|lia].
    destruct (br_drop_short b1 k L2 L4 ltac:(lia)) as (D1 & D2 & D3).
    split; [exact D1|]. split; [destruct s; reflexivity|].
    split; [lia|]. intros _. split; [exact L4|]. rewrite <- L3. exact D3.
Qed.

Print Assumptions load_raw_bits.
Print Assumptions load_lt57_bits.
Print Assumptions load_le15_bits.
Print Assumptions peek_bits.
Print Assumptions br_drop_bits.
Print Assumptions br_drop_short.
Print Assumptions next_bits_take.
Print Assumptions readBits_take.
