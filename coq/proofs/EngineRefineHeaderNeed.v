(* EngineRefineHeaderNeed.v -- "ran out of input" is honest for the two header readers: when
   codeLenCodes / readLitDistLens report the end of the input (or readLitDistLens returns nil
   with a negative bit count), the reference run on exactly the bits the engine holds does not
   succeed. *)
From Coq Require Import List NArith ZArith Bool Lia ZifyBool ZifyNat ZifyN.
From Verif Require Import Bits Huffman HuffmanSpec Inflate.
From Verif Require Import Base EngineTables Engine EngineRefineSpec EngineRefineBits EngineRefineBridge.
From Verif Require Import EngineRefineSpecNeed.
From Verif Require Import EngineRefineHeaderBase EngineRefineHeaderDec EngineRefineHeaderArr
     EngineRefineHeaderClc EngineRefineHeaderRL.
Import ListNotations.
Open Scope N_scope.

(* ---------------------------------------------------------------- take on a short stream *)
Lemma take_some_length : forall k l p v s', take k (mkbs l p) = Some (v, s') -> (k <= length l)%nat.
Proof.
  induction k as [|k IH]; intros l p v s' H; [lia|].
  cbn [take] in H. unfold take1 in H. cbn [bl bp] in H.
  destruct l as [|x r]; [discriminate|].
  destruct (take k (mkbs r (p + 1))) as [[v1 s1]|] eqn:E; [|discriminate].
  apply IH in E. cbn [length]. lia.
Qed.

Lemma take_short : forall k l p, (length l < k)%nat -> take k (mkbs l p) = None.
Proof.
  intros k l p H. destruct (take k (mkbs l p)) as [[v s']|] eqn:E; [|reflexivity].
  apply take_some_length in E. lia.
Qed.

Lemma read_clens_length : forall n l p cl s1,
  read_clens n (mkbs l p) = HOk cl s1 -> (3 * n <= length l)%nat.
Proof.
  induction n as [|n IH]; intros l p cl s1 H; [lia|].
  cbn [read_clens] in H.
  destruct (take 3 (mkbs l p)) as [[v [l' p']]|] eqn:E; [|discriminate].
  pose proof (InflateMono.take_len 3 (mkbs l p)) as T. rewrite E in T.
  unfold InflateMono.blen in T. cbn [bl bp] in T.
  destruct (read_clens n (mkbs l' p')) as [cl' s2|x] eqn:E2; [|discriminate].
  apply IH in E2. lia.
Qed.

(* ---------------------------------------------------------------- codeLenCodes *)
Lemma clc_iter_len_gen : forall n i (st : bitrd * arr * arr),
  r_len (fst (fst (iterN n i clc_read3 st))) = (r_len (fst (fst st)) - 3 * Z.of_nat n)%Z /\
  r_in (fst (fst (iterN n i clc_read3 st))) = r_in (fst (fst st)).
Proof.
  induction n as [|n IH]; intros i st.
  - cbn [iterN]. split; [lia|reflexivity].
  - cbn [iterN]. destruct (IH (i + 1) (clc_read3 i st)) as [E1 E2]. rewrite E1, E2.
    destruct st as [[b hf] ct]. cbn [clc_read3 next_bits fst snd br_drop r_len r_in].
    split; [lia|reflexivity].
Qed.

Lemma clc_iter_len : forall n i b hf ct,
  r_len (fst (fst (iterN n i clc_read3 (b, hf, ct)))) = (r_len b - 3 * Z.of_nat n)%Z /\
  r_in (fst (fst (iterN n i clc_read3 (b, hf, ct)))) = r_in b.
Proof. intros. apply (clc_iter_len_gen n i (b, hf, ct)). Qed.

Theorem codeLenCodes_need : codeLenCodes_need_statement.
Proof.
  intros Hgen s hclen p Hwf H0 Hl12 Hh Herr cl s1 Hrd.
  apply read_clens_length in Hrd.
  revert Herr. unfold codeLenCodes, forN.
  change (N.to_nat (4 - 0)) with 4%nat.
  replace (N.to_nat (hclen + 4 - 4)) with (N.to_nat hclen) by lia.
  pose proof (clc_iter 4 0 (rd s) aempty aempty [] Hwf Hl12 ltac:(lia) clc_inv_init) as P1.
  pose proof (clc_iter_len 4 0 (rd s) aempty aempty) as Q1.
  change (N.of_nat 0) with 0 in P1.
  destruct (iterN 4 0 clc_read3 (rd s, aempty, aempty)) as [[b1 hf1] ct1].
  cbn [fst] in Q1. destruct Q1 as [Q1 Q1'].
  destruct P1 as (A1 & A2 & vs1 & A3 & A4 & A5). cbn [app Nat.add] in A4.
  destruct (load_lt57_bits b1 A1) as (b2 & L1 & L2 & L3 & L4 & L5).
  rewrite L1.
  assert (L4' : br_loaded (3 * Z.of_nat (N.to_nat hclen)) b2).
  { apply (br_loaded_mono 57 _ b2); [lia|exact L4]. }
  pose proof (clc_iter (N.to_nat hclen) 4 b2 hf1 ct1 vs1 L2 L4' ltac:(lia) A4) as P2.
  pose proof (clc_iter_len (N.to_nat hclen) 4 b2 hf1 ct1) as Q2.
  change (N.of_nat 4) with 4 in P2.
  destruct (iterN (N.to_nat hclen) 4 clc_read3 (b2, hf1, ct1)) as [[b3 hf3] ct3].
  cbn [fst] in Q2. destruct Q2 as [Q2 Q2'].
  destruct P2 as (B1 & B2 & vs2 & B3 & B4 & B5).
  destruct (Z.ltb_spec (r_len b3) 0) as [Hneg|Hpos].
  - intros _.
    pose proof (br_bits_length (rd s)) as LB0.
    destruct (Z.ltb_spec (r_len b1) 0) as [Hn1|Hp1].
    + (* already the first 12 bits were not there *)
      destruct Hl12 as [Hin|Hc]; [|lia]. rewrite Hin in LB0. cbn [length] in LB0. lia.
    + pose proof (br_bits_length b1) as LB1. pose proof (br_bits_length b2) as LB2.
      rewrite L3 in LB2. rewrite Q1' in LB1.
      destruct L4 as [Hin|Hc]; [|lia]. rewrite Hin in LB2. cbn [length] in LB2. lia.
  - destruct (clc_inv_lens_in _ _ _ _ B4) as [Hli HF7].
    pose proof (Hgen _ hf3 ct3 (clcShort (dyn (set_rd s b3))) (clcLong (dyn (set_rd s b3))) Hli HF7) as G.
    destruct (setCodes hf3 0 19 ct3) as [hf4 bad].
    destruct G as [G1 G2].
    destruct bad; [cbn [snd]; discriminate|].
    specialize (G2 eq_refl).
    destruct (gen_small true _ _ hf4 19 ct3 19) as [[[sh lg] cd] err].
    destruct G2 as [G2 G3]. cbn [snd]. rewrite G2. discriminate.
Qed.

(* ---------------------------------------------------------------- one code-length symbol that
   crosses the end of the real bits: the reference cannot decode it either *)
Lemma clc_need : forall cl ct clcS clcL b0 b1 sym b2,
  mktrie 7 cl = Some ct -> clc_tab_ok cl clcS clcL -> br_wf b0 -> (0 <= r_len b0)%Z ->
  load_le15 b0 = Some b1 -> clc_decode clcS clcL b1 = Some (sym, b2) -> (r_len b2 < 0)%Z ->
  forall p x s', decode_sym ct (mkbs (br_bits b0 ++ []) p) <> DOk x s'.
Proof.
  intros cl ct clcS clcL b0 b1 sym b2 Hmk Hok Hwf H0 Hld Hdec Hneg p x s' Hds.
  destruct (load_le15_bits b0 Hwf) as (b1' & L1 & L2 & L3 & L4 & L5).
  rewrite Hld in L1. injection L1 as <-.
  rewrite app_nil_r, <- L3 in Hds.
  destruct (decode_sym_canon 7 cl ct _ p x s' Hmk Hds) as (len & c & Hin & Hbits & _).
  pose proof (clc_tab_len16 _ _ _ _ _ _ Hok Hin) as Hlen.
  assert (Hll : (len <= length (br_bits b1))%nat).
  { rewrite Hbits, app_length, code_bits_length. lia. }
  assert (Hm : cw_match (r_bits b1) len c).
  { apply (stream_cw_match b1 len c (bl s') [] L2).
    - apply (br_loaded_mono 16 _ b1); [lia|exact L4].
    - rewrite app_nil_r. exact Hbits.
    - exact Hll. }
  pose proof (proj1 (Hok b1) x len c Hin Hm) as D. rewrite Hdec in D.
  assert (E2 : r_len b2 = r_len (br_drop b1 (N.of_nat len))) by congruence.
  rewrite br_drop_len in E2.
  rewrite br_bits_length in Hll.
  destruct L4 as [Hin0|Hc]; [|lia]. rewrite Hin0 in Hll. cbn [length] in Hll. lia.
Qed.

(* the extra bits are not there *)
Lemma xbits_need : forall b k b1 v b2, br_wf b -> (0 <= r_len b)%Z -> k <= 57 ->
  load_raw b = Some b1 -> next_bits b1 k = (v, b2) -> (r_len b2 < 0)%Z ->
  forall p, take (N.to_nat k) (mkbs (br_bits b ++ []) p) = None.
Proof.
  intros b k b1 v b2 Hwf H0 Hk Hld Hnb Hneg p.
  destruct (load_raw_bits b Hwf) as (b1' & L1 & L2 & L3 & L4 & L5 & L6).
  rewrite Hld in L1. injection L1 as <-.
  unfold next_bits in Hnb. injection Hnb as _ <-. rewrite br_drop_len in Hneg.
  destruct L4 as [Hin|Hc]; [|lia].
  destruct (br_drop_short b1 k L2 Hin ltac:(lia)) as (_ & _ & D3).
  rewrite app_nil_r, <- L3. apply take_short. exact D3.
Qed.

(* ---------------------------------------------------------------- the reference stops *)
Lemma read_lens_nodec : forall rf ct total acc s,
  (forall x s', decode_sym ct s <> DOk x s') -> (total <> 0)%nat ->
  forall all s1, read_lens (S rf) ct total acc s <> HOk all s1.
Proof.
  intros rf ct total acc s Hn Ht all s1. destruct total as [|t]; [contradiction|].
  cbn [read_lens]. destruct (decode_sym ct s) as [x s'| |] eqn:E; [|discriminate|discriminate].
  exfalso. apply (Hn x s'). reflexivity.
Qed.

Lemma read_lens_notake : forall rf ct total acc s d s1 ebits base what,
  decode_sym ct s = DOk d s1 -> (16 <= d)%nat ->
  (if (d =? 16)%nat then (2%nat, 3%nat, hd_error acc)
   else if (d =? 17)%nat then (3%nat, 3%nat, Some 0%nat)
   else (7%nat, 11%nat, Some 0%nat)) = (ebits, base, what) ->
  take ebits s1 = None -> (total <> 0)%nat ->
  forall all s2, read_lens (S rf) ct total acc s <> HOk all s2.
Proof.
  intros rf ct total acc s d s1 ebits base what Hd Hge Hsel Htk Ht all s2.
  destruct total as [|t]; [contradiction|].
  cbn [read_lens]. rewrite Hd.
  destruct (Nat.ltb_spec d 16) as [Hc|_]; [lia|].
  rewrite Hsel, Htk. discriminate.
Qed.

(* ---------------------------------------------------------------- the loop *)
Definition need_concl (nlit ndist : nat) (ct : trie) (st : rlst) (L : list nat)
           (res : rlst * ierr) : Prop :=
  let '(st', err) := res in
  (err = EEndInput \/ (err = ENone /\ (r_len (rl_b st') < 0)%Z)) ->
  forall rf p all s1, (nlit + ndist - length L <= rf)%nat ->
    read_lens rf ct (nlit + ndist - length L) (rev L) (mkbs (br_bits (rl_b st) ++ []) p)
    <> HOk all s1.

Lemma need_err : forall nlit ndist ct st L st' err,
  err <> EEndInput -> err <> ENone -> need_concl nlit ndist ct st L (st', err).
Proof.
  intros nlit ndist ct st L st' err H1 H2. unfold need_concl.
  intros [E|[E _]]; contradiction.
Qed.

Lemma need_fail : forall nlit ndist ct st L res,
  (length L < nlit + ndist)%nat ->
  (forall rf p all s1,
     read_lens (S rf) ct (nlit + ndist - length L) (rev L) (mkbs (br_bits (rl_b st) ++ []) p)
     <> HOk all s1) ->
  need_concl nlit ndist ct st L res.
Proof.
  intros nlit ndist ct st L [st' err] Hroom H. unfold need_concl.
  intros _ rf p all s1 Hrf. destruct rf as [|rf]; [lia|]. apply H.
Qed.

Lemma need_chain : forall nlit ndist ct st L st1 L1 res,
  need_concl nlit ndist ct st1 L1 res ->
  (length L < length L1)%nat ->
  (forall rf p, exists pp,
     read_lens (S rf) ct (nlit + ndist - length L) (rev L) (mkbs (br_bits (rl_b st) ++ []) p)
     = read_lens rf ct (nlit + ndist - length L1) (rev L1) (mkbs (br_bits (rl_b st1) ++ []) pp)) ->
  (length L < nlit + ndist)%nat ->
  need_concl nlit ndist ct st L res.
Proof.
  intros nlit ndist ct st L st1 L1 [st' err] R Hlen Hstep Hroom. unfold need_concl in *.
  intros Hp rf p all s1 Hrf. destruct rf as [|rf]; [lia|].
  destruct (Hstep rf p) as [pp Hpp]. rewrite Hpp. apply (R Hp). lia.
Qed.

Lemma rl_over2 : forall f clcS clcL split endv st, (endv < rl_curr st)%Z ->
  exists err, rl_loop f clcS clcL split endv st = (st, err) /\ err <> ENone /\ err <> EEndInput.
Proof.
  intros f clcS clcL split endv st H. destruct f as [|f]; cbn [rl_loop].
  - exists EFuel. split; [reflexivity|split; discriminate].
  - destruct (Z.ltb_spec (rl_curr st) endv) as [Hc|_]; [lia|].
    destruct (Z.ltb_spec endv (rl_curr st)) as [_|Hc]; [|lia]. cbn [orb].
    exists EInvalidBlock. split; [reflexivity|split; discriminate].
Qed.

Lemma rl_need : forall nlit ndist cl ct clcS clcL,
  dims_ok nlit ndist -> mktrie 7 cl = Some ct -> clc_tab_ok cl clcS clcL ->
  forall fuel st L, br_wf (rl_b st) -> (0 <= r_len (rl_b st))%Z -> rl_inv nlit ndist st L ->
  need_concl nlit ndist ct st L
    (rl_loop fuel clcS clcL (Z.of_nat nlit) (286 + Z.of_nat ndist)%Z st).
Proof.
  intros nlit ndist cl ct clcS clcL Hd Hmk Hok.
  induction fuel as [|f IH]; intros st L Hwf Hstart Hinv.
  { cbn [rl_loop]. apply need_err; discriminate. }
  cbn [rl_loop].
  destruct (rl_inv_curr_lt _ _ _ _ Hd Hinv) as [Hlt Hle].
  pose proof Hd as [Hnl Hnd].
  destruct (Z.ltb_spec (rl_curr st) (286 + Z.of_nat ndist)) as [Hc|Hc].
  2: { match goal with |- context[if ?c then _ else _] => destruct c end.
       - apply need_err; discriminate.
       - unfold need_concl. intros [E|[_ Hn]]; [discriminate|lia]. }
  assert (Hroom : (length L < nlit + ndist)%nat) by (apply Hlt; exact Hc).
  destruct (clc_step cl ct clcS clcL (rl_b st) Hmk Hok Hwf)
    as (b1 & sym & b2 & L1 & D & W2 & Nneg & Hdec).
  rewrite L1, D.
  set (st0 := rl_set_b st b2).
  assert (Hinv0 : rl_inv nlit ndist st0 L) by exact Hinv.
  destruct (Z.ltb_spec (r_len b2) 0) as [Hneg|Hpos].
  { apply need_fail; [exact Hroom|]. intros rf p.
    apply read_lens_nodec; [|lia].
    apply (clc_need cl ct clcS clcL (rl_b st) b1 sym b2 Hmk Hok Hwf Hstart L1 D Hneg). }
  destruct (Hdec Hpos) as [E511|(d & len & Esym & Hds)].
  { subst sym. cbn [N.ltb N.eqb N.compare Pos.compare Pos.compare_cont Pos.eqb orb].
    apply need_err; discriminate. }
  destruct (N.ltb_spec sym 16) as [T1|T1].
  { (* a length *)
    subst sym.
    destruct (rl_put_ok nlit ndist st0 L d Hd Hinv0 Hroom ltac:(lia)) as (st1 & E1 & I1 & B1).
    rewrite E1.
    apply (need_chain nlit ndist ct st L st1 (L ++ [d])).
    - apply IH; [rewrite B1; exact W2|rewrite B1; exact Hpos|exact I1].
    - rewrite app_length. cbn [length]. lia.
    - intros rf p. exists (p + N.of_nat len).
      rewrite (read_lens_lt16 rf ct (nlit + ndist - length L)%nat (rev L) _ d _ (Hds [] p) ltac:(lia) ltac:(lia)).
      rewrite B1. change (rl_b st0) with b2. rewrite rev_unit, app_length. cbn [length].
      replace (nlit + ndist - length L - 1)%nat with (nlit + ndist - (length L + 1))%nat by lia.
      reflexivity.
    - exact Hroom. }
  destruct (N.eqb_spec sym 16) as [T2|T2].
  { (* repeat the previous length *)
    assert (Ed : d = 16%nat) by lia. subst d. clear Esym.
    destruct (xbits_step b2 2 W2 Hpos ltac:(lia)) as (b3 & ret & b4 & X1 & X2 & X3 & X4).
    rewrite X1, X2.
    set (st2 := rl_set_b st0 b4).
    destruct (Z.ltb_spec (r_len b4) 0) as [Hn4|Hp4].
    { (* the two extra bits are not there *)
      apply need_fail; [exact Hroom|]. intros rf p.
      apply (read_lens_notake rf ct _ (rev L) _ 16%nat _ 2%nat 3%nat (hd_error (rev L))
               (Hds [] p) ltac:(lia) eq_refl); [|lia].
      apply (xbits_need b2 2 b3 ret b4 W2 Hpos ltac:(lia) X1 X2 Hn4). }
    destruct (snoc_case L) as [->|(L0 & v & ->)].
    { rewrite (rl_inv_prev_nil nlit ndist st2 Hinv). rewrite orb_true_r.
      apply need_err; discriminate. }
    destruct (rl_inv_prev nlit ndist st2 _ _ Hd Hinv) as [Hrep Hprev].
    destruct (Z.eqb_spec (rl_prev st2) (-1)) as [Hc'|_]; [contradiction|]. rewrite orb_false_r.
    rewrite Hrep.
    set (L := L0 ++ [v]) in *.
    assert (Hv : (v <= 15)%nat).
    { destruct Hinv as (_ & _ & (A1 & _)). rewrite Forall_forall in A1. apply A1.
      unfold L. apply in_or_app. right. left. reflexivity. }
    assert (Hinv2 : rl_inv nlit ndist st2 L) by exact Hinv.
    replace (Z.to_nat (Z.of_N (3 + ret))) with (3 + N.to_nat ret)%nat by lia.
    destruct (Nat.le_gt_cases (length L + (3 + N.to_nat ret)) (nlit + ndist)) as [Hfit|Hover].
    2: { match goal with |- need_concl _ _ _ _ _ (if ?c then _ else _) =>
           assert (Ec : c = true); [|rewrite Ec] end.
         { destruct Hinv2 as (_ & (P1 & P2) & _).
           destruct P2 as [(Q1 & Q2 & Q3)|(Q1 & Q2 & Q3)]; rewrite Q2;
             (match goal with |- context[(?a <=? ?b)%Z] => destruct (Z.leb_spec a b) end);
             (match goal with |- context[(Z.of_nat nlit <? ?b)%Z] => destruct (Z.ltb_spec (Z.of_nat nlit) b) end);
             cbn [andb];
             (match goal with |- context[(?a <? ?b)%Z] => destruct (Z.ltb_spec a b) end);
             try reflexivity; lia. }
         apply need_err; discriminate. }
    match goal with |- need_concl _ _ _ _ _ (if ?c then _ else _) =>
      assert (Ec : c = false); [|rewrite Ec] end.
    { destruct Hinv2 as (_ & (P1 & P2) & _).
      destruct P2 as [(Q1 & Q2 & Q3)|(Q1 & Q2 & Q3)]; rewrite Q2;
        (match goal with |- context[(?a <=? ?b)%Z] => destruct (Z.leb_spec a b) end);
        (match goal with |- context[(Z.of_nat nlit <? ?b)%Z] => destruct (Z.ltb_spec (Z.of_nat nlit) b) end);
        cbn [andb];
        (match goal with |- context[(?a <? ?b)%Z] => destruct (Z.ltb_spec a b) end);
        try reflexivity; lia. }
    destruct (rl_rep_ok (3 + N.to_nat ret) nlit ndist st2 L v Hd Hinv2 Hfit Hv) as (st3 & E3 & I3 & B3).
    rewrite E3.
    apply (need_chain nlit ndist ct st L st3 (L ++ repeat v (3 + N.to_nat ret))).
    - apply IH; [rewrite B3; exact X3|rewrite B3; exact Hp4|exact I3].
    - rewrite app_length, repeat_length. lia.
    - rewrite B3. change (rl_b st2) with b4. intros rf p. exists (p + N.of_nat len + 2).
      rewrite (read_lens_rep rf ct (nlit + ndist - length L)%nat (rev L) _ 16%nat _ 2%nat 3%nat
                 (hd_error (rev L)) ret _ v
                 (Hds [] p) ltac:(lia) eq_refl (X4 Hp4 [] (p + N.of_nat len))).
      + rewrite rev_app_distr, rev_repeat, app_length, repeat_length.
        replace (nlit + ndist - length L - (3 + N.to_nat ret))%nat
          with (nlit + ndist - (length L + (3 + N.to_nat ret)))%nat by lia.
        reflexivity.
      + unfold L. rewrite rev_unit. reflexivity.
      + lia.
      + lia.
    - exact Hroom. }
  destruct (N.eqb_spec sym 17) as [T3|T3]; [|destruct (N.eqb_spec sym 18) as [T4|T4]]; cbn [orb].
  3: { apply need_err; discriminate. }
  { (* 3..10 zeros *)
    assert (Ed : d = 17%nat) by lia. subst d. clear Esym.
    destruct (xbits_step b2 3 W2 Hpos ltac:(lia)) as (b3 & ret & b4 & X1 & X2 & X3 & X4).
    rewrite X1, X2.
    destruct (Z.ltb_spec (r_len b4) 0) as [Hn4|Hp4].
    { apply need_fail; [exact Hroom|]. intros rf p.
      apply (read_lens_notake rf ct _ (rev L) _ 17%nat _ 3%nat 3%nat (Some 0%nat)
               (Hds [] p) ltac:(lia) eq_refl); [|lia].
      apply (xbits_need b2 3 b3 ret b4 W2 Hpos ltac:(lia) X1 X2 Hn4). }
    pose proof (rl_zeros_state nlit ndist st0 L (Z.of_N (3 + ret)) b4 Hd Hinv0 ltac:(lia)) as Zs.
    cbv zeta in Zs. revert Zs.
    match goal with |- context[if ?c then _ else _] => destruct c end; intros [Zs1 Zs2].
    all: replace (Z.to_nat (Z.of_N (3 + ret))) with (3 + N.to_nat ret)%nat in Zs1, Zs2 by lia.
    all: destruct (Nat.le_gt_cases (length L + (3 + N.to_nat ret)) (nlit + ndist)) as [Hfit|Hover].
    all: try (match goal with |- need_concl _ _ _ _ _ (rl_loop _ _ _ _ _ ?stx) =>
              destruct (rl_over2 f clcS clcL (Z.of_nat nlit) (286 + Z.of_nat ndist)%Z stx
                          (Zs2 Hover)) as (err & Er & Ene1 & Ene2); rewrite Er;
              apply need_err; assumption end).
    all: match goal with |- need_concl _ _ _ _ _ (rl_loop _ _ _ _ _ ?stx) =>
           apply (need_chain nlit ndist ct st L stx (L ++ repeat 0%nat (3 + N.to_nat ret)));
           [apply IH; [exact X3|exact Hp4|exact (Zs1 Hfit)]
           |rewrite app_length, repeat_length; lia
           |
           |exact Hroom] end.
    all: cbn [rl_b]; intros rf p; exists (p + N.of_nat len + 3);
      rewrite (read_lens_rep rf ct (nlit + ndist - length L)%nat (rev L) _ 17%nat _ 3%nat 3%nat
                 (Some 0%nat) ret _ 0%nat
                 (Hds [] p) ltac:(lia) eq_refl (X4 Hp4 [] (p + N.of_nat len)) eq_refl ltac:(lia) ltac:(lia));
      rewrite rev_app_distr, rev_repeat, app_length, repeat_length;
      replace (nlit + ndist - length L - (3 + N.to_nat ret))%nat
          with (nlit + ndist - (length L + (3 + N.to_nat ret)))%nat by lia;
      reflexivity. }
  { (* 11..138 zeros *)
    assert (Ed : d = 18%nat) by lia. subst d. clear Esym.
    destruct (xbits_step b2 7 W2 Hpos ltac:(lia)) as (b3 & ret & b4 & X1 & X2 & X3 & X4).
    rewrite X1, X2.
    destruct (Z.ltb_spec (r_len b4) 0) as [Hn4|Hp4].
    { apply need_fail; [exact Hroom|]. intros rf p.
      apply (read_lens_notake rf ct _ (rev L) _ 18%nat _ 7%nat 11%nat (Some 0%nat)
               (Hds [] p) ltac:(lia) eq_refl); [|lia].
      apply (xbits_need b2 7 b3 ret b4 W2 Hpos ltac:(lia) X1 X2 Hn4). }
    pose proof (rl_zeros_state nlit ndist st0 L (Z.of_N (11 + ret)) b4 Hd Hinv0 ltac:(lia)) as Zs.
    cbv zeta in Zs. revert Zs.
    match goal with |- context[if ?c then _ else _] => destruct c end; intros [Zs1 Zs2].
    all: replace (Z.to_nat (Z.of_N (11 + ret))) with (11 + N.to_nat ret)%nat in Zs1, Zs2 by lia.
    all: destruct (Nat.le_gt_cases (length L + (11 + N.to_nat ret)) (nlit + ndist)) as [Hfit|Hover].
    all: try (match goal with |- need_concl _ _ _ _ _ (rl_loop _ _ _ _ _ ?stx) =>
              destruct (rl_over2 f clcS clcL (Z.of_nat nlit) (286 + Z.of_nat ndist)%Z stx
                          (Zs2 Hover)) as (err & Er & Ene1 & Ene2); rewrite Er;
              apply need_err; assumption end).
    all: match goal with |- need_concl _ _ _ _ _ (rl_loop _ _ _ _ _ ?stx) =>
           apply (need_chain nlit ndist ct st L stx (L ++ repeat 0%nat (11 + N.to_nat ret)));
           [apply IH; [exact X3|exact Hp4|exact (Zs1 Hfit)]
           |rewrite app_length, repeat_length; lia
           |
           |exact Hroom] end.
    all: cbn [rl_b]; intros rf p; exists (p + N.of_nat len + 7);
      rewrite (read_lens_rep rf ct (nlit + ndist - length L)%nat (rev L) _ 18%nat _ 7%nat 11%nat
                 (Some 0%nat) ret _ 0%nat
                 (Hds [] p) ltac:(lia) eq_refl (X4 Hp4 [] (p + N.of_nat len)) eq_refl ltac:(lia) ltac:(lia));
      rewrite rev_app_distr, rev_repeat, app_length, repeat_length;
      replace (nlit + ndist - length L - (11 + N.to_nat ret))%nat
          with (nlit + ndist - (length L + (11 + N.to_nat ret)))%nat by lia;
      reflexivity. }
Qed.

(* ---------------------------------------------------------------- the theorem *)
Theorem readLitDistLens_need : readLitDistLens_need_statement.
Proof.
  intros s hlit hdist clens ct p Hwf H0 Hhl Hhd Hmk Hok Zh Zl Zd Ze.
  unfold readLitDistLens.
  set (nlit := (N.to_nat hlit + 257)%nat).
  set (ndist := (N.to_nat hdist + 1)%nat).
  assert (Hd : dims_ok nlit ndist) by (unfold dims_ok, nlit, ndist; lia).
  replace (Z.of_N (litTableSize + hlit)) with (Z.of_nat nlit) by (unfold litTableSize, nlit; lia).
  replace (Z.of_N (litLen + hdist + 1)) with (286 + Z.of_nat ndist)%Z by (unfold litLen, ndist; lia).
  set (st0 := mkRL (rd s) (litAndDistHuff (dyn s)) (litCount (dyn s)) (distCount (dyn s))
                   (litExpandCount (dyn s)) 0%Z (-1)%Z false).
  assert (Hinv0 : rl_inv nlit ndist st0 []).
  { unfold rl_inv. cbn [st0 rl_curr rl_prev rl_inDist rl_h rl_lc rl_dc rl_ex length].
    split; [lia|]. split.
    - unfold rl_pos. split; [lia|]. left. split; [lia|]. split; reflexivity.
    - apply rl_arr_init; assumption. }
  pose proof (rl_need nlit ndist clens ct (clcShort (dyn s)) (clcLong (dyn s)) Hd Hmk Hok
                small_fuel st0 [] Hwf H0 Hinv0) as Nd.
  destruct (rl_loop small_fuel (clcShort (dyn s)) (clcLong (dyn s)) (Z.of_nat nlit)
                    (286 + Z.of_nat ndist)%Z st0) as [st' err].
  unfold need_concl in Nd. cbn [rd set_rd].
  intros Hp. cbn zeta. intros all s1.
  specialize (Nd Hp (nlit + ndist)%nat p all s1 ltac:(cbn [length]; lia)).
  cbn [length rev] in Nd. rewrite Nat.sub_0_r in Nd. change (rl_b st0) with (rd s) in Nd.
  rewrite app_nil_r in Nd. exact Nd.
Qed.

Print Assumptions codeLenCodes_need.
Print Assumptions readLitDistLens_need.
