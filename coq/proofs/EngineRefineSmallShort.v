(* EngineRefineSmallShort.v -- gen_small, second part: the 10-bit short table. *)
From Coq Require Import List NArith ZArith Bool Lia ZifyBool ZifyNat ZifyN.
From Verif Require Import Bits Huffman Inflate HuffmanProofs.
From Verif Require Import Base EngineTables Engine EngineRefineSpec.
From Verif Require Import EngineRefineSmallBase EngineRefineSmallCodes EngineRefineSmallSort.
Import ListNotations.
Open Scope N_scope.

(* ---------------------------------------------------------------- table specifications *)
(* entry e at index y of a table for the code words (width W j, value V j, entry E j), j in P:
   the entry of a code word that the low bits of y spell, or 0 if there is none *)
Definition tspec (P : N -> Prop) (W V E : N -> N) (y e : N) : Prop :=
  (exists j, P j /\ y mod 2 ^ W j = V j /\ e = E j) \/
  ((forall j, P j -> y mod 2 ^ W j <> V j) /\ e = 0).

Lemma tspec_ext : forall (P P' : N -> Prop) W V E y e,
  (forall j, P j <-> P' j) -> tspec P W V E y e -> tspec P' W V E y e.
Proof.
  intros P P' W V E y e H [(j & A & B & C)|(A & B)].
  - left. exists j. split; [apply H; exact A|]. split; assumption.
  - right. split; [|exact B]. intros j Hj. apply A. apply H. exact Hj.
Qed.

Lemma tspec_shift : forall (P : N -> Prop) W V E y y' e,
  (forall j, P j -> y' mod 2 ^ W j = y mod 2 ^ W j) -> tspec P W V E y e -> tspec P W V E y' e.
Proof.
  intros P W V E y y' e H [(j & A & B & C)|(A & B)].
  - left. exists j. split; [exact A|]. split; [rewrite (H j A); exact B|exact C].
  - right. split; [|exact B]. intros j Hj. rewrite (H j Hj). apply A. exact Hj.
Qed.

Lemma tspec_hit : forall (P : N -> Prop) W V E y j,
  P j -> y mod 2 ^ W j = V j -> tspec P W V E y (E j).
Proof. intros P W V E y j A B. left. exists j. auto. Qed.

Lemma tspec_grow : forall (P P' : N -> Prop) W V E y e,
  (forall j, P j -> P' j) -> (forall j, P' j -> P j \/ y mod 2 ^ W j <> V j) ->
  tspec P W V E y e -> tspec P' W V E y e.
Proof.
  intros P P' W V E y e H1 H2 [(j & A & B & C)|(A & B)].
  - left. exists j. split; [apply H1; exact A|]. split; assumption.
  - right. split; [|exact B]. intros j Hj. destruct (H2 j Hj) as [Hp|Hn]; [apply A; exact Hp|exact Hn].
Qed.

Lemma tspec_none : forall (P : N -> Prop) W V E y,
  (forall j, P j -> y mod 2 ^ W j <> V j) -> tspec P W V E y 0.
Proof. intros P W V E y H. right. split; [exact H|reflexivity]. Qed.

(* ---------------------------------------------------------------- arithmetic *)
Lemma mod_pow2_sub : forall x a b, a <= b -> 2 ^ b <= x -> (x - 2 ^ b) mod 2 ^ a = x mod 2 ^ a.
Proof.
  intros x a b Hab Hx.
  replace x with ((x - 2 ^ b) + 2 ^ (b - a) * 2 ^ a) at 2.
  - rewrite N.mod_add by apply pow2_ne0. reflexivity.
  - rewrite (pow2_split a b Hab) in *. lia.
Qed.

Lemma shiftl_1 : forall k, N.shiftl 1 k = 2 ^ k.
Proof. intros k. rewrite N.shiftl_mul_pow2. lia. Qed.

(* ---------------------------------------------------------------- the short entries *)
Definition sentry (hdr : bool) (codes : arr) (i : N) : N :=
  if hdr then u16 (N.lor i (N.shiftl (cL codes i) 11))
  else u16 (N.lor (N.lor i (N.shiftl (aget rfc_dist_extra i) 5)) (N.shiftl (cL codes i) 11)).

Lemma gs_wr_eq : forall hdr codes cl maxSymbol k t, aget cl k < maxSymbol ->
  gs_wr hdr codes cl maxSymbol k t = aset t (cR codes (aget cl k)) (sentry hdr codes (aget cl k)).
Proof.
  intros hdr codes cl maxSymbol k t H. unfold gs_wr, sentry, cR, cL. cbv zeta.
  destruct (N.leb_spec maxSymbol (aget cl k)) as [Hle|Hgt]; [lia|].
  destruct hdr; reflexivity.
Qed.

(* the codes of length at most m *)
Definition Pshort (codes : arr) (n m : N) (i : N) : Prop :=
  i < n /\ cL codes i <> 0 /\ cL codes i <= m.

Definition short_ok (hdr : bool) (codes : arr) (n : N) (t : arr) : Prop :=
  forall x, x < 1024 -> tspec (Pshort codes n 10) (cL codes) (cR codes) (sentry hdr codes) x (aget t x).

(* the copy loop *)
Lemma copy_spec : forall cs t x,
  aget (forN 0 cs (fun i t => aset t (cs + i) (aget t i)) t) x
  = if (cs <=? x) && (x <? cs + cs) then aget t (x - cs) else aget t x.
Proof.
  intros cs t x.
  apply (forN_ind arr (fun j a => forall x, aget a x = if (cs <=? x) && (x <? cs + j) then aget t (x - cs) else aget t x)).
  - lia.
  - intros y. destruct (N.leb_spec cs y); destruct (N.ltb_spec y (cs + 0)); cbn [andb]; try reflexivity; lia.
  - intros j a Hj IH y. rewrite aget_aset.
    destruct (N.eqb_spec y (cs + j)) as [->|Hne].
    + rewrite IH.
      destruct (N.leb_spec cs j); destruct (N.ltb_spec j (cs + j)); cbn [andb]; try lia.
      destruct (N.leb_spec cs (cs + j)); destruct (N.ltb_spec (cs + j) (cs + (j + 1))); cbn [andb]; try lia.
      f_equal. lia.
    + rewrite IH.
      destruct (N.leb_spec cs y); cbn [andb]; [|reflexivity].
      destruct (N.ltb_spec y (cs + j)); destruct (N.ltb_spec y (cs + (j + 1))); try reflexivity; lia.
Qed.

Section ShortTable.
Variables (hdr : bool) (codes : arr) (n : N) (count : arr) (cl ct : arr) (maxSymbol : N).
Hypothesis OK : codes_ok codes n count.
Hypothesis SO : sort_ok codes n cl.
Hypothesis Hmax : n <= maxSymbol.
Hypothesis Hct : forall k, 1 <= k <= 16 -> aget ct k = ctv codes n k.

(* the write loop of one length *)
Lemma write_loop_spec : forall ll t, 1 <= ll <= 10 ->
  (forall x, x < 2 ^ ll -> tspec (Pshort codes n (ll - 1)) (cL codes) (cR codes) (sentry hdr codes) x (aget t x)) ->
  forall x, x < 2 ^ ll ->
    tspec (Pshort codes n ll) (cL codes) (cR codes) (sentry hdr codes) x
          (aget (forN (aget ct ll) (aget ct (ll + 1)) (gs_wr hdr codes cl maxSymbol) t) x).
Proof.
  intros ll t Hll Ht.
  rewrite !Hct by lia.
  set (a := ctv codes n ll). set (b := ctv codes n (ll + 1)).
  assert (Hab : a <= b) by (apply ctv_mono1; lia).
  assert (HI : forall x, x < 2 ^ ll ->
     tspec (fun i => Pshort codes n (ll - 1) i \/ exists k', a <= k' < b /\ aget cl k' = i)
           (cL codes) (cR codes) (sentry hdr codes) x
           (aget (forN a b (gs_wr hdr codes cl maxSymbol) t) x)).
  { apply (forN_ind arr (fun k t' => forall x, x < 2 ^ ll ->
       tspec (fun i => Pshort codes n (ll - 1) i \/ exists k', a <= k' < k /\ aget cl k' = i)
             (cL codes) (cR codes) (sentry hdr codes) x (aget t' x))).
    - exact Hab.
    - intros x Hx. eapply tspec_ext; [|apply (Ht x Hx)].
      intros j. split; [intros H; left; exact H|].
      intros [H|(k' & Hk' & _)]; [exact H|lia].
    - intros k t' Hk IH x Hx.
      destruct (proj2 (sort_segment codes n count cl ll (aget cl k) OK SO ltac:(lia))
                      (ex_intro _ k (conj Hk eq_refl))) as [Hin Hlen].
      rewrite gs_wr_eq by lia. rewrite aget_aset.
      pose proof (ck_code _ _ _ OK (aget cl k) Hin ltac:(lia)) as HR. rewrite Hlen in HR.
      destruct (N.eqb_spec x (cR codes (aget cl k))) as [->|Hne].
      + apply tspec_hit.
        * right. exists k. split; [lia|reflexivity].
        * rewrite Hlen. apply N.mod_small. exact HR.
      + eapply tspec_grow; [| |apply (IH x Hx)].
        * intros j [H|(k' & Hk' & E)]; [left; exact H|right; exists k'; split; [lia|exact E]].
        * intros j [H|(k' & Hk' & E)]; [left; left; exact H|].
          destruct (N.eq_dec k' k) as [->|Hk2].
          -- right. subst j. rewrite Hlen. rewrite N.mod_small by exact Hx. exact Hne.
          -- left. right. exists k'. split; [lia|exact E]. }
  intros x Hx. eapply tspec_ext; [|apply (HI x Hx)].
  intros j. unfold Pshort. split.
  - intros [(A & B & C)|(k' & Hk' & E)].
    + repeat split; try assumption. lia.
    + destruct (proj2 (sort_segment codes n count cl ll j OK SO ltac:(lia))
                      (ex_intro _ k' (conj Hk' E))) as [Hin Hlen].
      repeat split; try assumption; lia.
  - intros (A & B & C). destruct (N.eq_dec (cL codes j) ll) as [He|Hne].
    + right. apply (proj1 (sort_segment codes n count cl ll j OK SO ltac:(lia))). split; assumption.
    + left. repeat split; try assumption. lia.
Qed.

Lemma short_step_spec : forall ll t, 1 <= ll <= 10 ->
  (forall x, x < 2 ^ (ll - 1) ->
     tspec (Pshort codes n (ll - 1)) (cL codes) (cR codes) (sentry hdr codes) x (aget t x)) ->
  forall x, x < 2 ^ ll ->
    tspec (Pshort codes n ll) (cL codes) (cR codes) (sentry hdr codes) x
          (aget (fst (gs_short_step hdr codes cl ct maxSymbol ll (t, 2 ^ (ll - 1)))) x).
Proof.
  intros ll t Hll Ht. unfold gs_short_step. cbn [fst].
  set (cs := 2 ^ (ll - 1)).
  assert (Hcs : cs <= 512).
  { unfold cs. change 512 with (2 ^ 9). apply pow2_le_mono. lia. }
  assert (H2 : 2 ^ ll = cs + cs).
  { unfold cs. replace ll with (ll - 1 + 1) at 1 by lia. rewrite N.pow_add_r. change (2 ^ 1) with 2. lia. }
  replace (N.min cs (1024 - cs)) with cs by lia.
  apply write_loop_spec; [exact Hll|].
  intros x Hx. rewrite copy_spec.
  destruct (N.leb_spec cs x) as [Hge|Hlt]; cbn [andb].
  - destruct (N.ltb_spec x (cs + cs)) as [Hlt2|Hge2]; [|lia].
    eapply tspec_shift; [|apply (Ht (x - cs)); lia].
    intros j (A & B & C). symmetry. apply mod_pow2_sub; [exact C|exact Hge].
  - apply Ht. exact Hlt.
Qed.

Lemma gs_short_spec : forall ll0 short0, 1 <= ll0 <= 11 ->
  (forall i, i < n -> cL codes i <> 0 -> ll0 <= cL codes i) ->
  (forall x, x < 2 ^ (ll0 - 1) -> aget short0 x = 0) ->
  short_ok hdr codes n (fst (gs_short hdr short0 codes cl ct maxSymbol ll0 (2 ^ (ll0 - 1)))).
Proof.
  intros ll0 short0 Hll0 Hmin H0. unfold gs_short, short_ok.
  assert (HI : let st := forN ll0 11 (gs_short_step hdr codes cl ct maxSymbol) (short0, 2 ^ (ll0 - 1)) in
     snd st = 2 ^ (11 - 1) /\
     forall x, x < 2 ^ (11 - 1) ->
       tspec (Pshort codes n (11 - 1)) (cL codes) (cR codes) (sentry hdr codes) x (aget (fst st) x)).
  { apply (forN_ind (arr * N) (fun ll st => snd st = 2 ^ (ll - 1) /\
       forall x, x < 2 ^ (ll - 1) ->
         tspec (Pshort codes n (ll - 1)) (cL codes) (cR codes) (sentry hdr codes) x (aget (fst st) x))).
    - lia.
    - cbn [fst snd]. split; [reflexivity|].
      intros x Hx. rewrite (H0 x Hx). apply tspec_none.
      intros j (A & B & C). specialize (Hmin j A B). lia.
    - intros ll [t cs] Hll [I1 I2]. cbn [fst snd] in I1, I2. subst cs.
      split.
      + unfold gs_short_step. cbn [snd]. replace (ll + 1 - 1) with (ll - 1 + 1) by lia.
        rewrite N.pow_add_r. change (2 ^ 1) with 2. lia.
      + replace (ll + 1 - 1) with ll by lia.
        apply short_step_spec; [lia|exact I2]. }
  cbv zeta in HI. destruct HI as [_ HI]. change (11 - 1) with 10 in HI.
  change (2 ^ 10) with 1024 in HI. exact HI.
Qed.

(* the whole short-table phase of gen_small *)
Lemma short_phase : forall short, ctv codes n 16 <> 0 ->
  let lastLength0 := hc_len (aget codes (aget cl 0)) in
  let lastLength := if 10 <? lastLength0 then 11 else lastLength0 in
  let copySize := if lastLength =? 0 then 0 else N.shiftl 1 (lastLength - 1) in
  let short1 := forN 0 copySize (fun i t => aset t i 0) short in
  short_ok hdr codes n (fst (gs_short hdr short1 codes cl ct maxSymbol lastLength copySize)).
Proof.
  intros short H16. fold (cL codes (aget cl 0)).
  destruct (so_in _ _ _ SO 0 ltac:(lia)) as (A & B & C).
  pose proof (ck_len _ _ _ OK _ A) as Hl15.
  assert (Hmin : forall i, i < n -> cL codes i <> 0 -> cL codes (aget cl 0) <= cL codes i).
  { intros i Hi Li. destruct (so_surj _ _ _ SO i Hi Li) as (k & Hk & Ek).
    rewrite <- Ek. apply (sort_len_mono codes n count cl 0 k OK SO); lia. }
  set (l0 := cL codes (aget cl 0)) in *.
  intros lastLength0 lastLength copySize short1.
  assert (Hll : 1 <= lastLength <= 11).
  { unfold lastLength, lastLength0. destruct (N.ltb_spec 10 l0); lia. }
  assert (Hcs : copySize = 2 ^ (lastLength - 1)).
  { unfold copySize. destruct (N.eqb_spec lastLength 0); [lia|apply shiftl_1]. }
  rewrite Hcs. apply gs_short_spec.
  - exact Hll.
  - intros i Hi Li. specialize (Hmin i Hi Li).
    unfold lastLength, lastLength0. destruct (N.ltb_spec 10 l0); lia.
  - intros x Hx. unfold short1. rewrite zero_fill_spec.
    destruct (N.leb_spec 0 x); [|lia]. rewrite Hcs.
    destruct (N.ltb_spec x (2 ^ (lastLength - 1))); [reflexivity|lia].
Qed.

End ShortTable.
