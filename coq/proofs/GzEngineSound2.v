(* GzEngineSound2.v -- the gzip reader model after Reset of ANY Reader value onto ANY bufio.Reader
   state (RModel/GzEngineSpec2.v): soundness against Containers.gz_read of the remaining stream,
   with the position the source is left in at io.EOF; consequences gz_consumed, gz_walk.

   NOTE: the first version of gz_sound_gen_statement was FALSE (it is kept below as
   gz_sound_gen_refuted_statement, with its refutation gz_sound_gen_false): for an empty stream
   Reset returns io.EOF, every later Read returns ([], io.EOF), so "In (GR REOF) (map snd l)" holds
   although e0 = GR REOF, not GR ROk.  The statement in GzEngineSpec2.v is the corrected one. *)
From Coq Require Import List NArith ZArith Bool Lia ZifyBool ZifyNat ZifyN.
From Verif Require Import Bits Huffman Inflate InflateSpec.
From Verif Require Import Containers ContainersSpec.
From Verif Require Import Base Engine EngineReset EngineRefineSpecBuf EngineRefineSpecReach
     EngineRefineSpecTop EngineRefineSpecFinal EngineRefineRun GzEngine GzEngineSpec GzEngineSpec2
     EngineRefineBuf GzEngineSound.
Import ListNotations.
Open Scope N_scope.

Local Strategy opaque [ioReadFull dRead big_fuel].

(* ================================================================ the refuted first version *)
Definition gz_sound_gen_refuted_statement : Prop :=
  forall z b multi reads,
    buf_ok b -> bytes_ok (bstream b) ->
    let s := bstream b in
    let R := gz_read multi s in
    let '(z1, e0) := gzReset z b in
    let '(l, z2) := gz_reads_g (gzMultistream z1 multi) reads [] in
    z_err z1 = e0 /\
    (e0 = GR ROk -> g_at_ctor R = false) /\
    (e0 = GR REOF -> s = []) /\
    (e0 <> GR ROk -> Forall (fun br => br = ([], e0)) l) /\
    is_prefix (obs_bytes l) (g_payload R) /\
    (g_err R <> CEOF -> ~ In (GR REOF) (map snd l)) /\
    (In (GR REOF) (map snd l) ->
       e0 = GR ROk /\ g_err R = CEOF /\ obs_bytes l = g_payload R /\
       buf_ok (z_r z2) /\ bstream (z_r z2) = g_left R /\ (exists pre, s = pre ++ g_left R) /\
       consumed (z_r z2) + lenN (g_left R) = consumed b + lenN s /\
       bsize (z_r z2) = bsize b /\ term (z_r z2) = term b).

(* ================================================================ small facts *)
Lemma gzReset_eq : forall z b,
  gzReset z b =
  let '(z', hdr, e) := gzReadHeader (mkGZ hdr0 b (z_dec z) 0 0 (GR ROk) true) in
  (gz_set_err (gz_set_hdr z' hdr) e, e).
Proof. intros z b. reflexivity. Qed.

Lemma gzNewReader_eq : forall rb, gzNewReader rb = gzReset (gzZero rb) rb.
Proof. intros rb. reflexivity. Qed.

Lemma repeat_bytes_ok : forall n, bytes_ok (repeat 0 n).
Proof. intros n. unfold bytes_ok. apply Forall_forall. intros x Hx. apply repeat_spec in Hx. subst x. lia. Qed.

Lemma obs_bytes_repeat : forall e n, obs_bytes (repeat (@nil N, e) n) = [].
Proof. intros e n. induction n as [|n IH]; [reflexivity|]. exact IH. Qed.

Lemma in_snd_repeat : forall (e x : gres) n, In x (map snd (repeat (@nil N, e) n)) -> x = e.
Proof.
  intros e x n Hin. apply in_map_iff in Hin. destruct Hin as (br & Hbr & Hin).
  apply repeat_spec in Hin. subst br. symmetry. exact Hbr.
Qed.

(* a Reader whose z.err is set answers every Read with it and does not change *)
Lemma stuck_all : gz_sticky_statement -> forall reads z acc,
  gnil (z_err z) = false ->
  gz_reads_g z reads acc = (frev acc ++ repeat ([], z_err z) (length reads), z).
Proof.
  intros (_ & H2 & _). induction reads as [|p rest IH]; intros z acc Hg.
  - cbn [gz_reads_g length repeat]. rewrite app_nil_r. reflexivity.
  - cbn [gz_reads_g]. rewrite (H2 z p Hg). rewrite (IH z _ Hg).
    rewrite !gfrev_rev. cbn [rev length repeat]. rewrite <- app_assoc. reflexivity.
Qed.

(* ================================================================ the invariant and one Read *)
Section Sound.
Variable data : list N.        (* a virtual whole source: strm_inv data holds of the buffer *)
Variable s : list N.           (* the stream the Reader was Reset onto *)
Variable multi : bool.
Variable bsz : N.
Variable trm : terminal.
Hypothesis Hdata : bytes_ok data.
Hypothesis HRF : ioReadFull_spec_statement.
Hypothesis Hcrc : crc32_update_app_statement.
Hypothesis Hu32 : u32_add_statement.
Hypothesis Hhdr : gzReadHeader_spec_statement.
Hypothesis Hreset : dReset_inv_statement.
Hypothesis HdR : gz_dRead_ok_statement.
Hypothesis Hstrm : dRead_strm_statement.

Local Notation R := (gz_read multi s).

Definition GI2 (z : gzreader) (T : list N) : Prop :=
  exists l acc hs fuel dl d D0,
    z_err z = GR ROk /\ strm_inv data (z_r z) /\ z_dec z = Some d /\ z_multistream z = multi /\
    data = D0 ++ l /\
    gz_eng_inv (lenN D0) l dl (set_rBuf d (z_r z)) /\
    is_prefix dl (out (Inflate.inflate [] l)) /\
    T = acc ++ dl /\ z_digest z = crc32 dl /\ z_size z = lenN dl mod 4294967296 /\
    R = gz_members fuel multi l acc hs /\ (length l < fuel)%nat /\
    (exists pre, s = pre ++ l) /\ bsize (z_r z) = bsz /\ term (z_r z) = trm.

(* the state in which io.EOF leaves the Reader *)
Definition EOFst (z : gzreader) : Prop :=
  strm_inv data (z_r z) /\ bstream (z_r z) = g_left R /\ (exists pre, s = pre ++ g_left R) /\
  bsize (z_r z) = bsz /\ term (z_r z) = trm.

Definition rd_post2 (T : list N) (res : gzreader * list N * gres) : Prop :=
  let '(z', bytes, e) := res in
  is_prefix (T ++ bytes) (g_payload R) /\
  (e = GR ROk -> GI2 z' (T ++ bytes)) /\
  (e = GR REOF -> g_err R = CEOF /\ T ++ bytes = g_payload R /\ EOFst z').

Lemma GI2_prefix : forall z T, GI2 z T -> is_prefix T (g_payload R).
Proof.
  intros z T (l & acc & hs & fuel & dl & d & D0 & _ & _ & _ & _ & _ & _ & Hp & HT & _ & _ & HR & Hf & _).
  destruct fuel as [|f]; [lia|].
  rewrite HR, HT. eapply is_prefix_trans; [|apply gz_members_out_prefix].
  apply is_prefix_app_l. exact Hp.
Qed.

Lemma eof_tail_ok2 : forall rec z bytes T l acc hs fuel D0 d1,
  (forall z1, GI2 z1 T -> rd_post2 T (rec z1)) ->
  strm_inv data (z_r z) -> z_dec z = Some d1 -> z_multistream z = multi ->
  data = D0 ++ l ->
  status (Inflate.inflate [] l) = Done ->
  consumed (z_r z) = lenN D0 + (bitpos (Inflate.inflate [] l) + 7) / 8 ->
  T ++ bytes = acc ++ out (Inflate.inflate [] l) ->
  z_digest z = crc32 (out (Inflate.inflate [] l)) ->
  z_size z = lenN (out (Inflate.inflate [] l)) mod 4294967296 ->
  R = gz_members fuel multi l acc hs -> (length l < fuel)%nat ->
  (exists pre, s = pre ++ l) -> bsize (z_r z) = bsz -> term (z_r z) = trm ->
  rd_post2 T (gz_eof_tail rec z bytes).
Proof.
  intros rec z bytes T l acc hs fuel D0 d1 Hrec Hsi Hdec Hms HD Hst Hcons HT Hdg Hsz HR Hfuel
         (pre0 & Hs0) Hbs Htm.
  destruct fuel as [|f]; [lia|].
  assert (Hpre : is_prefix (T ++ bytes) (g_payload R)).
  { rewrite HT, HR. apply gz_members_out_prefix. }
  pose proof (strm_rest _ _ _ _ _ Hsi HD Hcons) as Hrest.
  destruct z as [hd rb dec dg sz er ms].
  cbn [z_r z_dec z_multistream z_digest z_size] in Hsi, Hdec, Hms, Hcons, Hdg, Hsz, Hrest, Hbs, Htm.
  subst dec ms dg sz.
  unfold gz_eof_tail. cbn [z_r].
  pose proof (HRF rb 8 (proj1 Hsi) ltac:(lia)) as HF.
  destruct (ioReadFull rb 8) as [[buf e] b].
  destruct HF as (F1 & F2 & F3 & F4 & F5 & F6 & F7 & F8 & _).
  destruct e;
    try (cbv beta iota zeta delta [noEOF rd_post2]; split; [exact Hpre|split; intros HH; discriminate HH]).
  (* the trailer was read *)
  specialize (F7 eq_refl).
  assert (Hsib : strm_inv data b) by (exact (strm_inv_step _ _ _ _ Hsi F1 F2 F3)).
  assert (Hl8 : length buf = 8%nat) by (unfold lenN in F7; lia).
  set (r := Inflate.inflate [] l) in *.
  set (rest := skipn (N.to_nat ((bitpos r + 7) / 8)) l) in *.
  assert (Hsb : exists pre, s = pre ++ bstream b).
  { exists (pre0 ++ firstn (N.to_nat ((bitpos r + 7) / 8)) l ++ buf).
    etransitivity; [exact Hs0|]. rewrite <- !app_assoc. f_equal.
    rewrite <- F2, Hrest. unfold rest. symmetry. apply firstn_skipn. }
  destruct (len8 buf Hl8) as (b0 & b1 & b2 & b3 & b4 & b5 & b6 & b7 & ->).
  assert (E1 : firstn 4 rest = firstn 4 [b0; b1; b2; b3; b4; b5; b6; b7]) by (rewrite <- Hrest, F2; reflexivity).
  assert (E2 : firstn 4 (skipn 4 rest) = skipn 4 [b0; b1; b2; b3; b4; b5; b6; b7]) by (rewrite <- Hrest, F2; reflexivity).
  assert (E3 : skipn 8 rest = bstream b) by (rewrite <- Hrest, F2; reflexivity).
  assert (E4 : (length rest <? 8)%nat = false) by (rewrite <- Hrest, F2; reflexivity).
  assert (E5 : (length (bstream b) + 8 <= length l)%nat).
  { assert (length rest = (8 + length (bstream b))%nat) by (rewrite <- Hrest, F2; reflexivity).
    unfold rest in H. rewrite skipn_length in H. lia. }
  unfold gz_set_r, gz_set_err, gz_set_size, gz_set_digest.
  cbn [z_digest z_size z_hdr z_r z_dec z_err z_multistream].
  unfold lenN.
  destruct (of_le (firstn 4 [b0; b1; b2; b3; b4; b5; b6; b7]) =? crc32 (out r)) eqn:EA;
    [|cbv beta iota zeta delta [negb orb rd_post2]; split; [exact Hpre|split; intros HH; discriminate HH]].
  destruct (of_le (skipn 4 [b0; b1; b2; b3; b4; b5; b6; b7]) =? N.of_nat (length (out r)) mod 4294967296) eqn:EB;
    [|cbv beta iota zeta delta [negb orb rd_post2]; split; [exact Hpre|split; intros HH; discriminate HH]].
  cbn [negb orb].
  assert (Hbody : gz_read_body l = (out r, None, bstream b)).
  { rewrite <- E3. apply gz_read_body_done; [exact Hst|reflexivity|exact E4|].
    change ((of_le (firstn 4 rest) =? crc32 (out r)) &&
            (of_le (firstn 4 (skipn 4 rest)) =? N.of_nat (length (out r)) mod 4294967296) = true).
    rewrite E1, E2, EA, EB. reflexivity. }
  destruct (negb multi) eqn:Em.
  - (* Multistream(false): io.EOF; the buffer holds what follows the trailer *)
    apply negb_true_iff in Em.
    assert (HRs : R = Containers.mkgres (acc ++ out r) CEOF (bstream b) (rev hs) false).
    { rewrite HR, Em. cbn [gz_members]. rewrite Hbody. reflexivity. }
    cbv beta iota zeta delta [rd_post2]. split; [exact Hpre|]. split; [intros HH; discriminate HH|].
    intros _. unfold EOFst. cbn [z_r]. rewrite HRs. cbn [g_err g_payload g_left].
    split; [reflexivity|]. split; [exact HT|].
    split; [exact Hsib|]. split; [reflexivity|]. split; [exact Hsb|].
    split; [rewrite F4; exact Hbs|rewrite F5; exact Htm].
  - apply negb_false_iff in Em.
    set (z5 := mkGZ hd b (Some d1) 0 0 (GR ROk) multi).
    pose proof (Hhdr z5 (proj1 Hsib) (strm_bytes_ok _ _ Hdata Hsib)) as HH. cbv zeta in HH.
    destruct (gzReadHeader z5) as [[z6 hdr'] e].
    destruct HH as (H1 & (used & H2 & H3) & H4 & H5 & H6 & H7 & H8 & H9 & H10 & H11 & H12 & H13).
    unfold z5 in H2, H3, H4, H5, H6, H7, H8, H9, H10, H11, H12.
    cbn [z_r z_dec z_multistream z_err z_hdr z_size] in H2, H3, H4, H5, H6, H7, H8, H9, H10, H11, H12.
    assert (HRm : R = match gz_parse_header (bstream b) with
                      | HP_err CEOF => Containers.mkgres (acc ++ out r) CEOF [] (rev hs) false
                      | HP_err err => Containers.mkgres (acc ++ out r) err [] (rev hs) false
                      | HP_ok h rest' => gz_members f multi rest' (acc ++ out r) (h :: hs)
                      end).
    { rewrite HR. cbn [gz_members]. rewrite Hbody. rewrite Em. cbn [negb]. reflexivity. }
    assert (Hsi6 : strm_inv data (z_r z6)) by (exact (strm_inv_step _ _ _ _ Hsib H1 H2 H3)).
    destruct (gnil e) eqn:Eg; cbn [negb].
    + (* next header parsed *)
      apply gnil_true in Eg. subst e.
      destruct (H10 eq_refl) as (h & rest' & P1 & P2 & P3 & P4 & P5).
      assert (G7 : GI2 (gz_set_err z6 (GR ROk)) (T ++ bytes)).
      { destruct Hsi6 as (Hok6 & D' & HD' & HC').
        exists rest', (acc ++ out r), (h :: hs), f, [], (dReset d1 (z_r z6)), D'.
        cbn [gz_set_err z_err z_r z_dec z_multistream z_digest z_size].
        split; [reflexivity|].
        split; [split; [exact Hok6|exists D'; split; [exact HD'|exact HC']]|].
        split; [exact P5|]. split; [exact H6|].
        split; [rewrite <- P2; exact HD'|].
        split.
        { change (set_rBuf (dReset d1 (z_r z6)) (z_r z6)) with (dReset d1 (z_r z6)).
          pose proof (Hreset d1 (z_r z6) Hok6) as HI. rewrite P2 in HI.
          unfold lenN. rewrite <- HC'. exact HI. }
        split; [exists (out (Inflate.inflate [] rest')); reflexivity|].
        split; [rewrite app_nil_r; exact HT|].
        split; [rewrite P4; reflexivity|].
        split; [rewrite H9; reflexivity|].
        split; [rewrite HRm, P1; reflexivity|].
        split.
        { assert (length rest' <= length (bstream b))%nat by (rewrite H2, <- P2, app_length; unfold byte; lia).
          unfold byte in *; lia. }
        split.
        { destruct Hsb as (pb & Hpb). exists (pb ++ used). rewrite <- P2, <- app_assoc, <- H2. exact Hpb. }
        split; [rewrite H4, F4; exact Hbs|rewrite H5, F5; exact Htm]. }
      destruct bytes as [|x bytes].
      * apply Hrec. rewrite app_nil_r in G7. exact G7.
      * cbv beta iota zeta delta [rd_post2]. split; [exact Hpre|].
        split; [intros _; exact G7|intros HH; discriminate HH].
    + (* header error; io.EOF: the source ended after the trailer *)
      cbv beta iota zeta delta [rd_post2]. split; [exact Hpre|].
      split; [intros ->; discriminate Eg|].
      intros ->. specialize (H12 eq_refl).
      assert (H6e : bstream (z_r z6) = []).
      { rewrite H12 in H2. symmetry in H2. apply app_eq_nil in H2. exact (proj2 H2). }
      unfold EOFst. cbn [z_r]. rewrite HRm, H12. cbn [gz_parse_header g_err g_payload g_left].
      split; [reflexivity|]. split; [exact HT|].
      split; [exact Hsi6|]. split; [exact H6e|].
      split; [exists s; symmetry; apply app_nil_r|].
      split; [rewrite H4, F4; exact Hbs|rewrite H5, F5; exact Htm].
Qed.

Lemma gzRead_loop_ok2 : forall fuel z T p, GI2 z T -> rd_post2 T (gzRead_loop fuel z p).
Proof.
  induction fuel as [|k IH]; intros z T p HG.
  - cbn [gzRead_loop]. cbv beta iota zeta delta [rd_post2]. rewrite app_nil_r.
    split; [exact (GI2_prefix z T HG)|]. split; intros HH; discriminate HH.
  - rewrite gzRead_loop_S.
    destruct HG as (l & acc & hs & fuel & dl & d & D0 & Herr & Hsi & Hdec & Hms & HD & Hinv & Hp & HT & Hdg & Hsz & HR & Hf & Hsl & Hbs & Htm).
    rewrite Hdec.
    assert (Hbl : bytes_ok l).
    { unfold bytes_ok in *. rewrite HD in Hdata. apply Forall_app in Hdata. exact (proj2 Hdata). }
    pose proof (HdR (lenN D0) l dl (set_rBuf d (z_r z)) p Hbl Hinv) as H1.
    pose proof (Hstrm data (set_rBuf d (z_r z)) p Hsi) as H2.
    destruct (dRead (set_rBuf d (z_r z)) p) as [[d1 bytes] r].
    destruct H1 as (I1 & I2 & I3). destruct H2 as (S1 & S2 & S3).
    change (bsize (rBuf d1) = bsize (z_r z)) in S2.
    change (term (rBuf d1) = term (z_r z)) in S3.
    assert (Hd' : crc32_update (z_digest z) bytes = crc32 (dl ++ bytes)).
    { rewrite Hdg. unfold crc32. apply Hcrc. }
    assert (Hs' : u32 (z_size z + lenN bytes) = lenN (dl ++ bytes) mod 4294967296).
    { rewrite Hsz, Hu32. unfold lenN. rewrite app_length, Nat2N.inj_add. reflexivity. }
    assert (HT' : T ++ bytes = acc ++ (dl ++ bytes)) by (rewrite HT; symmetry; apply app_assoc).
    destruct fuel as [|f]; [lia|].
    assert (Hpre : is_prefix (T ++ bytes) (g_payload R)).
    { rewrite HT', HR. eapply is_prefix_trans; [|apply gz_members_out_prefix].
      apply is_prefix_app_l. exact I2. }
    destruct (gz_upd_fields z d1 bytes r) as (U1 & U2 & U3 & U4 & U5 & U6).
    assert (Hnorm : r <> REOF -> rd_post2 T (gz_upd z d1 bytes r, bytes, GR r)).
    { intros Hne. cbv beta iota zeta delta [rd_post2]. split; [exact Hpre|].
      split; [|intros HH; injection HH as HH; contradiction].
      intros HH. injection HH as HH.
      exists l, acc, hs, (S f), (dl ++ bytes), d1, D0.
      rewrite U1, U2, U3, U4, U5, U6.
      split; [rewrite HH; reflexivity|]. split; [exact S1|]. split; [reflexivity|]. split; [exact Hms|].
      split; [exact HD|]. split; [rewrite set_rBuf_same; exact I1|]. split; [exact I2|].
      split; [exact HT'|]. split; [exact Hd'|]. split; [exact Hs'|]. split; [exact HR|].
      split; [exact Hf|]. split; [exact Hsl|].
      split; [rewrite S2; exact Hbs|rewrite S3; exact Htm]. }
    destruct r; try (apply Hnorm; discriminate).
    destruct (I3 eq_refl) as (J1 & J2 & J3).
    apply eof_tail_ok2 with (l := l) (acc := acc) (hs := hs) (fuel := S f) (D0 := D0) (d1 := d1).
    + intros z1 G1. apply IH. exact G1.
    + rewrite U1. exact S1.
    + exact U2.
    + rewrite U3. exact Hms.
    + exact HD.
    + exact J1.
    + rewrite U1. exact J3.
    + rewrite HT', J2. reflexivity.
    + rewrite U4, Hd', J2. reflexivity.
    + rewrite U5, Hs', J2. reflexivity.
    + exact HR.
    + exact Hf.
    + exact Hsl.
    + rewrite U1, S2. exact Hbs.
    + rewrite U1, S3. exact Htm.
Qed.

(* ================================================================ the run of Reads *)
Lemma reads_ok2 : gz_sticky_statement -> forall reads z T acc,
  GI2 z T -> obs_bytes (frev acc) = T -> ~ In (GR REOF) (map snd acc) ->
  let '(l, z2) := gz_reads_g z reads acc in
  is_prefix (obs_bytes l) (g_payload R) /\
  (In (GR REOF) (map snd l) -> g_err R = CEOF /\ obs_bytes l = g_payload R /\ EOFst z2).
Proof.
  intros Hsticky. pose proof Hsticky as (Hs1 & _ & _).
  induction reads as [|p rest IH]; intros z T acc HG HT Hno.
  - cbn [gz_reads_g]. rewrite HT. split; [exact (GI2_prefix z T HG)|].
    intros Hin. exfalso. apply Hno. rewrite gfrev_rev, map_rev in Hin. apply in_rev in Hin. exact Hin.
  - cbn [gz_reads_g].
    assert (Herr : z_err z = GR ROk) by (destruct HG as (? & ? & ? & ? & ? & ? & ? & He & _); exact He).
    pose proof (gzRead_loop_ok2 big_fuel z T p HG) as HP.
    assert (Hrd : gzRead z p = gzRead_loop big_fuel z p).
    { unfold gzRead. rewrite Herr. reflexivity. }
    rewrite Hrd.
    destruct (gzRead_loop big_fuel z p) as [[z1 b] e] eqn:E.
    cbv beta iota zeta delta [rd_post2] in HP. destruct HP as (P1 & P2 & P3).
    destruct (gnil e) eqn:Eg.
    + apply gnil_true in Eg. subst e. apply IH with (T := T ++ b).
      * exact (P2 eq_refl).
      * rewrite obs_bytes_snoc, HT. reflexivity.
      * cbn [map snd]. intros [Hx|Hx]; [discriminate Hx|exact (Hno Hx)].
    + pose proof (Hs1 z p z1 b e Hrd Eg) as Hz1.
      assert (Hg1 : gnil (z_err z1) = false) by (rewrite Hz1; exact Eg).
      rewrite (stuck_all Hsticky rest z1 _ Hg1). rewrite Hz1.
      rewrite obs_bytes_app, obs_bytes_repeat, app_nil_r, obs_bytes_snoc, HT.
      split; [exact P1|].
      intros Hin. rewrite map_app in Hin. apply in_app_or in Hin.
      assert (He : e = GR REOF).
      { destruct Hin as [Hin|Hin].
        - rewrite gfrev_rev, map_rev in Hin. apply in_rev in Hin. cbn [map snd] in Hin.
          destruct Hin as [Hx|Hx]; [exact Hx|contradiction (Hno Hx)].
        - symmetry. exact (in_snd_repeat _ _ _ Hin). }
      exact (P3 He).
Qed.

End Sound.

(* ================================================================ Reset of any Reader *)
Theorem gz_sound_gen_from :
  ioReadFull_spec_statement -> crc32_update_app_statement -> u32_add_statement ->
  gzReadHeader_spec_statement ->
  newReader_on_inv_statement -> dReset_inv_statement -> gz_dRead_ok_statement ->
  dRead_strm_statement -> gz_sticky_statement ->
  gz_sound_gen_statement.
Proof.
  intros HRF Hcrc Hu32 Hhdr Hnew Hreset HdR Hstrm Hsticky.
  intros z b multi reads Hb Hbs. cbv zeta.
  rewrite gzReset_eq.
  set (s := bstream b).
  set (P := repeat 0 (N.to_nat (consumed b))).
  set (data := P ++ s).
  assert (Hdata : bytes_ok data).
  { unfold bytes_ok, data. apply Forall_app. split; [apply repeat_bytes_ok|exact Hbs]. }
  assert (HlP : lenN P = consumed b) by (unfold lenN, P; rewrite repeat_length; lia).
  assert (Hsi0 : strm_inv data b).
  { split; [exact Hb|]. exists P. split; [reflexivity|]. rewrite <- HlP. reflexivity. }
  assert (Hld : lenN data = consumed b + lenN s).
  { unfold data. unfold lenN in *. rewrite app_length. lia. }
  set (z0 := mkGZ hdr0 b (z_dec z) 0 0 (GR ROk) true).
  pose proof (Hhdr z0 Hb Hbs) as HH. cbv zeta in HH.
  destruct (gzReadHeader z0) as [[z1 hdr] e].
  destruct HH as (H1 & (used & H2 & H3) & H4 & H5 & H6 & H7 & H8 & H9 & H10 & H11 & H12 & H13).
  unfold z0 in H2, H3, H4, H5, H6, H7, H8, H9, H10, H11, H12.
  cbn [z_r z_dec z_multistream z_err z_hdr z_size] in H2, H3, H4, H5, H6, H7, H8, H9, H10, H11, H12.
  fold s in H2, H10, H11, H12.
  assert (Hsi1 : strm_inv data (z_r z1)) by (exact (strm_inv_step _ _ _ _ Hsi0 H1 H2 H3)).
  destruct (gnil e) eqn:Eg.
  - apply gnil_true in Eg. subst e.
    destruct (H10 eq_refl) as (h & rest & P1 & P2 & P3 & P4 & P5).
    assert (HR : gz_read multi s = gz_members (S (length s)) multi rest [] [h]).
    { unfold gz_read. rewrite P1. reflexivity. }
    assert (G : GI2 data s multi (bsize b) (term b)
                  (gzMultistream (gz_set_err (gz_set_hdr z1 hdr) (GR ROk)) multi) []).
    { destruct Hsi1 as (Hok1 & D' & HD' & HC').
      exists rest, [], [h], (S (length s)), [],
             (match z_dec z with None => newReader_on (z_r z1) | Some d => dReset d (z_r z1) end), D'.
      cbn [gzMultistream gz_set_err gz_set_hdr z_err z_r z_dec z_multistream z_digest z_size].
      split; [reflexivity|].
      split; [split; [exact Hok1|exists D'; split; [exact HD'|exact HC']]|].
      split; [exact P5|]. split; [reflexivity|].
      split; [rewrite <- P2; exact HD'|].
      split.
      { unfold lenN. rewrite <- HC', <- P2. destruct (z_dec z) as [d|].
        - change (set_rBuf (dReset d (z_r z1)) (z_r z1)) with (dReset d (z_r z1)).
          exact (Hreset d (z_r z1) Hok1).
        - change (set_rBuf (newReader_on (z_r z1)) (z_r z1)) with (newReader_on (z_r z1)).
          exact (Hnew (z_r z1) Hok1). }
      split; [exists (out (Inflate.inflate [] rest)); reflexivity|].
      split; [reflexivity|]. split; [rewrite P4; reflexivity|]. split; [rewrite H9; reflexivity|].
      split; [exact HR|].
      split.
      { assert (length rest <= length s)%nat by (rewrite H2, <- P2, app_length; unfold byte; lia).
        unfold byte in *; lia. }
      split; [exists used; rewrite <- P2; exact H2|].
      split; [exact H4|exact H5]. }
    pose proof (reads_ok2 data s multi (bsize b) (term b) Hdata HRF Hcrc Hu32 Hhdr Hreset HdR Hstrm
                  Hsticky reads _ [] [] G eq_refl (fun x => x)) as HQ.
    cbv beta iota zeta.
    destruct (gz_reads_g (gzMultistream (gz_set_err (gz_set_hdr z1 hdr) (GR ROk)) multi) reads [])
      as [l z2].
    destruct HQ as (Q1 & Q2).
    split; [reflexivity|].
    split; [intros _; rewrite HR; apply gz_members_ctor|].
    split; [intros HH; discriminate HH|].
    split; [intros HH; contradiction HH; reflexivity|].
    split; [exact Q1|].
    split; [intros Hne' Hin; apply Hne'; exact (proj1 (Q2 Hin))|].
    intros Hin. destruct (Q2 Hin) as (Q3 & Q4 & (Q5 & Q6 & Q7 & Q8 & Q9)).
    split; [left; reflexivity|]. split; [exact Q3|]. split; [exact Q4|].
    split; [exact (proj1 Q5)|]. split; [exact Q6|]. split; [exact Q7|].
    split; [|split; [exact Q8|exact Q9]].
    destruct Q5 as (_ & D & HD & HC). rewrite <- Hld, HC, HD, Q6.
    unfold lenN. rewrite app_length. unfold byte. lia.
  - (* Reset failed: every Read returns the error *)
    cbv beta iota zeta.
    assert (Hg : gnil (z_err (gzMultistream (gz_set_err (gz_set_hdr z1 hdr) e) multi)) = false) by exact Eg.
    rewrite (stuck_all Hsticky reads _ [] Hg).
    cbn [gzMultistream gz_set_err gz_set_hdr z_err z_r].
    change (frev (@nil (list N * gres))) with (@nil (list N * gres)). cbn [app].
    split; [reflexivity|].
    split; [intros ->; discriminate Eg|].
    split; [exact H12|].
    split.
    { intros _. apply Forall_forall. intros x Hx. apply repeat_spec in Hx. exact Hx. }
    split; [rewrite obs_bytes_repeat; exists (g_payload (gz_read multi s)); reflexivity|].
    assert (Hempty : In (GR REOF) (map snd (repeat (@nil N, e) (length reads))) -> e = GR REOF /\ s = []).
    { intros Hin. apply in_snd_repeat in Hin. symmetry in Hin. split; [exact Hin|exact (H12 Hin)]. }
    split.
    { intros Hne Hin. apply Hne. destruct (Hempty Hin) as (_ & Hs). rewrite Hs. reflexivity. }
    intros Hin. destruct (Hempty Hin) as (He & Hs).
    assert (Hu : used = [] /\ bstream (z_r z1) = []).
    { rewrite Hs in H2. symmetry in H2. apply app_eq_nil in H2. exact H2. }
    destruct Hu as (Hu1 & Hu2).
    rewrite obs_bytes_repeat, Hs. cbn [gz_read gz_parse_header g_err g_payload g_left].
    split; [right; split; [exact He|reflexivity]|].
    split; [reflexivity|]. split; [reflexivity|]. split; [exact H1|]. split; [exact Hu2|].
    split; [exists []; reflexivity|].
    split; [rewrite H3, Hu1; unfold lenN; cbn [length]; lia|]. split; [exact H4|exact H5].
Qed.

(* the first version of the statement does not hold: Reset onto an exhausted source returns io.EOF,
   and so does the Read that follows (by computation) *)
Theorem gz_sound_gen_false : ~ gz_sound_gen_refuted_statement.
Proof.
  intros H.
  set (b := mkbufrd 0 [] TEOF).
  destruct (newbuf_ok 0 [] TEOF (Forall_nil _)) as (B1 & B2 & _).
  change (mkBuf (N.max 0 16) [] 0 None [] TEOF 0) with b in B1, B2.
  assert (Hbs : bytes_ok (bstream b)) by (rewrite B2; constructor).
  specialize (H (gzZero b) b true [1] B1 Hbs). cbv zeta in H.
  set (zE := mkGZ hdr0 (mkBuf 16 [] 0 None [] TEOF 0) None 0 0 (GR REOF) true).
  assert (E1 : gzReset (gzZero b) b = (zE, GR REOF)) by (vm_compute; reflexivity).
  rewrite E1 in H.
  assert (E2 : gz_reads_g (gzMultistream zE true) [1] [] = ([([], GR REOF)], zE))
    by (vm_compute; reflexivity).
  rewrite E2 in H.
  destruct H as (_ & _ & _ & _ & _ & _ & A7).
  destruct (A7 (or_introl eq_refl)) as (A8 & _). discriminate A8.
Qed.

(* ================================================================ consequences *)
Lemma gzrun_ext_eq : forall bufsize cs t multi reads,
  gzrun_ext bufsize cs t multi reads =
  let '(z, e) := gzReset (gzZero (mkbufrd bufsize cs t)) (mkbufrd bufsize cs t) in
  if negb (gnil e) then (e, [], consumed (z_r z))
  else let '(l, z') := gz_reads_g (gzMultistream z multi) reads [] in (e, l, consumed (z_r z')).
Proof. intros. reflexivity. Qed.

Theorem gz_consumed_from : gz_sound_gen_statement -> gz_consumed_statement.
Proof.
  intros H data cs bufsize t multi reads Hdata Hcs Hne.
  rewrite gzrun_ext_eq.
  destruct (newbuf_ok bufsize cs t Hne) as (B1 & B2 & B3).
  change (mkBuf (N.max bufsize 16) [] 0 None cs t 0) with (mkbufrd bufsize cs t) in B1, B2, B3.
  set (rb := mkbufrd bufsize cs t) in *.
  assert (Hs : bstream rb = data) by (rewrite B2; exact Hcs).
  assert (Hbs : bytes_ok (bstream rb)) by (rewrite Hs; exact Hdata).
  specialize (H (gzZero rb) rb multi reads B1 Hbs). cbv zeta in H. rewrite Hs in H.
  destruct (gzReset (gzZero rb) rb) as [z1 e0].
  destruct (gnil e0) eqn:Eg; cbn [negb].
  - destruct (gz_reads_g (gzMultistream z1 multi) reads []) as [l z2].
    destruct H as (_ & _ & _ & _ & _ & _ & A7).
    intros Hin. destruct (A7 Hin) as (_ & _ & _ & _ & _ & _ & A8 & _).
    rewrite A8, B3. reflexivity.
  - intros [].
Qed.

Theorem gz_walk_from : gz_sound_gen_statement -> gz_walk_statement.
Proof.
  intros H data cs bufsize t reads1 reads2 Hdata Hcs Hne. cbv zeta.
  rewrite gzNewReader_eq.
  destruct (newbuf_ok bufsize cs t Hne) as (B1 & B2 & B3).
  change (mkBuf (N.max bufsize 16) [] 0 None cs t 0) with (mkbufrd bufsize cs t) in B1, B2, B3.
  set (rb := mkbufrd bufsize cs t) in *.
  assert (Hs : bstream rb = data) by (rewrite B2; exact Hcs).
  assert (Hbs : bytes_ok (bstream rb)) by (rewrite Hs; exact Hdata).
  pose proof (H (gzZero rb) rb false reads1 B1 Hbs) as H1. cbv zeta in H1. rewrite Hs in H1.
  destruct (gzReset (gzZero rb) rb) as [z0 e0].
  destruct (gz_reads_g (gzMultistream z0 false) reads1 []) as [l1 z1].
  destruct H1 as (_ & _ & _ & _ & _ & _ & A7).
  intros Hin. destruct (A7 Hin) as (_ & _ & _ & C1 & C2 & (pre & C3) & _).
  assert (Hbl : bytes_ok (bstream (z_r z1))).
  { rewrite C2. unfold bytes_ok in *. rewrite C3 in Hdata. apply Forall_app in Hdata. exact (proj2 Hdata). }
  pose proof (H z1 (z_r z1) false reads2 C1 Hbl) as H2. cbv zeta in H2. rewrite C2 in H2.
  destruct (gzReset z1 (z_r z1)) as [z2 e2].
  destruct (gz_reads_g (gzMultistream z2 false) reads2 []) as [l2 z3].
  destruct H2 as (_ & D2 & D3 & _ & D5 & D6 & D7).
  split; [exact D2|]. split; [exact D3|]. split; [exact D5|].
  split; [|exact D6].
  intros Hin2. destruct (D7 Hin2) as (_ & E1 & E2 & _ & E3 & _).
  split; [exact E1|]. split; [exact E2|exact E3].
Qed.

Print Assumptions gz_sound_gen_from.
Print Assumptions gz_sound_gen_false.
Print Assumptions gz_consumed_from.
Print Assumptions gz_walk_from.
