(* C20Proofs.v — the statements of WModel/C20Spec.v:

     cost_identity    : cost_identity_statement
     block_cost       : block_cost_statement
     header_bound     : header_bound_statement
     periodic_refuted : periodic_refuted_statement                                         *)
From Verif Require Import C20Spec HuffmanProofs RenderProofs HeaderProofs StreamRender TraceContent
     GenerateProofs WriterTheorems Unconditional.
From Coq Require Import ZArith Lia ZifyBool ZifyNat ZifyN.
Open Scope N_scope.

(* RenderProofs also defines a constant named `writer` *)
Local Notation writer := WriterSM.writer.

(* ------------------------------------------------------------------ *)
(* cost identity                                                        *)

Theorem cost_identity : cost_identity_statement.
Proof.
  unfold cost_identity_statement. intros sync level win4k h w flags Hnc Hb E.
  destruct (trace_content sync level win4k h Hnc Hb)
    as (w' & flags' & E' & _ & _ & _ & _ & Hok & Hdata).
  rewrite E in E'. inversion E'; subst w' flags'.
  pose proof (window_le level win4k) as HW.
  assert (Hevb : forallb event_ok_b (run_trace w) = true).
  { apply (trace_events_ok (window_of level win4k)); [exact HW|exact Hok|].
    rewrite Hdata. exact Hb. }
  assert (Hev : Forall event_ok (run_trace w)) by (apply events_ok_of_b; exact Hevb).
  assert (Hfits : Forall event_fits (run_trace w)).
  { eapply trace_toks_ok_fits; [|exact Hok]. lia. }
  assert (Hb' : bytes_ok (hist_data (h ++ [HClose]))).
  { rewrite hist_data_app. cbn [hist_data flat_map]. rewrite app_nil_r. exact Hb. }
  destruct (stream_render_thm sync level win4k _ w flags Hb' E Hev Hfits) as (Hbits & _).
  rewrite (close_acc_empty sync level win4k h w flags Hnc Hb E), app_nil_r in Hbits.
  split; [exact Hbits|].
  rewrite <- Hbits. rewrite bits_of_bytes_length. reflexivity.
Qed.

(* ------------------------------------------------------------------ *)
(* block cost                                                           *)

Lemma flat_map_length_sum : forall A B (f : A -> list B) (l : list A),
  length (flat_map f l) = fold_right (fun t acc => (length (f t) + acc)%nat) 0%nat l.
Proof.
  intros A B f. induction l as [|x r IH]; [reflexivity|].
  cbn [flat_map fold_right]. rewrite app_length, IH. reflexivity.
Qed.

Theorem block_cost : block_cost_statement.
Proof.
  unfold block_cost_statement. intros ts last.
  unfold block_bits. destruct (block_lens ts) as [litlens distlens]. cbv zeta.
  rewrite !app_length, flat_map_length_sum. unfold tok_cost. lia.
Qed.

(* ------------------------------------------------------------------ *)
(* header bound                                                         *)

Lemma num_repeat_len : forall fuel num rep,
  (length (num_repeat fuel num rep) <= N.to_nat rep)%nat.
Proof.
  induction fuel as [|f IH]; intros num rep; cbn [num_repeat]; [cbn [length]; lia|].
  destruct (rep =? 0) eqn:E0; [cbn [length]; lia|].
  destruct (rep <=? 3) eqn:E3; [rewrite repeat_length; lia|].
  destruct (rep <=? 7) eqn:E7; [cbn [length]; lia|].
  cbn [length]. specialize (IH num (rep - 7)). lia.
Qed.

Lemma zero_repeat_len : forall fuel rep,
  (length (zero_repeat fuel rep) <= N.to_nat rep)%nat.
Proof.
  induction fuel as [|f IH]; intros rep; cbn [zero_repeat]; [cbn [length]; lia|].
  destruct (rep =? 0) eqn:E0; [cbn [length]; lia|].
  destruct (rep <? 3) eqn:E3; [rewrite repeat_length; lia|].
  destruct (rep <? 11) eqn:E11; [cbn [length]; lia|].
  destruct (rep <? 139) eqn:E139; [cbn [length]; lia|].
  cbn [length]. specialize (IH (rep - 138)). lia.
Qed.

Lemma emit_len : forall prev run,
  (length (if (prev =? 0)%N then zero_repeat 64 run else num_repeat 64 prev run) <= N.to_nat run)%nat.
Proof.
  intros prev run. destruct (prev =? 0); [apply zero_repeat_len|apply num_repeat_len].
Qed.

Lemma rle_runs_len : forall l prev run,
  (length (rle_runs l prev run) <= length l + N.to_nat run)%nat.
Proof.
  induction l as [|x r IH]; intros prev run; cbn [rle_runs].
  - pose proof (emit_len prev run). cbn [length]. lia.
  - destruct (x =? prev).
    + specialize (IH prev (run + 1)). cbn [length]. lia.
    + rewrite app_length. pose proof (emit_len prev run). specialize (IH x 1).
      cbn [length]. lia.
Qed.

Lemma alphabet_len : forall l, (length (alphabet l) <= length l)%nat.
Proof.
  intros [|x r]; [cbn; lia|]. unfold alphabet. pose proof (rle_runs_len r x 1).
  cbn [length]. lia.
Qed.

Lemma cl_data_len : forall ll dl, length ll = 286%nat -> length dl = 30%nat ->
  (length (cl_data ll dl) <= 316)%nat.
Proof.
  intros ll dl Hl Hd. unfold cl_data. cbv zeta. rewrite app_length.
  pose proof (alphabet_len (firstn (N.to_nat (used_count ll)) ll)) as H1.
  rewrite firstn_length in H1.
  assert (H2 : (length (alphabet (if (used_count dl =? 0)%N then [1%N]
                                  else firstn (N.to_nat (used_count dl)) dl)) <= 30)%nat).
  { destruct (used_count dl =? 0).
    - pose proof (alphabet_len [1]) as H. cbn [length] in H. lia.
    - pose proof (alphabet_len (firstn (N.to_nat (used_count dl)) dl)) as H.
      rewrite firstn_length in H. lia. }
  lia.
Qed.

Lemma item_bits_len : forall cll it, Forall (fun x => x <= N.of_nat 7) cll ->
  (length (item_bits (gen_codes cll) it) <= 14)%nat.
Proof.
  intros cll it Hc. unfold item_bits. rewrite app_length.
  pose proof (sym_word_le cll 7 (fst it) Hc) as Hs. unfold sym_word in Hs.
  destruct (16 <=? fst it).
  - rewrite bits_of_N_length. pose proof (cl_extra_bits_le (fst it)). lia.
  - cbn [length]. lia.
Qed.

Lemma flat_map_len_bound : forall A B (f : A -> list B) k (l : list A),
  (forall x, (length (f x) <= k)%nat) -> (length (flat_map f l) <= k * length l)%nat.
Proof.
  intros A B f k l H. induction l as [|x r IH]; [cbn; lia|].
  cbn [flat_map length]. rewrite app_length. specialize (H x). lia.
Qed.

Theorem header_bound : header_bound_statement.
Proof.
  unfold header_bound_statement. intros ll dl final Hl Hd _ _ Hv.
  pose proof (lens_valid_le _ _ _ Hv) as H7.
  rewrite hp_header_bits. unfold header_body.
  rewrite !app_length, !bits_of_N_length.
  pose proof (flat_map_len_bound _ _ (fun s => bits_of_N 3 (nthN (h_cllens ll dl) s)) 3
                (firstn (N.to_nat (h_codesize ll dl)) hclen_order)
                (fun s => Nat.eq_le_incl _ _ (bits_of_N_length 3 _))) as Hcw.
  pose proof (flat_map_len_bound _ _ (item_bits (gen_codes (h_cllens ll dl))) 14 (cl_data ll dl)
                (fun it => item_bits_len _ it H7)) as Hit.
  pose proof (cl_data_len ll dl Hl Hd) as Hcl.
  pose proof (hp_codesize_bounds ll dl) as Hcs.
  rewrite firstn_length in Hcw.
  change (length hclen_order) with 19%nat in Hcw.
  cbn [length]. lia.
Qed.

(* ------------------------------------------------------------------ *)
(* the periodic bound is refuted                                        *)

(* the length of the output for n periods.  (As a function of n: with the run as a closed
   constant, vm_compute did not terminate within 30 minutes; in this form it takes 47 s.) *)
Definition plen (n : nat) : option N :=
  match hrun true 1%Z false [HWrite (repeat_list n colliding_period); HClose] with
  | Some (w, _) => Some (lenN (run_bytes w))
  | None => None
  end.

Lemma plen_some : forall n k, plen n = Some k ->
  exists w flags,
    hrun true 1%Z false [HWrite (repeat_list n colliding_period); HClose] = Some (w, flags) /\
    lenN (run_bytes w) = k.
Proof.
  intros n k. unfold plen.
  destruct (hrun true 1%Z false [HWrite (repeat_list n colliding_period); HClose]) as [[w flags]|];
    intros H; [|discriminate H].
  inversion H as [H']. exists w, flags. split; reflexivity.
Qed.

(* the whole run is evaluated once, by the kernel's VM at Qed *)
Lemma plen_eq : plen 16384 = Some 18465.
Proof. vm_cast_no_check (@eq_refl (option N) (Some 18465)). Qed.

Lemma periodic_data_len : lenN (repeat_list 16384 colliding_period) = 65536.
Proof. vm_cast_no_check (@eq_refl N 65536). Qed.

Theorem periodic_refuted : periodic_refuted_statement.
Proof.
  unfold periodic_refuted_statement. cbv zeta.
  destruct (plen_some 16384 18465 plen_eq) as (w & flags & E & HL).
  exists w, flags. split; [exact E|]. split; [exact periodic_data_len|].
  rewrite HL, periodic_data_len. reflexivity.
Qed.

Print Assumptions cost_identity.
Print Assumptions block_cost.
Print Assumptions header_bound.
Print Assumptions periodic_refuted.
