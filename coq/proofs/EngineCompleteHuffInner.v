(* EngineCompleteHuffInner.v -- completeness side of M5, layer 2: what the "end of input" and
   error results of the inner loop huff_inner mean for the reference. *)
From Coq Require Import List NArith ZArith Bool Lia ZifyBool ZifyNat ZifyN.
From Verif Require Import Bits Huffman HuffmanSpec Inflate InflateSpec InflateMono.
From Verif Require Import Base EngineTables Engine EngineRefineSpec EngineRefineSpecBlock
                          EngineRefineBits EngineRefineBridge.
From Verif Require HuffmanProofs SymbolsProofs EngineFacts.
From Verif Require Import EngineRefineHuffBase EngineRefineHuffSyms EngineRefineHuffDist
                          EngineRefineHuffInner.
From Verif Require Import EngineCompleteSpecA EngineCompleteHuffTrie EngineCompleteHuffPad.
Import ListNotations.
Open Scope N_scope.

Lemma dist_table_none : forall d, (30 <= d)%nat -> nth_error dist_table d = None.
Proof. intros d H. apply nth_error_None. cbn [dist_table length]. lia. Qed.

(* ---------------------------------------------------------------- the length branch *)
Lemma len_branch_out : canon_pad_statement ->
  forall L0 D dl dt K s bT wT out w rl b st bs0 sc nl,
  mktrie 15 dl = Some dt -> Forall (fun x => (x <= 15)%nat) dl -> dist_tab_ok dl (tb s) ->
  Inv L0 D s out w st sc nl -> w <= outLen -> br_wf b -> (0 <= r_len b)%Z ->
  let r := len_branch K s bT wT out w rl b in
  (r = HFin (set_wov s 0 0) bT out wT EEndInput /\
   ~ (r_in b <> [] /\ (20 <= r_len b)%Z) /\
   (forall p2, dist_part dt st bs0 rl (mkbs (br_bits b ++ []) p2) = SStop st bs0 NeedInput)) \/
  (exists b' err, r = HFin s b' out w err /\ isError err = true /\
     forall e p2, dist_part dt st bs0 rl (mkbs (br_bits b ++ e) p2) = SStop st bs0 Corrupt) \/
  (exists s' b' out' w', r = HFin s' b' out' w' EOutputOverflow \/ r = K s' b' out' w').
Proof.
  intros CP L0 D dl dt K s bT wT out w rl b st bs0 sc nl Hmk Hl Hdt HInv Hw Hwf H0 r.
  subst r. unfold len_branch.
  destruct (load_le15_bits b Hwf) as (b1 & L1 & Wf1 & Bits1 & Ld1 & Len1). rewrite L1.
  destruct (Hdt b1) as [Hyes Hno].
  destruct (canon_match_dec (canon dl) (r_bits b1)) as [(d & len & c & Hin & Hm)|Hn].
  2:{ rewrite (Hno Hn).
      destruct (Z.leb_spec 0 (r_len b1)) as [_|Hneg]; [|lia].
      right; left. exists b1, EInvalidSymbol. split; [reflexivity|]. split; [reflexivity|].
      intros e p2. unfold dist_part. rewrite <- Bits1.
      rewrite (bad_dist CP dl dt b1 p2 e Hmk Hl Wf1 ltac:(lia) Ld1 Hn). reflexivity. }
  rewrite (Hyes d len c Hin Hm).
  pose proof (canon_len 15 dl d len c ltac:(lia) Hl Hin) as Hlb.
  (* the distance word ends beyond the real bits *)
  assert (Hshort : (r_len b1 < Z.of_nat len)%Z ->
            ~ (r_in b <> [] /\ (20 <= r_len b)%Z) /\
            (forall p2, dist_part dt st bs0 rl (mkbs (br_bits b ++ []) p2) = SStop st bs0 NeedInput)).
  { intros Hsh. split; [intros [_ H20]; lia|].
    intros p2. unfold dist_part. rewrite app_nil_r, <- Bits1.
    assert (Hex : r_in b1 = []) by (destruct Ld1 as [E|E]; [exact E|lia]).
    rewrite (need_dist dl dt d len c b1 p2 Hmk Hin Hm Wf1 Hex ltac:(lia)). reflexivity. }
  destruct (d <? 30)%nat eqn:Ed.
  2:{ apply Nat.ltb_ge in Ed. unfold br_sub_len; cbn [r_len].
      destruct (Z.leb_spec 0 (r_len b1 - Z.of_N (N.of_nat len))) as [Hge|Hneg].
      - right; left. eexists _, EInvalidSymbol. split; [reflexivity|]. split; [reflexivity|].
        intros e p2. unfold dist_part. rewrite <- Bits1.
        rewrite (cw_match_decode 15%nat dl dt d len c b1 e p2 Hmk Hin Wf1 ltac:(lia) Hm).
        rewrite dist_table_none by exact Ed. reflexivity.
      - left. unfold step2_body; cbn [r_len].
        destruct (Z.ltb_spec (r_len b1 - Z.of_N (N.of_nat len)) 0) as [_|Hge]; [|lia].
        split; [reflexivity|]. apply Hshort. lia. }
  apply Nat.ltb_lt in Ed.
  set (b2 := br_drop b1 (N.of_nat len)).
  destruct (Z.leb_spec 0 (r_len b2)) as [Hge2|Hneg2].
  2:{ left. unfold step2_body.
      destruct (Z.ltb_spec (r_len b2) 0) as [_|Hge]; [|lia].
      split; [reflexivity|]. apply Hshort. unfold b2, br_drop in Hneg2. cbn [r_len] in Hneg2. lia. }
  assert (Hlen : (Z.of_nat len <= r_len b1)%Z) by (unfold b2, br_drop in Hge2; cbn [r_len] in Hge2; lia).
  destruct (br_drop_bits b1 (N.of_nat len) Wf1 ltac:(lia)) as (Wf2 & _ & _). fold b2 in Wf2.
  unfold distLen. destruct (N.leb_spec 30 (N.of_nat d)) as [Hbad|_]; [lia|].
  destruct (load_lt57_bits b2 Wf2) as (b3 & L3 & Wf3 & Bits3 & Ld3 & Len3). rewrite L3.
  set (bc := aget rfc_dist_extra (N.of_nat d)).
  set (ds := aget rfc_dist_start (N.of_nat d)).
  pose proof (dist_table_entry d Ed) as Hent. fold bc ds in Hent.
  destruct (dist_table_bounds _ _ _ Hent) as (B1 & B2 & B3).
  unfold next_bits.
  set (b4 := br_drop b3 bc). set (ex := N.land (r_bits b3) (N.ones bc)).
  unfold step2_body.
  assert (Hdec : forall e p2, decode_sym dt (mkbs (br_bits b ++ e) p2)
                   = DOk d (mkbs (br_bits b3 ++ e) (p2 + N.of_nat len))).
  { intros e p2. rewrite <- Bits1.
    rewrite (cw_match_decode 15%nat dl dt d len c b1 e p2 Hmk Hin Wf1 Hlen Hm). fold b2.
    rewrite Bits3. reflexivity. }
  destruct (Z.ltb_spec (r_len b4) 0) as [Hneg4|Hge4].
  { (* the extra bits of the distance end beyond the real bits *)
    left. split; [reflexivity|].
    assert (Hr4 : (r_len b3 < Z.of_N bc)%Z) by (unfold b4, br_drop in Hneg4; cbn [r_len] in Hneg4; lia).
    split.
    - intros [Hne H20].
      assert (Eb1 : b1 = b).
      { unfold load_le15 in L1. destruct (Z.leb_spec (r_len b) 15) as [H|_]; [lia|]. congruence. }
      assert (Hin2 : r_in b2 <> []) by (unfold b2, br_drop; cbn [r_in]; rewrite Eb1; exact Hne).
      assert (Hl2 : (5 <= r_len b2)%Z) by (unfold b2, br_drop; cbn [r_len]; rewrite Eb1; lia).
      pose proof (f_equal (@length bool) Bits3) as HL. rewrite !br_bits_length in HL.
      destruct (r_in b2) as [|x0 r0] eqn:E2; [contradiction|]. cbn [length] in HL.
      destruct Ld3 as [E3|E3]; [rewrite E3 in HL; cbn [length] in HL; lia|lia].
    - intros p2. unfold dist_part. rewrite Hdec, Hent.
      assert (Hex3 : r_in b3 = []) by (destruct Ld3 as [E|E]; [exact E|lia]).
      rewrite take_short; [reflexivity|].
      rewrite app_nil_r, (br_bits_exhausted b3 Hex3). lia. }
  assert (Hbc : (Z.of_N bc <= r_len b3)%Z) by (unfold b4, br_drop in Hge4; cbn [r_len] in Hge4; lia).
  assert (Hex : ex < 2 ^ bc).
  { unfold ex. rewrite N.land_ones. apply N.mod_lt. apply N.pow_nonzero. lia. }
  destruct (N.ltb_spec w (ds + ex)) as [Hfar|Hnear].
  { (* look-back too far *)
    right; left. exists b4, EInvalidLookBack. split; [reflexivity|]. split; [reflexivity|].
    intros e p2. unfold dist_part. rewrite Hdec, Hent.
    pose proof (next_bits_take b3 bc e (p2 + N.of_nat len) Wf3 Hbc) as Hnb.
    unfold next_bits in Hnb. fold b4 ex in Hnb. destruct Hnb as (_ & Htk). rewrite Htk.
    destruct (Inv_virtual _ _ _ _ _ _ _ _ HInv Hw) as (vout & vw & [(A1 & A2 & A3 & A4 & A5) _] & Hvw & Hcase).
    destruct (N.ltb_spec (oavail st) (ds + ex)) as [_|Hok]; [reflexivity|]. exfalso.
    destruct Hcase as [(_ & _ & ->)|(_ & Hwo & _)]; unfold outLen in *; lia. }
  right; right.
  destruct (outLen - w <? rl).
  - destruct (0 <? copyOverflowLength (ov (set_cov s (rl - (outLen - w)) (ds + ex)))).
    + eexists _, _, _, _. left. reflexivity.
    + eexists _, _, _, _. right. reflexivity.
  - destruct (0 <? copyOverflowLength (ov s)).
    + eexists _, _, _, _. left. reflexivity.
    + eexists _, _, _, _. right. reflexivity.
Qed.

(* ---------------------------------------------------------------- what the results mean *)
Definition Extra (lt dt : trie) (e : list bool) (st : ostate) (bs0 : bs) (bT : bitrd) (r : hres) : Prop :=
  match r with
  | HCont _ _ _ _ => True
  | HFin _ _ _ _ err =>
    (err = EEndInput ->
       r_in bT = [] /\
       (e = [] -> exists st2 bs2, sym_run lt dt st bs0 st2 bs2 false /\
                  exists a b, sym1 lt dt st2 bs2 = SStop a b NeedInput)) /\
    (isError err = true ->
       exists st2 bs2 a b, sym_run lt dt st bs0 st2 bs2 false /\ sym1 lt dt st2 bs2 = SStop a b Corrupt)
  end.

Lemma Extra_prepend : forall lt dt e st bs0 st1 bs1 bT r,
  sym_run lt dt st bs0 st1 bs1 false -> Extra lt dt e st1 bs1 bT r -> Extra lt dt e st bs0 bT r.
Proof.
  intros lt dt e st bs0 st1 bs1 bT r R H. destruct r as [|s' b' out' w' err]; [exact I|].
  cbn [Extra] in *. destruct H as [H1 H2]. split.
  - intros He. destruct (H1 He) as [A B]. split; [exact A|]. intros Hnil.
    destruct (B Hnil) as (st2 & bs2 & R2 & Hs). exists st2, bs2. split; [|exact Hs].
    eapply sym_run_trans; eassumption.
  - intros He. destruct (H2 He) as (st2 & bs2 & a & b & R2 & Hs). exists st2, bs2, a, b.
    split; [|exact Hs]. eapply sym_run_trans; eassumption.
Qed.

Ltac triv_extra := cbn [Extra]; split; intros Hx; discriminate Hx.

Lemma huff_inner_extra : canon_pad_statement ->
  forall L0 D ll dl lt dt e bT wT fuel s b out w pend st bs0,
  mktrie 15 ll = Some lt -> mktrie 15 dl = Some dt -> Forall (fun x => (x <= 15)%nat) dl ->
  dist_tab_ok dl (tb s) ->
  Inv L0 D s out w st (N.of_nat (length pend)) (pack_syms pend) -> w <= outLen ->
  br_wf b -> (0 <= r_len b)%Z -> lits_then_any pend -> (length pend <= 3)%nat ->
  pend_ok (xcodes ll) (bl bs0) pend (br_bits b ++ e) ->
  (r_in bT <> [] -> r_in b <> [] /\ (20 <= r_len b)%Z) ->
  Extra lt dt e st bs0 bT
        (huff_inner fuel s b out w (N.of_nat (length pend)) (pack_syms pend) bT wT).
Proof.
  intros CP L0 D ll dl lt dt e bT wT.
  induction fuel as [|f IH]; intros s b out w pend st bs0 Hlt Hdt Hdl Htab HInv Hw Hwf H0 Hlta Hlen Hp Hload.
  { cbn [huff_inner]. triv_extra. }
  rewrite huff_inner_S.
  destruct pend as [|[a la] rest].
  { cbn [length N.of_nat N.eqb Extra]. exact I. }
  pose proof Hp as Hp0.
  cbn [pend_ok] in Hp. destruct Hp as (val & l' & Hin & Hbl & Hp).
  destruct bs0 as [l p]. cbn [bl] in Hbl, Hp0. subst l.
  destruct (xcode_sem ll lt dt a la val l' p st Hlt Hin) as (Ha512 & Slit & Send & Slen).
  cbv zeta in Slit, Send, Slen.
  set (bsA := mkbs (bits_of_N la val ++ l') p) in *.
  set (bs1 := mkbs l' (p + N.of_nat la)) in *.
  destruct (N.eqb_spec (N.of_nat (length ((a, la) :: rest))) 0) as [Hz|_]; [cbn [length] in Hz; lia|].
  destruct HInv as (C1 & C2 & HI).
  destruct rest as [|[a2 la2] rest2].
  - (* ---------------- a single pending symbol *)
    cbn [length pack_syms] in *. change (N.of_nat 1) with 1 in *.
    replace (a + 256 * 0) with a in * by lia.
    cbv zeta. rewrite (land_ffff a), N.mod_small by lia.
    change (1 <? 1) with false. rewrite orb_false_r.
    cbn [pend_ok] in Hp.
    destruct (N.ltb_spec a 256) as [Hlit|Hnl].
    + destruct HI as [(A & B & W)|(_ & _ & _ & Hbig & _)]; [|lia].
      destruct (N.eqb_spec w outLen) as [Hfull|Hroom].
      * change (8 * (1 - 1)) with 0. rewrite N.shiftr_0_r.
        destruct (N.ltb_spec a 256) as [_|Hge]; [|lia]. triv_extra.
      * rewrite land_255, N.mod_small by lia.
        change (1 - 1) with (N.of_nat (@length (N * nat) [])).
        replace (N.shiftr a 8) with (pack_syms []) by (cbn [pack_syms]; rewrite shiftr_8; symmetry; apply N.div_small; exact Hlit).
        apply (Extra_prepend lt dt e st bsA (push a st) bs1).
        -- apply sym_run_one. apply Slit. exact Hlit.
        -- apply IH; [exact Hlt|exact Hdt|exact Hdl|exact Htab| | |exact Hwf|exact H0|exact I| |exact Hp|exact Hload].
           ++ split; [exact C1|]. split; [exact C2|]. left. split; [exact A|]. split; [exact B|].
              apply winD_push. exact W.
           ++ unfold outLen in *. lia.
           ++ cbn [length]. lia.
    + destruct (N.eqb_spec a 256) as [H256|Hn256].
      * change (1 - 1) with 0. rewrite huff_inner_0. destruct f as [|f']; [triv_extra|exact I].
      * unfold maxLitLenSym. destruct (N.leb_spec a 512) as [_|Hgt]; [|lia].
        subst l'.
        pose proof (len_branch_out CP L0 D dl dt
                     (fun s b out w => huff_inner f s b out w (1 - 1) (N.shiftr a 8) bT wT)
                     s bT wT out w (a - 254) b st bsA 1 a Hdt Hdl Htab
                     (conj C1 (conj C2 HI)) Hw Hwf H0) as HL.
        cbv zeta in HL.
        pose proof (Slen ltac:(lia)) as Hs1. unfold bs1 in Hs1.
        destruct HL as [(Er & Hnl20 & Hneed)|[(b' & err & Er & Herr & Hcor)|(s' & b' & out' & w' & [Er|Er])]];
          rewrite Er.
        -- cbn [Extra]. split; [|intros Hx; discriminate Hx]. intros _. split.
           ++ destruct (r_in bT) as [|x0 r0] eqn:EbT; [reflexivity|]. exfalso.
              apply Hnl20. apply Hload. discriminate.
           ++ intros ->. exists st, bsA. split; [apply sr_refl|].
              exists st, bsA. rewrite Hs1. apply Hneed.
        -- cbn [Extra]. split; [intros Hx; rewrite Hx in Herr; discriminate|]. intros _.
           exists st, bsA, st, bsA. split; [apply sr_refl|]. rewrite Hs1. apply Hcor.
        -- triv_extra.
        -- cbv beta. change (1 - 1) with 0. rewrite huff_inner_0. destruct f as [|f']; [triv_extra|exact I].
  - (* ---------------- several pending symbols *)
    set (rest := (a2, la2) :: rest2) in *.
    assert (Hlta' : a < 256 /\ lits_then_any rest) by exact Hlta.
    destruct Hlta' as [Hlit Hltr].
    assert (Hnl : pack_syms ((a, la) :: rest) = a + 256 * pack_syms rest) by reflexivity.
    assert (Hr1 : 1 <= N.of_nat (length rest)) by (unfold rest; cbn [length]; lia).
    destruct HI as [(A & B & W)|(_ & _ & Hbad & _)]; [|cbn [length] in Hbad; lia].
    cbv zeta.
    destruct (N.ltb_spec 1 (N.of_nat (length ((a, la) :: rest)))) as [_|Hle]; [|cbn [length] in Hle; lia].
    rewrite orb_true_r.
    destruct (N.eqb_spec w outLen) as [Hfull|Hroom].
    + destruct (lits_then_any_split ((a, la) :: rest) ltac:(discriminate) Hlta) as (lits & [X lX] & Epend & Flits).
      assert (Hll : length ((a, la) :: rest) = S (length lits)).
      { rewrite Epend, app_length. cbn [length]. lia. }
      assert (Hsh : N.shiftr (pack_syms ((a, la) :: rest)) (8 * (N.of_nat (length ((a, la) :: rest)) - 1)) = X).
      { rewrite Hll. replace (N.of_nat (S (length lits)) - 1) with (N.of_nat (length lits)) by lia.
        rewrite Epend, pack_app_shift by exact Flits. cbn [pack_syms]. lia. }
      rewrite Hsh.
      destruct (N.ltb_spec X 256) as [HXlit|HXnl]; [triv_extra|].
      rewrite park2, C1, C2.
      destruct (N.eqb_spec X 256) as [HX256|HXn256]; [triv_extra|].
      cbn [bl] in Hp0. rewrite Epend in Hp0.
      destruct (pend_ok_app _ _ _ _ _ Hp0) as (m & Pm1 & Pm2).
      destruct (run_lits ll lt dt lits _ m p st Hlt Flits Pm1) as (p' & Rl). fold bsA in Rl.
      cbn [pend_ok] in Pm2. destruct Pm2 as (valX & lx & HinX & -> & ->).
      set (o2 := mkOV (pack_syms ((a, la) :: rest)) (N.of_nat (length ((a, la) :: rest)) - 1) 0 0).
      set (s2 := upd s (phase s) o2).
      change 1 with (N.of_nat (length [(X, lX)])) at 1.
      replace X with (pack_syms [(X, lX)]) at 2 by (cbn [pack_syms]; lia).
      apply (Extra_prepend lt dt e st bsA (pushes lits st) _ bT _ Rl).
      apply IH; [exact Hlt|exact Hdt|exact Hdl|exact Htab| |exact Hw|exact Hwf|exact H0|exact I| | |exact Hload].
      * split; [reflexivity|]. split; [reflexivity|]. right.
        unfold s2, o2, upd. cbn [set_ov ov writeOverflowLen writeOverflowLits length].
        split; [cbn [length] in *; lia|]. split; [exact Hfull|]. split; [reflexivity|].
        split; [cbn [pack_syms]; lia|].
        apply (winD_arr4_lits' D out w st lits [(X, lX)] _ _ W).
        -- exact Flits.
        -- lia.
        -- rewrite Epend. reflexivity.
        -- unfold rest in *. cbn [length] in *. lia.
      * cbn [length]. lia.
      * cbn [pend_ok bl]. exists valX, (br_bits b ++ e). auto.
    + rewrite Hnl, pack_low, pack_shift8 by exact Hlit.
      replace (N.of_nat (length ((a, la) :: rest)) - 1) with (N.of_nat (length rest)) by (cbn [length]; lia).
      apply (Extra_prepend lt dt e st bsA (push a st) bs1).
      * apply sym_run_one. apply Slit. exact Hlit.
      * apply IH; [exact Hlt|exact Hdt|exact Hdl|exact Htab| | |exact Hwf|exact H0|exact Hltr| |exact Hp|exact Hload].
        -- split; [exact C1|]. split; [exact C2|]. left. split; [exact A|]. split; [exact B|].
           apply winD_push. exact W.
        -- unfold outLen in *. lia.
        -- cbn [length] in Hlen. lia.
Qed.
