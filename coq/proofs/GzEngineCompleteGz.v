(* GzEngineCompleteGz.v -- completeness of the gzip reader model (RModel/GzEngineSpec4.v,
   gz_complete_statement) from the engine's completeness layer (gz_dRead_ok3_statement): the
   soundness proof of GzEngineSound.v run forwards.  Invariant GC between Reads; one Read of
   positive size either hands out at least one byte and keeps GC, or returns io.EOF, or is fatal
   (RPanic / RStuck); the payload bounds the number of Reads that return nil. *)
From Coq Require Import List NArith ZArith Bool Lia ZifyBool ZifyNat ZifyN.
From Verif Require Import Bits Huffman Inflate InflateSpec.
From Verif Require Import Containers ContainersSpec ContainersProofs.
From Verif Require Import Base Engine EngineReset EngineRefineSpecBuf EngineRefineSpecReach
     EngineRefineRun EngineCompleteSpecB EngineCompleteSpecC EngineCompleteSpecG EngineCompleteTop3 EngineCompleteRun3
     GzEngine GzEngineSpec GzEngineSpec3 GzEngineSpec2 GzEngineSpec4 EngineRefineBuf
     EngineCompleteFinal GzEngineSound.
Import ListNotations.
Open Scope N_scope.

Local Strategy opaque [ioReadFull dRead big_fuel].

(* ================================================================ the specification side *)
Lemma body_cases : forall (l : list N),
  (exists e rest', gz_read_body l = (out (Inflate.inflate [] l), Some e, rest') /\ e <> CEOF) \/
  (status (Inflate.inflate [] l) = Done /\
   (length (skipn (N.to_nat ((bitpos (Inflate.inflate [] l) + 7) / 8)) l) <? 8)%nat = false /\
   (of_le (firstn 4 (skipn (N.to_nat ((bitpos (Inflate.inflate [] l) + 7) / 8)) l)) =?
      crc32 (out (Inflate.inflate [] l))) &&
   (of_le (firstn 4 (skipn 4 (skipn (N.to_nat ((bitpos (Inflate.inflate [] l) + 7) / 8)) l))) =?
      N.of_nat (length (out (Inflate.inflate [] l))) mod 4294967296) = true /\
   gz_read_body l = (out (Inflate.inflate [] l), None,
                     skipn 8 (skipn (N.to_nat ((bitpos (Inflate.inflate [] l) + 7) / 8)) l))).
Proof.
  intros l. unfold gz_read_body. cbv zeta.
  destruct (status _) eqn:Est.
  - destruct (_ <? _)%nat eqn:E8.
    + left. eexists _, _. split; [reflexivity|discriminate].
    + destruct (_ && _) eqn:Eok.
      * right. repeat split; reflexivity.
      * left. eexists _, _. split; [reflexivity|discriminate].
  - left. eexists _, _. split; [reflexivity|discriminate].
  - left. eexists _, _. split; [reflexivity|discriminate].
  - left. eexists _, _. split; [reflexivity|discriminate].
Qed.

Lemma members_ceof : forall f multi (l : list N) acc hs,
  g_err (gz_members (S f) multi l acc hs) = CEOF ->
  status (Inflate.inflate [] l) = Done /\
  (length (skipn (N.to_nat ((bitpos (Inflate.inflate [] l) + 7) / 8)) l) <? 8)%nat = false /\
  (of_le (firstn 4 (skipn (N.to_nat ((bitpos (Inflate.inflate [] l) + 7) / 8)) l)) =?
     crc32 (out (Inflate.inflate [] l))) &&
  (of_le (firstn 4 (skipn 4 (skipn (N.to_nat ((bitpos (Inflate.inflate [] l) + 7) / 8)) l))) =?
     N.of_nat (length (out (Inflate.inflate [] l))) mod 4294967296) = true /\
  gz_read_body l = (out (Inflate.inflate [] l), None,
                    skipn 8 (skipn (N.to_nat ((bitpos (Inflate.inflate [] l) + 7) / 8)) l)).
Proof.
  intros f multi l acc hs H.
  destruct (body_cases l) as [(e & rest' & Hb & Hne)|Hok]; [|exact Hok].
  exfalso. cbn [gz_members] in H. rewrite Hb in H. cbn [g_err] in H. contradiction.
Qed.

Lemma members_next : forall f (l : list N) acc hs o X,
  gz_read_body l = (o, None, X) ->
  g_err (gz_members (S f) true l acc hs) = CEOF ->
  gz_parse_header X = HP_err CEOF \/
  exists h rest', gz_parse_header X = HP_ok h rest' /\
                  gz_members (S f) true l acc hs = gz_members f true rest' (acc ++ o) (h :: hs).
Proof.
  intros f l acc hs o X Hb H. cbn [gz_members] in H |- *. rewrite Hb in H |- *. cbn [negb] in H |- *.
  destruct (gz_parse_header X) as [h rest'|err].
  - right. exists h, rest'. split; reflexivity.
  - destruct err; cbn [g_err] in H; try discriminate H. left. reflexivity.
Qed.

Lemma members_std_next : forall f (l : list N) o X h rest',
  gz_read_body l = (o, None, X) -> gz_parse_header X = HP_ok h rest' ->
  gz_members_std (S f) true l -> gz_members_std f true rest'.
Proof.
  intros f l o X h rest' Hb Hp (_ & H). rewrite Hb in H. cbn [negb] in H. rewrite Hp in H. exact H.
Qed.

(* ================================================================ readHeader at the end of the source *)
Lemma hdr_empty : ioReadFull_spec_statement -> forall z,
  buf_ok (z_r z) -> bstream (z_r z) = [] -> term (z_r z) = TEOF ->
  exists z' h, gzReadHeader z = (z', h, GR REOF).
Proof.
  intros HRF z Hok Hs Ht. unfold gzReadHeader.
  pose proof (HRF (z_r z) 10 Hok ltac:(lia)) as HF.
  destruct (ioReadFull (z_r z) 10) as [[buf e] b].
  destruct HF as (F1 & F2 & F3 & F4 & F5 & F6 & F7 & F8 & F9 & F10 & F11).
  rewrite Hs in F2. symmetry in F2. apply app_eq_nil in F2. destruct F2 as (Hb & _).
  destruct F6 as [ -> | [ -> | [ -> | -> ] ] ].
  - exfalso. specialize (F7 eq_refl). rewrite Hb in F7. discriminate F7.
  - eexists _, _. reflexivity.
  - exfalso. destruct (F10 eq_refl) as (Hn & _). exact (Hn Hb).
  - exfalso. specialize (F11 eq_refl). rewrite Ht in F11. discriminate F11.
Qed.

(* ================================================================ the invariant and one Read *)
Section Complete.
Variable data : list N.
Variable multi : bool.
Variable t : terminal.
Hypothesis Hdata : GzEngineSpec.bytes_ok data.
Hypothesis HRF : ioReadFull_spec_statement.
Hypothesis Hcrc : crc32_update_app_statement.
Hypothesis Hu32 : u32_add_statement.
Hypothesis Hhdr : gzReadHeader_spec_statement.
Hypothesis Hreset : dReset_inv3_statement.
Hypothesis HdR : gz_dRead_ok3_statement.
Hypothesis Hstrm : dRead_strm_statement.
Hypothesis Hmt : multi = true -> t = TEOF.

Local Notation R := (gz_read multi data).
Hypothesis HRok : g_err R = CEOF.

Definition GC (z : gzreader) (T : list N) : Prop :=
  exists l acc hs fuel dl d D0,
    z_err z = GR ROk /\ strm_inv data (z_r z) /\ z_dec z = Some d /\ z_multistream z = multi /\
    data = D0 ++ l /\
    gz_eng_inv3 (lenN D0) l t dl (set_rBuf d (z_r z)) /\ term (z_r z) = t /\
    is_prefix dl (out (Inflate.inflate [] l)) /\
    T = acc ++ dl /\ z_digest z = crc32 dl /\ z_size z = lenN dl mod 4294967296 /\
    R = gz_members fuel multi l acc hs /\ gz_members_std fuel multi l /\ (length l < fuel)%nat.

Definition rd_postC (T : list N) (res : gzreader * list N * gres) : Prop :=
  let '(z', bytes, e) := res in
  (e = GR ROk /\ bytes <> [] /\ GC z' (T ++ bytes)) \/
  e = GR REOF \/ e = GR RPanic \/ e = GR RStuck.

Lemma GC_prefix : forall z T, GC z T -> is_prefix T (g_payload R).
Proof.
  intros z T (l & acc & hs & fuel & dl & d & D0 & _ & _ & _ & _ & _ & _ & _ & Hp & HT & _ & _ & HR & _ & Hf).
  destruct fuel as [|f]; [lia|].
  rewrite HR, HT. eapply is_prefix_trans; [|apply gz_members_out_prefix].
  apply is_prefix_app_l. exact Hp.
Qed.

Lemma eof_tail_okC : forall rec z bytes T l acc hs fuel D0 d1,
  (forall z1, GC z1 T -> rd_postC T (rec z1)) ->
  strm_inv data (z_r z) -> z_dec z = Some d1 -> z_multistream z = multi ->
  data = D0 ++ l ->
  consumed (z_r z) = lenN D0 + (bitpos (Inflate.inflate [] l) + 7) / 8 ->
  T ++ bytes = acc ++ out (Inflate.inflate [] l) ->
  z_digest z = crc32 (out (Inflate.inflate [] l)) ->
  z_size z = lenN (out (Inflate.inflate [] l)) mod 4294967296 ->
  R = gz_members fuel multi l acc hs -> gz_members_std fuel multi l -> (length l < fuel)%nat ->
  term (z_r z) = t ->
  rd_postC T (gz_eof_tail rec z bytes).
Proof.
  intros rec z bytes T l acc hs fuel D0 d1 Hrec Hsi Hdec Hms HD Hcons HT Hdg Hsz HR Hstd Hfuel Htm.
  destruct fuel as [|f]; [lia|].
  assert (HRc : g_err (gz_members (S f) multi l acc hs) = CEOF) by (rewrite <- HR; exact HRok).
  destruct (members_ceof f multi l acc hs HRc) as (M1 & M2 & M3 & M4).
  pose proof (strm_rest _ _ _ _ _ Hsi HD Hcons) as Hrest.
  destruct z as [hd rb dec dg sz er ms].
  cbn [z_r z_dec z_multistream z_digest z_size] in Hsi, Hdec, Hms, Hcons, Hdg, Hsz, Hrest, Htm.
  subst dec ms dg sz.
  unfold gz_eof_tail. cbn [z_r].
  pose proof (HRF rb 8 (proj1 Hsi) ltac:(lia)) as HF.
  destruct (ioReadFull rb 8) as [[buf e] b].
  destruct HF as (F1 & F2 & F3 & F4 & F5 & F6 & F7 & F8 & _).
  set (r := Inflate.inflate [] l) in *.
  set (rest := skipn (N.to_nat ((bitpos r + 7) / 8)) l) in *.
  destruct e;
    try (exfalso; destruct (F8 ltac:(discriminate)) as (G1 & G2);
         rewrite <- Hrest, F2, G2, app_nil_r in M2; apply Nat.ltb_ge in M2; unfold lenN in G1; lia).
  (* the trailer was read *)
  specialize (F7 eq_refl).
  assert (Hsib : strm_inv data b) by (exact (strm_inv_step _ _ _ _ Hsi F1 F2 F3)).
  assert (Hl8 : length buf = 8%nat) by (unfold lenN in F7; lia).
  destruct (len8 buf Hl8) as (b0 & b1 & b2 & b3 & b4 & b5 & b6 & b7 & ->).
  assert (E1 : firstn 4 rest = firstn 4 [b0; b1; b2; b3; b4; b5; b6; b7]) by (rewrite <- Hrest, F2; reflexivity).
  assert (E2 : firstn 4 (skipn 4 rest) = skipn 4 [b0; b1; b2; b3; b4; b5; b6; b7]) by (rewrite <- Hrest, F2; reflexivity).
  assert (E3 : skipn 8 rest = bstream b) by (rewrite <- Hrest, F2; reflexivity).
  assert (E5 : (length (bstream b) + 8 <= length l)%nat).
  { assert (length rest = (8 + length (bstream b))%nat) by (rewrite <- Hrest, F2; reflexivity).
    unfold rest in H. rewrite skipn_length in H. lia. }
  unfold gz_set_r, gz_set_err, gz_set_size, gz_set_digest.
  cbn [z_digest z_size z_hdr z_r z_dec z_err z_multistream].
  unfold lenN.
  apply andb_true_iff in M3. destruct M3 as (EA & EB). rewrite E1 in EA. rewrite E2 in EB.
  rewrite EA, EB. cbn [negb orb].
  assert (Hbody : gz_read_body l = (out r, None, bstream b)) by (rewrite <- E3; exact M4).
  destruct (negb multi) eqn:Em.
  - (* Multistream(false): io.EOF *)
    cbv beta iota zeta delta [rd_postC]. right. left. reflexivity.
  - apply negb_false_iff in Em. specialize (Hmt Em).
    assert (Htb : term b = TEOF) by (rewrite F5, Htm; exact Hmt).
    set (z5 := mkGZ hd b (Some d1) 0 0 (GR ROk) multi).
    rewrite Em in HRc, Hstd, HR.
    destruct (members_next f l acc hs _ _ Hbody HRc) as [Hp|(h & rest' & Hp & Hnext)].
    + (* the source ends here: readHeader returns io.EOF *)
      apply parse_eof_nil in Hp.
      destruct (hdr_empty HRF z5 (proj1 Hsib) Hp Htb) as (z' & h' & Eh).
      rewrite Eh. cbn [gnil negb]. cbv beta iota zeta delta [rd_postC]. right. left. reflexivity.
    + pose proof (Hhdr z5 (proj1 Hsib) (strm_bytes_ok _ _ Hdata Hsib)) as HH. cbv zeta in HH.
      destruct (gzReadHeader z5) as [[z6 hdr'] e].
      destruct HH as (H1 & (used & H2 & H3) & H4 & H5 & H6 & H7 & H8 & H9 & H10 & H11 & H12 & H13).
      unfold z5 in H2, H3, H4, H5, H6, H7, H8, H9, H10, H11, H12.
      cbn [z_r z_dec z_multistream z_err z_hdr z_size] in H2, H3, H4, H5, H6, H7, H8, H9, H10, H11, H12.
      destruct (gnil e) eqn:Eg; cbn [negb].
      * apply gnil_true in Eg. subst e.
        destruct (H10 eq_refl) as (h2 & rest2 & P1 & P2 & P3 & P4 & P5).
        rewrite Hp in P1. injection P1 as <- <-.
        assert (Hsi6 : strm_inv data (z_r z6)) by (exact (strm_inv_step _ _ _ _ Hsib H1 H2 H3)).
        assert (G7 : GC (gz_set_err z6 (GR ROk)) (T ++ bytes)).
        { destruct Hsi6 as (Hok6 & D' & HD' & HC').
          exists rest', (acc ++ out r), (h :: hs), f, [], (dReset d1 (z_r z6)), D'.
          cbn [gz_set_err z_err z_r z_dec z_multistream z_digest z_size].
          split; [reflexivity|].
          split; [split; [exact Hok6|exists D'; split; [exact HD'|exact HC']]|].
          split; [exact P5|]. split; [exact H6|].
          split; [rewrite <- P2; exact HD'|].
          split.
          { change (set_rBuf (dReset d1 (z_r z6)) (z_r z6)) with (dReset d1 (z_r z6)).
            pose proof (Hreset d1 (z_r z6) Hok6) as HI. rewrite P2 in HI.
            unfold lenN. rewrite <- HC'. rewrite H5, Htb, <- Hmt in HI. exact HI. }
          split; [rewrite H5, Htb, Hmt; reflexivity|].
          split; [exists (out (Inflate.inflate [] rest')); reflexivity|].
          split; [rewrite app_nil_r; exact HT|].
          split; [rewrite P4; reflexivity|].
          split; [rewrite H9; reflexivity|].
          split; [rewrite Em, HR; exact Hnext|].
          split; [rewrite Em; exact (members_std_next f l _ _ h rest' Hbody Hp Hstd)|].
          assert (length rest' <= length (bstream b))%nat by (rewrite H2, <- P2, app_length; unfold byte; lia).
          unfold byte in *; lia. }
        destruct bytes as [|x bytes].
        -- apply Hrec. rewrite app_nil_r in G7. exact G7.
        -- cbv beta iota zeta delta [rd_postC]. left.
           split; [reflexivity|]. split; [discriminate|exact G7].
      * exfalso.
        assert (Hne : e <> GR ROk) by (intros ->; discriminate Eg).
        exact (proj2 (H11 Hne) h rest' Hp).
Qed.

Lemma gzRead_loop_okC : forall fuel z T p, 0 < p -> GC z T -> rd_postC T (gzRead_loop fuel z p).
Proof.
  induction fuel as [|k IH]; intros z T p Hp0 HG.
  - cbn [gzRead_loop]. cbv beta iota zeta delta [rd_postC]. right. right. right. reflexivity.
  - rewrite gzRead_loop_S.
    destruct HG as (l & acc & hs & fuel & dl & d & D0 & Herr & Hsi & Hdec & Hms & HD & Hinv & Htm & Hp & HT & Hdg & Hsz & HR & Hstd & Hf).
    rewrite Hdec.
    assert (Hbl : GzEngineSpec.bytes_ok l).
    { unfold GzEngineSpec.bytes_ok in *. rewrite HD in Hdata. apply Forall_app in Hdata. exact (proj2 Hdata). }
    pose proof (HdR (lenN D0) l t dl (set_rBuf d (z_r z)) p Hbl Hinv) as H1.
    pose proof (Hstrm data (set_rBuf d (z_r z)) p Hsi) as H2.
    destruct (dRead (set_rBuf d (z_r z)) p) as [[d1 bytes] r].
    destruct H1 as (I1 & I2 & I3 & I4 & I5). destruct H2 as (S1 & S2 & S3).
    change (term (rBuf d1) = term (z_r z)) in S3.
    assert (Hd' : crc32_update (z_digest z) bytes = crc32 (dl ++ bytes)).
    { rewrite Hdg. unfold crc32. apply Hcrc. }
    assert (Hs' : u32 (z_size z + lenN bytes) = lenN (dl ++ bytes) mod 4294967296).
    { rewrite Hsz, Hu32. unfold lenN. rewrite app_length, Nat2N.inj_add. reflexivity. }
    assert (HT' : T ++ bytes = acc ++ (dl ++ bytes)) by (rewrite HT; symmetry; apply app_assoc).
    destruct fuel as [|f]; [lia|].
    assert (HRc : g_err (gz_members (S f) multi l acc hs) = CEOF) by (rewrite <- HR; exact HRok).
    destruct (members_ceof f multi l acc hs HRc) as (M1 & _).
    assert (Hstrict : strict l).
    { apply strict_std_final; [exact M1|]. exact (proj1 Hstd). }
    destruct (gz_upd_fields z d1 bytes r) as (U1 & U2 & U3 & U4 & U5 & U6).
    assert (Hbad : r <> ROk -> r = REOF \/ r = RPanic \/ r = RStuck).
    { intros Hne. destruct (I5 Hne) as [X|[X|[X|[(_ & Y)|(_ & Y)]]]].
      - left; exact X.
      - right; left; exact X.
      - right; right; exact X.
      - rewrite M1 in Y. discriminate Y.
      - exfalso. exact (Y Hstrict M1). }
    destruct r;
      try (destruct (Hbad ltac:(discriminate)) as [X|[X|X]]; discriminate X).
    + (* nil: at least one byte *)
      cbv beta iota zeta delta [rd_postC]. left. split; [reflexivity|].
      split; [exact (I4 eq_refl Hp0)|].
      exists l, acc, hs, (S f), (dl ++ bytes), d1, D0.
      rewrite U1, U2, U3, U4, U5, U6.
      split; [reflexivity|]. split; [exact S1|]. split; [reflexivity|]. split; [exact Hms|].
      split; [exact HD|]. split; [rewrite set_rBuf_same; exact I1|].
      split; [rewrite S3; exact Htm|]. split; [exact I2|].
      split; [exact HT'|]. split; [exact Hd'|]. split; [exact Hs'|]. split; [exact HR|].
      split; [exact Hstd|exact Hf].
    + (* io.EOF from the decompressor *)
      destruct (I3 eq_refl) as (J1 & J2 & J3).
      apply eof_tail_okC with (l := l) (acc := acc) (hs := hs) (fuel := S f) (D0 := D0) (d1 := d1).
      * intros z1 G1. apply IH; [exact Hp0|exact G1].
      * rewrite U1. exact S1.
      * exact U2.
      * rewrite U3. exact Hms.
      * exact HD.
      * rewrite U1. exact J3.
      * rewrite HT', J2. reflexivity.
      * rewrite U4, Hd', J2. reflexivity.
      * rewrite U5, Hs', J2. reflexivity.
      * exact HR.
      * exact Hstd.
      * exact Hf.
      * rewrite U1, S3. exact Htm.
    + cbv beta iota zeta delta [rd_postC]. right. right. left. reflexivity.
    + cbv beta iota zeta delta [rd_postC]. right. right. right. reflexivity.
Qed.

(* ================================================================ the run of Reads *)
Lemma in_frev_head : forall (acc : list (list N * gres)) b e tail,
  In (b, e) (frev ((b, e) :: acc) ++ tail).
Proof.
  intros acc b e tail. apply in_or_app. left. rewrite gfrev_rev. apply -> in_rev. left. reflexivity.
Qed.

Lemma reads_okC : forall reads z T acc,
  Forall (fun p => 0 < p) reads -> GC z T ->
  (length (g_payload R) < length T + length reads)%nat ->
  Forall (fun br => gres_safe (snd br)) (fst (gz_reads_g z reads acc)) ->
  In (GR REOF) (map snd (fst (gz_reads_g z reads acc))).
Proof.
  induction reads as [|p rest IH]; intros z T acc Hpos HG Hlen Hsafe.
  - exfalso. destruct (GC_prefix z T HG) as (u & Hu).
    apply (f_equal (@length N)) in Hu. rewrite app_length in Hu. cbn [length] in Hlen.
    unfold byte in *. lia.
  - cbn [gz_reads_g] in Hsafe |- *.
    assert (Herr : z_err z = GR ROk) by (destruct HG as (? & ? & ? & ? & ? & ? & ? & He & _); exact He).
    inversion Hpos as [|p' rest' Hp0 Hpos']; subst p' rest'.
    pose proof (gzRead_loop_okC big_fuel z T p Hp0 HG) as HP.
    assert (Hrd : gzRead z p = gzRead_loop big_fuel z p).
    { unfold gzRead. rewrite Herr. reflexivity. }
    rewrite Hrd in Hsafe |- *.
    destruct (gzRead_loop big_fuel z p) as [[z1 b] e].
    cbv beta iota zeta delta [rd_postC] in HP.
    destruct HP as [(He & Hb & HG1)|[He|[He|He]]].
    + subst e. apply (IH z1 (T ++ b)); [exact Hpos'|exact HG1| |exact Hsafe].
      rewrite app_length. cbn [length] in Hlen.
      assert (0 < length b)%nat by (destruct b; [contradiction|cbn [length]; lia]).
      lia.
    + subst e. rewrite reads_app. apply in_map_iff. exists (b, GR REOF).
      split; [reflexivity|apply in_frev_head].
    + exfalso. subst e. rewrite reads_app in Hsafe. rewrite Forall_forall in Hsafe.
      destruct (Hsafe _ (in_frev_head acc b (GR RPanic) _)) as (X & _). apply X. reflexivity.
    + exfalso. subst e. rewrite reads_app in Hsafe. rewrite Forall_forall in Hsafe.
      destruct (Hsafe _ (in_frev_head acc b (GR RStuck) _)) as (_ & X). apply X. reflexivity.
Qed.

End Complete.

(* ================================================================ gzrun *)
Theorem gz_complete_from :
  ioReadFull_spec_statement -> crc32_update_app_statement -> u32_add_statement ->
  gzReadHeader_spec_statement ->
  newReader_on_inv3_statement -> dReset_inv3_statement -> gz_dRead_ok3_statement ->
  dRead_strm_statement -> gz_sticky_statement ->
  gz_complete_statement.
Proof.
  intros HRF Hcrc Hu32 Hhdr Hnew Hreset HdR Hstrm _.
  intros data cs bufsize t multi reads Hdata Hcs Hne R HRok Hctor Hstd Hmt Hpos Hlen.
  unfold R in *. clear R.
  rewrite gzrun_eq.
  destruct (newbuf_ok bufsize cs t Hne) as (B1 & B2 & B3).
  change (mkBuf (N.max bufsize 16) [] 0 None cs t 0) with (mkbufrd bufsize cs t) in B1, B2, B3.
  assert (Bt : term (mkbufrd bufsize cs t) = t) by reflexivity.
  set (rb := mkbufrd bufsize cs t) in *.
  set (z0 := mkGZ hdr0 rb None 0 0 (GR ROk) true).
  assert (Hs0 : bstream (z_r z0) = data) by (unfold z0; cbn [z_r]; rewrite B2; exact Hcs).
  assert (Hb0 : GzEngineSpec.bytes_ok (bstream (z_r z0))) by (rewrite Hs0; exact Hdata).
  pose proof (Hhdr z0 B1 Hb0) as HH. cbv zeta in HH. rewrite Hs0 in HH.
  destruct (gzReadHeader z0) as [[z1 hdr] e].
  destruct HH as (H1 & (used & H2 & H3) & H4 & H5 & H6 & H7 & H8 & H9 & H10 & H11 & H12 & H13).
  unfold z0 in H3, H4, H5, H6, H7, H8, H9, H10, H11.
  cbn [z_r z_dec z_multistream z_err z_hdr z_size] in H3, H4, H5, H6, H7, H8, H9, H10, H11.
  assert (Hparse : exists h rest, gz_parse_header data = HP_ok h rest).
  { unfold gz_read in Hctor. destruct (gz_parse_header data) as [h rest|err].
    - exists h, rest. reflexivity.
    - cbn [g_at_ctor] in Hctor. discriminate Hctor. }
  destruct Hparse as (h0 & rest0 & Hparse).
  destruct (gnil e) eqn:Eg; cbn [negb].
  - apply gnil_true in Eg. subst e.
    destruct (H10 eq_refl) as (h & rest & P1 & P2 & P3 & P4 & P5).
    assert (HR : gz_read multi data = gz_members (S (length data)) multi rest [] [h]).
    { unfold gz_read. rewrite P1. reflexivity. }
    assert (Hstd' : gz_members_std (S (length data)) multi rest).
    { unfold gz_std in Hstd. rewrite P1 in Hstd. exact Hstd. }
    assert (G : GC data multi t (gzMultistream (gz_set_err (gz_set_hdr z1 hdr) (GR ROk)) multi) []).
    { exists rest, [], [h], (S (length data)), [], (newReader_on (z_r z1)), used.
      cbn [gzMultistream gz_set_err gz_set_hdr z_err z_r z_dec z_multistream z_digest z_size].
      split; [reflexivity|].
      split.
      { split; [exact H1|]. exists used. split; [exact H2|].
        rewrite H3, B3. unfold lenN. lia. }
      split; [exact P5|]. split; [reflexivity|].
      split; [rewrite <- P2; exact H2|].
      split.
      { change (set_rBuf (newReader_on (z_r z1)) (z_r z1)) with (newReader_on (z_r z1)).
        pose proof (Hnew (z_r z1) H1) as HI. rewrite P2, H3, B3, H5, Bt in HI. exact HI. }
      split; [rewrite H5; exact Bt|].
      split; [exists (out (Inflate.inflate [] rest)); reflexivity|].
      split; [reflexivity|]. split; [rewrite P4; reflexivity|]. split; [rewrite H9; reflexivity|].
      split; [exact HR|]. split; [exact Hstd'|].
      assert (length rest <= length data)%nat by (rewrite H2, <- P2, app_length; unfold byte; lia).
      unfold byte in *; lia. }
    intros Hsafe. split; [reflexivity|].
    exact (reads_okC data multi t Hdata HRF Hcrc Hu32 Hhdr Hreset HdR Hstrm Hmt HRok reads _ [] []
             Hpos G Hlen Hsafe).
  - exfalso.
    assert (Hne' : e <> GR ROk) by (intros ->; discriminate Eg).
    exact (proj2 (H11 Hne') h0 rest0 Hparse).
Qed.

Print Assumptions gz_complete_from.
