(* EngineRefineLitLenMain.v -- gen_litlen : gen_litlen_statement (RModel/EngineRefineSpec.v, M3b),
   assembled from
     EngineRefineLitLenXc      xcodes_char / xcodes_wf / xcodes_prefix_free
     EngineRefineLitLenPrefix  ps_loops_spec        (prefix sums + over-subscription test)
     EngineRefineLitLenSort    sae_tail_sorted      (counting sort: xsorted)
     EngineRefineLitLenShort   gll_phase1_ok        (short table: singles / pairs / triples)
     EngineRefineLitLenLong    encodeLongCodes_ok   (long-code groups)
     EngineRefineLitLenLookup  litlen_lookup_ok     (litlen_decode on such tables) *)
From Coq Require Import List NArith ZArith Bool Lia ZifyBool ZifyNat ZifyN.
From Verif Require Import Bits Huffman Inflate.
From Verif Require Import Base EngineTables Engine EngineRefineSpec.
From Verif Require Import EngineRefineLitLenBase EngineRefineLitLenDefs EngineRefineLitLenCode.
From Verif Require Import EngineRefineLitLenXc EngineRefineLitLenPrefix EngineRefineLitLenSort EngineRefineLitLenShort
  EngineRefineLitLenLong  EngineRefineLitLenLookup.
Import ListNotations.
Open Scope N_scope.

(* sae_tail never reports an invalid block *)
Lemma sae_tail_err : forall d ex nc d1 e, sae_tail d ex nc = (d1, e) -> e = ENone \/ e = EPanic.
Proof.
  intros d ex nc d1 e H.
  assert (G : snd (sae_tail d ex nc) = ENone \/ snd (sae_tail d ex nc) = EPanic).
  { unfold sae_tail.
    destruct (calcCodeForLit _ _ _ _) as [[[[hf cl] ex'] nc'] pan1].
    destruct (expandLenCodes _ _ _ _ _) as [[[[hf2 cl2] ex2] nc2] pan2].
    cbn [snd]. destruct (pan1 || pan2); [right|left]; reflexivity. }
  rewrite H in G. exact G.
Qed.

Lemma xsorted_lc_mono : forall xc d a n, xsorted xc d -> a + N.of_nat n <= 22 ->
  aget (litCount d) a <= aget (litCount d) (a + N.of_nat n).
Proof.
  intros xc d a n (_ & Hm & _). induction n as [|n IH]; intros Ha.
  - replace (a + N.of_nat 0) with a by lia. lia.
  - replace (a + N.of_nat (S n)) with (a + N.of_nat n + 1) by lia.
    pose proof (IH ltac:(lia)) as H1. pose proof (Hm (a + N.of_nat n) ltac:(lia)) as H2. lia.
Qed.

(* an empty code list: the extended code is empty *)
Lemma xsorted_empty : forall xc d, xc_wf xc -> xsorted xc d -> aget (litCount d) 22 = 0 ->
  forall s len val, ~ In (s, len, val) xc.
Proof.
  intros xc d Hwf HS H0 s len val Hin.
  destruct (Hwf s len val Hin) as (Hl & _ & _).
  pose proof HS as (_ & _ & _ & _ & H5 & _).
  destruct (H5 s len val Hin) as (k & Hk & _).
  pose proof (xsorted_lc_mono xc d (N.of_nat len + 1) (N.to_nat (22 - (N.of_nat len + 1))) HS
                ltac:(lia)) as Hm.
  replace (N.of_nat len + 1 + N.of_nat (N.to_nat (22 - (N.of_nat len + 1)))) with 22 in Hm by lia.
  lia.
Qed.

Theorem gen_litlen : gen_litlen_statement.
Proof.
  unfold gen_litlen_statement. intros ll d sh0 lg0 multisym Hin.
  pose proof (ps_loops_spec ll d Hin) as Hps.
  rewrite setAndExpand_eq.
  destruct (ps_loop1 _ _ _ _) as [[[ex1 nc1] ct] ctmp].
  destruct (ps_loop2 _ _ _) as [[ex2 ct2] ctmp2].
  destruct Hps as [Hpost Hov].
  destruct Hin as [Hlens _].
  pose proof Hlens as (Hlen & Hall & _ & _).
  rewrite Hov.
  destruct (oversubscribed 15 ll) eqn:Eo.
  - split; [split; reflexivity|]. intros Hc. discriminate Hc.
  - destruct (sae_tail d ex2 nc1) as [d1 e1] eqn:Et.
    split.
    + destruct (sae_tail_err _ _ _ _ _ Et) as [-> | ->]; split; intros Hc; discriminate Hc.
    + intros He1. subst e1.
      pose proof (xcodes_char ll Hlen Hall) as Hchar.
      pose proof (xcodes_wf ll Hlen Hall Eo) as Hwf.
      pose proof (xcodes_prefix_free ll Hlen Hall Eo) as Hpf.
      pose proof (sae_tail_sorted ll (xcodes ll) d ex2 nc1 d1 Hlens Hpost Eo Hchar Et) as HS.
      rewrite genForLitLen_eq. cbv zeta.
      change (maxLitLenCount - 1) with 22.
      destruct (aget (litCount d1) 22 =? 0) eqn:E22.
      * intros _ ds dl. rewrite <- lit_tab_ok_x_eq.
        assert (Hemp : forall s len val, ~ In (s, len, val) (xcodes ll)).
        { apply (xsorted_empty _ d1 Hwf HS). lia. }
        apply (litlen_lookup_ok (xcodes ll) aempty aempty lg0 ds dl Hwf Hpf).
        -- intros x Hx. split.
           ++ left. apply aget_empty.
           ++ intros s len val Hi. exfalso. apply (Hemp s len val Hi).
        -- split.
           ++ intros x _ _. reflexivity.
           ++ intros s len val Hi. exfalso. apply (Hemp s len val Hi).
      * destruct (gll_phase1 sh0 d1 multisym) as [[S0 cs] err] eqn:Ep.
        destruct err; try (intros Hc; discriminate Hc).
        destruct (encodeLongCodes S0 lg0 d1 (aget (litCount d1) 22)) as [[[sh lg] huff'] pan] eqn:El.
        destruct pan; [intros Hc; discriminate Hc|].
        intros _ ds dl. rewrite <- lit_tab_ok_x_eq.
        apply (litlen_lookup_ok (xcodes ll) S0 sh lg ds dl Hwf Hpf).
        -- apply (gll_phase1_ok (xcodes ll) d1 sh0 multisym S0 cs Hwf HS); [lia|exact Ep].
        -- apply (encodeLongCodes_ok (xcodes ll) d1 S0 lg0 sh lg huff' Hwf HS El).
Qed.

Print Assumptions gen_litlen.
