(* EngineRefineRdHdr.v -- readHeader (with its 328-byte staging buffer) of RModel/Engine.v
   against the reference (statements in RModel/EngineRefineSpecHdr.v).
   tryDecodeHeader_refine is in proofs/EngineRefineRdHdrA.v.

   readHeader_refine_statement cannot be derived from its premises (used as black boxes) as
   written, in the staged case (phase DecodingHeader); the non-staged case is fine.
   readHeader runs tryDecodeHeader on the reader
       rd s1 = (r_bits b0, r_len b0, headerBuffer ++ firstn copySize (r_in b0))
   and tryDecodeHeader_refine needs br_wf (rd s1).  hdr_ok s only gives br_wf (lrd s), i.e.
   well-formedness w.r.t. headerBuffer ++ ALL of r_in b0.  The last clause of br_wf (every
   bit set in r_bits is a bit of the stream at the same position) puts no bound on the
   positions (nothing says r_bits < 2^64), so when copySize < r_inlen b0 (more than 328
   bytes in total) a bit of r_bits may refer to a byte of r_in b0 behind the staged 328 bytes:
   br_wf (lrd s) holds and br_wf (rd s1) does not (e.g. hb = 0, r_len = 0, r_bits = 2^3000,
   400 input bytes with bit 3000 set), and nothing is known about tryDecodeHeader s1.
   (No counterexample to the statement itself: the engine most likely never looks at such a
   bit; but showing that means going through all of tryDecodeHeader again.)
   What is missing: the bit buffer of a state in phase DecodingHeader is well formed w.r.t.
   the staging buffer alone (hdr_ok_staged below).  This is what the EEndInput exit of
   readHeader establishes (all input went to the staging buffer, r_in = []), and feeding
   fresh input (r_in := ...) does not touch it.  readHeader_refine_partial proves the
   statement with this extra premise, and gives it back on the EEndInput exit. *)
From Coq Require Import List NArith ZArith Bool Lia ZifyBool ZifyNat ZifyN.
From Verif Require Import Bits Huffman HuffmanSpec Inflate InflateSpec InflateMono.
From Verif Require Import Base EngineTables Engine EngineRefineSpec EngineRefineSpecBlock
  EngineRefineSpecHdr EngineRefineBits EngineRefineBridge.
From Verif Require Import EngineRefineRdHdrA EngineRefineRdHdrB.
Import ListNotations.
Open Scope N_scope.

Local Opaque tryDecodeHeader.

Definition hdr_ok_staged (s : inflate) : Prop :=
  phase s = phaseDecodingHeader ->
  br_wf (mkBR (r_bits (rd s)) (r_len (rd s)) (headerBuffer s) (headerBuffered s)).

Definition readHeader_refine_partial_statement : Prop :=
  tryDecodeHeader_refine_statement -> header_bound_statement ->
  setupDynamicHeader_refine_body -> prepareForLitBlock_refine_statement ->
  static_lit_tab_ok_statement -> static_dist_tab_ok_statement ->
  forall s e p,
    hdr_ok s -> hdr_ok_staged s -> ((Z.of_N p + r_len (rd s)) mod 8 = 0)%Z ->
    let '(s', err) := readHeader s in
    same_hdr_frame s s' /\
    (err = ENone ->
       br_wf (rd s') /\ (0 <= r_len (rd s'))%Z /\ headerBuffer s' = [] /\ headerBuffered s' = 0 /\
       hdr_result s' (mkbs (lbits s ++ e) p) e) /\
    (err = EEndInput ->
       hdr_ok s' /\ hdr_ok_staged s' /\ phase s' = phaseDecodingHeader /\ lbits s' = lbits s /\
       r_in (rd s') = [] /\ r_inlen (rd s') = 0 /\
       r_bits (rd s') = r_bits (rd s) /\ r_len (rd s') = r_len (rd s)).

(* hdr_ok_staged comes for free when the input is empty *)
Lemma hdr_ok_staged_of_empty : forall s,
  hdr_ok s -> r_in (rd s) = [] -> r_inlen (rd s) = 0 -> hdr_ok_staged s.
Proof.
  intros s (WL & _) Hin Hlen _. unfold lrd in WL. rewrite Hin, Hlen, app_nil_r, N.add_0_r in WL.
  exact WL.
Qed.

(* the body of readHeader with the tryDecodeHeader result abstracted *)
Definition rh_instance (s : inflate) (e : list bool) (p : N) (r : inflate * ierr) : Prop :=
  let '(s', err) := r in
  same_hdr_frame s s' /\
  (err = ENone ->
     br_wf (rd s') /\ (0 <= r_len (rd s'))%Z /\ headerBuffer s' = [] /\ headerBuffered s' = 0 /\
     hdr_result s' (mkbs (lbits s ++ e) p) e) /\
  (err = EEndInput ->
     hdr_ok s' /\ hdr_ok_staged s' /\ phase s' = phaseDecodingHeader /\ lbits s' = lbits s /\
     r_in (rd s') = [] /\ r_inlen (rd s') = 0 /\
     r_bits (rd s') = r_bits (rd s) /\ r_len (rd s') = r_len (rd s)).

Lemma rh_vacuous : forall s e p s' err,
  same_hdr_frame s s' -> err <> ENone -> err <> EEndInput -> rh_instance s e p (s', err).
Proof.
  intros s e p s' err FR N1 N2. unfold rh_instance.
  split; [exact FR|]. split; intros E; congruence.
Qed.

(* the EEndInput exit: everything is kept *)
Lemma rh_end_input : forall s e p s3,
  hdr_ok s -> same_hdr_frame s s3 ->
  N.min (maxHdrSize - headerBuffered s) (r_inlen (rd s)) = r_inlen (rd s) ->
  headerBuffered s + r_inlen (rd s) <= 300 ->
  rh_instance s e p
    (set_phase
       (set_rd (set_header s3 (headerBuffered s + N.min (maxHdrSize - headerBuffered s) (r_inlen (rd s)))
                  (headerBuffer s ++ firstn (N.to_nat (N.min (maxHdrSize - headerBuffered s) (r_inlen (rd s))))
                                            (r_in (rd s))))
               (mkBR (r_bits (rd s)) (r_len (rd s)) [] 0))
       phaseDecodingHeader, EEndInput).
Proof.
  intros s e p s3 Hok FR Emin Hle. rewrite Emin.
  pose proof Hok as (WL & H0 & Ehb & Hhb & Hph & Hnb).
  pose proof WL as (L1 & _). unfold lrd in L1. cbn [r_in r_inlen] in L1.
  rewrite app_length in L1.
  assert (Efn : firstn (N.to_nat (r_inlen (rd s))) (r_in (rd s)) = r_in (rd s)).
  { apply firstn_all2. lia. }
  rewrite Efn.
  set (s' := set_phase _ _).
  assert (Elrd : lrd s' = lrd s).
  { unfold lrd, s'. cbn [rd headerBuffer headerBuffered set_phase set_rd set_header r_bits r_len r_in r_inlen].
    rewrite app_nil_r, N.add_0_r. reflexivity. }
  assert (Hok' : hdr_ok s').
  { unfold hdr_ok. rewrite Elrd. split; [exact WL|].
    unfold s'. cbn [rd headerBuffer headerBuffered phase set_phase set_rd set_header r_len].
    split; [exact H0|]. split; [rewrite app_length; lia|]. split; [exact Hle|].
    split; [right; reflexivity|]. intros Hx. discriminate Hx. }
  unfold rh_instance.
  split; [destruct FR as (F1 & F2 & F3); repeat split; assumption|].
  split; [discriminate|]. intros _.
  split; [exact Hok'|].
  split; [apply hdr_ok_staged_of_empty; [exact Hok'|reflexivity|reflexivity]|].
  split; [reflexivity|].
  split; [unfold lbits; rewrite Elrd; reflexivity|].
  repeat split.
Qed.

(* ---------------------------------------------------------------- not staged *)
Lemma readHeader_fresh : forall s e p,
  (forall s e p,
    br_wf (rd s) -> (0 <= r_len (rd s))%Z -> ((Z.of_N p + r_len (rd s)) mod 8 = 0)%Z ->
    let '(s', err) := tryDecodeHeader s in
    same_hdr_frame s s' /\ headerBuffered s' = headerBuffered s /\ headerBuffer s' = headerBuffer s /\
    (err = ENone ->
       br_wf (rd s') /\ (0 <= r_len (rd s'))%Z /\
       hdr_result s' (mkbs (br_bits (rd s) ++ e) p) e)) ->
  header_bound_statement ->
  hdr_ok s -> phase s = phaseNewBlock -> ((Z.of_N p + r_len (rd s)) mod 8 = 0)%Z ->
  rh_instance s e p (readHeader s).
Proof.
  intros s e p T HB Hok HphN Hal.
  pose proof Hok as (WL & H0 & Ehb & Hhb & Hph & Hnb).
  specialize (Hnb HphN).
  assert (Ehb0 : headerBuffered s = 0) by (rewrite Ehb, Hnb; reflexivity).
  assert (Elrd : lrd s = rd s).
  { unfold lrd. rewrite Hnb, Ehb0. cbn [app]. rewrite N.add_0_l. destruct (rd s); reflexivity. }
  assert (Wf : br_wf (rd s)) by (rewrite <- Elrd; exact WL).
  assert (Elb : lbits s = br_bits (rd s)) by (unfold lbits; rewrite Elrd; reflexivity).
  unfold readHeader. rewrite HphN. change (phaseNewBlock =? phaseDecodingHeader) with false.
  cbv beta iota zeta. cbn [andb].
  pose proof (T s e p Wf H0 Hal) as R.
  destruct (tryDecodeHeader s) as [s2 err] eqn:ET. destruct R as (FR & B1 & B2 & OK).
  assert (FR0 : same_hdr_frame s (set_header s2 0 [])).
  { destruct FR as (F1 & F2 & F3). repeat split; assumption. }
  destruct err; try (apply rh_vacuous; [assumption|discriminate|discriminate]).
  - (* ENone *)
    destruct (OK eq_refl) as (W2 & H02 & HR).
    unfold rh_instance. split; [exact FR0|]. split; [intros _|discriminate].
    cbn [rd headerBuffer headerBuffered set_header].
    split; [exact W2|]. split; [exact H02|]. split; [reflexivity|]. split; [reflexivity|].
    rewrite Elb.
    eapply hdr_result_transfer; [| | | | | |exact HR]; reflexivity.
  - (* EEndInput *)
    pose proof (HB s s2 Wf H0 ET) as Hb.
    apply rh_end_input; [exact Hok|exact FR| |].
    + rewrite Ehb0. unfold maxHdrSize. lia.
    + rewrite Ehb0. lia.
Qed.

(* ---------------------------------------------------------------- staged *)
Lemma readHeader_staged : forall s e p,
  (forall s e p,
    br_wf (rd s) -> (0 <= r_len (rd s))%Z -> ((Z.of_N p + r_len (rd s)) mod 8 = 0)%Z ->
    let '(s', err) := tryDecodeHeader s in
    same_hdr_frame s s' /\ headerBuffered s' = headerBuffered s /\ headerBuffer s' = headerBuffer s /\
    (err = ENone ->
       br_wf (rd s') /\ (0 <= r_len (rd s'))%Z /\
       hdr_result s' (mkbs (br_bits (rd s) ++ e) p) e)) ->
  header_bound_statement ->
  hdr_ok s -> hdr_ok_staged s -> phase s = phaseDecodingHeader ->
  ((Z.of_N p + r_len (rd s)) mod 8 = 0)%Z ->
  rh_instance s e p (readHeader s).
Proof.
  intros s e p T HB Hok HS HphD Hal.
  pose proof Hok as (WL & H0 & Ehb & Hhb & Hph & Hnb).
  specialize (HS HphD).
  pose proof WL as (L1 & _ & _ & L4 & _). unfold lrd in L1, L4. cbn [r_in r_inlen] in L1, L4.
  rewrite app_length in L1.
  assert (Einlen : r_inlen (rd s) = N.of_nat (length (r_in (rd s)))) by lia.
  apply Forall_app in L4. destruct L4 as [Fh Fi].
  unfold readHeader. rewrite HphD. change (phaseDecodingHeader =? phaseDecodingHeader) with true.
  cbv beta iota zeta. cbn [andb].
  set (c := N.min (maxHdrSize - headerBuffered s) (r_inlen (rd s))).
  set (fin := firstn (N.to_nat c) (r_in (rd s))).
  set (rest := skipn (N.to_nat c) (r_in (rd s))).
  assert (Hc : c <= r_inlen (rd s)) by (unfold c; lia).
  assert (Lfin : length fin = N.to_nat c) by (unfold fin; apply firstn_length_le; lia).
  assert (Ffin : Forall (fun x => x < 256) fin) by (apply Forall_firstn'; exact Fi).
  assert (Frest : Forall (fun x => x < 256) rest) by (apply Forall_skipn'; exact Fi).
  assert (Esplit : r_in (rd s) = fin ++ rest) by (symmetry; apply firstn_skipn).
  set (s1 := set_rd s (br_set_in (rd s) (headerBuffer s ++ fin) (c + headerBuffered s))).
  assert (W1 : br_wf (rd s1)).
  { pose proof (br_wf_app_in _ fin HS H0 Ffin) as X. cbn zeta in X. cbn [r_bits r_len r_in r_inlen] in X.
    replace (headerBuffered s + N.of_nat (length fin)) with (c + headerBuffered s) in X by lia.
    exact (proj1 X). }
  set (e' := bits_of_bytes rest ++ e).
  assert (Estream : lbits s ++ e = br_bits (rd s1) ++ e').
  { unfold lbits, lrd, br_bits, s1, e'. cbn [rd set_rd br_set_in r_bits r_len r_in].
    rewrite Esplit. rewrite !bits_of_bytes_app, <- !app_assoc. reflexivity. }
  pose proof (T s1 e' p W1 H0 Hal) as R.
  destruct (tryDecodeHeader s1) as [s2 err] eqn:ET. destruct R as (FR & B1 & B2 & OK).
  assert (FR' : same_hdr_frame s s2) by exact FR.
  set (read := (Z.of_N (c + headerBuffered s) - Z.of_N (r_inlen (rd s2)) - Z.of_N (headerBuffered s))%Z).
  assert (Eread : read = (Z.of_N c - Z.of_N (r_inlen (rd s2)))%Z) by (unfold read; lia).
  clearbody read.
  set (b3 := br_set_in (rd s2) (skipn (Z.to_nat read) (r_in (rd s))) (r_inlen (rd s) - Z.to_N read)).
  assert (FR3 : same_hdr_frame s (set_rd s2 b3)).
  { destruct FR' as (F1 & F2 & F3). repeat split; assumption. }
  assert (FR4 : same_hdr_frame s (set_header (set_rd s2 b3) 0 [])).
  { destruct FR' as (F1 & F2 & F3). repeat split; assumption. }
  destruct err; try (apply rh_vacuous; [exact FR'|discriminate|discriminate]);
    (destruct ((read <? 0)%Z || (Z.of_N (r_inlen (rd s)) <? read)%Z) eqn:Echk;
     [apply rh_vacuous; [exact FR'|discriminate|discriminate]|]);
    try (apply rh_vacuous; [exact FR4|discriminate|discriminate]).
  - (* ENone *)
    destruct (OK eq_refl) as (W2 & H02 & HR).
    destruct (hdr_result_sfx _ _ _ HR) as [k Hk]. cbn [bl] in Hk.
    pose proof W2 as (V1 & _ & _ & V4 & _).
    assert (Hle : (length (r_in (rd s2)) <= length fin)%nat) by lia.
    assert (Fhf : Forall (fun x => x < 256) (headerBuffer s ++ fin)) by (apply Forall_app; split; assumption).
    pose proof (staged_suffix (r_bits (rd s)) (r_bits (rd s2)) (r_len (rd s)) (r_len (rd s2))
                  (headerBuffer s) fin (r_in (rd s2)) e' k Fhf V4 H0 H02 Hk Hle) as Er2.
    assert (Ern : Z.to_nat read = (length fin - length (r_in (rd s2)))%nat) by lia.
    assert (Esk : skipn (Z.to_nat read) (r_in (rd s)) = r_in (rd s2) ++ rest).
    { transitivity (skipn (Z.to_nat read) fin ++ rest); [apply skipn_firstn_split; lia|].
      rewrite Ern, <- Er2. reflexivity. }
    pose proof (br_wf_app_in (rd s2) rest W2 H02 Frest) as X. cbn zeta in X. destruct X as (W3 & Eb3).
    assert (Eb : b3 = mkBR (r_bits (rd s2)) (r_len (rd s2)) (r_in (rd s2) ++ rest)
                           (r_inlen (rd s2) + N.of_nat (length rest))).
    { unfold b3, br_set_in. rewrite Esk. f_equal. unfold rest. rewrite skipn_length. lia. }
    unfold rh_instance. split; [exact FR4|]. split; [intros _|discriminate].
    rewrite Eb. cbn [rd headerBuffer headerBuffered set_header set_rd].
    split; [exact W3|]. split; [exact H02|]. split; [reflexivity|]. split; [reflexivity|].
    rewrite Estream.
    eapply hdr_result_transfer; [| | | | | |exact HR]; try reflexivity.
    cbn [rd set_header set_rd]. rewrite Eb3. unfold e'. rewrite app_assoc. reflexivity.
  - (* EEndInput *)
    pose proof (HB s1 s2 W1 H0 ET) as Hb.
    change (r_inlen (rd s1)) with (c + headerBuffered s) in Hb.
    assert (Emin : c = r_inlen (rd s)) by (unfold c, maxHdrSize in *; lia).
    apply rh_end_input; [exact Hok|exact FR3|exact Emin|lia].
Qed.

(* ---------------------------------------------------------------- readHeader *)
Theorem readHeader_refine_partial : readHeader_refine_partial_statement.
Proof.
  intros HT HB HD HP HSL HSD s e p Hok HS Hal.
  pose proof (HT HD HP HSL HSD) as T.
  assert (G : rh_instance s e p (readHeader s)).
  { pose proof Hok as (_ & _ & _ & _ & [HphN|HphD] & _).
    - apply readHeader_fresh; [intros; apply T; assumption|exact HB|exact Hok|exact HphN|exact Hal].
    - apply readHeader_staged; [intros; apply T; assumption|exact HB|exact Hok|exact HS|exact HphD|exact Hal]. }
  unfold rh_instance in G. exact G.
Qed.

Print Assumptions readHeader_refine_partial.
