(* EngineRefineHuffMain.v -- M5: decodeHuffman (+ the overflow flush of decomperss) against the
   reference inflater.

   STATEMENT CORRECTION.  decodeHuffman_refine_statement (RModel/EngineRefineSpecBlock.v) and
   decodeHuffman_refine2_statement (RModel/EngineRefineSpecBlock2.v) are FALSE as written, for
   a reason that has nothing to do with decoding: their conclusion contains `ov s2 = ov0`
   while the hypotheses only say writeOverflowLen (ov s) = 0.  A stale value in
   writeOverflowLits survives a call that parks nothing:
       s = mkInflate br0 true (mkOV 5 0 0 0) static_tabs phaseHeaderDecoded 0 0 0 [] dyn0 0,
       out = aempty, w = 0, no input:
       decodeHuffman returns EEndInput with s unchanged, flush_ov does nothing,
       ov s2 = mkOV 5 0 0 0 <> ov0.
   (The engine never produces such a state: every path that parks literals either flushes them
   or rolls back, both with set_wov 0 0.)  Both refutations are proved in EngineRefineHuffCex.v
   (decodeHuffman_refine_statement_false, decodeHuffman_refine2_statement_false).

   What is proved:
   - decodeHuffman_refine_gen: the strongest form: statement 2 (with the byte count
     olen st' = olen st + (w2 - w)) where `ov s2 = ov0` is replaced by
     `ov s2 = ov0 \/ ov s2 = mkOV (writeOverflowLits (ov s)) 0 0 0`;
   - decodeHuffman_refine2_partial / decodeHuffman_refine_partial: literally the two statements
     with the one extra hypothesis writeOverflowLits (ov s) = 0;
   - decodeHuffman_refine3 : decodeHuffman_refine3_statement (RModel/EngineRefineSpecBlock3.v,
     the corrected statement = decodeHuffman_refine2_partial). *)
From Coq Require Import List NArith ZArith Bool Lia ZifyBool ZifyNat ZifyN.
From Verif Require Import Bits Huffman HuffmanSpec Inflate InflateSpec InflateMono.
From Verif Require Import Base EngineTables Engine EngineRefineSpec EngineRefineSpecBlock
                          EngineRefineSpecBlock2 EngineRefineSpecBlock3 EngineRefineBits EngineRefineBridge.
From Verif Require HuffmanProofs SymbolsProofs EngineFacts.
From Verif Require Import EngineRefineHuffBase EngineRefineHuffSyms EngineRefineHuffDist
                          EngineRefineHuffInner EngineRefineHuffOuter.
Import ListNotations.
Open Scope N_scope.

(* ---------------------------------------------------------------- FINISH: the masking of bits *)
Lemma bits_of_N_land_ones : forall n v, bits_of_N n (N.land v (N.ones (N.of_nat n))) = bits_of_N n v.
Proof.
  intros n v. apply (nth_ext _ _ false false); [rewrite !bits_of_N_length; reflexivity|].
  intros i Hi. rewrite bits_of_N_length in Hi. rewrite !nth_bits_of_N by exact Hi.
  rewrite N.land_spec, N.ones_spec_low by lia. apply andb_true_r.
Qed.

Lemma ones64_ones : forall k, k <= 64 -> ones64 k = N.ones k.
Proof.
  intros k Hk. unfold ones64. destruct (N.leb_spec 64 k) as [H|_]; [|reflexivity].
  replace k with 64 by lia. reflexivity.
Qed.

Lemma mask_keep : forall b, br_wf b -> (0 <= r_len b)%Z ->
  let n := Z.to_N (r_len b) in
  let bits := if n <? N.size (r_bits b) then N.land (r_bits b) (ones64 n) else r_bits b in
  br_wf (br_set_bits b bits) /\ br_bits (br_set_bits b bits) = br_bits b /\
  r_len (br_set_bits b bits) = r_len b.
Proof.
  intros b Hwf H0 n bits. pose proof Hwf as (W1 & W2 & W3 & W4 & W5).
  assert (Hb : br_bits (br_set_bits b bits) = br_bits b).
  { unfold br_bits, br_set_bits. cbn [r_bits r_len r_in]. f_equal. unfold bits.
    destruct (n <? N.size (r_bits b)); [|reflexivity].
    rewrite ones64_ones by (unfold n; lia).
    replace n with (N.of_nat (Z.to_nat (r_len b))) by (unfold n; lia).
    apply bits_of_N_land_ones. }
  split; [|split; [exact Hb|reflexivity]].
  unfold br_wf. split; [exact W1|]. split; [exact W2|]. split; [exact W3|]. split; [exact W4|].
  intros i Hi. rewrite Hb. apply W5. change (N.testbit bits i = true) in Hi. unfold bits in Hi.
  destruct (n <? N.size (r_bits b)); [|exact Hi].
  rewrite N.land_spec in Hi. apply andb_true_iff in Hi. apply Hi.
Qed.

(* ---------------------------------------------------------------- the general theorem *)
(* the conclusion of the M5 statements about the result (s', out', w', err) of decodeHuffman;
   L = the value writeOverflowLits may keep when nothing was parked *)
Definition huff_concl (s : inflate) (w : N) (lt dt : trie) (st : ostate) (e : list bool) (p : N)
    (L : N) (s' : inflate) (out' : arr) (w' : N) (err : ierr) : Prop :=
  let '(s2, out2, w2) := flush_ov s' out' w' in
  exists st' bs' ended,
    sym_run lt dt st (mkbs (br_bits (rd s) ++ e) p) st' bs' ended /\
    win_rel out2 w2 st' /\ olen st' = olen st + (w2 - w) /\
    w <= w' /\ w' <= outLen /\ w' <= w2 /\ w2 <= outLen + 261 /\
    (w' < w2 -> err = EOutputOverflow \/ isError err = true \/ err = EPanic \/ err = EFuel) /\
    same_static s s' /\ litBlockLength s' = litBlockLength s /\
    same_static s' s2 /\ rd s2 = rd s' /\ phase s2 = phase s' /\
    litBlockLength s2 = litBlockLength s' /\
    (ov s2 = ov0 \/ ov s2 = mkOV L 0 0 0) /\
    (err <> EPanic -> err <> EFuel -> isError err = false ->
       br_wf (rd s') /\ (0 <= r_len (rd s'))%Z /\ bl bs' = br_bits (rd s') ++ e /\
       phase s' = (if ended then (if bfinal s =? 1 then phaseStreamEnd else phaseNewBlock)
                   else phaseHeaderDecoded) /\
       (err = ENone -> ended = true) /\ (err = EEndInput -> ended = false) /\
       (err = ENone \/ err = EEndInput \/ err = EOutputOverflow) /\
       (err = EOutputOverflow -> w' = outLen)).

Definition decodeHuffman_refine_gen_statement : Prop :=
  forall s out w lt dt st e p,
    br_wf (rd s) -> (0 <= r_len (rd s))%Z ->
    phase s = phaseHeaderDecoded -> (bfinal s = 0 \/ bfinal s = 1) ->
    writeOverflowLen (ov s) = 0 ->
    tabs_for (tb s) lt dt -> win_rel out w st -> w <= outLen ->
    let '(s', out', w', err) := decodeHuffman s out w in
    huff_concl s w lt dt st e p (writeOverflowLits (ov s)) s' out' w' err.

Lemma flush_plain : forall L0 out w, flush_arr (mkOV L0 0 0 0) out w = (out, w).
Proof. reflexivity. Qed.

Theorem decodeHuffman_refine_gen : decodeHuffman_refine_gen_statement.
Proof.
  intros s out w lt dt st e p Hwf H0 Hph Hbf Hwl (ll & dl & Hlt & Hdt & Hlit & Hdist) Hwin Hw.
  set (L0 := writeOverflowLits (ov s)).
  set (s0 := set_cov s 0 0).
  assert (Es0 : s0 = upd s (phase s) (mkOV L0 0 0 0)).
  { unfold s0. rewrite set_cov_upd, Hwl. reflexivity. }
  pose proof Hwin as (A1 & A2 & A3 & A4 & A5).
  set (D := olen st - w).
  assert (W : winD D out w st) by (split; [exact Hwin|unfold D; lia]).
  pose proof (huff_outer_spec L0 D ll dl lt dt e big_fuel s0 (rd s0) out w st
                (mkbs (br_bits (rd s) ++ e) p) Hlt Hdt) as HO.
  assert (Erd : rd s0 = rd s) by (rewrite Es0; reflexivity).
  specialize (HO ltac:(rewrite Es0; exact Hlit) ltac:(rewrite Es0; exact Hdist)
                 ltac:(rewrite Es0; exact Hph) ltac:(rewrite Es0; reflexivity) W Hw
                 ltac:(rewrite Erd; split; [exact Hwf|split; [exact H0|reflexivity]])).
  unfold decodeHuffman. fold s0.
  destruct (huff_outer big_fuel s0 (rd s0) out w) as [[[[s1 b1] out1] w1] err].
  cbn [OPost] in HO.
  destruct HO as (st' & bs' & ended & o' & ph' & R & Es1 & (FW & Fl & Fu & Fo) & H1 & H2 & H3).
  rewrite Es0, upd_upd in Es1.
  (* the state after FINISH: only rd differs from s1 *)
  assert (Hgen : forall bF errF,
    (w1 < snd (flush_arr o' out1 w1) ->
       errF = EOutputOverflow \/ isError errF = true \/ errF = EPanic \/ errF = EFuel) ->
    (errF <> EPanic -> errF <> EFuel -> isError errF = false ->
       br_wf bF /\ (0 <= r_len bF)%Z /\ bl bs' = br_bits bF ++ e /\
       ph' = (if ended then (if bfinal s =? 1 then phaseStreamEnd else phaseNewBlock)
              else phaseHeaderDecoded) /\
       (errF = ENone -> ended = true) /\ (errF = EEndInput -> ended = false) /\
       (errF = ENone \/ errF = EEndInput \/ errF = EOutputOverflow) /\
       (errF = EOutputOverflow -> w1 = outLen)) ->
    huff_concl s w lt dt st e p L0 (set_rd s1 bF) out1 w1 errF).
  { intros bF errF Hpark Hnf. unfold huff_concl. rewrite flush_ov_eq.
    assert (Eov : ov (set_rd s1 bF) = o') by (rewrite Es1; reflexivity).
    rewrite Eov.
    destruct FW as [FWr FWd].
    exists st', bs', ended.
    split; [exact R|]. split; [exact FWr|]. split; [lia|]. split; [exact H1|]. split; [exact H2|].
    split; [exact Fl|]. split; [lia|]. split; [exact Hpark|].
    split; [rewrite Es1; unfold same_static; cbn; auto 10|].
    split; [rewrite Es1; reflexivity|].
    split; [unfold same_static; cbn; auto 10|].
    split; [reflexivity|]. split; [reflexivity|]. split; [reflexivity|].
    split; [cbn [set_ov ov]; exact Fo|].
    intros N1 N2 N3. destruct (Hnf N1 N2 N3) as (G1 & G2 & G3 & G4 & G5).
    split; [exact G1|]. split; [exact G2|]. split; [exact G3|].
    split; [rewrite Es1; cbn [set_rd upd set_ov set_phase phase]; exact G4|]. exact G5. }
  destruct (Z.ltb_spec (r_len b1) 0) as [Hneg|Hge].
  - (* bitsLen < 0 at FINISH: the Go code would panic *)
    apply Hgen.
    + intros _. destruct err; auto.
    + intros N1 N2 N3. destruct err; try contradiction; cbn in N3; discriminate.
  - assert (Hfatal : isError err = true \/ err = EPanic \/ err = EFuel ->
      forall bF, huff_concl s w lt dt st e p L0 (set_rd s1 bF) out1 w1 err).
    { intros Hf bF. apply (Hgen bF err).
      - intros _. right. exact Hf.
      - intros N1 N2 N3. destruct Hf as [Hf|[Hf|Hf]]; [rewrite Hf in N3; discriminate|contradiction|contradiction]. }
    assert (Hgood : good_rd e b1 bs' ->
      (w1 < snd (flush_arr o' out1 w1) ->
         err = EOutputOverflow \/ isError err = true \/ err = EPanic \/ err = EFuel) ->
      (ph' = (if ended then (if bfinal s =? 1 then phaseStreamEnd else phaseNewBlock)
              else phaseHeaderDecoded) /\
       (err = ENone -> ended = true) /\ (err = EEndInput -> ended = false) /\
       (err = ENone \/ err = EEndInput \/ err = EOutputOverflow) /\
       (err = EOutputOverflow -> w1 = outLen)) ->
      let bF := br_set_bits b1 (if Z.to_N (r_len b1) <? N.size (r_bits b1)
                                then N.land (r_bits b1) (ones64 (Z.to_N (r_len b1))) else r_bits b1) in
      huff_concl s w lt dt st e p L0 (set_rd s1 bF) out1 w1 err).
    { intros (G1 & G2 & G3) Hpark Hrest bF.
      destruct (mask_keep b1 G1 G2) as (M1 & M2 & M3). cbv zeta in M1, M2, M3. fold bF in M1, M2, M3.
      apply (Hgen bF err Hpark). intros _ _ _. rewrite M2, M3.
      split; [exact M1|]. split; [exact G2|]. split; [exact G3|]. exact Hrest. }
    destruct H3 as [(Ee & Een & Eo & G & Ep)|[(Ee & Een & Eo & G & Ep)|[(Ee & G & Hw1 & Ep)|H3]]].
    + apply (Hgood G).
      * intros Hpk. rewrite Eo, flush_plain in Hpk. cbn [snd] in Hpk. lia.
      * subst err ended ph'. split; [reflexivity|]. split; [reflexivity|]. split; [discriminate|].
        split; [auto|discriminate].
    + apply (Hgood G).
      * intros Hpk. destruct Eo as [Eo|Eo]; rewrite Eo in Hpk; [|unfold ov0 in Hpk];
          rewrite flush_plain in Hpk; cbn [snd] in Hpk; lia.
      * subst err ended ph'. split; [exact Hph|]. split; [discriminate|]. split; [reflexivity|].
        split; [auto|discriminate].
    + apply (Hgood G).
      * intros _. left. exact Ee.
      * subst err ph'. split; [destruct ended; [reflexivity|exact Hph]|].
        split; [discriminate|]. split; [discriminate|]. split; [auto|]. intros _; exact Hw1.
    + apply (Hfatal H3).
Qed.

(* ---------------------------------------------------------------- the two statements, with
   the missing hypothesis *)
Theorem decodeHuffman_refine2_partial :
  forall s out w lt dt st e p,
    br_wf (rd s) -> (0 <= r_len (rd s))%Z ->
    phase s = phaseHeaderDecoded -> (bfinal s = 0 \/ bfinal s = 1) ->
    writeOverflowLen (ov s) = 0 ->
    writeOverflowLits (ov s) = 0 ->                       (* <- the added hypothesis *)
    tabs_for (tb s) lt dt -> win_rel out w st -> w <= outLen ->
    let '(s', out', w', err) := decodeHuffman s out w in
    let '(s2, out2, w2) := flush_ov s' out' w' in
    exists st' bs' ended,
      sym_run lt dt st (mkbs (br_bits (rd s) ++ e) p) st' bs' ended /\
      win_rel out2 w2 st' /\ olen st' = olen st + (w2 - w) /\
      w <= w' /\ w' <= outLen /\ w' <= w2 /\ w2 <= outLen + 261 /\
      (w' < w2 -> err = EOutputOverflow \/ isError err = true \/ err = EPanic \/ err = EFuel) /\
      same_static s s' /\ litBlockLength s' = litBlockLength s /\
      same_static s' s2 /\ rd s2 = rd s' /\ phase s2 = phase s' /\
      litBlockLength s2 = litBlockLength s' /\ ov s2 = ov0 /\
      (err <> EPanic -> err <> EFuel -> isError err = false ->
         br_wf (rd s') /\ (0 <= r_len (rd s'))%Z /\ bl bs' = br_bits (rd s') ++ e /\
         phase s' = (if ended then (if bfinal s =? 1 then phaseStreamEnd else phaseNewBlock)
                     else phaseHeaderDecoded) /\
         (err = ENone -> ended = true) /\ (err = EEndInput -> ended = false) /\
         (err = ENone \/ err = EEndInput \/ err = EOutputOverflow) /\
         (err = EOutputOverflow -> w' = outLen)).
Proof.
  intros s out w lt dt st e p Hwf H0 Hph Hbf Hwl Hlits Htab Hwin Hw.
  pose proof (decodeHuffman_refine_gen s out w lt dt st e p Hwf H0 Hph Hbf Hwl Htab Hwin Hw) as H.
  destruct (decodeHuffman s out w) as [[[s' out'] w'] err]. unfold huff_concl in H.
  destruct (flush_ov s' out' w') as [[s2 out2] w2].
  destruct H as (st' & bs' & ended & C1 & C2 & C3 & C4 & C5 & C6 & C7 & C8 & C9 & C10 & C11 & C12 & C13 & C14 & C15 & C16).
  exists st', bs', ended.
  repeat (split; [assumption|]).
  split; [|exact C16].
  rewrite Hlits in C15. destruct C15 as [C15|C15]; exact C15.
Qed.

Theorem decodeHuffman_refine_partial :
  forall s out w lt dt st e p,
    br_wf (rd s) -> (0 <= r_len (rd s))%Z ->
    phase s = phaseHeaderDecoded -> (bfinal s = 0 \/ bfinal s = 1) ->
    writeOverflowLen (ov s) = 0 ->
    writeOverflowLits (ov s) = 0 ->                       (* <- the added hypothesis *)
    tabs_for (tb s) lt dt -> win_rel out w st -> w <= outLen ->
    let '(s', out', w', err) := decodeHuffman s out w in
    let '(s2, out2, w2) := flush_ov s' out' w' in
    exists st' bs' ended,
      sym_run lt dt st (mkbs (br_bits (rd s) ++ e) p) st' bs' ended /\
      win_rel out2 w2 st' /\ w <= w' /\ w' <= outLen /\ w' <= w2 /\ w2 <= outLen + 261 /\
      (w' < w2 -> err = EOutputOverflow \/ isError err = true \/ err = EPanic \/ err = EFuel) /\
      same_static s s' /\ litBlockLength s' = litBlockLength s /\
      same_static s' s2 /\ rd s2 = rd s' /\ phase s2 = phase s' /\
      litBlockLength s2 = litBlockLength s' /\ ov s2 = ov0 /\
      (err <> EPanic -> err <> EFuel -> isError err = false ->
         br_wf (rd s') /\ (0 <= r_len (rd s'))%Z /\ bl bs' = br_bits (rd s') ++ e /\
         phase s' = (if ended then (if bfinal s =? 1 then phaseStreamEnd else phaseNewBlock)
                     else phaseHeaderDecoded) /\
         (err = ENone -> ended = true) /\ (err = EEndInput -> ended = false) /\
         (err = ENone \/ err = EEndInput \/ err = EOutputOverflow) /\
         (err = EOutputOverflow -> w' = outLen)).
Proof.
  intros s out w lt dt st e p Hwf H0 Hph Hbf Hwl Hlits Htab Hwin Hw.
  pose proof (decodeHuffman_refine2_partial s out w lt dt st e p Hwf H0 Hph Hbf Hwl Hlits Htab Hwin Hw) as H.
  destruct (decodeHuffman s out w) as [[[s' out'] w'] err].
  destruct (flush_ov s' out' w') as [[s2 out2] w2].
  destruct H as (st' & bs' & ended & C1 & C2 & C3 & C).
  exists st', bs', ended. split; [exact C1|]. split; [exact C2|exact C].
Qed.

(* the corrected statement of RModel/EngineRefineSpecBlock3.v *)
Theorem decodeHuffman_refine3 : decodeHuffman_refine3_statement.
Proof. exact decodeHuffman_refine2_partial. Qed.

Print Assumptions decodeHuffman_refine_gen.
Print Assumptions decodeHuffman_refine2_partial.
Print Assumptions decodeHuffman_refine_partial.
Print Assumptions decodeHuffman_refine3.
