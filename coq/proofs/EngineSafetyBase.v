(* EngineSafetyBase.v -- shared lemmas for the memory-safety / termination proofs about
   RModel/Engine.v: arrays, forN/iterN induction, small arithmetic facts. *)
From Verif Require Import Engine EngineTables.
From Verif Require Import Base.
From Coq Require Import List NArith ZArith Bool Lia ZifyBool ZifyNat ZifyN.
Import ListNotations.
Open Scope N_scope.

(* ---------------------------------------------------------------- arrays *)
Lemma succ_pos_inj : forall i j, N.succ_pos i = N.succ_pos j -> i = j.
Proof.
  intros i j H. apply N.succ_inj. rewrite <- !N.succ_pos_spec. now rewrite H.
Qed.

Lemma aget_aset : forall a i v j, aget (aset a i v) j = if j =? i then v else aget a j.
Proof.
  intros a i v j. unfold aget, aset. destruct (N.eqb_spec j i) as [Heq|Hne].
  - subst j. now rewrite PositiveMap.gss.
  - rewrite PositiveMap.gso; auto. intro H; apply Hne, succ_pos_inj, H.
Qed.

Lemma aget_aset_same : forall a i v, aget (aset a i v) i = v.
Proof. intros. rewrite aget_aset, N.eqb_refl. reflexivity. Qed.

Lemma aget_aset_other : forall a i v j, j <> i -> aget (aset a i v) j = aget a j.
Proof. intros a i v j H. rewrite aget_aset. destruct (N.eqb_spec j i); [contradiction|reflexivity]. Qed.

Lemma aget_empty : forall j, aget aempty j = 0.
Proof. intros j. unfold aget, aempty. now rewrite PositiveMap.gempty. Qed.

(* a property of all entries of an array *)
Definition all_entries (P : N -> Prop) (a : arr) : Prop := forall i, P (aget a i).

Lemma all_entries_empty : forall P : N -> Prop, P 0 -> all_entries P aempty.
Proof. intros P H i. rewrite aget_empty. exact H. Qed.

Lemma all_entries_aset : forall (P : N -> Prop) a i v,
  all_entries P a -> P v -> all_entries P (aset a i v).
Proof.
  intros P a i v Ha Hv j. rewrite aget_aset. destruct (j =? i); [exact Hv|apply Ha].
Qed.

(* ---------------------------------------------------------------- iterN / forN *)
Lemma iterN_ind : forall (St : Type) (P : N -> St -> Prop) (f : N -> St -> St) n i s,
  P i s ->
  (forall j x, i <= j < i + N.of_nat n -> P j x -> P (j + 1) (f j x)) ->
  P (i + N.of_nat n) (iterN n i f s).
Proof.
  intros St P f n. induction n as [|k IH]; intros i s H0 Hstep.
  - cbn [iterN]. replace (i + N.of_nat 0) with i by lia. exact H0.
  - cbn [iterN]. replace (i + N.of_nat (S k)) with ((i + 1) + N.of_nat k) by lia.
    apply IH.
    + apply Hstep; [lia|exact H0].
    + intros j x Hj Hx. apply Hstep; [lia|exact Hx].
Qed.

(* invariant rule for "for i := lo; i < hi; i++" *)
Lemma forN_ind : forall (St : Type) (P : N -> St -> Prop) (f : N -> St -> St) lo hi s,
  lo <= hi ->
  P lo s ->
  (forall j x, lo <= j < hi -> P j x -> P (j + 1) (f j x)) ->
  P hi (forN lo hi f s).
Proof.
  intros St P f lo hi s Hle H0 Hstep. unfold forN.
  replace hi with (lo + N.of_nat (N.to_nat (hi - lo))) at 1 by lia.
  apply iterN_ind; [exact H0|].
  intros j x Hj Hx. apply Hstep; [lia|exact Hx].
Qed.

(* the same without an index in the invariant *)
Lemma forN_inv : forall (St : Type) (P : St -> Prop) (f : N -> St -> St) lo hi s,
  P s ->
  (forall j x, lo <= j < hi -> P x -> P (f j x)) ->
  P (forN lo hi f s).
Proof.
  intros St P f lo hi s H0 Hstep.
  destruct (N.le_gt_cases lo hi) as [Hle|Hgt].
  - apply (forN_ind St (fun _ x => P x)); auto.
  - unfold forN. replace (hi - lo) with 0 by lia. cbn. exact H0.
Qed.

Lemma forN_empty : forall (St : Type) (f : N -> St -> St) lo hi s, hi <= lo -> forN lo hi f s = s.
Proof. intros St f lo hi s H. unfold forN. replace (hi - lo) with 0 by lia. reflexivity. Qed.

(* ---------------------------------------------------------------- machine integers *)
Lemma land_ones_lt : forall x k, N.land x (N.ones k) < 2 ^ k.
Proof. intros x k. rewrite N.land_ones. apply N.mod_lt. apply N.pow_nonzero. lia. Qed.

Lemma u16_lt : forall x, u16 x < 65536.
Proof. intros x. unfold u16. change mask16 with (N.ones 16). apply (land_ones_lt x 16). Qed.
Lemma u32_lt : forall x, u32 x < 4294967296.
Proof. intros x. unfold u32. change mask32 with (N.ones 32). apply (land_ones_lt x 32). Qed.
Lemma u8_lt : forall x, u8 x < 256.
Proof. intros x. unfold u8. change 255 with (N.ones 8). apply (land_ones_lt x 8). Qed.
Lemma u64_lt : forall x, u64 x < 18446744073709551616.
Proof. intros x. unfold u64. change mask64 with (N.ones 64). apply (land_ones_lt x 64). Qed.

Lemma u16_small : forall x, x < 65536 -> u16 x = x.
Proof. intros x H. unfold u16. change mask16 with (N.ones 16). rewrite N.land_ones. apply N.mod_small. exact H. Qed.
Lemma u32_small : forall x, x < 4294967296 -> u32 x = x.
Proof. intros x H. unfold u32. change mask32 with (N.ones 32). rewrite N.land_ones. apply N.mod_small. exact H. Qed.

Lemma u16_mod : forall x, u16 x = x mod 65536.
Proof. intros x. unfold u16. change mask16 with (N.ones 16). now rewrite N.land_ones. Qed.
Lemma u32_mod : forall x, u32 x = x mod 4294967296.
Proof. intros x. unfold u32. change mask32 with (N.ones 32). now rewrite N.land_ones. Qed.

Lemma shiftr_lt : forall x a b, x < 2 ^ (a + b) -> N.shiftr x a < 2 ^ b.
Proof.
  intros x a b H. rewrite N.shiftr_div_pow2.
  apply N.div_lt_upper_bound; [apply N.pow_nonzero; lia|].
  rewrite <- N.pow_add_r. exact H.
Qed.

Lemma land_le_r : forall a b, N.land a b <= b.
Proof.
  intros a b. apply N.ldiff_le. apply N.bits_inj. intro n.
  rewrite N.ldiff_spec, N.land_spec, N.bits_0.
  destruct (N.testbit a n), (N.testbit b n); reflexivity.
Qed.

Lemma land_le_l : forall a b, N.land a b <= a.
Proof. intros a b. rewrite N.land_comm. apply land_le_r. Qed.

(* ---------------------------------------------------------------- bit fields *)
Lemma lor_lt_pow2 : forall a b k, a < 2 ^ k -> b < 2 ^ k -> N.lor a b < 2 ^ k.
Proof.
  intros a b k Ha Hb.
  destruct (N.eq_dec (N.lor a b) 0) as [H0|H0].
  - rewrite H0. apply N.neq_0_lt_0. apply N.pow_nonzero. lia.
  - apply N.log2_lt_pow2; [lia|]. rewrite N.log2_lor.
    assert (Hla : a <> 0 -> N.log2 a < k) by (intro; apply N.log2_lt_pow2; lia).
    assert (Hlb : b <> 0 -> N.log2 b < k) by (intro; apply N.log2_lt_pow2; lia).
    destruct (N.eq_dec a 0) as [Ha0|Ha0]; destruct (N.eq_dec b 0) as [Hb0|Hb0]; subst.
    + rewrite N.lor_0_l in H0. contradiction.
    + change (N.log2 0) with 0. specialize (Hlb Hb0). lia.
    + change (N.log2 0) with 0. specialize (Hla Ha0). lia.
    + specialize (Hla Ha0). specialize (Hlb Hb0). lia.
Qed.

Lemma testbit_small : forall a k n, a < 2 ^ k -> k <= n -> N.testbit a n = false.
Proof.
  intros a k n Ha Hn. destruct (N.eq_dec a 0) as [->|Hz]; [apply N.bits_0|].
  apply N.bits_above_log2. apply N.lt_le_trans with k; [|exact Hn].
  apply N.log2_lt_pow2; lia.
Qed.

(* field extraction from  a | (b << k)  with a < 2^k *)
Lemma shiftr_lor_shiftl : forall a b k, a < 2 ^ k -> N.shiftr (N.lor a (N.shiftl b k)) k = b.
Proof.
  intros a b k Ha. apply N.bits_inj. intro n.
  rewrite N.shiftr_spec by lia. rewrite N.lor_spec.
  rewrite (testbit_small a k (n + k)) by (auto; lia). cbn [orb].
  rewrite N.shiftl_spec_high by lia. f_equal. lia.
Qed.

Lemma land_ones_lor_shiftl : forall a b k, a < 2 ^ k -> N.land (N.lor a (N.shiftl b k)) (N.ones k) = a.
Proof.
  intros a b k Ha. apply N.bits_inj. intro n.
  rewrite N.land_spec, N.lor_spec.
  destruct (N.lt_ge_cases n k) as [Hlt|Hge].
  - rewrite N.ones_spec_low by exact Hlt. rewrite N.shiftl_spec_low by exact Hlt.
    rewrite orb_false_r, andb_true_r. reflexivity.
  - rewrite N.ones_spec_high by exact Hge. rewrite andb_false_r.
    symmetry. apply (testbit_small a k n); auto.
Qed.

Lemma shiftl_lt_pow2 : forall b k m, b < 2 ^ m -> N.shiftl b k < 2 ^ (m + k).
Proof.
  intros b k m H. rewrite N.shiftl_mul_pow2, N.pow_add_r.
  apply N.mul_lt_mono_pos_r; [|exact H]. apply N.neq_0_lt_0, N.pow_nonzero. lia.
Qed.

(* bit set by lor *)
Lemma lor_testbit_r : forall a b n, N.testbit b n = true -> N.testbit (N.lor a b) n = true.
Proof. intros a b n H. rewrite N.lor_spec, H. apply orb_true_r. Qed.
Lemma lor_testbit_l : forall a b n, N.testbit a n = true -> N.testbit (N.lor a b) n = true.
Proof. intros a b n H. rewrite N.lor_spec, H. reflexivity. Qed.

Lemma u32_testbit : forall x n, n < 32 -> N.testbit (u32 x) n = N.testbit x n.
Proof.
  intros x n H. unfold u32. change mask32 with (N.ones 32).
  rewrite N.land_spec, N.ones_spec_low by exact H. apply andb_true_r.
Qed.
Lemma u16_testbit : forall x n, n < 16 -> N.testbit (u16 x) n = N.testbit x n.
Proof.
  intros x n H. unfold u16. change mask16 with (N.ones 16).
  rewrite N.land_spec, N.ones_spec_low by exact H. apply andb_true_r.
Qed.

Lemma land_pow2_testbit : forall x n, N.land x (2 ^ n) = 0 <-> N.testbit x n = false.
Proof.
  intros x n. split; intro H.
  - destruct (N.testbit x n) eqn:E; [|reflexivity].
    exfalso. assert (N.testbit (N.land x (2 ^ n)) n = true).
    { rewrite N.land_spec, E, N.pow2_bits_true. reflexivity. }
    rewrite H, N.bits_0 in H0. discriminate.
  - apply N.bits_inj. intro m. rewrite N.land_spec, N.bits_0.
    destruct (N.eq_dec m n) as [->|Hne]; [rewrite H; reflexivity|].
    rewrite N.pow2_bits_false by auto. apply andb_false_r.
Qed.
