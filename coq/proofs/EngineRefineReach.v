(* EngineRefineReach.v -- proofs of the statements of RModel/EngineRefineSpecReach.v:
   the small-step presentation `rstep` of the reference inflater reaches exactly the
   intermediate states of `inflate [] data`.

   Method: every configuration c has a "continuation result" cont_s c (what the reference
   makes of the rest of the stream, started from c); a step does not change it
   (rstep_cont), and cont_s (rinit data) is `inflate [] data` (inflate_cont). *)
From Coq Require Import List NArith ZArith Bool Relations Lia ZifyBool ZifyNat ZifyN.
From Verif Require Import Bits Huffman Inflate InflateSpec InflateMono EngineRefineSpecReach.
Import ListNotations.
Open Scope N_scope.

(* ------------------------------------------------------------------ *)
(* r is a later point of s, with the bits in between                   *)
(* ------------------------------------------------------------------ *)

Definition sfx (s r : bs) : Prop :=
  exists u, bl s = u ++ bl r /\ bp r = bp s + N.of_nat (length u).

Lemma sfx_refl s : sfx s s.
Proof. exists []. split; [reflexivity | cbn [length]; lia]. Qed.

Lemma sfx_trans a b c : sfx a b -> sfx b c -> sfx a c.
Proof.
  intros [u [H1 H2]] [v [H3 H4]]. exists (u ++ v). split.
  - rewrite H1, H3, app_assoc. reflexivity.
  - rewrite app_length. lia.
Qed.

Ltac sfx_chain :=
  first [ apply sfx_refl | eassumption | eapply sfx_trans; [eassumption | sfx_chain] ].

Lemma take1_sfx s : match take1 s with Some (_, r) => sfx s r | None => True end.
Proof.
  destruct s as [l p]; unfold take1; cbn [bl bp].
  destruct l as [|b l]; [exact I|].
  exists [b]. cbn [bl bp length app]. split; [reflexivity | lia].
Qed.

Lemma take_sfx n : forall s, match take n s with Some (_, r) => sfx s r | None => True end.
Proof.
  induction n as [|n IH]; intros s; cbn [take].
  - apply sfx_refl.
  - pose proof (take1_sfx s) as H1.
    destruct (take1 s) as [[b s1]|]; [|exact I].
    specialize (IH s1).
    destruct (take n s1) as [[v s2]|]; [|exact I].
    eapply sfx_trans; eassumption.
Qed.

Lemma decode_sfx t : forall s, match decode_sym t s with DOk _ r => sfx s r | _ => True end.
Proof.
  induction t as [|x|t0 IH0 t1 IH1]; intros s; cbn [decode_sym].
  - exact I.
  - apply sfx_refl.
  - pose proof (take1_sfx s) as H1.
    destruct (take1 s) as [[b s1]|]; [|exact I].
    assert (H : match decode_sym (if b then t1 else t0) s1 with
                | DOk _ r => sfx s1 r | _ => True end) by (destruct b; [apply IH1 | apply IH0]).
    destruct (decode_sym (if b then t1 else t0) s1) as [v r| |]; auto.
    eapply sfx_trans; eassumption.
Qed.

Definition hsfx {A} (s : bs) (r : hres A) : Prop :=
  match r with HOk _ r' => sfx s r' | HStop _ => True end.

Lemma read_clens_sfx n : forall s, hsfx s (read_clens n s).
Proof.
  induction n as [|n IH]; intros s; cbn [read_clens hsfx].
  - apply sfx_refl.
  - pose proof (take_sfx 3 s) as H1.
    destruct (take 3 s) as [[v s1]|]; [|exact I].
    specialize (IH s1). destruct (read_clens n s1) as [l s2|x]; [|exact I].
    cbn [hsfx] in *. eapply sfx_trans; eassumption.
Qed.

Lemma read_lens_sfx f ct : forall total acc s, hsfx s (read_lens f ct total acc s).
Proof.
  induction f as [|f IH]; intros total acc s; destruct total as [|t]; cbn [read_lens hsfx];
    try apply sfx_refl; try exact I.
  pose proof (decode_sfx ct s) as H1.
  destruct (decode_sym ct s) as [sym s1| |]; try exact I.
  destruct (sym <? 16)%nat.
  { specialize (IH (S t - 1)%nat (sym :: acc) s1).
    destruct (read_lens f ct (S t - 1) (sym :: acc) s1); [|exact I].
    cbn [hsfx] in *. eapply sfx_trans; eassumption. }
  destruct (sym =? 16)%nat; [|destruct (sym =? 17)%nat];
  (match goal with |- context[take ?n s1] =>
     pose proof (take_sfx n s1) as H2; destruct (take n s1) as [[ev s2]|]; [|exact I] end);
  d_what ltac:(exact I); d_lt t ltac:(exact I);
  (match goal with |- context[read_lens f ct ?a ?b ?x] =>
     specialize (IH a b x); destruct (read_lens f ct a b x); [|exact I] end);
  cbn [hsfx] in *; sfx_chain.
Qed.

Ltac sfx_step :=
  match goal with
  | |- context[match take ?n ?s with _ => _ end] =>
      let H := fresh "HX" in pose proof (take_sfx n s) as H; destruct (take n s) as [[? ?]|]
  | |- context[match decode_sym ?t ?s with _ => _ end] =>
      let H := fresh "HX" in pose proof (decode_sfx t s) as H; destruct (decode_sym t s) as [? ?| |]
  | |- context[match read_clens ?n ?s with _ => _ end] =>
      let H := fresh "HX" in pose proof (read_clens_sfx n s) as H; destruct (read_clens n s) as [? ?|?]
  | |- context[match read_lens ?f ?ct ?t ?a ?s with _ => _ end] =>
      let H := fresh "HX" in pose proof (read_lens_sfx f ct t a s) as H;
      destruct (read_lens f ct t a s) as [? ?|?]
  | |- context[match mktrie ?m ?l with _ => _ end] => destruct (mktrie m l)
  | |- context[match nth_error ?l ?n with _ => _ end] => destruct (nth_error l n) as [[? ?]|]
  | |- context[if ?b then _ else _] => destruct b
  end.

Lemma dyn_header_sfx s : hsfx s (dyn_header s).
Proof.
  unfold dyn_header. repeat sfx_step; cbn [hsfx] in *; try exact I; sfx_chain.
Qed.

Lemma sym1_sfx lt dt st s : sfx s (bs_of (sym1 lt dt st s)).
Proof.
  unfold sym1. repeat sfx_step; cbn [bs_of]; sfx_chain.
Qed.

Lemma align_sfx s : bl (align s) <> [] -> sfx s (align s).
Proof.
  unfold align; cbn [bl bp]. set (k := (8 - bp s mod 8) mod 8). intros Hne.
  exists (firstn (N.to_nat k) (bl s)). cbn [bl bp]. split.
  - symmetry. apply firstn_skipn.
  - rewrite firstn_length.
    destruct (Nat.le_gt_cases (length (bl s)) (N.to_nat k)) as [Hk|Hk].
    + exfalso. apply Hne. apply skipn_all2. exact Hk.
    + lia.
Qed.

(* ------------------------------------------------------------------ *)
(* well-formed output states (no dictionary)                           *)
(* ------------------------------------------------------------------ *)

Definition small (x : N) : Prop := x < 256.

Definition wf (st : ostate) : Prop :=
  oavail st = olen st /\ olen st = N.of_nat (length (rout st)) /\ Forall small (rout st).

Lemma wf_push b st : b < 256 -> wf st -> wf (push b st).
Proof.
  intros Hb [H1 [H2 H3]]. unfold wf, push; cbn [rout olen oavail length].
  split; [lia | split; [lia | constructor; [exact Hb | exact H3]]].
Qed.

Lemma wf_copy_cyc seg : Forall small seg ->
  forall len cur st, Forall small cur -> wf st -> wf (copy_cyc seg cur len st).
Proof.
  intros Hseg. induction len as [|l IH]; intros cur st Hcur Hw; cbn [copy_cyc]; [exact Hw|].
  destruct cur as [|b cur'].
  - destruct seg as [|b s'] eqn:Es; [exact Hw|].
    inversion Hseg as [|x y Hx Hy]; subst.
    apply IH; [exact Hy | apply wf_push; [exact Hx | exact Hw]].
  - inversion Hcur as [|x y Hx Hy]; subst.
    apply IH; [exact Hy | apply wf_push; [exact Hx | exact Hw]].
Qed.

Lemma Forall_firstn {A} (P : A -> Prop) n : forall l, Forall P l -> Forall P (firstn n l).
Proof.
  induction n as [|n IH]; intros l Hl; cbn [firstn]; [constructor|].
  destruct l as [|x l]; [constructor|].
  inversion Hl as [|y z Hy Hz]; subst. constructor; [exact Hy | apply IH; exact Hz].
Qed.

Lemma wf_copy_match len d st : wf st -> wf (copy_match len d st).
Proof.
  intros Hw. unfold copy_match.
  assert (Hseg : Forall small (frev (firstn (N.to_nat d) (rout st)))).
  { rewrite frev_rev. apply Forall_rev. apply Forall_firstn. apply Hw. }
  pose proof (wf_copy_cyc _ Hseg (N.to_nat len) _ st Hseg Hw) as H.
  unfold wf in *; cbn [rout olen oavail]. exact H.
Qed.

Lemma wf_sync_upd bf len st s : wf st -> wf (sync_upd bf len st s).
Proof.
  intros Hw. unfold sync_upd. destruct ((len =? 0) && (bf =? 0)); [|exact Hw].
  unfold wf in *; cbn [rout olen oavail]. exact Hw.
Qed.

Lemma sym1_wf lt dt st s : wf st -> wf (st_of (sym1 lt dt st s)).
Proof.
  intros Hw. unfold sym1.
  destruct (decode_sym lt s) as [sym s1| |]; cbn [st_of]; try exact Hw.
  destruct (sym <? 256)%nat eqn:E1.
  { cbn [st_of]. apply wf_push; [lia | exact Hw]. }
  repeat need_step; cbn [st_of]; try exact Hw. apply wf_copy_match; exact Hw.
Qed.

Lemma take_lt n : forall s, match take n s with Some (v, _) => v < 2 ^ N.of_nat n | None => True end.
Proof.
  induction n as [|n IH]; intros s; cbn [take].
  - cbn. lia.
  - destruct (take1 s) as [[b s1]|]; [|exact I].
    specialize (IH s1).
    destruct (take n s1) as [[v s2]|]; [|exact I].
    rewrite Nat2N.inj_succ, N.pow_succ_r'. destruct b; lia.
Qed.

Lemma out_finish st s e : oavail st = olen st -> out (finish st s e) = frev (rout st).
Proof. intros H. unfold finish; cbn [out]. rewrite H, N.sub_diag. reflexivity. Qed.

(* ------------------------------------------------------------------ *)
(* position in the data                                                *)
(* ------------------------------------------------------------------ *)

Definition pos (data : list byte) (s : bs) : Prop :=
  exists pre, bits_of_bytes data = pre ++ bl s /\ bp s = N.of_nat (length pre).

Lemma pos_sfx data s r : pos data s -> sfx s r -> pos data r.
Proof.
  intros [pre [H1 H2]] [u [H3 H4]]. exists (pre ++ u). split.
  - rewrite H1, H3, app_assoc. reflexivity.
  - rewrite app_length. lia.
Qed.

Lemma align_bp s : bp (align s) mod 8 = 0.
Proof.
  unfold align; cbn [bp].
  pose proof (N.mod_lt (bp s) 8 ltac:(lia)) as Hlt.
  pose proof (N.div_mod' (bp s) 8) as Hdm.
  set (m := bp s mod 8) in *. set (q := bp s / 8) in *.
  destruct (N.eq_dec m 0) as [Hm|Hm].
  - rewrite Hm. change ((8 - 0) mod 8) with 0. rewrite N.add_0_r. exact Hm.
  - rewrite (N.mod_small (8 - m) 8) by lia.
    replace (bp s + (8 - m)) with ((q + 1) * 8) by lia.
    apply N.mod_mul. lia.
Qed.

Lemma mod8_add x k : x mod 8 = 0 -> (x + 8 * k) mod 8 = 0.
Proof.
  intros H. rewrite N.mul_comm, N.mod_add by lia. exact H.
Qed.

(* ------------------------------------------------------------------ *)
(* invariant                                                           *)
(* ------------------------------------------------------------------ *)

Definition cfg_ok (c : rcfg) : Prop :=
  match c with
  | CStored _ len n _ s => n <= len /\ len < 65536 /\ bp s mod 8 = 0
  | CHuff _ lt _ _ _ => nonleaf lt
  | _ => True
  end.

Definition Inv (data : list byte) (c : rcfg) : Prop :=
  wf (cfg_st c) /\ pos data (cfg_bs c) /\ cfg_ok c.

Lemma next_st bf st s : cfg_st (next_block bf st s) = st.
Proof. unfold next_block. destruct (bf =? 1); reflexivity. Qed.
Lemma next_bs bf st s : cfg_bs (next_block bf st s) = s.
Proof. unfold next_block. destruct (bf =? 1); reflexivity. Qed.
Lemma next_ok bf st s : cfg_ok (next_block bf st s).
Proof. unfold next_block. destruct (bf =? 1); exact I. Qed.

Lemma rstep_wf c c' : rstep c c' -> wf (cfg_st c) -> wf (cfg_st c').
Proof.
  intros H Hw. destruct H as
    [st s bf s1 s2 lt dt E1 E2 EF
    |st s bf s1 s2 lt dt s3 E1 E2 ED
    |st s bf s1 s2 len s4 nlen s5 E1 E2 E3 E4 E5
    |bf lt dt st s st' s' ES
    |bf lt dt st s st' s' ES
    |bf len n st s b s1 Hn E8
    |bf len st s]; cbn [cfg_st] in *; try exact Hw.
  - pose proof (sym1_wf lt dt st s Hw) as H. rewrite ES in H. exact H.
  - rewrite next_st. pose proof (sym1_wf lt dt st s Hw) as H. rewrite ES in H. exact H.
  - apply wf_push; [|exact Hw]. pose proof (take_lt 8 s) as H. rewrite E8 in H. exact H.
  - rewrite next_st. apply wf_sync_upd. exact Hw.
Qed.

Lemma take_nonempty n s v r : take (S n) s = Some (v, r) -> bl s <> [].
Proof.
  cbn [take]. unfold take1. destruct (bl s) as [|b l]; [discriminate|]. intros _; discriminate.
Qed.

Lemma rstep_sfx c c' : rstep c c' -> sfx (cfg_bs c) (cfg_bs c').
Proof.
  intros H. destruct H as
    [st s bf s1 s2 lt dt E1 E2 EF
    |st s bf s1 s2 lt dt s3 E1 E2 ED
    |st s bf s1 s2 len s4 nlen s5 E1 E2 E3 E4 E5
    |bf lt dt st s st' s' ES
    |bf lt dt st s st' s' ES
    |bf len n st s b s1 Hn E8
    |bf len st s]; cbn [cfg_bs].
  - pose proof (take_sfx 1 s) as H1. rewrite E1 in H1.
    pose proof (take_sfx 2 s1) as H2. rewrite E2 in H2. sfx_chain.
  - pose proof (take_sfx 1 s) as H1. rewrite E1 in H1.
    pose proof (take_sfx 2 s1) as H2. rewrite E2 in H2.
    pose proof (dyn_header_sfx s2) as H3. rewrite ED in H3. cbn [hsfx] in H3. sfx_chain.
  - pose proof (take_sfx 1 s) as H1. rewrite E1 in H1.
    pose proof (take_sfx 2 s1) as H2. rewrite E2 in H2.
    pose proof (align_sfx s2 (take_nonempty _ _ _ _ E3)) as H3.
    pose proof (take_sfx 16 (align s2)) as H4. rewrite E3 in H4.
    pose proof (take_sfx 16 s4) as H5. rewrite E4 in H5. sfx_chain.
  - pose proof (sym1_sfx lt dt st s) as H. rewrite ES in H. exact H.
  - rewrite next_bs. pose proof (sym1_sfx lt dt st s) as H. rewrite ES in H. exact H.
  - pose proof (take_sfx 8 s) as H. rewrite E8 in H. exact H.
  - rewrite next_bs. apply sfx_refl.
Qed.

Lemma rstep_ok c c' : rstep c c' -> cfg_ok c -> cfg_ok c'.
Proof.
  intros H Hok. destruct H as
    [st s bf s1 s2 lt dt E1 E2 EF
    |st s bf s1 s2 lt dt s3 E1 E2 ED
    |st s bf s1 s2 len s4 nlen s5 E1 E2 E3 E4 E5
    |bf lt dt st s st' s' ES
    |bf lt dt st s st' s' ES
    |bf len n st s b s1 Hn E8
    |bf len st s]; cbn [cfg_ok] in *.
  - eapply fixed_tries_nonleaf; exact EF.
  - eapply dyn_header_nonleaf; exact ED.
  - pose proof (take_lt 16 (align s2)) as H1. rewrite E3 in H1.
    pose proof (take_len 16 (align s2)) as H2. rewrite E3 in H2.
    pose proof (take_len 16 s4) as H3. rewrite E4 in H3.
    split; [lia | split; [exact H1|]].
    replace (bp s5) with (bp (align s2) + 8 * 4) by lia.
    apply mod8_add. apply align_bp.
  - exact Hok.
  - apply next_ok.
  - destruct Hok as [H1 [H2 H3]].
    pose proof (take_len 8 s) as H4. rewrite E8 in H4.
    split; [lia | split; [exact H2|]].
    replace (bp s1) with (bp s + 8 * 1) by lia.
    apply mod8_add. exact H3.
  - apply next_ok.
Qed.

Lemma rstep_inv data c c' : rstep c c' -> Inv data c -> Inv data c'.
Proof.
  intros H [H1 [H2 H3]]. split; [|split].
  - eapply rstep_wf; eassumption.
  - eapply pos_sfx; [exact H2 | apply rstep_sfx; exact H].
  - eapply rstep_ok; eassumption.
Qed.

Lemma rinit_inv data : Inv data (rinit data).
Proof.
  unfold rinit, Inv; cbn [cfg_st cfg_bs cfg_ok]. split; [|split; [|exact I]].
  - unfold wf, st0; cbn. split; [reflexivity | split; [reflexivity | constructor]].
  - exists []. unfold bs_of_bytes; cbn [bl bp app length]. split; reflexivity.
Qed.

Lemma reach_Inv data c : reach data c -> Inv data c.
Proof.
  intros Hr. apply clos_rt_rtn1 in Hr.
  induction Hr as [|c c' Hstep Hr IH]; [apply rinit_inv|].
  eapply rstep_inv; eassumption.
Qed.

Theorem reach_inv : reach_inv_statement.
Proof.
  intros data c Hr. cbv zeta.
  destruct (reach_Inv data c Hr) as [[H1 [H2 H3]] [[pre [H4 H5]] H6]].
  split; [exact H1 | split; [exact H2 | split; [intros _; exact H3 | split]]].
  - exists pre. split; assumption.
  - destruct c; try exact I. exact H6.
Qed.

(* ------------------------------------------------------------------ *)
(* determinism                                                         *)
(* ------------------------------------------------------------------ *)

Theorem rstep_det : rstep_det_statement.
Proof.
  intros c c1 c2 H1 H2.
  destruct H1 as
    [st s bf s1 s2 lt dt E1 E2 EF
    |st s bf s1 s2 lt dt s3 E1 E2 ED
    |st s bf s1 s2 len s4 nlen s5 E1 E2 E3 E4 E5
    |bf lt dt st s st' s' ES
    |bf lt dt st s st' s' ES
    |bf len n st s b s1 Hn E8
    |bf len st s]; inversion H2; subst; try congruence; try lia.
Qed.

(* ------------------------------------------------------------------ *)
(* the continuation result of a configuration                          *)
(* ------------------------------------------------------------------ *)

Definition BL (st : ostate) (s : bs) : sres := loop block1 (S (blen s)) st s.
Definition andthen (r : sres) : sres := match r with SCont a b => BL a b | _ => r end.
Definition HL (lt dt : trie) (st : ostate) (s : bs) : sres := loop (sym1 lt dt) (S (blen s)) st s.

Definition cont_s (c : rcfg) : sres :=
  match c with
  | CBlock st s => BL st s
  | CHuff bf lt dt st s => andthen (aft bf (HL lt dt st s))
  | CStored bf len n st s =>
      match stored (N.to_nat n) st s with
      | (st', s6, true) => andthen (close bf (sync_upd bf len st' s6) s6)
      | (st', s6, false) => SStop st' s6 NeedInput
      end
  | CDone st s => SEnd st s
  end.

Definition cont (c : rcfg) : ires := fin (cont_s c).

Lemma BL_unfold st s : BL st s = andthen (block1 st s).
Proof.
  unfold BL. cbn [loop].
  destruct (block1 st s) as [a b|a b|a b x] eqn:E; cbn [andthen]; try reflexivity.
  unfold BL. apply block1_prog in E.
  apply (loop_fuel block1 block1_len block1_prog block1_nf (fun e => block1_ext e)); lia.
Qed.

Lemma HL_unfold lt dt st s : nonleaf lt ->
  HL lt dt st s = match sym1 lt dt st s with SCont a b => HL lt dt a b | r => r end.
Proof.
  intros Hn. unfold HL at 1. cbn [loop].
  destruct (sym1 lt dt st s) as [a b|a b|a b x] eqn:E; try reflexivity.
  unfold HL.
  apply (sym1_prog lt dt Hn) in E.
  apply (loop_fuel (sym1 lt dt) (sym1_len' lt dt) (sym1_prog lt dt Hn) (sym1_nf lt dt) (sym1_ext lt dt)); lia.
Qed.

Lemma block1_eq st s bf s1 bt s2 :
  take 1 s = Some (bf, s1) -> take 2 s1 = Some (bt, s2) ->
  block1 st s = block_body bf bt st s s2.
Proof. intros H1 H2. unfold block1. rewrite H1, H2. reflexivity. Qed.

Lemma body_fixed bf st s s2 lt dt : fixed_tries = Some (lt, dt) ->
  block_body bf 1 st s s2 = huff_block bf lt dt st s2.
Proof.
  intros H. unfold block_body. change (1 =? 0) with false. change (1 =? 1) with true.
  cbv iota. rewrite H. reflexivity.
Qed.

Lemma body_dyn bf st s s2 lt dt s3 : dyn_header s2 = HOk (lt, dt) s3 ->
  block_body bf 2 st s s2 = huff_block bf lt dt st s3.
Proof.
  intros H. unfold block_body. change (2 =? 0) with false. change (2 =? 1) with false.
  change (2 =? 2) with true. cbv iota. rewrite H. reflexivity.
Qed.

Lemma body_stored bf st s s2 len s4 nlen s5 :
  take 16 (align s2) = Some (len, s4) -> take 16 s4 = Some (nlen, s5) -> len + nlen = 65535 ->
  block_body bf 0 st s s2 =
    match stored (N.to_nat len) st s5 with
    | (st', s6, true) => close bf (sync_upd bf len st' s6) s6
    | (st', s6, false) => SStop st' s6 NeedInput
    end.
Proof.
  intros H3 H4 H5. unfold block_body. change (0 =? 0) with true. cbv iota.
  unfold stored_block. cbv zeta. rewrite H3, H4, H5, N.eqb_refl. cbn [negb].
  destruct (stored (N.to_nat len) st s5) as [[st' s6] full].
  destruct full; cbn [negb]; reflexivity.
Qed.

Lemma cont_next bf st s : cont_s (next_block bf st s) = andthen (close bf st s).
Proof.
  unfold next_block, close. destruct (bf =? 1); reflexivity.
Qed.

Lemma rstep_cont c c' : rstep c c' -> cfg_ok c -> cont_s c = cont_s c'.
Proof.
  intros H Hok. destruct H as
    [st s bf s1 s2 lt dt E1 E2 EF
    |st s bf s1 s2 lt dt s3 E1 E2 ED
    |st s bf s1 s2 len s4 nlen s5 E1 E2 E3 E4 E5
    |bf lt dt st s st' s' ES
    |bf lt dt st s st' s' ES
    |bf len n st s b s1 Hn E8
    |bf len st s]; cbn [cfg_ok] in Hok.
  - cbn [cont_s]. rewrite BL_unfold, (block1_eq _ _ _ _ _ _ E1 E2), (body_fixed _ _ _ _ _ _ EF).
    reflexivity.
  - cbn [cont_s]. rewrite BL_unfold, (block1_eq _ _ _ _ _ _ E1 E2), (body_dyn _ _ _ _ _ _ _ ED).
    reflexivity.
  - cbn [cont_s]. rewrite BL_unfold, (block1_eq _ _ _ _ _ _ E1 E2), (body_stored _ _ _ _ _ _ _ _ E3 E4 E5).
    destruct (stored (N.to_nat len) st s5) as [[st' s6] full].
    destruct full; reflexivity.
  - cbn [cont_s]. rewrite (HL_unfold lt dt st s Hok), ES. reflexivity.
  - rewrite cont_next. cbn [cont_s]. rewrite (HL_unfold lt dt st s Hok), ES. reflexivity.
  - cbn [cont_s]. replace (N.to_nat n) with (S (N.to_nat (n - 1))) by lia.
    cbn [stored]. rewrite E8. reflexivity.
  - rewrite cont_next. cbn [cont_s]. change (N.to_nat 0) with 0%nat. cbn [stored]. reflexivity.
Qed.

Lemma inflate_cont data : inflate [] data = cont (rinit data).
Proof.
  change (inflate [] data) with (blocks (S (blen (bs_of_bytes data))) (st0 []) (bs_of_bytes data)).
  rewrite blocks_loop. reflexivity.
Qed.

Lemma reach_cont data c : reach data c -> cont c = inflate [] data.
Proof.
  intros Hr. rewrite inflate_cont. unfold cont. f_equal.
  assert (H : Inv data c /\ cont_s c = cont_s (rinit data)); [|apply H].
  apply clos_rt_rtn1 in Hr.
  induction Hr as [|c c' Hstep Hr IH]; [split; [apply rinit_inv | reflexivity]|].
  destruct IH as [IH1 IH2]. split; [eapply rstep_inv; eassumption|].
  rewrite <- IH2. symmetry. apply rstep_cont; [exact Hstep | apply IH1].
Qed.

Theorem reach_done : reach_done_statement.
Proof.
  intros data st s Hr.
  pose proof (reach_cont data _ Hr) as Hc.
  destruct (reach_Inv data _ Hr) as [[Hw _] _]. cbn [cfg_st] in Hw.
  rewrite <- Hc. unfold cont; cbn [cont_s fin].
  split; [reflexivity | split; [apply out_finish; exact Hw | reflexivity]].
Qed.

(* ------------------------------------------------------------------ *)
(* the output so far is a prefix of the final output                   *)
(* ------------------------------------------------------------------ *)

Lemma BL_grows st s : grows st (st_of (BL st s)).
Proof. unfold BL. apply (loop_len block1 block1_len). Qed.

Lemma andthen_grows st r : grows st (st_of r) -> grows st (st_of (andthen r)).
Proof.
  intros H. destruct r as [a b|a b|a b x]; cbn [andthen st_of] in *; try exact H.
  eapply grows_trans; [exact H | apply BL_grows].
Qed.

Lemma close_st bf st s : st_of (close bf st s) = st.
Proof. unfold close. destruct (bf =? 1); reflexivity. Qed.

Lemma grows_sync_upd bf len st s : grows st (sync_upd bf len st s).
Proof.
  unfold sync_upd. destruct ((len =? 0) && (bf =? 0)); [apply grows_sync | apply grows_refl].
Qed.

Lemma cont_grows c : grows (cfg_st c) (st_of (cont_s c)).
Proof.
  destruct c as [st s|bf lt dt st s|bf len n st s|st s]; cbn [cfg_st cont_s].
  - apply BL_grows.
  - apply andthen_grows.
    destruct (aft_st bf (HL lt dt st s)) as [H1 _]. rewrite H1.
    unfold HL. apply (loop_len (sym1 lt dt) (sym1_len' lt dt)).
  - pose proof (stored_len (N.to_nat n) st s) as H.
    destruct (stored (N.to_nat n) st s) as [[st' s6] full]. destruct H as [H _].
    destruct full; cbn [st_of]; [|exact H].
    apply andthen_grows. rewrite close_st.
    eapply grows_trans; [exact H | apply grows_sync_upd].
  - cbn [st_of]. apply grows_refl.
Qed.

Theorem reach_out_prefix : reach_out_prefix_statement.
Proof.
  intros data c Hr.
  rewrite <- (reach_cont data c Hr).
  destruct (reach_Inv data c Hr) as [[Hw _] _].
  unfold cont. destruct (fin_st (cont_s c)) as [x Hx]. rewrite Hx.
  destruct (finish_grows (cfg_st c) (st_of (cont_s c)) (cfg_bs c) (bs_of (cont_s c)) Done x (cont_grows c))
    as [H _].
  rewrite (out_finish _ _ _ Hw) in H. exact H.
Qed.

(* ------------------------------------------------------------------ *)
(* completeness: progress and termination                              *)
(* ------------------------------------------------------------------ *)

Lemma progress_block st s : status (fin (BL st s)) = Done -> exists c', rstep (CBlock st s) c'.
Proof.
  rewrite BL_unfold. unfold block1.
  destruct (take 1 s) as [[bf s1]|] eqn:E1; [|cbn [andthen fin finish status]; discriminate].
  destruct (take 2 s1) as [[bt s2]|] eqn:E2; [|cbn [andthen fin finish status]; discriminate].
  unfold block_body.
  destruct (bt =? 0) eqn:B0.
  { apply N.eqb_eq in B0; subst bt. unfold stored_block. cbv zeta.
    destruct (take 16 (align s2)) as [[len s4]|] eqn:E3; [|cbn [andthen fin finish status]; discriminate].
    destruct (take 16 s4) as [[nlen s5]|] eqn:E4; [|cbn [andthen fin finish status]; discriminate].
    destruct (len + nlen =? 65535) eqn:E5; cbn [negb]; [|cbn [andthen fin finish status]; discriminate].
    intros _. apply N.eqb_eq in E5. eexists. eapply rs_stored; eassumption. }
  destruct (bt =? 1) eqn:B1.
  { apply N.eqb_eq in B1; subst bt.
    destruct fixed_tries as [[lt dt]|] eqn:EF; [|cbn [andthen fin finish status]; discriminate].
    intros _. eexists. eapply rs_fixed; eassumption. }
  destruct (bt =? 2) eqn:B2; [|cbn [andthen fin finish status]; discriminate].
  apply N.eqb_eq in B2; subst bt.
  pose proof (dyn_header_nd s2) as Hnd.
  destruct (dyn_header s2) as [[lt dt] s3|x] eqn:ED.
  - intros _. eexists. eapply rs_dyn; eassumption.
  - cbn [andthen fin finish status]. intros Hx. subst x. exfalso. apply Hnd. reflexivity.
Qed.

Lemma progress_huff bf lt dt st s :
  status (fin (andthen (aft bf (HL lt dt st s)))) = Done -> exists c', rstep (CHuff bf lt dt st s) c'.
Proof.
  unfold HL. cbn [loop].
  destruct (sym1 lt dt st s) as [a b|a b|a b x] eqn:E.
  - intros _. eexists. eapply rs_sym; exact E.
  - intros _. eexists. eapply rs_eob; exact E.
  - cbn [aft andthen fin finish status]. intros Hx. subst x. exfalso.
    eapply sym1_nd; exact E.
Qed.

Lemma progress_stored bf len n st s :
  status (fin (cont_s (CStored bf len n st s))) = Done -> exists c', rstep (CStored bf len n st s) c'.
Proof.
  destruct (N.eq_dec n 0) as [Hn|Hn].
  - subst n. intros _. eexists. apply rs_stored_end.
  - cbn [cont_s]. replace (N.to_nat n) with (S (N.to_nat (n - 1))) by lia. cbn [stored].
    destruct (take 8 s) as [[b s1]|] eqn:E8.
    + intros _. eexists. eapply rs_byte; [lia | exact E8].
    + cbn [fin finish status]. discriminate.
Qed.

Lemma progress c : status (cont c) = Done -> (exists st s, c = CDone st s) \/ (exists c', rstep c c').
Proof.
  unfold cont. destruct c as [st s|bf lt dt st s|bf len n st s|st s].
  - intros H. right. apply progress_block. exact H.
  - intros H. right. apply progress_huff. exact H.
  - intros H. right. apply progress_stored. exact H.
  - intros _. left. exists st, s. reflexivity.
Qed.

(* every step makes the measure smaller *)
Definition mu (c : rcfg) : nat :=
  match c with
  | CStored _ _ _ _ s => S (2 * blen s)
  | _ => (2 * blen (cfg_bs c))%nat
  end.

Lemma mu_next bf st s : mu (next_block bf st s) = (2 * blen s)%nat.
Proof. unfold next_block. destruct (bf =? 1); reflexivity. Qed.

Lemma blen_align s : (blen (align s) <= blen s)%nat.
Proof. unfold align, blen; cbn [bl]. rewrite skipn_length. lia. Qed.

Lemma rstep_mu c c' : rstep c c' -> cfg_ok c -> (mu c' < mu c)%nat.
Proof.
  intros H Hok. destruct H as
    [st s bf s1 s2 lt dt E1 E2 EF
    |st s bf s1 s2 lt dt s3 E1 E2 ED
    |st s bf s1 s2 len s4 nlen s5 E1 E2 E3 E4 E5
    |bf lt dt st s st' s' ES
    |bf lt dt st s st' s' ES
    |bf len n st s b s1 Hn E8
    |bf len st s]; cbn [cfg_ok] in Hok; try rewrite mu_next; cbn [mu cfg_bs].
  - pose proof (take_len 1 s) as H1. rewrite E1 in H1.
    pose proof (take_len 2 s1) as H2. rewrite E2 in H2. lia.
  - pose proof (take_len 1 s) as H1. rewrite E1 in H1.
    pose proof (take_len 2 s1) as H2. rewrite E2 in H2.
    pose proof (dyn_header_len s2) as H3. rewrite ED in H3. cbn [hlen] in H3.
    unfold after in H3. lia.
  - pose proof (take_len 1 s) as H1. rewrite E1 in H1.
    pose proof (take_len 2 s1) as H2. rewrite E2 in H2.
    pose proof (blen_align s2) as H3.
    pose proof (take_len 16 (align s2)) as H4. rewrite E3 in H4.
    pose proof (take_len 16 s4) as H5. rewrite E4 in H5. lia.
  - pose proof (sym1_prog lt dt Hok st s st' s' ES). lia.
  - destruct (sym1_len lt dt st s) as [_ [_ [H3 _]]]. rewrite ES in H3.
    specialize (H3 Hok I). cbn [bs_of] in H3. lia.
  - pose proof (take_len 8 s) as H1. rewrite E8 in H1. lia.
  - lia.
Qed.

Lemma run_to_done data : forall m c, (mu c < m)%nat -> Inv data c -> status (cont c) = Done ->
  exists st s, clos_refl_trans rcfg rstep c (CDone st s).
Proof.
  induction m as [|m IH]; intros c Hm Hinv Hd; [lia|].
  destruct (progress c Hd) as [[st [s Hc]]|[c' Hstep]].
  - subst c. exists st, s. apply rt_refl.
  - destruct Hinv as [Hw [Hp Hok]].
    pose proof (rstep_mu c c' Hstep Hok) as Hmu.
    assert (Hinv' : Inv data c') by (eapply rstep_inv; [exact Hstep | split; [|split]; assumption]).
    assert (Hd' : status (cont c') = Done).
    { unfold cont in *. rewrite <- (rstep_cont c c' Hstep Hok). exact Hd. }
    destruct (IH c' ltac:(lia) Hinv' Hd') as [st [s Hr]].
    exists st, s. eapply rt_trans; [apply rt_step; exact Hstep | exact Hr].
Qed.

Theorem reach_complete : reach_complete_statement.
Proof.
  intros data Hd. split.
  - rewrite inflate_cont in Hd.
    destruct (run_to_done data (S (mu (rinit data))) (rinit data) ltac:(lia) (rinit_inv data) Hd)
      as [st [s Hr]].
    exists st, s. exact Hr.
  - intros c Hr. apply progress. rewrite (reach_cont data c Hr). exact Hd.
Qed.

Print Assumptions reach_inv.
Print Assumptions rstep_det.
Print Assumptions reach_done.
Print Assumptions reach_out_prefix.
Print Assumptions reach_complete.
