(* GzEngineStrm.v -- GzEngineSpec section S: a Read of the decompressor model keeps its bufio model
   a suffix of the source stream, whatever the state of the decompressor is.
   General (no bound on the argument) versions of the Peek / Discard lemmas of EngineRefineBuf.v,
   then the pieces of step (EngineRefineTopBase.step_eq), step, read_loop, dRead. *)
From Coq Require Import List NArith ZArith Bool Lia ZifyBool ZifyNat ZifyN.
From Verif Require Import Bits Huffman Inflate InflateSpec.
From Verif Require Import Base EngineTables Engine EngineRefineSpecBuf EngineRefineBuf
     GzEngine GzEngineSpec EngineRefineTopBase.
Import ListNotations.
Open Scope N_scope.

(* ---------------------------------------------------------------- fill, general *)
(* b' holds the same stream as b (only filled) *)
Definition same_strm (b b' : bufrd) : Prop :=
  buf_ok b' /\ bstream b' = bstream b /\ consumed b' = consumed b /\
  bsize b' = bsize b /\ term b' = term b.

Lemma same_strm_refl : forall b, buf_ok b -> same_strm b b.
Proof.
  intros b H. unfold same_strm. split; [exact H|]. split; [reflexivity|].
  split; [reflexivity|]. split; reflexivity.
Qed.

Lemma same_strm_trans : forall a b c, same_strm a b -> same_strm b c -> same_strm a c.
Proof.
  intros a b c (A1 & A2 & A3 & A4 & A5) (B1 & B2 & B3 & B4 & B5).
  unfold same_strm. split; [exact B1|]. repeat split; congruence.
Qed.

Lemma GS_fill_loop_any : forall k b,
  buf_ok b -> blen b < bsize b -> same_strm b (fill_loop (S k) b).
Proof.
  intros k b Hok Hlt.
  destruct (berr b) as [e|] eqn:Ee.
  - destruct Hok as (Hlen & Hle & H16 & Hne & Herr).
    destruct (Herr e Ee) as (Hch & Hee).
    cbn [fill_loop]. rewrite Hch. cbn [src_read].
    cbn [bsize bbuf blen berr chunks term consumed].
    unfold same_strm, buf_ok, bstream. cbn [bsize bbuf blen berr chunks term consumed].
    rewrite Hch, app_nil_r.
    split; [|repeat split; reflexivity].
    split; [lia|]. split; [lia|]. split; [exact H16|]. split; [constructor|].
    intros e0 Hx. inversion Hx; subst. split; reflexivity.
  - destruct (ERB_fill_loop_spec k b Hok Ee Hlt) as (H1 & H2 & H3 & H4 & H5 & _).
    unfold same_strm. split; [exact H1|]. split; [exact H2|]. split; [exact H3|].
    split; [exact H4|exact H5].
Qed.

Lemma GS_bfill_m : forall b,
  buf_ok b -> match bfill b with None => True | Some b1 => same_strm b b1 end.
Proof.
  intros b Hok. unfold bfill. destruct (bsize b <=? blen b) eqn:E4; [exact I|].
  change 100%nat with (S 99). apply GS_fill_loop_any; [exact Hok|lia].
Qed.

(* ---------------------------------------------------------------- (P) Peek, any n *)
Lemma GS_peek_loop_any : forall fuel b n b',
  buf_ok b -> peek_loop fuel b n = Some b' -> same_strm b b'.
Proof.
  induction fuel as [|f IH]; intros b n b' Hok Hp; [discriminate Hp|].
  cbn [peek_loop] in Hp.
  destruct ((blen b <? n) && (blen b <? bsize b) &&
            match berr b with None => true | Some _ => false end) eqn:Ec.
  - pose proof (GS_bfill_m b Hok) as Hs.
    destruct (bfill b) as [b1|]; [|discriminate Hp].
    eapply same_strm_trans; [exact Hs|].
    eapply IH; [apply Hs|exact Hp].
  - inversion Hp; subst b'. apply same_strm_refl; exact Hok.
Qed.

(* big_fuel is a huge unary number: never let a hypothesis be converted between bPeek and its
   unfolding; the match forms below keep everything in the goal *)
Lemma GS_peek_loop_m : forall fuel b n,
  buf_ok b -> match peek_loop fuel b n with None => True | Some b' => same_strm b b' end.
Proof.
  intros fuel b n Hok. destruct (peek_loop fuel b n) as [b1|] eqn:E; [|exact I].
  eapply GS_peek_loop_any; eassumption.
Qed.

Lemma bPeek_any_m : forall b n,
  buf_ok b ->
  match bPeek b n with None => True | Some (_, _, _, b') => same_strm b b' end.
Proof.
  intros b n Hok. unfold bPeek.
  pose proof (GS_peek_loop_m big_fuel b n Hok) as Hs.
  destruct (peek_loop big_fuel b n) as [b1|]; [|exact I].
  destruct (bsize b1 <? n); [exact Hs|].
  destruct (blen b1 <? n); [|exact Hs].
  destruct Hs as ((Hlen & Hle & H16 & Hne & Herr) & S2 & S3 & S4 & S5).
  unfold same_strm, buf_ok, bstream in *. cbn [bsize bbuf blen berr chunks term consumed].
  split; [|split; [exact S2|split; [exact S3|split; [exact S4|exact S5]]]].
  split; [exact Hlen|]. split; [exact Hle|]. split; [exact H16|]. split; [exact Hne|].
  intros e0 Hx. discriminate Hx.
Qed.

Lemma bPeek_any : forall b n bytes cnt err b',
  buf_ok b -> bPeek b n = Some (bytes, cnt, err, b') ->
  buf_ok b' /\ bstream b' = bstream b /\ consumed b' = consumed b /\
  bsize b' = bsize b /\ term b' = term b.
Proof.
  intros b n bytes cnt err b' Hok Hp.
  pose proof (bPeek_any_m b n Hok) as H. rewrite Hp in H. exact H.
Qed.

(* ---------------------------------------------------------------- (D) Discard, any n *)
(* b' holds the stream of b less its first k bytes *)
Definition drop_strm (b b' : bufrd) : Prop :=
  buf_ok b' /\ bsize b' = bsize b /\ term b' = term b /\
  exists k, bstream b' = skipn (N.to_nat k) (bstream b) /\
            consumed b' = consumed b + k /\
            k <= N.of_nat (length (bstream b)).

Lemma GS_skipn_skipn : forall A (x y : nat) (l : list A), skipn x (skipn y l) = skipn (y + x) l.
Proof.
  intros A x y. induction y as [|y IH]; intros l; [reflexivity|].
  destruct l as [|a l]; [rewrite !skipn_nil; reflexivity|].
  cbn [skipn Nat.add]. apply IH.
Qed.

Lemma same_drop_trans : forall a b c, same_strm a b -> drop_strm b c -> drop_strm a c.
Proof.
  intros a b c (A1 & A2 & A3 & A4 & A5) (B1 & B2 & B3 & k & B4 & B5 & B6).
  unfold drop_strm. split; [exact B1|]. split; [congruence|]. split; [congruence|].
  exists k. rewrite <- A2, <- A3. repeat split; assumption.
Qed.

Lemma drop_drop_trans : forall a b c, drop_strm a b -> drop_strm b c -> drop_strm a c.
Proof.
  intros a b c (A1 & A2 & A3 & k1 & A4 & A5 & A6) (B1 & B2 & B3 & k2 & B4 & B5 & B6).
  unfold drop_strm. split; [exact B1|]. split; [congruence|]. split; [congruence|].
  exists (k1 + k2). split; [|split].
  - rewrite B4, A4, GS_skipn_skipn. f_equal. lia.
  - lia.
  - rewrite A4, skipn_length in B6. lia.
Qed.

(* one round of discard_loop on the buffered bytes *)
Lemma GS_skip_drop : forall b skip e,
  buf_ok b -> skip <= blen b -> (e = berr b \/ e = None) ->
  drop_strm b (mkBuf (bsize b) (skipn (N.to_nat skip) (bbuf b)) (blen b - skip) e
                     (chunks b) (term b) (consumed b + skip)).
Proof.
  intros b skip e (Hlen & Hle & H16 & Hne & Herr) Hsk He.
  unfold drop_strm, buf_ok, bstream. cbn [bsize bbuf blen berr chunks term consumed].
  split.
  { split; [rewrite skipn_length; lia|]. split; [lia|]. split; [exact H16|].
    split; [exact Hne|]. destruct He as [-> | ->]; [exact Herr|]. intros e0 Hx; discriminate Hx. }
  split; [reflexivity|]. split; [reflexivity|].
  exists skip. split; [|split].
  - rewrite ERB_skipn_app_le by lia. reflexivity.
  - reflexivity.
  - rewrite app_length. lia.
Qed.

Lemma GS_discard_loop_any : forall fuel b remain e b',
  buf_ok b -> discard_loop fuel b remain = Some (e, b') -> drop_strm b b'.
Proof.
  induction fuel as [|f IH]; intros b remain e b' Hok Hd; [discriminate Hd|].
  cbn [discard_loop] in Hd.
  assert (Hs0 : match (if blen b =? 0 then bfill b else Some b) with
                | None => True | Some b1 => same_strm b b1 end).
  { destruct (blen b =? 0); [apply GS_bfill_m; exact Hok|apply same_strm_refl; exact Hok]. }
  destruct (if blen b =? 0 then bfill b else Some b) as [b1|]; [|discriminate Hd].
  pose proof Hs0 as Hs. clear Hs0.
  eapply same_drop_trans; [exact Hs|].
  assert (Hok1 : buf_ok b1) by apply Hs.
  cbn [bsize bbuf blen berr chunks term consumed] in Hd.
  set (skip := N.min (blen b1) remain) in *.
  assert (Hsk : skip <= blen b1) by (unfold skip; lia).
  destruct (remain - skip =? 0).
  { inversion Hd; subst. apply GS_skip_drop; [exact Hok1|exact Hsk|left; reflexivity]. }
  destruct (berr b1) as [e1|] eqn:Ee.
  - inversion Hd; subst.
    apply GS_skip_drop; [exact Hok1|exact Hsk|right; reflexivity].
  - pose proof (GS_skip_drop b1 skip (berr b1) Hok1 Hsk (or_introl eq_refl)) as Hdr.
    rewrite Ee in Hdr.
    eapply drop_drop_trans; [exact Hdr|].
    eapply IH; [apply Hdr|exact Hd].
Qed.

Lemma GS_discard_loop_m : forall fuel b remain,
  buf_ok b ->
  match discard_loop fuel b remain with None => True | Some (_, b') => drop_strm b b' end.
Proof.
  intros fuel b remain Hok.
  destruct (discard_loop fuel b remain) as [[e b1]|] eqn:E; [|exact I].
  eapply GS_discard_loop_any; eassumption.
Qed.

Lemma bDiscard_any_m : forall b n,
  buf_ok b -> match bDiscard b n with None => True | Some (_, b') => drop_strm b b' end.
Proof.
  intros b n Hok. unfold bDiscard.
  destruct (n =? 0).
  - unfold drop_strm. split; [exact Hok|]. split; [reflexivity|]. split; [reflexivity|].
    exists 0. change (N.to_nat 0) with 0%nat. cbn [skipn]. split; [reflexivity|]. split; lia.
  - apply GS_discard_loop_m. exact Hok.
Qed.

Lemma bDiscard_any : forall b n e b',
  buf_ok b -> bDiscard b n = Some (e, b') ->
  buf_ok b' /\ bsize b' = bsize b /\ term b' = term b /\
  exists k, bstream b' = skipn (N.to_nat k) (bstream b) /\
            consumed b' = consumed b + k /\
            k <= N.of_nat (length (bstream b)).
Proof.
  intros b n e b' Hok Hd.
  pose proof (bDiscard_any_m b n Hok) as H. rewrite Hd in H. exact H.
Qed.

(* ---------------------------------------------------------------- the invariant of Read *)
Definition SI (data : list N) (sz : N) (tm : terminal) (b : bufrd) : Prop :=
  strm_inv data b /\ bsize b = sz /\ term b = tm.

Lemma SI_peek : forall data sz tm b n bytes cnt err b',
  SI data sz tm b -> bPeek b n = Some (bytes, cnt, err, b') -> SI data sz tm b'.
Proof.
  intros data sz tm b n bytes cnt err b' ((Hok & D & HD & HC) & Hsz & Htm) Hp.
  destruct (bPeek_any _ _ _ _ _ _ Hok Hp) as (P1 & P2 & P3 & P4 & P5).
  unfold SI, strm_inv. split; [|split; congruence].
  split; [exact P1|]. exists D. rewrite P2, P3. split; assumption.
Qed.

Lemma SI_discard : forall data sz tm b n e b',
  SI data sz tm b -> bDiscard b n = Some (e, b') -> SI data sz tm b'.
Proof.
  intros data sz tm b n e b' ((Hok & D & HD & HC) & Hsz & Htm) Hd.
  destruct (bDiscard_any _ _ _ _ Hok Hd) as (P1 & P2 & P3 & k & P4 & P5 & P6).
  unfold SI, strm_inv. split; [|split; congruence].
  split; [exact P1|]. exists (D ++ firstn (N.to_nat k) (bstream b)).
  split.
  - rewrite P4, <- app_assoc, firstn_skipn. exact HD.
  - rewrite P5, HC, app_length, firstn_length. lia.
Qed.

(* ---------------------------------------------------------------- pieces of step *)
Ltac dproj := cbn [state writePos readPos hist rBuf derr peekSize eof haveBits fst snd].

Lemma rBuf_set_state : forall f s, rBuf (set_state f s) = rBuf f.
Proof. reflexivity. Qed.

Lemma rBuf_set_err : forall f e, rBuf (set_err f e) = rBuf f.
Proof. reflexivity. Qed.

Lemma rBuf_decomperss : forall f, rBuf (fst (decomperss f)) = rBuf f.
Proof.
  intros f. unfold decomperss.
  destruct (decomp_loop big_fuel (state f) (hist f) (writePos f)) as [[[s h] idx] err].
  destruct (negb (writeOverflowLen (ov s) =? 0));
    match goal with |- context [if ?c then _ else _] => destruct c end; reflexivity.
Qed.

Lemma rBuf_step_slide : forall f, rBuf (step_slide f) = rBuf f.
Proof.
  intros f. unfold step_slide. destruct (historySize * 2 <=? writePos f); reflexivity.
Qed.

Lemma rBuf_step_decode : forall f, rBuf (fst (step_decode f)) = rBuf f.
Proof.
  intros f. unfold step_decode. pose proof (rBuf_decomperss f) as H.
  destruct (decomperss f) as [f1 e]. dproj. cbn [fst] in H. rewrite rBuf_set_state. exact H.
Qed.

Lemma SI_step_attach : forall data sz tm f,
  SI data sz tm (rBuf f) -> SI data sz tm (rBuf (fst (step_attach f))).
Proof.
  intros data sz tm f H. unfold step_attach.
  destruct (r_len (rd (state f)) <? 0)%Z; [exact H|].
  cbv zeta. dproj.
  set (held := Z.to_N (Z.quot (r_len (rd (state f))) 8)).
  (* the second Peek, for any intermediate decompressor *)
  assert (T : forall g, SI data sz tm (rBuf g) ->
    SI data sz tm (rBuf (fst
      match bPeek (rBuf g) (bBuffered (rBuf g)) with
      | None => (g, Some RStuck)
      | Some (bytes, n, _, rb) =>
        if n <? held then (g, Some RPanic)
        else (mkD (set_inputNil (set_rd (state g)
                     (br_set_in (rd (state g)) (skipn (N.to_nat held) bytes) (n - held))) false)
                  (writePos g) (readPos g) (hist g) rb (derr g) n (eof g) (haveBits g), None)
      end))).
  { intros g Hg.
    destruct (bPeek (rBuf g) (bBuffered (rBuf g))) as [[[[bytes n] e] rb]|] eqn:EP; [|exact Hg].
    destruct (n <? held); [exact Hg|]. dproj. eapply SI_peek; [exact Hg|exact EP]. }
  destruct ((bBuffered (rBuf f) <=? held) && negb (haveBits f)).
  - destruct (bPeek (rBuf f) (held + 1)) as [[[[bytes n] e] rb]|] eqn:EP; [|exact H].
    pose proof (SI_peek _ _ _ _ _ _ _ _ _ H EP) as Hrb.
    destruct e as [[| | |]|]; dproj; try exact Hrb.
    + apply (T (mkD (state f) (writePos f) (readPos f) (hist f) rb (derr f) (peekSize f) true
                    (haveBits f))). exact Hrb.
    + apply (T (mkD (state f) (writePos f) (readPos f) (hist f) rb (derr f) (peekSize f) false
                    (haveBits f))). exact Hrb.
    + apply (T (mkD (state f) (writePos f) (readPos f) (hist f) rb (derr f) (peekSize f) false
                    (haveBits f))). exact Hrb.
  - apply (T (mkD (state f) (writePos f) (readPos f) (hist f) (rBuf f) (derr f) (peekSize f) false
                  (haveBits f))). exact H.
Qed.

Lemma SI_step_discard_at : forall data sz tm held f e f',
  SI data sz tm (rBuf f) -> step_discard_at held f = Some (e, f') -> SI data sz tm (rBuf f').
Proof.
  intros data sz tm held f e f' H Hs. unfold step_discard_at in Hs. cbv zeta in Hs.
  destruct (0 <? Z.of_N (peekSize f) - Z.of_N (r_inlen (rd (state f))) - held)%Z.
  - destruct (bDiscard (rBuf f) _) as [[[e1|] rb]|] eqn:ED; [| |discriminate Hs];
      inversion Hs; subst; rewrite ?rBuf_set_state; dproj; eapply SI_discard; eassumption.
  - inversion Hs; subst. rewrite rBuf_set_state. exact H.
Qed.

Lemma SI_step_discard : forall data sz tm f e f',
  SI data sz tm (rBuf f) -> step_discard f = Some (e, f') -> SI data sz tm (rBuf f').
Proof.
  intros data sz tm f e f' H Hs. unfold step_discard in Hs. cbv zeta in Hs.
  destruct (0 <? Z.of_N (peekSize f) - Z.of_N (r_inlen (rd (state f))) -
                 Z.quot (r_len (rd (state f))) 8)%Z.
  - destruct (bDiscard (rBuf f) _) as [[[e1|] rb]|] eqn:ED; [| |discriminate Hs];
      inversion Hs; subst; rewrite ?rBuf_set_state; dproj; eapply SI_discard; eassumption.
  - inversion Hs; subst. rewrite rBuf_set_state. exact H.
Qed.

Lemma SI_step_tail : forall data sz tm f e,
  SI data sz tm (rBuf f) -> SI data sz tm (rBuf (fst (step_tail f e))).
Proof.
  intros data sz tm f e H. unfold step_tail.
  assert (T : forall g ret, SI data sz tm (rBuf g) ->
    SI data sz tm (rBuf (fst
      (if (r_inlen (rd (state g)) =? 0) || (phase (state g) =? phaseFinish)
       then match step_discard g with
            | None => (g, Some RStuck)
            | Some (Some be, f0) => (f0, Some (rres_of_berror be))
            | Some (None, f0) => (f0, ret)
            end
       else (g, ret))))).
  { intros g ret Hg.
    destruct ((r_inlen (rd (state g)) =? 0) || (phase (state g) =? phaseFinish)); [|exact Hg].
    destruct (step_discard g) as [[[be|] f0]|] eqn:ES; dproj;
      [eapply SI_step_discard; eassumption|eapply SI_step_discard; eassumption|exact Hg]. }
  assert (A : SI data sz tm (rBuf (fst
      match step_discard_at (held_nonneg f) f with
      | None => (f, Some RStuck)
      | Some (Some be, f0) => (f0, Some (rres_of_berror be))
      | Some (None, f0) =>
        if ierr_eqb e EEndInput then (f0, Some RUnexpectedEOF)
        else (f0, Some (RCorrupt (roffset (state f0))))
      end))).
  { destruct (step_discard_at (held_nonneg f) f) as [[[be|] f0]|] eqn:ES; dproj;
      [eapply SI_step_discard_at; eassumption| |exact H].
    destruct (ierr_eqb e EEndInput); dproj; eapply SI_step_discard_at; eassumption. }
  assert (B : SI data sz tm (rBuf (fst
      (let '(f0, ret) :=
         if phase (state f) =? phaseStreamEnd
         then (set_state f (set_phase (state f) phaseFinish), Some REOF)
         else (f, None) in
       if (r_inlen (rd (state f0)) =? 0) || (phase (state f0) =? phaseFinish)
       then match step_discard f0 with
            | None => (f0, Some RStuck)
            | Some (Some be, f1) => (f1, Some (rres_of_berror be))
            | Some (None, f1) => (f1, ret)
            end
       else (f0, ret))))).
  { destruct (phase (state f) =? phaseStreamEnd); apply T; [rewrite rBuf_set_state|]; exact H. }
  destruct e; try exact H;
    (destruct (isError _ || (ierr_eqb _ EEndInput && eof f)); [exact A|exact B]).
Qed.

Lemma SI_step : forall data sz tm f,
  SI data sz tm (rBuf f) -> SI data sz tm (rBuf (fst (step f))).
Proof.
  intros data sz tm f H. rewrite step_eq.
  destruct (phase (state f) =? phaseFinish); [exact H|].
  assert (Ha : SI data sz tm
            (rBuf (fst (if inputNil (state f) then step_attach f else (f, None))))).
  { destruct (inputNil (state f)); [apply SI_step_attach; exact H|exact H]. }
  destruct (if inputNil (state f) then step_attach f else (f, None)) as [f1 [e1|]];
    cbn [fst] in Ha; [exact Ha|].
  pose proof (rBuf_step_decode (step_slide f1)) as Hd.
  rewrite rBuf_step_slide in Hd.
  destruct (step_decode (step_slide f1)) as [f2 e]. cbn [fst] in Hd.
  apply SI_step_tail. rewrite Hd. exact Ha.
Qed.

(* ---------------------------------------------------------------- read_loop, dRead *)
Lemma SI_read_loop : forall data sz tm fuel f p,
  SI data sz tm (rBuf f) -> SI data sz tm (rBuf (fst (fst (read_loop fuel f p)))).
Proof.
  intros data sz tm. induction fuel as [|k IH]; intros f p H; [exact H|].
  cbn [read_loop].
  destruct (readPos f <? writePos f).
  - dproj. destruct (writePos f =? readPos f + _); exact H.
  - destruct (derr f) as [e|]; [exact H|].
    pose proof (SI_step _ _ _ _ H) as Hs.
    destruct (step f) as [f1 e]. cbn [fst] in Hs.
    assert (Hs' : SI data sz tm (rBuf (set_err f1 e))) by (rewrite rBuf_set_err; exact Hs).
    destruct e as [e'|].
    + destruct (writePos (set_err f1 (Some e')) <=? readPos (set_err f1 (Some e')));
        [exact Hs'|apply IH; exact Hs'].
    + apply IH; exact Hs'.
Qed.

Theorem dRead_strm : dRead_strm_statement.
Proof.
  unfold dRead_strm_statement. intros data f p H.
  assert (Hs : SI data (bsize (rBuf f)) (term (rBuf f)) (rBuf f)).
  { unfold SI. split; [exact H|]. split; reflexivity. }
  pose proof (SI_read_loop _ _ _ big_fuel f p Hs) as Hr.
  unfold dRead. destruct (read_loop big_fuel f p) as [[f' bytes] r]. exact Hr.
Qed.

Print Assumptions dRead_strm.
