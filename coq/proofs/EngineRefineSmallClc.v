(* EngineRefineSmallClc.v -- gen_clc: setCodes + GenerateForHeader build an exact decoder of the
   canonical code-length code.  Also the link between the abstract code view (matches) and
   canon / cw_match, shared with the distance table. *)
From Coq Require Import List NArith ZArith Bool Lia ZifyBool ZifyNat ZifyN.
From Verif Require Import Bits Huffman Inflate HuffmanProofs.
From Verif Require Import Base EngineTables Engine EngineRefineSpec.
From Verif Require Import EngineRefineSmallBase EngineRefineSmallCodes EngineRefineSmallSort
                          EngineRefineSmallShort.
Import ListNotations.
Open Scope N_scope.

Lemma mod_mod_pow2 : forall v a b, a <= b -> (v mod 2 ^ b) mod 2 ^ a = v mod 2 ^ a.
Proof.
  intros v a b Hab. rewrite (pow2_split a b Hab).
  rewrite N.mod_mul_r by apply pow2_ne0.
  rewrite N.mul_comm, N.mod_add by apply pow2_ne0.
  apply N.mod_mod. apply pow2_ne0.
Qed.

Lemma br_drop_0 : forall b, br_drop b 0 = b.
Proof.
  intros [bits len inp inl]. unfold br_drop. cbn [r_bits r_len r_in r_inlen].
  rewrite N.shiftr_0_r. f_equal. lia.
Qed.

(* ---------------------------------------------------------------- matches vs canon / cw_match *)
Section Link.
Variables (l : lens) (codes : arr) (n : N).
Hypothesis HL : (length l <= N.to_nat n)%nat.
Hypothesis HF : Forall (fun y => (y <= 15)%nat) l.
Hypothesis HcL : forall i, i < n -> cL codes i = N.of_nat (nth (N.to_nat i) l 0%nat).
Hypothesis HcR : forall i, i < n -> cR codes i = rcode (nth (N.to_nat i) l 0%nat) (ccode l (N.to_nat i)).

Lemma canon_matches : forall v d len c, In (d, len, c) (canon l) -> cw_match v len c ->
  matches codes n v (N.of_nat d) /\ cL codes (N.of_nat d) = N.of_nat len /\ (d < length l)%nat.
Proof.
  intros v d len c HIn HM. apply (canon_spec l d len c HF) in HIn.
  destruct HIn as (A & B & C & D).
  assert (Hd : N.of_nat d < n) by lia.
  assert (EL : cL codes (N.of_nat d) = N.of_nat len).
  { rewrite (HcL _ Hd), Nat2N.id, <- B. reflexivity. }
  split; [|split; [exact EL|exact A]].
  unfold matches. split; [exact Hd|]. split; [lia|].
  rewrite EL, (HcR _ Hd), Nat2N.id, <- B, <- D.
  unfold cw_match in HM. rewrite N.land_ones in HM. exact HM.
Qed.

Lemma matches_canon : forall v i, matches codes n v i ->
  exists len c, In (N.to_nat i, len, c) (canon l) /\ cw_match v len c /\ cL codes i = N.of_nat len.
Proof.
  intros v i (Hi & Li & Mi).
  exists (nth (N.to_nat i) l 0%nat), (ccode l (N.to_nat i)).
  rewrite (HcL i Hi) in Li, Mi. rewrite (HcR i Hi) in Mi.
  split; [|split].
  - apply (canon_spec l _ _ _ HF). repeat split; try lia.
    destruct (Nat.lt_ge_cases (N.to_nat i) (length l)) as [Hlt|Hge]; [exact Hlt|].
    rewrite nth_overflow in Li by exact Hge. lia.
  - unfold cw_match. rewrite N.land_ones. exact Mi.
  - apply HcL. exact Hi.
Qed.

(* a decoder that is exact for `matches` is exact for canon / cw_match *)
Lemma decoder_transfer : forall count (D : option (N * bitrd)) (b : bitrd) (inv : N),
  codes_ok codes n count ->
  (forall i, matches codes n (r_bits b) i -> D = Some (i, br_drop b (cL codes i))) ->
  ((forall i, ~ matches codes n (r_bits b) i) -> D = Some (inv, b)) ->
  (forall d len c, In (d, len, c) (canon l) -> cw_match (r_bits b) len c ->
     D = Some (N.of_nat d, br_drop b (N.of_nat len)) /\ (d < length l)%nat) /\
  ((forall d len c, In (d, len, c) (canon l) -> ~ cw_match (r_bits b) len c) -> D = Some (inv, b)).
Proof.
  intros count D b inv OK H1 H2. split.
  - intros d len c HIn HM. destruct (canon_matches _ d len c HIn HM) as (A & B & C).
    split; [|exact C]. rewrite <- B. apply H1. exact A.
  - intros HN. apply H2. intros i Hm.
    destruct (matches_canon _ i Hm) as (len & c & A & B & _).
    exact (HN _ _ _ A B).
Qed.

End Link.

(* ---------------------------------------------------------------- no codes at all *)
Lemma cnt_lt_zero : forall codes x k, cnt_lt codes x k = 0 ->
  forall i, i < N.of_nat k -> cL codes i = 0 \/ x <= cL codes i.
Proof.
  intros codes x k. induction k as [|k IH]; intros H i Hi.
  - cbn in Hi. lia.
  - cbn [cnt_lt] in H.
    destruct (N.eq_dec i (N.of_nat k)) as [->|Hne].
    + destruct (N.eqb_spec (cL codes (N.of_nat k)) 0) as [E|E]; [left; exact E|].
      destruct (N.ltb_spec (cL codes (N.of_nat k)) x) as [E2|E2]; [cbn [negb andb] in H; lia|right; exact E2].
    + apply IH; [|lia]. lia.
Qed.

Lemma cnt_upto_zero : forall codes x k, (forall i, i < N.of_nat k -> cL codes i <> x) ->
  cnt_upto codes x k = 0.
Proof.
  intros codes x k. induction k as [|k IH]; intros H.
  - reflexivity.
  - cbn [cnt_upto]. rewrite IH by (intros i Hi; apply H; lia).
    destruct (N.eqb_spec (cL codes (N.of_nat k)) x) as [E|E]; [|reflexivity].
    exfalso. apply (H (N.of_nat k)); [lia|exact E].
Qed.

Lemma no_codes : forall codes n count, codes_ok codes n count -> ctv codes n 16 = 0 ->
  forall v i, ~ matches codes n v i.
Proof.
  intros codes n count OK H v i (Hi & Li & _).
  destruct (cnt_lt_zero codes 16 (N.to_nat n) H i ltac:(lia)) as [E|E]; [contradiction|].
  pose proof (ck_len _ _ _ OK i Hi). lia.
Qed.

(* ---------------------------------------------------------------- clc lookups *)
Lemma hdr_entry_fields : forall i len, i < 32 -> len < 16 ->
  let e := u16 (N.lor i (N.shiftl len 11)) in
  N.land e smallFlagBit = 0 /\ N.shiftr e 11 = len /\ N.land e 511 = i.
Proof.
  intros i len Hi Hl.
  pose proof (allb2_spec 32 16 (fun i len =>
     let e := u16 (N.lor i (N.shiftl len 11)) in
     (N.land e smallFlagBit =? 0) && (N.shiftr e 11 =? len) && (N.land e 511 =? i))
     ltac:(vm_compute; reflexivity) i len ltac:(cbn; lia) ltac:(cbn; lia)) as H.
  cbv beta zeta in H. cbv zeta. lia.
Qed.

Lemma clc_empty : forall lg b, clc_decode aempty lg b = Some (511, b).
Proof.
  intros lg b. unfold clc_decode. cbv zeta. rewrite aget_empty.
  change (N.land 0 smallFlagBit =? 0) with true. cbv iota.
  change (N.shiftr 0 11) with 0. change (0 =? 0) with true. cbv iota.
  rewrite br_drop_0. reflexivity.
Qed.

Lemma clc_lookup_short : forall codes n count sh lg b,
  codes_ok codes n count -> (forall i, i < n -> cL codes i <= 10) ->
  short_ok true codes n sh ->
  (forall i, matches codes n (r_bits b) i -> clc_decode sh lg b = Some (i, br_drop b (cL codes i))) /\
  ((forall i, ~ matches codes n (r_bits b) i) -> clc_decode sh lg b = Some (511, b)).
Proof.
  intros codes n count sh lg b OK H10 HS.
  set (v := r_bits b).
  assert (Hx : N.land v 1023 = v mod 1024).
  { change 1023 with (N.ones 10). rewrite N.land_ones. reflexivity. }
  assert (Hx1 : v mod 1024 < 1024) by (apply N.mod_lt; lia).
  unfold clc_decode. cbv zeta. fold v. rewrite Hx.
  destruct (HS (v mod 1024) Hx1) as [(j & (A & B & C) & M & E)|(A & E)].
  - assert (Hm : matches codes n v j).
    { split; [exact A|]. split; [exact B|]. rewrite <- M. symmetry.
      change 1024 with (2 ^ 10). apply mod_mod_pow2. exact C. }
    rewrite E. unfold sentry.
    pose proof (ck_n _ _ _ OK) as Hn.
    destruct (hdr_entry_fields j (cL codes j) ltac:(lia) ltac:(lia)) as (F1 & F2 & F3).
    cbv zeta in F1, F2, F3. rewrite F1. change (0 =? 0) with true. cbv iota.
    rewrite F2.
    destruct (N.eqb_spec (cL codes j) 0) as [E0|E0]; [contradiction|].
    rewrite F3.
    split.
    + intros i Hi. rewrite (matches_unique codes n count v i j OK Hi Hm). reflexivity.
    + intros HN. exfalso. exact (HN j Hm).
  - rewrite E. change (N.land 0 smallFlagBit =? 0) with true. cbv iota.
    change (N.shiftr 0 11) with 0. change (0 =? 0) with true. cbv iota.
    rewrite br_drop_0. change (N.land invalidSymbolValue 511) with 511.
    split; [|intros _; reflexivity].
    intros i (Hi & Li & Mi). exfalso. apply (A i).
    + split; [exact Hi|]. split; [exact Li|apply H10; exact Hi].
    + rewrite <- Mi. change 1024 with (2 ^ 10). apply mod_mod_pow2. apply H10. exact Hi.
Qed.

Lemma sub32_same : forall x, sub32 x x = 0.
Proof. intros x. unfold sub32, subw. rewrite N.leb_refl. lia. Qed.

(* no code longer than 10 bits: the long-code phase does nothing *)
Lemma ctv_11_16 : forall codes n, (forall i, i < n -> cL codes i <= 10) ->
  ctv codes n 11 = ctv codes n 16.
Proof.
  intros codes n H.
  assert (Z : forall x, 11 <= x -> cnt_upto codes x (N.to_nat n) = 0).
  { intros x Hx. apply cnt_upto_zero. intros i Hi. specialize (H i ltac:(lia)). lia. }
  change 16 with (15 + 1). rewrite ctv_step by lia.
  change 15 with (14 + 1) at 1. rewrite ctv_step by lia.
  change 14 with (13 + 1) at 1. rewrite ctv_step by lia.
  change 13 with (12 + 1) at 1. rewrite ctv_step by lia.
  change 12 with (11 + 1) at 1. rewrite ctv_step by lia.
  rewrite !Z by lia. lia.
Qed.

Theorem gen_small_hdr_short : forall codes n count sh0 lg0,
  codes_ok codes n count -> (forall i, i < n -> cL codes i <= 10) ->
  exists sh lg codes', gen_small true sh0 lg0 codes n count n = (sh, lg, codes', ENone) /\
    forall b,
    (forall i, matches codes n (r_bits b) i -> clc_decode sh lg b = Some (i, br_drop b (cL codes i))) /\
    ((forall i, ~ matches codes n (r_bits b) i) -> clc_decode sh lg b = Some (511, b)).
Proof.
  intros codes n count sh0 lg0 OK H10.
  rewrite gen_small_eq.
  pose proof (gs_ct_spec codes n count OK) as Hct.
  set (ct := gs_ct count) in *. cbv zeta.
  destruct (N.eqb_spec (aget ct 16) 0) as [E16|E16].
  { exists aempty, lg0, codes. split; [reflexivity|].
    rewrite Hct in E16 by lia.
    intros b. rewrite clc_empty. split; [|intros _; reflexivity].
    intros i Hi. exfalso. exact (no_codes codes n count OK E16 _ _ Hi). }
  destruct (gs_sort_spec codes n count ct OK Hct) as (cl & ctt & Es & SO).
  rewrite Es. cbv beta iota.
  rewrite Hct in E16 by lia.
  pose proof (short_phase true codes n count cl ct n OK SO ltac:(lia) Hct sh0 E16) as HS.
  cbv zeta in HS.
  match type of HS with short_ok _ _ _ (fst ?e) => destruct e as [sh1 cs1] end.
  cbn [fst] in HS.
  rewrite (Hct 11), (Hct 16) by lia.
  rewrite (ctv_11_16 codes n H10), sub32_same.
  unfold gs_long. rewrite forN_empty by lia.
  exists sh1, lg0, codes. split; [reflexivity|].
  intros b. apply (clc_lookup_short codes n count sh1 lg0 b OK H10 HS).
Qed.

(* ---------------------------------------------------------------- gen_clc *)
Theorem gen_clc : gen_clc_statement.
Proof.
  unfold gen_clc_statement. intros cl huff count sh0 lg0 Hin H7.
  pose proof Hin as (HL & HF & Hh & Hc).
  assert (HL1000 : (length cl <= 1000)%nat) by lia.
  pose proof (setCodes_bad cl count huff 0 19 HL1000 HF Hc) as Hbad.
  pose proof (setCodes_codes cl huff 0 19 count Hin ltac:(lia)) as Hcodes.
  destruct (setCodes huff 0 19 count) as [huff' bad].
  cbn [fst snd] in Hbad, Hcodes.
  split; [rewrite Hbad; apply oversubscribed_7_15; exact H7|].
  intros Hb. subst bad. destruct (Hcodes Hb) as [_ Hcd].
  assert (Hcd' : forall i, i < 19 -> aget huff' i = code_entry cl (N.to_nat i)).
  { intros i Hi. rewrite <- (Hcd i Hi). f_equal. }
  destruct (codes_ok_of_lens cl huff' 19 count HL HF ltac:(lia) Hb Hcd' Hc) as (OK & HcL & HcR).
  assert (H10 : forall i, i < 19 -> cL huff' i <= 10).
  { intros i Hi. rewrite (HcL i Hi).
    destruct (Nat.lt_ge_cases (N.to_nat i) (length cl)) as [Hlt|Hge].
    - rewrite Forall_forall in H7. specialize (H7 _ (nth_In cl 0%nat Hlt)). lia.
    - rewrite nth_overflow by exact Hge. lia. }
  destruct (gen_small_hdr_short huff' 19 count sh0 lg0 OK H10) as (sh & lg & codes' & EG & HD).
  rewrite EG. split; [reflexivity|].
  unfold clc_tab_ok. intros b.
  destruct (HD b) as [D1 D2].
  destruct (decoder_transfer cl huff' 19 HL HF HcL HcR count (clc_decode sh lg b) b 511 OK D1 D2) as [T1 T2].
  split; [|exact T2].
  intros d len c HIn HM. exact (proj1 (T1 d len c HIn HM)).
Qed.

Print Assumptions gen_clc.
