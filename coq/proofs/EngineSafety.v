(* EngineSafety.v -- memory safety and termination of the decoder model RModel/Engine.v:
   no Read of the model ever ends with RPanic ("the Go code panics here") or RStuck (a loop of
   the model ran out of fuel).

   Main theorem: erun_no_panic (at the end of the file):

     LongCodesFit -> HeaderRestartMonotone ->
     forall bufsize chunks term reads,
       bufsize <= 90000 -> src_total chunks <= 262141 ->
       Forall (Forall (fun b => b < 256)) chunks ->
       Forall (fun br => snd br <> RPanic /\ snd br <> RStuck) (erun bufsize chunks term reads).

   Hypotheses (Props defined in EngineSafetyHeader.v, both statements about the model only; BOTH
   ARE PROVED, in EngineSafetyLongFit.v and EngineSafetyRestart.v; EngineSafetyFinal.v states the
   resulting unconditional theorem erun_safe):
     LongCodesFit           the long-code groups of an accepted literal/length code fit
                            longCodeLookup[1264]: encodeLongCodes never reports an index out of
                            range (the table-size claim inherited from ISA-L; proved with a
                            certified dynamic programme: the total is at most 1234, and 1196 is
                            reached -- note the group of the all-ones prefix also collects the
                            codes already marked with invalidCodeValue);
     HeaderRestartMonotone  when a block header is re-parsed from the 328-byte staging buffer plus
                            new input, the attempt loads at least the staged bytes, and if it
                            succeeds it has consumed all their bits (this is what makes
                            `input[read:]` and the `held` bookkeeping of step safe).
   Side conditions, both needed because of the fuel of the MODEL (not of the Go code):
     bufsize <= 90000            decomp_loop has 262144 iterations of fuel and every block costs at
                                 least 3 bits of one bufio buffer; witness of RStuck without it:
                                 bufsize 500000 and 300000 empty fixed blocks in one chunk;
     src_total chunks <= 262141  Read's loop has 262144 iterations of fuel and every step that
                                 neither fails nor produces output consumes a source byte; witness
                                 of RStuck without it: 53000 empty stored blocks (265000 bytes)
                                 delivered one byte at a time.
   The source delivers bytes (values < 256): needed by HeaderRestartMonotone only (with a value
   >= 256 the 64-bit load `le64`, an arithmetic sum, and the byte-wise load, a bitwise or, fill
   the bit buffer differently, and a re-parsed header can then differ from the failed attempt:
   EngineSafetyRestartCex.v).  No condition on the chunking, on the sizes of the Read buffers
   (0 and huge are fine), on the terminal; bufsize may be below 16 (NewReader raises it to 16).

   Structure (bottom-up, one file per layer, all Qed, no axioms):
     EngineSafetyBase    arrays, forN/iterN invariant rules, machine integers, bit fields
     EngineSafetyBuf     item 1: bufio layer (buf_inv; bfill/bPeek/bDiscard total, source bytes
                         conserved, recorded error never ErrBufferFull)
     EngineSafetyBits    item 2: bit buffer (br_inv, br_ok; load_raw/load_lt57/load_le15 total)
     EngineSafetyInv     table-entry invariants, static tables satisfy them, histograms
     EngineSafetySmall   setCodes, gen_small (GenerateForHeader / genForDists), codeLenCodes
     EngineSafetyRL      readLitDistLens (no index panic, fuel, exact histograms)
     EngineSafetyExpand  setAndExpandLitLenHuffCode (counting sort: litlen_sorted)
     EngineSafetyLitLen  genForLitLen (singles/pairs/triples/long codes), given long_groups_fit
     EngineSafetyDecode  decodeLiteralBlock, decodeHuffman (window, roll-back, overflow carry, fuel)
     EngineSafetySuffix  the remaining input is always a suffix of the previous one
     EngineSafetyHeader  setupDynamicHeader, prepareForLitBlock, tryDecodeHeader, readHeader
     EngineSafety        decomp_loop, decomperss, step, Read, erun (this file)
     EngineSafetyRestart*  proof of HeaderRestartMonotone (and its refutation without the byte bound)
     EngineSafetyLongFit*  proof of LongCodesFit
     EngineSafetyFinal   erun_safe: the theorem without hypotheses
   Not covered (no check in the model): the Go index tempCodeList[tempCodeLength] (array of 512)
   in encodeLongCodes; a group holds at most 256 codes, see EngineSafetyLongFit.v. *)
From Verif Require Import Engine EngineTables.
From Verif Require Import Base EngineSafetyBase EngineSafetyBits EngineSafetyBuf EngineSafetyInv
  EngineSafetyDecode EngineSafetyHeader.
From Verif Require Import EngineSafetySuffix.
From Coq Require Import List NArith ZArith Bool Lia ZifyBool ZifyNat ZifyN.
Import ListNotations.
Open Scope N_scope.

(* ---------------------------------------------------------------- arithmetic helpers *)
Lemma owed_mono : forall b b' : bitrd,
  (avail b' <= avail b)%Z -> (0 <= r_len b')%Z ->
  (Z.of_N (r_inlen b') + r_len b' / 8 <= Z.of_N (r_inlen b) + r_len b / 8)%Z.
Proof.
  intros b b' Ha H0. unfold avail in Ha.
  pose proof (Z.div_mod (r_len b') 8 ltac:(lia)). pose proof (Z.mod_pos_bound (r_len b') 8 ltac:(lia)).
  pose proof (Z.div_mod (r_len b) 8 ltac:(lia)). pose proof (Z.mod_pos_bound (r_len b) 8 ltac:(lia)).
  lia.
Qed.

Lemma big_fuel_Z : Z.of_nat big_fuel = 262144%Z.
Proof. unfold big_fuel. lia. Qed.

(* ---------------------------------------------------------------- the block loop *)
(* phases other than phaseFinish *)
Definition phase_run (s : inflate) : Prop := (phase s <= 4)%N.

(* decreasing measure of decomp_loop *)
Definition wmeasure (s : inflate) : Z :=
  (hmeasure s + (if ((phase s =? phaseLitBlock) || (phase s =? phaseHeaderDecoded))%N then 3 else 0))%Z.

Definition loop_post (s : inflate) (idx : N) (s' : inflate) (idx' : N) (e : ierr) : Prop :=
  e <> EPanic /\ e <> EFuel /\
  (isError e = false -> inf_inv s' /\ phase_run s' /\ (owed s' <= owed s)%Z /\ in_bytes s') /\
  idx <= idx' /\ idx' <= outLen /\
  (e = ENone -> phase s' = phaseStreamEnd) /\
  (e = EEndInput -> r_inlen (rd s') = 0) /\
  (e = EOutputOverflow -> idx' = outLen) /\
  r_inlen (rd s') <= r_inlen (rd s) /\ (-80 <= r_len (rd s'))%Z /\ (r_len (rd s') <= 64)%Z /\
  inputNil s' = inputNil s /\ roffset s' = roffset s.

Lemma inf_inv_hmeasure_nonneg : forall s, inf_inv s -> (0 <= hmeasure s)%Z.
Proof.
  intros s (B & L & _). unfold hmeasure, avail. lia.
Qed.

(* the state after a block decoder that keeps dyn, tb and the header fields *)
Lemma inf_inv_after_decode : forall s s',
  inf_inv s -> phase s <> phaseDecodingHeader ->
  br_inv (rd s') -> (0 <= r_len (rd s'))%Z ->
  dyn s' = dyn s -> tb s' = tb s ->
  headerBuffered s' = headerBuffered s -> headerBuffer s' = headerBuffer s ->
  phase s' <> phaseDecodingHeader ->
  (phase s' = phaseLitBlock -> (r_len (rd s') mod 8 = 0)%Z) ->
  inf_inv s'.
Proof.
  intros s s' (I1 & I2 & I3 & I4 & I5 & I6 & I7 & I8 & I9) Hp B L Hd Ht Hh1 Hh2 Hp' Hl.
  unfold inf_inv. split; [exact B|]. split; [exact L|]. split; [rewrite Hd; exact I3|].
  split; [rewrite Ht; exact I4|]. split; [rewrite Hh1, Hh2; exact I5|]. split; [rewrite Hh1; exact I6|].
  split; [intros Hc; contradiction|]. split; [intros _; rewrite Hh1; apply I8; exact Hp|exact Hl].
Qed.

Lemma decomp_loop_spec : LongCodesFit -> HeaderRestartMonotone ->
  forall fuel s out idx s' out' idx' e,
  decomp_loop fuel s out idx = (s', out', idx', e) ->
  inf_inv s -> in_bytes s -> phase_run s -> idx <= outLen -> (wmeasure s < 3 * Z.of_nat fuel)%Z ->
  loop_post s idx s' idx' e.
Proof.
  intros HLF HRM. induction fuel as [|fuel IH]; intros s out idx s' out' idx' e H Hinv Hby Hph Hidx Hm.
  { exfalso. pose proof (inf_inv_hmeasure_nonneg s Hinv). unfold wmeasure in Hm.
    destruct ((phase s =? phaseLitBlock) || (phase s =? phaseHeaderDecoded)); lia. }
  cbn [decomp_loop] in H.
  destruct (phase s =? phaseStreamEnd) eqn:Eend.
  { apply pair_equal_spec in H. destruct H as [H He]. apply pair_equal_spec in H. destruct H as [H Hi].
    apply pair_equal_spec in H. destruct H as [Hs Ho]. subst s' out' idx' e.
    unfold loop_post. split; [discriminate|]. split; [discriminate|].
    split; [intros _; split; [exact Hinv|split; [exact Hph|split; [lia|exact Hby]]]|]. split; [lia|]. split; [exact Hidx|].
    split; [intros _; lia|]. split; [intros Hc; discriminate|]. split; [intros Hc; discriminate|].
    destruct Hinv as ((B1 & B2 & B3) & L & _). split; [lia|]. split; [lia|]. split; [exact B2|].
    split; reflexivity. }
  (* header *)
  assert (Hhdr : exists s1 e1,
            (if (phase s =? phaseNewBlock) || (phase s =? phaseDecodingHeader) then readHeader s else (s, ENone)) = (s1, e1) /\
            (e1 = ENone \/ e1 = EEndInput \/ e1 = EInvalidBlock) /\
            (e1 <> EInvalidBlock -> inf_inv s1 /\ (owed s1 <= owed s)%Z /\ in_bytes s1) /\
            (e1 = ENone -> (phase s1 = phaseLitBlock \/ phase s1 = phaseHeaderDecoded) /\
                           (hmeasure s1 + 3 <= wmeasure s)%Z) /\
            (e1 = EEndInput -> r_inlen (rd s1) = 0 /\ phase s1 = phaseDecodingHeader) /\
            r_inlen (rd s1) <= r_inlen (rd s) /\ (-80 <= r_len (rd s1))%Z /\ (r_len (rd s1) <= 64)%Z /\
            inputNil s1 = inputNil s /\ roffset s1 = roffset s).
  { destruct ((phase s =? phaseNewBlock) || (phase s =? phaseDecodingHeader)) eqn:Ehd.
    - destruct (readHeader s) as [s1 e1] eqn:ERH. exists s1, e1. split; [reflexivity|].
      destruct (readHeader_spec s s1 e1 HLF HRM ERH Hinv Hby) as (R1 & R2 & R3 & R4 & R5 & R6 & R7 & R8 & R9 & R10).
      split; [exact R1|]. split; [exact R2|].
      split.
      { intros He. destruct (R3 He) as (A & B). split; [exact A|]. unfold wmeasure.
        replace ((phase s =? phaseLitBlock) || (phase s =? phaseHeaderDecoded)) with false
          by (unfold phaseNewBlock, phaseDecodingHeader, phaseLitBlock, phaseHeaderDecoded in *; lia).
        lia. }
      split; [exact R4|]. split; [exact R5|]. split; [exact R6|]. split; [exact R7|]. split; [exact R8|exact R10].
    - exists s, ENone. split; [reflexivity|]. split; [left; reflexivity|].
      split; [intros _; split; [exact Hinv|split; [lia|exact Hby]]|].
      assert (Hp23 : phase s = phaseLitBlock \/ phase s = phaseHeaderDecoded).
      { unfold phase_run in Hph.
        unfold phaseNewBlock, phaseDecodingHeader, phaseLitBlock, phaseHeaderDecoded, phaseStreamEnd in *. lia. }
      split.
      { intros _. split; [exact Hp23|]. unfold wmeasure.
        replace ((phase s =? phaseLitBlock) || (phase s =? phaseHeaderDecoded)) with true by lia. lia. }
      split; [intros Hc; discriminate|].
      destruct Hinv as ((B1 & B2 & B3) & L & _). split; [lia|]. split; [lia|]. split; [exact B2|].
      split; reflexivity. }
  destruct Hhdr as (s1 & e1 & EH & H1 & H2 & H3 & H4 & H5 & H6 & H7 & H8 & H9).
  rewrite EH in H.
  destruct e1; try (exfalso; destruct H1 as [Hc|[Hc|Hc]]; discriminate).
  2:{ (* EEndInput from the header *)
    apply pair_equal_spec in H. destruct H as [H He]. apply pair_equal_spec in H. destruct H as [H Hi].
    apply pair_equal_spec in H. destruct H as [Hs Ho]. subst s' out' idx' e.
    destruct (H2 ltac:(discriminate)) as (A & B & Bb). destruct (H4 eq_refl) as (C & D).
    unfold loop_post. split; [discriminate|]. split; [discriminate|].
    split; [intros _; split; [exact A|split; [unfold phase_run; rewrite D; unfold phaseDecodingHeader; lia|split; [exact B|exact Bb]]]|].
    split; [lia|]. split; [exact Hidx|]. split; [intros Hc; discriminate|]. split; [intros _; exact C|].
    split; [intros Hc; discriminate|]. split; [exact H5|]. split; [exact H6|]. split; [exact H7|].
    split; assumption. }
  2:{ (* EInvalidBlock *)
    apply pair_equal_spec in H. destruct H as [H He]. apply pair_equal_spec in H. destruct H as [H Hi].
    apply pair_equal_spec in H. destruct H as [Hs Ho]. subst s' out' idx' e.
    unfold loop_post. split; [discriminate|]. split; [discriminate|].
    split; [intros Hc; discriminate|].
    split; [lia|]. split; [exact Hidx|]. split; [intros Hc; discriminate|]. split; [intros Hc; discriminate|].
    split; [intros Hc; discriminate|]. split; [exact H5|]. split; [exact H6|]. split; [exact H7|].
    split; assumption. }
  (* the header is there *)
  destruct (H2 ltac:(discriminate)) as (Hinv1 & Howed1 & Hby1). destruct (H3 eq_refl) as (Hp1 & Hm1).
  assert (Hnd1 : phase s1 <> phaseDecodingHeader).
  { unfold phaseLitBlock, phaseHeaderDecoded, phaseDecodingHeader in *. lia. }
  pose proof Hinv1 as (J1 & J2 & J3 & J4 & J5 & J6 & J7 & J8 & J9).
  assert (Hhb1 : headerBuffered s1 = 0) by (apply J8; exact Hnd1).
  (* the block decoder *)
  assert (Hdec : exists s2 out2 idx2 e2,
            (if phase s1 =? phaseLitBlock then decodeLiteralBlock s1 out idx else decodeHuffman s1 out idx)
              = (s2, out2, idx2, e2) /\
            e2 <> EPanic /\ e2 <> EFuel /\ e2 <> EInvalidBlock /\
            inf_inv s2 /\ in_bytes s2 /\ phase_run s2 /\ (owed s2 <= owed s1)%Z /\ (hmeasure s2 <= hmeasure s1)%Z /\
            idx <= idx2 /\ idx2 <= outLen /\
            (e2 = ENone -> phase s2 = phaseStreamEnd \/ phase s2 = phaseNewBlock) /\
            (e2 = EEndInput -> r_inlen (rd s2) = 0) /\ (e2 = EOutputOverflow -> idx2 = outLen) /\
            r_inlen (rd s2) <= r_inlen (rd s1) /\ inputNil s2 = inputNil s1 /\ roffset s2 = roffset s1).
  { destruct (phase s1 =? phaseLitBlock) eqn:Elit.
    - destruct (decodeLiteralBlock s1 out idx) as [[[s2 out2] idx2] e2] eqn:ED.
      exists s2, out2, idx2, e2. split; [reflexivity|].
      assert (Hl8 : (r_len (rd s1) mod 8 = 0)%Z) by (apply J9; lia).
      destruct (decodeLiteralBlock_spec s1 out idx s2 out2 idx2 e2 ED J1 J2 Hl8 Hidx)
        as (D1 & D2 & D3 & D4 & D5 & D6 & D7 & D8 & D9 & D10 & D11 & D12 & D13 & D14 & D15 & D16 & D17 & D18 & D19 & D20).
      assert (Hph2 : phase s2 = phaseStreamEnd \/ phase s2 = phaseNewBlock \/ phase s2 = phaseLitBlock).
      { destruct e2; try (right; right; apply D12; discriminate). destruct (D11 eq_refl); [left|right; left]; assumption. }
      split; [destruct D1 as [->|[->| ->]]; discriminate|]. split; [destruct D1 as [->|[->| ->]]; discriminate|].
      split; [destruct D1 as [->|[->| ->]]; discriminate|].
      split.
      { apply (inf_inv_after_decode s1 s2 Hinv1 Hnd1 D2 D3 D19 D15 D17 D18).
        - unfold phaseStreamEnd, phaseNewBlock, phaseLitBlock, phaseDecodingHeader in *. lia.
        - intros _. exact D4. }
      split.
      { destruct Hby1 as (Y1 & Y2). split; [|rewrite D18; exact Y2].
        apply (in_suffix_Forall _ (r_in (rd s1))); [exact (decodeLiteralBlock_suffix _ _ _ _ _ _ _ ED)|exact Y1]. }
      split; [unfold phase_run; unfold phaseStreamEnd, phaseNewBlock, phaseLitBlock in *; lia|].
      split; [unfold owed; apply owed_mono; assumption|].
      split; [unfold hmeasure; rewrite D17; lia|].
      split; [exact D5|]. split; [exact D6|]. split; [exact D11|]. split; [exact D9|]. split; [exact D10|].
      split; [exact D8|]. split; [exact D13|exact D20].
    - destruct (decodeHuffman s1 out idx) as [[[s2 out2] idx2] e2] eqn:ED.
      exists s2, out2, idx2, e2. split; [reflexivity|].
      destruct J4 as (J4a & J4b).
      destruct (decodeHuffman_spec_v2 s1 out idx s2 out2 idx2 e2 ED J1 J2 J4a J4b Hidx)
        as (D1 & D2 & D3 & D4 & D5 & D6 & D7 & D8 & D9 & D10 & D11 & D12 & D13 & D14 & D15 & D16 & D17 & D18 & D19 & D20 & D21).
      assert (Hp1' : phase s1 = phaseHeaderDecoded) by (destruct Hp1 as [Hc|Hc]; [lia|exact Hc]).
      assert (Hph2 : phase s2 = phaseHeaderDecoded \/ phase s2 = phaseStreamEnd \/ phase s2 = phaseNewBlock).
      { destruct D13 as [Hc|[Hc|Hc]]; [left; congruence|right; left; exact Hc|right; right; exact Hc]. }
      split; [exact D1|]. split; [exact D2|]. split; [exact D3|].
      split.
      { apply (inf_inv_after_decode s1 s2 Hinv1 Hnd1 D4 D5 D20 D15 D18 D19).
        - unfold phaseStreamEnd, phaseNewBlock, phaseHeaderDecoded, phaseDecodingHeader in *. lia.
        - intros Hc. exfalso. unfold phaseStreamEnd, phaseNewBlock, phaseHeaderDecoded, phaseLitBlock in *. lia. }
      split.
      { destruct Hby1 as (Y1 & Y2). split; [|rewrite D19; exact Y2].
        apply (in_suffix_Forall _ (r_in (rd s1))); [exact (decodeHuffman_suffix _ _ _ _ _ _ _ ED)|exact Y1]. }
      split; [unfold phase_run; unfold phaseStreamEnd, phaseNewBlock, phaseHeaderDecoded in *; lia|].
      split; [unfold owed; apply owed_mono; assumption|].
      split; [unfold hmeasure; rewrite D18; lia|].
      split; [exact D6|]. split; [exact D7|].
      split.
      { intros He. specialize (D12 He). destruct Hph2 as [Hc|[Hc|Hc]]; [contradiction|left; exact Hc|right; exact Hc]. }
      split; [exact D10|]. split; [exact D11|]. split; [exact D9|]. split; [exact D14|exact D21]. }
  destruct Hdec as (s2 & out2 & idx2 & e2 & ED & K1 & K2 & K3 & K4 & K4b & K5 & K6 & K7 & K8 & K9 & K10 & K11 & K12 & K13 & K14 & K15).
  rewrite ED in H.
  assert (Hfin : e2 <> ENone -> (s2, out2, idx2, e2) = (s', out', idx', e) -> loop_post s idx s' idx' e).
  { intros Hne Heq.
    apply pair_equal_spec in Heq. destruct Heq as [Heq He]. apply pair_equal_spec in Heq. destruct Heq as [Heq Hi].
    apply pair_equal_spec in Heq. destruct Heq as [Hs Ho]. subst s' out' idx' e.
    pose proof K4 as ((B1 & B2 & B3) & L & _).
    unfold loop_post. split; [exact K1|]. split; [exact K2|].
    split; [intros _; split; [exact K4|split; [exact K5|split; [lia|exact K4b]]]|]. split; [exact K8|]. split; [exact K9|].
    split; [intros Hc; contradiction|]. split; [exact K11|]. split; [exact K12|].
    split; [lia|]. split; [lia|]. split; [exact B2|]. split; congruence. }
  destruct e2; try (apply Hfin; [discriminate|exact H]).
  (* next block *)
  assert (Hm2 : (wmeasure s2 < 3 * Z.of_nat fuel)%Z).
  { unfold wmeasure at 1.
    replace ((phase s2 =? phaseLitBlock) || (phase s2 =? phaseHeaderDecoded)) with false
      by (destruct (K10 eq_refl) as [Hc|Hc]; rewrite Hc; reflexivity).
    lia. }
  specialize (IH s2 out2 idx2 s' out' idx' e H K4 K4b K5 K9 Hm2).
  destruct IH as (L1 & L2 & L3 & L4 & L5 & L6 & L7 & L8 & L9 & L10 & L11 & L12 & L13).
  unfold loop_post. split; [exact L1|]. split; [exact L2|].
  split; [intros He; destruct (L3 He) as (A & B & C & Cb); split; [exact A|split; [exact B|split; [lia|exact Cb]]]|].
  split; [lia|]. split; [exact L5|]. split; [exact L6|]. split; [exact L7|]. split; [exact L8|].
  split; [lia|]. split; [exact L10|]. split; [exact L11|]. split; congruence.
Qed.

(* ---------------------------------------------------------------- decomperss *)
Definition BUFMAX : N := 90000.

Lemma decomperss_spec : LongCodesFit -> HeaderRestartMonotone -> forall f,
  inf_inv (state f) -> in_bytes (state f) -> phase_run (state f) -> writePos f <= outLen ->
  (hmeasure (state f) <= 8 * Z.of_N BUFMAX + 64 + 8 * 328)%Z ->
  let f' := fst (decomperss f) in
  let e := snd (decomperss f) in
  e <> EPanic /\ e <> EFuel /\
  (isError e = false -> inf_inv (state f') /\ phase_run (state f') /\ (owed (state f') <= owed (state f))%Z /\
                        in_bytes (state f')) /\
  writePos f <= writePos f' /\
  (e = EOutputOverflow -> outLen <= writePos f') /\
  (e = ENone -> phase (state f') = phaseStreamEnd) /\
  (e = EEndInput -> r_inlen (rd (state f')) = 0) /\
  r_inlen (rd (state f')) <= r_inlen (rd (state f)) /\
  (-80 <= r_len (rd (state f')))%Z /\ (r_len (rd (state f')) <= 64)%Z /\
  inputNil (state f') = inputNil (state f) /\
  readPos f' = readPos f /\ rBuf f' = rBuf f /\ derr f' = derr f /\ peekSize f' = peekSize f /\
  eof f' = eof f /\ haveBits f' = haveBits f.
Proof.
  intros HLF HRM f Hinv Hby Hph Hw Hm. unfold decomperss.
  destruct (decomp_loop big_fuel (state f) (hist f) (writePos f)) as [[[s h] idx] err] eqn:EL.
  assert (Hwm : (wmeasure (state f) < 3 * Z.of_nat big_fuel)%Z).
  { rewrite big_fuel_Z. unfold wmeasure, BUFMAX in *.
    destruct (((phase (state f) =? phaseLitBlock) || (phase (state f) =? phaseHeaderDecoded))%N); lia. }
  destruct (decomp_loop_spec HLF HRM big_fuel _ _ _ _ _ _ _ EL Hinv Hby Hph Hw Hwm)
    as (L1 & L2 & L3 & L4 & L5 & L6 & L7 & L8 & L9 & L10 & L11 & L12 & L13).
  destruct (negb (writeOverflowLen (ov s) =? 0)) eqn:E1;
  destruct (negb (copyOverflowLength (ov _) =? 0)) eqn:E2;
  cbn [fst snd state writePos readPos rBuf derr peekSize eof haveBits];
  (split; [exact L1|]; split; [exact L2|];
   split; [intros He; destruct (L3 He) as (A & B & C & Cb); split; [exact A|split; [exact B|split; [exact C|exact Cb]]]|];
   split; [lia|]; split; [intros He; specialize (L8 He); lia|];
   split; [exact L6|]; split; [exact L7|]; split; [exact L9|]; split; [exact L10|]; split; [exact L11|];
   split; [exact L12|]; repeat split; reflexivity).
Qed.

(* ---------------------------------------------------------------- step, in two halves *)
(* first half: "if state.input == nil { Peek ... }" *)
Definition step_in (f : decompressor) : decompressor * option rres :=
      if inputNil (state f) then
        if (r_len (rd (state f)) <? 0)%Z then (f, Some RPanic)
        else
          let held := Z.to_N (Z.quot (r_len (rd (state f))) 8) in
          let f := mkD (state f) (writePos f) (readPos f) (hist f) (rBuf f) (derr f) (peekSize f)
                       false (haveBits f) in
          let r0 : decompressor * option rres :=
            if (bBuffered (rBuf f) <=? held) && negb (haveBits f) then
              match bPeek (rBuf f) (held + 1) with
              | None => (f, Some RStuck)
              | Some (_, _, e, rb) =>
                let f := mkD (state f) (writePos f) (readPos f) (hist f) rb (derr f) (peekSize f)
                             (eof f) (haveBits f) in
                match e with
                | Some BSrc => (f, Some RSrcErr)
                | Some BNoProgress => (f, Some RNoProgress)
                | Some BEOF =>
                  (mkD (state f) (writePos f) (readPos f) (hist f) (rBuf f) (derr f) (peekSize f)
                       true (haveBits f), None)
                | _ => (f, None)
                end
              end
            else (f, None) in
          match r0 with
          | (f, Some e) => (f, Some e)
          | (f, None) =>
            match bPeek (rBuf f) (bBuffered (rBuf f)) with
            | None => (f, Some RStuck)
            | Some (bytes, n, _, rb) =>
              if n <? held then (f, Some RPanic)
              else
                let s := state f in
                let s := set_inputNil (set_rd s (br_set_in (rd s) (skipn (N.to_nat held) bytes)
                                                           (n - held))) false in
                (mkD s (writePos f) (readPos f) (hist f) rb (derr f) n (eof f) (haveBits f), None)
            end
          end
      else (f, None).

(* second half: slide the window, decompress, discard *)
Definition step_out (f : decompressor) : decompressor * option rres :=
      let readPos1 := writePos f in
      let '(h, readPos1, writePos1) :=
        if historySize * 2 <=? readPos1 then
          (forN 0 historySize (fun i h => aset h i (aget h (readPos1 - historySize + i))) (hist f),
           historySize, historySize)
        else (hist f, readPos1, writePos f) in
      let f := mkD (state f) writePos1 readPos1 h (rBuf f) (derr f) (peekSize f) (eof f) (haveBits f) in
      let startInputSize := Z.of_N (r_inlen (rd (state f))) in
      let startBitsLen := r_len (rd (state f)) in
      let '(f, e) := decomperss f in
      let f := set_state f (rOffset (state f) startInputSize startBitsLen) in
      let f := mkD (state f) (writePos f) (readPos f) (hist f) (rBuf f) (derr f) (peekSize f) (eof f)
                   (negb (ierr_eqb e EEndInput)) in
      match e with
      | EPanic => (f, Some RPanic)
      | EFuel => (f, Some RStuck)
      | _ =>
        if isError e || (ierr_eqb e EEndInput && eof f) then
          match step_discard_at (held_nonneg f) f with
          | None => (f, Some RStuck)
          | Some (Some be, f) => (f, Some (rres_of_berror be))
          | Some (None, f) =>
            if ierr_eqb e EEndInput then (f, Some RUnexpectedEOF)
            else (f, Some (RCorrupt (roffset (state f))))
          end
        else
          let '(f, ret) :=
            if phase (state f) =? phaseStreamEnd
            then (set_state f (set_phase (state f) phaseFinish), Some REOF)
            else (f, None) in
          if (r_inlen (rd (state f)) =? 0) || (phase (state f) =? phaseFinish) then
            match step_discard f with
            | None => (f, Some RStuck)
            | Some (Some be, f) => (f, Some (rres_of_berror be))
            | Some (None, f) => (f, ret)
            end
          else (f, ret)
      end.

Lemma step_eq : forall f,
  step f = if phase (state f) =? phaseFinish then (f, Some REOF)
           else match step_in f with
                | (f, Some e) => (f, Some e)
                | (f, None) => step_out f
                end.
Proof. intros f. reflexivity. Qed.

(* ---------------------------------------------------------------- invariants of the Reader *)
Definition srcT (f : decompressor) : N := src_total (chunks (rBuf f)).

Definition d_inv (f : decompressor) : Prop :=
  inf_inv (state f) /\ (phase (state f) <= 5)%N /\
  buf_inv (rBuf f) /\ berr_ok (rBuf f) /\ 16 <= bsize (rBuf f) /\ bsize (rBuf f) <= BUFMAX /\
  (inputNil (state f) = true -> (r_len (rd (state f)) / 8 <= Z.of_N (blen (rBuf f)))%Z) /\
  (inputNil (state f) = false ->
     peekSize f = blen (rBuf f) /\ (owed (state f) <= Z.of_N (peekSize f))%Z) /\
  in_bytes (state f) /\ buf_bytes (rBuf f).

(* the Reader has input in hand *)
Definition ready (f : decompressor) : Prop :=
  inf_inv (state f) /\ phase_run (state f) /\
  buf_inv (rBuf f) /\ berr_ok (rBuf f) /\ 16 <= bsize (rBuf f) /\ bsize (rBuf f) <= BUFMAX /\
  inputNil (state f) = false /\ peekSize f = blen (rBuf f) /\
  (owed (state f) <= Z.of_N (peekSize f))%Z /\
  in_bytes (state f) /\ buf_bytes (rBuf f).

(* the Reader has used up everything it was given and must read from the source *)
Definition hungry (f : decompressor) : Prop :=
  inputNil (state f) = true /\ haveBits f = false /\
  (Z.of_N (blen (rBuf f)) <= r_len (rd (state f)) / 8)%Z.

Lemma inf_inv_set_input : forall s l n v,
  inf_inv s -> n = N.of_nat (length l) ->
  inf_inv (set_inputNil (set_rd s (br_set_in (rd s) l n)) v).
Proof.
  intros s l n v (I1 & I2 & I3 & I4 & I5 & I6 & I7 & I8 & I9) Hn.
  destruct I1 as (B1 & B2 & B3).
  unfold inf_inv.
  split; [unfold br_inv; cbn; split; [exact Hn|split; [exact B2|intros; lia]]|].
  split; [exact I2|]. split; [exact I3|]. split; [exact I4|]. split; [exact I5|]. split; [exact I6|].
  split; [exact I7|]. split; [exact I8|exact I9].
Qed.

Lemma in_bytes_set_input : forall s l n v,
  in_bytes s -> bytes_ok l ->
  in_bytes (set_inputNil (set_rd s (br_set_in (rd s) l n)) v).
Proof. intros s l n v (A & B) Hl. split; [exact Hl|exact B]. Qed.

Lemma step_in_spec : forall f,
  d_inv f -> phase (state f) <> phaseFinish ->
  let f1 := fst (step_in f) in
  let r := snd (step_in f) in
  r <> Some RPanic /\ r <> Some RStuck /\
  (r = None ->
     ready f1 /\ writePos f1 = writePos f /\ readPos f1 = readPos f /\ derr f1 = derr f /\
     haveBits f1 = haveBits f /\ hist f1 = hist f /\
     srcT f1 <= srcT f /\ (hungry f -> srcT f1 < srcT f \/ eof f1 = true)).
Proof.
  intros f (Dinf & Dph & Dbuf & Dberr & Db16 & Dbmax & Dnil & Dnn & Dby & Dbb) Hnf.
  assert (Hrun : phase_run (state f)) by (unfold phase_run, phaseFinish in *; lia).
  unfold step_in.
  destruct (inputNil (state f)) eqn:Enil.
  2:{ cbn [fst snd]. split; [discriminate|]. split; [discriminate|]. intros _.
      destruct (Dnn eq_refl) as (N1 & N2).
      split; [unfold ready; repeat (split; [assumption|]); assumption|].
      do 5 (split; [reflexivity|]). split; [lia|].
      intros (Hc & _). congruence. }
  pose proof Dinf as ((B1 & B2 & B3) & L & _).
  specialize (Dnil eq_refl).
  destruct (r_len (rd (state f)) <? 0)%Z eqn:Eneg; [lia|].
  rewrite (Z.quot_div_nonneg (r_len (rd (state f))) 8) by lia.
  set (held := Z.to_N (r_len (rd (state f)) / 8)).
  assert (Hheld : Z.of_N held = (r_len (rd (state f)) / 8)%Z).
  { unfold held. assert (0 <= r_len (rd (state f)) / 8)%Z by (apply Z.div_pos; lia). lia. }
  assert (Hheld8 : held <= 8).
  { assert (r_len (rd (state f)) / 8 <= 8)%Z by (apply Z.div_le_upper_bound; lia). lia. }
  cbn [rBuf haveBits state writePos readPos hist derr peekSize eof].
  unfold bBuffered.
  (* the conditional Peek(held+1) *)
  assert (Hr0 : forall (r0 : decompressor * option rres),
     r0 = (if (blen (rBuf f) <=? held) && negb (haveBits f)
           then match bPeek (rBuf f) (held + 1) with
                | None => (mkD (state f) (writePos f) (readPos f) (hist f) (rBuf f) (derr f) (peekSize f) false (haveBits f), Some RStuck)
                | Some (_, _, e, rb) =>
                  match e with
                  | Some BSrc => (mkD (state f) (writePos f) (readPos f) (hist f) rb (derr f) (peekSize f) false (haveBits f), Some RSrcErr)
                  | Some BNoProgress => (mkD (state f) (writePos f) (readPos f) (hist f) rb (derr f) (peekSize f) false (haveBits f), Some RNoProgress)
                  | Some BEOF => (mkD (state f) (writePos f) (readPos f) (hist f) rb (derr f) (peekSize f) true (haveBits f), None)
                  | _ => (mkD (state f) (writePos f) (readPos f) (hist f) rb (derr f) (peekSize f) false (haveBits f), None)
                  end
                end
           else (mkD (state f) (writePos f) (readPos f) (hist f) (rBuf f) (derr f) (peekSize f) false (haveBits f), None)) ->
     snd r0 <> Some RPanic /\ snd r0 <> Some RStuck /\
     (snd r0 = None ->
        state (fst r0) = state f /\ writePos (fst r0) = writePos f /\ readPos (fst r0) = readPos f /\
        hist (fst r0) = hist f /\ derr (fst r0) = derr f /\ haveBits (fst r0) = haveBits f /\
        buf_inv (rBuf (fst r0)) /\ berr_ok (rBuf (fst r0)) /\ bsize (rBuf (fst r0)) = bsize (rBuf f) /\
        blen (rBuf f) <= blen (rBuf (fst r0)) /\
        src_total (chunks (rBuf (fst r0))) + blen (rBuf (fst r0)) = src_total (chunks (rBuf f)) + blen (rBuf f) /\
        (hungry f -> held + 1 <= blen (rBuf (fst r0)) \/ eof (fst r0) = true) /\
        buf_bytes (rBuf (fst r0)))).
  { intros r0 Hr0.
    destruct ((blen (rBuf f) <=? held) && negb (haveBits f)) eqn:Ec.
    - destruct (bPeek_safe2 (rBuf f) (held + 1) Dbuf Dberr ltac:(lia) ltac:(lia))
        as (bytes & k & e & rb & P1 & P2 & P3 & P4 & P5 & P6 & P7 & P8 & P9 & P10).
      rewrite P1 in Hr0.
      destruct (bPeek_bytes _ _ _ _ _ _ P1 Dbb) as (_ & Pbb).
      destruct e as [[| | |]|]; subst r0; cbn [fst snd state writePos readPos hist derr haveBits rBuf eof].
      + split; [discriminate|]. split; [discriminate|]. intros _.
        repeat (split; [reflexivity|]). split; [exact P2|]. split; [exact P3|]. split; [exact P4|].
        split; [exact P7|]. split; [exact P8|]. split; [intros _; right; reflexivity|exact Pbb].
      + split; [discriminate|]. split; [discriminate|]. intros Hc; discriminate.
      + split; [discriminate|]. split; [discriminate|]. intros Hc; discriminate.
      + exfalso. apply P10. reflexivity.
      + split; [discriminate|]. split; [discriminate|]. intros _.
        repeat (split; [reflexivity|]). split; [exact P2|]. split; [exact P3|]. split; [exact P4|].
        split; [exact P7|]. split; [exact P8|]. split; [intros _; left; apply P9; reflexivity|exact Pbb].
    - subst r0. cbn [fst snd state writePos readPos hist derr haveBits rBuf eof].
      split; [discriminate|]. split; [discriminate|]. intros _.
      repeat (split; [reflexivity|]). split; [exact Dbuf|]. split; [exact Dberr|]. split; [reflexivity|].
      split; [lia|]. split; [reflexivity|].
      split; [|exact Dbb].
      intros (_ & Hh2 & Hh3). exfalso. rewrite Hh2 in Ec. cbn [negb] in Ec. lia. }
  match goal with |- context [match ?X with pair _ _ => _ end] =>
    match X with context [bPeek] => set (r0 := X) end end.
  specialize (Hr0 r0 eq_refl). destruct r0 as [f0 [e0|]].
  { cbn [fst snd] in *. destruct Hr0 as (A1 & A2 & _). split; [exact A1|]. split; [exact A2|]. intros Hc; discriminate. }
  cbn [fst snd] in Hr0. destruct Hr0 as (_ & _ & Hr0). specialize (Hr0 eq_refl).
  destruct Hr0 as (S1 & S2 & S3 & S4 & S5 & S6 & S7 & S8 & S9 & S10 & S11 & S12 & S13).
  destruct (bPeek_buffered (rBuf f0) S7) as (bytes & PB1 & PB2). unfold bBuffered. rewrite PB1.
  destruct (bPeek_bytes _ _ _ _ _ _ PB1 S13) as (Pby & _).
  destruct (blen (rBuf f0) <? held) eqn:Elt; [lia|].
  cbn [fst snd]. split; [discriminate|]. split; [discriminate|]. intros _.
  cbn [state writePos readPos hist derr haveBits rBuf eof peekSize].
  split.
  { unfold ready. cbn [state rBuf peekSize]. rewrite S1.
    split; [apply inf_inv_set_input; [exact Dinf|rewrite skipn_length; lia]|].
    split; [exact Hrun|]. split; [exact S7|]. split; [exact S8|]. split; [lia|]. split; [lia|].
    split; [reflexivity|]. split; [reflexivity|].
    split; [unfold owed; cbn; lia|].
    split; [apply in_bytes_set_input; [exact Dby|apply bytes_ok_skipn; exact Pby]|exact S13]. }
  split; [exact S2|]. split; [exact S3|]. split; [exact S5|]. split; [exact S6|]. split; [exact S4|].
  unfold srcT; cbn [rBuf]. split; [lia|].
  intros Hh. destruct (S12 Hh) as [Hc|Hc]; [left|right; exact Hc].
  destruct Hh as (_ & _ & Hh3). lia.
Qed.

(* ---------------------------------------------------------------- the Discard at the end of step *)
Lemma step_discard_at_total : forall f,
  buf_inv (rBuf f) -> peekSize f = blen (rBuf f) ->
  step_discard_at (held_nonneg f) f <> None.
Proof.
  intros f Hb Hp. unfold step_discard_at.
  assert (Hh : (0 <= held_nonneg f)%Z).
  { unfold held_nonneg. destruct (0 <? r_len (rd (state f)))%Z eqn:E; [|lia].
    rewrite Z.quot_div_nonneg by lia. apply Z.div_pos; lia. }
  set (ds := (Z.of_N (peekSize f) - Z.of_N (r_inlen (rd (state f))) - held_nonneg f)%Z).
  destruct (0 <? ds)%Z eqn:E; [|discriminate].
  destruct (bDiscard_safe (rBuf f) (Z.to_N ds) Hb) as (e & b' & D1 & _); [unfold ds; lia|].
  rewrite D1. destruct e; discriminate.
Qed.

Lemma step_discard_ok : forall f,
  buf_inv (rBuf f) -> berr_ok (rBuf f) -> peekSize f = blen (rBuf f) ->
  (0 <= r_len (rd (state f)))%Z -> (owed (state f) <= Z.of_N (peekSize f))%Z ->
  exists f', step_discard f = Some (None, f') /\
    state f' = set_inputNil (set_rd (state f) (br_set_in (rd (state f)) [] 0)) true /\
    buf_inv (rBuf f') /\ berr_ok (rBuf f') /\ bsize (rBuf f') = bsize (rBuf f) /\
    chunks (rBuf f') = chunks (rBuf f) /\
    (r_len (rd (state f)) / 8 <= Z.of_N (blen (rBuf f')))%Z /\
    (r_inlen (rd (state f)) = 0 -> (Z.of_N (blen (rBuf f')) <= r_len (rd (state f)) / 8)%Z) /\
    writePos f' = writePos f /\ readPos f' = readPos f /\ derr f' = derr f /\
    haveBits f' = haveBits f /\ eof f' = eof f /\ (buf_bytes (rBuf f) -> buf_bytes (rBuf f')).
Proof.
  intros f Hb Hok Hp Hl Ho. unfold step_discard. unfold owed in Ho.
  rewrite (Z.quot_div_nonneg (r_len (rd (state f))) 8) by lia.
  assert (Hd0 : (0 <= r_len (rd (state f)) / 8)%Z) by (apply Z.div_pos; lia).
  set (ds := (Z.of_N (peekSize f) - Z.of_N (r_inlen (rd (state f))) - r_len (rd (state f)) / 8)%Z).
  destruct (0 <? ds)%Z eqn:E.
  - destruct (bDiscard_within (rBuf f) (Z.to_N ds) Hb Hok) as (b' & D1 & D2 & D3 & D4 & D5 & D6); [unfold ds; lia|].
    rewrite D1. eexists. split; [reflexivity|].
    cbn [state rBuf writePos readPos derr haveBits eof set_state].
    split; [reflexivity|]. split; [exact D2|]. split; [exact D3|]. split; [exact D4|]. split; [exact D6|].
    split; [unfold ds in *; lia|]. split; [intros Hz; unfold ds in *; lia|].
    do 5 (split; [reflexivity|]). intros Hbb. exact (bDiscard_bytes _ _ _ _ D1 Hbb).
  - eexists. split; [reflexivity|].
    cbn [state rBuf writePos readPos derr haveBits eof set_state].
    split; [reflexivity|]. split; [exact Hb|]. split; [exact Hok|]. split; [reflexivity|]. split; [reflexivity|].
    split; [unfold ds in *; lia|]. split; [intros Hz; unfold ds in *; lia|].
    do 5 (split; [reflexivity|]). intros Hbb. exact Hbb.
Qed.

Lemma inf_inv_finish_phase : forall s,
  inf_inv s -> phase s = phaseStreamEnd -> inf_inv (set_phase s phaseFinish).
Proof.
  intros s (I1 & I2 & I3 & I4 & I5 & I6 & I7 & I8 & I9) Hp.
  unfold inf_inv. cbn [set_phase rd dyn tb headerBuffered headerBuffer phase].
  split; [exact I1|]. split; [exact I2|]. split; [exact I3|]. split; [exact I4|]. split; [exact I5|].
  split; [exact I6|].
  split; [intros Hc; unfold phaseFinish, phaseDecodingHeader in Hc; discriminate|].
  split; [intros _; apply I8; rewrite Hp; unfold phaseStreamEnd, phaseDecodingHeader; discriminate|].
  intros Hc; unfold phaseFinish, phaseLitBlock in Hc; discriminate.
Qed.

(* lia after dropping the equalities between boolean fields (they make zify explode) *)
Ltac blia :=
  repeat match goal with
  | H : @eq bool (haveBits _) _ |- _ => clear H
  | H : @eq bool (eof _) _ |- _ => clear H
  | H : @eq bool (inputNil _) _ |- _ => clear H
  | H : @eq bool _ (negb _) |- _ => clear H
  | H : @eq bool (orb (isError _) _) _ |- _ => clear H
  | H : @eq bool (isError _) _ |- _ => clear H
  end; lia.

Lemma step_out_spec : LongCodesFit -> HeaderRestartMonotone -> forall f,
  ready f ->
  let f' := fst (step_out f) in
  let r := snd (step_out f) in
  r <> Some RPanic /\ r <> Some RStuck /\ derr f' = derr f /\
  (r = None ->
     d_inv f' /\ srcT f' <= srcT f /\
     (writePos f' <= readPos f' -> hungry f' /\ eof f = false)).
Proof.
  intros HLF HRM f (Rinf & Rrun & Rbuf & Rberr & R16 & Rmax & Rnil & Rpk & Rowed & Rby & Rbb).
  unfold step_out.
  (* the window slide *)
  set (wp1 := if historySize * 2 <=? writePos f then historySize else writePos f).
  assert (Hwp1 : wp1 < outLen) by (unfold wp1, historySize, outLen; destruct (32768 * 2 <=? writePos f) eqn:E; blia).
  set (h1 := if historySize * 2 <=? writePos f
             then forN 0 historySize (fun i h => aset h i (aget h (writePos f - historySize + i))) (hist f)
             else hist f).
  assert (Hslide : (if historySize * 2 <=? writePos f
                    then (forN 0 historySize (fun i h => aset h i (aget h (writePos f - historySize + i))) (hist f),
                          historySize, historySize)
                    else (hist f, writePos f, writePos f)) = (h1, wp1, wp1)).
  { unfold h1, wp1. destruct (historySize * 2 <=? writePos f); reflexivity. }
  rewrite Hslide. cbv beta iota zeta.
  set (f2 := mkD (state f) wp1 wp1 h1 (rBuf f) (derr f) (peekSize f) (eof f) (haveBits f)).
  (* decomperss *)
  pose proof Rinf as ((B1 & B2 & B3) & L & _ & _ & _ & Hhb & _).
  assert (Hm : (hmeasure (state f2) <= 8 * Z.of_N BUFMAX + 64 + 8 * 328)%Z).
  { unfold f2; cbn [state]. unfold hmeasure, avail. unfold owed in Rowed.
    destruct Rbuf as (_ & Rb2 & _).
    assert (0 <= r_len (rd (state f)) / 8)%Z by (apply Z.div_pos; blia). blia. }
  pose proof (decomperss_spec HLF HRM f2 Rinf Rby Rrun ltac:(unfold f2; cbn [writePos]; blia) Hm) as DS.
  cbv zeta in DS.
  destruct (decomperss f2) as [f3 e] eqn:ED. cbn [fst snd] in DS.
  destruct DS as (D1 & D2 & D3 & D4 & D5 & D6 & D7 & D8 & D9 & D10 & D11 & D12 & D13 & D14 & D15 & D16 & D17).
  unfold f2 in D4, D8, D11, D12, D13, D14, D15, D16, D17, D3;
    cbn [state writePos readPos rBuf derr peekSize eof haveBits] in D4, D8, D11, D12, D13, D14, D15, D16, D17, D3.
  set (st4 := rOffset (state f3) (Z.of_N (r_inlen (rd (state f2)))) (r_len (rd (state f2)))).
  set (f5 := mkD (state (set_state f3 st4)) (writePos (set_state f3 st4)) (readPos (set_state f3 st4))
                 (hist (set_state f3 st4)) (rBuf (set_state f3 st4)) (derr (set_state f3 st4))
                 (peekSize (set_state f3 st4)) (eof (set_state f3 st4)) (negb (ierr_eqb e EEndInput))).
  assert (F5st : state f5 = st4) by reflexivity.
  assert (F5rd : rd (state f5) = rd (state f3)) by reflexivity.
  assert (F5buf : rBuf f5 = rBuf f) by (unfold f5; cbn [rBuf set_state]; exact D13).
  assert (F5pk : peekSize f5 = peekSize f) by (unfold f5; cbn [peekSize set_state]; exact D15).
  assert (F5derr : derr f5 = derr f) by (unfold f5; cbn [derr set_state]; exact D14).
  assert (F5eof : eof f5 = eof f) by (unfold f5; cbn [eof set_state]; exact D16).
  assert (F5wp : writePos f5 = writePos f3) by reflexivity.
  assert (F5rp : readPos f5 = wp1) by (unfold f5; cbn [readPos set_state]; exact D12).
  assert (F5hb : haveBits f5 = negb (ierr_eqb e EEndInput)) by reflexivity.
  assert (F5nil : inputNil (state f5) = false) by (rewrite F5st; unfold st4, rOffset; cbn [inputNil set_roffset]; congruence).
  assert (F5ph : phase (state f5) = phase (state f3)) by reflexivity.
  assert (F5inf : inf_inv (state f3) -> inf_inv (state f5)) by (intros Hc; exact Hc).
  assert (F5inb : in_bytes (state f3) -> in_bytes (state f5)) by (intros Hc; exact Hc).
  assert (F5buf_inv : buf_inv (rBuf f5)) by (rewrite F5buf; exact Rbuf).
  assert (F5pkb : peekSize f5 = blen (rBuf f5)) by (rewrite F5pk, F5buf; exact Rpk).
  clearbody f5. clear Hslide. clearbody st4 f2 h1 wp1.
  destruct (isError e || (ierr_eqb e EEndInput && eof f5)) eqn:Eerr.
  { (* terminal error *)
    assert (Hne : e <> EPanic /\ e <> EFuel) by (split; assumption).
    pose proof (step_discard_at_total f5 F5buf_inv F5pkb) as Htot.
    destruct (step_discard_at (held_nonneg f5) f5) as [[[be|] f6]|] eqn:ESD; [| |contradiction].
    - assert (Hd6 : derr f6 = derr f5).
      { unfold step_discard_at in ESD. destruct (0 <? _)%Z in ESD.
        - destruct (bDiscard (rBuf f5) _) as [[[be'|] rb]|]; inversion ESD; subst; reflexivity.
        - inversion ESD. }
      destruct e; try (exfalso; tauto); cbn [fst snd];
        (split; [destruct be; discriminate|]; split; [destruct be; discriminate|];
         split; [congruence|]; intros Hc; destruct be; discriminate).
    - assert (Hd6 : derr f6 = derr f5).
      { unfold step_discard_at in ESD. destruct (0 <? _)%Z in ESD.
        - destruct (bDiscard (rBuf f5) _) as [[[be'|] rb]|]; inversion ESD; subst; reflexivity.
        - inversion ESD; subst; reflexivity. }
      destruct e; try (exfalso; tauto); cbn [fst snd ierr_eqb];
        (split; [discriminate|]; split; [discriminate|]; split; [congruence|]; intros Hc; discriminate). }
  (* no error *)
  assert (Hise : isError e = false) by (destruct (isError e); [discriminate|reflexivity]).
  destruct (D3 Hise) as (G1 & G2 & G3 & G4).
  assert (Hrl3 : (0 <= r_len (rd (state f3)))%Z) by (destruct G1 as (_ & A & _); exact A).
  assert (Howed5 : (owed (state f5) <= Z.of_N (peekSize f5))%Z).
  { unfold owed. rewrite F5rd, F5pk. unfold owed in G3, Rowed. blia. }
  set (f6 := if phase (state f5) =? phaseStreamEnd
             then set_state f5 (set_phase (state f5) phaseFinish) else f5).
  set (ret := if phase (state f5) =? phaseStreamEnd then Some REOF else @None rres).
  assert (Hfr : (if phase (state f5) =? phaseStreamEnd
                 then (set_state f5 (set_phase (state f5) phaseFinish), Some REOF)
                 else (f5, None)) = (f6, ret)).
  { unfold f6, ret. destruct (phase (state f5) =? phaseStreamEnd); reflexivity. }
  assert (He3 : e = ENone \/ e = EOutputOverflow \/ e = EEndInput).
  { destruct e; cbn in Hise; try discriminate; try tauto. }
  assert (Hret : ret = None -> phase (state f5) <> phaseStreamEnd).
  { unfold ret. destruct (phase (state f5) =? phaseStreamEnd) eqn:E; [discriminate|]. intros _; blia. }
  assert (F6 : rd (state f6) = rd (state f3) /\ rBuf f6 = rBuf f5 /\ peekSize f6 = peekSize f5 /\
               derr f6 = derr f5 /\ writePos f6 = writePos f3 /\ readPos f6 = wp1 /\
               haveBits f6 = haveBits f5 /\ eof f6 = eof f5 /\ inputNil (state f6) = false /\
               inf_inv (state f6) /\ (phase (state f6) <= 5)%N /\
               (phase (state f6) = phaseFinish \/ phase (state f6) = phase (state f3)) /\
               in_bytes (state f6)).
  { unfold f6. destruct (phase (state f5) =? phaseStreamEnd) eqn:E.
    - cbn [state set_state rBuf peekSize derr writePos readPos haveBits eof set_phase rd inputNil phase].
      split; [exact F5rd|]. do 3 (split; [reflexivity|]). split; [exact F5wp|]. split; [exact F5rp|].
      do 2 (split; [reflexivity|]). split; [exact F5nil|].
      split; [apply (inf_inv_finish_phase (state f5)); [apply F5inf; exact G1|apply N.eqb_eq; exact E]|].
      split; [unfold phaseFinish; blia|]. split; [left; reflexivity|]. exact (F5inb G4).
    - split; [exact F5rd|]. do 3 (split; [reflexivity|]). split; [exact F5wp|]. split; [exact F5rp|].
      do 2 (split; [reflexivity|]). split; [exact F5nil|]. split; [apply F5inf; exact G1|].
      rewrite F5ph. unfold phase_run in G2. split; [blia|]. split; [right; reflexivity|exact (F5inb G4)]. }
  destruct F6 as (K1 & K2 & K3 & K4 & K5 & K6 & K7 & K8 & K9 & K10 & K11 & K12 & K13).
  assert (Hexp : forall (X : decompressor * option rres),
     X = (if (r_inlen (rd (state f6)) =? 0) || (phase (state f6) =? phaseFinish)
          then match step_discard f6 with
               | None => (f6, Some RStuck)
               | Some (Some be, f) => (f, Some (rres_of_berror be))
               | Some (None, f) => (f, ret)
               end
          else (f6, ret)) ->
     snd X <> Some RPanic /\ snd X <> Some RStuck /\ derr (fst X) = derr f /\
     (snd X = None ->
        d_inv (fst X) /\ srcT (fst X) <= srcT f /\
        (writePos (fst X) <= readPos (fst X) -> hungry (fst X) /\ eof f = false))).
  { intros X HX.
    destruct ((r_inlen (rd (state f6)) =? 0) || (phase (state f6) =? phaseFinish)) eqn:Ecnd.
    - destruct (step_discard_ok f6) as (f7 & SD1 & SD2 & SD3 & SD4 & SD5 & SD6 & SD7 & SD8 & SD9 & SD10 & SD11 & SD12 & SD13 & SD14).
      { rewrite K2; exact F5buf_inv. } { rewrite K2, F5buf; exact Rberr. } { rewrite K3, K2; exact F5pkb. }
      { rewrite K1; exact Hrl3. } { unfold owed. rewrite K1, K3. unfold owed in Howed5. rewrite F5rd in Howed5. exact Howed5. }
      rewrite SD1 in HX. subst X. cbn [fst snd].
      split; [unfold ret; destruct (phase (state f5) =? phaseStreamEnd); discriminate|].
      split; [unfold ret; destruct (phase (state f5) =? phaseStreamEnd); discriminate|].
      split; [congruence|]. intros Hr.
      split.
      { unfold d_inv. rewrite SD2.
        split; [apply inf_inv_set_input; [exact K10|reflexivity]|].
        split; [exact K11|]. split; [exact SD3|]. split; [exact SD4|].
        split; [rewrite SD5, K2, F5buf; exact R16|]. split; [rewrite SD5, K2, F5buf; exact Rmax|].
        split; [intros _; exact SD7|]. split; [intros Hc; discriminate|].
        split; [apply in_bytes_set_input; [exact K13|constructor]|apply SD14; rewrite K2, F5buf; exact Rbb]. }
      split; [unfold srcT; rewrite SD6, K2, F5buf; apply N.le_refl|].
      intros Hq. rewrite SD9, SD10, K5, K6 in Hq.
      (* quiet: e must be EEndInput without eof *)
      assert (HeE : e = EEndInput).
      { destruct He3 as [->|[->| ->]]; [| |reflexivity].
        - exfalso. apply (Hret Hr). rewrite F5ph. apply D6. reflexivity.
        - exfalso. specialize (D5 eq_refl). blia. }
      subst e. cbn [isError ierr_eqb orb andb] in Eerr.
      split; [|rewrite <- F5eof; exact Eerr].
      unfold hungry. rewrite SD2. cbn [inputNil set_inputNil state].
      split; [reflexivity|]. split; [rewrite SD12, K7, F5hb; reflexivity|].
      cbn [rd set_inputNil set_rd r_len br_set_in]. apply SD8. rewrite K1. apply D7. reflexivity.
    - subst X. cbn [fst snd].
      split; [unfold ret; destruct (phase (state f5) =? phaseStreamEnd); discriminate|].
      split; [unfold ret; destruct (phase (state f5) =? phaseStreamEnd); discriminate|].
      split; [congruence|]. intros Hr.
      split.
      { unfold d_inv. split; [exact K10|]. split; [exact K11|]. rewrite K2.
        split; [exact F5buf_inv|]. split; [rewrite F5buf; exact Rberr|].
        split; [rewrite F5buf; exact R16|]. split; [rewrite F5buf; exact Rmax|].
        split; [intros Hc; congruence|].
        split; [intros _; split; [rewrite K3; exact F5pkb|];
                unfold owed; rewrite K1, K3; unfold owed in Howed5; rewrite F5rd in Howed5; exact Howed5|].
        split; [exact K13|rewrite F5buf; exact Rbb]. }
      split; [unfold srcT; rewrite K2, F5buf; apply N.le_refl|].
      intros Hq. rewrite K5, K6 in Hq. exfalso.
      destruct He3 as [->|[->| ->]].
      + apply (Hret Hr). rewrite F5ph. apply D6. reflexivity.
      + specialize (D5 eq_refl). blia.
      + specialize (D7 eq_refl). rewrite K1 in Ecnd. blia. }
  rewrite Hfr. cbv beta iota zeta.
  destruct e; try (exfalso; tauto); try (cbn in Hise; discriminate); apply Hexp; reflexivity.
Qed.

(* ---------------------------------------------------------------- step *)
Lemma step_spec : LongCodesFit -> HeaderRestartMonotone -> forall f,
  d_inv f ->
  let f' := fst (step f) in
  let r := snd (step f) in
  r <> Some RPanic /\ r <> Some RStuck /\ derr f' = derr f /\
  (r = None ->
     d_inv f' /\ srcT f' <= srcT f /\
     (writePos f' <= readPos f' -> hungry f' /\ (hungry f -> srcT f' < srcT f))).
Proof.
  intros HLF HRM f Hd. rewrite step_eq.
  destruct (phase (state f) =? phaseFinish) eqn:Efin.
  { cbn [fst snd]. split; [discriminate|]. split; [discriminate|]. split; [reflexivity|]. intros Hc; discriminate. }
  assert (Hnf : phase (state f) <> phaseFinish) by lia.
  pose proof (step_in_spec f Hd Hnf) as SI. cbv zeta in SI.
  destruct (step_in f) as [f1 [e1|]] eqn:E1; cbn [fst snd] in SI.
  { destruct SI as (A1 & A2 & _). cbn [fst snd].
    split; [exact A1|]. split; [exact A2|].
    split; [|intros Hc; discriminate].
    (* derr is not touched by step_in *)
    unfold step_in in E1.
    destruct (inputNil (state f)); [|inversion E1].
    destruct (r_len (rd (state f)) <? 0)%Z; [inversion E1; reflexivity|].
    cbv zeta in E1.
    destruct ((bBuffered _ <=? _) && negb _) in E1.
    - destruct (bPeek _ _) as [[[[? ?] [[| | |]|]] ?]|] in E1; cbn [fst snd] in E1;
        try (inversion E1; reflexivity);
        (destruct (bPeek _ _) as [[[[? ?] ?] ?]|] in E1; [destruct (_ <? _) in E1|]; inversion E1; reflexivity).
    - destruct (bPeek _ _) as [[[[? ?] ?] ?]|] in E1; [destruct (_ <? _) in E1|]; inversion E1; reflexivity. }
  destruct SI as (_ & _ & SI). specialize (SI eq_refl).
  destruct SI as (Hready & W1 & W2 & W3 & W4 & W5 & W6 & W7).
  pose proof (step_out_spec HLF HRM f1 Hready) as SO. cbv zeta in SO.
  destruct (step_out f1) as [f2 r2] eqn:E2; cbn [fst snd] in SO |- *.
  destruct SO as (O1 & O2 & O3 & O4).
  split; [exact O1|]. split; [exact O2|]. split; [congruence|].
  intros Hr. destruct (O4 Hr) as (P1 & P2 & P3).
  split; [exact P1|]. split; [lia|].
  intros Hq. destruct (P3 Hq) as (Q1 & Q2). split; [exact Q1|].
  intros Hh. destruct (W7 Hh) as [Hc|Hc]; [lia|congruence].
Qed.

(* ---------------------------------------------------------------- Read *)
Lemma hungry_dec : forall f, {hungry f} + {~ hungry f}.
Proof.
  intros f. unfold hungry.
  destruct (inputNil (state f)); [|right; intros (Hc & _); discriminate].
  destruct (haveBits f); [right; intros (_ & Hc & _); discriminate|].
  destruct (Z_le_dec (Z.of_N (blen (rBuf f))) (r_len (rd (state f)) / 8)) as [Hl|Hl].
  - left. repeat split; assumption.
  - right. intros (_ & _ & Hc). contradiction.
Qed.

(* what is known of the Reader between two Read calls; T bounds the source bytes left *)
Definition r_inv (T : N) (f : decompressor) : Prop :=
  (derr f = None -> d_inv f /\ srcT f <= T) /\
  (forall e, derr f = Some e -> e <> RPanic /\ e <> RStuck).

Definition rmeasure (f : decompressor) : N :=
  match derr f with
  | Some _ => 0
  | None => srcT f + (if hungry_dec f then 0 else 1) + 1
  end.

Definition res_ok (r : rres) : Prop := r <> RPanic /\ r <> RStuck.

Lemma d_inv_readPos : forall f rp,
  d_inv f -> d_inv (mkD (state f) (writePos f) rp (hist f) (rBuf f) (derr f) (peekSize f) (eof f) (haveBits f)).
Proof. intros f rp H. exact H. Qed.

Lemma read_loop_deliver : forall k T f plen,
  r_inv T f -> readPos f < writePos f -> (0 < k)%nat ->
  res_ok (snd (read_loop k f plen)) /\ r_inv T (fst (fst (read_loop k f plen))).
Proof.
  intros k T f plen Hinv Hrw Hk. destruct k as [|k]; [lia|]. cbn [read_loop].
  replace (readPos f <? writePos f) with true by lia.
  set (num := N.min plen (writePos f - readPos f)).
  cbn [writePos readPos derr].
  assert (Hinv' : r_inv T (mkD (state f) (writePos f) (readPos f + num) (hist f) (rBuf f) (derr f)
                               (peekSize f) (eof f) (haveBits f))).
  { destruct Hinv as (A & B). split; [intros Hc; cbn [derr] in Hc; exact (A Hc)|exact B]. }
  destruct (writePos f =? readPos f + num) eqn:Eq; cbn [fst snd].
  - split; [|exact Hinv']. destruct (derr f) as [e|] eqn:Ed.
    + destruct Hinv as (_ & B). apply B. exact Ed.
    + split; discriminate.
  - split; [split; discriminate|exact Hinv'].
Qed.

Lemma read_loop_spec : LongCodesFit -> HeaderRestartMonotone -> forall fuel T f plen,
  r_inv T f -> rmeasure f < N.of_nat fuel ->
  res_ok (snd (read_loop fuel f plen)) /\ r_inv T (fst (fst (read_loop fuel f plen))).
Proof.
  intros HLF HRM. induction fuel as [|k IH]; intros T f plen Hinv Hm; [lia|].
  destruct (readPos f <? writePos f) eqn:Erw.
  { apply read_loop_deliver; [exact Hinv|lia|lia]. }
  cbn [read_loop]. rewrite Erw.
  destruct (derr f) as [e|] eqn:Ed.
  { cbn [fst snd]. split; [|exact Hinv]. destruct Hinv as (_ & B). apply B. exact Ed. }
  destruct Hinv as (A & B). destruct (A Ed) as (Hd & HT).
  pose proof (step_spec HLF HRM f Hd) as SS. cbv zeta in SS.
  destruct (step f) as [f1 e1] eqn:ES. cbn [fst snd] in SS.
  destruct SS as (S1 & S2 & S3 & S4).
  assert (Hk : (0 < k)%nat) by (unfold rmeasure in Hm; rewrite Ed in Hm; lia).
  destruct e1 as [e'|].
  - (* step ended with an error *)
    assert (He' : e' <> RPanic /\ e' <> RStuck) by (split; intros Hc; subst e'; [apply S1|apply S2]; reflexivity).
    assert (Hinv1 : r_inv T (set_err f1 (Some e'))).
    { split; [intros Hc; discriminate|]. intros e0 He0. cbn [set_err derr] in He0. inversion He0; subst e0. exact He'. }
    cbn [set_err writePos readPos].
    destruct (writePos f1 <=? readPos f1) eqn:Ew; cbn [fst snd].
    + split; [exact He'|exact Hinv1].
    + apply (read_loop_deliver k T (set_err f1 (Some e')) plen Hinv1); [cbn [set_err readPos writePos]; lia|exact Hk].
  - (* step went through *)
    destruct (S4 eq_refl) as (Hd1 & Hs1 & Hq).
    assert (Hinv1 : r_inv T (set_err f1 None)).
    { split; [intros _; split; [exact Hd1|unfold srcT in *; cbn [set_err rBuf]; lia]|].
      intros e0 He0. cbn [set_err derr] in He0. discriminate. }
    destruct (N.leb_spec (writePos f1) (readPos f1)) as [Hle|Hgt].
    + apply IH; [exact Hinv1|].
      unfold rmeasure in Hm |- *. rewrite Ed in Hm. cbn [set_err derr].
      destruct (Hq Hle) as (Hh1 & Hprog).
      assert (Hh1' : hungry (set_err f1 None)) by exact Hh1.
      destruct (hungry_dec (set_err f1 None)) as [_|Hc]; [|contradiction].
      unfold srcT in *. cbn [set_err rBuf].
      destruct (hungry_dec f) as [Hh|Hh]; [specialize (Hprog Hh); lia|lia].
    + apply (read_loop_deliver k T (set_err f1 None) plen Hinv1); [cbn [set_err readPos writePos]; lia|exact Hk].
Qed.

(* Read never panics, never gets stuck *)
Lemma big_fuel_N : N.of_nat big_fuel = 262144.
Proof. unfold big_fuel. lia. Qed.

Lemma dRead_spec : LongCodesFit -> HeaderRestartMonotone -> forall T f plen,
  r_inv T f -> T + 3 <= 262144 ->
  res_ok (snd (dRead f plen)) /\ r_inv T (fst (fst (dRead f plen))).
Proof.
  intros HLF HRM T f plen Hinv HT. unfold dRead. apply read_loop_spec; auto.
  rewrite big_fuel_N. unfold rmeasure. destruct (derr f) eqn:Ed; [lia|].
  destruct Hinv as (A & _). destruct (A Ed) as (_ & Hs). destruct (hungry_dec f); lia.
Qed.

(* ---------------------------------------------------------------- the run of Read calls *)
Lemma frev_Forall : forall A (P : A -> Prop) (l : list A), Forall P l -> Forall P (frev l).
Proof.
  intros A P l H. unfold frev. rewrite rev_append_rev, app_nil_r. apply Forall_rev. exact H.
Qed.

Lemma erun_loop_spec : LongCodesFit -> HeaderRestartMonotone -> forall T reads f acc,
  r_inv T f -> T + 3 <= 262144 ->
  Forall (fun br : list N * rres => res_ok (snd br)) acc ->
  Forall (fun br : list N * rres => res_ok (snd br)) (fst (erun_loop f reads acc)).
Proof.
  intros HLF HRM T reads. induction reads as [|p rest IH]; intros f acc Hinv HT Hacc; cbn [erun_loop].
  - cbn [fst]. apply frev_Forall. exact Hacc.
  - destruct (dRead_spec HLF HRM T f p Hinv HT) as (R1 & R2).
    destruct (dRead f p) as [[f1 bytes] r] eqn:ER. cbn [fst snd] in R1, R2.
    assert (Hacc1 : Forall (fun br : list N * rres => res_ok (snd br)) ((bytes, r) :: acc)).
    { constructor; [exact R1|exact Hacc]. }
    destruct r; try (cbn [fst]; apply frev_Forall; exact Hacc1).
    apply IH; assumption.
Qed.

Lemma newReader_inv : forall bufsize cs t,
  bufsize <= BUFMAX -> Forall bytes_ok cs -> r_inv (src_total cs) (newReader bufsize cs t).
Proof.
  intros bufsize cs t Hb Hcs. unfold r_inv, newReader. cbn [derr].
  split; [intros _|intros e Hc; discriminate].
  split; [|unfold srcT; cbn [rBuf chunks]; lia].
  unfold d_inv. cbn [state rBuf peekSize].
  split.
  { unfold inf_inv, inflate0. cbn [rd dyn tb headerBuffered headerBuffer phase].
    split; [unfold br_inv, br0; cbn; split; [reflexivity|split; [lia|intros; reflexivity]]|].
    split; [unfold br0; cbn; lia|].
    split; [unfold clc_ok, dyn0; cbn [clcShort]; apply all_entries_empty; exact clc_entry_ok_0|].
    split; [exact tabs_ok2_empty|]. split; [reflexivity|]. split; [lia|].
    split; [intros Hc; unfold phaseDecodingHeader in Hc; discriminate|].
    split; [intros _; reflexivity|intros Hc; unfold phaseLitBlock in Hc; discriminate]. }
  split; [unfold inflate0; cbn [phase]; lia|].
  split; [unfold buf_inv; cbn [blen bbuf bsize length]; split; [reflexivity|split; lia]|].
  split; [unfold berr_ok; cbn [berr]; discriminate|].
  cbn [bsize]. split; [lia|]. split; [unfold BUFMAX in *; lia|].
  split; [intros _; unfold inflate0, br0; cbn [rd r_len blen]; reflexivity|].
  split; [intros Hc; unfold inflate0 in Hc; cbn [inputNil] in Hc; discriminate|].
  split; [unfold in_bytes, inflate0, br0; cbn [rd r_in headerBuffer]; split; constructor|].
  unfold buf_bytes; cbn [bbuf chunks]. split; [constructor|exact Hcs].
Qed.

(* ================================================================ main theorem *)
Theorem erun_no_panic :
  LongCodesFit -> HeaderRestartMonotone ->
  forall bufsize chunks term reads,
    bufsize <= 90000 -> src_total chunks <= 262141 ->
    Forall (Forall (fun b => b < 256)) chunks ->
    Forall (fun br => snd br <> RPanic /\ snd br <> RStuck) (erun bufsize chunks term reads).
Proof.
  intros HLF HRM bufsize cs t reads Hb Hs Hby. unfold erun, erun_ext.
  pose proof (erun_loop_spec HLF HRM (src_total cs) reads (newReader bufsize cs t) []
                (newReader_inv bufsize cs t Hb Hby) ltac:(lia) (Forall_nil _)) as H.
  destruct (erun_loop (newReader bufsize cs t) reads []) as [l f]. cbn [fst] in *. exact H.
Qed.

Print Assumptions erun_no_panic.
