(* EngineRefineLitLenSortBase.v -- first part of the proof of sae_tail_sorted (EngineRefineLitLenSort.v):
   sums, the class offsets Soff, xin_idx inverted, the invariant `placed` of the counting sort,
   calcCodeForLit, and the inner loop of expandLenCodes.  The loop structure follows Section Sort
   of proofs/EngineSafetyExpand.v, strengthened from "sorted by length" to "holds exactly the
   extended code words". *)
From Coq Require Import List NArith ZArith Bool Lia ZifyBool ZifyNat ZifyN.
From Verif Require Import Bits Huffman Inflate.
From Verif Require Import Base EngineTables Engine EngineRefineSpec.
From Verif Require Import EngineRefineLitLenBase EngineRefineLitLenDefs EngineRefineLitLenCode.
From Verif Require HuffmanProofs.
Import ListNotations.
Open Scope N_scope.

(* ---------------------------------------------------------------- bsum *)
Lemma bsum_mono : forall f n m, (n <= m)%nat -> bsum f n <= bsum f m.
Proof.
  intros f n m H. induction H as [|m H IH]; [lia|]. cbn [bsum]. lia.
Qed.

Lemma bsum_ext : forall f g n, (forall j, (j < n)%nat -> f j = g j) -> bsum f n = bsum g n.
Proof.
  intros f g n. induction n as [|k IH]; intros H; [reflexivity|].
  cbn [bsum]. rewrite IH by (intros j Hj; apply H; lia). rewrite (H k) by lia. reflexivity.
Qed.

Lemma bsum_add : forall f g n, bsum (fun j => f j + g j) n = bsum f n + bsum g n.
Proof.
  intros f g n. induction n as [|k IH]; [reflexivity|]. cbn [bsum]. rewrite IH. lia.
Qed.

Lemma bsum_zero : forall f n, (forall j, (j < n)%nat -> f j = 0) -> bsum f n = 0.
Proof.
  intros f n. induction n as [|k IH]; intros H; [reflexivity|].
  cbn [bsum]. rewrite IH by (intros j Hj; apply H; lia). rewrite (H k) by lia. reflexivity.
Qed.

(* a function that is non-zero in at most one point *)
Lemma bsum_single_le : forall f (t : nat) w n,
  (forall j, j <> t -> f j = 0) -> f t <= w -> bsum f n <= w.
Proof.
  intros f t w n H Hw. induction n as [|k IH]; [cbn [bsum]; lia|].
  cbn [bsum]. destruct (Nat.eq_dec k t) as [->|Hne].
  - rewrite (bsum_zero f t); [lia|]. intros j Hj. apply H. lia.
  - rewrite (H k Hne). lia.
Qed.

(* exchanging the two sums *)
Lemma bsum_swap_le : forall (g : nat -> nat -> N) (w : nat -> N) n m,
  (forall i, (i < n)%nat -> bsum (fun L => g L i) m <= w i) ->
  bsum (fun L => bsum (g L) n) m <= bsum w n.
Proof.
  intros g w n m. induction n as [|k IH]; intros H.
  - cbn [bsum]. rewrite bsum_zero; [lia|]. intros; reflexivity.
  - rewrite (bsum_ext _ (fun L => bsum (g L) k + g L k)) by (intros; reflexivity).
    rewrite bsum_add. cbn [bsum].
    specialize (IH ltac:(intros i Hi; apply H; lia)). specialize (H k ltac:(lia)). lia.
Qed.

Lemma bsum_S : forall f k, bsum f (S k) = bsum f k + f k.
Proof. reflexivity. Qed.

Lemma bsum_succ : forall f (j : N),
  bsum f (N.to_nat (j + 1)) = bsum f (N.to_nat j) + f (N.to_nat j).
Proof.
  intros f j. replace (N.to_nat (j + 1)) with (S (N.to_nat j)) by lia. reflexivity.
Qed.

(* ---------------------------------------------------------------- the length-symbol table *)
Lemma len_extra_facts : forall k, (k < 29)%nat ->
  aget rfc_len_extra (N.of_nat k) <= 5 /\ 1 <= xw k <= 32 /\ xbase k + xw k <= 514.
Proof.
  intros k Hk.
  assert (Hb : ((aget rfc_len_extra (N.of_nat k) <=? 5) && (1 <=? xw k) && (xw k <=? 32) &&
                (xbase k + xw k <=? 514)) = true).
  { do 29 (destruct k as [|k]; [vm_compute; reflexivity|]). lia. }
  lia.
Qed.

Lemma xbase_succ : forall k, xbase (S k) = xbase k + xw k.
Proof. intros k. unfold xbase. cbn [bsum]. lia. Qed.

Lemma xbase_mono : forall k k', (k <= k')%nat -> xbase k <= xbase k'.
Proof. intros k k' H. unfold xbase. pose proof (bsum_mono xw k k' H). lia. Qed.

Lemma xbase_ge : forall k, 257 <= xbase k.
Proof. intros k. unfold xbase. lia. Qed.

Lemma xbase_29 : xbase 29 = 514.
Proof. vm_compute. reflexivity. Qed.

Lemma xbase_inj : forall k x k' x', (k < 29)%nat -> (k' < 29)%nat -> x < xw k -> x' < xw k' ->
  xbase k + x = xbase k' + x' -> k = k' /\ x = x'.
Proof.
  intros k x k' x' Hk Hk' Hx Hx' Heq.
  destruct (lt_eq_lt_dec k k') as [[Hlt|Heq']|Hgt].
  - pose proof (xbase_mono (S k) k' ltac:(lia)) as M. rewrite xbase_succ in M. lia.
  - subst k'. split; [reflexivity|lia].
  - pose proof (xbase_mono (S k') k ltac:(lia)) as M. rewrite xbase_succ in M. lia.
Qed.

Lemma bsum_xw_29 : bsum xw 29 = 257.
Proof. vm_compute. reflexivity. Qed.

Lemma bsum_one : forall n, bsum (fun _ => 1) n = N.of_nat n.
Proof. induction n as [|k IH]; [reflexivity|]. cbn [bsum]. rewrite IH. lia. Qed.

(* ---------------------------------------------------------------- counts and offsets *)
Lemma litem_le : forall ll L i, litem ll L i <= 1.
Proof. intros. unfold litem. destruct (negb _ && _); lia. Qed.

Lemma xitem_le : forall ll L k, xitem ll L k <= xw k.
Proof. intros. unfold xitem. cbv zeta. destruct (negb _ && _); lia. Qed.

Lemma litem_zero : forall ll L i, nth i ll 0%nat = 0%nat -> litem ll L i = 0.
Proof.
  intros ll L i H. unfold litem. rewrite H. change (N.of_nat 0) with 0.
  destruct (N.eqb_spec L 0) as [->|Hne]; [reflexivity|].
  destruct (N.eqb_spec 0 L); [congruence|]. cbn [negb andb]. reflexivity.
Qed.

Lemma litem_eq : forall ll L i, nth i ll 0%nat <> 0%nat ->
  litem ll L i = if L =? N.of_nat (nth i ll 0%nat) then 1 else 0.
Proof.
  intros ll L i H. unfold litem.
  destruct (N.eqb_spec L (N.of_nat (nth i ll 0%nat))) as [->|Hne].
  - rewrite N.eqb_refl. destruct (N.eqb_spec (N.of_nat (nth i ll 0%nat)) 0); [lia|reflexivity].
  - destruct (N.eqb_spec (N.of_nat (nth i ll 0%nat)) L); [congruence|].
    rewrite andb_false_r. reflexivity.
Qed.

Lemma xitem_zero : forall ll L k, nth (257 + k) ll 0%nat = 0%nat -> xitem ll L k = 0.
Proof.
  intros ll L k H. unfold xitem. cbv zeta. rewrite H. change (N.of_nat 0) with 0.
  rewrite N.eqb_refl. reflexivity.
Qed.

Lemma xitem_eq : forall ll L k, nth (257 + k) ll 0%nat <> 0%nat ->
  xitem ll L k =
  if L =? N.of_nat (nth (257 + k) ll 0%nat) + aget rfc_len_extra (N.of_nat k) then xw k else 0.
Proof.
  intros ll L k H. unfold xitem. cbv zeta.
  destruct (N.eqb_spec (N.of_nat (nth (257 + k) ll 0%nat)) 0) as [H0|_]; [lia|]. cbn [negb andb].
  destruct (N.eqb_spec L (N.of_nat (nth (257 + k) ll 0%nat) + aget rfc_len_extra (N.of_nat k)))
    as [->|Hne].
  - rewrite N.eqb_refl. reflexivity.
  - destruct (N.eqb_spec (N.of_nat (nth (257 + k) ll 0%nat) + aget rfc_len_extra (N.of_nat k)) L);
      [congruence|reflexivity].
Qed.

Lemma Soff_0 : forall ll, Soff ll 0 = 0.
Proof. reflexivity. Qed.

Lemma Soff_succ : forall ll L, Soff ll (L + 1) = Soff ll L + Ecount ll L.
Proof.
  intros ll L. unfold Soff. replace (N.to_nat (L + 1)) with (S (N.to_nat L)) by lia.
  cbn [bsum]. rewrite N2Nat.id. reflexivity.
Qed.

Lemma Soff_mono : forall ll L L', L <= L' -> Soff ll L <= Soff ll L'.
Proof. intros ll L L' H. unfold Soff. apply bsum_mono. lia. Qed.

(* every symbol counts for at most one expanded length *)
Lemma Soff_22 : forall ll, Soff ll 22 <= 514.
Proof.
  intros ll. unfold Soff. change (N.to_nat 22) with 22%nat.
  rewrite (bsum_ext _ (fun L' => bsum (litem ll (N.of_nat L')) 257 + bsum (xitem ll (N.of_nat L')) 29))
    by (intros; reflexivity).
  rewrite bsum_add.
  assert (H1 : bsum (fun L' => bsum (litem ll (N.of_nat L')) 257) 22 <= bsum (fun _ => 1) 257).
  { apply (bsum_swap_le (fun L' i => litem ll (N.of_nat L') i)). intros i _.
    apply (bsum_single_le _ (nth i ll 0%nat)); [|apply litem_le].
    intros j Hj. unfold litem.
    destruct (N.eqb_spec (N.of_nat (nth i ll 0%nat)) (N.of_nat j)); [lia|].
    rewrite andb_false_r. reflexivity. }
  assert (H2 : bsum (fun L' => bsum (xitem ll (N.of_nat L')) 29) 22 <= bsum xw 29).
  { apply (bsum_swap_le (fun L' k => xitem ll (N.of_nat L') k)). intros k _.
    apply (bsum_single_le _ (nth (257 + k) ll 0%nat + N.to_nat (aget rfc_len_extra (N.of_nat k)))%nat);
      [|apply xitem_le].
    intros j Hj. unfold xitem. cbv zeta.
    destruct (N.eqb_spec (N.of_nat (nth (257 + k) ll 0%nat) + aget rfc_len_extra (N.of_nat k))
                         (N.of_nat j)); [lia|].
    rewrite andb_false_r. reflexivity. }
  rewrite bsum_one in H1. rewrite bsum_xw_29 in H2. lia.
Qed.

Lemma fillA_le : forall ll L j, (j <= 257)%nat -> bsum (litem ll L) j <= Ecount ll L.
Proof. intros ll L j Hj. unfold Ecount. pose proof (bsum_mono (litem ll L) j 257 Hj). lia. Qed.

Lemma fillB_le : forall ll L n, (n <= 29)%nat ->
  bsum (litem ll L) 257 + bsum (xitem ll L) n <= Ecount ll L.
Proof. intros ll L n Hn. unfold Ecount. pose proof (bsum_mono (xitem ll L) n 29 Hn). lia. Qed.

(* the classes are consecutive: different classes do not overlap *)
Lemma class_below : forall ll L L', L < L' -> Soff ll L + Ecount ll L <= Soff ll L'.
Proof.
  intros ll L L' H. rewrite <- Soff_succ. apply Soff_mono. lia.
Qed.

(* every position below Soff 22 lies in exactly one class *)
Lemma class_of : forall ll k (n : nat), k < Soff ll (N.of_nat n) ->
  exists L, L < N.of_nat n /\ Soff ll L <= k < Soff ll L + Ecount ll L.
Proof.
  intros ll k n. induction n as [|m IH]; intros H.
  - change (N.of_nat 0) with 0 in H. rewrite Soff_0 in H. lia.
  - replace (N.of_nat (S m)) with (N.of_nat m + 1) in H by lia. rewrite Soff_succ in H.
    destruct (N.lt_ge_cases k (Soff ll (N.of_nat m))) as [Hlt|Hge].
    + destruct (IH Hlt) as (L & HL & Hk). exists L. split; [lia|exact Hk].
    + exists (N.of_nat m). split; lia.
Qed.

(* ---------------------------------------------------------------- occurrences *)
Lemma occ_firstn_S : forall (l : lens) i b, b <> 0%nat ->
  HuffmanProofs.occ (firstn (S i) l) b =
  HuffmanProofs.occ (firstn i l) b + (if Nat.eqb (nth i l 0%nat) b then 1 else 0).
Proof.
  induction l as [|a l IH]; intros i b Hb.
  - rewrite !firstn_nil. destruct i; cbn [nth]; destruct (Nat.eqb_spec 0 b); lia.
  - destruct i as [|i].
    + cbn [firstn nth]. destruct (Nat.eqb_spec a b) as [->|Hne].
      * rewrite HuffmanProofs.occ_cons_same. lia.
      * rewrite HuffmanProofs.occ_cons_other by exact Hne. lia.
    + change (firstn (S (S i)) (a :: l)) with (a :: firstn (S i) l).
      change (firstn (S i) (a :: l)) with (a :: firstn i l). cbn [nth].
      specialize (IH i b Hb).
      destruct (Nat.eq_dec a b) as [->|Hne].
      * rewrite !HuffmanProofs.occ_cons_same. lia.
      * rewrite !HuffmanProofs.occ_cons_other by exact Hne. exact IH.
Qed.

Lemma nth_le15 : forall (ll : lens) i, Forall (fun x => (x <= 15)%nat) ll -> (nth i ll 0 <= 15)%nat.
Proof.
  intros ll i HF. destruct (Nat.lt_ge_cases i (length ll)) as [Hi|Hi].
  - rewrite Forall_forall in HF. apply HF. apply nth_In. exact Hi.
  - rewrite nth_overflow by exact Hi. lia.
Qed.

(* ---------------------------------------------------------------- xin_idx, inverted *)
Lemma xin_idx_lit : forall ll i len val, (i <= 256)%nat ->
  xin_idx ll (N.of_nat i) len val ->
  nth i ll 0%nat <> 0%nat /\ len = nth i ll 0%nat /\ val = rcode len (cw ll i).
Proof.
  intros ll i len val Hi [(i' & Hi' & Heq & Hn & Hl & Hv)|(k & x & Hk & Hx & Heq & _)].
  - assert (i' = i) by lia. subst i'. auto.
  - pose proof (xbase_ge k). lia.
Qed.

Lemma xin_idx_len : forall ll k x len val, (k < 29)%nat -> x < xw k ->
  xin_idx ll (xbase k + x) len val ->
  nth (257 + k) ll 0%nat <> 0%nat /\
  len = (nth (257 + k) ll 0%nat + N.to_nat (aget rfc_len_extra (N.of_nat k)))%nat /\
  val = rcode (nth (257 + k) ll 0%nat) (cw ll (257 + k)) + x * 2 ^ N.of_nat (nth (257 + k) ll 0%nat).
Proof.
  intros ll k x len val Hk Hx [(i' & Hi' & Heq & _)|(k' & x' & Hk' & Hx' & Heq & Hn & Hl & Hv)].
  - pose proof (xbase_ge k). lia.
  - destruct (xbase_inj k x k' x' Hk Hk' Hx Hx' Heq) as [-> ->]. auto.
Qed.

Lemma xin_idx_bounds : forall ll idx len val, Forall (fun x => (x <= 15)%nat) ll ->
  xin_idx ll idx len val -> idx < 514 /\ (1 <= len <= 20)%nat.
Proof.
  intros ll idx len val HF [(i & Hi & Heq & Hn & Hl & _)|(k & x & Hk & Hx & Heq & Hn & Hl & _)].
  - pose proof (nth_le15 ll i HF). lia.
  - pose proof (nth_le15 ll (257 + k) HF). destruct (len_extra_facts k Hk) as (H5 & _ & Hb). lia.
Qed.

(* ---------------------------------------------------------------- the counting sort *)
Section Sort.
  Variable ll : lens.

  (* k is one of the filled slots of the class L *)
  Definition inslot (fill : N -> N) (L k : N) : Prop :=
    L <= 21 /\ Soff ll L <= k < Soff ll L + fill L.

  (* the slots [Soff L, Soff L + fill L) of codeList hold, without repetition, exactly the
     indices below fr of the extended codes of expanded length L, and litAndDistHuff holds the
     extended code word at these indices *)
  Definition placed (fr : N) (fill : N -> N) (hf cl : arr) : Prop :=
    (forall L k, inslot fill L k ->
       aget cl k < fr /\
       exists val, xin_idx ll (aget cl k) (N.to_nat L) val /\ aget hf (aget cl k) = hc_set val L) /\
    (forall idx len val, idx < fr -> xin_idx ll idx len val ->
       exists k, inslot fill (N.of_nat len) k /\ aget cl k = idx /\
                 aget hf idx = hc_set val (N.of_nat len)) /\
    (forall L k L' k', inslot fill L k -> inslot fill L' k' -> aget cl k = aget cl k' -> k = k').

  Lemma inslot_ext : forall fill fill' L k,
    (forall L', L' <= 21 -> fill' L' = fill L') -> inslot fill L k -> inslot fill' L k.
  Proof.
    intros fill fill' L k Hf [HL Hk]. split; [exact HL|]. rewrite (Hf L HL). exact Hk.
  Qed.

  Lemma placed_weaken : forall fr fr' fill fill' hf cl,
    placed fr fill hf cl -> fr <= fr' ->
    (forall L, L <= 21 -> fill' L = fill L) ->
    (forall idx len val, fr <= idx < fr' -> ~ xin_idx ll idx len val) ->
    placed fr' fill' hf cl.
  Proof.
    intros fr fr' fill fill' hf cl (H1 & H2 & H3) Hfr Hf Hno.
    assert (Hf' : forall L, L <= 21 -> fill L = fill' L) by (intros L HL; symmetry; apply Hf, HL).
    split; [|split].
    - intros L k Hin. apply (inslot_ext fill' fill _ _ Hf') in Hin.
      destruct (H1 L k Hin) as [Ha Hb]. split; [lia|exact Hb].
    - intros idx len val Hidx Hx.
      destruct (N.lt_ge_cases idx fr) as [Hlt|Hge].
      + destruct (H2 idx len val Hlt Hx) as (k & Hin & Hk). exists k.
        split; [|exact Hk]. apply (inslot_ext fill fill' _ _ Hf Hin).
      + exfalso. apply (Hno idx len val); [lia|exact Hx].
    - intros L k L' k' Hin Hin'. apply (inslot_ext fill' fill _ _ Hf') in Hin, Hin'.
      apply (H3 L k L' k' Hin Hin').
  Qed.

  (* the first free slot of the class L is not a filled slot *)
  Lemma free_slot : forall fill L L' k,
    L <= 21 -> (forall L', L' <= 21 -> fill L' <= Ecount ll L') -> fill L < Ecount ll L ->
    inslot fill L' k -> k <> Soff ll L + fill L.
  Proof.
    intros fill L L' k HL Hfill HfL [HL' Hk] Heq.
    pose proof (Hfill L' HL') as F1.
    destruct (N.lt_trichotomy L' L) as [Hlt|[->|Hgt]].
    - pose proof (class_below ll L' L Hlt). lia.
    - lia.
    - pose proof (class_below ll L L' Hgt). lia.
  Qed.

  Lemma place_one : forall fr fill hf cl L val,
    placed fr fill hf cl -> L <= 21 ->
    (forall L', L' <= 21 -> fill L' <= Ecount ll L') -> fill L < Ecount ll L ->
    xin_idx ll fr (N.to_nat L) val ->
    (forall len' val', xin_idx ll fr len' val' -> len' = N.to_nat L /\ val' = val) ->
    placed (fr + 1) (fun L' => if L' =? L then fill L + 1 else fill L')
           (aset hf fr (hc_set val L)) (aset cl (Soff ll L + fill L) fr).
  Proof.
    intros fr fill hf cl L val (H1 & H2 & H3) HL Hfill HfL Hx Huniq.
    set (fill' := fun L' => if L' =? L then fill L + 1 else fill L').
    set (k0 := Soff ll L + fill L).
    assert (Hold : forall L' k, inslot fill L' k -> inslot fill' L' k /\ k <> k0).
    { intros L' k Hin. split; [|apply (free_slot fill L L' k HL Hfill HfL Hin)].
      destruct Hin as [HL' Hk]. split; [exact HL'|]. unfold fill'.
      destruct (N.eqb_spec L' L) as [->|Hne]; lia. }
    assert (Hnew : forall L' k, inslot fill' L' k -> (L' = L /\ k = k0) \/ (inslot fill L' k /\ k <> k0)).
    { intros L' k [HL' Hk]. unfold fill' in Hk.
      destruct (N.eqb_spec L' L) as [->|Hne].
      - destruct (N.eq_dec k k0) as [->|Hk0]; [left; auto|].
        right. split; [|exact Hk0]. split; [exact HL'|]. unfold k0 in Hk0. lia.
      - right. assert (Hin : inslot fill L' k) by (split; assumption).
        split; [exact Hin|apply (free_slot fill L L' k HL Hfill HfL Hin)]. }
    split; [|split].
    - intros L' k Hin. destruct (Hnew L' k Hin) as [[-> ->]|[Hin0 Hk0]].
      + rewrite aget_aset_same. split; [lia|]. exists val. split; [exact Hx|].
        apply aget_aset_same.
      + rewrite aget_aset_other by exact Hk0.
        destruct (H1 L' k Hin0) as (Ha & v & Hv1 & Hv2). split; [lia|].
        exists v. split; [exact Hv1|]. rewrite aget_aset_other by lia. exact Hv2.
    - intros idx len val' Hidx Hx'.
      destruct (N.eq_dec idx fr) as [->|Hne].
      + destruct (Huniq len val' Hx') as [-> ->]. exists k0. rewrite N2Nat.id.
        split; [|split].
        * split; [exact HL|]. unfold fill', k0. rewrite N.eqb_refl. lia.
        * apply aget_aset_same.
        * apply aget_aset_same.
      + destruct (H2 idx len val' ltac:(lia) Hx') as (k & Hin & Hk1 & Hk2).
        destruct (Hold _ k Hin) as [Hin' Hk0]. exists k. split; [exact Hin'|].
        rewrite !aget_aset_other by assumption. split; assumption.
    - intros L1 k1 L2 k2 Hin1 Hin2.
      destruct (Hnew L1 k1 Hin1) as [[-> ->]|[Hin1' Hk1]];
        destruct (Hnew L2 k2 Hin2) as [[-> ->]|[Hin2' Hk2]].
      + intros _. reflexivity.
      + rewrite aget_aset_same, aget_aset_other by exact Hk2. intros Heq.
        destruct (H1 L2 k2 Hin2') as [Ha _]. lia.
      + rewrite aget_aset_same, aget_aset_other by exact Hk1. intros Heq.
        destruct (H1 L1 k1 Hin1') as [Ha _]. lia.
      + rewrite !aget_aset_other by assumption. apply (H3 L1 k1 L2 k2 Hin1' Hin2').
  Qed.

  Lemma slot_bound : forall L fill, fill < Ecount ll L -> L <= 21 -> Soff ll L + fill + 1 <= 514.
  Proof.
    intros L fill Hf HL. pose proof (Soff_succ ll L) as S1.
    pose proof (Soff_mono ll (L + 1) 22 ltac:(lia)) as M. pose proof (Soff_22 ll). lia.
  Qed.
End Sort.

(* ---------------------------------------------------------------- calcCodeForLit *)
Definition calc_inv (ll : lens) (huff0 : arr) (j : N) (st : arr * arr * arr * arr * bool) : Prop :=
  let '(hf, cl, ex, nc, pan) := st in
  pan = false ->
  placed ll j (fun L => bsum (litem ll L) (N.to_nat j)) hf cl /\
  (forall L, L <= 21 -> aget ex L = Soff ll L + bsum (litem ll L) (N.to_nat j)) /\
  (forall b, (1 <= b <= 15)%nat ->
     aget nc (N.of_nat b) = first_code ll b + HuffmanProofs.occ (firstn (N.to_nat j) ll) b) /\
  (forall i, j <= i -> aget hf i = aget huff0 i).

Lemma calc_spec : forall ll huff cl ex nc,
  Forall (fun x => (x <= 15)%nat) ll -> oversubscribed 15 ll = false ->
  (forall i, i < 257 -> aget huff i = hc_set 0 (N.of_nat (nth (N.to_nat i) ll 0%nat))) ->
  ps_post ll ex nc ->
  calc_inv ll huff 257 (calcCodeForLit huff cl ex nc).
Proof.
  intros ll huff cl ex nc HF Hov Hh [Hex Hnc]. unfold calcCodeForLit.
  apply (forN_ind _ (calc_inv ll huff)).
  - unfold litSymbolsSize. lia.
  - unfold calc_inv. intros _. change (N.to_nat 0) with O. cbn [bsum firstn].
    split; [|split; [|split]].
    + split; [|split].
      * intros L k [_ Hk]. lia.
      * intros idx len val Hidx. lia.
      * intros L k L' k' [_ Hk]. lia.
    + intros L HL. rewrite Hex by lia. lia.
    + intros b Hb. rewrite (Hnc b Hb). unfold HuffmanProofs.occ. cbn [count_occ]. lia.
    + intros i _. reflexivity.
  - intros j st Hj Hst. unfold litSymbolsSize in Hj.
    destruct st as [[[[hf cl'] ex'] nc'] pan].
    unfold calc_inv in Hst. cbv beta iota zeta.
    remember (N.to_nat j) as m eqn:Hm.
    assert (Hjm : j = N.of_nat m) by lia.
    assert (Hm257 : (m < 257)%nat) by lia.
    destruct pan.
    { (* already panicked: the flag stays set *)
      unfold calc_inv.
      destruct (hc_len (aget hf j) =? 0); [intros Hc; discriminate Hc|].
      destruct (516 <=? aget ex' (hc_len (aget hf j))); intros Hc; discriminate Hc. }
    destruct (Hst eq_refl) as (Hpl & Hex' & Hnc' & Hfr). clear Hst.
    rewrite (Hfr j) by lia. rewrite (Hh j) by lia. rewrite <- Hm.
    pose proof (nth_le15 ll m HF) as Hl15.
    rewrite hc_len_set by lia.
    set (l := nth m ll 0%nat) in *.
    replace (N.to_nat (j + 1)) with (S m) by lia.
    destruct (N.eqb_spec (N.of_nat l) 0) as [Hl0|Hl0].
    + (* unused symbol *)
      assert (Hl : l = 0%nat) by lia.
      unfold calc_inv. intros _. replace (N.to_nat (j + 1)) with (S m) by lia.
      split; [|split; [|split]].
      * apply (placed_weaken ll j _ (fun L => bsum (litem ll L) m)); [exact Hpl|lia| |].
        -- intros L HL. cbn [bsum]. rewrite (litem_zero ll L m Hl). lia.
        -- intros idx len val Hidx Hx. assert (idx = N.of_nat m) by lia. subst idx.
           destruct (xin_idx_lit ll m len val ltac:(lia) Hx) as [Hn _]. apply Hn. exact Hl.
      * intros L HL. cbn [bsum]. rewrite (litem_zero ll L m Hl). rewrite (Hex' L HL). lia.
      * intros b Hb. rewrite (Hnc' b Hb). rewrite occ_firstn_S by lia. fold l.
        destruct (Nat.eqb_spec l b); lia.
      * intros i Hi. apply Hfr. lia.
    + (* used symbol *)
      assert (Hl : l <> 0%nat) by lia.
      assert (HL : N.of_nat l <= 21) by lia.
      assert (Hit : forall L, litem ll L m = if L =? N.of_nat l then 1 else 0).
      { intros L. apply litem_eq. exact Hl. }
      rewrite (Hex' _ HL).
      destruct (516 <=? Soff ll (N.of_nat l) + bsum (litem ll (N.of_nat l)) m) eqn:E516.
      { unfold calc_inv. intros Hc; discriminate Hc. }
      unfold calc_inv. intros _. replace (N.to_nat (j + 1)) with (S m) by lia.
      assert (Hlt : bsum (litem ll (N.of_nat l)) m < Ecount ll (N.of_nat l)).
      { pose proof (fillA_le ll (N.of_nat l) (S m) ltac:(lia)) as H1. cbn [bsum] in H1.
        rewrite Hit, N.eqb_refl in H1. lia. }
      assert (Hle : forall L', L' <= 21 -> bsum (litem ll L') m <= Ecount ll L').
      { intros L' _. apply fillA_le. lia. }
      pose proof (slot_bound ll _ _ Hlt HL) as Hsb.
      (* the code value *)
      assert (Hcw : aget nc' (N.of_nat l) = cw ll m).
      { rewrite (Hnc' l) by lia. reflexivity. }
      pose proof (cw_lt ll m HF Hov Hl) as Hcwlt. fold l in Hcwlt.
      assert (Hp15 : 2 ^ N.of_nat l <= 2 ^ 15) by (apply N.pow_le_mono_r; lia).
      change (2 ^ 15) with 32768 in Hp15.
      rewrite Hcw. rewrite bitReverse2_rcode by (try exact Hcwlt; lia). rewrite Nat2N.id.
      assert (Hxin : xin_idx ll j (N.to_nat (N.of_nat l)) (rcode l (cw ll m))).
      { left. exists m. rewrite Nat2N.id. repeat split; try lia; try reflexivity; try exact Hl. }
      split; [|split; [|split]].
      * pose proof (place_one ll j _ hf cl' (N.of_nat l) (rcode l (cw ll m)) Hpl HL Hle Hlt Hxin) as Hp.
        apply (placed_weaken ll (j + 1) (j + 1) _ _ _ _ (Hp ltac:(
          intros len' val' Hx'; rewrite Hjm in Hx';
          destruct (xin_idx_lit ll m len' val' ltac:(lia) Hx') as (_ & H1 & H2);
          rewrite Nat2N.id; fold l in H1; subst len'; auto))); [lia| |intros; lia].
        intros L _. cbn [bsum]. rewrite Hit. destruct (N.eqb_spec L (N.of_nat l)) as [->|Hne]; lia.
      * intros L HL'. cbn [bsum]. rewrite Hit. rewrite aget_aset.
        destruct (N.eqb_spec L (N.of_nat l)) as [->|Hne].
        -- rewrite u16_small by lia. lia.
        -- rewrite (Hex' L HL'). lia.
      * intros b Hb. rewrite aget_aset. rewrite occ_firstn_S by lia. fold l.
        destruct (N.eqb_spec (N.of_nat b) (N.of_nat l)) as [Heq|Hne].
        -- assert (b = l) by lia. subst b. rewrite Nat.eqb_refl.
           rewrite u32_small by lia. unfold cw. fold l. lia.
        -- destruct (Nat.eqb_spec l b); [lia|]. rewrite (Hnc' b Hb). lia.
      * intros i Hi. rewrite aget_aset_other by lia. apply Hfr. lia.
Qed.

(* ---------------------------------------------------------------- expandLenCodes, inner loop *)
Definition inner_inv (ll : lens) (fill : N -> N) (L base x : N) (st : arr * arr * bool) : Prop :=
  let '(hf, cl, pan) := st in
  pan = false ->
  placed ll (base + x) (fun L' => fill L' + (if L' =? L then x else 0)) hf cl.

Lemma inner_spec : forall ll (v val : N -> N) fill L ins base n hf cl pan0,
  (pan0 = false -> placed ll base fill hf cl) -> L <= 21 -> ins = Soff ll L + fill L ->
  fill L + n <= Ecount ll L ->
  (forall L', L' <= 21 -> fill L' <= Ecount ll L') ->
  (forall x, x < n ->
     v x = hc_set (val x) L /\ xin_idx ll (base + x) (N.to_nat L) (val x) /\
     (forall len' val', xin_idx ll (base + x) len' val' -> len' = N.to_nat L /\ val' = val x)) ->
  inner_inv ll fill L base n
    (forN 0 n (fun extra (a : arr * arr * bool) =>
       let '(huff, cl, pan) := a in
       if (516 <=? ins + extra) || (514 <=? base + extra) then (huff, cl, true)
       else (aset huff (base + extra) (v extra), aset cl (ins + extra) (base + extra), pan))
       (hf, cl, pan0)).
Proof.
  intros ll v val fill L ins base n hf cl pan0 Hpl HL Hins HfL Hfill Hv.
  apply (forN_ind _ (inner_inv ll fill L base)).
  - lia.
  - unfold inner_inv. intros Hp.
    apply (placed_weaken ll base _ fill); [exact (Hpl Hp)|lia| |intros; lia].
    intros L' HL'. destruct (L' =? L); lia.
  - intros x st Hx Hst. destruct st as [[hf' cl'] pan].
    unfold inner_inv in Hst. cbv beta iota zeta.
    destruct ((516 <=? ins + x) || (514 <=? base + x)) eqn:Ep.
    { unfold inner_inv. intros Hc; discriminate Hc. }
    unfold inner_inv. intros Hp. specialize (Hst Hp).
    destruct (Hv x (proj2 Hx)) as (Hv1 & Hv2 & Hv3).
    assert (Hle : forall L', L' <= 21 -> fill L' + (if L' =? L then x else 0) <= Ecount ll L').
    { intros L' HL'. pose proof (Hfill L' HL'). destruct (N.eqb_spec L' L) as [->|Hne]; lia. }
    assert (Hlt' : fill L + (if L =? L then x else 0) < Ecount ll L) by (rewrite N.eqb_refl; lia).
    pose proof (place_one ll (base + x) _ hf' cl' L (val x) Hst HL Hle Hlt' Hv2 Hv3) as Hp1.
    cbv beta in Hp1. rewrite N.eqb_refl in Hp1.
    replace (Soff ll L + (fill L + x)) with (ins + x) in Hp1 by lia.
    rewrite Hv1.
    apply (placed_weaken ll _ _ _ _ _ _ Hp1); [lia| |intros; lia].
    intros L' HL'. destruct (N.eqb_spec L' L) as [->|Hne]; lia.
Qed.

