(* EngineRefineRdHdrNeed.v -- "ran out of input" is honest for tryDecodeHeader and readHeader
   (statements in RModel/EngineRefineSpecNeed.v and RModel/EngineRefineSpecTop.v). *)
From Coq Require Import List NArith ZArith Bool Lia ZifyBool ZifyNat ZifyN.
From Verif Require Import Bits Huffman HuffmanSpec Inflate InflateSpec InflateMono.
From Verif Require Import Base EngineTables Engine EngineRefineSpec EngineRefineSpecBlock
  EngineRefineSpecHdr EngineRefineSpecNeed EngineRefineSpecTop EngineRefineBits EngineRefineBridge.
From Verif Require Import EngineRefineRdHdrA EngineRefineRdHdrB.
Import ListNotations.
Open Scope N_scope.

Local Opaque setupDynamicHeader prepareForLitBlock.

(* ================================================================ (1) tryDecodeHeader *)
Lemma take_short : forall n S, (InflateMono.blen S < n)%nat -> take n S = None.
Proof.
  intros n S H. pose proof (take_len n S) as L.
  destruct (take n S) as [[v r]|]; [destruct L as [L _]; lia|reflexivity].
Qed.

(* readBits on exactly the engine's bits: `take`, or the reference runs out as well *)
Lemma readBits_need : forall s k p,
  br_wf (rd s) -> (0 <= r_len (rd s))%Z -> k <= 57 ->
  ((Z.of_N p + r_len (rd s)) mod 8 = 0)%Z ->
  exists v b', readBits s k = Some (v, set_rd s b') /\ br_wf b' /\
    ((0 <= r_len b')%Z ->
       take (N.to_nat k) (mkbs (br_bits (rd s)) p) = Some (v, mkbs (br_bits b') (p + k)) /\
       ((Z.of_N (p + k) + r_len b') mod 8 = 0)%Z) /\
    ((r_len b' < 0)%Z -> take (N.to_nat k) (mkbs (br_bits (rd s)) p) = None).
Proof.
  intros s k p Hwf H0 Hk Hal.
  destruct (readBits_take s k [] p Hwf H0 Hk) as (v & s' & R & W' & E' & T & Tn).
  rewrite !app_nil_r in T.
  exists v, (rd s'). rewrite <- E'. split; [exact R|]. split; [exact W'|]. split.
  - intros H0'. specialize (T H0'). split; [exact T|].
    pose proof (take_len (N.to_nat k) (mkbs (br_bits (rd s)) p)) as L.
    rewrite T in L. destruct L as [L _]. unfold InflateMono.blen in L. cbn [bl] in L.
    rewrite !br_bits_length in L.
    replace (p + k) with (p + N.of_nat (N.to_nat k)) by lia.
    eapply align_step with (len := r_len (rd s)) (n := length (r_in (rd s))) (n' := length (r_in (rd s')));
      [exact Hal|exact H0|exact H0'|lia].
  - intros Hn. destruct (Tn Hn) as [_ Hl]. apply take_short.
    unfold InflateMono.blen. cbn [bl]. exact Hl.
Qed.

Theorem tryDecodeHeader_need : tryDecodeHeader_need_statement.
Proof.
  intros HDN HPN s p Hwf H0 Hal Herr (bf & x1 & bt & x2 & T1 & T2 & Hc).
  unfold tryDecodeHeader in Herr.
  destruct (readBits_need s 1 p Hwf H0 ltac:(lia) Hal) as (v & bA & RA & WA & TA & TAn).
  rewrite RA in Herr. cbv beta iota zeta in Herr.
  change (N.to_nat 1) with 1%nat in TA, TAn.
  destruct (Z.ltb_spec (r_len bA) 0) as [HnA|HpA]; [rewrite (TAn HnA) in T1; discriminate|].
  destruct (TA HpA) as [T1' Hal1]. rewrite T1' in T1. inversion T1; subst bf x1. clear T1.
  set (sB := set_bfinal (set_rd s bA) v) in *.
  assert (EBrd : rd sB = bA) by reflexivity.
  destruct (readBits_need sB 2 (p + 1) ltac:(rewrite EBrd; exact WA) ltac:(rewrite EBrd; exact HpA)
              ltac:(lia) ltac:(rewrite EBrd; exact Hal1)) as (bt' & bC & RC & WC & TC & TCn).
  rewrite EBrd in TC, TCn. change (N.to_nat 2) with 2%nat in TC, TCn.
  rewrite RC in Herr. cbv beta iota zeta in Herr.
  set (sC := set_rd sB bC) in *.
  assert (ECrd : rd sC = bC) by reflexivity. rewrite ECrd in Herr.
  destruct (Z.ltb_spec (r_len bC) 0) as [HnC|HpC]; [rewrite (TCn HnC) in T2; discriminate|].
  destruct (TC HpC) as [T2' Hal2]. rewrite T2' in T2. inversion T2; subst bt x2. clear T2.
  destruct (N.eqb_spec bt' 0) as [E0|N0].
  { destruct Hc as [Hc|[(Hc & _)|(_ & Hc)]]; [lia|lia|].
    exact (HPN sC (p + 1 + 2) WC HpC Hal2 Herr Hc). }
  destruct (N.eqb_spec bt' 1) as [E1|N1]; [cbn [snd] in Herr; discriminate|].
  destruct (N.eqb_spec bt' 2) as [E2|N2]; [|cbn [snd] in Herr; discriminate].
  destruct Hc as [Hc|[(_ & r & s3 & DH)|(Hc & _)]]; [lia| |lia].
  exact (HDN sC (p + 1 + 2) WC HpC Herr r s3 DH).
Qed.

Print Assumptions tryDecodeHeader_need.

(* ================================================================ locality of the reference *)
(* if a parser succeeds on an extension of the stream and leaves at least the extension, it
   succeeds on the stream itself *)
Lemma take_local : forall n z S v R,
  take n (ext z S) = Some (v, R) -> (length z <= InflateMono.blen R)%nat ->
  exists R', take n S = Some (v, R') /\ R = ext z R'.
Proof.
  intros n z S v R H Hl. pose proof (take_ext z n S) as X.
  destruct (take n S) as [[v' r]|].
  - rewrite X in H. inversion H; subst. exists r. split; reflexivity.
  - rewrite H in X. lia.
Qed.

Lemma dyn_local : forall z S r R,
  dyn_header (ext z S) = HOk r R -> (length z <= InflateMono.blen R)%nat ->
  exists R', dyn_header S = HOk r R' /\ R = ext z R'.
Proof.
  intros z S r R H Hl. pose proof (dyn_header_ext z S) as X.
  destruct (dyn_header S) as [v r'|st]; cbn [hext] in X.
  - rewrite X in H. inversion H; subst. exists r'. split; reflexivity.
  - destruct st; rewrite H in X; try discriminate. lia.
Qed.

(* the header parse of the reference on S ends with the stream R *)
Definition hdr_ends (S R : bs) : Prop :=
  exists bf s1 bt s2,
    take 1 S = Some (bf, s1) /\ take 2 s1 = Some (bt, s2) /\
    ((bt = 1 /\ R = s2) \/
     (bt = 2 /\ exists r, dyn_header s2 = HOk r R) \/
     (bt = 0 /\ exists len s4 nlen,
        take 16 (align s2) = Some (len, s4) /\ take 16 s4 = Some (nlen, R))).

Lemma hdr_result_ends : forall s' S e, hdr_result s' S e ->
  exists R, hdr_ends S R /\ bl R = br_bits (rd s') ++ e.
Proof.
  intros s' S e (bf & x1 & bt & x2 & T1 & T2 & _ & Hc).
  destruct Hc as [(Eb & _ & lt & dt & _ & _ & BL)|[(Eb & _ & lt & dt & x3 & DH & _ & BL)|
                  (Eb & _ & len & x4 & nlen & x5 & A1 & A2 & _ & _ & BL & _)]].
  - exists x2. split; [|exact BL]. exists bf, x1, bt, x2. split; [exact T1|]. split; [exact T2|].
    left. split; [exact Eb|reflexivity].
  - exists x3. split; [|exact BL]. exists bf, x1, bt, x2. split; [exact T1|]. split; [exact T2|].
    right. left. split; [exact Eb|]. exists (lt, dt). exact DH.
  - exists x5. split; [|exact BL]. exists bf, x1, bt, x2. split; [exact T1|]. split; [exact T2|].
    right. right. split; [exact Eb|]. exists len, x4, nlen. split; assumption.
Qed.

Lemma align_blen : forall s, (InflateMono.blen (align s) <= InflateMono.blen s)%nat.
Proof. intros s. unfold align, InflateMono.blen. cbn [bl]. rewrite skipn_length. lia. Qed.

Lemma hdr_ends_local : forall z S R,
  hdr_ends (ext z S) R -> (length z <= InflateMono.blen R)%nat -> hdr_parses S.
Proof.
  intros z S R (bf & s1 & bt & s2 & T1 & T2 & Hc) Hl.
  assert (HR2 : (InflateMono.blen R <= InflateMono.blen s2)%nat).
  { destruct Hc as [(_ & ->)|[(_ & r & DH)|(_ & len & s4 & nlen & A1 & A2)]].
    - lia.
    - pose proof (dyn_header_len s2) as L. rewrite DH in L. cbn [hlen] in L. destruct L as [L _]. exact L.
    - pose proof (take_len 16 (align s2)) as L1. rewrite A1 in L1.
      pose proof (take_len 16 s4) as L2. rewrite A2 in L2.
      pose proof (align_blen s2). lia. }
  pose proof (take_len 2 s1) as L2. rewrite T2 in L2. destruct L2 as [L2 _].
  destruct (take_local 1 z S bf s1 T1 ltac:(lia)) as (s1' & T1' & E1). subst s1.
  destruct (take_local 2 z s1' bt s2 T2 ltac:(lia)) as (s2' & T2' & E2). subst s2.
  exists bf, s1', bt, s2'. split; [exact T1'|]. split; [exact T2'|].
  destruct Hc as [(Eb & _)|[(Eb & r & DH)|(Eb & len & s4 & nlen & A1 & A2)]].
  - left. exact Eb.
  - right. left. split; [exact Eb|].
    destruct (dyn_local z s2' r R DH Hl) as (R' & DH' & _). exists r, R'. exact DH'.
  - right. right. split; [exact Eb|].
    pose proof (take_len 16 (align (ext z s2'))) as L1. rewrite A1 in L1. destruct L1 as [L1 _].
    pose proof (take_len 16 s4) as L4. rewrite A2 in L4. destruct L4 as [L4 _].
    destruct (Nat.leb_spec (align_k s2') (InflateMono.blen s2')) as [Hk|Hk].
    + destruct (align_ok s2' Hk) as [_ Ha]. rewrite Ha in A1.
      destruct (take_local 16 z (align s2') len s4 A1 ltac:(lia)) as (s4' & A1' & E4). subst s4.
      destruct (take_local 16 z s4' nlen R A2 Hl) as (R' & A2' & _).
      exists len, s4', nlen, R'. split; assumption.
    + exfalso. destruct (align_short s2' Hk) as [_ Hb]. destruct (Hb z) as [Hc' _]. lia.
Qed.

(* ================================================================ (2) readHeader *)
Local Opaque tryDecodeHeader.

Definition readHeader_need_body' : Prop :=
  tryDecodeHeader_need_body -> tryDecodeHeader_refine_statement -> header_bound_statement ->
  setupDynamicHeader_refine_body -> prepareForLitBlock_refine_statement ->
  static_lit_tab_ok_statement -> static_dist_tab_ok_statement ->
  readHeader_need_body.

Definition nd_instance (s : inflate) (p : N) (r : inflate * ierr) : Prop :=
  let '(s', err) := r in
  (err = EEndInput -> hdr_need s' p) /\ (err = ENone -> qbytes s' <= qbytes s).

Lemma nd_vacuous : forall s p s' err,
  err <> ENone -> err <> EEndInput -> nd_instance s p (s', err).
Proof. intros s p s' err N1 N2. unfold nd_instance. split; intros E; congruence. Qed.

(* the EEndInput exit *)
Lemma nd_end_input : forall s p s3,
  hdr_ok s ->
  N.min (maxHdrSize - headerBuffered s) (r_inlen (rd s)) = r_inlen (rd s) ->
  ~ hdr_parses (mkbs (lbits s) p) ->
  nd_instance s p
    (set_phase
       (set_rd (set_header s3 (headerBuffered s + N.min (maxHdrSize - headerBuffered s) (r_inlen (rd s)))
                  (headerBuffer s ++ firstn (N.to_nat (N.min (maxHdrSize - headerBuffered s) (r_inlen (rd s))))
                                            (r_in (rd s))))
               (mkBR (r_bits (rd s)) (r_len (rd s)) [] 0))
       phaseDecodingHeader, EEndInput).
Proof.
  intros s p s3 Hok Emin Hnp. rewrite Emin.
  pose proof Hok as (WL & H0 & Ehb & Hhb & Hph & Hnb).
  pose proof WL as (L1 & _). unfold lrd in L1. cbn [r_in r_inlen] in L1.
  rewrite app_length in L1.
  assert (Efn : firstn (N.to_nat (r_inlen (rd s))) (r_in (rd s)) = r_in (rd s)).
  { apply firstn_all2. lia. }
  rewrite Efn. unfold nd_instance. split; [intros _|discriminate].
  intros _. unfold hbits. cbn [rd headerBuffer set_phase set_rd set_header r_bits r_len].
  exact Hnp.
Qed.

(* qbytes from the lengths of the streams *)
Lemma qbytes_le : forall (len2 len0 : Z) (n2 n0 : N),
  (0 <= len2)%Z -> (0 <= len0)%Z ->
  (len2 + 8 * Z.of_N n2 <= len0 + 8 * Z.of_N n0)%Z ->
  Z.to_N (Z.quot len2 8) + n2 <= Z.to_N (Z.quot len0 8) + n0.
Proof.
  intros len2 len0 n2 n0 H2 H0 H.
  rewrite !Z.quot_div_nonneg by lia.
  Z.div_mod_to_equations. lia.
Qed.

Section ReadHeaderNeed.
Variable TN : tryDecodeHeader_need_body.
Variable T : forall s e p,
    br_wf (rd s) -> (0 <= r_len (rd s))%Z -> ((Z.of_N p + r_len (rd s)) mod 8 = 0)%Z ->
    let '(s', err) := tryDecodeHeader s in
    same_hdr_frame s s' /\ headerBuffered s' = headerBuffered s /\ headerBuffer s' = headerBuffer s /\
    (err = ENone ->
       br_wf (rd s') /\ (0 <= r_len (rd s'))%Z /\
       hdr_result s' (mkbs (br_bits (rd s) ++ e) p) e).
Variable HB : header_bound_statement.

Lemma readHeader_need_fresh : forall s p,
  hdr_ok s -> phase s = phaseNewBlock -> ((Z.of_N p + r_len (rd s)) mod 8 = 0)%Z ->
  nd_instance s p (readHeader s).
Proof.
  intros s p Hok HphN Hal.
  pose proof Hok as (WL & H0 & Ehb & Hhb & Hph & Hnb).
  specialize (Hnb HphN).
  assert (Ehb0 : headerBuffered s = 0) by (rewrite Ehb, Hnb; reflexivity).
  assert (Elrd : lrd s = rd s).
  { unfold lrd. rewrite Hnb, Ehb0. cbn [app]. rewrite N.add_0_l. destruct (rd s); reflexivity. }
  assert (Wf : br_wf (rd s)) by (rewrite <- Elrd; exact WL).
  assert (Elb : lbits s = br_bits (rd s)) by (unfold lbits; rewrite Elrd; reflexivity).
  unfold readHeader. rewrite HphN. change (phaseNewBlock =? phaseDecodingHeader) with false.
  cbv beta iota zeta. cbn [andb].
  pose proof (T s [] p Wf H0 Hal) as R.
  destruct (tryDecodeHeader s) as [s2 err] eqn:ET. destruct R as (FR & B1 & B2 & OK).
  destruct err; try (apply nd_vacuous; discriminate).
  - (* ENone *)
    destruct (OK eq_refl) as (W2 & H02 & HR).
    unfold nd_instance. split; [discriminate|intros _].
    unfold qbytes. cbn [rd set_header].
    destruct (hdr_result_sfx _ _ _ HR) as [k Hk]. cbn [bl] in Hk.
    apply (f_equal (@length bool)) in Hk.
    rewrite skipn_length, !app_nil_r, !br_bits_length in Hk.
    pose proof W2 as (V1 & _). pose proof Wf as (V0 & _).
    apply qbytes_le; [exact H02|exact H0|lia].
  - (* EEndInput *)
    pose proof (HB s s2 Wf H0 ET) as Hb.
    apply nd_end_input; [exact Hok| |].
    + rewrite Ehb0. unfold maxHdrSize. lia.
    + rewrite Elb. apply (TN s p Wf H0 Hal). rewrite ET. reflexivity.
Qed.

Lemma readHeader_need_staged : forall s p,
  hdr_ok s -> hdr_ok_staged s -> phase s = phaseDecodingHeader ->
  ((Z.of_N p + r_len (rd s)) mod 8 = 0)%Z -> hdr_need s p ->
  nd_instance s p (readHeader s).
Proof.
  intros s p Hok HS HphD Hal HN.
  pose proof Hok as (WL & H0 & Ehb & Hhb & Hph & Hnb).
  specialize (HS HphD). specialize (HN HphD).
  pose proof WL as (L1 & _ & _ & L4 & _). unfold lrd in L1, L4. cbn [r_in r_inlen] in L1, L4.
  rewrite app_length in L1.
  assert (Einlen : r_inlen (rd s) = N.of_nat (length (r_in (rd s)))) by lia.
  apply Forall_app in L4. destruct L4 as [Fh Fi].
  unfold readHeader. rewrite HphD. change (phaseDecodingHeader =? phaseDecodingHeader) with true.
  cbv beta iota zeta. cbn [andb].
  set (c := N.min (maxHdrSize - headerBuffered s) (r_inlen (rd s))).
  set (fin := firstn (N.to_nat c) (r_in (rd s))).
  set (rest := skipn (N.to_nat c) (r_in (rd s))).
  assert (Hc : c <= r_inlen (rd s)) by (unfold c; lia).
  assert (Lfin : length fin = N.to_nat c) by (unfold fin; apply firstn_length_le; lia).
  assert (Ffin : Forall (fun x => x < 256) fin) by (apply Forall_firstn'; exact Fi).
  set (s1 := set_rd s (br_set_in (rd s) (headerBuffer s ++ fin) (c + headerBuffered s))).
  assert (W1 : br_wf (rd s1)).
  { pose proof (br_wf_app_in _ fin HS H0 Ffin) as X. cbn zeta in X. cbn [r_bits r_len r_in r_inlen] in X.
    replace (headerBuffered s + N.of_nat (length fin)) with (c + headerBuffered s) in X by lia.
    exact (proj1 X). }
  set (e' := bits_of_bytes rest).
  (* the staged stream is an extension of hbits s *)
  assert (Estream : br_bits (rd s1) ++ e' = hbits s ++ (bits_of_bytes fin ++ e')).
  { unfold hbits, br_bits, s1. cbn [rd set_rd br_set_in r_bits r_len r_in].
    rewrite bits_of_bytes_app, <- !app_assoc. reflexivity. }
  pose proof (T s1 e' p W1 H0 Hal) as R.
  destruct (tryDecodeHeader s1) as [s2 err] eqn:ET. destruct R as (FR & B1 & B2 & OK).
  set (read := (Z.of_N (c + headerBuffered s) - Z.of_N (r_inlen (rd s2)) - Z.of_N (headerBuffered s))%Z).
  assert (Eread : read = (Z.of_N c - Z.of_N (r_inlen (rd s2)))%Z) by (unfold read; lia).
  clearbody read.
  set (b3 := br_set_in (rd s2) (skipn (Z.to_nat read) (r_in (rd s))) (r_inlen (rd s) - Z.to_N read)).
  destruct err; try (apply nd_vacuous; discriminate);
    (destruct ((read <? 0)%Z || (Z.of_N (r_inlen (rd s)) <? read)%Z) eqn:Echk;
     [apply nd_vacuous; discriminate|]);
    try (apply nd_vacuous; discriminate).
  - (* ENone *)
    destruct (OK eq_refl) as (W2 & H02 & HR).
    pose proof W2 as (V1 & _).
    rewrite Estream in HR.
    destruct (hdr_result_ends _ _ _ HR) as (Rf & HE & BL).
    assert (Hlt : (InflateMono.blen Rf < length (bits_of_bytes fin ++ e'))%nat).
    { destruct (Nat.ltb_spec (InflateMono.blen Rf) (length (bits_of_bytes fin ++ e'))) as [Hx|Hx]; [exact Hx|].
      exfalso. apply HN.
      apply (hdr_ends_local (bits_of_bytes fin ++ e') (mkbs (hbits s) p) Rf); [exact HE|exact Hx]. }
    unfold InflateMono.blen in Hlt. rewrite BL in Hlt.
    rewrite !app_length, br_bits_length, bits_of_bytes_length in Hlt. unfold byte in Hlt.
    unfold nd_instance. split; [discriminate|intros _].
    unfold qbytes. cbn [rd set_header set_rd]. unfold b3, br_set_in. cbn [r_len r_inlen].
    assert (Hq : Z.to_N (Z.quot (r_len (rd s2)) 8) + r_inlen (rd s2) <= Z.to_N (Z.quot 0 8) + c).
    { apply qbytes_le; lia. }
    change (Z.quot 0 8) with 0%Z in Hq. lia.
  - (* EEndInput *)
    pose proof (HB s1 s2 W1 H0 ET) as Hb.
    change (r_inlen (rd s1)) with (c + headerBuffered s) in Hb.
    assert (Emin : c = r_inlen (rd s)) by (unfold c, maxHdrSize in *; lia).
    apply nd_end_input; [exact Hok|exact Emin|].
    assert (Elb : lbits s = br_bits (rd s1)).
    { unfold lbits, lrd, br_bits, s1. cbn [rd set_rd br_set_in r_bits r_len r_in].
      unfold fin. rewrite firstn_all2 by lia. reflexivity. }
    rewrite Elb. apply (TN s1 p W1 H0 Hal). rewrite ET. reflexivity.
Qed.

End ReadHeaderNeed.

Theorem readHeader_need : readHeader_need_body'.
Proof.
  intros TN HT HB HD HP HSL HSD s p Hok HS Hal HN.
  pose proof (HT HD HP HSL HSD) as T.
  assert (G : nd_instance s p (readHeader s)).
  { pose proof Hok as (_ & _ & _ & _ & [HphN|HphD] & _).
    - apply readHeader_need_fresh; [exact TN|intros; apply T; assumption|exact HB|exact Hok|exact HphN|exact Hal].
    - apply readHeader_need_staged; [exact TN|intros; apply T; assumption|exact HB|exact Hok|exact HS|exact HphD|exact Hal|exact HN]. }
  unfold nd_instance in G. exact G.
Qed.

Print Assumptions readHeader_need.
