(* GzEngineBuf.v -- proofs of section B of RModel/GzEngineSpec.v (bufio.Reader.Read, ReadByte and
   io.ReadFull of RModel/GzEngine.v on the abstract byte stream), of the checksum / counter
   identities, of the equality of the extracted runs with gzrun / zlrun, and of error stickiness
   of the gzip and zlib readers. *)
From Coq Require Import List NArith ZArith Bool Lia ZifyBool ZifyNat ZifyN.
From Verif Require Import Bits Huffman Inflate InflateSpec.
From Verif Require Import Containers ContainersSpec.
From Verif Require Import Base Engine EngineReset EngineRefineSpecBuf EngineRefineSpecReach
     EngineRefineSpecTop EngineRefineSpecFinal EngineRefineRun GzEngine GzEngineSpec.
From Verif Require Import EngineRefineBuf.
Import ListNotations.
Open Scope N_scope.

(* ------------------------------------------------------------------ helpers *)
Lemma GZB_blen0_nil : forall b, buf_ok b -> blen b = 0 -> bbuf b = [].
Proof.
  intros b (Hlen & _) H0. apply ERB_length_zero_nil. lia.
Qed.

Lemma GZB_src_read_nil : forall t sp, src_read [] t sp = ([], 0, Some (term_berr t), []).
Proof. intros t sp. reflexivity. Qed.

Lemma GZB_clear_ok : forall b, buf_ok b -> buf_ok (b_clear_err b).
Proof.
  intros b (Hlen & Hle & H16 & Hne & Herr).
  unfold buf_ok, b_clear_err. cbn [bsize bbuf blen berr chunks term consumed].
  split; [exact Hlen|]. split; [exact Hle|]. split; [exact H16|]. split; [exact Hne|].
  intros e Hx. discriminate Hx.
Qed.

Lemma GZB_err_stream_nil : forall b e, buf_ok b -> blen b = 0 -> berr b = Some e ->
  bstream b = [] /\ e = term_berr (term b).
Proof.
  intros b e Hok H0 He. pose proof (GZB_blen0_nil b Hok H0) as Hb.
  destruct Hok as (_ & _ & _ & _ & Herr). destruct (Herr e He) as (Hc & Hx).
  unfold bstream. rewrite Hb, Hc. split; [reflexivity|exact Hx].
Qed.

(* ------------------------------------------------------------------ bufio.Reader.Read *)
Theorem bRead_spec : bRead_spec_statement.
Proof.
  unfold bRead_spec_statement. intros b n Hok.
  pose proof Hok as (Hlen & Hle & H16 & Hne & Herr).
  unfold bRead.
  destruct (n =? 0) eqn:En.
  - unfold bBuffered. destruct (0 <? blen b) eqn:Eb.
    + cbv beta iota. unfold lenN. cbn [length app].
      split; [exact Hok|]. split; [reflexivity|]. split; [lia|]. split; [lia|].
      split; [reflexivity|]. split; [reflexivity|]. split; [intros _ Hx; lia|].
      intros x Hx. discriminate Hx.
    + cbv beta iota. unfold lenN. cbn [length app].
      assert (H0 : blen b = 0) by lia.
      split; [apply GZB_clear_ok; exact Hok|].
      split; [reflexivity|]. split; [cbn [b_clear_err consumed]; lia|]. split; [lia|].
      split; [reflexivity|]. split; [reflexivity|]. split; [intros _ Hx; lia|].
      intros x Hx. destruct (GZB_err_stream_nil b x Hok H0 Hx) as (Hs & Hxx).
      split; [reflexivity|]. split; [exact Hs|exact Hxx].
  - assert (Hn : 0 < n) by lia.
    destruct (blen b =? 0) eqn:Eb.
    + assert (H0 : blen b = 0) by lia.
      pose proof (GZB_blen0_nil b Hok H0) as Hbb.
      destruct (berr b) as [e|] eqn:Ee.
      * cbv beta iota. unfold lenN. cbn [length app].
        split; [apply GZB_clear_ok; exact Hok|].
        split; [reflexivity|]. split; [cbn [b_clear_err consumed]; lia|]. split; [lia|].
        split; [reflexivity|]. split; [reflexivity|]. split; [intros Hx; discriminate Hx|].
        intros x Hx. injection Hx as <-.
        destruct (GZB_err_stream_nil b e Hok H0 Ee) as (Hs & Hxx).
        split; [reflexivity|]. split; [exact Hs|exact Hxx].
      * destruct (chunks b) as [|c rest] eqn:Ec.
        { (* source exhausted *)
          assert (Hs : bstream b = []) by (unfold bstream; rewrite Hbb, Ec; reflexivity).
          rewrite !GZB_src_read_nil.
          assert (G : forall cons',
            cons' = consumed b ->
            let '(got, e, b') := ([] : list N, Some (term_berr (term b)),
                                  mkBuf (bsize b) [] 0 None [] (term b) cons') in
            buf_ok b' /\ bstream b = got ++ bstream b' /\ consumed b' = consumed b + lenN got /\
            lenN got <= n /\ bsize b' = bsize b /\ term b' = term b /\
            (e = None -> 0 < n -> got <> []) /\
            (forall x, e = Some x -> got = [] /\ bstream b = [] /\ x = term_berr (term b))).
          { intros cons' ->. unfold lenN, buf_ok, bstream.
            cbn [length app bsize bbuf blen berr chunks term consumed concat].
            split.
            { split; [reflexivity|]. split; [lia|]. split; [exact H16|]. split; [constructor|].
              intros e Hx; discriminate Hx. }
            split; [rewrite Hbb, Ec; reflexivity|]. split; [lia|]. split; [lia|].
            split; [reflexivity|]. split; [reflexivity|]. split; [intros Hx; discriminate Hx|].
            intros x Hx. injection Hx as <-. split; [reflexivity|].
            split; [rewrite Hbb, Ec; reflexivity|reflexivity]. }
          destruct (bsize b <=? n).
          - apply (G (consumed b + 0)). lia.
          - change (0 =? 0) with true. cbv iota. apply (G (consumed b)). reflexivity. }
        { assert (Hc : c <> []) by (inversion Hne; assumption).
          assert (Hrest : Forall (fun c => c <> []) rest) by (inversion Hne; assumption).
          assert (Hs : bstream b = c ++ concat rest)
            by (unfold bstream; rewrite Hbb, Ec; reflexivity).
          destruct (bsize b <=? n) eqn:Esz.
          - destruct (ERB_src_read_cons c rest (term b) n Hc Hn)
              as (got & cs' & Esr & Hgot & Hgl & Hcat & Hfa).
            rewrite Esr. cbv beta iota.
            unfold lenN, buf_ok. rewrite Hs. unfold bstream.
            cbn [length app bsize bbuf blen berr chunks term consumed].
            split.
            { split; [reflexivity|]. split; [lia|]. split; [exact H16|].
              split; [apply Hfa; exact Hrest|]. intros e Hx; discriminate Hx. }
            split; [symmetry; exact Hcat|]. split; [reflexivity|]. split; [exact Hgl|].
            split; [reflexivity|]. split; [reflexivity|]. split; [intros _ _; exact Hgot|].
            intros x Hx; discriminate Hx.
          - assert (Hsp : 0 < bsize b) by lia.
            destruct (ERB_src_read_cons c rest (term b) (bsize b) Hc Hsp)
              as (got & cs' & Esr & Hgot & Hgl & Hcat & Hfa).
            rewrite Esr. cbv beta iota.
            assert (Hpos : 0 < N.of_nat (length got)).
            { destruct (length got) as [|m] eqn:El; [|lia].
              contradiction Hgot. apply ERB_length_zero_nil. exact El. }
            destruct (N.of_nat (length got) =? 0) eqn:Ek; [lia|].
            cbv beta iota. cbn [bsize bbuf blen berr chunks term consumed].
            set (k := N.min n (N.of_nat (length got))).
            assert (Hk1 : 0 < k) by lia.
            assert (Hk2 : k <= N.of_nat (length got)) by lia.
            assert (Hk3 : k <= n) by lia.
            assert (Hfl : length (firstn (N.to_nat k) got) = N.to_nat k)
              by (rewrite firstn_length; lia).
            unfold lenN, buf_ok. rewrite Hs. unfold bstream.
            cbn [bsize bbuf blen berr chunks term consumed].
            rewrite Hfl.
            split.
            { split; [rewrite skipn_length; lia|]. split; [lia|]. split; [exact H16|].
              split; [apply Hfa; exact Hrest|]. intros e Hx; discriminate Hx. }
            split; [rewrite app_assoc, firstn_skipn; symmetry; exact Hcat|].
            split; [lia|]. split; [lia|].
            split; [reflexivity|]. split; [reflexivity|].
            split.
            { intros _ _ Hx. rewrite Hx in Hfl. cbn [length] in Hfl. lia. }
            intros x Hx; discriminate Hx. }
    + (* buffered bytes *)
      assert (Hb : 0 < blen b) by lia.
      set (k := N.min n (blen b)).
      assert (Hk1 : 0 < k) by lia.
      assert (Hk2 : k <= blen b) by lia.
      assert (Hk3 : k <= n) by lia.
      assert (Hfl : length (firstn (N.to_nat k) (bbuf b)) = N.to_nat k)
        by (rewrite firstn_length; lia).
      unfold lenN, buf_ok, bstream.
      cbn [bsize bbuf blen berr chunks term consumed].
      rewrite Hfl.
      split.
      { split; [rewrite skipn_length; lia|]. split; [lia|]. split; [exact H16|].
        split; [exact Hne|exact Herr]. }
      split; [rewrite app_assoc, firstn_skipn; reflexivity|].
      split; [lia|]. split; [lia|].
      split; [reflexivity|]. split; [reflexivity|].
      split.
      { intros _ _ Hx. rewrite Hx in Hfl. cbn [length] in Hfl. lia. }
      intros x Hx; discriminate Hx.
Qed.

(* ------------------------------------------------------------------ ReadByte *)
Definition GZB_rb_post (b : bufrd) (oc : option N) (e : option berror) (b' : bufrd) : Prop :=
  buf_ok b' /\ bsize b' = bsize b /\ term b' = term b /\
  (e = None -> exists c, oc = Some c /\ bstream b = c :: bstream b' /\
                         consumed b' = consumed b + 1) /\
  (forall x, e = Some x -> bstream b = [] /\ bstream b' = [] /\ consumed b' = consumed b /\
                           x = term_berr (term b)).

(* one round suffices when the buffer is non-empty or an error is pending *)
Lemma GZB_readbyte_ready : forall k b, buf_ok b ->
  (blen b <> 0 \/ berr b <> None) ->
  exists oc e b', readbyte_loop (S k) b = Some (oc, e, b') /\ GZB_rb_post b oc e b'.
Proof.
  intros k b Hok Hr.
  pose proof Hok as (Hlen & Hle & H16 & Hne & Herr).
  cbn [readbyte_loop].
  destruct (blen b =? 0) eqn:Eb.
  - assert (H0 : blen b = 0) by lia.
    destruct Hr as [Hr|Hr]; [contradiction Hr; exact H0|].
    destruct (berr b) as [e|] eqn:Ee; [|contradiction Hr; reflexivity].
    destruct (GZB_err_stream_nil b e Hok H0 Ee) as (Hs & Hx).
    eexists _, _, _. split; [reflexivity|].
    unfold GZB_rb_post.
    split; [apply GZB_clear_ok; exact Hok|]. split; [reflexivity|]. split; [reflexivity|].
    split; [intros Hy; discriminate Hy|].
    intros x Hy. injection Hy as <-.
    split; [exact Hs|]. split; [exact Hs|]. split; [reflexivity|exact Hx].
  - destruct (bbuf b) as [|c rest] eqn:Ebb; [cbn [length] in Hlen; lia|].
    eexists _, _, _. split; [reflexivity|].
    unfold GZB_rb_post, buf_ok, bstream. rewrite Ebb.
    cbn [bsize bbuf blen berr chunks term consumed].
    split.
    { cbn [length] in Hlen. split; [lia|]. split; [lia|]. split; [exact H16|].
      split; [exact Hne|exact Herr]. }
    split; [reflexivity|]. split; [reflexivity|].
    split.
    { intros _. exists c. split; [reflexivity|]. split; reflexivity. }
    intros x Hy; discriminate Hy.
Qed.

Theorem bReadByte_spec : bReadByte_spec_statement.
Proof.
  unfold bReadByte_spec_statement. intros b Hok.
  assert (G : exists oc e b', bReadByte b = Some (oc, e, b') /\ GZB_rb_post b oc e b').
  { unfold bReadByte.
    pose proof Hok as (Hlen & Hle & H16 & Hne & Herr).
    destruct (blen b =? 0) eqn:Eb.
    2:{ apply GZB_readbyte_ready; [exact Hok|]. left. lia. }
    destruct (berr b) as [e|] eqn:Ee.
    { apply GZB_readbyte_ready; [exact Hok|]. right. rewrite Ee. discriminate. }
    assert (H0 : blen b = 0) by lia.
    assert (Hlt : blen b < bsize b) by lia.
    destruct (ERB_fill_loop_spec 99 b Hok Ee Hlt) as (Hok' & Hst & Hco & Hsz & Htm & Hprog).
    change (readbyte_loop 3 b) with
      (if blen b =? 0 then
         match berr b with
         | Some e => Some (None, Some e, b_clear_err b)
         | None => match bfill b with None => None | Some b => readbyte_loop 2 b end
         end
       else match bbuf b with
            | c :: rest =>
              Some (Some c, None,
                    mkBuf (bsize b) rest (blen b - 1) (berr b) (chunks b) (term b) (consumed b + 1))
            | [] => None
            end).
    rewrite Eb, Ee. unfold bfill.
    destruct (bsize b <=? blen b) eqn:E4; [lia|].
    change 100%nat with (S 99).
    remember (fill_loop (S 99) b) as b1 eqn:Eb1.
    destruct (GZB_readbyte_ready 1 b1 Hok') as (oc & e & b' & Hrb & Hpost).
    { destruct Hprog as [Hp|Hp]; [left; lia|right; exact Hp]. }
    exists oc, e, b'. split; [exact Hrb|].
    destruct Hpost as (P1 & P2 & P3 & P4 & P5).
    unfold GZB_rb_post.
    split; [exact P1|]. split; [congruence|]. split; [congruence|].
    split.
    { intros He. destruct (P4 He) as (c & Q1 & Q2 & Q3). exists c.
      split; [exact Q1|]. split; congruence. }
    intros x He. destruct (P5 x He) as (Q1 & Q2 & Q3 & Q4).
    split; [congruence|]. split; [exact Q2|]. split; congruence. }
  destruct G as (oc & e & b' & Hrb & P1 & P2 & P3 & P4 & P5).
  exists oc, e, b'. split; [exact Hrb|]. split; [exact P1|]. split; [exact P2|].
  split; [exact P3|]. split; [exact P4|exact P5].
Qed.

(* ------------------------------------------------------------------ io.ReadFull *)
Lemma GZB_bRead : forall b n, buf_ok b ->
  forall got e b', bRead b n = (got, e, b') ->
    buf_ok b' /\ bstream b = got ++ bstream b' /\ consumed b' = consumed b + lenN got /\
    lenN got <= n /\ bsize b' = bsize b /\ term b' = term b /\
    (e = None -> 0 < n -> got <> []) /\
    (forall x, e = Some x -> got = [] /\ bstream b = [] /\ x = term_berr (term b)).
Proof.
  intros b n Hok got e b' H. pose proof (bRead_spec b n Hok) as G. rewrite H in G. exact G.
Qed.

Definition GZB_rf_post (b : bufrd) (need : N) (got : list N) (e : option berror) (b' : bufrd)
  : Prop :=
  buf_ok b' /\ bstream b = got ++ bstream b' /\ consumed b' = consumed b + lenN got /\
  bsize b' = bsize b /\ term b' = term b /\
  (e = None -> lenN got = need) /\
  (forall x, e = Some x -> lenN got < need /\ bstream b' = [] /\ x = term_berr (term b)).

Lemma GZB_readfull_gen : forall fuel b need acc, buf_ok b ->
  (N.to_nat need < fuel)%nat ->
  exists got e b',
    readfull_loop fuel b need acc = Some (rev acc ++ got, e, b') /\ GZB_rf_post b need got e b'.
Proof.
  induction fuel as [|f IH]; intros b need acc Hok Hf; [lia|].
  cbn [readfull_loop].
  destruct (need =? 0) eqn:En.
  - exists [], None, b. split; [rewrite ERB_frev_rev, app_nil_r; reflexivity|].
    unfold GZB_rf_post, lenN. cbn [length app].
    split; [exact Hok|]. split; [reflexivity|]. split; [lia|]. split; [reflexivity|].
    split; [reflexivity|]. split; [intros _; lia|]. intros x Hx; discriminate Hx.
  - destruct (bRead b need) as [[got e] b1] eqn:Er.
    destruct (GZB_bRead b need Hok got e b1 Er) as (R1 & R2 & R3 & R4 & R5 & R6 & R7 & R8).
    destruct e as [x|].
    + destruct (R8 x eq_refl) as (Hg & Hs & Hx). subst got.
      exists [], (Some x), b1.
      split; [cbn [rev_append]; rewrite ERB_frev_rev, app_nil_r; reflexivity|].
      unfold GZB_rf_post, lenN. cbn [length app].
      cbn [app] in R2. unfold lenN in R3. cbn [length] in R3.
      split; [exact R1|]. split; [exact R2|]. split; [exact R3|]. split; [exact R5|].
      split; [exact R6|]. split; [intros Hy; discriminate Hy|].
      intros y Hy. injection Hy as <-. split; [lia|]. split; [congruence|exact Hx].
    + assert (Hne : got <> []) by (apply R7; [reflexivity|lia]).
      assert (Hpos : 0 < lenN got).
      { unfold lenN. destruct got; [contradiction Hne; reflexivity|cbn [length]; lia]. }
      destruct (IH b1 (need - lenN got) (rev_append got acc) R1) as (got2 & e2 & b2 & Hrl & Hp).
      { lia. }
      exists (got ++ got2), e2, b2.
      split.
      { rewrite Hrl. rewrite rev_append_rev, rev_app_distr, rev_involutive.
        rewrite <- !app_assoc. reflexivity. }
      destruct Hp as (P1 & P2 & P3 & P4 & P5 & P6 & P7).
      unfold GZB_rf_post. unfold lenN in *. rewrite app_length.
      split; [exact P1|]. split; [rewrite <- app_assoc, <- P2; exact R2|].
      split; [lia|]. split; [congruence|]. split; [congruence|].
      split; [intros He; specialize (P6 He); lia|].
      intros y Hy. destruct (P7 y Hy) as (Q1 & Q2 & Q3).
      split; [lia|]. split; [exact Q2|]. congruence.
Qed.

Theorem ioReadFull_spec : ioReadFull_spec_statement.
Proof.
  unfold ioReadFull_spec_statement. intros b n Hok Hn.
  unfold ioReadFull.
  remember big_fuel as F eqn:EF.
  assert (HF : (N.to_nat n < F)%nat) by (subst F; unfold big_fuel; lia).
  destruct (GZB_readfull_gen F b n [] Hok HF) as (got & e & b' & Hrl & Hp).
  rewrite Hrl. cbn [rev app].
  destruct Hp as (P1 & P2 & P3 & P4 & P5 & P6 & P7).
  destruct e as [x|].
  - destruct (P7 x eq_refl) as (Q1 & Q2 & Q3).
    split; [exact P1|]. split; [exact P2|]. split; [exact P3|]. split; [exact P4|].
    split; [exact P5|].
    destruct (term b) eqn:Et; cbn [term_berr] in Q3; subst x.
    + destruct got as [|g0 gr].
      * cbn [rres_of_berror].
        split; [right; left; reflexivity|].
        split; [intros Hx; discriminate Hx|].
        split; [intros _; split; [exact Q1|exact Q2]|].
        split; [intros _; split; reflexivity|].
        split; [intros Hx; discriminate Hx|]. intros Hx; discriminate Hx.
      * split; [right; right; left; reflexivity|].
        split; [intros Hx; discriminate Hx|].
        split; [intros _; split; [exact Q1|exact Q2]|].
        split; [intros Hx; discriminate Hx|].
        split; [intros _; split; [discriminate|reflexivity]|]. intros Hx; discriminate Hx.
    + assert (Er : match got with
                   | [] => rres_of_berror BSrc
                   | _ :: _ => rres_of_berror BSrc
                   end = RSrcErr) by (destruct got; reflexivity).
      rewrite Er.
      split; [right; right; right; reflexivity|].
      split; [intros Hx; discriminate Hx|].
      split; [intros _; split; [exact Q1|exact Q2]|].
      split; [intros Hx; discriminate Hx|].
      split; [intros Hx; discriminate Hx|]. intros _; reflexivity.
  - split; [exact P1|]. split; [exact P2|]. split; [exact P3|]. split; [exact P4|].
    split; [exact P5|].
    split; [left; reflexivity|].
    split; [intros _; apply P6; reflexivity|].
    split; [intros Hx; contradiction Hx; reflexivity|].
    split; [intros Hx; discriminate Hx|].
    split; [intros Hx; discriminate Hx|]. intros Hx; discriminate Hx.
Qed.

(* ------------------------------------------------------------------ checksums *)
Theorem crc32_update_app : crc32_update_app_statement.
Proof.
  unfold crc32_update_app_statement. intros c a b. unfold crc32_update.
  rewrite fold_left_app. f_equal. f_equal.
  rewrite N.lxor_assoc, N.lxor_nilpotent, N.lxor_0_r. reflexivity.
Qed.

Theorem adler_update_app : adler_update_app_statement.
Proof.
  unfold adler_update_app_statement. intros s a b. unfold adler_update.
  rewrite fold_left_app. reflexivity.
Qed.

Theorem adler_sum_ok : adler_sum_statement.
Proof.
  unfold adler_sum_statement. intros l. reflexivity.
Qed.

Theorem u32_add : u32_add_statement.
Proof.
  unfold u32_add_statement. intros a n. unfold u32.
  change mask32 with (N.ones 32). rewrite N.land_ones.
  change (2 ^ 32) with 4294967296.
  rewrite N.add_mod_idemp_l by discriminate. reflexivity.
Qed.

(* ------------------------------------------------------------------ the runs *)
Definition GZB_code (br : list N * gres) : list N * N := (fst br, gres_code (snd br)).

Lemma GZB_gz_reads_eq : forall reads z accg,
  fst (gz_reads z reads (map GZB_code accg)) = map GZB_code (fst (gz_reads_g z reads accg)).
Proof.
  induction reads as [|p rest IH]; intros z accg.
  - cbn [gz_reads gz_reads_g fst]. rewrite !ERB_frev_rev. rewrite map_rev. reflexivity.
  - cbn [gz_reads gz_reads_g].
    destruct (gzRead z p) as [[z1 bytes] e].
    change ((bytes, gres_code e) :: map GZB_code accg) with (map GZB_code ((bytes, e) :: accg)).
    apply IH.
Qed.

Lemma GZB_zl_reads_eq : forall reads z accg,
  fst (zl_reads z reads (map GZB_code accg)) = map GZB_code (fst (zl_reads_g z reads accg)).
Proof.
  induction reads as [|p rest IH]; intros z accg.
  - cbn [zl_reads zl_reads_g fst]. rewrite !ERB_frev_rev. rewrite map_rev. reflexivity.
  - cbn [zl_reads zl_reads_g].
    destruct (zlRead z p) as [[z1 bytes] e].
    change ((bytes, gres_code e) :: map GZB_code accg) with (map GZB_code ((bytes, e) :: accg)).
    apply IH.
Qed.

Theorem gzrun_obs_eq : gzrun_obs_eq_statement.
Proof.
  unfold gzrun_obs_eq_statement. intros bufsize cs te multi reads.
  unfold gzrun_obs, gzrun, mkbuf_obs.
  destruct (gzNewReader (mkbufrd bufsize cs (term_of te))) as [z e].
  destruct (negb (gnil e)).
  - split; reflexivity.
  - pose proof (GZB_gz_reads_eq reads (gzMultistream z multi) []) as H.
    cbn [map] in H.
    destruct (gz_reads (gzMultistream z multi) reads []) as [l z'].
    cbn [fst] in H. split; [reflexivity|]. rewrite H. reflexivity.
Qed.

Theorem zlrun_obs_eq : zlrun_obs_eq_statement.
Proof.
  unfold zlrun_obs_eq_statement. intros bufsize cs te dict reads.
  unfold zlrun_obs, zlrun, mkbuf_obs.
  destruct (zlNewReaderDict (mkbufrd bufsize cs (term_of te))
              match dict with Some d => d | None => [] end) as [z e].
  destruct (negb (gnil e)).
  - split; reflexivity.
  - pose proof (GZB_zl_reads_eq reads z []) as H.
    cbn [map] in H.
    destruct (zl_reads z reads []) as [l z'].
    cbn [fst] in H. split; [reflexivity|]. rewrite H. reflexivity.
Qed.

(* ------------------------------------------------------------------ stickiness *)
Lemma GZB_gnil_ok : forall e, gnil e = true -> e = GR ROk.
Proof. intros [[]| | | | |] H; try discriminate H. reflexivity. Qed.

(* every return path of Read's body leaves z.err equal to the error returned *)
Lemma GZB_gzRead_loop_err : forall fuel z p z' bytes e,
  gzRead_loop fuel z p = (z', bytes, e) -> z_err z' = e.
Proof.
  induction fuel as [|k IH]; intros z p z' bytes e H.
  - cbn [gzRead_loop] in H. injection H as <- _ <-. reflexivity.
  - cbn [gzRead_loop] in H.
    destruct (z_dec z) as [d|].
    2:{ injection H as <- _ <-. reflexivity. }
    destruct (dRead (set_rBuf d (z_r z)) p) as [[d1 bs] r].
    cbv zeta in H.
    assert (Hdef : forall zz, (zz, bs, GR r) = (z', bytes, e) -> z_err zz = GR r -> z_err z' = e).
    { intros zz Hx Hy. injection Hx as <- _ <-. exact Hy. }
    destruct r; try (eapply Hdef; [exact H|reflexivity]).
    (* REOF *)
    clear Hdef.
    match type of H with context [ioReadFull ?b ?n] =>
      destruct (ioReadFull b n) as [[buf e1] b1] end.
    assert (Hdef : forall zz ee, (gz_set_err zz ee, bs, ee) = (z', bytes, e) -> z_err z' = e).
    { intros zz ee Hx. injection Hx as <- _ <-. reflexivity. }
    destruct e1; try (eapply Hdef; exact H).
    clear Hdef.
    match type of H with (if ?c then _ else _) = _ => destruct c end.
    { injection H as <- _ <-. reflexivity. }
    match type of H with (if ?c then _ else _) = _ => destruct c end.
    { injection H as <- _ <-. reflexivity. }
    match type of H with context [gzReadHeader ?zz] =>
      destruct (gzReadHeader zz) as [[z2 hdr] e2] end.
    destruct (gnil e2) eqn:Eg; cbn [negb] in H.
    + destruct bs as [|x bs'].
      * eapply IH. exact H.
      * injection H as <- _ <-. cbn [gz_set_err z_err]. apply GZB_gnil_ok. exact Eg.
    + injection H as <- _ <-. reflexivity.
Qed.

Lemma GZB_gz_sticky1 : forall z p z' bytes e, gzRead z p = (z', bytes, e) -> z_err z' = e.
Proof.
  intros z p z' bytes e H. unfold gzRead in H.
  destruct (negb (gnil (z_err z))).
  - injection H as <- _ <-. reflexivity.
  - eapply GZB_gzRead_loop_err. exact H.
Qed.

Lemma GZB_gz_sticky2 : forall z p, gnil (z_err z) = false -> gzRead z p = (z, [], z_err z).
Proof. intros z p H. unfold gzRead. rewrite H. reflexivity. Qed.

Lemma GZB_gz_sticky3 : forall reads z acc, gnil (z_err z) = false ->
  Forall (fun br => br = ([], z_err z)) acc ->
  Forall (fun br => br = ([], z_err z)) (fst (gz_reads_g z reads acc)).
Proof.
  induction reads as [|p rest IH]; intros z acc Hz Hacc.
  - cbn [gz_reads_g fst]. rewrite ERB_frev_rev. apply Forall_rev. exact Hacc.
  - cbn [gz_reads_g]. rewrite GZB_gz_sticky2 by exact Hz.
    apply IH; [exact Hz|]. constructor; [reflexivity|exact Hacc].
Qed.

Theorem gz_sticky : gz_sticky_statement.
Proof.
  unfold gz_sticky_statement. split; [|split].
  - intros z p z' bytes e H _. eapply GZB_gz_sticky1. exact H.
  - exact GZB_gz_sticky2.
  - intros z p z' bytes e reads H He.
    pose proof (GZB_gz_sticky1 z p z' bytes e H) as Hz. subst e.
    apply GZB_gz_sticky3; [exact He|constructor].
Qed.

Lemma GZB_gisEOF_eof : forall e, gisEOF e = true -> e = GR REOF.
Proof. intros [[]| | | | |] H; try discriminate H. reflexivity. Qed.

Lemma GZB_zl_sticky1_fs : forall z p, zl_err (fst (fst (zlRead z p))) = snd (zlRead z p).
Proof.
  intros z p. unfold zlRead.
  destruct (negb (gnil (zl_err z))); [reflexivity|].
  destruct (zl_decRead z p) as [[z1 bs] e1].
  cbv zeta.
  destruct (gisEOF e1) eqn:Eg; cbn [negb]; [|reflexivity].
  apply GZB_gisEOF_eof in Eg. subst e1.
  match goal with |- context [ioReadFull ?b ?n] =>
    destruct (ioReadFull b n) as [[buf e2] b2] end.
  destruct e2; try reflexivity.
  match goal with |- context [if ?c then _ else _] => destruct c end; reflexivity.
Qed.

Lemma GZB_zl_sticky1 : forall z p z' bytes e, zlRead z p = (z', bytes, e) -> zl_err z' = e.
Proof.
  intros z p z' bytes e H. pose proof (GZB_zl_sticky1_fs z p) as G.
  rewrite H in G. exact G.
Qed.

Lemma GZB_zl_sticky2 : forall z p, gnil (zl_err z) = false -> zlRead z p = (z, [], zl_err z).
Proof. intros z p H. unfold zlRead. rewrite H. reflexivity. Qed.

Lemma GZB_zl_sticky3 : forall reads z acc, gnil (zl_err z) = false ->
  Forall (fun br => br = ([], zl_err z)) acc ->
  Forall (fun br => br = ([], zl_err z)) (fst (zl_reads_g z reads acc)).
Proof.
  induction reads as [|p rest IH]; intros z acc Hz Hacc.
  - cbn [zl_reads_g fst]. rewrite ERB_frev_rev. apply Forall_rev. exact Hacc.
  - cbn [zl_reads_g]. rewrite GZB_zl_sticky2 by exact Hz.
    apply IH; [exact Hz|]. constructor; [reflexivity|exact Hacc].
Qed.

Theorem zl_sticky : zl_sticky_statement.
Proof.
  unfold zl_sticky_statement. split; [|split].
  - intros z p z' bytes e H _. eapply GZB_zl_sticky1. exact H.
  - exact GZB_zl_sticky2.
  - intros z p z' bytes e reads H He.
    pose proof (GZB_zl_sticky1 z p z' bytes e H) as Hz. subst e.
    apply GZB_zl_sticky3; [exact He|constructor].
Qed.

Print Assumptions bRead_spec.
Print Assumptions bReadByte_spec.
Print Assumptions ioReadFull_spec.
Print Assumptions crc32_update_app.
Print Assumptions adler_update_app.
Print Assumptions adler_sum_ok.
Print Assumptions u32_add.
Print Assumptions gzrun_obs_eq.
Print Assumptions zlrun_obs_eq.
Print Assumptions gz_sticky.
Print Assumptions zl_sticky.
