(* EngineSafetySmall.v -- safety of the small-table builder of RModel/Engine.v:
   setCodes, gen_small (GenerateForHeader / genForDists) and codeLenCodes. *)
From Verif Require Import Engine EngineTables.
From Verif Require Import Base EngineSafetyBase EngineSafetyBits EngineSafetyInv.
From Coq Require Import List NArith ZArith Bool Lia ZifyBool ZifyNat ZifyN.
Import ListNotations.
Open Scope N_scope.

(* ---------------------------------------------------------------- finite checks *)
Fixpoint allb (n : nat) (f : N -> bool) : bool :=
  match n with O => true | S k => f (N.of_nat k) && allb k f end.

Lemma allb_spec : forall n f, allb n f = true -> forall i, i < N.of_nat n -> f i = true.
Proof.
  induction n as [|k IH]; intros f H i Hi.
  - cbn in Hi. lia.
  - cbn [allb] in H. apply andb_prop in H. destruct H as [H1 H2].
    destruct (N.eq_dec i (N.of_nat k)) as [->|Hne]; [exact H1|].
    apply IH; [exact H2|lia].
Qed.

Lemma allb2_spec : forall n m (f : N -> N -> bool),
  allb n (fun a => allb m (fun b => f a b)) = true ->
  forall a b, a < N.of_nat n -> b < N.of_nat m -> f a b = true.
Proof.
  intros n m f H a b Ha Hb.
  pose proof (allb_spec n _ H a Ha) as H1. cbv beta in H1.
  exact (allb_spec m _ H1 b Hb).
Qed.

(* ---------------------------------------------------------------- huffCode fields *)
Lemma hc_set_lt : forall code len, hc_set code len < 4294967296.
Proof. intros. unfold hc_set. apply u32_lt. Qed.

Lemma hc_set_len : forall code len, code < 16777216 -> len < 256 -> hc_len (hc_set code len) = len.
Proof.
  intros code len Hc Hl. unfold hc_set, hc_len.
  rewrite u32_small.
  - apply shiftr_lor_shiftl. change (2 ^ 24) with 16777216. exact Hc.
  - change 4294967296 with (2 ^ 32). apply lor_lt_pow2.
    + change (2 ^ 32) with 4294967296. lia.
    + change 32 with (8 + 24). apply shiftl_lt_pow2. change (2 ^ 8) with 256. exact Hl.
Qed.

Lemma hc_setcode_spec : forall h c, h < 4294967296 ->
  hc_setcode h c < 4294967296 /\ hc_len (hc_setcode h c) = hc_len h.
Proof.
  intros h c Hh. unfold hc_setcode, hc_len. split.
  - change 4294967296 with (2 ^ 32). apply lor_lt_pow2.
    + apply N.le_lt_trans with h; [apply land_le_l|exact Hh].
    + apply N.le_lt_trans with 16777215; [apply land_le_r|reflexivity].
  - rewrite N.shiftr_lor, N.shiftr_land.
    change (N.shiftr 4278190080 24) with (N.ones 8).
    assert (H0 : N.shiftr (N.land c 16777215) 24 = 0).
    { apply N.shiftr_eq_0_iff.
      destruct (N.eq_dec (N.land c 16777215) 0) as [E|E]; [left; exact E|right].
      split; [lia|]. apply N.log2_lt_pow2; [lia|].
      apply N.le_lt_trans with 16777215; [apply land_le_r|reflexivity]. }
    rewrite H0, N.lor_0_r, N.land_ones. apply N.mod_small.
    change (2 ^ 8) with (2 ^ (32 - 24)). apply shiftr_lt.
    change (2 ^ (24 + (32 - 24))) with 4294967296. exact Hh.
Qed.

Lemma rev_bits_lt : forall n x acc, rev_bits n x acc < (acc + 1) * 2 ^ N.of_nat n.
Proof.
  induction n as [|k IH]; intros x acc.
  - cbn [rev_bits]. change (2 ^ N.of_nat 0) with 1. lia.
  - cbn [rev_bits]. rewrite Nat2N.inj_succ, N.pow_succ_r'.
    specialize (IH (N.shiftr x 1) (2 * acc + N.land x 1)).
    pose proof (land_le_r x 1) as Hb.
    set (p := 2 ^ N.of_nat k) in *. set (b := N.land x 1) in *.
    set (r := rev_bits k (N.shiftr x 1) (2 * acc + b)) in *.
    nia.
Qed.

Lemma bitReverse2_lt : forall code len, bitReverse2 code len < 65536.
Proof.
  intros code len. unfold bitReverse2.
  apply N.le_lt_trans with (rev_bits 16 (u16 code) 0).
  - rewrite N.shiftr_div_pow2. apply N.div_le_upper_bound; [apply N.pow_nonzero; lia|].
    set (r := rev_bits 16 (u16 code) 0).
    assert (1 <= 2 ^ u8 (subw 8 16 (u8 len))).
    { pose proof (N.pow_nonzero 2 (u8 (subw 8 16 (u8 len))) ltac:(lia)) as Hp. lia. }
    nia.
  - pose proof (rev_bits_lt 16 (u16 code) 0) as H.
    change ((0 + 1) * 2 ^ N.of_nat 16) with 65536 in H. exact H.
Qed.

(* ---------------------------------------------------------------- setCodes *)
Theorem setCodes_spec : forall table off n count t bad,
  setCodes table off n count = (t, bad) -> huff_ok table ->
  huff_ok t /\ (forall i, hc_len (aget t i) = hc_len (aget table i)).
Proof.
  intros table off n count t bad H Hok. unfold setCodes in H.
  match type of H with (if ?c then _ else _) = _ => destruct c end.
  - inversion H; subst. split; [exact Hok|reflexivity].
  - match type of H with (let '(_, _) := forN _ _ ?f ?s in _) = _ =>
      pose proof (forN_inv _ (fun st : arr * arr =>
         huff_ok (fst st) /\ (forall i, hc_len (aget (fst st) i) = hc_len (aget table i))) f 0 n s) as HP;
      destruct (forN 0 n f s) as [t' nc'] eqn:E
    end.
    inversion H; subst t' bad. cbn [fst] in HP. apply HP; clear HP.
    + split; [exact Hok|reflexivity].
    + intros j [t1 nc1] Hj [I1 I2]. cbn [fst] in *.
      destruct (hc_len (aget t1 (off + j)) =? 0) eqn:E0.
      * cbn [fst]. split; assumption.
      * cbn [fst].
        set (len := hc_len (aget t1 (off + j))) in *.
        assert (Hlen : len <= 15) by (apply (I1 (off + j))).
        pose proof (bitReverse2_lt (u16 (aget nc1 len)) len) as Hbr.
        set (code := bitReverse2 (u16 (aget nc1 len)) len) in *.
        assert (Hl : hc_len (hc_set code len) = len) by (apply hc_set_len; lia).
        split.
        -- intros i. rewrite aget_aset. destruct (i =? off + j).
           ++ split; [apply hc_set_lt|rewrite Hl; exact Hlen].
           ++ apply I1.
        -- intros i. rewrite aget_aset. destruct (N.eqb_spec i (off + j)) as [->|Hne].
           ++ rewrite Hl. unfold len. apply I2.
           ++ apply I2.
Qed.

(* ---------------------------------------------------------------- gen_small, decomposed *)
Definition gs_ct (count : arr) : arr :=
  forN 2 17 (fun i c => aset c i (u32 (aget c (i - 1) + aget count (i - 1)))) aempty.

Definition gs_sort (codes : arr) (ncodes : N) (ct : arr) : arr * arr * bool :=
  forN 0 ncodes (fun i (st : arr * arr * bool) =>
    let '(cl, ctt, pan) := st in
    let codeLength := hc_len (aget codes i) in
    if codeLength =? 0 then st
    else
      let ins := aget ctt codeLength in
      if 32 <=? ins then (cl, ctt, true)
      else (aset cl ins i, aset ctt codeLength (ins + 1), pan))
    (aempty, ct, false).

Definition gs_wr (hdr : bool) (codes cl : arr) (maxSymbol : N) (k : N) (t : arr) : arr :=
  let idx := aget cl k in
  let h := aget codes idx in
  if maxSymbol <=? idx then
    (if hdr then t else aset t (hc_code h) (u16 (hc_len h)))
  else if hdr then
    aset t (hc_code h) (u16 (N.lor idx (N.shiftl (hc_len h) 11)))
  else
    aset t (hc_code h)
         (u16 (N.lor (N.lor idx (N.shiftl (aget rfc_dist_extra idx) 5))
                     (N.shiftl (hc_len h) 11))).

Definition gs_short (hdr : bool) (short codes cl ct : arr) (maxSymbol lastLength copySize : N)
  : arr * N :=
  forN lastLength 11 (fun ll (st : arr * N) =>
    let '(t, cs) := st in
    let t := forN 0 (N.min cs (1024 - cs)) (fun i t => aset t (cs + i) (aget t i)) t in
    let t := forN (aget ct ll) (aget ct (ll + 1)) (gs_wr hdr codes cl maxSymbol) t in
    (t, cs * 2))
    (short, copySize).

Definition gs_group (hdr : bool) (cl codes : arr) (longCodeStart longCodeLength i firstBits : N)
           (init : N * list N) : N * list N :=
  forN (i + 1) longCodeLength (fun j (a : N * list N) =>
    let '(ml, tl) := a in
    let lj := aget cl (longCodeStart + j) in
    if N.land (hc_code (aget codes lj)) 1023 =? firstBits then
      let lenj := hc_len (aget codes lj) in
      ((if hdr then (if ml <? lenj then lenj else ml) else lenj), lj :: tl)
    else a) init.

Definition gs_fill (hdr : bool) (maxSymbol lcl grp : N) (a : arr * arr * bool) (sym : N)
  : arr * arr * bool :=
  let '(long, codes, pan) := a in
  let codeLength := hc_len (aget codes sym) in
  let longBits := u16 (N.shiftr (hc_code (aget codes sym)) 10) in
  let minInc := shl16 1 (codeLength - 10) in
  let entry :=
    if hdr then u16 (N.lor sym (N.shiftl codeLength 10))
    else if maxSymbol <? sym then u16 codeLength
    else u16 (N.lor (N.lor sym (N.shiftl (aget rfc_dist_extra sym) 5))
                    (N.shiftl codeLength 10)) in
  let '(long, pan) := long_fill small_fuel 80 mask16 long lcl longBits grp minInc entry pan in
  (long, aset codes sym (hc_setcode (aget codes sym) 0xFFFF), pan).

Definition gs_long_step (hdr : bool) (cl : arr) (maxSymbol longCodeStart longCodeLength : N)
           (i : N) (st : arr * arr * arr * N * ierr) : arr * arr * arr * N * ierr :=
  let '(short, long, codes, lcl, pan) := st in
  if negb (ierr_eqb pan ENone) then st
  else if 32 <=? longCodeStart + i then (short, long, codes, lcl, EPanic)
  else
    let li := aget cl (longCodeStart + i) in
    if hc_code (aget codes li) =? 0xFFFF then st
    else
      let maxLength0 := hc_len (aget codes li) in
      let firstBits := N.land (hc_code (aget codes li)) 1023 in
      let '(maxLength, tempRev) :=
        gs_group hdr cl codes longCodeStart longCodeLength i firstBits (maxLength0, [li]) in
      let temp := frev tempRev in
      let grp := N.shiftl 1 (maxLength - 10) in
      let clrEnd := lcl + (if hdr then 2 * grp else grp) in
      if negb hdr && (80 <? lcl + grp) then (short, long, codes, lcl, EInvalidBlock)
      else if 80 <? clrEnd then (short, long, codes, lcl, EPanic)
      else
        let long := forN lcl clrEnd (fun x t => aset t x 0) long in
        let '(long, codes, panb) :=
          fold_left (gs_fill hdr maxSymbol lcl grp) temp (long, codes, false) in
        let short := aset short firstBits
                       (u16 (N.lor (N.lor lcl (N.shiftl maxLength 11)) smallFlagBit)) in
        (short, long, codes, lcl + grp, if panb then EPanic else ENone).

Definition gs_long (hdr : bool) (short long codes cl : arr) (maxSymbol longCodeStart longCodeLength : N)
  : arr * arr * arr * N * ierr :=
  forN 0 longCodeLength (gs_long_step hdr cl maxSymbol longCodeStart longCodeLength)
       (short, long, codes, 0, ENone).

Lemma gen_small_eq : forall hdr short long codes ncodes count maxSymbol,
  gen_small hdr short long codes ncodes count maxSymbol =
  let ct := gs_ct count in
  let codeListLen := aget ct 16 in
  if codeListLen =? 0 then (aempty, long, codes, ENone)
  else
    let '(cl, _, pan0) := gs_sort codes ncodes ct in
    if pan0 then (short, long, codes, EPanic)
    else
      let lastLength0 := hc_len (aget codes (aget cl 0)) in
      let lastLength := if 10 <? lastLength0 then 11 else lastLength0 in
      let copySize := if lastLength =? 0 then 0 else N.shiftl 1 (lastLength - 1) in
      let short := forN 0 copySize (fun i t => aset t i 0) short in
      let '(short, _) := gs_short hdr short codes cl ct maxSymbol lastLength copySize in
      let longCodeStart := aget ct 11 in
      let longCodeLength := sub32 codeListLen longCodeStart in
      let '(short, long, codes, _, pan) :=
        gs_long hdr short long codes cl maxSymbol longCodeStart longCodeLength in
      (short, long, codes, pan).
Proof.
  intros. cbv beta delta [gen_small gs_ct gs_sort gs_short gs_long gs_long_step gs_group gs_fill gs_wr].
  reflexivity.
Qed.

(* ---------------------------------------------------------------- the start offsets ct *)
(* count[1] + ... + count[n] *)
Fixpoint psum (c : arr) (n : nat) : N :=
  match n with O => 0 | S k => psum c k + aget c (N.of_nat (S k)) end.
(* the value of ct[k]: count[1] + ... + count[k-1] *)
Definition ctv (c : arr) (k : N) : N := psum c (N.to_nat (k - 1)).

Lemma psum_mono : forall c n m, (n <= m)%nat -> psum c n <= psum c m.
Proof.
  intros c n m H. induction H as [|m H IH]; [lia|]. cbn [psum]. lia.
Qed.

Lemma psum_15 : forall c, psum c 15 = sum15 c.
Proof. intros c. unfold sum15. cbn [psum]. cbn [N.of_nat Pos.of_succ_nat Pos.succ]. lia. Qed.

Lemma ctv_0 : forall c, ctv c 0 = 0.
Proof. reflexivity. Qed.
Lemma ctv_1 : forall c, ctv c 1 = 0.
Proof. reflexivity. Qed.

Lemma ctv_step : forall c l, 1 <= l -> ctv c (l + 1) = ctv c l + aget c l.
Proof.
  intros c l Hl. unfold ctv.
  replace (N.to_nat (l + 1 - 1)) with (S (N.to_nat (l - 1))) by lia.
  cbn [psum]. replace (N.of_nat (S (N.to_nat (l - 1)))) with l by lia. reflexivity.
Qed.

Lemma ctv_mono : forall c a b, a <= b -> ctv c a <= ctv c b.
Proof. intros c a b H. unfold ctv. apply psum_mono. lia. Qed.

Lemma ctv_16 : forall c, ctv c 16 = sum15 c.
Proof. intros c. unfold ctv. change (N.to_nat (16 - 1)) with 15%nat. apply psum_15. Qed.

Lemma ctv_le_sum : forall c k, k <= 16 -> ctv c k <= sum15 c.
Proof. intros c k H. rewrite <- ctv_16. apply ctv_mono. exact H. Qed.

Lemma gs_ct_spec : forall count, sum15 count <= 30 ->
  forall k, k <= 16 -> aget (gs_ct count) k = ctv count k.
Proof.
  intros count Hs. unfold gs_ct.
  assert (H : forall k, k < 17 ->
     aget (forN 2 17 (fun i c => aset c i (u32 (aget c (i - 1) + aget count (i - 1)))) aempty) k
     = ctv count k).
  { apply (forN_ind arr (fun j c => forall k, k < j -> aget c k = ctv count k)); [lia| |].
    - intros k Hk. rewrite aget_empty. unfold ctv.
      replace (N.to_nat (k - 1)) with 0%nat by lia. reflexivity.
    - intros j c Hj IH k Hk. rewrite aget_aset.
      destruct (N.eqb_spec k j) as [->|Hne].
      + rewrite (IH (j - 1)) by lia.
        replace j with ((j - 1) + 1) at 3 by lia.
        rewrite ctv_step by lia.
        apply u32_small.
        pose proof (ctv_le_sum count (j - 1 + 1) ltac:(lia)) as Hb.
        rewrite ctv_step in Hb by lia. lia.
      + apply IH. lia. }
  intros k Hk. apply H. lia.
Qed.

(* ---------------------------------------------------------------- count_len *)
Lemma count_len_mono : forall h base n m l, (n <= m)%nat -> count_len h base n l <= count_len h base m l.
Proof.
  intros h base n m l H. induction H as [|m H IH]; [lia|]. cbn [count_len]. lia.
Qed.

Lemma count_len_ext : forall h h' base n l,
  (forall i, hc_len (aget h' i) = hc_len (aget h i)) ->
  count_len h' base n l = count_len h base n l.
Proof.
  intros h h' base n l H. induction n as [|k IH]; [reflexivity|].
  cbn [count_len]. rewrite IH, H. reflexivity.
Qed.

Lemma count_len_succ : forall h j l,
  count_len h 0 (N.to_nat (j + 1)) l =
  count_len h 0 (N.to_nat j) l + (if hc_len (aget h j) =? l then 1 else 0).
Proof.
  intros h j l. replace (N.to_nat (j + 1)) with (S (N.to_nat j)) by lia.
  cbn [count_len]. replace (0 + N.of_nat (N.to_nat j)) with j by lia. reflexivity.
Qed.

(* ---------------------------------------------------------------- the counting sort *)
(* every slot of the length-l segment of the code list holds a code of length l *)
Definition cl_ok (codes count cl : arr) (ncodes : N) : Prop :=
  forall l k, 1 <= l <= 15 -> ctv count l <= k < ctv count (l + 1) ->
    aget cl k < ncodes /\ hc_len (aget codes (aget cl k)) = l.

Lemma gs_sort_spec : forall codes count ncodes ct,
  small_pre codes count ncodes ->
  (forall k, k <= 16 -> aget ct k = ctv count k) ->
  exists cl ctt, gs_sort codes ncodes ct = (cl, ctt, false) /\ cl_ok codes count cl ncodes.
Proof.
  intros codes count ncodes ct (P1 & P2 & P3 & P4) Hct.
  unfold gs_sort.
  match goal with |- exists cl ctt, forN 0 ncodes ?f ?s = _ /\ _ =>
    pose proof (forN_ind _ (fun j (st : arr * arr * bool) =>
      let '(cl, ctt, pan) := st in
      pan = false /\
      (forall l, 1 <= l <= 15 -> aget ctt l = ctv count l + count_len codes 0 (N.to_nat j) l) /\
      (forall l k, 1 <= l <= 15 -> ctv count l <= k < aget ctt l ->
         aget cl k < j /\ hc_len (aget codes (aget cl k)) = l)) f 0 ncodes s) as HI;
    destruct (forN 0 ncodes f s) as [[cl ctt] pan]
  end.
  assert (Hbound : forall j l, j <= ncodes -> 1 <= l <= 15 ->
            ctv count l + count_len codes 0 (N.to_nat j) l <= ctv count (l + 1)).
  { intros j l Hj Hl. rewrite ctv_step by lia. rewrite (P3 l Hl).
    pose proof (count_len_mono codes 0 (N.to_nat j) (N.to_nat ncodes) l ltac:(lia)). lia. }
  destruct HI as (I1 & I2 & I3).
  - lia.
  - split; [reflexivity|]. split.
    + intros l Hl. change (N.to_nat 0) with 0%nat. cbn [count_len]. rewrite Hct by lia. lia.
    + intros l k Hl Hk. rewrite Hct in Hk by lia. lia.
  - intros j [[cl1 ctt1] pan1] Hj (J1 & J2 & J3).
    destruct (hc_len (aget codes j) =? 0) eqn:E0.
    + split; [exact J1|]. split.
      * intros l Hl. rewrite count_len_succ, (J2 l Hl).
        destruct (N.eqb_spec (hc_len (aget codes j)) l); lia.
      * intros l k Hl Hk. destruct (J3 l k Hl Hk) as [A B]. split; [lia|exact B].
    + set (len := hc_len (aget codes j)) in *.
      assert (Hlen : 1 <= len <= 15) by (pose proof (P1 j); fold len in H; lia).
      pose proof (J2 len Hlen) as Hins.
      pose proof (Hbound (j + 1) len ltac:(lia) Hlen) as Hb1.
      rewrite count_len_succ in Hb1. fold len in Hb1. rewrite N.eqb_refl in Hb1.
      pose proof (ctv_le_sum count (len + 1) ltac:(lia)) as Hb2.
      destruct (32 <=? aget ctt1 len) eqn:E32; [lia|].
      split; [exact J1|]. split.
      * intros l Hl. rewrite count_len_succ. fold len. rewrite aget_aset.
        destruct (N.eqb_spec l len) as [->|Hne].
        -- rewrite N.eqb_refl. lia.
        -- rewrite (J2 l Hl). destruct (N.eqb_spec len l); lia.
      * intros l k Hl Hk. rewrite aget_aset in Hk.
        destruct (N.eqb_spec l len) as [->|Hne].
        -- rewrite aget_aset. destruct (N.eqb_spec k (aget ctt1 len)) as [->|Hk2].
           ++ split; [lia|reflexivity].
           ++ destruct (J3 len k Hl ltac:(lia)) as [A B]. split; [lia|exact B].
        -- pose proof (Hbound j l ltac:(lia) Hl) as Hb3. rewrite <- (J2 l Hl) in Hb3.
           assert (Hk2 : k <> aget ctt1 len).
           { destruct (N.lt_ge_cases l len) as [Hlt|Hge].
             - pose proof (ctv_mono count (l + 1) len ltac:(lia)). lia.
             - pose proof (ctv_mono count (len + 1) l ltac:(lia)). lia. }
           rewrite aget_aset_other by exact Hk2.
           destruct (J3 l k Hl Hk) as [A B]. split; [lia|exact B].
  - exists cl, ctt. subst pan. split; [reflexivity|].
    intros l k Hl Hk. apply I3; [exact Hl|].
    rewrite (I2 l Hl), <- (P3 l Hl), <- ctv_step by lia. exact Hk.
Qed.

(* ---------------------------------------------------------------- the short table *)
Lemma gs_short_inv : forall (P : N -> Prop) hdr short codes cl ct maxSymbol lastLength copySize,
  all_entries P short ->
  (forall ll k t, ll < 11 -> aget ct ll <= k < aget ct (ll + 1) ->
     all_entries P t -> all_entries P (gs_wr hdr codes cl maxSymbol k t)) ->
  all_entries P (fst (gs_short hdr short codes cl ct maxSymbol lastLength copySize)).
Proof.
  intros P hdr short codes cl ct maxSymbol lastLength copySize Hs Hw.
  unfold gs_short.
  apply (forN_inv _ (fun st : arr * N => all_entries P (fst st))); [exact Hs|].
  intros ll [t cs] Hll Ht. cbn [fst] in *.
  apply (forN_inv _ (all_entries P)).
  - apply (forN_inv _ (all_entries P)); [exact Ht|].
    intros i x _ Hx. apply all_entries_aset; [exact Hx|apply Hx].
  - intros k x Hk Hx. apply (Hw ll); [lia|exact Hk|exact Hx].
Qed.

Lemma zero_fill_inv : forall (P : N -> Prop) lo hi t,
  P 0 -> all_entries P t -> all_entries P (forN lo hi (fun i t => aset t i 0) t).
Proof.
  intros P lo hi t H0 Ht. apply (forN_inv _ (all_entries P)); [exact Ht|].
  intros i x _ Hx. apply all_entries_aset; assumption.
Qed.

(* entries, checked exhaustively *)
Definition clc_entry_okb (e : N) : bool := (e <? 32768) && (N.land e 1024 =? 0).
Lemma clc_entry_okb_ok : forall e, clc_entry_okb e = true -> clc_entry_ok e.
Proof. intros e H. unfold clc_entry_okb in H. unfold clc_entry_ok. lia. Qed.

Lemma hdr_entry_ok : forall idx len, idx < 32 -> len <= 15 ->
  clc_entry_ok (u16 (N.lor idx (N.shiftl len 11))).
Proof.
  intros idx len Hi Hl. apply clc_entry_okb_ok.
  apply (allb2_spec 32 16 (fun idx len => clc_entry_okb (u16 (N.lor idx (N.shiftl len 11)))));
    [vm_compute; reflexivity| |]; cbn; lia.
Qed.

Lemma dist_entry_ok : forall idx len, idx < 30 -> 1 <= len <= 15 ->
  dist_short_ok (u16 (N.lor (N.lor idx (N.shiftl (aget rfc_dist_extra idx) 5)) (N.shiftl len 11))).
Proof.
  intros idx len Hi Hl. apply dist_short_okb_ok.
  pose proof (allb2_spec 30 16 (fun idx len => (len =? 0) || dist_short_okb
     (u16 (N.lor (N.lor idx (N.shiftl (aget rfc_dist_extra idx) 5)) (N.shiftl len 11))))
     ltac:(vm_compute; reflexivity) idx len ltac:(cbn; lia) ltac:(cbn; lia)) as H.
  cbv beta in H. apply orb_prop in H. destruct H as [H|H]; [lia|exact H].
Qed.

Lemma dist_small_ok : forall e, e <= 15 -> dist_short_ok (u16 e) /\ dist_long_ok (u16 e).
Proof.
  intros e He.
  pose proof (allb_spec 16 (fun e => dist_short_okb (u16 e) && dist_long_okb (u16 e))
                ltac:(vm_compute; reflexivity) e ltac:(cbn; lia)) as H.
  cbv beta in H. apply andb_prop in H. destruct H as [H1 H2].
  split; [apply dist_short_okb_ok|apply dist_long_okb_ok]; assumption.
Qed.

Lemma dist_long_entry_ok : forall sym len, sym < 30 -> 1 <= len <= 15 ->
  dist_long_ok (u16 (N.lor (N.lor sym (N.shiftl (aget rfc_dist_extra sym) 5)) (N.shiftl len 10))).
Proof.
  intros sym len Hi Hl. apply dist_long_okb_ok.
  pose proof (allb2_spec 30 16 (fun sym len => (len =? 0) || dist_long_okb
     (u16 (N.lor (N.lor sym (N.shiftl (aget rfc_dist_extra sym) 5)) (N.shiftl len 10))))
     ltac:(vm_compute; reflexivity) sym len ltac:(cbn; lia) ltac:(cbn; lia)) as H.
  cbv beta in H. apply orb_prop in H. destruct H as [H|H]; [lia|exact H].
Qed.

Lemma dist_pointer_ok : forall lcl ml, 11 <= ml <= 15 -> lcl + N.shiftl 1 (ml - 10) <= 80 ->
  dist_short_ok (u16 (N.lor (N.lor lcl (N.shiftl ml 11)) smallFlagBit)).
Proof.
  intros lcl ml Hm Hl. apply dist_short_okb_ok.
  pose proof (allb2_spec 81 16 (fun lcl ml =>
     negb ((11 <=? ml) && (lcl + N.shiftl 1 (ml - 10) <=? 80)) ||
     dist_short_okb (u16 (N.lor (N.lor lcl (N.shiftl ml 11)) smallFlagBit)))
     ltac:(vm_compute; reflexivity) lcl ml ltac:(cbn; lia) ltac:(cbn; lia)) as H.
  cbv beta in H. apply orb_prop in H. destruct H as [H|H]; [|exact H].
  apply negb_true_iff in H. apply andb_false_iff in H. destruct H as [H|H]; lia.
Qed.

(* ---------------------------------------------------------------- GenerateForHeader *)
Lemma sub32_same : forall x, sub32 x x = 0.
Proof. intros x. unfold sub32, subw. rewrite N.leb_refl. lia. Qed.

Theorem gen_small_hdr_safe : forall short long codes count sh lg cs e,
  gen_small true short long codes 19 count 19 = (sh, lg, cs, e) ->
  small_pre codes count 19 -> (forall l, 8 <= l <= 15 -> aget count l = 0) ->
  all_entries clc_entry_ok short ->
  e = ENone /\ all_entries clc_entry_ok sh.
Proof.
  intros short long codes count sh lg cs e H Hpre Hz Hshort.
  rewrite gen_small_eq in H.
  pose proof Hpre as (P1 & P2 & P3 & P4).
  pose proof (gs_ct_spec count P4) as Hct.
  set (ct := gs_ct count) in *. cbv zeta in H.
  destruct (aget ct 16 =? 0) eqn:E16.
  { inversion H; subst. split; [reflexivity|]. apply all_entries_empty. exact clc_entry_ok_0. }
  destruct (gs_sort_spec codes count 19 ct Hpre Hct) as (cl & ctt & Es & Hcl).
  rewrite Es in H. cbv beta iota in H.
  match type of H with (let '(_, _) := gs_short true ?s0 codes cl ct 19 ?ll ?cp in _) = _ =>
    pose proof (gs_short_inv clc_entry_ok true s0 codes cl ct 19 ll cp) as Hsh;
    destruct (gs_short true s0 codes cl ct 19 ll cp) as [sh1 cs1]
  end.
  cbn [fst] in Hsh.
  assert (E11 : aget ct 11 = aget ct 16).
  { rewrite !Hct by lia.
    change 16 with (15 + 1). rewrite ctv_step by lia.
    change 15 with (14 + 1) at 1. rewrite ctv_step by lia.
    change 14 with (13 + 1) at 1. rewrite ctv_step by lia.
    change 13 with (12 + 1) at 1. rewrite ctv_step by lia.
    change 12 with (11 + 1) at 1. rewrite ctv_step by lia.
    rewrite !Hz by lia. lia. }
  rewrite E11, sub32_same in H. unfold gs_long in H. rewrite forN_empty in H by lia.
  inversion H; subst. split; [reflexivity|].
  apply Hsh.
  - apply zero_fill_inv; [exact clc_entry_ok_0|exact Hshort].
  - intros ll k t Hll Hk Ht. rewrite !Hct in Hk by lia.
    assert (Hll1 : 1 <= ll).
    { destruct (N.eq_dec ll 0) as [->|Hne]; [|lia].
      change (0 + 1) with 1 in Hk. rewrite ctv_0, ctv_1 in Hk. lia. }
    destruct (Hcl ll k ltac:(lia) Hk) as [A B].
    unfold gs_wr. cbv zeta. destruct (19 <=? aget cl k); [exact Ht|].
    apply all_entries_aset; [exact Ht|]. apply hdr_entry_ok; [lia|apply P1].
Qed.

(* ---------------------------------------------------------------- genForDists: long codes *)
Lemma long_fill_spec : forall (P : N -> Prop) bound wrap base lim minInc entry fuel long longBits pan long' pan',
  base + lim <= bound -> all_entries P long -> P entry ->
  long_fill fuel bound wrap long base longBits lim minInc entry pan = (long', pan') ->
  all_entries P long' /\ pan' = pan.
Proof.
  intros P bound wrap base lim minInc entry. induction fuel as [|f IH];
    intros long longBits pan long' pan' Hb Hl He H; cbn [long_fill] in H.
  - inversion H; subst. split; [exact Hl|reflexivity].
  - destruct (longBits <? lim) eqn:E1.
    + destruct (bound <=? base + longBits) eqn:E2; [lia|].
      apply IH in H; [exact H|exact Hb| |exact He].
      apply all_entries_aset; assumption.
    + inversion H; subst. split; [exact Hl|reflexivity].
Qed.

Definition codes_ok (codes0 codes : arr) : Prop :=
  forall i, aget codes i < 4294967296 /\ hc_len (aget codes i) = hc_len (aget codes0 i).
Definition longsym (codes0 : arr) (sym : N) : Prop :=
  sym < 30 /\ 11 <= hc_len (aget codes0 sym) <= 15.

Lemma Forall_rev_append : forall (A : Type) (Q : A -> Prop) l acc,
  Forall Q l -> Forall Q acc -> Forall Q (rev_append l acc).
Proof.
  intros A Q l. induction l as [|x r IH]; intros acc Hl Ha; cbn [rev_append]; [exact Ha|].
  inversion Hl; subst. apply IH; [assumption|]. constructor; assumption.
Qed.

Lemma Forall_frev : forall (A : Type) (Q : A -> Prop) l, Forall Q l -> Forall Q (frev l).
Proof. intros A Q l H. unfold frev. apply Forall_rev_append; [exact H|constructor]. Qed.

Lemma gs_group_spec : forall cl codes codes0 lcs lcl i fb ml0 tl0 ml tl,
  codes_ok codes0 codes ->
  (forall j, i + 1 <= j < lcl -> longsym codes0 (aget cl (lcs + j))) ->
  11 <= ml0 <= 15 -> Forall (longsym codes0) tl0 ->
  gs_group false cl codes lcs lcl i fb (ml0, tl0) = (ml, tl) ->
  11 <= ml <= 15 /\ Forall (longsym codes0) tl.
Proof.
  intros cl codes codes0 lcs lcl i fb ml0 tl0 ml tl Hc Hj Hm Ht H.
  unfold gs_group in H.
  match type of H with forN _ _ ?f ?s = _ =>
    pose proof (forN_inv _ (fun a : N * list N =>
       11 <= fst a <= 15 /\ Forall (longsym codes0) (snd a)) f (i + 1) lcl s) as HI
  end.
  rewrite H in HI. cbn [fst snd] in HI. apply HI; clear HI.
  - split; assumption.
  - intros j [m t] Hjr [A B]. cbn [fst snd] in *.
    destruct (_ =? fb); cbn [fst snd]; [|split; assumption].
    pose proof (Hj j Hjr) as [Q1 Q2].
    split.
    + rewrite (proj2 (Hc _)). exact Q2.
    + constructor; [split; assumption|exact B].
Qed.

Lemma gs_fill_spec : forall codes0 lcl grp long codes pan sym long' codes' pan',
  lcl + grp <= 80 ->
  all_entries dist_long_ok long -> codes_ok codes0 codes -> longsym codes0 sym ->
  gs_fill false 30 lcl grp (long, codes, pan) sym = (long', codes', pan') ->
  all_entries dist_long_ok long' /\ codes_ok codes0 codes' /\ pan' = pan.
Proof.
  intros codes0 lcl grp long codes pan sym long' codes' pan' Hg Hl Hc [Q1 Q2] H.
  unfold gs_fill in H. cbv zeta in H.
  destruct (30 <? sym) eqn:E30; [lia|].
  match type of H with (let '(_, _) := ?lf in _) = _ => destruct lf as [l2 p2] eqn:Elf end.
  inversion H; subst l2 codes' p2. clear H.
  apply (long_fill_spec dist_long_ok) in Elf; [|exact Hg|exact Hl|].
  - destruct Elf as [A B]. split; [exact A|]. split; [|exact B].
    intros x. rewrite aget_aset.
    destruct (N.eqb_spec x sym) as [->|Hne]; [|apply Hc].
    destruct (hc_setcode_spec (aget codes sym) 65535 (proj1 (Hc sym))) as [S1 S2].
    split; [exact S1|]. rewrite S2. apply Hc.
  - apply dist_long_entry_ok; [exact Q1|]. rewrite (proj2 (Hc sym)). lia.
Qed.

Lemma gs_fill_fold : forall codes0 lcl grp temp long codes pan long' codes' pan',
  lcl + grp <= 80 -> Forall (longsym codes0) temp ->
  all_entries dist_long_ok long -> codes_ok codes0 codes ->
  fold_left (gs_fill false 30 lcl grp) temp (long, codes, pan) = (long', codes', pan') ->
  all_entries dist_long_ok long' /\ codes_ok codes0 codes' /\ pan' = pan.
Proof.
  intros codes0 lcl grp temp. induction temp as [|sym r IH];
    intros long codes pan long' codes' pan' Hg Ht Hl Hc H; cbn [fold_left] in H.
  - inversion H; subst. split; [exact Hl|]. split; [exact Hc|reflexivity].
  - inversion Ht as [|? ? Hs Hr]; subst.
    destruct (gs_fill false 30 lcl grp (long, codes, pan) sym) as [[l1 c1] p1] eqn:E1.
    apply gs_fill_spec with (codes0 := codes0) in E1; [|assumption..].
    destruct E1 as (A & B & C). subst p1.
    apply IH in H; assumption.
Qed.
