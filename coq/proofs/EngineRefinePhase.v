(* EngineRefinePhase.v -- proof of RModel/EngineRefineSpecPhase.v: the decode loop keeps the
   phase field within 0..4 (phaseFinish = 5 is only ever set by step).
   Purely structural: every function reachable from decomp_loop either leaves the phase field
   alone or sets it to one of the constants 0..4. *)
From Coq Require Import List NArith ZArith Bool Lia.
From Verif Require Import Base EngineTables Engine EngineRefineSpec EngineRefineSpecBlock
     EngineRefineSpecPhase.
Import ListNotations.
Open Scope N_scope.

Definition ok (s : inflate) : Prop := phase s <= 4.

(* ---------------------------------------------------------------- tactics *)
(* reduce the phase of a state built with the setters *)
Ltac ph_cbn :=
  cbn [phase set_rd set_inputNil set_ov set_tb set_phase set_bfinal set_litBlockLength
       set_header set_dyn set_roffset set_wov set_cov end_of_block setupStaticHeader
       fst snd].
Ltac ph_cbn_in H :=
  cbn [phase set_rd set_inputNil set_ov set_tb set_phase set_bfinal set_litBlockLength
       set_header set_dyn set_roffset set_wov set_cov end_of_block setupStaticHeader
       fst snd] in H.

(* destruct the innermost scrutinee of a match *)
Ltac dmatch x :=
  lazymatch x with
  | context [match ?y with _ => _ end] => dmatch y
  | _ => destruct x eqn:?
  end.

Ltac consts :=
  unfold phaseNewBlock, phaseDecodingHeader, phaseLitBlock, phaseHeaderDecoded,
         phaseStreamEnd in *.

(* close a goal `ok (state built from setters)` *)
Ltac leaf :=
  unfold ok in *; ph_cbn;
  repeat (match goal with
          | |- context [if ?c then _ else _] => destruct c
          end; ph_cbn);
  consts; lia.

(* ---------------------------------------------------------------- functions that do not touch the phase *)
Lemma loadBits_phase : forall s s', loadBits s = Some s' -> phase s' = phase s.
Proof.
  intros s s' H. unfold loadBits in H.
  destruct (load_lt57 (rd s)) as [b|]; [|discriminate H].
  injection H as H. subst s'. reflexivity.
Qed.

Lemma readBits_phase : forall s k v s', readBits s k = Some (v, s') -> phase s' = phase s.
Proof.
  intros s k v s' H. unfold readBits in H.
  destruct (loadBits s) as [s1|] eqn:E1; [|discriminate H].
  apply loadBits_phase in E1.
  destruct (next_bits (rd s1) k) as [v1 b1].
  injection H as H1 H2. subst s'. ph_cbn. exact E1.
Qed.

Lemma codeLenCodes_phase : forall s hclen, phase (fst (codeLenCodes s hclen)) = phase s.
Proof.
  intros s hclen. unfold codeLenCodes.
  destruct (forN 0 4 clc_read3 (rd s, aempty, aempty)) as [[b0 ch0] cc0].
  destruct (load_lt57 b0) as [b1|]; [|reflexivity].
  destruct (forN 4 (hclen + 4) clc_read3 (b1, ch0, cc0)) as [[b2 ch2] cc2].
  cbv zeta.
  destruct (r_len b2 <? 0)%Z; [reflexivity|].
  destruct (setCodes ch2 0 19 cc2) as [ch3 bad].
  destruct bad; [reflexivity|].
  destruct (gen_small true (clcShort (dyn (set_rd s b2))) (clcLong (dyn (set_rd s b2))) ch3 19
                      cc2 19) as [[[sh lg] cds] e].
  reflexivity.
Qed.

Lemma readLitDistLens_phase : forall s hdist hlit,
  phase (fst (readLitDistLens s hdist hlit)) = phase s.
Proof.
  intros s hdist hlit. unfold readLitDistLens. cbv zeta.
  match goal with |- context [rl_loop ?a ?b ?c ?d ?e ?f] => destruct (rl_loop a b c d e f) as [st err] end.
  reflexivity.
Qed.

(* ---------------------------------------------------------------- header *)
Lemma setupDynamicHeader_ok : forall s, ok s -> ok (fst (setupDynamicHeader s)).
Proof.
  intros s Hs. unfold setupDynamicHeader. cbv zeta.
  match goal with |- context [loadBits ?a] => destruct (loadBits a) as [s1|] eqn:E1 end;
    [|leaf].
  apply loadBits_phase in E1. ph_cbn_in E1.
  destruct (r_len (rd s1) <? 14)%Z; [leaf|].
  destruct (next_bits (rd s1) 5) as [hlit b1].
  destruct (next_bits b1 5) as [hdist b2].
  destruct (next_bits b2 4) as [hclen b3].
  destruct ((29 <? hlit) || (29 <? hdist) || (15 <? hclen)); [leaf|].
  pose proof (codeLenCodes_phase (set_rd s1 b3) hclen) as E2.
  destruct (codeLenCodes (set_rd s1 b3) hclen) as [s2 err2]. ph_cbn_in E2.
  destruct err2; try leaf.
  pose proof (readLitDistLens_phase s2 hdist hlit) as E3.
  destruct (readLitDistLens s2 hdist hlit) as [s3 err3]. ph_cbn_in E3.
  destruct err3; try leaf.
  destruct (r_len (rd s3) <? 0)%Z; [leaf|].
  destruct (setCodes (litAndDistHuff (dyn s3)) litLen distLen (distCount (dyn s3)))
    as [huff bad].
  destruct bad; [leaf|].
  match goal with
  | |- context [gen_small ?a ?b ?c ?d ?e ?f ?g] =>
    destruct (gen_small a b c d e f g) as [[[dsh dlg] codes] gerr]
  end.
  destruct (negb (ierr_eqb gerr ENone)); [leaf|].
  match goal with
  | |- context [setAndExpandLitLenHuffCode ?a] =>
    destruct (setAndExpandLitLenHuffCode a) as [d4 err4]
  end.
  destruct err4; try leaf.
  match goal with
  | |- context [genForLitLen ?a ?b ?c ?d] =>
    destruct (genForLitLen a b c d) as [[[lsh llg] d5] err5]
  end.
  destruct err5; leaf.
Qed.

Lemma prepareForLitBlock_ok : forall s, ok s -> ok (fst (prepareForLitBlock s)).
Proof.
  intros s Hs. unfold prepareForLitBlock. cbv zeta.
  destruct (loadBits s) as [s1|] eqn:E1; [|leaf].
  apply loadBits_phase in E1.
  destruct (r_len (rd s1) <? 0)%Z; [leaf|].
  match goal with |- context [if ?c then (s1, EEndInput) else _] => destruct c; [leaf|] end.
  match goal with |- context [if negb ?c then _ else _] => destruct (negb c); [leaf|] end.
  match goal with |- context [if ?c =? 0 then _ else _] => destruct (c =? 0) end; leaf.
Qed.

Lemma tryDecodeHeader_ok : forall s, ok s -> ok (fst (tryDecodeHeader s)).
Proof.
  intros s Hs. unfold tryDecodeHeader.
  destruct (readBits s 1) as [[bf s1]|] eqn:E1; [|leaf].
  apply readBits_phase in E1.
  destruct (readBits (set_bfinal s1 bf) 2) as [[btype s2]|] eqn:E2; [|leaf].
  apply readBits_phase in E2. ph_cbn_in E2.
  assert (H2 : ok s2) by (unfold ok in *; lia).
  destruct (r_len (rd s2) <? 0)%Z; [leaf|].
  destruct (btype =? 0); [apply prepareForLitBlock_ok; exact H2|].
  destruct (btype =? 1); [leaf|].
  destruct (btype =? 2); [apply setupDynamicHeader_ok; exact H2|].
  leaf.
Qed.

Lemma readHeader_ok : forall s, ok s -> ok (fst (readHeader s)).
Proof.
  intros s Hs. unfold readHeader. cbv zeta.
  match goal with
  | |- context [tryDecodeHeader ?a] =>
    assert (H1 : ok a) by (destruct (phase s =? phaseDecodingHeader); leaf);
    pose proof (tryDecodeHeader_ok a H1) as H2;
    destruct (tryDecodeHeader a) as [s2 err]
  end.
  cbn [fst] in H2.
  destruct err; leaf.
Qed.

(* ---------------------------------------------------------------- block decoders *)
Definition st4 (r : inflate * arr * N * ierr) : inflate := fst (fst (fst r)).
Definition st5 (r : inflate * bitrd * arr * N * ierr) : inflate := fst (fst (fst (fst r))).

Ltac walk1 :=
  match goal with
  | |- context [match ?x with _ => _ end] => dmatch x
  end.

Lemma decodeLiteralBlock_ok : forall s out w, ok (st4 (decodeLiteralBlock s out w)).
Proof.
  intros s out w. unfold decodeLiteralBlock, st4. cbv zeta.
  repeat walk1; leaf.
Qed.

Definition hres_state (r : hres) : inflate :=
  match r with HCont s _ _ _ => s | HFin s _ _ _ _ => s end.

Lemma huff_inner_ok : forall fuel s b out w symCount nextLits bTemp wTemp,
  ok s -> ok (hres_state (huff_inner fuel s b out w symCount nextLits bTemp wTemp)).
Proof.
  induction fuel as [|f IH]; intros s b out w symCount nextLits bTemp wTemp Hs.
  - cbn [huff_inner hres_state]. exact Hs.
  - cbn [huff_inner].
    repeat first
      [ apply IH
      | match goal with
        | |- ok (hres_state (HCont _ _ _ _)) => cbn [hres_state]; leaf
        | |- ok (hres_state (HFin _ _ _ _ _)) => cbn [hres_state]; leaf
        | |- ok (hres_state (huff_inner _ _ _ _ _ _ _ _ _)) => fail 2
        | |- ok (hres_state _) => walk1
        | |- ok _ => leaf
        end ].
Qed.

Lemma huff_outer_ok : forall fuel s b out w, ok s -> ok (st5 (huff_outer fuel s b out w)).
Proof.
  induction fuel as [|f IH]; intros s b out w Hs.
  - cbn [huff_outer]. unfold st5. leaf.
  - cbn [huff_outer].
    destruct (phase s =? phaseHeaderDecoded); [|unfold st5; leaf].
    destruct (load_lt57 b) as [b1|]; [|unfold st5; leaf].
    destruct (load_le15 b1) as [b2|]; [|unfold st5; leaf].
    destruct (litlen_decode (tb s) b2) as [[[b3 symCount] nextLits]|]; [|unfold st5; leaf].
    destruct (symCount =? 0); [unfold st5; leaf|].
    destruct (r_len b3 <? 0)%Z; [unfold st5; leaf|].
    pose proof (huff_inner_ok 8 s b3 out w symCount nextLits b1 w Hs) as Hi.
    destruct (huff_inner 8 s b3 out w symCount nextLits b1 w) as [s' b' out' w'|s' b' out' w' e];
      cbn [hres_state] in Hi.
    + apply IH. exact Hi.
    + unfold st5. leaf.
Qed.

Lemma decodeHuffman_ok : forall s out w, ok s -> ok (st4 (decodeHuffman s out w)).
Proof.
  intros s out w Hs. unfold decodeHuffman. cbv zeta.
  assert (H0 : ok (set_cov s 0 0)) by leaf.
  pose proof (huff_outer_ok big_fuel (set_cov s 0 0) (rd (set_cov s 0 0)) out w H0) as H1.
  destruct (huff_outer big_fuel (set_cov s 0 0) (rd (set_cov s 0 0)) out w)
    as [[[[s1 b1] out1] w1] err1].
  unfold st5 in H1. cbn [fst] in H1. unfold st4.
  destruct (r_len b1 <? 0)%Z; leaf.
Qed.

(* ---------------------------------------------------------------- the loop *)
Lemma decomp_loop_ok : forall fuel s out w, ok s -> ok (st4 (decomp_loop fuel s out w)).
Proof.
  induction fuel as [|f IH]; intros s out w Hs.
  - cbn [decomp_loop]. unfold st4. leaf.
  - cbn [decomp_loop].
    destruct (phase s =? phaseStreamEnd); [unfold st4; leaf|].
    assert (H1 : ok (fst (if (phase s =? phaseNewBlock) || (phase s =? phaseDecodingHeader)
                          then readHeader s else (s, ENone)))).
    { destruct ((phase s =? phaseNewBlock) || (phase s =? phaseDecodingHeader)).
      - apply readHeader_ok. exact Hs.
      - cbn [fst]. exact Hs. }
    destruct (if (phase s =? phaseNewBlock) || (phase s =? phaseDecodingHeader)
              then readHeader s else (s, ENone)) as [s1 err1].
    cbn [fst] in H1.
    destruct err1; try (unfold st4; leaf).
    assert (H2 : ok (st4 (if phase s1 =? phaseLitBlock then decodeLiteralBlock s1 out w
                          else decodeHuffman s1 out w))).
    { destruct (phase s1 =? phaseLitBlock).
      - apply decodeLiteralBlock_ok.
      - apply decodeHuffman_ok. exact H1. }
    destruct (if phase s1 =? phaseLitBlock then decodeLiteralBlock s1 out w
              else decodeHuffman s1 out w) as [[[s2 out2] w2] err2].
    unfold st4 in H2. cbn [fst] in H2.
    destruct err2; try (unfold st4; leaf).
    apply IH. exact H2.
Qed.

Lemma flush_ov_ok : forall s h idx, ok s -> ok (fst (fst (flush_ov s h idx))).
Proof.
  intros s h idx Hs. unfold flush_ov.
  repeat walk1; leaf.
Qed.

Theorem decomp_phase : decomp_phase_statement.
Proof.
  unfold decomp_phase_statement. intros fuel s out w Hs.
  pose proof (decomp_loop_ok fuel s out w Hs) as H1.
  destruct (decomp_loop fuel s out w) as [[[s' out'] w'] err].
  unfold st4 in H1. cbn [fst] in H1.
  split; [exact H1|].
  pose proof (flush_ov_ok s' out' w' H1) as H2.
  destruct (flush_ov s' out' w') as [[s2 h2] i2].
  cbn [fst] in H2. exact H2.
Qed.

Print Assumptions decomp_phase.
