(* EngineRefineGlueNeed.v -- "ran out of input" is honest for the dynamic block header:
   setupDynamicHeader_need (statement in RModel/EngineRefineSpecNeed.v), from the component
   statements. *)
From Coq Require Import List NArith ZArith Bool Lia ZifyBool ZifyNat ZifyN.
From Verif Require Import Bits Huffman HuffmanSpec Inflate.
From Verif Require Import Base EngineTables Engine EngineRefineSpec EngineRefineSpecNeed
     EngineRefineBits EngineRefineBridge EngineRefineGlue.
From Verif Require HuffmanProofs.
Import ListNotations.
Open Scope N_scope.

(* ---------------------------------------------------------------- the table builders never
   report EEndInput *)
Lemma glue_iterN_inv : forall (S : Type) (P : S -> Prop) (f : N -> S -> S),
  (forall i s, P s -> P (f i s)) -> forall n i s, P s -> P (iterN n i f s).
Proof.
  intros S P f Hf n. induction n as [|n IH]; intros i s Hs; cbn [iterN]; [exact Hs|].
  apply IH. apply Hf. exact Hs.
Qed.

Ltac glue_brk1 :=
  match goal with |- context [match ?x with _ => _ end] => destruct x end.

Lemma gen_small_not_end : forall hdr sh lg codes n count ms,
  snd (gen_small hdr sh lg codes n count ms) <> EEndInput.
Proof.
  intros hdr sh lg codes n count ms. unfold gen_small. cbv zeta.
  glue_brk1; [cbn [snd]; discriminate|].
  glue_brk1. glue_brk1. glue_brk1; [cbn [snd]; discriminate|].
  glue_brk1.
  match goal with |- snd (match forN ?lo ?hi ?F ?init with _ => _ end) <> _ =>
    assert (H : snd (forN lo hi F init) <> EEndInput) end.
  { unfold forN. apply glue_iterN_inv; [|cbn [snd]; discriminate].
    intros i [[[[sh1 lg1] cd1] lcl] pan] Hp. cbn [snd] in Hp.
    repeat glue_brk1; cbn [snd]; first [exact Hp|discriminate]. }
  repeat glue_brk1. cbn [snd] in *. exact H.
Qed.


Lemma setAndExpand_not_end : forall d, snd (setAndExpandLitLenHuffCode d) <> EEndInput.
Proof.
  intros d. unfold setAndExpandLitLenHuffCode. cbv zeta.
  repeat glue_brk1; cbn [snd]; discriminate.
Qed.

Lemma pairs_loop_not_end : forall fuel short d length index1 iend,
  snd (pairs_loop fuel short d length index1 iend) <> EEndInput.
Proof.
  induction fuel as [|f IH]; intros short d length index1 iend; cbn [pairs_loop].
  - cbn [snd]. discriminate.
  - repeat first [apply IH | glue_brk1]; cbn [snd]; discriminate.
Qed.

Lemma encodePairs_not_end : forall short d length minLen,
  snd (encodePairs short d length minLen) <> EEndInput.
Proof. intros. unfold encodePairs. apply pairs_loop_not_end. Qed.

Lemma triples_loop2_not_end : forall fuel short d length sym1 sym1Len sym1Code index2 iend2,
  snd (triples_loop2 fuel short d length sym1 sym1Len sym1Code index2 iend2) <> EEndInput.
Proof.
  induction fuel as [|f IH]; intros short d length sym1 sym1Len sym1Code index2 iend2;
    cbn [triples_loop2].
  - cbn [snd]. discriminate.
  - repeat first [apply IH | glue_brk1]; cbn [snd]; discriminate.
Qed.

Lemma triples_loop1_not_end : forall fuel short d length minLen index1 iend1,
  snd (triples_loop1 fuel short d length minLen index1 iend1) <> EEndInput.
Proof.
  induction fuel as [|f IH]; intros short d length minLen index1 iend1; cbn [triples_loop1].
  - cbn [snd]. discriminate.
  - repeat first
      [ apply IH
      | match goal with
        | |- context [match triples_loop2 ?a ?b ?c ?d ?e ?f ?g ?h ?i with _ => _ end] =>
          pose proof (triples_loop2_not_end a b c d e f g h i);
          destruct (triples_loop2 a b c d e f g h i)
        end
      | glue_brk1 ]; cbn [snd] in *; first [assumption|discriminate].
Qed.

Lemma encodeTriples_not_end : forall short d length minLen,
  snd (encodeTriples short d length minLen) <> EEndInput.
Proof. intros. unfold encodeTriples. apply triples_loop1_not_end. Qed.

Lemma genForLitLen_not_end : forall sh lg d ms, snd (genForLitLen sh lg d ms) <> EEndInput.
Proof.
  intros sh lg d ms. unfold genForLitLen. cbv zeta.
  glue_brk1; [cbn [snd]; discriminate|].
  match goal with |- snd (match forN ?lo ?hi ?F ?init with _ => _ end) <> _ =>
    assert (H : snd (forN lo hi F init) <> EEndInput) end.
  { unfold forN. apply glue_iterN_inv; [|cbn [snd]; discriminate].
    intros i [[t cs] err] Hp. cbn [snd] in Hp.
    repeat match goal with
      | |- context [match encodePairs ?a ?b ?c ?d with _ => _ end] =>
        pose proof (encodePairs_not_end a b c d); destruct (encodePairs a b c d)
      | |- context [match encodeTriples ?a ?b ?c ?d with _ => _ end] =>
        pose proof (encodeTriples_not_end a b c d); destruct (encodeTriples a b c d)
      | |- context [match ?x with _ => _ end] => destruct x
      end; cbn [snd] in *; first [assumption|discriminate]. }
  repeat glue_brk1; cbn [snd] in *; first [assumption|discriminate].
Qed.

Lemma sdh_tail_not_end : forall s ms, snd (sdh_tail s ms) <> EEndInput.
Proof.
  intros s ms. unfold sdh_tail. cbv zeta.
  repeat match goal with
    | |- context [match gen_small ?a ?b ?c ?d ?e ?f ?g with _ => _ end] =>
      pose proof (gen_small_not_end a b c d e f g); destruct (gen_small a b c d e f g)
    | |- context [match setAndExpandLitLenHuffCode ?a with _ => _ end] =>
      pose proof (setAndExpand_not_end a); destruct (setAndExpandLitLenHuffCode a)
    | |- context [match genForLitLen ?a ?b ?c ?d with _ => _ end] =>
      pose proof (genForLitLen_not_end a b c d); destruct (genForLitLen a b c d)
    | |- context [match ?x with _ => _ end] => destruct x
    end; cbn [snd] in *; first [assumption|discriminate].
Qed.

(* ---------------------------------------------------------------- short streams *)
Lemma glue_take_length : forall n s v s', take n s = Some (v, s') ->
  length (bl s) = (n + length (bl s'))%nat.
Proof.
  induction n as [|n IH]; intros s v s' H; cbn [take] in H.
  - injection H as _ <-. reflexivity.
  - unfold take1 in H. destruct (bl s) as [|b r] eqn:Eb; [discriminate|].
    destruct (take n (mkbs r (bp s + 1))) as [[v2 s2]|] eqn:E; [|discriminate].
    injection H as _ <-. apply IH in E. cbn [bl] in E. cbn [length]. lia.
Qed.

Lemma dyn_header_short : forall l p r s1, (length l < 14)%nat ->
  dyn_header (mkbs l p) <> HOk r s1.
Proof.
  intros l p r s1 Hl. unfold dyn_header.
  destruct (take 5 (mkbs l p)) as [[hlit t1]|] eqn:E1; [|discriminate].
  destruct (take 5 t1) as [[hdist t2]|] eqn:E2; [|discriminate].
  destruct (take 4 t2) as [[hclen t3]|] eqn:E3; [|discriminate].
  apply glue_take_length in E1, E2, E3. cbn [bl] in E1. lia.
Qed.

(* ---------------------------------------------------------------- the part after loadBits *)
Lemma sdh_mid_need :
  gen_clc_statement -> codeLenCodes_refine_statement ->
  codeLenCodes_need_statement -> readLitDistLens_need_statement ->
  forall s ms p,
    br_wf (rd s) -> br_loaded 57 (rd s) ->
    arr_zero (litAndDistHuff (dyn s)) -> arr_zero (litCount (dyn s)) ->
    arr_zero (distCount (dyn s)) -> arr_zero (litExpandCount (dyn s)) ->
    snd (sdh_mid s ms) = EEndInput ->
    forall r s1, dyn_header (mkbs (br_bits (rd s)) p) <> HOk r s1.
Proof.
  intros Hclc Hclcr Hcn Hrn s ms p Hwf Hld Z1 Z2 Z3 Z4 Herr r s1.
  unfold sdh_mid in Herr.
  destruct (r_len (rd s) <? 14)%Z eqn:E14.
  { apply dyn_header_short. rewrite br_bits_length.
    destruct Hld as [Hl|Hl]; [|lia]. rewrite Hl. cbn [length]. lia. }
  destruct (next_bits (rd s) 5) as [hlit b1] eqn:N1.
  destruct (next_bits_facts (rd s) 5 [] p Hwf ltac:(lia) hlit b1 N1) as (W1 & T1 & R1 & I1 & V1).
  destruct (next_bits b1 5) as [hdist b2] eqn:N2.
  destruct (next_bits_facts b1 5 [] (p + 5) W1 ltac:(lia) hdist b2 N2) as (W2 & T2 & R2 & I2 & V2).
  destruct (next_bits b2 4) as [hclen b3] eqn:N3.
  destruct (next_bits_facts b2 4 [] (p + 5 + 5) W2 ltac:(lia) hclen b3 N3) as (W3 & T3 & R3 & I3 & V3).
  rewrite !app_nil_r in T1, T2, T3.
  change (N.to_nat 5) with 5%nat in T1, T2. change (N.to_nat 4) with 4%nat in T3.
  change (2 ^ 5) with 32 in V1, V2. change (2 ^ 4) with 16 in V3.
  cbv zeta in Herr.
  destruct ((29 <? hlit) || (29 <? hdist) || (15 <? hclen)) eqn:Eb.
  { cbn [snd] in Herr. discriminate Herr. }
  apply orb_false_iff in Eb. destruct Eb as [Eb Eb3].
  pose proof Eb as Eb12.
  apply orb_false_iff in Eb. destruct Eb as [Eb1 Eb2].
  set (s2 := set_rd s b3) in *.
  assert (C1 : br_wf (rd s2)) by exact W3.
  assert (C2 : (0 <= r_len (rd s2))%Z) by (change (rd s2) with b3; lia).
  assert (C3 : br_loaded 12 (rd s2)).
  { change (rd s2) with b3. destruct Hld as [Hl|Hl]; [left; rewrite I3, I2, I1; exact Hl|right; lia]. }
  assert (C4 : hclen <= 15) by lia.
  pose proof (Hclcr Hclc s2 hclen [] (p + 5 + 5 + 4) C1 C2 C3 C4) as C.
  pose proof (Hcn Hclc s2 hclen (p + 5 + 5 + 4) C1 C2 C3 C4) as CN.
  change (rd s2) with b3 in CN.
  destruct (codeLenCodes s2 hclen) as [s3 err3] eqn:E3.
  cbn [snd] in CN.
  destruct C as (CW & CF & CT & CP & CA1 & CA2 & CA3 & CA4 & CE).
  destruct err3; [ | | cbn [snd] in Herr; discriminate Herr .. ].
  2:{ (* codeLenCodes ran out of input *)
    specialize (CN eq_refl).
    unfold dyn_header. rewrite T1, T2, T3, Eb12.
    destruct (read_clens (N.to_nat hclen + 4) (mkbs (br_bits b3) (p + 5 + 5 + 4))) as [cl t4|e0] eqn:Erc;
      [|discriminate].
    exfalso. exact (CN cl t4 eq_refl). }
  destruct (CE eq_refl) as (C0 & cl & Crc & CE2). cbv zeta in CE2. destruct CE2 as (Cov & Ctab).
  change (rd s2) with b3 in Crc. rewrite !app_nil_r in Crc.
  assert (Hcl7 : Forall (fun x => (x <= 7)%nat) (scatter clen_order cl (repeat 0%nat 19))).
  { apply scatter_Forall.
    - eapply read_clens_le7. exact Crc.
    - apply Forall_forall. intros x Hx. apply repeat_spec in Hx. lia. }
  destruct (HuffmanProofs.kraft_sufficient 7%nat _ ltac:(lia) Hcl7 Cov) as [ct Hct].
  assert (ZZ1 : arr_zero (litAndDistHuff (dyn s3))) by (intros i; rewrite CA1; apply Z1).
  assert (ZZ2 : arr_zero (litCount (dyn s3))) by (intros i; rewrite CA2; apply Z2).
  assert (ZZ3 : arr_zero (distCount (dyn s3))) by (intros i; rewrite CA3; apply Z3).
  assert (ZZ4 : arr_zero (litExpandCount (dyn s3))) by (intros i; rewrite CA4; apply Z4).
  assert (Hhl : hlit <= 29) by lia.
  assert (Hhd : hdist <= 29) by lia.
  pose proof (Hrn s3 hlit hdist _ ct (p + 5 + 5 + 4 + 3 * (hclen + 4)) CW C0 Hhl Hhd Hct Ctab
                  ZZ1 ZZ2 ZZ3 ZZ4) as R.
  destruct (readLitDistLens s3 hdist hlit) as [s4 err4] eqn:E4.
  assert (RR : forall all t5,
             read_lens (N.to_nat hlit + 257 + (N.to_nat hdist + 1)) ct
                       (N.to_nat hlit + 257 + (N.to_nat hdist + 1)) []
                       (mkbs (br_bits (rd s3)) (p + 5 + 5 + 4 + 3 * (hclen + 4))) <> HOk all t5).
  { destruct err4; [ | | cbn [snd] in Herr; discriminate Herr .. ].
    - destruct (r_len (rd s4) <? 0)%Z eqn:Eneg.
      + apply R. right. split; [reflexivity|lia].
      + exfalso. exact (sdh_tail_not_end s4 ms Herr).
    - apply R. left. reflexivity. }
  unfold dyn_header. rewrite T1, T2, T3, Eb12, Crc. cbv zeta. rewrite Hct.
  destruct (read_lens (N.to_nat hlit + 257 + (N.to_nat hdist + 1)) ct
                      (N.to_nat hlit + 257 + (N.to_nat hdist + 1)) []
                      (mkbs (br_bits (rd s3)) (p + 5 + 5 + 4 + 3 * (hclen + 4)))) as [all t5|e0] eqn:Erl;
    [|discriminate].
  exfalso. exact (RR all t5 eq_refl).
Qed.

(* ---------------------------------------------------------------- the theorem *)
Theorem setupDynamicHeader_need : setupDynamicHeader_need_statement.
Proof.
  intros Hclc Hclcr Hcn Hrn s p Hwf H0 Herr r s1.
  rewrite sdh_eq in Herr.
  set (s0 := sdh_start s) in *.
  assert (Hwf0 : br_wf (rd s0)) by exact Hwf.
  unfold loadBits in Herr.
  destruct (load_lt57_bits (rd s0) Hwf0) as (b1 & L1 & L2 & L3 & L4 & L5).
  rewrite L1 in Herr.
  change (br_bits (rd s)) with (br_bits (rd s0)). rewrite <- L3.
  exact (sdh_mid_need Hclc Hclcr Hcn Hrn (set_rd s0 b1) (sdh_multisym s0) p L2 L4
           arr_zero_empty arr_zero_empty arr_zero_empty arr_zero_empty Herr r s1).
Qed.

Print Assumptions setupDynamicHeader_need.
