(* EngineSafetyRestart.v -- the hypothesis HeaderRestartMonotone of EngineSafetyHeader.v.

   1. As originally stated (no bound on the input "bytes") the hypothesis is FALSE:
      EngineSafetyRestartCex.v proves  ~ HeaderRestartMonotone_unbounded  (a byte value 256 makes the 64-bit
      load path (le64, a sum) and the byte-wise path (load_bytes, a bitwise or) of load_raw disagree).
   2. Proved here, in full (both conjuncts of restart_ok, arbitrary cut n of the input):
        header_restart_monotone_v2   the original statement plus the single premise
                                     Forall (fun x => x < 256) (firstn n (r_in (rd s)))
                                     (only the re-used prefix must consist of bytes);
        header_restart_monotone      HeaderRestartMonotone as now defined in EngineSafetyHeader.v
                                     (bytes_ok on the whole input and on X), a corollary.
      Neither the premises dyn s' = dyn s2 / tb s' = tb s2 nor clc_ok / tabs_ok2 of hdr_pre are
      needed: the restarted run rebuilds the code-length-code table on whatever it finds, and the
      table is characterised exactly (EngineRefineSmallClc.gen_clc), independently of the old
      contents.
   Proof: lock step of the failed run A and the restarted run B (EngineSafetyRestartBits.v: the
   relation REL between the two bit readers; EngineSafetyRestartLock.v: codeLenCodes,
   readLitDistLens; EngineSafetyRestartMono.v: monotonicity, decomposition, and "the table
   builders never report EEndInput").  Run A ends with EEndInput, so somewhere it lacks bits; up
   to there run B makes the same decisions, and at that point B has loaded every common byte; if B
   goes on, it consumes a bit that A does not have, i.e. a bit of X. *)
From Verif Require Import Engine EngineTables.
From Verif Require Import Base EngineSafetyBase EngineSafetyBits EngineSafetyInv.
From Verif Require Import EngineSafetySmall EngineSafetyRL EngineSafetyHeader.
From Verif Require Import EngineSafetyRestartBits EngineSafetyRestartMono EngineSafetyRestartLock.
From Coq Require Import List NArith ZArith Bool Lia ZifyBool ZifyNat ZifyN.
Import ListNotations.
Open Scope N_scope.

Section Term.
Variable X : list N.
Notation REL := (REL X).
Notation FIN := (FIN X).
Notation FINE := (FINE X).

Lemma lenX_nonneg : (0 <= lenX X)%Z.
Proof. unfold lenX. lia. Qed.

(* run A is out of input and has fewer than k bits: a reader of run B that has consumed k bits
   more has consumed every common bit *)
Lemma REL_starve : forall m a b k b',
  REL m a b -> r_inlen a = 0 -> (r_len a < k)%Z ->
  r_inlen b' = r_inlen b -> (avail b' <= avail b - k)%Z -> FIN b'.
Proof.
  intros m a b k b' (R & q & Hrel) Hex Hk H1 H2.
  pose proof (relc_exhausted X R q m a b Hrel Hex) as HR. subst R.
  pose proof (relc_nil_inlen X q m a b Hrel) as Hin.
  destruct Hrel as (A1 & A2 & A3 & A4 & A5 & A6 & A7 & A8 & A9 & A10).
  cbn [length] in A10. unfold EngineSafetyRestartBits.FIN. split; lia.
Qed.

Lemma REL_exhausted_inlen : forall m a b, REL m a b -> r_inlen a = 0 -> (Z.of_N (r_inlen b) <= lenX X)%Z.
Proof.
  intros m a b (R & q & Hrel) Hex.
  pose proof (relc_exhausted X R q m a b Hrel Hex) as HR. subst R.
  exact (relc_nil_inlen X q m a b Hrel).
Qed.

(* ---------------------------------------------------------------- setupDynamicHeader *)
Lemma sdh_after_clc_fin : forall s3 m hdist hlit,
  FIN (rd s3) ->
  FINE (rd (fst (let '(s, err) := readLitDistLens s3 hdist hlit in
                 match err with
                 | ENone => if (r_len (rd s) <? 0)%Z then (s, EEndInput) else sdh_tail s m
                 | _ => (s, err)
                 end)))
       (snd (let '(s, err) := readLitDistLens s3 hdist hlit in
             match err with
             | ENone => if (r_len (rd s) <? 0)%Z then (s, EEndInput) else sdh_tail s m
             | _ => (s, err)
             end)).
Proof.
  intros s3 m hdist hlit F.
  destruct (readLitDistLens s3 hdist hlit) as [s4 e4] eqn:ER.
  pose proof (readLitDistLens_unary _ _ _ _ _ ER) as M4.
  pose proof (FIN_mono X _ _ F M4) as F4.
  destruct e4; try (cbn [fst snd]; apply FIN_FINE; exact F4).
  destruct (r_len (rd s4) <? 0)%Z; [cbn [fst snd]; apply FIN_FINE; exact F4|].
  rewrite sdh_tail_rd. apply FIN_FINE. exact F4.
Qed.

Lemma sdh_rest_term : forall sA sB mA mB hlit hdist hclen,
  REL 43 (rd sA) (rd sB) ->
  litAndDistHuff (dyn sA) = litAndDistHuff (dyn sB) -> litCount (dyn sA) = litCount (dyn sB) ->
  distCount (dyn sA) = distCount (dyn sB) -> litExpandCount (dyn sA) = litExpandCount (dyn sB) ->
  snd (sdh_rest sA mA hlit hdist hclen) = EEndInput ->
  FINE (rd (fst (sdh_rest sB mB hlit hdist hclen))) (snd (sdh_rest sB mB hlit hdist hclen)).
Proof.
  intros sA sB mA mB hlit hdist hclen Hrel E1 E2 E3 E4 HA. unfold sdh_rest in *.
  destruct ((29 <? hlit) || (29 <? hdist) || (15 <? hclen)) eqn:Echk; [cbn [snd] in HA; discriminate HA|].
  assert (Hh : hclen <= 15) by lia.
  pose proof (codeLenCodes_lock X sA sB hclen Hh (REL_weaken X 43 12 _ _ ltac:(lia) Hrel)) as L.
  destruct (codeLenCodes sA hclen) as [s3A e3A] eqn:EA.
  destruct (codeLenCodes sB hclen) as [s3B e3B] eqn:EB.
  cbn [fst snd] in L.
  destruct (codeLenCodes_unary _ _ _ _ EA) as (_ & UA1 & UA2 & UA3 & UA4).
  destruct (codeLenCodes_unary _ _ _ _ EB) as (_ & UB1 & UB2 & UB3 & UB4).
  destruct L as [(L1 & L2 & L3 & L4)|L].
  - subst e3B.
    destruct e3A; try (cbn [snd] in HA; congruence).
    destruct (L4 eq_refl) as (cl & Hcl).
    destruct (readLitDistLens s3A hdist hlit) as [s4A e4A] eqn:ERA.
    destruct (readLitDistLens s3B hdist hlit) as [s4B e4B] eqn:ERB.
    pose proof (readLitDistLens_lock X cl s3A s3B hdist hlit _ _ ERA ERB Hcl L3
                  ltac:(congruence) ltac:(congruence) ltac:(congruence) ltac:(congruence)) as L5.
    cbn [fst snd] in L5.
    destruct L5 as [(M1 & M2 & M3)|L5].
    + subst e4B.
      destruct e4A; try (cbn [snd] in HA; congruence).
      destruct (REL_inv X _ _ _ M3) as (_ & _ & Ha0 & Hb0).
      replace (r_len (rd s4A) <? 0)%Z with false in HA by lia.
      exfalso. exact (sdh_tail_err s4A mA HA).
    + pose proof (readLitDistLens_unary _ _ _ _ _ ERB) as MB.
      destruct e4B; try exact L5.
      apply FINE_FIN in L5.
      destruct (r_len (rd s4B) <? 0)%Z; [cbn [fst snd]; apply FIN_FINE; exact L5|].
      rewrite sdh_tail_rd. apply FIN_FINE. exact L5.
  - destruct e3B; try exact L.
    apply FINE_FIN in L. apply sdh_after_clc_fin. exact L.
Qed.

Lemma setupDynamicHeader_term : forall sA sB,
  REL 0 (rd sA) (rd sB) ->
  snd (setupDynamicHeader sA) = EEndInput ->
  FINE (rd (fst (setupDynamicHeader sB))) (snd (setupDynamicHeader sB)).
Proof.
  intros sA sB Hrel HA. rewrite setupDynamicHeader_eq in *. unfold loadBits in *.
  change (rd (sdh_reset sA)) with (rd sA) in HA. change (rd (sdh_reset sB)) with (rd sB).
  destruct (REL_inv X _ _ _ Hrel) as (Ia & Ib & _ & _).
  destruct (load_lt57_spec (rd sA) Ia) as (a1 & LA & OKA & _).
  destruct (load_lt57_spec (rd sB) Ib) as (b1 & LB & OKB & _).
  rewrite LA in HA. rewrite LB.
  pose proof (REL_load_lt57 X _ _ _ _ _ Hrel LA LB) as R1.
  cbn [rd set_rd] in HA |- *.
  set (mA := sdh_multisym (sdh_reset sA)) in *. set (mB := sdh_multisym (sdh_reset sB)).
  assert (Hrest : forall sB' b', rd sB' = b' -> FIN b' ->
            forall m h1 h2 h3, FINE (rd (fst (sdh_rest sB' m h1 h2 h3))) (snd (sdh_rest sB' m h1 h2 h3))).
  { intros sB' b' E F m h1 h2 h3. apply FIN_FINE. eapply FIN_mono; [|apply sdh_rest_mono]. rewrite E. exact F. }
  destruct (r_len b1 <? 14)%Z eqn:EB14.
  { (* run B lacks bits as well *)
    cbn [fst snd rd set_rd]. apply FINE_err; [|discriminate].
    destruct OKB as (_ & [Hz|Hz]); [rewrite Hz; apply lenX_nonneg|lia]. }
  destruct (r_len a1 <? 14)%Z eqn:EA14.
  { (* run A stops here, run B reads on: it consumes more than A had *)
    apply (Hrest _ (br_drop (br_drop (br_drop b1 5) 5) 4)); [reflexivity|].
    apply (REL_starve 57 a1 b1 14 _ R1).
    - destruct OKA as (_ & [Hz|Hz]); [exact Hz|lia].
    - lia.
    - reflexivity.
    - unfold avail, br_drop. cbn [r_inlen r_len]. lia. }
  (* both read HLIT, HDIST, HCLEN *)
  destruct (REL_read X 57 a1 b1 5 R1 ltac:(lia)) as [[V1 R2]|F2].
  2:{ apply (Hrest _ (br_drop (br_drop (br_drop b1 5) 5) 4)); [reflexivity|].
      eapply FIN_mono; [exact F2|]. eapply mono_trans; apply mono_drop. }
  destruct (REL_read X _ _ _ 5 R2 ltac:(lia)) as [[V2 R3]|F3].
  2:{ apply (Hrest _ (br_drop (br_drop (br_drop b1 5) 5) 4)); [reflexivity|].
      eapply FIN_mono; [exact F3|]. apply mono_drop. }
  destruct (REL_read X _ _ _ 4 R3 ltac:(lia)) as [[V3 R4]|F4].
  2:{ apply (Hrest _ (br_drop (br_drop (br_drop b1 5) 5) 4)); [reflexivity|]. exact F4. }
  rewrite V1, V2, V3 in HA.
  eapply sdh_rest_term; [| | | | |exact HA]; try reflexivity.
  cbn [rd set_rd]. apply (REL_weaken X (57 - Z.of_N 5 - Z.of_N 5 - Z.of_N 4)); [lia|exact R4].
Qed.

(* ---------------------------------------------------------------- prepareForLitBlock (stored block) *)
Lemma prepareForLitBlock_term : forall sA sB,
  REL 0 (rd sA) (rd sB) ->
  snd (prepareForLitBlock sA) = EEndInput ->
  FINE (rd (fst (prepareForLitBlock sB))) (snd (prepareForLitBlock sB)).
Proof.
  intros sA sB Hrel HA. unfold prepareForLitBlock, loadBits in *.
  destruct (REL_inv X _ _ _ Hrel) as (Ia & Ib & _ & _).
  destruct (load_lt57_spec (rd sA) Ia) as (a1 & LA & OKA & _).
  destruct (load_lt57_spec (rd sB) Ib) as (b1 & LB & OKB & _).
  rewrite LA in HA. rewrite LB.
  pose proof (REL_load_lt57 X _ _ _ _ _ Hrel LA LB) as R1.
  destruct (REL_inv X _ _ _ R1) as ((_ & Ia64 & _) & (_ & Ib64 & _) & Ha0 & Hb0).
  cbn [rd set_rd] in HA |- *.
  replace (r_len a1 <? 0)%Z with false in HA by lia. replace (r_len b1 <? 0)%Z with false by lia.
  cbv zeta in HA. cbv zeta.
  set (bla := Z.to_N (r_len a1)) in *. set (blb := Z.to_N (r_len b1)).
  assert (Hua : u8 (bla / 8) = bla / 8).
  { apply u8_small. assert (bla / 8 < 9) by (apply N.div_lt_upper_bound; unfold bla; lia). lia. }
  assert (Hub : u8 (blb / 8) = blb / 8).
  { apply u8_small. assert (blb / 8 < 9) by (apply N.div_lt_upper_bound; unfold blb; lia). lia. }
  rewrite Hua in HA. rewrite Hub.
  (* run A: fewer than 4 whole bytes, and nothing left to load *)
  assert (HA4 : bla / 8 < 4).
  { destruct (bla / 8 <? 4) eqn:E4; [lia|]. exfalso.
    match type of HA with snd (if negb ?c then _ else _) = _ => destruct (negb c) end;
      [cbn [snd] in HA; discriminate HA|].
    match type of HA with context [if ?c then _ else _] => destruct c end; cbn [snd] in HA; discriminate HA. }
  assert (Hbla : bla < 32).
  { pose proof (N.div_mod bla 8 ltac:(lia)). pose proof (N.mod_lt bla 8 ltac:(lia)). lia. }
  assert (Hex : r_inlen a1 = 0) by (destruct OKA as (_ & [Hz|Hz]); [exact Hz|unfold bla in Hbla; lia]).
  pose proof (REL_exhausted_inlen 57 a1 b1 R1 Hex) as Hin.
  assert (Hd : 8 * (blb / 8) <= blb) by (apply N.mul_div_le; lia).
  destruct (blb / 8 <? 4) eqn:E4.
  { cbn [fst snd rd set_rd]. apply FINE_err; [exact Hin|discriminate]. }
  match goal with |- context [if negb ?c then _ else _] => destruct (negb c) end.
  { cbn [fst snd rd set_rd r_inlen]. apply FINE_err; [exact Hin|discriminate]. }
  assert (Hfin : forall bits bl, bl <= blb / 8 * 8 - 32 -> FIN (mkBR bits (Z.of_N bl) (r_in b1) (r_inlen b1))).
  { intros bits bl Hbl. apply (REL_starve 57 a1 b1 32 _ R1 Hex).
    - unfold bla in Hbla. lia.
    - reflexivity.
    - unfold avail. cbn [r_inlen r_len]. unfold blb in *. lia. }
  destruct ((blb / 8 * 8 - 32) mod 8 =? 0);
    cbn [fst snd rd set_rd set_phase set_litBlockLength]; apply FIN_FINE; apply Hfin; lia.
Qed.

(* ---------------------------------------------------------------- tryDecodeHeader *)
Lemma td_rest_term : forall sA sB btype,
  REL 0 (rd sA) (rd sB) ->
  snd (td_rest sA btype) = EEndInput ->
  FINE (rd (fst (td_rest sB btype))) (snd (td_rest sB btype)).
Proof.
  intros sA sB btype Hrel HA. unfold td_rest in *.
  destruct (REL_inv X _ _ _ Hrel) as (_ & _ & Ha0 & Hb0).
  replace (r_len (rd sA) <? 0)%Z with false in HA by lia.
  replace (r_len (rd sB) <? 0)%Z with false by lia.
  destruct (btype =? 0); [apply (prepareForLitBlock_term sA sB Hrel HA)|].
  destruct (btype =? 1); [cbn [snd] in HA; discriminate HA|].
  destruct (btype =? 2); [apply (setupDynamicHeader_term sA sB Hrel HA)|].
  cbn [snd] in HA. discriminate HA.
Qed.

Lemma td_rest_fin : forall s btype, FIN (rd s) -> FINE (rd (fst (td_rest s btype))) (snd (td_rest s btype)).
Proof. intros s btype F. apply FIN_FINE. eapply FIN_mono; [exact F|apply td_rest_mono]. Qed.

Lemma tryDecodeHeader_term : forall sA sB,
  REL 0 (rd sA) (rd sB) ->
  snd (tryDecodeHeader sA) = EEndInput ->
  FINE (rd (fst (tryDecodeHeader sB))) (snd (tryDecodeHeader sB)).
Proof.
  intros sA sB Hrel HA. rewrite tryDecodeHeader_eq in *.
  destruct (REL_inv X _ _ _ Hrel) as (Ia & Ib & _ & _).
  destruct (load_lt57_spec (rd sA) Ia) as (a1 & LA & _).
  destruct (load_lt57_spec (rd sB) Ib) as (b1 & LB & _).
  rewrite LA in HA. rewrite LB. cbv zeta in HA. cbv zeta.
  pose proof (REL_load_lt57 X _ _ _ _ _ Hrel LA LB) as R1.
  destruct (REL_read X 57 a1 b1 1 R1 ltac:(lia)) as [[V1 R2]|F2].
  - destruct (REL_inv X _ _ _ R2) as (Ia2 & Ib2 & _ & _).
    destruct (load_lt57_spec _ Ia2) as (a3 & LA3 & _).
    destruct (load_lt57_spec _ Ib2) as (b3 & LB3 & _).
    rewrite LA3 in HA. rewrite LB3.
    pose proof (REL_load_lt57 X _ _ _ _ _ R2 LA3 LB3) as R3.
    destruct (REL_read X 57 a3 b3 2 R3 ltac:(lia)) as [[V3 R4]|F4].
    + rewrite V3 in HA. eapply td_rest_term; [|exact HA].
      cbn [rd set_rd]. apply (REL_weaken X (57 - Z.of_N 2)); [lia|exact R4].
    + apply td_rest_fin. cbn [rd set_rd]. exact F4.
  - destruct (load_lt57 (br_drop b1 1)) as [b3|] eqn:LB3.
    + apply td_rest_fin. cbn [rd set_rd].
      eapply FIN_mono; [exact F2|]. eapply mono_trans; [apply (mono_load_lt57 _ _ LB3)|apply mono_drop].
    + cbn [fst snd rd set_rd set_bfinal]. apply FIN_FINE. exact F2.
Qed.

End Term.

(* ================================================================ the theorems *)
Theorem header_restart_monotone_v2 :
  forall s s2, hdr_pre s -> tryDecodeHeader s = (s2, EEndInput) ->
  forall n X s', Forall (fun x => x < 256) (firstn n (r_in (rd s))) ->
    dyn s' = dyn s2 -> tb s' = tb s2 ->
    rd s' = mkBR (r_bits (rd s)) (r_len (rd s)) (firstn n (r_in (rd s)) ++ X)
                 (N.of_nat (length (firstn n (r_in (rd s)))) + N.of_nat (length X)) ->
    restart_ok s' X.
Proof.
  intros s s2 (Hbr & Hlen & _ & _) HA n X s' HF _ _ Hrd.
  assert (HA' : snd (tryDecodeHeader s) = EEndInput) by (rewrite HA; reflexivity).
  assert (Hrel : REL X 0 (rd s) (rd s')).
  { rewrite Hrd. destruct Hbr as (I1 & I2 & I3). clear HA HA'.
    destruct (rd s) as [bits len inp inl]. cbn [r_bits r_len r_in r_inlen] in *.
    rewrite <- (firstn_skipn n inp) at 1.
    apply REL_init; [lia|exact HF| |].
    - rewrite firstn_skipn. exact I1.
    - rewrite app_length. lia. }
  pose proof (tryDecodeHeader_term X s s' Hrel HA') as (F1 & F2).
  unfold restart_ok. unfold lenX in *. split; [lia|exact F2].
Qed.

Print Assumptions header_restart_monotone_v2.

(* the byte-bounded statement: HeaderRestartMonotone as now defined in EngineSafetyHeader.v (after
   the counterexample): bytes_ok on the whole input of the failed attempt and on X *)
Theorem header_restart_monotone : HeaderRestartMonotone.
Proof.
  intros s s2 Hpre Hb HA n X s' _ Hd Ht Hrd.
  apply (header_restart_monotone_v2 s s2 Hpre HA n X s'); try assumption.
  apply Forall_firstn_lt. exact Hb.
Qed.

Print Assumptions header_restart_monotone.
