(* EngineRefineGlue.v -- M4b: setupDynamicHeader refines Inflate.dyn_header, FROM the
   component statements (EngineRefineSpec.setupDynamicHeader_glue_statement). *)
From Coq Require Import List NArith ZArith Bool Lia ZifyBool ZifyNat ZifyN FMapPositive.
From Verif Require Import Bits Huffman HuffmanSpec Inflate.
From Verif Require Import Base EngineTables Engine EngineRefineSpec EngineRefineBits EngineRefineBridge.
From Verif Require HuffmanProofs.
Import ListNotations.
Open Scope N_scope.

(* ---------------------------------------------------------------- arrays *)
Lemma glue_succ_pos_inj : forall i j, N.succ_pos i = N.succ_pos j -> i = j.
Proof.
  intros i j H. apply N.succ_inj. rewrite <- !N.succ_pos_spec. now rewrite H.
Qed.

Lemma glue_aget_aset : forall a i v j, aget (aset a i v) j = if j =? i then v else aget a j.
Proof.
  intros a i v j. unfold aget, aset. destruct (N.eqb_spec j i) as [Heq|Hne].
  - subst j. now rewrite PositiveMap.gss.
  - rewrite PositiveMap.gso; auto. intro H; apply Hne, glue_succ_pos_inj, H.
Qed.

Lemma glue_aget_empty : forall j, aget aempty j = 0.
Proof. intros j. unfold aget, aempty. now rewrite PositiveMap.gempty. Qed.

Lemma arr_zero_empty : arr_zero aempty.
Proof. intros i. apply glue_aget_empty. Qed.

(* the write-back loop of genForDists' codes touches only huffs[286..) *)
Lemma writeback_low : forall codes n i t j, j < 286 ->
  aget (iterN n i (fun i t => aset t (286 + i) (aget codes i)) t) j = aget t j.
Proof.
  intros codes n. induction n as [|n IH]; intros i t j Hj; cbn [iterN]; [reflexivity|].
  rewrite IH by exact Hj. rewrite glue_aget_aset.
  destruct (N.eqb_spec j (286 + i)) as [E|E]; [lia|reflexivity].
Qed.

(* ---------------------------------------------------------------- frames *)
Lemma same_frame_refl : forall s, same_frame s s.
Proof. intros s. unfold same_frame. repeat split; reflexivity. Qed.

Lemma same_frame_trans : forall a b c, same_frame a b -> same_frame b c -> same_frame a c.
Proof.
  intros a b c (A1 & A2 & A3 & A4 & A5 & A6 & A7) (B1 & B2 & B3 & B4 & B5 & B6 & B7).
  unfold same_frame. repeat split; congruence.
Qed.

(* ---------------------------------------------------------------- the code-length-code lengths *)
Lemma glue_take_lt : forall n s v s', take n s = Some (v, s') -> v < 2 ^ N.of_nat n.
Proof.
  induction n as [|n IH]; intros s v s' H; cbn [take] in H.
  - injection H as <- _. cbn. lia.
  - destruct (take1 s) as [[b s1]|]; [|discriminate].
    destruct (take n s1) as [[v2 s2]|] eqn:E; [|discriminate].
    assert (Hv : v = (if b then 1 else 0) + 2 * v2) by congruence.
    apply IH in E.
    rewrite Nat2N.inj_succ, N.pow_succ_r'. destruct b; lia.
Qed.

Lemma read_clens_le7 : forall n s cl s', read_clens n s = HOk cl s' ->
  Forall (fun x => (x <= 7)%nat) cl.
Proof.
  induction n as [|n IH]; intros s cl s' H; cbn [read_clens] in H.
  - injection H as <- _. constructor.
  - destruct (take 3 s) as [[v s1]|] eqn:Et; [|discriminate].
    destruct (read_clens n s1) as [l s2|e0] eqn:Er; [|discriminate].
    injection H as <- _. constructor.
    + apply glue_take_lt in Et. change (2 ^ N.of_nat 3) with 8 in Et. lia.
    + eapply IH; exact Er.
Qed.

Lemma upd_Forall : forall (P : nat -> Prop) i v l, P v -> Forall P l -> Forall P (upd i v l).
Proof.
  intros P i v l Hv Hl. unfold upd.
  rewrite <- (firstn_skipn i l) in Hl. apply Forall_app in Hl. destruct Hl as [H1 H2].
  apply Forall_app. split; [exact H1|].
  destruct (skipn i l) as [|x r]; [constructor|].
  inversion H2 as [|x' r' Hx Hr]; subst. constructor; assumption.
Qed.

Lemma scatter_Forall : forall (P : nat -> Prop) order vals acc,
  Forall P vals -> Forall P acc -> Forall P (scatter order vals acc).
Proof.
  intros P order. induction order as [|o order IH]; intros vals acc Hv Ha; cbn [scatter].
  - exact Ha.
  - destruct vals as [|v vals]; [exact Ha|].
    inversion Hv as [|v' r' Hv1 Hv2]; subst.
    apply IH; [exact Hv2|]. apply upd_Forall; assumption.
Qed.

(* ---------------------------------------------------------------- nextBits *)
Lemma next_bits_facts : forall b k e p, br_wf b -> (Z.of_N k <= r_len b)%Z ->
  forall v b', next_bits b k = (v, b') ->
  br_wf b' /\
  take (N.to_nat k) (mkbs (br_bits b ++ e) p) = Some (v, mkbs (br_bits b' ++ e) (p + k)) /\
  r_len b' = (r_len b - Z.of_N k)%Z /\ r_in b' = r_in b /\ v < 2 ^ k.
Proof.
  intros b k e p Hwf Hk v b' E.
  pose proof (next_bits_take b k e p Hwf Hk) as T. rewrite E in T. destruct T as [T1 T2].
  split; [exact T1|]. split; [exact T2|].
  unfold next_bits in E. injection E as <- <-. cbn [br_drop r_len r_in].
  split; [reflexivity|]. split; [reflexivity|].
  rewrite N.land_ones. apply N.mod_lt. apply N.pow_nonzero. lia.
Qed.

(* ---------------------------------------------------------------- setupDynamicHeader in three pieces *)
(* the part after the code lengths have been read: the two table builders *)
Definition sdh_tail (s : inflate) (multisym : N) : inflate * ierr :=
  let d := dyn s in
  let '(huff, bad) := setCodes (litAndDistHuff d) litLen distLen (distCount d) in
  let d := set_dyn_huff d huff in
  let s := set_dyn s d in
  if bad then (s, EInvalidBlock)
  else
    let codes := forN 0 distLen (fun i t => aset t i (aget huff (litLen + i))) aempty in
    let '(dsh, dlg, codes, gerr) :=
      gen_small false (distShort (tb s)) (distLong (tb s)) codes distLen (distCount d) distLen in
    let huff := forN 0 distLen (fun i t => aset t (litLen + i) (aget codes i)) huff in
    let d := set_dyn_huff d huff in
    let s := set_dyn (set_tb s (mkTB (litShort (tb s)) (litLong (tb s)) dsh dlg)) d in
    if negb (ierr_eqb gerr ENone) then (s, gerr)
    else
      let '(d, err) := setAndExpandLitLenHuffCode d in
      let s := set_dyn s d in
      match err with
      | ENone =>
        let '(lsh, llg, d, err) := genForLitLen (litShort (tb s)) (litLong (tb s)) d multisym in
        let s := set_dyn (set_tb s (mkTB lsh llg (distShort (tb s)) (distLong (tb s)))) d in
        match err with
        | ENone => (set_phase s phaseHeaderDecoded, ENone)
        | _ => (s, err)
        end
      | _ => (s, err)
      end.

(* the part after loadBits *)
Definition sdh_mid (s : inflate) (multisym : N) : inflate * ierr :=
  if (r_len (rd s) <? 14)%Z then (s, EEndInput)
  else
    let '(hlit, b) := next_bits (rd s) 5 in
    let '(hdist, b) := next_bits b 5 in
    let '(hclen, b) := next_bits b 4 in
    let s := set_rd s b in
    if (29 <? hlit) || (29 <? hdist) || (15 <? hclen) then (s, EInvalidBlock)
    else
      let '(s, err) := codeLenCodes s hclen in
      match err with
      | ENone =>
        let '(s, err) := readLitDistLens s hdist hlit in
        match err with
        | ENone =>
          if (r_len (rd s) <? 0)%Z then (s, EEndInput)
          else sdh_tail s multisym
        | _ => (s, err)
        end
      | _ => (s, err)
      end.

Definition sdh_multisym (s : inflate) : N :=
  let ilen := r_inlen (rd s) in
  if negb (bfinal s =? 0) && (ilen <=? 2048) then singleSymFlag
  else if negb (bfinal s =? 0) && (ilen <=? 4096) then doubleSymFlag
  else defaultSymFlag.

Definition sdh_start (s : inflate) : inflate :=
  let d := dyn s in
  set_dyn s (mkDyn aempty (clcShort d) (clcLong d) (codeList d) aempty aempty aempty (nextCode d)
                   (lenHuffCodes d)).

Lemma sdh_eq : forall s,
  setupDynamicHeader s =
  match loadBits (sdh_start s) with
  | None => (sdh_start s, EPanic)
  | Some s1 => sdh_mid s1 (sdh_multisym (sdh_start s))
  end.
Proof. intros s. reflexivity. Qed.

Ltac glue_err_case :=
  cbn [rd set_dyn set_tb set_rd set_phase];
  split; [reflexivity|split; [unfold same_frame; repeat split; reflexivity|discriminate]].

Lemma sdh_tail_ok :
  gen_dist_statement -> gen_litlen_statement ->
  forall ll dl s ms,
    lit_lens_in ll (dyn s) ->
    lens_in dl 286 30 (litAndDistHuff (dyn s)) (distCount (dyn s)) ->
    let '(s', err) := sdh_tail s ms in
    rd s' = rd s /\ same_frame s s' /\
    (err = ENone ->
       phase s' = phaseHeaderDecoded /\
       oversubscribed 15 ll = false /\ oversubscribed 15 dl = false /\
       lit_tab_ok ll (tb s') /\ dist_tab_ok dl (tb s')).
Proof.
  intros Hdist Hlit ll dl s ms Hll Hdl.
  unfold sdh_tail. cbv zeta.
  change litLen with 286. change distLen with 30.
  pose proof (Hdist dl (litAndDistHuff (dyn s)) (distCount (dyn s))
                    (distShort (tb s)) (distLong (tb s)) Hdl) as G.
  destruct (setCodes (litAndDistHuff (dyn s)) 286 30 (distCount (dyn s))) as [huff bad] eqn:Esc.
  destruct G as (G1 & G2 & G3).
  destruct bad.
  - glue_err_case.
  - specialize (G3 eq_refl). cbv zeta in G3.
    cbn [tb set_dyn set_tb distShort distLong litShort litLong distCount set_dyn_huff].
    destruct (gen_small false (distShort (tb s)) (distLong (tb s))
                (forN 0 30 (fun (i : N) (t : arr) => aset t i (aget huff (286 + i))) aempty)
                30 (distCount (dyn s)) 30) as [[[dsh dlg] codes] gerr] eqn:Eg.
    destruct gerr; cbn [ierr_eqb negb]; [ | glue_err_case .. ].
    specialize (G3 eq_refl).
    set (d1 := set_dyn_huff (set_dyn_huff (dyn s) huff)
                 (forN 0 30 (fun (i : N) (t : arr) => aset t (286 + i) (aget codes i)) huff)).
    assert (Hll1 : lit_lens_in ll d1).
    { destruct Hll as ((A1 & A2 & A3 & A4) & B1 & B2).
      unfold lit_lens_in, lens_in, d1.
      cbn [litAndDistHuff litCount litExpandCount set_dyn_huff].
      split; [|split; [exact B1|exact B2]].
      split; [exact A1|]. split; [exact A2|]. split; [|exact A4].
      intros i Hi. unfold forN. rewrite writeback_low by lia.
      rewrite G2 by lia. apply A3. exact Hi. }
    pose proof (Hlit ll d1 (litShort (tb s)) (litLong (tb s)) ms Hll1) as L.
    destruct (setAndExpandLitLenHuffCode d1) as [d2 e1] eqn:Ese.
    destruct L as [L1 L2].
    destruct e1; [ | glue_err_case .. ].
    specialize (L2 eq_refl).
    destruct (genForLitLen (litShort (tb s)) (litLong (tb s)) d2 ms) as [[[lsh llg] d3] e2] eqn:Egl.
    destruct e2; [ | glue_err_case .. ].
    specialize (L2 eq_refl).
    cbn [rd tb phase set_dyn set_tb set_rd set_phase].
    split; [reflexivity|]. split; [unfold same_frame; repeat split; reflexivity|].
    intros _. split; [reflexivity|].
    split.
    { apply not_true_is_false. intros Eo. apply (proj2 L1) in Eo. discriminate Eo. }
    split; [symmetry; exact G1|].
    split; [apply L2|apply G3].
Qed.

Lemma sdh_mid_ok :
  gen_clc_statement -> gen_dist_statement -> gen_litlen_statement ->
  codeLenCodes_refine_statement -> readLitDistLens_refine_statement ->
  forall s ms e p,
    br_wf (rd s) -> br_loaded 57 (rd s) ->
    arr_zero (litAndDistHuff (dyn s)) -> arr_zero (litCount (dyn s)) ->
    arr_zero (distCount (dyn s)) -> arr_zero (litExpandCount (dyn s)) ->
    let '(s', err) := sdh_mid s ms in
    br_wf (rd s') /\ same_frame s s' /\
    (err = ENone ->
       (0 <= r_len (rd s'))%Z /\ phase s' = phaseHeaderDecoded /\
       exists ll dl lt dt p',
         dyn_header (mkbs (br_bits (rd s) ++ e) p) = HOk (lt, dt) (mkbs (br_bits (rd s') ++ e) p') /\
         mktrie 15 ll = Some lt /\ mktrie 15 dl = Some dt /\
         lit_tab_ok ll (tb s') /\ dist_tab_ok dl (tb s')).
Proof.
  intros Hclc Hdist Hlit Hclcr Hrl s ms e p Hwf Hld Z1 Z2 Z3 Z4.
  unfold sdh_mid.
  destruct (r_len (rd s) <? 14)%Z eqn:E14.
  { split; [exact Hwf|]. split; [apply same_frame_refl|discriminate]. }
  destruct (next_bits (rd s) 5) as [hlit b1] eqn:N1.
  destruct (next_bits_facts (rd s) 5 e p Hwf ltac:(lia) hlit b1 N1) as (W1 & T1 & R1 & I1 & V1).
  destruct (next_bits b1 5) as [hdist b2] eqn:N2.
  destruct (next_bits_facts b1 5 e (p + 5) W1 ltac:(lia) hdist b2 N2) as (W2 & T2 & R2 & I2 & V2).
  destruct (next_bits b2 4) as [hclen b3] eqn:N3.
  destruct (next_bits_facts b2 4 e (p + 5 + 5) W2 ltac:(lia) hclen b3 N3) as (W3 & T3 & R3 & I3 & V3).
  change (N.to_nat 5) with 5%nat in T1, T2. change (N.to_nat 4) with 4%nat in T3.
  change (2 ^ 5) with 32 in V1, V2. change (2 ^ 4) with 16 in V3.
  cbv zeta.
  assert (FR2 : same_frame s (set_rd s b3)) by (unfold same_frame; repeat split; reflexivity).
  destruct ((29 <? hlit) || (29 <? hdist) || (15 <? hclen)) eqn:Eb.
  { split; [exact W3|]. split; [exact FR2|discriminate]. }
  apply orb_false_iff in Eb. destruct Eb as [Eb Eb3].
  pose proof Eb as Eb12.
  apply orb_false_iff in Eb. destruct Eb as [Eb1 Eb2].
  set (s2 := set_rd s b3) in *.
  assert (C1 : br_wf (rd s2)) by exact W3.
  assert (C2 : (0 <= r_len (rd s2))%Z) by (change (rd s2) with b3; lia).
  assert (C3 : br_loaded 12 (rd s2)).
  { change (rd s2) with b3. destruct Hld as [Hl|Hl]; [left; rewrite I3, I2, I1; exact Hl|right; lia]. }
  assert (C4 : hclen <= 15) by lia.
  pose proof (Hclcr Hclc s2 hclen e (p + 5 + 5 + 4) C1 C2 C3 C4) as C.
  destruct (codeLenCodes s2 hclen) as [s3 err3] eqn:E3.
  destruct C as (CW & CF & CT & CP & CA1 & CA2 & CA3 & CA4 & CE).
  assert (FR3 : same_frame s s3) by (eapply same_frame_trans; [exact FR2|exact CF]).
  destruct err3.
  2-8: (split; [exact CW|split; [exact FR3|discriminate]]).
  destruct (CE eq_refl) as (C0 & cl & Crc & CE2). cbv zeta in CE2. destruct CE2 as (Cov & Ctab).
  change (rd s2) with b3 in Crc.
  assert (Hcl7 : Forall (fun x => (x <= 7)%nat) (scatter clen_order cl (repeat 0%nat 19))).
  { apply scatter_Forall.
    - eapply read_clens_le7. exact Crc.
    - apply Forall_forall. intros x Hx. apply repeat_spec in Hx. lia. }
  destruct (HuffmanProofs.kraft_sufficient 7%nat _ ltac:(lia) Hcl7 Cov) as [ct Hct].
  assert (ZZ1 : arr_zero (litAndDistHuff (dyn s3))) by (intros i; rewrite CA1; apply Z1).
  assert (ZZ2 : arr_zero (litCount (dyn s3))) by (intros i; rewrite CA2; apply Z2).
  assert (ZZ3 : arr_zero (distCount (dyn s3))) by (intros i; rewrite CA3; apply Z3).
  assert (ZZ4 : arr_zero (litExpandCount (dyn s3))) by (intros i; rewrite CA4; apply Z4).
  assert (Hhl : hlit <= 29) by lia.
  assert (Hhd : hdist <= 29) by lia.
  pose proof (Hrl s3 hlit hdist _ ct e (p + 5 + 5 + 4 + 3 * (hclen + 4)) CW C0 Hhl Hhd Hct Ctab
                  ZZ1 ZZ2 ZZ3 ZZ4) as R.
  destruct (readLitDistLens s3 hdist hlit) as [s4 err4] eqn:E4.
  destruct R as (RW & RF & RT & RP & RE).
  assert (FR4 : same_frame s s4) by (eapply same_frame_trans; [exact FR3|exact RF]).
  destruct err4.
  2-8: (split; [exact RW|split; [exact FR4|discriminate]]).
  destruct (r_len (rd s4) <? 0)%Z eqn:Eneg.
  { split; [exact RW|]. split; [exact FR4|discriminate]. }
  specialize (RE eq_refl ltac:(lia)). cbv zeta in RE.
  destruct RE as (all & p' & Rrl & Rlen & Rnz & Rll & Rdl).
  pose proof (sdh_tail_ok Hdist Hlit _ _ s4 ms Rll Rdl) as TT.
  destruct (sdh_tail s4 ms) as [s5 err5] eqn:E5.
  destruct TT as (TR & TF & TE).
  split; [rewrite TR; exact RW|].
  split; [eapply same_frame_trans; [exact FR4|exact TF]|].
  intros Herr. destruct (TE Herr) as (TP & To1 & To2 & Tl & Td).
  split; [rewrite TR; lia|]. split; [exact TP|].
  destruct Rll as ((_ & Fll & _) & _). destruct Rdl as (_ & Fdl & _).
  destruct (HuffmanProofs.kraft_sufficient 15%nat _ ltac:(lia) Fll To1) as [lt Hlt].
  destruct (HuffmanProofs.kraft_sufficient 15%nat _ ltac:(lia) Fdl To2) as [dt Hdt].
  eexists _, _, lt, dt, p'.
  split; [|split; [exact Hlt|split; [exact Hdt|split; [exact Tl|exact Td]]]].
  unfold dyn_header. rewrite T1, T2, T3, Eb12, Crc. cbv zeta. rewrite Hct, Rrl.
  destruct (Nat.eqb_spec (nth 256 (firstn (N.to_nat hlit + 257) all) 0%nat) 0%nat) as [Hz|Hz];
    [contradiction|].
  rewrite Hlt, Hdt. rewrite TR. reflexivity.
Qed.

(* ---------------------------------------------------------------- the glue *)
Theorem setupDynamicHeader_glue : setupDynamicHeader_glue_statement.
Proof.
  intros Hclc Hdist Hlit Hclcr Hrl s e p Hwf H0.
  rewrite sdh_eq.
  set (s0 := sdh_start s).
  assert (FR0 : same_frame s s0) by (unfold same_frame; repeat split; reflexivity).
  assert (Hwf0 : br_wf (rd s0)) by exact Hwf.
  unfold loadBits.
  destruct (load_lt57_bits (rd s0) Hwf0) as (b1 & L1 & L2 & L3 & L4 & L5).
  rewrite L1.
  assert (FR1 : same_frame s (set_rd s0 b1)) by (unfold same_frame; repeat split; reflexivity).
  pose proof (sdh_mid_ok Hclc Hdist Hlit Hclcr Hrl (set_rd s0 b1) (sdh_multisym s0) e p L2 L4
                arr_zero_empty arr_zero_empty arr_zero_empty arr_zero_empty) as M.
  destruct (sdh_mid (set_rd s0 b1) (sdh_multisym s0)) as [s' err] eqn:Em.
  destruct M as (M1 & M2 & M3).
  split; [exact M1|].
  split; [eapply same_frame_trans; [exact FR1|exact M2]|].
  intros Herr. destruct (M3 Herr) as (M4 & M5 & ll & dl & lt & dt & p' & M6 & M7 & M8 & M9 & M10).
  split; [exact M4|]. split; [exact M5|].
  exists ll, dl, lt, dt, p'.
  split; [|split; [exact M7|split; [exact M8|split; [exact M9|exact M10]]]].
  change (rd (set_rd s0 b1)) with b1 in M6. rewrite L3 in M6. exact M6.
Qed.

Print Assumptions setupDynamicHeader_glue.
