(* EngineCompleteRestartBase.v -- two-run simulation of the bit reader, for restart_loads
   (RModel/EngineCompleteSpecA.v).

   Run A reads the input I, run B the input I ++ X from the same bit buffer.  `sim X a b`
   relates the two readers as long as both runs are in step; `done X b` says that run B has
   at most |X| bytes unloaded (it has loaded all of I).  Every primitive keeps `sim` or
   reaches `done`; r_inlen only decreases, so `done` is kept by everything. *)
From Coq Require Import List NArith ZArith Bool Lia ZifyBool ZifyNat ZifyN.
From Verif Require Import Bits Huffman HuffmanSpec Inflate InflateSpec InflateMono.
From Verif Require Import Base EngineTables Engine EngineRefineSpec EngineRefineSpecBlock
     EngineRefineSpecHdr EngineRefineSpecNeed EngineCompleteSpecA EngineRefineBits
     EngineRefineBridge.
From Verif Require Import EngineRefineHeaderBase EngineRefineHeaderDec EngineRefineHBound.
Import ListNotations.
Open Scope N_scope.

Definition done (X : list N) (b : bitrd) : Prop := r_inlen b <= N.of_nat (length X).

Definition sim (X : list N) (a b : bitrd) : Prop :=
  br_wf a /\ br_wf b /\ r_len b = r_len a /\ (0 <= r_len a)%Z /\ r_in b = r_in a ++ X /\
  br_bits b = br_bits a ++ bits_of_bytes X.

Lemma done_le : forall X b b', done X b -> r_inlen b' <= r_inlen b -> done X b'.
Proof. intros X b b' H1 H2. unfold done in *. lia. Qed.

Lemma sim_empty_done : forall X a b, sim X a b -> r_in a = [] -> done X b.
Proof.
  intros X a b (Wa & Wb & Hl & H0 & Hin & Hb) He. unfold done.
  destruct Wb as (W1 & _). rewrite W1, Hin, He. cbn [app]. lia.
Qed.

Lemma sim_loaded : forall X a b k, sim X a b -> br_loaded k a -> done X b \/ (k <= r_len a)%Z.
Proof.
  intros X a b k Hs [Hl|Hl]; [left; exact (sim_empty_done X a b Hs Hl)|right; exact Hl].
Qed.

(* sim from the shape (same bitsLen, input = input ++ X) and the abstract streams *)
Lemma sim_intro : forall X a b, br_wf a -> br_wf b -> r_len b = r_len a -> (0 <= r_len a)%Z ->
  r_in b = r_in a ++ X -> br_bits b = br_bits a ++ bits_of_bytes X -> sim X a b.
Proof. intros X a b H1 H2 H3 H4 H5 H6. unfold sim. exact (conj H1 (conj H2 (conj H3 (conj H4 (conj H5 H6))))). Qed.

(* ---------------------------------------------------------------- the initial states *)
Lemma nth_true_lt : forall (l : list bool) i, nth i l false = true -> (i < length l)%nat.
Proof.
  intros l i H. destruct (Nat.ltb_spec i (length l)) as [Hlt|Hge]; [exact Hlt|].
  rewrite nth_overflow in H by exact Hge. discriminate.
Qed.

Lemma sim_init : forall X a,
  br_wf a -> (0 <= r_len a)%Z -> Forall (fun x => x < 256) X ->
  sim X a (mkBR (r_bits a) (r_len a) (r_in a ++ X) (r_inlen a + N.of_nat (length X))).
Proof.
  intros X a Hwf H0 HX. pose proof Hwf as (W1 & W2 & W3 & W4 & W5).
  assert (Hb : br_bits (mkBR (r_bits a) (r_len a) (r_in a ++ X) (r_inlen a + N.of_nat (length X)))
               = br_bits a ++ bits_of_bytes X).
  { unfold br_bits. cbn [r_bits r_len r_in]. rewrite bits_of_bytes_app, app_assoc. reflexivity. }
  apply sim_intro; try assumption; try reflexivity.
  unfold br_wf. rewrite Hb. cbn [r_bits r_len r_in r_inlen].
  split; [rewrite app_length; lia|]. split; [exact W2|]. split; [intros; lia|].
  split; [apply Forall_app; split; assumption|].
  intros i Hi. apply W5 in Hi. rewrite app_nth1; [exact Hi|]. apply nth_true_lt. exact Hi.
Qed.

(* ---------------------------------------------------------------- r_inlen only decreases *)
Lemma load_bytes_mono : forall n b, r_inlen (load_bytes n b) <= r_inlen b.
Proof.
  induction n as [|n IH]; intros b; cbn [load_bytes]; [lia|].
  destruct (r_in b) as [|x rest]; [lia|].
  etransitivity; [apply IH|]. cbn [r_inlen]. lia.
Qed.

Lemma load_raw_mono : forall b b', load_raw b = Some b' -> r_inlen b' <= r_inlen b.
Proof.
  intros b b' H. unfold load_raw in H.
  destruct (r_len b <? 0)%Z.
  { destruct (r_inlen b =? 0); [|discriminate]. injection H as <-. lia. }
  destruct (64 <? r_len b)%Z; [discriminate|].
  destruct (8 <=? r_inlen b).
  - destruct (r_in b) as [|a0 [|a1 [|a2 [|a3 [|a4 [|a5 [|a6 [|a7 rest]]]]]]]]; try discriminate.
    injection H as <-. cbn [r_inlen]. lia.
  - injection H as <-. apply load_bytes_mono.
Qed.

Lemma load_lt57_mono : forall b b', load_lt57 b = Some b' -> r_inlen b' <= r_inlen b.
Proof.
  intros b b' H. unfold load_lt57 in H. destruct (r_len b <? 57)%Z.
  - apply load_raw_mono; exact H.
  - injection H as <-. lia.
Qed.

Lemma load_le15_mono : forall b b', load_le15 b = Some b' -> r_inlen b' <= r_inlen b.
Proof.
  intros b b' H. unfold load_le15 in H. destruct (r_len b <=? 15)%Z.
  - apply load_raw_mono; exact H.
  - injection H as <-. lia.
Qed.

Lemma clc_decode_inlen : forall clcS clcL b sym b',
  clc_decode clcS clcL b = Some (sym, b') -> r_inlen b' = r_inlen b.
Proof.
  intros clcS clcL b sym b' H. rewrite clc_decode_look in H.
  destruct (clc_look clcS clcL (r_bits b)) as [[s c]|]; [|discriminate].
  injection H as _ <-. reflexivity.
Qed.

