(* EngineRefineHeaderDec.v -- M4a: one code-length symbol.  clc_decode looks at the low 16 bits
   of the buffer only, hence a table that decodes `canon cl` exactly (clc_tab_ok) has no code
   word longer than 16 bits; load_le15 + clc_decode is the reference's decode_sym. *)
From Coq Require Import List NArith ZArith Bool Lia ZifyBool ZifyNat ZifyN.
From Verif Require Import Bits Huffman HuffmanSpec Inflate.
From Verif Require Import Base EngineTables Engine EngineRefineSpec EngineRefineBits EngineRefineBridge.
From Verif Require HuffmanProofs.
From Verif Require Import EngineRefineHeaderBase.
Import ListNotations.
Open Scope N_scope.

(* ---------------------------------------------------------------- symbols of canon are unique *)
Lemma assign_sym_ge : forall l sym nc s x c, In (s, x, c) (assign l sym nc) -> (sym <= s)%nat.
Proof.
  induction l as [|x0 r IH]; intros sym nc s x c H; [destruct H|].
  cbn [assign] in H. destruct (Nat.eqb x0 0).
  - apply IH in H. lia.
  - destruct H as [E|H]; [injection E as <- <- <-; lia|]. apply IH in H. lia.
Qed.

Lemma assign_sym_unique : forall l sym nc s x c x' c',
  In (s, x, c) (assign l sym nc) -> In (s, x', c') (assign l sym nc) -> x = x' /\ c = c'.
Proof.
  induction l as [|x0 r IH]; intros sym nc s x c x' c' H H'; [destruct H|].
  cbn [assign] in H, H'. destruct (Nat.eqb x0 0).
  - eapply IH; eassumption.
  - destruct H as [E|H]; destruct H' as [E'|H'].
    + injection E as <- <- <-. injection E' as <- <-. split; reflexivity.
    + injection E as <- <- <-. apply assign_sym_ge in H'. lia.
    + injection E' as <- <- <-. apply assign_sym_ge in H. lia.
    + eapply IH; eassumption.
Qed.

Lemma canon_sym_unique : forall l s x c x' c',
  In (s, x, c) (canon l) -> In (s, x', c') (canon l) -> x = x' /\ c = c'.
Proof. intros l s x c x' c'. unfold canon. apply assign_sym_unique. Qed.

(* ---------------------------------------------------------------- clc_decode as a lookup *)
Definition clc_look (clcS clcL : arr) (v : N) : option (N * N) :=
  let nextBits := N.land v 1023 in
  let nextSym := aget clcS nextBits in
  if N.land nextSym smallFlagBit =? 0 then
    let bitCount := N.shiftr nextSym 11 in
    let nextSym := if bitCount =? 0 then invalidSymbolValue else nextSym in
    Some (N.land nextSym 511, bitCount)
  else
    let bitMask := ones32 (N.shiftr (u32 (nextSym - smallFlagBit)) 11) in
    let nextBits := u16 (N.land (u32 v) bitMask) in
    let idx := u16 (N.land nextSym 511 + N.shiftr nextBits 10) in
    if 80 <=? idx then None
    else
      let nextSym := aget clcL idx in
      Some (N.land nextSym 511, N.shiftr nextSym 10).

Lemma clc_decode_look : forall clcS clcL b,
  clc_decode clcS clcL b =
  match clc_look clcS clcL (r_bits b) with
  | Some (sym, cnt) => Some (sym, br_drop b cnt)
  | None => None
  end.
Proof.
  intros clcS clcL b. unfold clc_decode, clc_look.
  destruct (N.land (aget clcS (N.land (r_bits b) 1023)) smallFlagBit =? 0); [reflexivity|].
  match goal with |- context[80 <=? ?x] => destruct (80 <=? x) end; reflexivity.
Qed.

Lemma land_low16_1023 : forall v, N.land v 1023 = N.land (N.land v 65535) 1023.
Proof. intros v. rewrite <- N.land_assoc. reflexivity. Qed.

Lemma u16_land_u32_low16 : forall v m,
  u16 (N.land (u32 v) m) = u16 (N.land (u32 (N.land v 65535)) m).
Proof.
  intros v m. unfold u16, u32. change mask16 with (N.ones 16). change 65535 with (N.ones 16).
  apply N.bits_inj. intros n. rewrite !N.land_spec.
  destruct (N.ltb_spec n 16) as [H|H].
  - rewrite (N.ones_spec_low 16 n H). rewrite !andb_true_r. reflexivity.
  - rewrite (N.ones_spec_high 16 n H). rewrite !andb_false_r. reflexivity.
Qed.

Lemma clc_look_low16 : forall clcS clcL v v', N.land v 65535 = N.land v' 65535 ->
  clc_look clcS clcL v = clc_look clcS clcL v'.
Proof.
  intros clcS clcL v v' H. unfold clc_look.
  rewrite (land_low16_1023 v), (land_low16_1023 v'), H.
  rewrite (u16_land_u32_low16 v), (u16_land_u32_low16 v'), H. reflexivity.
Qed.

(* ---------------------------------------------------------------- no code word over 16 bits *)
Lemma rcode_lt : forall len c, rcode len c < 2 ^ N.of_nat len.
Proof.
  intros len c. unfold rcode. rewrite <- (code_bits_length len c) at 2. apply N_of_bits_lt.
Qed.

Lemma cw_match_self : forall len c, cw_match (rcode len c) len c.
Proof.
  intros len c. unfold cw_match. rewrite N.land_ones. apply N.mod_small. apply rcode_lt.
Qed.

Lemma clc_tab_len16 : forall cl clcS clcL d len c,
  clc_tab_ok cl clcS clcL -> In (d, len, c) (canon cl) -> (len <= 16)%nat.
Proof.
  intros cl clcS clcL d len c Hok Hin.
  destruct (le_lt_dec len 16) as [Hle|Hgt]; [exact Hle|]. exfalso.
  set (v := rcode len c).
  set (k := N.of_nat len - 1).
  set (v' := N.lxor v (2 ^ k)).
  set (b := mkBR v 0%Z [] 0). set (b' := mkBR v' 0%Z [] 0).
  pose proof (proj1 (Hok b) d len c Hin (cw_match_self len c)) as D.
  rewrite clc_decode_look in D. cbn [r_bits b] in D.
  assert (Hlow : N.land v' 65535 = N.land v 65535).
  { change 65535 with (N.ones 16). apply N.bits_inj. intros n. rewrite !N.land_spec.
    destruct (N.ltb_spec n 16) as [H|H].
    - unfold v'. rewrite N.lxor_spec, N.pow2_bits_false by (unfold k; lia).
      rewrite xorb_false_r. reflexivity.
    - rewrite (N.ones_spec_high 16 n H). rewrite !andb_false_r. reflexivity. }
  rewrite <- (clc_look_low16 clcS clcL v' v Hlow) in D.
  assert (D' : clc_decode clcS clcL b' = Some (N.of_nat d, br_drop b' (N.of_nat len))).
  { rewrite clc_decode_look. cbn [r_bits b'].
    destruct (clc_look clcS clcL v') as [[sym cnt]|]; [|discriminate].
    assert (D1 : sym = N.of_nat d) by congruence.
    assert (D2 : r_len (br_drop b cnt) = r_len (br_drop b (N.of_nat len))) by congruence.
    subst sym. unfold br_drop, b in D2. cbn [r_len] in D2.
    assert (cnt = N.of_nat len) by lia. subst cnt. reflexivity. }
  destruct (canon_match_dec (canon cl) v') as [(s1 & len1 & c1 & Hin1 & Hm1)|Hnone].
  - pose proof (proj1 (Hok b') s1 len1 c1 Hin1 Hm1) as D1. rewrite D' in D1.
    assert (E1 : N.of_nat d = N.of_nat s1) by congruence.
    assert (E2 : r_len (br_drop b' (N.of_nat len)) = r_len (br_drop b' (N.of_nat len1))) by congruence.
    unfold br_drop, b' in E2. cbn [r_len] in E2.
    assert (s1 = d) by lia. assert (len1 = len) by lia. subst s1 len1.
    destruct (canon_sym_unique _ _ _ _ _ _ Hin Hin1) as [_ Ec]. subst c1.
    unfold cw_match in Hm1. fold v in Hm1.
    apply (f_equal (fun x => N.testbit x k)) in Hm1.
    rewrite N.land_spec, N.ones_spec_low in Hm1 by (unfold k; lia).
    unfold v' in Hm1. rewrite N.lxor_spec, N.pow2_bits_true in Hm1.
    destruct (N.testbit v k); discriminate.
  - pose proof (proj2 (Hok b') Hnone) as D1. rewrite D' in D1.
    assert (E2 : r_len (br_drop b' (N.of_nat len)) = r_len b') by congruence.
    unfold br_drop, b' in E2. cbn [r_len] in E2. lia.
Qed.

(* ---------------------------------------------------------------- one decoded symbol *)
Lemma clc_step : forall cl ct clcS clcL b0,
  mktrie 7 cl = Some ct -> clc_tab_ok cl clcS clcL -> br_wf b0 ->
  exists b1 sym b2,
    load_le15 b0 = Some b1 /\ clc_decode clcS clcL b1 = Some (sym, b2) /\ br_wf b2 /\
    ((r_len b0 < 0)%Z -> (r_len b2 < 0)%Z) /\
    ((0 <= r_len b2)%Z ->
       sym = 511 \/
       exists d len, sym = N.of_nat d /\
         forall e p, decode_sym ct (mkbs (br_bits b0 ++ e) p)
                     = DOk d (mkbs (br_bits b2 ++ e) (p + N.of_nat len))).
Proof.
  intros cl ct clcS clcL b0 Hmk Hok Hwf.
  destruct (load_le15_bits b0 Hwf) as (b1 & L1 & L2 & L3 & L4 & L5).
  assert (Hneg : (r_len b0 < 0)%Z -> b1 = b0).
  { intros Hn. apply (load_le15_neg b0 b1 Hn L1). }
  destruct (canon_match_dec (canon cl) (r_bits b1)) as [(d & len & c & Hin & Hm)|Hnone].
  - pose proof (clc_tab_len16 _ _ _ _ _ _ Hok Hin) as Hlen.
    pose proof (proj1 (Hok b1) d len c Hin Hm) as D.
    exists b1, (N.of_nat d), (br_drop b1 (N.of_nat len)).
    split; [exact L1|]. split; [exact D|].
    split; [apply br_drop_wf; [exact L2|apply (br_loaded_mono 16 _ b1); [lia|exact L4]]|].
    split.
    + intros Hn. rewrite (Hneg Hn). rewrite br_drop_len. lia.
    + intros H0. right. exists d, len. split; [reflexivity|]. intros e p.
      rewrite br_drop_len in H0. rewrite <- L3.
      apply (cw_match_decode 7 cl ct d len c b1 e p Hmk Hin L2 ltac:(lia) Hm).
  - pose proof (proj2 (Hok b1) Hnone) as D.
    exists b1, 511, b1. split; [exact L1|]. split; [exact D|]. split; [exact L2|].
    split.
    + intros Hn. rewrite (Hneg Hn). exact Hn.
    + intros _. left. reflexivity.
Qed.

(* load_raw then k extra bits *)
Lemma xbits_step : forall b k, br_wf b -> (0 <= r_len b)%Z -> k <= 57 ->
  exists b1 v b2,
    load_raw b = Some b1 /\ next_bits b1 k = (v, b2) /\ br_wf b2 /\
    ((0 <= r_len b2)%Z -> forall e p,
       take (N.to_nat k) (mkbs (br_bits b ++ e) p) = Some (v, mkbs (br_bits b2 ++ e) (p + k))).
Proof.
  intros b k Hwf H0 Hk.
  destruct (load_raw_bits b Hwf) as (b1 & L1 & L2 & L3 & L4 & L5 & L6).
  assert (Hl : br_loaded (Z.of_N k) b1) by (apply (br_loaded_mono 57 _ b1); [lia|exact L4]).
  destruct (next_bits_step b1 k L2 Hl) as (S1 & S2 & S3 & S4 & S5).
  exists b1, (fst (next_bits b1 k)), (snd (next_bits b1 k)).
  split; [exact L1|]. split; [apply surjective_pairing|]. split; [exact S1|].
  intros Hp e p. rewrite <- L3. apply (S5 Hp).
Qed.

Print Assumptions clc_step.
