(* GzEngineCorollaries.v -- consequences of gz_sound_statement through the container theorems of
   proofs/ContainersProofs.v: io.EOF only with matching CRC-32/ISIZE in every member
   (gz_stream), and no clean io.EOF on a truncated member. *)
From Coq Require Import List NArith ZArith Bool Lia.
From Verif Require Import Bits Huffman Inflate InflateSpec InflateMono.
From Verif Require Import Containers ContainersSpec ContainersProofs.
From Verif Require Import Base Engine EngineReset EngineRefineSpecBuf GzEngine GzEngineSpec.
Import ListNotations.
Open Scope N_scope.

(* (stated for an abstract pair p: the kernel must never be led to unfold gzNewReader, whose
   loops run on big_fuel) *)
Lemma run_shape : forall (p : gzreader * gres) (f : gzreader -> list (list N * gres)) e0 l,
  (let '(z, e) := p in if negb (gnil e) then (e, []) else (e, f z)) = (e0, l) ->
  l <> [] -> e0 = GR ROk.
Proof.
  intros [z e] f e0 l H Hl.
  destruct (gnil e) eqn:Eg; cbn [negb] in H.
  - inversion H; subst.
    destruct e0 as [r| | | | |]; try discriminate Eg. destruct r; try discriminate Eg. reflexivity.
  - inversion H; subst. contradiction Hl. reflexivity.
Qed.

Lemma gzrun_unfold : forall bufsize cs t multi reads,
  gzrun bufsize cs t multi reads =
  (let '(z, e) := gzNewReader (mkbufrd bufsize cs t) in
   if negb (gnil e) then (e, []) else (e, fst (gz_reads_g (gzMultistream z multi) reads []))).
Proof. intros. unfold gzrun. reflexivity. Qed.

Lemma gzrun_nonempty_ok : forall bufsize cs t multi reads e0 l,
  gzrun bufsize cs t multi reads = (e0, l) -> l <> [] -> e0 = GR ROk.
Proof.
  intros bufsize cs t multi reads e0 l H Hl.
  rewrite gzrun_unfold in H.
  exact (run_shape _ (fun z => fst (gz_reads_g (gzMultistream z multi) reads [])) e0 l H Hl).
Qed.

Lemma in_nonempty : forall (A B : Type) (f : A -> B) (x : B) l, In x (map f l) -> l <> [].
Proof. intros A B f x [|a l] H; [destruct H|discriminate]. Qed.

Theorem gz_eof_checked_eng_from : gz_sound_statement -> gz_eof_checked_eng_statement.
Proof.
  intros HS data cs bufsize t multi reads Hb Hcs Hne.
  specialize (HS data cs bufsize t multi reads Hb Hcs Hne).
  destruct (gzrun bufsize cs t multi reads) as [e0 l] eqn:Er.
  destruct HS as (H1 & _ & _ & H4 & _).
  intros Hin. destruct (H4 Hin) as (Herr & Hbytes).
  assert (Hl : l <> []).
  { intros ->. destruct Hin. }
  pose proof (gzrun_nonempty_ok _ _ _ _ _ _ _ Er Hl) as He0.
  rewrite Hbytes. apply gz_eof_checked; [exact Hb|exact Herr|exact (H1 He0)].
Qed.

Lemma concat_nil_nonempty : forall (cs : list (list N)),
  concat cs = [] -> Forall (fun c => c <> []) cs -> cs = [].
Proof.
  intros [|c cs] H Hne; [reflexivity|].
  inversion Hne as [|? ? Hc _]; subst. cbn in H. destruct c; [contradiction Hc; reflexivity|discriminate].
Qed.

Theorem gz_truncated_eng_from : gz_sound_statement -> gz_truncated_eng_statement.
Proof.
  intros HS h body payload k cs bufsize t reads multi Hh Hbody Hb Hk Hcs Hne.
  subst multi.
  assert (Hb' : bytes_ok (firstn k (gz_member h body payload))).
  { unfold bytes_ok. apply Forall_firstn'. exact Hb. }
  specialize (HS (firstn k (gz_member h body payload)) cs bufsize t true reads Hb' Hcs Hne).
  pose proof (gz_payload_prefix inflate_mono inflate_never_fuel h body payload k Hh Hbody Hk) as HP.
  cbv zeta in HP. destruct HP as (P1 & P2).
  destruct (gzrun bufsize cs t true reads) as [e0 l] eqn:Er.
  destruct HS as (H1 & _ & H3 & _ & H5).
  assert (Hk0 : k = 0%nat -> e0 <> GR ROk).
  { intros -> He0. specialize (H1 He0). cbn in H1. discriminate H1. }
  split; [|split].
  - destruct P2 as [P2|(P2 & _)].
    + apply H5. rewrite P2. discriminate.
    + intros Hin. apply (Hk0 P2).
      exact (gzrun_nonempty_ok _ _ _ _ _ _ _ Er (in_nonempty _ _ _ _ _ Hin)).
  - destruct H3 as [u Hu]. destruct P1 as [v Hv]. exists (u ++ v).
    rewrite Hv, Hu. rewrite app_assoc. reflexivity.
  - exact Hk0.
Qed.

(* ContainersProofs.gz_payload_prefix for either Multistream setting (same proof: a truncated
   member fails before the setting is looked at) *)
Lemma gz_payload_prefix_any : forall multi h body payload k,
  ghdr_ok h -> body_for body payload ->
  (k < length (gz_member h body payload))%nat ->
  let r := gz_read multi (firstn k (gz_member h body payload)) in
  is_prefix (g_payload r) payload /\ (g_err r = CUnexpectedEOF \/ (k = 0%nat /\ g_err r = CEOF)).
Proof.
  intros multi h body payload k Hh Hb Hk r. subst r.
  pose proof inflate_mono as M.
  unfold gz_member in *. rewrite app_length in Hk.
  destruct (lt_dec k (length (gz_header h))) as [L|L].
  - rewrite firstn_app_le by lia. unfold gz_read.
    rewrite (parse_header_trunc h k Hh L). cbn [g_payload g_err].
    split; [now exists payload|]. destruct k; auto.
  - rewrite firstn_app_ge by lia. unfold gz_read.
    rewrite (gz_header_roundtrip h _ Hh). cbn [gz_members].
    rewrite app_length, trailer_len in Hk.
    destruct (read_body_trunc M body payload (k - length (gz_header h)) Hb) as (p & rest' & E & Hp);
      [lia|].
    rewrite E. cbn [app g_payload g_err]. split; [exact Hp|now left].
Qed.

Theorem gz_truncated_eng_single_from : gz_sound_statement -> gz_truncated_eng_single_statement.
Proof.
  intros HS h body payload k cs bufsize t reads Hh Hbody Hb Hk Hcs Hne.
  assert (Hb' : bytes_ok (firstn k (gz_member h body payload))).
  { unfold bytes_ok. apply Forall_firstn'. exact Hb. }
  specialize (HS (firstn k (gz_member h body payload)) cs bufsize t false reads Hb' Hcs Hne).
  pose proof (gz_payload_prefix_any false h body payload k Hh Hbody Hk) as HP.
  cbv zeta in HP. destruct HP as (P1 & P2).
  destruct (gzrun bufsize cs t false reads) as [e0 l] eqn:Er.
  destruct HS as (H1 & _ & H3 & _ & H5).
  destruct P2 as [P2|(P2 & _)].
  - apply H5. rewrite P2. discriminate.
  - subst k. intros Hin.
    pose proof (gzrun_nonempty_ok _ _ _ _ _ _ _ Er (in_nonempty _ _ _ _ _ Hin)) as He0.
    specialize (H1 He0). cbn in H1. discriminate H1.
Qed.

Print Assumptions gz_eof_checked_eng_from.
Print Assumptions gz_truncated_eng_from.
Print Assumptions gz_truncated_eng_single_from.
