(* GzEngineSafeGz.v -- GzEngineSpec3: gz_safe_statement (no panic / no stuck for the gzip reader
   model) from the engine layer of GzEngineSpec3 section E, taken as hypotheses:
     gz_safe_from : dRead_rs_statement -> newReader_on_rs_statement -> dReset_rs_statement ->
                    sbuf_of_strm_statement -> gz_safe_statement.

   Plan: an invariant SG_inv of the gzreader between Reads (z.err = nil): the bufio model holds a
   suffix of the source, its size is at most BUFMAX, the decompressor (on that buffer) satisfies
   rs_inv.  One Read (gzRead_loop, any fuel not smaller than 1/8 of the bytes left: every turn of
   the "for n == 0" loop consumes the 8 bytes of a trailer, and a Read of the decompressor only
   shortens the stream -- by shift invariance + dRead_strm), then the run with error stickiness,
   then gzrun. *)
From Coq Require Import List NArith ZArith Bool Lia ZifyBool ZifyNat ZifyN.
From Verif Require Import Bits Huffman Inflate InflateSpec.
From Verif Require Import Containers ContainersSpec.
From Verif Require Import Base Engine EngineReset EngineRefineSpecBuf
     EngineSafetyBase EngineSafetyInv EngineSafetyBuf EngineSafetyHeader EngineSafety GzEngine GzEngineSpec.
From Verif Require Import EngineRefineBuf GzEngineBuf GzEngineStrm GzEngineShift GzEngineSound GzEngineTop
     GzEngineSpec3.
Import ListNotations.
Open Scope N_scope.

(* ================================================================ engine facts *)
(* a Read that returns io.EOF has io.EOF as its stored error *)
Lemma SG_read_loop_eof : forall fuel f p,
  snd (read_loop fuel f p) = REOF -> derr (fst (fst (read_loop fuel f p))) = Some REOF.
Proof.
  induction fuel as [|k IH]; intros f p.
  - cbn [read_loop snd]. intros H; discriminate H.
  - cbn [read_loop].
    destruct (readPos f <? writePos f).
    + cbn [writePos readPos derr].
      destruct (writePos f =? readPos f + N.min p (writePos f - readPos f)); cbn [fst snd derr].
      * destruct (derr f) as [e|]; intros H; [rewrite H; reflexivity|discriminate H].
      * intros H; discriminate H.
    + destruct (derr f) as [e|] eqn:E.
      * cbn [fst snd]. intros H. rewrite <- H. exact E.
      * destruct (step f) as [f1 e]. destruct e as [e'|].
        -- destruct (writePos (set_err f1 (Some e')) <=? readPos (set_err f1 (Some e'))).
           ++ cbn [fst snd set_err derr]. intros H. rewrite H. reflexivity.
           ++ apply IH.
        -- apply IH.
Qed.

Lemma SG_dRead_eof : forall f p,
  let '(f', _, r) := dRead f p in r = REOF -> derr f' = Some REOF.
Proof.
  intros f p. unfold dRead.
  pose proof (SG_read_loop_eof big_fuel f p) as H.
  destruct (read_loop big_fuel f p) as [[f' bytes] r]. exact H.
Qed.

(* a Read only shortens the stream held by the bufio model *)
Definition SG_zero (f : decompressor) : decompressor :=
  set_rBuf f (mkBuf (bsize (rBuf f)) (bbuf (rBuf f)) (blen (rBuf f)) (berr (rBuf f))
                    (chunks (rBuf f)) (term (rBuf f)) 0).

Lemma SG_zero_shift : forall f, dshift (consumed (rBuf f)) (SG_zero f) = f.
Proof.
  intros [s w r h [sz bb bl be ch tm c] e ps eo hb]. unfold dshift, SG_zero, set_rBuf, bshift.
  cbn [state writePos readPos hist rBuf derr peekSize eof haveBits
       bsize bbuf blen berr chunks term consumed]. reflexivity.
Qed.

Lemma SG_dRead_len : forall f p, buf_ok (rBuf f) ->
  let '(f', _, _) := dRead f p in lenN (bstream (rBuf f')) <= lenN (bstream (rBuf f)).
Proof.
  intros f p Hok.
  pose proof (dRead_shift (consumed (rBuf f)) (SG_zero f) p) as Hsh.
  rewrite SG_zero_shift in Hsh.
  assert (Hs : strm_inv (bstream (rBuf f)) (rBuf (SG_zero f))).
  { split.
    - exact Hok.
    - exists []. split; reflexivity. }
  pose proof (dRead_strm (bstream (rBuf f)) (SG_zero f) p Hs) as H1.
  destruct (dRead (SG_zero f) p) as [[f0 bytes] r].
  rewrite Hsh. destruct H1 as ((_ & D & HD & _) & _ & _).
  change (bstream (rBuf (dshift (consumed (rBuf f)) f0))) with (bstream (rBuf f0)).
  rewrite HD. unfold lenN. rewrite app_length. lia.
Qed.

Lemma SG_big_fuel : N.of_nat big_fuel = 262144.
Proof. unfold big_fuel. apply N2Nat.id. Qed.

Local Strategy opaque [ioReadFull dRead big_fuel].

Lemma SG_safe_GR : forall r, r <> RPanic -> r <> RStuck -> gres_safe (GR r).
Proof.
  intros r H1 H2. split; intros H; injection H as H; [exact (H1 H)|exact (H2 H)].
Qed.

Lemma SG_strm_len : forall data b, strm_inv data b -> lenN (bstream b) <= lenN data.
Proof.
  intros data b (_ & D & HD & _). rewrite HD. unfold lenN. rewrite app_length. lia.
Qed.

(* ================================================================ the invariant and one Read *)
Section Safe.
Variable data : list N.
Hypothesis Hdata : GzEngineSpec.bytes_ok data.
Hypothesis Hlen : lenN data <= 262141.
Hypothesis HdR : dRead_rs_statement.
Hypothesis Hnew : newReader_on_rs_statement.
Hypothesis Hrst : dReset_rs_statement.
Hypothesis Hsb : sbuf_of_strm_statement.

Definition SG_T : N := 262141.

(* z between two Reads, z.err = nil *)
Definition SG_inv (z : gzreader) : Prop :=
  z_err z = GR ROk /\ strm_inv data (z_r z) /\ bsize (z_r z) <= BUFMAX /\
  exists d, z_dec z = Some d /\ rs_inv SG_T (set_rBuf d (z_r z)).

Definition SG_post (res : gzreader * list N * gres) : Prop :=
  let '(z', bytes, e) := res in gres_safe e /\ (e = GR ROk -> SG_inv z').

Lemma SG_sbuf : forall b, strm_inv data b -> bsize b <= BUFMAX -> sbuf SG_T b.
Proof. intros b H1 H2. exact (Hsb data SG_T b H1 Hdata Hlen H2). Qed.

Lemma SG_eof_tail : forall rec z bytes d1,
  (forall z1, SG_inv z1 -> lenN (bstream (z_r z1)) + 8 <= lenN (bstream (z_r z)) ->
              SG_post (rec z1)) ->
  strm_inv data (z_r z) -> bsize (z_r z) <= BUFMAX -> z_dec z = Some d1 -> tk (state d1) ->
  SG_post (gz_eof_tail rec z bytes).
Proof.
  intros rec z bytes d1 Hrec Hsi Hbs Hdec Htk.
  destruct z as [hd rb dec dg sz er ms].
  cbn [z_r z_dec] in Hsi, Hbs, Hdec, Hrec. subst dec.
  unfold gz_eof_tail. cbn [z_r].
  pose proof (ioReadFull_spec rb 8 (proj1 Hsi) ltac:(lia)) as HF.
  destruct (ioReadFull rb 8) as [[buf e] b].
  destruct HF as (F1 & F2 & F3 & F4 & F5 & F6 & F7 & _).
  destruct F6 as [-> | [-> | [-> | ->]]];
    try (cbv beta iota zeta delta [noEOF SG_post gres_safe];
         split; [split; intros HH; discriminate HH|intros HH; discriminate HH]).
  specialize (F7 eq_refl).
  assert (Hsib : strm_inv data b) by (exact (strm_inv_step _ _ _ _ Hsi F1 F2 F3)).
  assert (Hlb : lenN (bstream b) + 8 = lenN (bstream rb)).
  { rewrite F2. unfold lenN in *. rewrite app_length. lia. }
  unfold gz_set_r, gz_set_err, gz_set_size, gz_set_digest.
  cbn [z_digest z_size z_hdr z_r z_dec z_err z_multistream].
  destruct (negb (of_le (firstn 4 buf) =? dg) || negb (of_le (skipn 4 buf) =? sz));
    [cbv beta iota zeta delta [SG_post gres_safe];
     split; [split; intros HH; discriminate HH|intros HH; discriminate HH]|].
  destruct (negb ms);
    [cbv beta iota zeta delta [SG_post gres_safe];
     split; [split; intros HH; discriminate HH|intros HH; discriminate HH]|].
  set (z5 := mkGZ hd b (Some d1) 0 0 (GR ROk) ms).
  pose proof (gzReadHeader_spec z5 (proj1 Hsib) (strm_bytes_ok _ _ Hdata Hsib)) as HH. cbv zeta in HH.
  destruct (gzReadHeader z5) as [[z6 hdr'] e].
  destruct HH as (H1 & (used & H2 & H3) & H4 & H5 & H6 & H7 & H8 & H9 & H10 & H11 & H12 & H13 & H14).
  unfold z5 in H2, H3, H4, H5, H6, H7, H8, H9, H10, H11, H12.
  cbn [z_r z_dec z_multistream z_err z_hdr z_size] in H2, H3, H4, H5, H6, H7, H8, H9, H10, H11, H12.
  assert (Hsafe : gres_safe e) by (split; assumption).
  destruct (gnil e) eqn:Eg; cbn [negb].
  - apply gnil_true in Eg. subst e.
    destruct (H10 eq_refl) as (h & rest' & P1 & P2 & P3 & P4 & P5).
    assert (Hsi6 : strm_inv data (z_r z6)) by (exact (strm_inv_step _ _ _ _ Hsib H1 H2 H3)).
    assert (Hbs6 : bsize (z_r z6) <= BUFMAX) by (rewrite H4, F4; exact Hbs).
    assert (G7 : SG_inv (gz_set_err z6 (GR ROk))).
    { unfold SG_inv. cbn [gz_set_err z_err z_r z_dec].
      split; [reflexivity|]. split; [exact Hsi6|]. split; [exact Hbs6|].
      exists (dReset d1 (z_r z6)). split; [exact P5|].
      change (set_rBuf (dReset d1 (z_r z6)) (z_r z6)) with (dReset d1 (z_r z6)).
      apply Hrst; [apply SG_sbuf; assumption|exact Htk]. }
    destruct bytes as [|x bytes].
    + apply Hrec; [exact G7|].
      cbn [gz_set_err z_r].
      assert (lenN (bstream (z_r z6)) <= lenN (bstream b)).
      { rewrite H2. unfold lenN. rewrite app_length. lia. }
      lia.
    + cbv beta iota zeta delta [SG_post]. split; [exact Hsafe|intros _; exact G7].
  - cbv beta iota zeta delta [SG_post]. split; [exact Hsafe|].
    intros ->. discriminate Eg.
Qed.

Lemma SG_loop : forall fuel z p,
  SG_inv z -> lenN (bstream (z_r z)) < 8 * N.of_nat fuel -> SG_post (gzRead_loop fuel z p).
Proof.
  induction fuel as [|k IH]; intros z p HG Hfuel.
  - exfalso. change (N.of_nat 0) with 0 in Hfuel. lia.
  - rewrite gzRead_loop_S.
    destruct HG as (Herr & Hsi & Hbs & d & Hdec & Hrs).
    rewrite Hdec.
    pose proof (HdR SG_T (set_rBuf d (z_r z)) p Hrs ltac:(unfold SG_T; lia)) as H1.
    pose proof (dRead_strm data (set_rBuf d (z_r z)) p Hsi) as H2.
    pose proof (SG_dRead_eof (set_rBuf d (z_r z)) p) as H3.
    pose proof (SG_dRead_len (set_rBuf d (z_r z)) p (proj1 Hsi)) as H4.
    destruct (dRead (set_rBuf d (z_r z)) p) as [[d1 bytes] r].
    destruct H1 as ((R1 & R2) & R3). destruct H2 as (S1 & S2 & _).
    change (rBuf (set_rBuf d (z_r z))) with (z_r z) in S2, H4.
    destruct (gz_upd_fields z d1 bytes r) as (U1 & U2 & U3 & U4 & U5 & U6).
    assert (Hnorm : r <> REOF -> SG_post (gz_upd z d1 bytes r, bytes, GR r)).
    { intros Hne. cbv beta iota zeta delta [SG_post].
      split; [apply SG_safe_GR; assumption|].
      intros HH. unfold SG_inv. rewrite U1, U2, U6.
      split; [exact HH|]. split; [exact S1|]. split; [rewrite S2; exact Hbs|].
      exists d1. split; [reflexivity|]. rewrite set_rBuf_same. exact R3. }
    destruct r; try (apply Hnorm; discriminate).
    apply SG_eof_tail with (d1 := d1).
    + intros z1 G1 Hl. apply IH; [exact G1|]. rewrite U1 in Hl. lia.
    + rewrite U1. exact S1.
    + rewrite U1, S2. exact Hbs.
    + exact U2.
    + exact (proj2 R3 (H3 eq_refl)).
Qed.

Lemma SG_read : forall z p, SG_inv z -> SG_post (gzRead z p).
Proof.
  intros z p HG.
  assert (Hrd : gzRead z p = gzRead_loop big_fuel z p).
  { unfold gzRead. rewrite (proj1 HG). reflexivity. }
  rewrite Hrd. apply SG_loop; [exact HG|].
  pose proof (SG_strm_len _ _ (proj1 (proj2 HG))) as Hl.
  rewrite SG_big_fuel. lia.
Qed.

(* ================================================================ the run of Reads *)
Lemma SG_reads : forall reads z acc,
  SG_inv z -> Forall (fun br : list N * gres => gres_safe (snd br)) acc ->
  Forall (fun br : list N * gres => gres_safe (snd br)) (fst (gz_reads_g z reads acc)).
Proof.
  induction reads as [|p rest IH]; intros z acc HG Hacc.
  - cbn [gz_reads_g fst]. rewrite gfrev_rev. apply Forall_rev. exact Hacc.
  - cbn [gz_reads_g].
    pose proof (SG_read z p HG) as HP.
    destruct (gzRead z p) as [[z1 b] e] eqn:E.
    cbv beta iota zeta delta [SG_post] in HP. destruct HP as (P1 & P2).
    destruct (gnil e) eqn:Eg.
    + apply gnil_true in Eg. apply IH; [exact (P2 Eg)|].
      constructor; [exact P1|exact Hacc].
    + destruct gz_sticky as (_ & _ & Hst).
      pose proof (Hst z p z1 b e rest E Eg) as Htail.
      rewrite reads_app. apply Forall_app. split.
      * rewrite gfrev_rev. apply Forall_rev. constructor; [exact P1|exact Hacc].
      * eapply Forall_impl; [|exact Htail].
        intros br ->. exact P1.
Qed.

End Safe.

(* ================================================================ gzrun *)
Theorem gz_safe_from :
  dRead_rs_statement -> newReader_on_rs_statement -> dReset_rs_statement -> sbuf_of_strm_statement ->
  gz_safe_statement.
Proof.
  intros HdR Hnew Hrst Hsb.
  intros data cs bufsize t multi reads Hdata Hcs Hne Hbuf Hlen.
  rewrite gzrun_eq.
  destruct (newbuf_ok bufsize cs t Hne) as (B1 & B2 & B3).
  change (mkBuf (N.max bufsize 16) [] 0 None cs t 0) with (mkbufrd bufsize cs t) in B1, B2, B3.
  assert (B4 : bsize (mkbufrd bufsize cs t) <= BUFMAX).
  { unfold mkbufrd, BUFMAX. cbn [bsize]. lia. }
  set (rb := mkbufrd bufsize cs t) in *.
  set (z0 := mkGZ hdr0 rb None 0 0 (GR ROk) true).
  assert (Hs0 : bstream (z_r z0) = data) by (unfold z0; cbn [z_r]; rewrite B2; exact Hcs).
  assert (Hb0 : GzEngineSpec.bytes_ok (bstream (z_r z0))) by (rewrite Hs0; exact Hdata).
  pose proof (gzReadHeader_spec z0 B1 Hb0) as HH. cbv zeta in HH. rewrite Hs0 in HH.
  destruct (gzReadHeader z0) as [[z1 hdr] e].
  destruct HH as (H1 & (used & H2 & H3) & H4 & H5 & H6 & H7 & H8 & H9 & H10 & H11 & H12 & H13 & H14).
  unfold z0 in H3, H4, H5, H6, H7, H8, H9, H10, H11.
  cbn [z_r z_dec z_multistream z_err z_hdr z_size] in H3, H4, H5, H6, H7, H8, H9, H10, H11.
  assert (Hsafe : gres_safe e) by (split; assumption).
  destruct (gnil e) eqn:Eg; cbn [negb]; cbv zeta.
  - split; [exact Hsafe|].
    apply gnil_true in Eg. subst e.
    destruct (H10 eq_refl) as (h & rest & P1 & P2 & P3 & P4 & P5).
    assert (Hsi : strm_inv data (z_r z1)).
    { split; [exact H1|]. exists used. split; [exact H2|]. rewrite H3, B3. unfold lenN. lia. }
    apply (SG_reads data Hdata Hlen HdR Hrst Hsb); [|constructor].
    unfold SG_inv. cbn [gzMultistream gz_set_err gz_set_hdr z_err z_r z_dec].
    split; [reflexivity|]. split; [exact Hsi|]. split; [rewrite H4; exact B4|].
    exists (newReader_on (z_r z1)). split; [exact P5|].
    change (set_rBuf (newReader_on (z_r z1)) (z_r z1)) with (newReader_on (z_r z1)).
    apply Hnew. apply (Hsb data); [exact Hsi|exact Hdata|exact Hlen|rewrite H4; exact B4].
  - split; [exact Hsafe|constructor].
Qed.

Print Assumptions gz_safe_from.
