(* EngineRefineLitLenLong.v -- encodeLongCodes builds the groups of the extended codes of more
   than 12 bits (long_ok of EngineRefineLitLenDefs.v), for every run that does not panic. *)
From Coq Require Import List NArith ZArith Bool Lia ZifyBool ZifyNat ZifyN.
From Verif Require Import Bits Huffman Inflate.
From Verif Require Import Base EngineTables Engine EngineRefineSpec.
From Verif Require Import EngineRefineLitLenBase EngineRefineLitLenDefs EngineRefineLitLenCode.
Import ListNotations.
Open Scope N_scope.

(* ---------------------------------------------------------------- the long codes by position *)
(* the j-th long code: index in litAndDistHuff, expanded length, value *)
Definition lidx (d : dynHdr) (j : N) : N := aget (codeList d) (aget (litCount d) 13 + j).
Definition lL (d : dynHdr) (j : N) : N := hc_len (aget (litAndDistHuff d) (lidx d j)).
Definition lv (d : dynHdr) (j : N) : N := hc_code (aget (litAndDistHuff d) (lidx d j)).

Definition lfacts (xc : xlist) (d : dynHdr) (n : N) : Prop :=
  aget (litCount d) 13 + n <= 514 /\
  (forall j, j < n ->
     lidx d j < 514 /\ 13 <= lL d j <= 20 /\ lv d j < 2 ^ lL d j /\
     aget (litAndDistHuff d) (lidx d j) = hc_set (lv d j) (lL d j) /\
     In (indexToSym (lidx d j), N.to_nat (lL d j), lv d j) xc) /\
  (forall j j', j <= j' -> j' < n -> lL d j <= lL d j') /\
  (forall j j', j < n -> j' < n -> lidx d j = lidx d j' -> j = j') /\
  (forall s len val, In (s, len, val) xc -> (12 < len)%nat ->
     exists j, j < n /\ indexToSym (lidx d j) = s /\ lL d j = N.of_nat len /\ lv d j = val).

Lemma lc_mono_nat : forall (lc : arr) m a,
  (forall L, L < 22 -> aget lc L <= aget lc (L + 1)) ->
  a + N.of_nat m <= 22 -> aget lc a <= aget lc (a + N.of_nat m).
Proof.
  intros lc m. induction m as [|m IH]; intros a Hm Ha.
  - replace (a + N.of_nat 0) with a by lia. lia.
  - replace (a + N.of_nat (S m)) with ((a + 1) + N.of_nat m) by lia.
    specialize (IH (a + 1) Hm ltac:(lia)). specialize (Hm a ltac:(lia)). lia.
Qed.

Lemma lc_mono : forall (lc : arr) a b,
  (forall L, L < 22 -> aget lc L <= aget lc (L + 1)) ->
  a <= b -> b <= 22 -> aget lc a <= aget lc b.
Proof.
  intros lc a b Hm Hab Hb.
  replace b with (a + N.of_nat (N.to_nat (b - a))) by lia.
  apply lc_mono_nat; [exact Hm|lia].
Qed.

Lemma lc_bucket : forall (lc : arr) m a k,
  a + N.of_nat m <= 22 -> aget lc a <= k < aget lc (a + N.of_nat m) ->
  exists L, a <= L < a + N.of_nat m /\ aget lc L <= k < aget lc (L + 1).
Proof.
  intros lc m. induction m as [|m IH]; intros a k Ha Hk.
  - replace (a + N.of_nat 0) with a in Hk by lia. lia.
  - destruct (k <? aget lc (a + 1)) eqn:E.
    + exists a. lia.
    + replace (a + N.of_nat (S m)) with ((a + 1) + N.of_nat m) in Hk by lia.
      destruct (IH (a + 1) k ltac:(lia) ltac:(lia)) as (L & HL & HkL).
      exists L. lia.
Qed.

Lemma pow2_24 : 2 ^ 24 = 16777216.
Proof. reflexivity. Qed.

Lemma lt_2_24 : forall v L, v < 2 ^ L -> L <= 24 -> v < 16777216.
Proof. intros v L Hv HL. rewrite <- pow2_24. apply (lt_pow2_mono v L 24 Hv HL). Qed.

(* the class of the j-th long code *)
Lemma lpos_class : forall xc d j,
  xc_wf xc -> xsorted xc d -> j < aget (litCount d) 22 - aget (litCount d) 13 ->
  exists L, 13 <= L <= 20 /\
    aget (litCount d) L <= aget (litCount d) 13 + j < aget (litCount d) (L + 1) /\
    lidx d j < 514 /\ lL d j = L /\ lv d j < 2 ^ L /\
    aget (litAndDistHuff d) (lidx d j) = hc_set (lv d j) L /\
    In (indexToSym (lidx d j), N.to_nat L, lv d j) xc.
Proof.
  intros xc d j Hwf Hs Hj.
  destruct Hs as (_ & Hmono & _ & Hcls & _ & _).
  destruct (lc_bucket (litCount d) 9 13 (aget (litCount d) 13 + j) ltac:(lia)) as (L & HL & Hk).
  { change (13 + N.of_nat 9) with 22. lia. }
  change (13 + N.of_nat 9) with 22 in HL.
  destruct (Hcls L _ ltac:(lia) Hk) as (Hc & val & Hh & Hin).
  destruct (Hwf _ _ _ Hin) as (Hlen & Hval & _).
  rewrite N2Nat.id in Hval.
  assert (HL20 : L <= 20) by lia.
  assert (Hv24 : val < 16777216) by (apply (lt_2_24 val L Hval); lia).
  assert (HlL : lL d j = L).
  { unfold lL, lidx. rewrite Hh. apply hc_len_set; [exact Hv24|lia]. }
  assert (Hlv : lv d j = val).
  { unfold lv, lidx. rewrite Hh. apply hc_code_set; [exact Hv24|lia]. }
  exists L. rewrite Hlv. unfold lidx.
  repeat split; try lia; try assumption.
Qed.

Lemma lfacts_of : forall xc d,
  xc_wf xc -> xsorted xc d ->
  lfacts xc d (aget (litCount d) 22 - aget (litCount d) 13).
Proof.
  intros xc d Hwf Hs.
  pose proof Hs as (_ & Hmono & H514 & _ & Hall & Hinj).
  pose proof (lc_mono (litCount d) 13 22 Hmono ltac:(lia) ltac:(lia)) as H1322.
  unfold lfacts. split; [lia|]. split; [|split; [|split]].
  - intros j Hj. destruct (lpos_class xc d j Hwf Hs Hj) as (L & HL & Hk & Hc & HlL & Hv & Hh & Hin).
    rewrite HlL. repeat split; try lia; try assumption.
  - intros j j' Hjj Hj'.
    destruct (lpos_class xc d j Hwf Hs ltac:(lia)) as (L & HL & Hk & _ & HlL & _).
    destruct (lpos_class xc d j' Hwf Hs Hj') as (L' & HL' & Hk' & _ & HlL' & _).
    rewrite HlL, HlL'.
    destruct (N.le_gt_cases L L') as [Hle|Hgt]; [exact Hle|exfalso].
    pose proof (lc_mono (litCount d) (L' + 1) L Hmono ltac:(lia) ltac:(lia)). lia.
  - intros j j' Hj Hj' He. unfold lidx in He.
    apply Hinj in He; lia.
  - intros s len val Hin Hlen.
    destruct (Hwf _ _ _ Hin) as (Hl20 & Hval & _).
    destruct (Hall _ _ _ Hin) as (k & Hk & Hsym & Hh).
    pose proof (lc_mono (litCount d) 13 (N.of_nat len) Hmono ltac:(lia) ltac:(lia)) as Ha.
    pose proof (lc_mono (litCount d) (N.of_nat len + 1) 22 Hmono ltac:(lia) ltac:(lia)) as Hb.
    assert (Hv24 : val < 16777216) by (apply (lt_2_24 val _ Hval); lia).
    exists (k - aget (litCount d) 13).
    unfold lL, lv, lidx.
    replace (aget (litCount d) 13 + (k - aget (litCount d) 13)) with k by lia.
    split; [lia|]. split; [exact Hsym|]. rewrite Hh. split.
    + apply hc_len_set; [exact Hv24|lia].
    + apply hc_code_set; [exact Hv24|lia].
Qed.

(* ---------------------------------------------------------------- long_fill *)
Definition fill_hit (base lb lim minInc q : N) : bool :=
  (base + lb <=? q) && (q <? base + lim) && ((q - (base + lb)) mod minInc =? 0).

Lemma fill_hit_none : forall base lb lim minInc q, lim <= lb -> fill_hit base lb lim minInc q = false.
Proof.
  intros base lb lim minInc q H. unfold fill_hit.
  destruct (base + lb <=? q) eqn:E1; [|reflexivity].
  destruct (q <? base + lim) eqn:E2; [lia|reflexivity].
Qed.

Lemma fill_hit_step : forall base lb lim minInc q, 0 < minInc -> lb < lim ->
  fill_hit base lb lim minInc q =
  if q =? base + lb then true else fill_hit base (lb + minInc) lim minInc q.
Proof.
  intros base lb lim minInc q Hm Hlb. unfold fill_hit.
  destruct (N.eqb_spec q (base + lb)) as [->|Hne].
  - replace (base + lb - (base + lb)) with 0 by lia.
    rewrite N.mod_0_l by lia.
    replace (base + lb <=? base + lb) with true by lia.
    replace (base + lb <? base + lim) with true by lia. reflexivity.
  - destruct (base + lb <=? q) eqn:E1.
    2:{ replace (base + (lb + minInc) <=? q) with false by lia. reflexivity. }
    destruct (q <? base + lim) eqn:E2.
    2:{ rewrite !andb_false_r. cbn [andb]. reflexivity. }
    rewrite andb_true_r. cbn [andb].
    destruct (base + (lb + minInc) <=? q) eqn:E3.
    + cbn [andb]. f_equal.
      replace (q - (base + lb)) with ((q - (base + (lb + minInc))) + 1 * minInc) by lia.
      apply N.mod_add. lia.
    + cbn [andb]. rewrite N.mod_small by lia. lia.
Qed.

Lemma long_fill_spec : forall fuel bound base lim minInc entry long lb pan long' pan',
  0 < minInc -> base + lim <= bound -> lim + minInc <= 4294967296 ->
  lim <= lb + N.of_nat fuel * minInc ->
  long_fill fuel bound mask32 long base lb lim minInc entry pan = (long', pan') ->
  pan' = pan /\
  forall q, aget long' q = if fill_hit base lb lim minInc q then entry else aget long q.
Proof.
  induction fuel as [|f IH];
    intros bound base lim minInc entry long lb pan long' pan' Hm Hb Hw Hf H.
  - cbn [long_fill] in H. inversion H; subst long' pan'. split; [reflexivity|].
    intro q. rewrite fill_hit_none by lia. reflexivity.
  - cbn [long_fill] in H. destruct (lb <? lim) eqn:E1.
    2:{ inversion H; subst long' pan'. split; [reflexivity|].
        intro q. rewrite fill_hit_none by lia. reflexivity. }
    destruct (bound <=? base + lb) eqn:E2; [lia|].
    change (N.land (lb + minInc) mask32) with (u32 (lb + minInc)) in H.
    rewrite u32_small in H by lia.
    apply IH in H; [|exact Hm|exact Hb|exact Hw|].
    2:{ rewrite Nat2N.inj_succ, N.mul_succ_l in Hf. lia. }
    destruct H as [Hp Hq]. split; [exact Hp|].
    intro q. rewrite Hq. rewrite (fill_hit_step base lb lim minInc q Hm) by lia.
    rewrite aget_aset.
    destruct (q =? base + lb) eqn:E3.
    + destruct (fill_hit base (lb + minInc) lim minInc q); reflexivity.
    + reflexivity.
Qed.

Lemma mod_shift_iff : forall p lb m, 0 < m -> lb < m -> lb <= p ->
  ((p - lb) mod m = 0 <-> p mod m = lb).
Proof.
  intros p lb m Hm Hlb Hp. split; intro H.
  - apply N.div_exact in H; [|lia].
    replace p with (lb + (p - lb) / m * m) by lia.
    rewrite N.mod_add by lia. apply N.mod_small. exact Hlb.
  - pose proof (N.div_mod p m ltac:(lia)) as Hd. rewrite H in Hd.
    replace (p - lb) with (p / m * m) by lia. apply N.mod_mul. lia.
Qed.

Lemma fill_hit_group : forall base lb lim minInc p, 0 < minInc -> lb < minInc ->
  fill_hit base lb lim minInc (base + p) = (p <? lim) && (p mod minInc =? lb).
Proof.
  intros base lb lim minInc p Hm Hlb. unfold fill_hit.
  destruct (N.le_gt_cases lb p) as [Hle|Hgt].
  - replace (base + lb <=? base + p) with true by lia.
    replace (base + p <? base + lim) with (p <? lim) by lia.
    replace (base + p - (base + lb)) with (p - lb) by lia.
    cbn [andb]. f_equal.
    pose proof (mod_shift_iff p lb minInc Hm Hlb Hle) as Hi.
    destruct ((p - lb) mod minInc =? 0) eqn:E1; destruct (p mod minInc =? lb) eqn:E2;
      try reflexivity; lia.
  - replace (base + lb <=? base + p) with false by lia. cbn [andb].
    rewrite N.mod_small by lia.
    replace (p =? lb) with false by lia. rewrite andb_false_r. reflexivity.
Qed.

Lemma small_fuel_val : N.of_nat small_fuel = 1024.
Proof. reflexivity. Qed.

(* filling one code of a group *)
Lemma long_fill_group : forall fuel base lim minInc entry long lb pan long' pan',
  0 < minInc -> lb < minInc -> minInc <= 65536 -> base + lim <= 1264 -> lim <= N.of_nat fuel ->
  long_fill fuel 1264 mask32 long base lb lim minInc entry pan = (long', pan') ->
  pan' = pan /\
  (forall q, q < base \/ base + lim <= q -> aget long' q = aget long q) /\
  (forall p, p < lim ->
     aget long' (base + p) = if p mod minInc =? lb then entry else aget long (base + p)).
Proof.
  intros fuel base lim minInc entry long lb pan long' pan' Hm Hlb Hm2 Hb Hf H.
  assert (Hfm : N.of_nat fuel * 1 <= N.of_nat fuel * minInc) by (apply N.mul_le_mono_l; lia).
  apply long_fill_spec in H; [|exact Hm|exact Hb|lia|lia].
  destruct H as [Hp Hq]. split; [exact Hp|]. split.
  - intros q Hout. rewrite Hq. unfold fill_hit.
    destruct (base + lb <=? q) eqn:E1; [|reflexivity].
    destruct (q <? base + lim) eqn:E2; [lia|reflexivity].
  - intros p Hpl. rewrite Hq, fill_hit_group by assumption.
    replace (p <? lim) with true by lia. reflexivity.
Qed.

(* a code whose first position is beyond the group writes nothing *)
Lemma long_fill_skip : forall fuel bound wrap long base lb lim minInc entry pan,
  lim <= lb -> long_fill fuel bound wrap long base lb lim minInc entry pan = (long, pan).
Proof.
  intros fuel bound wrap long base lb lim minInc entry pan H.
  destruct fuel as [|f]; [reflexivity|]. cbn [long_fill].
  replace (lb <? lim) with false by lia. reflexivity.
Qed.

(* ---------------------------------------------------------------- the loop, restated *)
Definition elc_scan (d : dynHdr) (huff : arr) (firstBits : N) (j : N) (a : N * list N)
  : N * list N :=
  let '(ml, tl) := a in
  let lj := aget (codeList d) (aget (litCount d) 13 + j) in
  if N.land (hc_code (aget huff lj)) 4095 =? firstBits
  then (hc_len (aget huff lj), lj :: tl) else a.

Definition elc_fold (lcl grp : N) (a : arr * arr * bool) (sym1Index : N) : arr * arr * bool :=
  let '(long, huff, pan) := a in
  let sym1 := indexToSym sym1Index in
  let sym1Len := hc_len (aget huff sym1Index) in
  let sym1Code := hc_code (aget huff sym1Index) in
  let longBits := N.shiftr sym1Code 12 in
  let minInc := shl32 1 (sym1Len - 12) in
  let entry := u16 (N.lor sym1 (N.shiftl sym1Len 10)) in
  let '(long, pan) := long_fill small_fuel 1264 mask32 long lcl longBits grp minInc entry pan in
  (long, aset huff sym1Index (hc_setcode (aget huff sym1Index) invalidCodeValue), pan).

Definition elc_step (d : dynHdr) (n : N) (i : N) (st : arr * arr * arr * N * bool)
  : arr * arr * arr * N * bool :=
  let '(short, long, huff, lcl, pan) := st in
  if pan then st
  else if 516 <=? aget (litCount d) 13 + i then (short, long, huff, lcl, true)
  else
    let li := aget (codeList d) (aget (litCount d) 13 + i) in
    if hc_code (aget huff li) =? invalidCodeValue then st
    else
      let maxLen0 := hc_len (aget huff li) in
      let firstBits := N.land (hc_code (aget huff li)) 4095 in
      let '(maxLen, tempRev) := forN (i + 1) n (elc_scan d huff firstBits) (maxLen0, [li]) in
      let temp := frev tempRev in
      let grp := shl32 1 (maxLen - 12) in
      if 1264 <? lcl + grp then (short, long, huff, lcl, true)
      else
        let long := forN lcl (lcl + grp) (fun x t => aset t x 0) long in
        let '(long, huff, pan) := fold_left (elc_fold lcl grp) temp (long, huff, pan) in
        let short := aset short firstBits
                       (u32 (N.lor (N.lor lcl (N.shiftl maxLen 26)) largeFlagBit)) in
        (short, long, huff, u32 (lcl + grp), pan).

Lemma encodeLongCodes_step_eq : forall short long d cll,
  encodeLongCodes short long d cll =
  let n := sub32 cll (aget (litCount d) 13) in
  let '(s, l, h, _, p) := forN 0 n (elc_step d n) (short, long, litAndDistHuff d, 0, false) in
  (s, l, h, p).
Proof. reflexivity. Qed.

(* ---------------------------------------------------------------- marked / unmarked codes *)
Definition unm (d : dynHdr) (huff : arr) (j : N) : Prop :=
  aget huff (lidx d j) = hc_set (lv d j) (lL d j).
Definition mkd (d : dynHdr) (huff : arr) (j : N) : Prop :=
  aget huff (lidx d j) = hc_set invalidCodeValue (lL d j).
Definition hvalid (d : dynHdr) (n : N) (huff : arr) : Prop :=
  forall j, j < n -> unm d huff j \/ mkd d huff j.

Lemma inv_lt : invalidCodeValue < 16777216.
Proof. reflexivity. Qed.

Lemma lv_lt : forall xc d n j, lfacts xc d n -> j < n -> lv d j < 1048576.
Proof.
  intros xc d n j (_ & Hpos & _) Hj. destruct (Hpos j Hj) as (_ & HL & Hv & _).
  change 1048576 with (2 ^ 20). apply (lt_pow2_mono _ _ 20 Hv). lia.
Qed.

Lemma unm_code : forall xc d n huff j, lfacts xc d n -> j < n -> unm d huff j ->
  hc_code (aget huff (lidx d j)) = lv d j /\ hc_len (aget huff (lidx d j)) = lL d j.
Proof.
  intros xc d n huff j Hf Hj Hu. pose proof (lv_lt xc d n j Hf Hj) as Hv.
  destruct Hf as (_ & Hpos & _). destruct (Hpos j Hj) as (_ & HL & _).
  unfold unm in Hu. rewrite Hu. split; [apply hc_code_set|apply hc_len_set]; lia.
Qed.

Lemma mkd_code : forall xc d n huff j, lfacts xc d n -> j < n -> mkd d huff j ->
  hc_code (aget huff (lidx d j)) = invalidCodeValue /\ hc_len (aget huff (lidx d j)) = lL d j.
Proof.
  intros xc d n huff j Hf Hj Hu. pose proof inv_lt as Hi.
  destruct Hf as (_ & Hpos & _). destruct (Hpos j Hj) as (_ & HL & _).
  unfold mkd in Hu. rewrite Hu. split; [apply hc_code_set|apply hc_len_set]; lia.
Qed.

Lemma unm_not_mkd : forall xc d n huff j, lfacts xc d n -> j < n -> unm d huff j -> mkd d huff j -> False.
Proof.
  intros xc d n huff j Hf Hj Hu Hm.
  pose proof (lv_lt xc d n j Hf Hj) as Hv.
  destruct (unm_code xc d n huff j Hf Hj Hu) as [H1 _].
  destruct (mkd_code xc d n huff j Hf Hj Hm) as [H2 _].
  rewrite H1 in H2. unfold invalidCodeValue in H2. lia.
Qed.

Lemma valid_len : forall xc d n huff j, lfacts xc d n -> hvalid d n huff -> j < n ->
  hc_len (aget huff (lidx d j)) = lL d j.
Proof.
  intros xc d n huff j Hf Hv Hj. destruct (Hv j Hj) as [Hu|Hm].
  - exact (proj2 (unm_code xc d n huff j Hf Hj Hu)).
  - exact (proj2 (mkd_code xc d n huff j Hf Hj Hm)).
Qed.

(* ---------------------------------------------------------------- the scan *)
Definition scan_sel (d : dynHdr) (huff : arr) (F j : N) : bool :=
  N.land (hc_code (aget huff (lidx d j))) 4095 =? F.

Definition scanP (d : dynHdr) (huff : arr) (F i k : N) (a : N * list N) : Prop :=
  exists jr, snd a = map (lidx d) jr /\ In i jr /\
    (forall j, In j jr -> i <= j < k) /\
    (forall j, In j jr -> j = i \/ scan_sel d huff F j = true) /\
    (forall j, i < j < k -> scan_sel d huff F j = true -> In j jr) /\
    exists jl, In jl jr /\ fst a = hc_len (aget huff (lidx d jl)) /\ forall j, In j jr -> j <= jl.

Lemma elc_scan_spec : forall d huff F i n,
  i < n ->
  scanP d huff F i n
    (forN (i + 1) n (elc_scan d huff F) (hc_len (aget huff (lidx d i)), [lidx d i])).
Proof.
  intros d huff F i n Hi.
  apply (forN_ind _ (fun k a => scanP d huff F i k a)); [lia| |].
  - exists [i]. cbn [fst snd map]. split; [reflexivity|]. split; [left; reflexivity|].
    split; [intros j [<-|[]]; lia|]. split; [intros j [<-|[]]; left; reflexivity|].
    split; [intros j Hj; lia|].
    exists i. split; [left; reflexivity|]. split; [reflexivity|]. intros j [<-|[]]. lia.
  - intros k [ml tl] Hk (jr & Htl & Hin & Hrng & Hsel & Hall & jl & Hjl & Hml & Hmax).
    cbn [fst snd] in Htl, Hml. unfold elc_scan.
    change (aget (codeList d) (aget (litCount d) 13 + k)) with (lidx d k).
    destruct (N.land (hc_code (aget huff (lidx d k))) 4095 =? F) eqn:E.
    + exists (k :: jr). cbn [fst snd map]. split; [rewrite Htl; reflexivity|].
      split; [right; exact Hin|].
      split; [intros j [<-|Hj]; [lia|specialize (Hrng j Hj); lia]|].
      split; [intros j [<-|Hj]; [right; exact E|apply Hsel; exact Hj]|].
      split.
      { intros j Hj Hs. destruct (N.eq_dec j k) as [->|Hne]; [left; reflexivity|].
        right. apply Hall; [lia|exact Hs]. }
      exists k. split; [left; reflexivity|]. split; [reflexivity|].
      intros j [<-|Hj]; [lia|specialize (Hrng j Hj); lia].
    + exists jr. cbn [fst snd]. split; [exact Htl|]. split; [exact Hin|].
      split; [intros j Hj; specialize (Hrng j Hj); lia|]. split; [exact Hsel|].
      split.
      { intros j Hj Hs. destruct (N.eq_dec j k) as [->|Hne].
        - unfold scan_sel in Hs. rewrite E in Hs. discriminate Hs.
        - apply Hall; [lia|exact Hs]. }
      exists jl. split; [exact Hjl|]. split; [exact Hml|exact Hmax].
Qed.

(* ---------------------------------------------------------------- the fold over the members *)
Definition entry_of (d : dynHdr) (j : N) : N := indexToSym (lidx d j) + 1024 * lL d j.

Lemma entry_val : forall s l, s <= 512 -> l <= 20 -> u16 (N.lor s (N.shiftl l 10)) = s + 1024 * l.
Proof.
  intros s l Hs Hl. rewrite (lor_shiftl_add s l 10) by (change (2 ^ 10) with 1024; lia).
  change (2 ^ 10) with 1024. rewrite u16_small by lia. lia.
Qed.

Lemma shiftr12_lt : forall v L, 13 <= L -> v < 2 ^ L -> N.shiftr v 12 < 2 ^ (L - 12).
Proof. intros v L HL Hv. apply shiftr_lt. replace (12 + (L - 12)) with L by lia. exact Hv. Qed.

Lemma pow_le_256 : forall m, m <= 20 -> 2 ^ (m - 12) <= 256.
Proof. intros m H. change 256 with (2 ^ 8). apply N.pow_le_mono_r; lia. Qed.

Lemma pow_pos : forall m, 0 < 2 ^ m.
Proof. intros m. apply N.neq_0_lt_0, N.pow_nonzero. lia. Qed.

Lemma shiftr_inv : N.shiftr invalidCodeValue 12 = 4095.
Proof. reflexivity. Qed.

(* elc_fold with the fuel as a parameter (never unfold elc_fold itself in a hypothesis: the
   kernel then unfolds long_fill small_fuel) *)
Definition elc_fold_f (fuel : nat) (lcl grp : N) (a : arr * arr * bool) (sym1Index : N)
  : arr * arr * bool :=
  let '(long, huff, pan) := a in
  let sym1 := indexToSym sym1Index in
  let sym1Len := hc_len (aget huff sym1Index) in
  let sym1Code := hc_code (aget huff sym1Index) in
  let longBits := N.shiftr sym1Code 12 in
  let minInc := shl32 1 (sym1Len - 12) in
  let entry := u16 (N.lor sym1 (N.shiftl sym1Len 10)) in
  let '(long, pan) := long_fill fuel 1264 mask32 long lcl longBits grp minInc entry pan in
  (long, aset huff sym1Index (hc_setcode (aget huff sym1Index) invalidCodeValue), pan).

Lemma elc_fold_eq : elc_fold = elc_fold_f small_fuel.
Proof. reflexivity. Qed.

Lemma elc_fold_one : forall fuel xc d n lcl maxLen long huff pan j long1 huff1 pan1,
  N.of_nat fuel = 1024 ->
  lfacts xc d n -> hvalid d n huff -> j < n -> lL d j <= maxLen -> maxLen <= 20 ->
  lcl + 2 ^ (maxLen - 12) <= 1264 ->
  elc_fold_f fuel lcl (2 ^ (maxLen - 12)) (long, huff, pan) (lidx d j) = (long1, huff1, pan1) ->
  pan1 = pan /\
  huff1 = aset huff (lidx d j) (hc_set invalidCodeValue (lL d j)) /\
  (forall q, q < lcl \/ lcl + 2 ^ (maxLen - 12) <= q -> aget long1 q = aget long q) /\
  (unm d huff j -> forall p, p < 2 ^ (maxLen - 12) ->
     aget long1 (lcl + p) = if p mod 2 ^ (lL d j - 12) =? N.shiftr (lv d j) 12
                            then entry_of d j else aget long (lcl + p)) /\
  (mkd d huff j -> forall q, aget long1 q = aget long q).
Proof.
  intros fuel xc d n lcl maxLen long huff pan j long1 huff1 pan1 Hfu Hf Hv Hj HL Hm Hg H.
  pose proof (lv_lt xc d n j Hf Hj) as Hlv.
  pose proof (pow_le_256 maxLen Hm) as H256.
  pose proof Hf as (_ & Hpos & _). destruct (Hpos j Hj) as (Hidx & HLr & Hvl & _ & _).
  pose proof (indexToSym_le (lidx d j) Hidx) as Hsym.
  pose proof inv_lt as Hinv.
  unfold elc_fold_f in H.
  destruct (Hv j Hj) as [Hu|Hk].
  - destruct (unm_code xc d n huff j Hf Hj Hu) as [Hc Hl].
    rewrite Hc, Hl in H. rewrite Hu in H. rewrite hc_setcode_set in H by lia.
    rewrite shl32_1 in H by lia. rewrite entry_val in H by lia.
    match type of H with context [long_fill ?a ?b ?c ?dd ?e ?f ?g ?hh ?i ?j] =>
      destruct (long_fill a b c dd e f g hh i j) as [lg1 pn1] eqn:EL end.
    inversion H; subst long1 huff1 pan1. clear H.
    apply long_fill_group in EL.
    + destruct EL as (E1 & E2 & E3). split; [exact E1|]. split; [reflexivity|].
      split; [exact E2|]. split.
      * intros _ p Hp. rewrite (E3 p Hp). reflexivity.
      * intro Hk. exfalso. exact (unm_not_mkd xc d n huff j Hf Hj Hu Hk).
    + apply pow_pos.
    + apply shiftr12_lt; [lia|exact Hvl].
    + pose proof (pow_le_256 (lL d j) ltac:(lia)). lia.
    + exact Hg.
    + lia.
  - destruct (mkd_code xc d n huff j Hf Hj Hk) as [Hc Hl].
    rewrite Hc, Hl in H. rewrite Hk in H. rewrite hc_setcode_set in H by lia.
    rewrite shiftr_inv in H.
    rewrite long_fill_skip in H by lia.
    inversion H; subst long1 huff1 pan1. clear H.
    split; [reflexivity|]. split; [reflexivity|]. split; [reflexivity|]. split.
    + intro Hu. exfalso. exact (unm_not_mkd xc d n huff j Hf Hj Hu Hk).
    + reflexivity.
Qed.

Lemma mark_facts : forall xc d n huff j0,
  lfacts xc d n -> hvalid d n huff -> j0 < n ->
  let huff1 := aset huff (lidx d j0) (hc_set invalidCodeValue (lL d j0)) in
  hvalid d n huff1 /\
  (forall j, j < n -> (mkd d huff1 j <-> mkd d huff j \/ j = j0)) /\
  (forall j, j < n -> j <> j0 -> (unm d huff1 j <-> unm d huff j)).
Proof.
  intros xc d n huff j0 Hf Hv Hj0 huff1.
  pose proof Hf as (_ & _ & _ & Hinj & _).
  assert (Hsame : mkd d huff1 j0).
  { unfold mkd, huff1. apply aget_aset_same. }
  assert (Hoth : forall j, j < n -> j <> j0 -> aget huff1 (lidx d j) = aget huff (lidx d j)).
  { intros j Hj Hne. unfold huff1. apply aget_aset_other. intro He. apply Hne. apply Hinj; assumption. }
  split; [|split].
  - intros j Hj. destruct (N.eq_dec j j0) as [->|Hne]; [right; exact Hsame|].
    unfold unm, mkd. rewrite (Hoth j Hj Hne). apply Hv. exact Hj.
  - intros j Hj. destruct (N.eq_dec j j0) as [->|Hne].
    + split; [intros _; right; reflexivity|intros _; exact Hsame].
    + unfold mkd. rewrite (Hoth j Hj Hne). split; [intro H; left; exact H|].
      intros [H|H]; [exact H|contradiction].
  - intros j Hj Hne. unfold unm. rewrite (Hoth j Hj Hne). reflexivity.
Qed.

Lemma entry_of_nz : forall xc d n j, lfacts xc d n -> j < n -> entry_of d j <> 0.
Proof.
  intros xc d n j (_ & Hpos & _) Hj. destruct (Hpos j Hj) as (_ & HL & _).
  unfold entry_of. lia.
Qed.

Lemma elc_fold_spec : forall fuel xc d n lcl maxLen js long huff pan long' huff' pan',
  N.of_nat fuel = 1024 -> lfacts xc d n -> maxLen <= 20 -> lcl + 2 ^ (maxLen - 12) <= 1264 ->
  hvalid d n huff -> (forall j, In j js -> j < n /\ lL d j <= maxLen) ->
  fold_left (elc_fold_f fuel lcl (2 ^ (maxLen - 12))) (map (lidx d) js) (long, huff, pan)
    = (long', huff', pan') ->
  pan' = pan /\ hvalid d n huff' /\
  (forall j, j < n -> (mkd d huff' j <-> mkd d huff j \/ In j js)) /\
  (forall q, q < lcl \/ lcl + 2 ^ (maxLen - 12) <= q -> aget long' q = aget long q) /\
  (forall p, p < 2 ^ (maxLen - 12) ->
     aget long' (lcl + p) = aget long (lcl + p) \/
     exists j, In j js /\ unm d huff j /\ p mod 2 ^ (lL d j - 12) = N.shiftr (lv d j) 12 /\
               aget long' (lcl + p) = entry_of d j) /\
  (forall j p, In j js -> unm d huff j -> p < 2 ^ (maxLen - 12) ->
     p mod 2 ^ (lL d j - 12) = N.shiftr (lv d j) 12 -> aget long' (lcl + p) <> 0).
Proof.
  intros fuel xc d n lcl maxLen js. induction js as [|j0 r IH];
    intros long huff pan long' huff' pan' Hfu Hf Hm Hg Hv Hjs H.
  - cbn [map fold_left] in H. inversion H; subst long' huff' pan'.
    split; [reflexivity|]. split; [exact Hv|]. split.
    { intros j Hj. split; [intro Hk; left; exact Hk|intros [Hk|[]]; exact Hk]. }
    split; [reflexivity|]. split; [intros p Hp; left; reflexivity|].
    intros j p [].
  - cbn [map fold_left] in H.
    destruct (elc_fold_f fuel lcl (2 ^ (maxLen - 12)) (long, huff, pan) (lidx d j0))
      as [[long1 huff1] pan1] eqn:E1.
    destruct (Hjs j0 (or_introl eq_refl)) as [Hj0 HL0].
    apply (elc_fold_one fuel xc d n lcl maxLen long huff pan j0 long1 huff1 pan1 Hfu Hf Hv Hj0 HL0 Hm Hg)
      in E1.
    destruct E1 as (P1 & Hh1 & Q1 & U1 & M1).
    destruct (mark_facts xc d n huff j0 Hf Hv Hj0) as (V1 & K1 & N1).
    rewrite <- Hh1 in V1, K1, N1.
    apply IH in H; [|exact Hfu|exact Hf|exact Hm|exact Hg|exact V1|intros j Hj; apply Hjs; right; exact Hj].
    destruct H as (P2 & V2 & K2 & Q2 & A2 & B2).
    assert (Hunm1 : forall j, j < n -> unm d huff1 j -> unm d huff j /\ j <> j0).
    { intros j Hj Hu. assert (Hne : j <> j0).
      { intros ->. apply (unm_not_mkd xc d n huff1 j0 Hf Hj0 Hu). apply K1; [exact Hj0|right; reflexivity]. }
      split; [apply N1; assumption|exact Hne]. }
    split; [congruence|]. split; [exact V2|]. split; [|split; [|split]].
    + intros j Hj. rewrite (K2 j Hj), (K1 j Hj). cbn [In]. split.
      * intros [[Hk|He]|Hi]; [left; exact Hk|right; left; symmetry; exact He|right; right; exact Hi].
      * intros [Hk|[He|Hi]]; [left; left; exact Hk|left; right; symmetry; exact He|right; exact Hi].
    + intros q Hq. rewrite (Q2 q Hq). apply Q1. exact Hq.
    + intros p Hp. destruct (A2 p Hp) as [Hs|(j & Hj & Hu & Hmod & He)].
      * rewrite Hs. destruct (Hv j0 Hj0) as [Hu0|Hk0].
        { rewrite (U1 Hu0 p Hp).
          destruct (p mod 2 ^ (lL d j0 - 12) =? N.shiftr (lv d j0) 12) eqn:Ec.
          - right. exists j0. split; [left; reflexivity|]. split; [exact Hu0|].
            split; [lia|]. reflexivity.
          - left. reflexivity. }
        { left. apply M1. exact Hk0. }
      * right. exists j. destruct (Hjs j (or_intror Hj)) as [Hjn _].
        split; [right; exact Hj|]. split; [exact (proj1 (Hunm1 j Hjn Hu))|].
        split; [exact Hmod|exact He].
    + intros j p Hj Hu Hp Hmod.
      destruct (Hjs j Hj) as [Hjn _].
      destruct (N.eq_dec j j0) as [->|Hne].
      * assert (Hnz : aget long1 (lcl + p) <> 0).
        { rewrite (U1 Hu p Hp). replace (p mod 2 ^ (lL d j0 - 12) =? N.shiftr (lv d j0) 12) with true by lia.
          apply (entry_of_nz xc d n j0 Hf Hj0). }
        destruct (A2 p Hp) as [Hs|(j' & Hj' & _ & _ & He)].
        { rewrite Hs. exact Hnz. }
        { rewrite He. destruct (Hjs j' (or_intror Hj')) as [Hj'n _].
          apply (entry_of_nz xc d n j' Hf Hj'n). }
      * destruct Hj as [He|Hj]; [congruence|].
        apply (B2 j p Hj); [|exact Hp|exact Hmod].
        apply N1; assumption.
Qed.

(* ---------------------------------------------------------------- the loop invariant *)
(* group_ok, with the group below the running total lcl *)
Definition gok (xc : xlist) (F : N) (sh lg : arr) (lcl : N) : Prop :=
  exists base maxLen,
    aget sh F = long_ptr base maxLen /\ 13 <= maxLen <= 20 /\ base + 2 ^ (maxLen - 12) <= lcl /\
    (forall s len val, In (s, len, val) xc -> (12 < len)%nat -> N.land val 4095 = F ->
       N.of_nat len <= maxLen) /\
    (forall p, p < 2 ^ (maxLen - 12) ->
       (aget lg (base + p) = 0 \/
        exists s len val, In (s, len, val) xc /\ (12 < len)%nat /\ N.land val 4095 = F /\
          p mod 2 ^ (N.of_nat len - 12) = N.shiftr val 12 /\
          aget lg (base + p) = s + 1024 * N.of_nat len) /\
       (forall s len val, In (s, len, val) xc -> (12 < len)%nat -> N.land val 4095 = F ->
          p mod 2 ^ (N.of_nat len - 12) = N.shiftr val 12 -> aget lg (base + p) <> 0)).

Lemma gok_group_ok : forall xc F sh lg lcl, lcl <= 1264 -> gok xc F sh lg lcl -> group_ok xc F sh lg.
Proof.
  intros xc F sh lg lcl Hl (base & maxLen & H1 & H2 & H3 & H4 & H5).
  exists base, maxLen. split; [exact H1|]. split; [exact H2|]. split; [lia|]. split; assumption.
Qed.

Definition elc_inv (xc : xlist) (d : dynHdr) (n : N) (S0 : arr) (i : N)
           (st : arr * arr * arr * N * bool) : Prop :=
  let '(short, long, huff, lcl, pan) := st in
  pan = false ->
  lcl <= 1264 /\ hvalid d n huff /\
  (forall j, j < i -> j < n -> mkd d huff j) /\
  (forall j j', j < n -> j' < n -> N.land (lv d j) 4095 = N.land (lv d j') 4095 ->
     mkd d huff j -> mkd d huff j') /\
  (forall j, j < n -> mkd d huff j -> gok xc (N.land (lv d j) 4095) short long lcl) /\
  (forall x, x < 4096 -> (forall j, j < n -> mkd d huff j -> N.land (lv d j) 4095 <> x) ->
     aget short x = aget S0 x).

Lemma long_ptr_eq : forall lcl maxLen, lcl <= 1264 -> maxLen <= 20 ->
  u32 (N.lor (N.lor lcl (N.shiftl maxLen 26)) largeFlagBit) = long_ptr lcl maxLen.
Proof.
  intros lcl maxLen Hl Hm.
  rewrite <- N.lor_assoc, (N.lor_comm (N.shiftl maxLen 26)), N.lor_assoc.
  change largeFlagBit with (N.shiftl 1 25).
  rewrite (lor_shiftl_add lcl 1 25) by (change (2 ^ 25) with 33554432; lia).
  rewrite (lor_shiftl_add _ maxLen 26) by (change (2 ^ 25) with 33554432; change (2 ^ 26) with 67108864; lia).
  unfold long_ptr. change (2 ^ 25) with 33554432. change (2 ^ 26) with 67108864.
  rewrite u32_small by lia. lia.
Qed.

Lemma frev_map : forall (A B : Type) (f : A -> B) l, frev (map f l) = map f (rev l).
Proof. intros A B f l. unfold frev. rewrite rev_append_rev, app_nil_r, map_rev. reflexivity. Qed.

Lemma elc_inv_init : forall xc d n S0 lg0, lfacts xc d n ->
  elc_inv xc d n S0 0 (S0, lg0, litAndDistHuff d, 0, false).
Proof.
  intros xc d n S0 lg0 Hf. unfold elc_inv. intros _.
  pose proof Hf as (_ & Hpos & _).
  assert (Hun : forall j, j < n -> unm d (litAndDistHuff d) j).
  { intros j Hj. destruct (Hpos j Hj) as (_ & _ & _ & Hh & _). exact Hh. }
  split; [lia|]. split; [intros j Hj; left; apply Hun; exact Hj|].
  split; [intros j Hj; lia|].
  split.
  { intros j j' Hj Hj' _ Hk. exfalso.
    exact (unm_not_mkd xc d n _ j Hf Hj (Hun j Hj) Hk). }
  split.
  { intros j Hj Hk. exfalso. exact (unm_not_mkd xc d n _ j Hf Hj (Hun j Hj) Hk). }
  intros x Hx _. reflexivity.
Qed.

Lemma elc_step_inv : forall xc d n S0 i st,
  lfacts xc d n -> i < n -> elc_inv xc d n S0 i st ->
  elc_inv xc d n S0 (i + 1) (elc_step d n i st).
Proof.
  intros xc d n S0 i [[[[short long] huff] lcl] pan] Hf Hi Hinv.
  destruct pan.
  { change (elc_step d n i (short, long, huff, lcl, true)) with (short, long, huff, lcl, true).
    unfold elc_inv. intro Hc. discriminate Hc. }
  unfold elc_inv in Hinv. specialize (Hinv eq_refl).
  destruct Hinv as (Hlcl & Hv & Hb & Hc & Hd & He).
  pose proof Hf as (Hn514 & Hpos & Hmono & Hinj & Hall).
  destruct (elc_step d n i (short, long, huff, lcl, false)) as [[[[s1 l1] h1] c1] p1] eqn:E.
  unfold elc_inv. intro Hp1. subst p1.
  unfold elc_step in E.
  destruct (516 <=? aget (litCount d) 13 + i) eqn:E516; [lia|].
  change (aget (codeList d) (aget (litCount d) 13 + i)) with (lidx d i) in E.
  destruct (Hv i Hi) as [Hu|Hk].
  2:{ (* already marked *)
    destruct (mkd_code xc d n huff i Hf Hi Hk) as [Hcode _].
    rewrite Hcode, N.eqb_refl in E. inversion E; subst s1 l1 h1 c1. clear E.
    split; [exact Hlcl|]. split; [exact Hv|]. split.
    { intros j Hj Hjn. destruct (N.eq_dec j i) as [->|Hne]; [exact Hk|apply Hb; lia]. }
    split; [exact Hc|]. split; [exact Hd|exact He]. }
  destruct (unm_code xc d n huff i Hf Hi Hu) as [Hcode HlenI].
  pose proof (lv_lt xc d n i Hf Hi) as Hlvi.
  destruct (hc_code (aget huff (lidx d i)) =? invalidCodeValue) eqn:Einv.
  { rewrite Hcode in Einv. unfold invalidCodeValue in Einv. lia. }
  cbv zeta in E.
  pose proof (elc_scan_spec d huff (N.land (hc_code (aget huff (lidx d i))) 4095) i n Hi) as HS.
  destruct (forN (i + 1) n (elc_scan d huff (N.land (hc_code (aget huff (lidx d i))) 4095))
                 (hc_len (aget huff (lidx d i)), [lidx d i])) as [maxLen tempRev] eqn:ES.
  destruct HS as (jr & Htl & Hin & Hrng & Hsel & Hscan & jl & Hjl & Hml & Hmax).
  cbn [fst snd] in Htl, Hml.
  rewrite Hcode in E, Hsel, Hscan.
  set (F := N.land (lv d i) 4095) in *.
  assert (HjlN : jl < n) by (specialize (Hrng jl Hjl); lia).
  assert (HmlL : maxLen = lL d jl).
  { rewrite Hml. apply (valid_len xc d n huff jl Hf Hv HjlN). }
  destruct (Hpos jl HjlN) as (_ & HLjl & _).
  rewrite shl32_1 in E by lia.
  pose proof (pow_le_256 maxLen ltac:(lia)) as H256.
  destruct (1264 <? lcl + 2 ^ (maxLen - 12)) eqn:E1264.
  { inversion E. }
  rewrite Htl, frev_map, elc_fold_eq in E.
  set (longc := forN lcl (lcl + 2 ^ (maxLen - 12)) (fun x t => aset t x 0) long) in *.
  destruct (fold_left (elc_fold_f small_fuel lcl (2 ^ (maxLen - 12))) (map (lidx d) (rev jr))
                      (longc, huff, false)) as [[long2 huff2] pan2] eqn:EF.
  inversion E; subst s1 l1 h1 c1 pan2. clear E.
  assert (HjsA : forall j, In j (rev jr) -> j < n /\ lL d j <= maxLen).
  { intros j Hj. rewrite <- in_rev in Hj. specialize (Hrng j Hj). split; [lia|].
    rewrite HmlL. apply Hmono; [apply Hmax; exact Hj|exact HjlN]. }
  apply (elc_fold_spec small_fuel xc d n lcl maxLen (rev jr) longc huff false long2 huff2 false
           small_fuel_val Hf ltac:(lia) ltac:(lia) Hv HjsA) in EF.
  destruct EF as (_ & V2 & K2 & Q2 & A2 & B2).
  assert (Hclear : forall q, aget longc q =
            if (lcl <=? q) && (q <? lcl + 2 ^ (maxLen - 12)) then 0 else aget long q).
  { intro q. unfold longc. apply (forN_aset_get (fun _ => 0)). lia. }
  assert (HjsB : forall j, In j (rev jr) -> unm d huff j -> N.land (lv d j) 4095 = F).
  { intros j Hj Huj. rewrite <- in_rev in Hj. destruct (Hsel j Hj) as [->|Hs]; [reflexivity|].
    unfold scan_sel in Hs. specialize (Hrng j Hj).
    destruct (unm_code xc d n huff j Hf ltac:(lia) Huj) as [Hcj _]. rewrite Hcj in Hs. lia. }
  assert (HjsC : forall j, j < n -> N.land (lv d j) 4095 = F -> In j (rev jr) /\ unm d huff j).
  { intros j Hj HF.
    assert (Huj : unm d huff j).
    { destruct (Hv j Hj) as [Huj|Hkj]; [exact Huj|exfalso].
      apply (unm_not_mkd xc d n huff i Hf Hi Hu). apply (Hc j i Hj Hi HF Hkj). }
    split; [|exact Huj]. rewrite <- in_rev.
    destruct (N.lt_trichotomy j i) as [Hlt|[->|Hgt]].
    - exfalso. apply (unm_not_mkd xc d n huff j Hf Hj Huj). apply Hb; assumption.
    - exact Hin.
    - apply Hscan; [lia|]. unfold scan_sel.
      destruct (unm_code xc d n huff j Hf Hj Huj) as [Hcj _]. rewrite Hcj. lia. }
  assert (Hlcl' : u32 (lcl + 2 ^ (maxLen - 12)) = lcl + 2 ^ (maxLen - 12)) by (apply u32_small; lia).
  rewrite Hlcl'. rewrite long_ptr_eq by lia.
  assert (Hmk_old : forall j, j < n -> mkd d huff j -> mkd d huff2 j).
  { intros j Hj Hkj. apply K2; [exact Hj|left; exact Hkj]. }
  assert (Hmi : mkd d huff2 i).
  { apply K2; [exact Hi|right; rewrite <- in_rev; exact Hin]. }
  split; [lia|]. split; [exact V2|]. split; [|split; [|split]].
  - intros j Hj Hjn. destruct (N.eq_dec j i) as [->|Hne]; [exact Hmi|].
    apply Hmk_old; [exact Hjn|apply Hb; lia].
  - intros j j' Hj Hj' HFF Hkj. apply K2 in Hkj; [|exact Hj].
    assert (Hcase : mkd d huff j \/ (In j (rev jr) /\ unm d huff j)).
    { destruct Hkj as [Hkj|Hjin]; [left; exact Hkj|].
      destruct (Hv j Hj) as [Huj|Hkj]; [right; split; assumption|left; exact Hkj]. }
    destruct Hcase as [Hkj'|[Hjin Huj]].
    + apply Hmk_old; [exact Hj'|]. apply (Hc j j' Hj Hj' HFF Hkj').
    + apply K2; [exact Hj'|]. right. apply HjsC; [exact Hj'|]. rewrite <- HFF.
      apply HjsB; assumption.
  - intros j Hj Hkj.
    destruct (N.eq_dec (N.land (lv d j) 4095) F) as [HF|HF].
    + (* the new group *)
      rewrite HF. exists lcl, maxLen.
      split; [apply aget_aset_same|]. split; [lia|]. split; [lia|]. split.
      * intros s len val Hinx Hlen HvF.
        destruct (Hall s len val Hinx Hlen) as (j' & Hj' & _ & HLj' & Hvj').
        rewrite <- Hvj' in HvF. destruct (HjsC j' Hj' HvF) as [Hj'in _].
        rewrite <- HLj'. apply HjsA. exact Hj'in.
      * intros p Hp. split.
        -- destruct (A2 p Hp) as [Hs|(j' & Hj'in & Huj' & Hmod & Hent)].
           ++ left. rewrite Hs, Hclear.
              replace ((lcl <=? lcl + p) && (lcl + p <? lcl + 2 ^ (maxLen - 12))) with true by lia.
              reflexivity.
           ++ right. destruct (HjsA j' Hj'in) as [Hj'n _].
              destruct (Hpos j' Hj'n) as (_ & HLj' & _ & _ & Hinx).
              exists (indexToSym (lidx d j')), (N.to_nat (lL d j')), (lv d j').
              rewrite N2Nat.id. split; [exact Hinx|]. split; [lia|].
              split; [apply HjsB; assumption|]. split; [exact Hmod|exact Hent].
        -- intros s len val Hinx Hlen HvF Hmod.
           destruct (Hall s len val Hinx Hlen) as (j' & Hj' & _ & HLj' & Hvj').
           rewrite <- Hvj' in HvF. destruct (HjsC j' Hj' HvF) as [Hj'in Huj'].
           apply (B2 j' p Hj'in Huj' Hp). rewrite HLj', Hvj'. exact Hmod.
    + (* an earlier group *)
      assert (Hkj0 : mkd d huff j).
      { apply K2 in Hkj; [|exact Hj]. destruct Hkj as [Hkj|Hjin]; [exact Hkj|].
        destruct (Hv j Hj) as [Huj|Hkj]; [|exact Hkj]. exfalso. apply HF. apply HjsB; assumption. }
      destruct (Hd j Hj Hkj0) as (base & ml & G1 & G2 & G3 & G4 & G5).
      exists base, ml. split; [rewrite aget_aset_other by exact HF; exact G1|].
      split; [exact G2|]. split; [lia|]. split; [exact G4|].
      intros p Hp.
      assert (Hsame : aget long2 (base + p) = aget long (base + p)).
      { rewrite Q2 by lia. rewrite Hclear.
        replace ((lcl <=? base + p) && (base + p <? lcl + 2 ^ (maxLen - 12))) with false by lia.
        reflexivity. }
      rewrite Hsame. apply G5. exact Hp.
  - intros x Hx Hno.
    assert (HxF : x <> F).
    { intro Hx'. subst x. apply (Hno i Hi Hmi). reflexivity. }
    rewrite aget_aset_other by exact HxF. apply He; [exact Hx|].
    intros j Hj Hkj. apply Hno; [exact Hj|apply Hmk_old; assumption].
Qed.

(* ---------------------------------------------------------------- the theorem *)
Theorem encodeLongCodes_ok : forall xc d S0 lg0 sh lg huff',
  xc_wf xc -> xsorted xc d ->
  encodeLongCodes S0 lg0 d (aget (litCount d) 22) = (sh, lg, huff', false) ->
  long_ok xc S0 sh lg.
Proof.
  intros xc d S0 lg0 sh lg huff' Hwf Hs H.
  pose proof (lfacts_of xc d Hwf Hs) as Hf.
  rewrite encodeLongCodes_step_eq in H. cbv zeta in H.
  assert (Hle : aget (litCount d) 13 <= aget (litCount d) 22).
  { destruct Hs as (_ & Hm & _). apply lc_mono; [exact Hm|lia|lia]. }
  rewrite sub32_le in H by exact Hle.
  set (n := aget (litCount d) 22 - aget (litCount d) 13) in *.
  assert (Hinv : elc_inv xc d n S0 n
                   (forN 0 n (elc_step d n) (S0, lg0, litAndDistHuff d, 0, false))).
  { apply (forN_ind _ (fun i st => elc_inv xc d n S0 i st)).
    - lia.
    - apply elc_inv_init. exact Hf.
    - intros j x Hj Hx. apply elc_step_inv; [exact Hf|lia|exact Hx]. }
  destruct (forN 0 n (elc_step d n) (S0, lg0, litAndDistHuff d, 0, false))
    as [[[[s1 l1] h1] c1] p1] eqn:E.
  inversion H; subst s1 l1 h1 p1. clear H.
  unfold elc_inv in Hinv. specialize (Hinv eq_refl).
  destruct Hinv as (Hlcl & Hv & Hb & Hc & Hd & He).
  pose proof Hf as (_ & Hpos & _ & _ & Hall).
  split.
  - intros x Hx Hno. apply He; [exact Hx|]. intros j Hj Hk.
    destruct (Hpos j Hj) as (_ & HL & _ & _ & Hin).
    apply (Hno _ _ _ Hin). lia.
  - intros s len val Hin Hlen.
    destruct (Hall s len val Hin Hlen) as (j & Hj & _ & _ & Hvj).
    rewrite <- Hvj. apply (gok_group_ok xc _ sh lg c1 Hlcl).
    apply Hd; [exact Hj|]. apply Hb; assumption.
Qed.

Print Assumptions encodeLongCodes_ok.
