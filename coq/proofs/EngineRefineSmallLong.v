(* EngineRefineSmallLong.v -- gen_small (genForDists), third part: the groups of codes longer
   than 10 bits in the long table. *)
From Coq Require Import List NArith ZArith Bool Lia ZifyBool ZifyNat ZifyN.
From Verif Require Import Bits Huffman Inflate HuffmanProofs.
From Verif Require Import Base EngineTables Engine EngineRefineSpec.
From Verif Require Import EngineRefineSmallBase EngineRefineSmallCodes EngineRefineSmallSort
                          EngineRefineSmallShort.
Import ListNotations.
Open Scope N_scope.

(* ---------------------------------------------------------------- long_fill *)
Lemma long_fill_done : forall fuel bound wrap long base lb lim minInc entry pan,
  lim <= lb -> long_fill fuel bound wrap long base lb lim minInc entry pan = (long, pan).
Proof.
  intros fuel bound wrap long base lb lim minInc entry pan H.
  destruct fuel as [|f]; [reflexivity|]. cbn [long_fill].
  destruct (N.ltb_spec lb lim); [lia|reflexivity].
Qed.

Lemma mod_step : forall d m, 0 < m -> 0 < d ->
  (d mod m = 0 <-> m <= d /\ (d - m) mod m = 0).
Proof.
  intros d m Hm Hd. split.
  - intros H. assert (Hle : m <= d).
    { destruct (N.le_gt_cases m d) as [Hle|Hgt]; [exact Hle|]. rewrite N.mod_small in H by exact Hgt. lia. }
    split; [exact Hle|].
    replace d with ((d - m) + 1 * m) in H by lia. rewrite N.mod_add in H by lia. exact H.
  - intros [Hle H]. replace d with ((d - m) + 1 * m) by lia. rewrite N.mod_add by lia. exact H.
Qed.

Lemma long_fill_spec : forall fuel long base lb lim minInc entry pan,
  1 <= minInc -> base + lim <= 80 -> lim + minInc <= 65535 -> lim - lb <= N.of_nat fuel ->
  exists long', long_fill fuel 80 mask16 long base lb lim minInc entry pan = (long', pan) /\
    forall z, aget long' z =
      if (base + lb <=? z) && (z <? base + lim) && ((z - base - lb) mod minInc =? 0)
      then entry else aget long z.
Proof.
  induction fuel as [|f IH]; intros long base lb lim minInc entry pan Hm Hb Hw Hf.
  - exists long. split; [reflexivity|]. intros z.
    destruct (N.leb_spec (base + lb) z); destruct (N.ltb_spec z (base + lim)); cbn [andb]; try reflexivity; lia.
  - cbn [long_fill]. destruct (N.ltb_spec lb lim) as [Hlt|Hge].
    + destruct (N.leb_spec 80 (base + lb)) as [H80|H80]; [lia|].
      assert (Hl : N.land (lb + minInc) mask16 = lb + minInc).
      { change mask16 with (N.ones 16). rewrite N.land_ones. apply N.mod_small.
        change (2 ^ 16) with 65536. lia. }
      rewrite Hl.
      destruct (IH (aset long (base + lb) entry) base (lb + minInc) lim minInc entry pan Hm Hb Hw ltac:(lia))
        as (long' & E & HS).
      exists long'. split; [exact E|]. intros z. rewrite (HS z). rewrite aget_aset.
      destruct (N.eqb_spec z (base + lb)) as [->|Hne].
      * destruct (N.leb_spec (base + (lb + minInc)) (base + lb)); [lia|]. cbn [andb].
        destruct (N.leb_spec (base + lb) (base + lb)); [|lia].
        destruct (N.ltb_spec (base + lb) (base + lim)); [|lia]. cbn [andb].
        replace (base + lb - base - lb) with 0 by lia. rewrite N.mod_0_l by lia. reflexivity.
      * destruct (N.ltb_spec z (base + lim)) as [Hz|Hz]; [|rewrite !andb_false_r; reflexivity].
        rewrite !andb_true_r.
        destruct (N.leb_spec (base + lb) z) as [Hz1|Hz1]; cbn [andb].
        -- assert (Hd : 0 < z - base - lb) by lia.
           pose proof (mod_step (z - base - lb) minInc ltac:(lia) Hd) as HM.
           replace (z - base - (lb + minInc)) with (z - base - lb - minInc) by lia.
           destruct (N.leb_spec (base + (lb + minInc)) z) as [Hz2|Hz2]; cbn [andb].
           ++ destruct (N.eqb_spec ((z - base - lb - minInc) mod minInc) 0) as [E1|E1];
                destruct (N.eqb_spec ((z - base - lb) mod minInc) 0) as [E2|E2]; try reflexivity.
              ** exfalso. apply E2. apply HM. split; [lia|exact E1].
              ** exfalso. apply E1. apply HM. exact E2.
           ++ destruct (N.eqb_spec ((z - base - lb) mod minInc) 0) as [E2|E2]; [|reflexivity].
              exfalso. apply HM in E2. lia.
        -- destruct (N.leb_spec (base + (lb + minInc)) z); [lia|]. reflexivity.
    + exists long. split; [reflexivity|]. intros z.
      destruct (N.leb_spec (base + lb) z); destruct (N.ltb_spec z (base + lim)); cbn [andb]; try reflexivity; lia.
Qed.

Lemma mod_hit : forall y lb m, 0 < m -> lb < m ->
  ((lb <= y /\ (y - lb) mod m = 0) <-> y mod m = lb).
Proof.
  intros y lb m Hm Hlb. split.
  - intros [Hle H]. apply N.div_exact in H; [|lia].
    set (q := (y - lb) / m) in *.
    replace y with (lb + q * m) by nia.
    rewrite N.mod_add by lia. apply N.mod_small. exact Hlb.
  - intros H. pose proof (N.div_mod y m ltac:(lia)) as HD. rewrite H in HD.
    set (q := y / m) in *. split; [nia|]. replace (y - lb) with (q * m) by nia. apply N.mod_mul. lia.
Qed.

(* the form used for a group member: lb < minInc *)
Lemma long_fill_group : forall fuel long base lb lim minInc entry pan,
  1 <= minInc -> lb < minInc -> base + lim <= 80 -> lim + minInc <= 65535 -> lim <= N.of_nat fuel ->
  exists long', long_fill fuel 80 mask16 long base lb lim minInc entry pan = (long', pan) /\
    (forall z, z < base \/ base + lim <= z -> aget long' z = aget long z) /\
    (forall y, y < lim -> aget long' (base + y) = if y mod minInc =? lb then entry else aget long (base + y)).
Proof.
  intros fuel long base lb lim minInc entry pan Hm Hlb Hb Hw Hf.
  destruct (long_fill_spec fuel long base lb lim minInc entry pan Hm Hb Hw ltac:(lia)) as (long' & E & HS).
  exists long'. split; [exact E|]. split.
  - intros z Hz. rewrite (HS z).
    destruct (N.leb_spec (base + lb) z); destruct (N.ltb_spec z (base + lim)); cbn [andb]; try reflexivity; lia.
  - intros y Hy. rewrite (HS (base + y)).
    destruct (N.ltb_spec (base + y) (base + lim)); [|lia]. rewrite andb_true_r.
    replace (base + y - base - lb) with (y - lb) by lia.
    pose proof (mod_hit y lb minInc ltac:(lia) Hlb) as HM.
    destruct (N.leb_spec (base + lb) (base + y)) as [H1|H1]; cbn [andb].
    + destruct (N.eqb_spec ((y - lb) mod minInc) 0) as [E1|E1];
        destruct (N.eqb_spec (y mod minInc) lb) as [E2|E2]; try reflexivity.
      * exfalso. apply E2. apply HM. split; [lia|exact E1].
      * exfalso. apply E1. apply HM. exact E2.
    + destruct (N.eqb_spec (y mod minInc) lb) as [E2|E2]; [|reflexivity].
      exfalso. apply HM in E2. lia.
Qed.

Lemma dist_extra_small : forall s, s < 30 -> aget rfc_dist_extra s < 16.
Proof.
  intros s Hs.
  pose proof (allb_spec 30 (fun s => aget rfc_dist_extra s <? 16) ltac:(vm_compute; reflexivity) s
                ltac:(cbn; lia)) as H.
  cbv beta in H. lia.
Qed.

Section LongPhase.
Variables (codes0 : arr) (n : N) (count : arr) (cl : arr) (maxSymbol : N) (fuel : nat).
Hypothesis OK : codes_ok codes0 n count.
Hypothesis SO : sort_ok codes0 n cl.
Hypothesis Hmax : n <= maxSymbol.
Hypothesis Hfuel : 32 <= N.of_nat fuel.

Definition lstart : N := ctv codes0 n 11.
Definition llen : N := ctv codes0 n 16 - ctv codes0 n 11.

Definition islong (s : N) : Prop := s < n /\ 11 <= cL codes0 s.
Definition sym (p : N) : N := aget cl (lstart + p).
Definition mk (s : N) : N := hc_setcode (aget codes0 s) 0xFFFF.
Definition lentry (s : N) : N :=
  u16 (N.lor (N.lor s (N.shiftl (aget rfc_dist_extra s) 5)) (N.shiftl (cL codes0 s) 10)).
Definition gW (j : N) : N := cL codes0 j - 10.
Definition gV (j : N) : N := cR codes0 j / 1024.

Lemma lstart_len : lstart + llen = ctv codes0 n 16.
Proof.
  unfold lstart, llen.
  pose proof (ctv_mono codes0 n 11 16 ltac:(lia) ltac:(lia)). lia.
Qed.

Lemma sym_islong : forall p, p < llen -> islong (sym p).
Proof.
  intros p Hp. pose proof lstart_len as HL.
  destruct (so_in _ _ _ SO (lstart + p) ltac:(lia)) as (A & B & C).
  unfold islong, sym. split; [exact A|].
  destruct (N.le_gt_cases 11 (cL codes0 (aget cl (lstart + p)))) as [H|H]; [exact H|exfalso].
  pose proof (ctv_mono codes0 n (cL codes0 (aget cl (lstart + p)) + 1) 11 ltac:(lia) ltac:(lia)).
  unfold lstart in *. lia.
Qed.

Lemma sym_surj : forall s, islong s -> exists p, p < llen /\ sym p = s.
Proof.
  intros s [Hs Ls]. pose proof lstart_len as HL.
  destruct (so_surj _ _ _ SO s Hs ltac:(lia)) as (k & Hk & Ek).
  destruct (so_in _ _ _ SO k Hk) as (A & B & C). rewrite Ek in C.
  pose proof (ctv_mono codes0 n 11 (cL codes0 s) ltac:(lia) Ls) as HM.
  exists (k - lstart). unfold sym, lstart in *. split; [lia|].
  replace (ctv codes0 n 11 + (k - ctv codes0 n 11)) with k by lia. exact Ek.
Qed.

Lemma sym_inj : forall p q, p < llen -> q < llen -> sym p = sym q -> p = q.
Proof.
  intros p q Hp Hq H. pose proof lstart_len as HL.
  pose proof (so_inj _ _ _ SO (lstart + p) (lstart + q) ltac:(lia) ltac:(lia) H). lia.
Qed.

Lemma sym_mono : forall p q, p <= q -> q < llen -> cL codes0 (sym p) <= cL codes0 (sym q).
Proof.
  intros p q Hpq Hq. pose proof lstart_len as HL.
  apply (sort_len_mono codes0 n count cl (lstart + p) (lstart + q) OK SO); lia.
Qed.

Lemma islong_facts : forall s, islong s ->
  cL codes0 s <= 15 /\ cR codes0 s < 32768 /\ aget codes0 s < 4294967296 /\ s < 30 /\
  cR codes0 s < 2 ^ cL codes0 s.
Proof.
  intros s [Hs Ls].
  pose proof (ck_len _ _ _ OK s Hs) as H15.
  pose proof (ck_code _ _ _ OK s Hs ltac:(lia)) as HR.
  pose proof (ck_u32 _ _ _ OK s Hs) as H32.
  pose proof (ck_n _ _ _ OK) as Hn.
  assert (2 ^ cL codes0 s <= 2 ^ 15) by (apply pow2_le_mono; lia).
  change (2 ^ 15) with 32768 in *. repeat split; try lia.
Qed.

Lemma mk_len : forall s, islong s -> hc_len (mk s) = cL codes0 s.
Proof.
  intros s Hs. destruct (islong_facts s Hs) as (_ & _ & H32 & _).
  unfold mk. rewrite hc_setcode_len by exact H32. reflexivity.
Qed.

Lemma mk_code : forall s, hc_code (mk s) = 65535.
Proof. intros s. unfold mk. apply hc_setcode_code. lia. Qed.

Lemma mk_ne : forall s, islong s -> aget codes0 s <> mk s.
Proof.
  intros s Hs E. destruct (islong_facts s Hs) as (_ & HR & _).
  apply (f_equal hc_code) in E. rewrite mk_code in E. unfold cR in HR. lia.
Qed.

Lemma mk_idem : forall s, hc_setcode (mk s) 65535 = mk s.
Proof. intros s. unfold mk. apply hc_setcode_idem. Qed.

(* ------------------------------------------------ state of the codes array: some long codes marked *)
Definition Mk (codes : arr) (s : N) : Prop := aget codes s = mk s /\ islong s.
Definition cstate (codes : arr) : Prop := forall s, aget codes s = aget codes0 s \/ Mk codes s.

Lemma cstate_len : forall codes s, cstate codes -> hc_len (aget codes s) = cL codes0 s.
Proof.
  intros codes s CS. destruct (CS s) as [E|[E HL]].
  - rewrite E. reflexivity.
  - rewrite E. apply mk_len. exact HL.
Qed.

Lemma unmarked_code : forall codes s, cstate codes -> hc_code (aget codes s) <> 65535 ->
  aget codes s = aget codes0 s.
Proof.
  intros codes s CS H. destruct (CS s) as [E|[E HL]]; [exact E|].
  rewrite E, mk_code in H. contradiction.
Qed.

Lemma marked_code : forall codes s, cstate codes -> islong s -> hc_code (aget codes s) = 65535 ->
  Mk codes s.
Proof.
  intros codes s CS HL H. destruct (CS s) as [E|M]; [|exact M].
  destruct (islong_facts s HL) as (_ & HR & _). rewrite E in H. unfold cR in HR. lia.
Qed.

(* ------------------------------------------------ collecting a group *)
Lemma group_spec : forall codes i fb, cstate codes -> i < llen ->
  let '(ml, tl) := gs_group false cl codes lstart llen i fb (hc_len (aget codes (sym i)), [sym i]) in
  NoDup tl /\
  (forall s, In s tl <-> s = sym i \/
     exists j, i < j < llen /\ s = sym j /\ N.land (hc_code (aget codes (sym j))) 1023 = fb) /\
  exists p, i <= p < llen /\ ml = cL codes0 (sym p) /\
            forall s, In s tl -> exists q, i <= q <= p /\ s = sym q.
Proof.
  intros codes i fb CS Hi. unfold gs_group.
  match goal with |- let '(ml, tl) := forN _ _ ?f0 ?s0 in _ =>
    pose proof (forN_ind (N * list N) (fun j (a : N * list N) =>
      NoDup (snd a) /\
      (forall s, In s (snd a) <-> s = sym i \/
         exists j', i < j' < j /\ s = sym j' /\ N.land (hc_code (aget codes (sym j'))) 1023 = fb) /\
      exists p, i <= p < j /\ fst a = cL codes0 (sym p) /\
                forall s, In s (snd a) -> exists q, i <= q <= p /\ s = sym q)
      f0 (i + 1) llen s0 ltac:(lia)) as HI;
    destruct (forN (i + 1) llen f0 s0) as [ml tl]
  end.
  cbn [fst snd] in HI. apply HI; clear HI.
  - split; [|split].
    + constructor; [intros []|constructor].
    + intros s. cbn [In]. split.
      * intros [H|[]]. left. symmetry. exact H.
      * intros [H|(j' & Hj' & _)]; [left; symmetry; exact H|lia].
    + exists i. split; [lia|]. split; [apply cstate_len; exact CS|].
      intros s [H|[]]. exists i. split; [lia|symmetry; exact H].
  - intros j [ml1 tl1] Hj (N1 & I1 & (p & Hp & Ep & Hq)). cbn [fst snd] in *.
    fold (sym j).
    destruct (N.eqb_spec (N.land (hc_code (aget codes (sym j))) 1023) fb) as [E|E]; cbn [fst snd].
    + split; [|split].
      * constructor; [|exact N1]. intros HIn. destruct (Hq _ HIn) as (q & Hq1 & Hq2).
        apply sym_inj in Hq2; lia.
      * intros s. cbn [In]. rewrite (I1 s). split.
        -- intros [H|[H|(j' & Hj' & A & B)]].
           ++ right. exists j. split; [lia|]. split; [symmetry; exact H|exact E].
           ++ left. exact H.
           ++ right. exists j'. split; [lia|]. split; assumption.
        -- intros [H|(j' & Hj' & A & B)].
           ++ right. left. exact H.
           ++ destruct (N.eq_dec j' j) as [->|Hne].
              ** left. symmetry. exact A.
              ** right. right. exists j'. split; [lia|]. split; assumption.
      * exists j. split; [lia|]. split; [apply cstate_len; exact CS|].
        intros s [H|H].
        -- exists j. split; [lia|symmetry; exact H].
        -- destruct (Hq s H) as (q & Hq1 & Hq2). exists q. split; [lia|exact Hq2].
    + split; [exact N1|]. split.
      * intros s. rewrite (I1 s). split.
        -- intros [H|(j' & Hj' & A & B)]; [left; exact H|].
           right. exists j'. split; [lia|]. split; assumption.
        -- intros [H|(j' & Hj' & A & B)]; [left; exact H|].
           destruct (N.eq_dec j' j) as [->|Hne]; [contradiction|].
           right. exists j'. split; [lia|]. split; assumption.
      * exists p. split; [lia|]. split; [exact Ep|exact Hq].
Qed.

(* ------------------------------------------------ filling in one member *)
Lemma shl16_pow : forall k, k <= 5 -> shl16 1 k = 2 ^ k.
Proof.
  intros k Hk. unfold shl16. destruct (N.leb_spec 16 k); [lia|].
  rewrite shiftl_1. apply u16_small.
  apply N.le_lt_trans with (2 ^ 5); [apply pow2_le_mono; exact Hk|reflexivity].
Qed.

Lemma gs_fill_unmarked : forall long codes s ml lcl,
  islong s -> aget codes s = aget codes0 s -> cL codes0 s <= ml -> ml <= 15 ->
  lcl + 2 ^ (ml - 10) <= 80 ->
  exists long',
    gs_fill fuel false maxSymbol lcl (2 ^ (ml - 10)) (long, codes, false) s
    = (long', aset codes s (mk s), false) /\
    (forall z, z < lcl \/ lcl + 2 ^ (ml - 10) <= z -> aget long' z = aget long z) /\
    (forall y, y < 2 ^ (ml - 10) ->
       aget long' (lcl + y) = if y mod 2 ^ gW s =? gV s then lentry s else aget long (lcl + y)).
Proof.
  intros long codes s ml lcl HL E Hml H15 H80.
  destruct (islong_facts s HL) as (F1 & F2 & F3 & F4 & F5). destruct HL as [Hs Ls].
  unfold gs_fill. rewrite E. fold (cL codes0 s). fold (cR codes0 s). fold (mk s).
  destruct (N.ltb_spec maxSymbol s) as [Hlt|_]; [lia|]. cbn [negb].
  rewrite shl16_pow by lia.
  rewrite N.shiftr_div_pow2. change (2 ^ 10) with 1024.
  assert (Hlb : cR codes0 s / 1024 < 2 ^ (cL codes0 s - 10)).
  { apply N.div_lt_upper_bound; [lia|]. change 1024 with (2 ^ 10). rewrite <- N.pow_add_r.
    replace (10 + (cL codes0 s - 10)) with (cL codes0 s) by lia. exact F5. }
  assert (Hp5 : 2 ^ (cL codes0 s - 10) <= 32).
  { change 32 with (2 ^ 5). apply pow2_le_mono. lia. }
  assert (Hg5 : 2 ^ (ml - 10) <= 32).
  { change 32 with (2 ^ 5). apply pow2_le_mono. lia. }
  rewrite (u16_small (cR codes0 s / 1024)) by lia.
  pose proof (pow2_gt0 (cL codes0 s - 10)) as Hp0.
  destruct (long_fill_group fuel long lcl (cR codes0 s / 1024) (2 ^ (ml - 10)) (2 ^ (cL codes0 s - 10))
              (u16 (N.lor (N.lor s (N.shiftl (aget rfc_dist_extra s) 5)) (N.shiftl (cL codes0 s) 10)))
              false ltac:(lia) Hlb H80 ltac:(lia) ltac:(lia)) as (long' & EF & A & B).
  rewrite EF. exists long'. split; [reflexivity|]. split; [exact A|].
  intros y Hy. rewrite (B y Hy). reflexivity.
Qed.

Lemma gs_fill_marked : forall long codes s ml lcl,
  islong s -> aget codes s = mk s -> 11 <= ml <= 15 ->
  gs_fill fuel false maxSymbol lcl (2 ^ (ml - 10)) (long, codes, false) s
  = (long, aset codes s (mk s), false).
Proof.
  intros long codes s ml lcl HL E Hml.
  unfold gs_fill. rewrite E, mk_code, mk_idem.
  change (u16 (N.shiftr 65535 10)) with 63.
  assert (Hg5 : 2 ^ (ml - 10) <= 32).
  { change 32 with (2 ^ 5). apply pow2_le_mono. lia. }
  rewrite long_fill_done by lia. reflexivity.
Qed.

(* ------------------------------------------------ filling in a group *)
Lemma fill_fold : forall ml lcl temp long codesC (P : N -> Prop),
  11 <= ml <= 15 -> lcl + 2 ^ (ml - 10) <= 80 ->
  NoDup temp ->
  (forall s, In s temp -> islong s /\ (aget codesC s = aget codes0 s \/ aget codesC s = mk s) /\
       (aget codesC s = aget codes0 s -> cL codes0 s <= ml)) ->
  (forall y, y < 2 ^ (ml - 10) -> tspec P gW gV lentry y (aget long (lcl + y))) ->
  exists long2 codes2,
    fold_left (gs_fill fuel false maxSymbol lcl (2 ^ (ml - 10))) temp (long, codesC, false)
    = (long2, codes2, false) /\
    (forall s, In s temp -> aget codes2 s = mk s) /\
    (forall s, ~ In s temp -> aget codes2 s = aget codesC s) /\
    (forall z, z < lcl \/ lcl + 2 ^ (ml - 10) <= z -> aget long2 z = aget long z) /\
    (forall y, y < 2 ^ (ml - 10) ->
       tspec (fun j => P j \/ (In j temp /\ aget codesC j = aget codes0 j)) gW gV lentry y
             (aget long2 (lcl + y))).
Proof.
  intros ml lcl temp. induction temp as [|s r IH]; intros long codesC P Hml H80 ND HT HP.
  - exists long, codesC. split; [reflexivity|]. split; [intros s []|]. split; [reflexivity|].
    split; [reflexivity|]. intros y Hy. eapply tspec_ext; [|apply (HP y Hy)].
    intros j. split; [intros H; left; exact H|intros [H|[[] _]]; exact H].
  - inversion ND as [|s0 r0 Hnr NDr]; subst s0 r0.
    destruct (HT s (or_introl eq_refl)) as (HL & Hcase & Hlen).
    assert (Hstep : exists long',
       gs_fill fuel false maxSymbol lcl (2 ^ (ml - 10)) (long, codesC, false) s
       = (long', aset codesC s (mk s), false) /\
       (forall z, z < lcl \/ lcl + 2 ^ (ml - 10) <= z -> aget long' z = aget long z) /\
       (forall y, y < 2 ^ (ml - 10) ->
          tspec (fun j => P j \/ (j = s /\ aget codesC s = aget codes0 s)) gW gV lentry y
                (aget long' (lcl + y)))).
    { destruct Hcase as [E|E].
      - destruct (gs_fill_unmarked long codesC s ml lcl HL E (Hlen E) ltac:(lia) H80)
          as (long' & EF & A & B).
        exists long'. split; [exact EF|]. split; [exact A|].
        intros y Hy. rewrite (B y Hy).
        destruct (N.eqb_spec (y mod 2 ^ gW s) (gV s)) as [Eh|Eh].
        + apply tspec_hit; [right; split; [reflexivity|exact E]|exact Eh].
        + eapply tspec_grow; [| |apply (HP y Hy)].
          * intros j H. left. exact H.
          * intros j [H|[-> _]]; [left; exact H|right; exact Eh].
      - exists long. split; [apply gs_fill_marked; assumption|]. split; [reflexivity|].
        intros y Hy. eapply tspec_ext; [|apply (HP y Hy)].
        intros j. split; [intros H; left; exact H|].
        intros [H|[_ E2]]; [exact H|]. exfalso. apply (mk_ne s HL). rewrite <- E2. exact E. }
    destruct Hstep as (long' & EF & A & B).
    destruct (IH long' (aset codesC s (mk s)) (fun j => P j \/ (j = s /\ aget codesC s = aget codes0 s))
                 Hml H80 NDr) as (long2 & codes2 & EFold & C1 & C2 & C3 & C4).
    + intros s' Hs'. assert (Hne : s' <> s) by (intros ->; contradiction).
      rewrite aget_aset_other by exact Hne. apply HT. right. exact Hs'.
    + exact B.
    + exists long2, codes2. cbn [fold_left]. rewrite EF. split; [exact EFold|].
      split; [|split; [|split]].
      * intros s' [<-|Hs']; [|apply C1; exact Hs'].
        rewrite (C2 s Hnr). apply aget_aset_same.
      * intros s' Hs'. rewrite C2 by (intros H; apply Hs'; right; exact H).
        apply aget_aset_other. intros ->. apply Hs'. left. reflexivity.
      * intros z Hz. rewrite (C3 z Hz). apply A. exact Hz.
      * intros y Hy. eapply tspec_ext; [|apply (C4 y Hy)].
        intros j. cbn [In]. split.
        -- intros [[H|[-> E]]|[Hj E]].
           ++ left. exact H.
           ++ right. split; [left; reflexivity|exact E].
           ++ right. split; [right; exact Hj|].
              rewrite aget_aset_other in E by (intros ->; contradiction). exact E.
        -- intros [H|[[<-|Hj] E]].
           ++ left. left. exact H.
           ++ left. right. split; [reflexivity|exact E].
           ++ right. split; [exact Hj|].
              rewrite aget_aset_other by (intros ->; contradiction). exact E.
Qed.

(* ------------------------------------------------ the invariant of the long-code loop *)
Variable short1 : arr.

Definition group_ok (short long : arr) (lcl x : N) : Prop :=
  exists base ml,
    aget short x = u16 (N.lor (N.lor base (N.shiftl ml 11)) smallFlagBit) /\
    11 <= ml <= 15 /\ base + 2 ^ (ml - 10) <= lcl /\
    (forall s', islong s' -> cR codes0 s' mod 1024 = x -> cL codes0 s' <= ml) /\
    forall y, y < 2 ^ (ml - 10) ->
      tspec (fun j => islong j /\ cR codes0 j mod 1024 = x) gW gV lentry y (aget long (base + y)).

Record LInv (i : N) (short long codes : arr) (lcl : N) : Prop := {
  li_codes : cstate codes;
  li_done : forall p, p < i -> Mk codes (sym p);
  li_closed : forall s s', Mk codes s -> islong s' ->
              cR codes0 s' mod 1024 = cR codes0 s mod 1024 -> Mk codes s';
  li_groups : forall s, Mk codes s -> group_ok short long lcl (cR codes0 s mod 1024);
  li_short : forall x, (forall s, Mk codes s -> cR codes0 s mod 1024 <> x) ->
             aget short x = aget short1 x;
  li_lcl : lcl <= 80
}.

Lemma Mk_dec : forall codes s, Mk codes s \/ ~ Mk codes s.
Proof.
  intros codes s. unfold Mk, islong.
  destruct (N.eq_dec (aget codes s) (mk s)) as [E|E]; [|right; intros [H _]; contradiction].
  destruct (N.lt_ge_cases s n) as [H1|H1]; [|right; intros [_ [H _]]; lia].
  destruct (N.le_gt_cases 11 (cL codes0 s)) as [H2|H2]; [|right; intros [_ [_ H]]; lia].
  left. auto.
Qed.

Lemma land_1023 : forall x, N.land x 1023 = x mod 1024.
Proof. intros x. change 1023 with (N.ones 10). rewrite N.land_ones. reflexivity. Qed.

Lemma long_step_inv : forall i short long codes lcl short' long' codes' lcl',
  i < llen -> LInv i short long codes lcl ->
  gs_long_step fuel false cl maxSymbol lstart llen i (short, long, codes, lcl, ENone)
  = (short', long', codes', lcl', ENone) ->
  LInv (i + 1) short' long' codes' lcl'.
Proof.
  intros i short long codes lcl short' long' codes' lcl' Hi INV H.
  pose proof lstart_len as HLL. pose proof (ck_n _ _ _ OK) as Hn30.
  pose proof (ctv_le_n codes0 n 16) as H16n.
  pose proof (li_codes _ _ _ _ _ INV) as CS.
  pose proof (sym_islong i Hi) as HLi.
  unfold gs_long_step in H. cbn [ierr_eqb negb] in H. cbv iota in H.
  destruct (N.leb_spec 32 (lstart + i)) as [H32|_]; [lia|].
  fold (sym i) in H.
  destruct (N.eqb_spec (hc_code (aget codes (sym i))) 65535) as [Em|Em].
  { inversion H; subst. destruct INV as [I1 I2 I3 I4 I5 I6]. constructor; try assumption.
    intros p Hp. destruct (N.eq_dec p i) as [->|Hne]; [|apply I2; lia].
    apply marked_code; assumption. }
  pose proof (unmarked_code codes (sym i) CS Em) as Eli.
  pose proof (group_spec codes i (N.land (hc_code (aget codes (sym i))) 1023) CS Hi) as HG.
  destruct (gs_group false cl codes lstart llen i (N.land (hc_code (aget codes (sym i))) 1023)
              (hc_len (aget codes (sym i)), [sym i])) as [ml tl].
  destruct HG as (ND & HIn & p & Hp & Eml & Hq).
  rewrite Eli in HIn. fold (cR codes0 (sym i)) in HIn. rewrite land_1023 in HIn.
  rewrite Eli in H. fold (cR codes0 (sym i)) in H. rewrite land_1023 in H.
  set (fb := cR codes0 (sym i) mod 1024) in *.
  cbn [negb andb] in H. rewrite shiftl_1 in H.
  pose proof (sym_islong p ltac:(lia)) as HLp.
  destruct (islong_facts _ HLp) as (Fp1 & _). destruct HLp as [_ Fp2].
  rewrite <- Eml in Fp1, Fp2.
  destruct (N.ltb_spec 80 (lcl + 2 ^ (ml - 10))) as [H80|H80]; [inversion H|].
  (* members of the group *)
  assert (K1 : forall s, In s tl -> islong s /\ cL codes0 s <= ml).
  { intros s Hs. destruct (Hq s Hs) as (q & Hq1 & ->).
    split; [apply sym_islong; lia|]. rewrite Eml. apply sym_mono; lia. }
  assert (K3 : forall s, In s tl -> ~ Mk codes s -> cR codes0 s mod 1024 = fb).
  { intros s Hs HM. apply HIn in Hs. destruct Hs as [->|(j & Hj & -> & Ej)]; [reflexivity|].
    destruct (CS (sym j)) as [E|M]; [|contradiction].
    rewrite E in Ej. fold (cR codes0 (sym j)) in Ej. rewrite land_1023 in Ej. exact Ej. }
  assert (KLi : ~ Mk codes (sym i)).
  { intros [E _]. apply (mk_ne (sym i) HLi). rewrite <- E. symmetry. exact Eli. }
  assert (K4 : forall s', islong s' -> cR codes0 s' mod 1024 = fb -> In s' tl /\ ~ Mk codes s').
  { intros s' HL' Efb.
    assert (HM : ~ Mk codes s').
    { intros M. apply KLi. apply (li_closed _ _ _ _ _ INV s' (sym i) M HLi). symmetry. exact Efb. }
    split; [|exact HM].
    destruct (sym_surj s' HL') as (q & Hq' & <-).
    destruct (N.lt_trichotomy q i) as [Hlt|[->|Hgt]].
    - exfalso. apply HM. apply (li_done _ _ _ _ _ INV q Hlt).
    - apply HIn. left. reflexivity.
    - apply HIn. right. exists q. split; [lia|]. split; [reflexivity|].
      destruct (CS (sym q)) as [E|M]; [|contradiction].
      rewrite E. fold (cR codes0 (sym q)). rewrite land_1023. exact Efb. }
  (* the fill *)
  rewrite frev_rev in H.
  destruct (fill_fold ml lcl (rev tl) (forN lcl (lcl + 2 ^ (ml - 10)) (fun x t => aset t x 0) long)
              codes (fun _ => False) ltac:(lia) H80) as (long2 & codes2 & EFold & C1 & C2 & C3 & C4).
  { apply NoDup_rev. exact ND. }
  { intros s Hs. apply in_rev in Hs. destruct (K1 s Hs) as [A B]. split; [exact A|].
    split; [|intros _; exact B].
    destruct (CS s) as [E|[E _]]; [left; exact E|right; exact E]. }
  { intros y Hy. rewrite zero_fill_spec.
    destruct (N.leb_spec lcl (lcl + y)); [|lia].
    destruct (N.ltb_spec (lcl + y) (lcl + 2 ^ (ml - 10))); [|lia]. cbn [andb].
    apply tspec_none. intros j []. }
  rewrite EFold in H. inversion H; subst short' long' codes' lcl'. clear H.
  assert (K2 : forall s, Mk codes2 s <-> Mk codes s \/ In s tl).
  { intros s. split.
    - intros [E HL]. destruct (in_dec N.eq_dec s tl) as [Hs|Hs]; [right; exact Hs|].
      left. split; [|exact HL]. rewrite <- E. symmetry. apply C2.
      intros Hr. apply Hs. apply in_rev. exact Hr.
    - intros [[E HL]|Hs].
      + split; [|exact HL]. destruct (in_dec N.eq_dec s tl) as [Hs|Hs].
        * apply C1. apply in_rev in Hs. exact Hs.
        * rewrite C2; [exact E|]. intros Hr. apply Hs. apply in_rev. exact Hr.
      + split; [|apply (K1 s Hs)]. apply C1. apply in_rev in Hs. exact Hs. }
  constructor.
  - (* cstate *)
    intros s. destruct (in_dec N.eq_dec s tl) as [Hs|Hs].
    + right. apply K2. right. exact Hs.
    + destruct (CS s) as [E|M].
      * left. rewrite <- E. apply C2. intros Hr. apply Hs. apply in_rev. exact Hr.
      * right. apply K2. left. exact M.
  - (* done *)
    intros q Hq'. apply K2. destruct (N.eq_dec q i) as [->|Hne].
    + right. apply HIn. left. reflexivity.
    + left. apply (li_done _ _ _ _ _ INV). lia.
  - (* closed *)
    intros s s' M HL' Esame. apply K2. apply K2 in M.
    destruct (Mk_dec codes s) as [MO|MN].
    + left. apply (li_closed _ _ _ _ _ INV s s' MO HL' Esame).
    + destruct M as [M|Hs]; [contradiction|].
      right. apply K4; [exact HL'|]. rewrite Esame. apply K3; assumption.
  - (* groups *)
    intros s M. apply K2 in M.
    destruct (N.eq_dec (cR codes0 s mod 1024) fb) as [Ex|Ex].
    + rewrite Ex. exists lcl, ml. split; [apply aget_aset_same|]. split; [lia|]. split; [lia|]. split.
      * intros s' HL' E'. destruct (K4 s' HL' E') as [A _]. apply (K1 s' A).
      * intros y Hy. eapply tspec_ext; [|apply (C4 y Hy)].
        intros j. split.
        -- intros [[]|[Hj Ej]]. apply in_rev in Hj.
           split; [apply (K1 j Hj)|]. apply K3; [exact Hj|].
           intros [E HL]. apply (mk_ne j HL). rewrite <- E. symmetry. exact Ej.
        -- intros [HL E]. right. destruct (K4 j HL E) as [A B].
           split; [apply in_rev in A; exact A|].
           destruct (CS j) as [E2|M2]; [exact E2|contradiction].
    + assert (MO : Mk codes s).
      { destruct M as [M|Hs]; [exact M|]. destruct (Mk_dec codes s) as [MO|MN]; [exact MO|].
        exfalso. apply Ex. apply K3; assumption. }
      destruct (li_groups _ _ _ _ _ INV s MO) as (base & ml' & G1 & G2 & G3 & G4 & G5).
      exists base, ml'. split; [rewrite aget_aset_other by exact Ex; exact G1|].
      split; [exact G2|]. split; [lia|]. split; [exact G4|].
      intros y Hy. rewrite C3 by lia. rewrite zero_fill_spec.
      destruct (N.leb_spec lcl (base + y)); [lia|]. cbn [andb]. apply G5. exact Hy.
  - (* short entries of other indices *)
    intros x Hx.
    assert (Hxf : x <> fb).
    { intros ->. apply (Hx (sym i)); [|reflexivity]. apply K2. right. apply HIn. left. reflexivity. }
    rewrite aget_aset_other by exact Hxf. apply (li_short _ _ _ _ _ INV).
    intros s M. apply Hx. apply K2. left. exact M.
  - lia.
Qed.

Lemma LInv_init : forall long, LInv 0 short1 long codes0 0.
Proof.
  intros long.
  assert (HN : forall s, ~ Mk codes0 s).
  { intros s [E HL]. apply (mk_ne s HL). exact E. }
  constructor.
  - intros s. left. reflexivity.
  - intros p Hp. lia.
  - intros s s' M. exfalso. exact (HN s M).
  - intros s M. exfalso. exact (HN s M).
  - intros x _. reflexivity.
  - lia.
Qed.

Lemma gs_long_inv : forall long sh lg codes' lcl,
  gs_long fuel false short1 long codes0 cl maxSymbol lstart llen = (sh, lg, codes', lcl, ENone) ->
  LInv llen sh lg codes' lcl.
Proof.
  intros long sh lg codes' lcl H. unfold gs_long in H.
  assert (HI : let '(sh, lg, cd, lc, pan) :=
                 forN 0 llen (gs_long_step fuel false cl maxSymbol lstart llen)
                      (short1, long, codes0, 0, ENone) in
               pan = ENone -> LInv llen sh lg cd lc).
  { apply (forN_ind (arr * arr * arr * N * ierr)
       (fun i (st : arr * arr * arr * N * ierr) =>
          let '(sh, lg, cd, lc, pan) := st in pan = ENone -> LInv i sh lg cd lc)).
    - lia.
    - intros _. apply LInv_init.
    - intros i [[[[sh1 lg1] cd1] lc1] pan1] Hi IH.
      destruct pan1.
      2-8: (unfold gs_long_step; cbn [ierr_eqb negb]; cbv iota; intros HF; discriminate HF).
      specialize (IH eq_refl).
      destruct (gs_long_step fuel false cl maxSymbol lstart llen i (sh1, lg1, cd1, lc1, ENone))
        as [[[[sh2 lg2] cd2] lc2] pan2] eqn:ES.
      intros ->. apply (long_step_inv i sh1 lg1 cd1 lc1 sh2 lg2 cd2 lc2 ltac:(lia) IH ES). }
  rewrite H in HI. apply HI. reflexivity.
Qed.

End LongPhase.
