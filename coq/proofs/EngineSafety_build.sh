#!/bin/sh
# Rebuilds the engine-safety development (proofs/EngineSafety*.v) in dependency order.
# Run after RModel/Engine.vo has been (re)built.  EngineSafetyRestartLock.v also needs the
# refinement files proofs/EngineRefineSpec, EngineRefineSmallCodes, EngineRefineSmallClc and
# EngineRefineHeaderClc (and Spec/Huffman, Spec/Inflate) to be compiled.
set -e
cd "$(dirname "$0")/.."
for f in Base Bits Buf Inv Small RL Expand Decode LitLen Suffix Header \
         RestartBits RestartMono RestartLock Restart RestartCex \
         LongFitDefs LongFitBits LongFitCodes LongFitLoop LongFitDP LongFit; do
  echo "coqc proofs/EngineSafety$f.v"
  timeout 3600 coqc -Q . Verif proofs/EngineSafety$f.v
done
echo "coqc proofs/EngineSafety.v"
timeout 3600 coqc -Q . Verif proofs/EngineSafety.v
echo "coqc proofs/EngineSafetyFinal.v"
timeout 3600 coqc -Q . Verif proofs/EngineSafetyFinal.v
