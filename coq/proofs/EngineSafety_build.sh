#!/bin/sh
# Rebuilds the engine-safety development (proofs/EngineSafety*.v) in dependency order.
# Run from /verif/coq after RModel/Engine.vo has been (re)built.
set -e
cd "$(dirname "$0")/.."
for f in Base Bits Buf Inv Small RL Expand Decode LitLen Suffix Header; do
  echo "coqc proofs/EngineSafety$f.v"
  timeout 3600 coqc -Q . Verif proofs/EngineSafety$f.v
done
for f in Restart LongFit; do
  if [ -f proofs/EngineSafety$f.v ]; then
    echo "coqc proofs/EngineSafety$f.v"
    timeout 7200 coqc -Q . Verif proofs/EngineSafety$f.v
  fi
done
echo "coqc proofs/EngineSafety.v"
timeout 3600 coqc -Q . Verif proofs/EngineSafety.v
