(* GzEngineSafeEng.v -- section E of RModel/GzEngineSpec3.v: the engine invariant r_inv of
   proofs/EngineSafety.v, extended with "after io.EOF the tables are well formed" (rs_inv),
   is kept by Read, holds for a new decompressor and for a Reset one on a shared buffer. *)
From Coq Require Import List NArith ZArith Bool.
From Verif Require Import Bits Huffman Inflate InflateSpec.
From Verif Require Import Containers ContainersSpec.
From Verif Require Import Base Engine EngineReset EngineRefineSpecBuf
     EngineSafetyBase EngineSafetyBits EngineSafetyInv EngineSafetyBuf EngineSafetyHeader EngineSafety GzEngine GzEngineSpec.
From Verif Require Import EngineSafetyRestart EngineSafetyLongFit EngineRefineSpecBuf GzEngineSpec3.
From Coq Require Import Lia.
Import ListNotations.
Open Scope N_scope.

(* ================================================================ E1 *)
Lemma step_in_not_eof : forall f, snd (step_in f) <> Some REOF.
Proof.
  intros f. destruct (step_in f) as [f1 r] eqn:E1. cbn [snd].
  unfold step_in in E1.
  destruct (inputNil (state f)); [|inversion E1; discriminate].
  destruct (r_len (rd (state f)) <? 0)%Z; [inversion E1; discriminate|].
  cbv zeta in E1.
  destruct ((bBuffered _ <=? _) && negb _) in E1.
  - destruct (bPeek _ _) as [[[[? ?] [[| | |]|]] ?]|] in E1; cbn [fst snd] in E1;
      try (inversion E1; discriminate);
      (destruct (bPeek _ _) as [[[[? ?] ?] ?]|] in E1; [destruct (_ <? _) in E1|]; inversion E1; discriminate).
  - destruct (bPeek _ _) as [[[[? ?] ?] ?]|] in E1; [destruct (_ <? _) in E1|]; inversion E1; discriminate.
Qed.

Lemma step_discard_tk : forall f r f',
  step_discard f = Some (r, f') -> tk (state f) -> tk (state f').
Proof.
  intros f r f' H Ht. unfold step_discard in H.
  destruct (0 <? _)%Z in H.
  - destruct (bDiscard _ _) as [[[be|] rb]|] in H; inversion H; subst; exact Ht.
  - inversion H; subst. exact Ht.
Qed.

Lemma step_discard_at_no_err : forall f be f',
  buf_inv (rBuf f) -> berr_ok (rBuf f) -> peekSize f = blen (rBuf f) ->
  step_discard_at (held_nonneg f) f <> Some (Some be, f').
Proof.
  intros f be f' Hb Hok Hp. unfold step_discard_at.
  assert (Hh : (0 <= held_nonneg f)%Z).
  { unfold held_nonneg. destruct (0 <? r_len (rd (state f)))%Z eqn:E; [|lia].
    rewrite Z.quot_div_nonneg by lia. apply Z.div_pos; lia. }
  set (ds := (Z.of_N (peekSize f) - Z.of_N (r_inlen (rd (state f))) - held_nonneg f)%Z).
  destruct (0 <? ds)%Z eqn:E; [|discriminate].
  destruct (bDiscard_within (rBuf f) (Z.to_N ds) Hb Hok) as (b' & D1 & _); [unfold ds; lia|].
  rewrite D1. discriminate.
Qed.

Lemma inf_inv_tk : forall s, inf_inv s -> tk s.
Proof. intros s (_ & _ & A & B & _). split; assumption. Qed.

Lemma step_out_eof : forall f,
  ready f -> snd (step_out f) = Some REOF -> tk (state (fst (step_out f))).
Proof.
  pose proof long_codes_fit as HLF. pose proof header_restart_monotone as HRM.
  intros f (Rinf & Rrun & Rbuf & Rberr & R16 & Rmax & Rnil & Rpk & Rowed & Rby & Rbb).
  unfold step_out.
  set (wp1 := if historySize * 2 <=? writePos f then historySize else writePos f).
  assert (Hwp1 : wp1 < outLen) by (unfold wp1, historySize, outLen; destruct (32768 * 2 <=? writePos f) eqn:E; blia).
  set (h1 := if historySize * 2 <=? writePos f
             then forN 0 historySize (fun i h => aset h i (aget h (writePos f - historySize + i))) (hist f)
             else hist f).
  assert (Hslide : (if historySize * 2 <=? writePos f
                    then (forN 0 historySize (fun i h => aset h i (aget h (writePos f - historySize + i))) (hist f),
                          historySize, historySize)
                    else (hist f, writePos f, writePos f)) = (h1, wp1, wp1)).
  { unfold h1, wp1. destruct (historySize * 2 <=? writePos f); reflexivity. }
  rewrite Hslide. cbv beta iota zeta.
  set (f2 := mkD (state f) wp1 wp1 h1 (rBuf f) (derr f) (peekSize f) (eof f) (haveBits f)).
  pose proof Rinf as ((B1 & B2 & B3) & L & _ & _ & _ & Hhb & _).
  assert (Hm : (hmeasure (state f2) <= 8 * Z.of_N BUFMAX + 64 + 8 * 328)%Z).
  { unfold f2; cbn [state]. unfold hmeasure, avail. unfold owed in Rowed.
    destruct Rbuf as (_ & Rb2 & _).
    assert (0 <= r_len (rd (state f)) / 8)%Z by (apply Z.div_pos; blia). blia. }
  pose proof (decomperss_spec HLF HRM f2 Rinf Rby Rrun ltac:(unfold f2; cbn [writePos]; blia) Hm) as DS.
  cbv zeta in DS.
  destruct (decomperss f2) as [f3 e] eqn:ED. cbn [fst snd] in DS.
  destruct DS as (D1 & D2 & D3 & D4 & D5 & D6 & D7 & D8 & D9 & D10 & D11 & D12 & D13 & D14 & D15 & D16 & D17).
  unfold f2 in D4, D8, D11, D12, D13, D14, D15, D16, D17, D3;
    cbn [state writePos readPos rBuf derr peekSize eof haveBits] in D4, D8, D11, D12, D13, D14, D15, D16, D17, D3.
  set (st4 := rOffset (state f3) (Z.of_N (r_inlen (rd (state f2)))) (r_len (rd (state f2)))).
  set (f5 := mkD (state (set_state f3 st4)) (writePos (set_state f3 st4)) (readPos (set_state f3 st4))
                 (hist (set_state f3 st4)) (rBuf (set_state f3 st4)) (derr (set_state f3 st4))
                 (peekSize (set_state f3 st4)) (eof (set_state f3 st4)) (negb (ierr_eqb e EEndInput))).
  assert (F5buf : rBuf f5 = rBuf f) by (unfold f5; cbn [rBuf set_state]; exact D13).
  assert (F5pk : peekSize f5 = peekSize f) by (unfold f5; cbn [peekSize set_state]; exact D15).
  assert (F5tk : tk (state f3) -> tk (state f5)) by (intros Hc; exact Hc).
  assert (F5buf_inv : buf_inv (rBuf f5)) by (rewrite F5buf; exact Rbuf).
  assert (F5berr : berr_ok (rBuf f5)) by (rewrite F5buf; exact Rberr).
  assert (F5pkb : peekSize f5 = blen (rBuf f5)) by (rewrite F5pk, F5buf; exact Rpk).
  clearbody f5. clear Hslide. clearbody st4 f2 h1 wp1.
  destruct (isError e || (ierr_eqb e EEndInput && eof f5)) eqn:Eerr.
  { (* terminal error: never io.EOF *)
    pose proof (step_discard_at_no_err f5) as Hno.
    destruct (step_discard_at (held_nonneg f5) f5) as [[[be|] f6]|] eqn:ESD.
    - exfalso. exact (Hno be f6 F5buf_inv F5berr F5pkb eq_refl).
    - destruct e; cbn [fst snd ierr_eqb]; intros Hc; discriminate.
    - destruct e; cbn [fst snd ierr_eqb]; intros Hc; discriminate. }
  assert (Hise : isError e = false) by (destruct (isError e); [discriminate|reflexivity]).
  destruct (D3 Hise) as (G1 & G2 & G3 & G4).
  assert (Htk5 : tk (state f5)) by (apply F5tk, inf_inv_tk; exact G1).
  set (f6 := if phase (state f5) =? phaseStreamEnd
             then set_state f5 (set_phase (state f5) phaseFinish) else f5).
  set (ret := if phase (state f5) =? phaseStreamEnd then Some REOF else @None rres).
  assert (Hfr : (if phase (state f5) =? phaseStreamEnd
                 then (set_state f5 (set_phase (state f5) phaseFinish), Some REOF)
                 else (f5, None)) = (f6, ret)).
  { unfold f6, ret. destruct (phase (state f5) =? phaseStreamEnd); reflexivity. }
  assert (Htk6 : tk (state f6)).
  { unfold f6. destruct (phase (state f5) =? phaseStreamEnd); exact Htk5. }
  clearbody f6 ret.
  assert (Hexp : forall (X : decompressor * option rres),
     X = (if (r_inlen (rd (state f6)) =? 0) || (phase (state f6) =? phaseFinish)
          then match step_discard f6 with
               | None => (f6, Some RStuck)
               | Some (Some be, f) => (f, Some (rres_of_berror be))
               | Some (None, f) => (f, ret)
               end
          else (f6, ret)) ->
     snd X = Some REOF -> tk (state (fst X))).
  { intros X HX _.
    destruct ((r_inlen (rd (state f6)) =? 0) || (phase (state f6) =? phaseFinish)).
    - destruct (step_discard f6) as [[[be|] f7]|] eqn:ESD; subst X; cbn [fst];
        try exact (step_discard_tk _ _ _ ESD Htk6); exact Htk6.
    - subst X. exact Htk6. }
  rewrite Hfr. cbv beta iota zeta.
  destruct e; try (exfalso; tauto); try (cbn in Hise; discriminate); apply Hexp; reflexivity.
Qed.

Theorem step_eof_tables : step_eof_tables_statement.
Proof.
  intros f Hd. rewrite step_eq.
  destruct (phase (state f) =? phaseFinish) eqn:Efin.
  { cbn [fst snd]. intros _. apply inf_inv_tk. exact (proj1 Hd). }
  assert (Hnf : phase (state f) <> phaseFinish) by lia.
  pose proof (step_in_spec f Hd Hnf) as SI. cbv zeta in SI.
  pose proof (step_in_not_eof f) as NE.
  destruct (step_in f) as [f1 [e1|]] eqn:E1; cbn [fst snd] in SI, NE.
  { cbn [fst snd]. intros Hc. exfalso. apply NE. exact Hc. }
  destruct SI as (_ & _ & SI). specialize (SI eq_refl).
  destruct SI as (Hready & _).
  apply step_out_eof. exact Hready.
Qed.
Print Assumptions step_eof_tables.

(* ================================================================ E2 *)
Lemma read_loop_tk : forall fuel f plen,
  (derr f = None -> d_inv f) -> (derr f = Some REOF -> tk (state f)) ->
  derr (fst (fst (read_loop fuel f plen))) = Some REOF ->
  tk (state (fst (fst (read_loop fuel f plen)))).
Proof.
  pose proof long_codes_fit as HLF. pose proof header_restart_monotone as HRM.
  induction fuel as [|k IH]; intros f plen HA HB; cbn [read_loop].
  { cbn [fst]. exact HB. }
  destruct (readPos f <? writePos f) eqn:Erw.
  { cbv zeta. cbn [writePos readPos derr].
    destruct (writePos f =? readPos f + N.min plen (writePos f - readPos f)); cbn [fst derr state]; exact HB. }
  destruct (derr f) as [e|] eqn:Ed.
  { cbn [fst]. rewrite Ed. exact HB. }
  pose proof (HA eq_refl) as Hd.
  pose proof (step_spec HLF HRM f Hd) as SS. cbv zeta in SS.
  pose proof (step_eof_tables f Hd) as SE.
  destruct (step f) as [f1 e1] eqn:ES. cbn [fst snd] in SS, SE.
  destruct SS as (_ & _ & _ & S4).
  destruct e1 as [e'|].
  - assert (H1 : derr (set_err f1 (Some e')) = Some REOF -> tk (state (set_err f1 (Some e')))).
    { cbn [set_err derr state]. intros Hc. apply SE. exact Hc. }
    cbn [set_err writePos readPos].
    destruct (writePos f1 <=? readPos f1); cbn [fst].
    + exact H1.
    + apply IH; [intros Hc; discriminate|exact H1].
  - destruct (S4 eq_refl) as (Hd1 & _).
    apply IH; [intros _; exact Hd1|intros Hc; discriminate].
Qed.

Lemma dRead_tk : forall f plen,
  (derr f = None -> d_inv f) -> (derr f = Some REOF -> tk (state f)) ->
  derr (fst (fst (dRead f plen))) = Some REOF -> tk (state (fst (fst (dRead f plen)))).
Proof. intros f plen HA HB. unfold dRead. apply read_loop_tk; assumption. Qed.

Theorem dRead_rs : dRead_rs_statement.
Proof.
  intros T f p (Hr & Ht) HT.
  pose proof (dRead_spec long_codes_fit header_restart_monotone T f p Hr HT) as (R1 & R2).
  assert (HA : derr f = None -> d_inv f) by (intros Hc; exact (proj1 (proj1 Hr Hc))).
  pose proof (dRead_tk f p HA Ht) as R3.
  destruct (dRead f p) as [[f' bytes] r]. cbn [fst snd] in R1, R2, R3.
  split; [exact R1|]. split; [exact R2|exact R3].
Qed.
Print Assumptions dRead_rs.

(* ================================================================ E3 *)
Lemma tk_inflate0 : tk inflate0.
Proof.
  split.
  - unfold clc_ok, inflate0, dyn0; cbn [dyn clcShort]; apply all_entries_empty; exact clc_entry_ok_0.
  - exact tabs_ok2_empty.
Qed.

Lemma reset_rs : forall T s h b,
  sbuf T b -> tk s -> rs_inv T (mkD (inflate_reset s) 0 0 h b None 0 false false).
Proof.
  intros T s h b (Sb & Se & S16 & Smax & Sby & ST) (K1 & K2).
  split; [|intros Hc; discriminate].
  unfold r_inv. cbn [derr].
  split; [intros _|intros e Hc; discriminate].
  split; [|unfold srcT; cbn [rBuf]; exact ST].
  unfold d_inv. cbn [state rBuf peekSize].
  split.
  { unfold inf_inv, inflate_reset. cbn [rd dyn tb headerBuffered headerBuffer phase].
    split; [unfold br_inv, br0; cbn; split; [reflexivity|split; [lia|intros; reflexivity]]|].
    split; [unfold br0; cbn; lia|].
    split; [exact K1|]. split; [exact K2|]. split; [reflexivity|]. split; [lia|].
    split; [intros Hc; unfold phaseDecodingHeader in Hc; discriminate|].
    split; [intros _; reflexivity|intros Hc; unfold phaseLitBlock in Hc; discriminate]. }
  split; [unfold inflate_reset; cbn [phase]; lia|].
  split; [exact Sb|]. split; [exact Se|]. split; [exact S16|]. split; [exact Smax|].
  split; [intros _; unfold inflate_reset, br0; cbn [rd r_len]; change (0 / 8)%Z with 0%Z; lia|].
  split; [intros Hc; unfold inflate_reset in Hc; cbn [inputNil] in Hc; discriminate|].
  split; [unfold in_bytes, inflate_reset, br0; cbn [rd r_in headerBuffer]; split; constructor|].
  exact Sby.
Qed.

Theorem newReader_on_rs : newReader_on_rs_statement.
Proof.
  intros T b Hs.
  exact (reset_rs T inflate0 aempty b Hs tk_inflate0).
Qed.
Print Assumptions newReader_on_rs.

Theorem dReset_rs : dReset_rs_statement.
Proof.
  intros T d b Hs Ht. unfold dReset. apply reset_rs; assumption.
Qed.
Print Assumptions dReset_rs.

(* ================================================================ sbuf from the stream invariant *)
Lemma src_total_concat : forall cs, src_total cs = N.of_nat (length (concat cs)).
Proof.
  induction cs as [|c r IH]; cbn [src_total concat]; [reflexivity|].
  rewrite app_length, IH. lia.
Qed.

Lemma Forall_concat_inv : forall (P : N -> Prop) cs, Forall P (concat cs) -> Forall (Forall P) cs.
Proof.
  intros P. induction cs as [|c r IH]; cbn [concat]; intros H; [constructor|].
  apply Forall_app in H. destruct H as (H1 & H2). constructor; [exact H1|apply IH; exact H2].
Qed.

Theorem sbuf_of_strm : sbuf_of_strm_statement.
Proof.
  intros data T b ((B1 & B2 & B3 & B4 & B5) & D & HD & HC) Hby HT Hmax.
  unfold GzEngineSpec.bytes_ok in Hby. unfold bstream in HD. subst data.
  apply Forall_app in Hby. destruct Hby as (_ & Hby).
  apply Forall_app in Hby. destruct Hby as (Hb1 & Hb2).
  unfold sbuf.
  split; [unfold buf_inv; split; [exact B1|split; [exact B2|lia]]|].
  split.
  { unfold berr_ok. intros Hc. destruct (B5 _ Hc) as (_ & He). destruct (term b); discriminate. }
  split; [exact B3|]. split; [exact Hmax|].
  split; [split; [exact Hb1|apply Forall_concat_inv; exact Hb2]|].
  rewrite src_total_concat. unfold lenN in HT. rewrite !app_length in HT. lia.
Qed.
Print Assumptions sbuf_of_strm.
