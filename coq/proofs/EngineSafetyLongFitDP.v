(* EngineSafetyLongFitDP.v -- Part D of the proof of LongCodesFit: every run of the track machine
   (EngineSafetyLongFitDefs.v) has final value <= 1264.

   Certified forward dynamic programme: table_n maps (an encoding of) every reachable "shape"
   (o13,m13,o14,m14,o15,m15,mM) after n symbols to a state of that shape whose acc is at least the acc
   of every reachable state of that shape.  table_286 is evaluated by vm_compute and every entry is
   checked to have mfinal <= 1264 (the exact maximum found is 1234). *)
From Verif Require Import Engine EngineTables.
From Verif Require Import Base EngineSafetyBase EngineSafetyBits EngineSafetyInv.
From Coq Require Import List NArith ZArith Bool Lia ZifyBool ZifyNat ZifyN.
From Coq Require Import FMapPositive.
Import ListNotations.
Open Scope N_scope.
From Verif Require Import EngineSafetyLongFitDefs.

(* ------------------------------------------------------------------ shapes *)
Definition same_shape (s t : mst) : Prop :=
  o13 s = o13 t /\ m13 s = m13 t /\ o14 s = o14 t /\ m14 s = m14 t /\
  o15 s = o15 t /\ m15 s = m15 t /\ mM s = mM t.

Definition range (s : mst) : Prop :=
  o13 s < 2 /\ o14 s < 4 /\ o15 s < 8 /\ m13 s <= 6 /\ m14 s <= 6 /\ m15 s <= 6.

Definition range_b (s : mst) : bool :=
  (o13 s <? 2) && (o14 s <? 4) && (o15 s <? 8) && (m13 s <=? 6) && (m14 s <=? 6) && (m15 s <=? 6).

Definition enc (s : mst) : N :=
  o13 s + 2 * (o14 s + 4 * (o15 s + 8 * (m13 s + 8 * (m14 s + 8 * (m15 s + 8 * mM s))))).

Definition key (s : mst) : positive := N.succ_pos (enc s).

(* ------------------------------------------------------------------ the dynamic programme *)
Definition table := PositiveMap.t mst.

Definition ins (st : mst) (T : table) : table :=
  if range_b st then
    match PositiveMap.find (key st) T with
    | None => PositiveMap.add (key st) st T
    | Some st' => if acc st' <? acc st then PositiveMap.add (key st) st T else T
    end
  else T.

Definition ins4 (e : N) (st : mst) (T : table) : table :=
  ins (mstep e 13 st) (ins (mstep e 14 st) (ins (mstep e 15 st) (ins (mstep e 0 st) T))).

Definition dpstep (e : N) (T : table) : table :=
  PositiveMap.fold (fun _ st A => ins4 e st A) T (PositiveMap.empty mst).

Definition init_list : list mst :=
  flat_map (fun a => flat_map (fun b => map (fun c => minit a b c) [0;1;2;3;4;5;6;7]) [0;1;2;3]) [0;1].

Definition init_table : table :=
  fold_left (fun A st => ins st A) init_list (PositiveMap.empty mst).

Fixpoint dprun (n : nat) : table :=
  match n with
  | O => init_table
  | S k => dpstep (sym_class (N.of_nat k)) (dprun k)
  end.

Definition check_final (T : table) : bool :=
  forallb (fun p => mfinal (snd p) <=? 1264) (PositiveMap.elements T).

Definition max_final (T : table) : N :=
  fold_left (fun a p => N.max a (mfinal (snd p))) (PositiveMap.elements T) 0.

(* Time Eval vm_compute in (PositiveMap.cardinal (dprun 286), max_final (dprun 286)).
     = (11358%nat, 1234)        (about 19 s) *)

(* ------------------------------------------------------------------ basic facts *)
Lemma range_b_spec : forall s, range_b s = true <-> range s.
Proof.
  intros s. unfold range_b, range. rewrite !andb_true_iff.
  rewrite !N.ltb_lt, !N.leb_le. tauto.
Qed.

Lemma same_shape_refl : forall s, same_shape s s.
Proof. intros s. unfold same_shape. tauto. Qed.

Lemma same_shape_sym : forall s t, same_shape s t -> same_shape t s.
Proof. intros s t. unfold same_shape. intuition congruence. Qed.

Lemma same_shape_trans : forall s t u, same_shape s t -> same_shape t u -> same_shape s u.
Proof. intros s t u. unfold same_shape. intuition congruence. Qed.

Lemma same_shape_enc : forall s t, same_shape s t -> enc s = enc t.
Proof.
  intros s t (H1 & H2 & H3 & H4 & H5 & H6 & H7). unfold enc.
  rewrite H1, H2, H3, H4, H5, H6, H7. reflexivity.
Qed.

Lemma same_shape_key : forall s t, same_shape s t -> key s = key t.
Proof. intros s t H. unfold key. rewrite (same_shape_enc s t H). reflexivity. Qed.

Lemma same_shape_range : forall s t, same_shape s t -> range s -> range t.
Proof.
  intros s t (H1 & H2 & H3 & H4 & H5 & H6 & H7). unfold range.
  rewrite H1, H2, H3, H4, H5, H6. tauto.
Qed.

Lemma enc_inj : forall s t, range s -> range t -> enc s = enc t -> same_shape s t.
Proof.
  intros s t (A1 & A2 & A3 & A4 & A5 & A6) (B1 & B2 & B3 & B4 & B5 & B6) E.
  unfold enc in E. unfold same_shape. lia.
Qed.

Lemma key_inj : forall s t, range s -> range t -> key s = key t -> same_shape s t.
Proof.
  intros s t Hs Ht E. apply enc_inj; [exact Hs | exact Ht |].
  unfold key in E.
  pose proof (N.succ_pos_spec (enc s)) as P1.
  pose proof (N.succ_pos_spec (enc t)) as P2.
  rewrite E in P1. lia.
Qed.

(* mstep only looks at whether the choice is 13, 14, 15 or something else *)
Definition norm (c : N) : N :=
  if c =? 13 then 13 else if c =? 14 then 14 else if c =? 15 then 15 else 0.

Lemma mstep_norm : forall e c s, mstep e c s = mstep e (norm c) s.
Proof.
  intros e c s. unfold norm.
  destruct (c =? 13) eqn:E13; [apply N.eqb_eq in E13; subst c; reflexivity|].
  destruct (c =? 14) eqn:E14; [apply N.eqb_eq in E14; subst c; reflexivity|].
  destruct (c =? 15) eqn:E15; [apply N.eqb_eq in E15; subst c; reflexivity|].
  unfold mstep. rewrite E13, E14, E15. reflexivity.
Qed.

Lemma norm_cases : forall c, norm c = 13 \/ norm c = 14 \/ norm c = 15 \/ norm c = 0.
Proof.
  intros c. unfold norm.
  destruct (c =? 13); [tauto|]. destruct (c =? 14); [tauto|]. destruct (c =? 15); tauto.
Qed.

(* mstep acts on the shape independently of acc, and is monotone in acc *)
Lemma mstep_mono : forall e c s t,
  same_shape s t -> acc s <= acc t ->
  same_shape (mstep e c s) (mstep e c t) /\ acc (mstep e c s) <= acc (mstep e c t).
Proof.
  intros e c [a1 a2 a3 a4 a5 a6 a7 a8] [b1 b2 b3 b4 b5 b6 b7 b8].
  unfold same_shape. cbn [o13 m13 o14 m14 o15 m15 mM acc].
  intros (H1 & H2 & H3 & H4 & H5 & H6 & H7) Hacc. subst.
  unfold mstep. cbn [o13 m13 o14 m14 o15 m15 mM acc].
  destruct (c =? 13).
  { destruct (place 2 b1 b2 e) as [[o m] g]. cbn [o13 m13 o14 m14 o15 m15 mM acc].
    split; [tauto | lia]. }
  destruct (c =? 14).
  { destruct (place 4 b3 b4 e) as [[o m] g]. cbn [o13 m13 o14 m14 o15 m15 mM acc].
    split; [tauto | lia]. }
  destruct (c =? 15).
  { destruct (place 8 b5 b6 e) as [[o m] g]. cbn [o13 m13 o14 m14 o15 m15 mM acc].
    split; [tauto | lia]. }
  cbn [o13 m13 o14 m14 o15 m15 mM acc]. split; [tauto | lia].
Qed.

Lemma place_range : forall S o m e o' m' g,
  place S o m e = (o', m', g) -> o < S -> m <= 6 -> e <= 5 -> o' < S /\ m' <= 6.
Proof.
  intros S o m e o' m' g H Ho Hm He. unfold place in H.
  destruct (o + 1 =? S) eqn:E; inversion H; subst; lia.
Qed.

Lemma mstep_range : forall e c s, e <= 5 -> range s -> range (mstep e c s).
Proof.
  intros e c [a1 a2 a3 a4 a5 a6 a7 a8] He. unfold range.
  cbn [o13 m13 o14 m14 o15 m15 mM acc].
  intros (A1 & A2 & A3 & A4 & A5 & A6).
  unfold mstep. cbn [o13 m13 o14 m14 o15 m15 mM acc].
  destruct (c =? 13).
  { destruct (place 2 a1 a2 e) as [[o m] g] eqn:P. cbn [o13 m13 o14 m14 o15 m15 mM acc].
    destruct (place_range _ _ _ _ _ _ _ P A1 A4 He) as [Q1 Q2]. tauto. }
  destruct (c =? 14).
  { destruct (place 4 a3 a4 e) as [[o m] g] eqn:P. cbn [o13 m13 o14 m14 o15 m15 mM acc].
    destruct (place_range _ _ _ _ _ _ _ P A2 A5 He) as [Q1 Q2]. tauto. }
  destruct (c =? 15).
  { destruct (place 8 a5 a6 e) as [[o m] g] eqn:P. cbn [o13 m13 o14 m14 o15 m15 mM acc].
    destruct (place_range _ _ _ _ _ _ _ P A3 A6 He) as [Q1 Q2]. tauto. }
  cbn [o13 m13 o14 m14 o15 m15 mM acc]. tauto.
Qed.

Lemma sym_class_le : forall s, s < 286 -> sym_class s <= 5.
Proof.
  intros s Hs. unfold sym_class.
  destruct (s <? 265) eqn:E1; [lia|].
  destruct (s =? 285) eqn:E2; [lia|].
  assert ((s - 261) / 4 < 6) as H; [|lia].
  apply N.div_lt_upper_bound; lia.
Qed.

Lemma mfinal_mono : forall s t, same_shape s t -> acc s <= acc t -> mfinal s <= mfinal t.
Proof.
  intros s t (H1 & H2 & H3 & H4 & H5 & H6 & H7) Hacc. unfold mfinal.
  rewrite H2, H4, H6, H7. lia.
Qed.

(* ------------------------------------------------------------------ coverage *)
Definition covers (T : table) (s : mst) : Prop :=
  exists t, PositiveMap.find (key s) T = Some t /\ same_shape s t /\ acc s <= acc t.

Lemma covers_le : forall T s u,
  covers T s -> same_shape u s -> acc u <= acc s -> covers T u.
Proof.
  intros T s u (t & F & Sh & A) Hsh Hacc. exists t.
  split; [rewrite (same_shape_key u s Hsh); exact F|].
  split; [exact (same_shape_trans _ _ _ Hsh Sh) | lia].
Qed.

(* every stored entry sits at its own key and is in range *)
Definition wf (T : table) : Prop :=
  forall k t, PositiveMap.find k T = Some t -> k = key t /\ range t.

Lemma wf_empty : wf (PositiveMap.empty mst).
Proof. intros k t F. rewrite PositiveMap.gempty in F. discriminate F. Qed.

Lemma wf_add : forall st T, range st -> wf T -> wf (PositiveMap.add (key st) st T).
Proof.
  intros st T R W k t F.
  destruct (Pos.eq_dec k (key st)) as [E|NE].
  - subst k. rewrite PositiveMap.gss in F. inversion F; subst t. split; [reflexivity | exact R].
  - rewrite PositiveMap.gso in F; [|exact NE]. exact (W k t F).
Qed.

Lemma wf_ins : forall st T, wf T -> wf (ins st T).
Proof.
  intros st T W. unfold ins.
  destruct (range_b st) eqn:R; [|exact W]. apply range_b_spec in R.
  destruct (PositiveMap.find (key st) T) as [t|] eqn:F.
  - destruct (acc t <? acc st); [apply wf_add; assumption | exact W].
  - apply wf_add; assumption.
Qed.

Lemma ins_self : forall st T, wf T -> range st -> covers (ins st T) st.
Proof.
  intros st T W R. unfold ins. pose proof R as Rb. apply range_b_spec in Rb. rewrite Rb.
  destruct (PositiveMap.find (key st) T) as [t|] eqn:F.
  - destruct (acc t <? acc st) eqn:L.
    + exists st. split; [apply PositiveMap.gss|]. split; [apply same_shape_refl | lia].
    + destruct (W _ _ F) as [Kt Rt].
      exists t. split; [exact F|]. split; [apply key_inj; assumption | lia].
  - exists st. split; [apply PositiveMap.gss|]. split; [apply same_shape_refl | lia].
Qed.

Lemma add_other : forall st T s,
  range s -> range st -> covers T s ->
  (forall t, PositiveMap.find (key st) T = Some t -> acc t <= acc st) ->
  covers (PositiveMap.add (key st) st T) s.
Proof.
  intros st T s Rs Rst (t & F & Sh & A) Hbest.
  destruct (Pos.eq_dec (key s) (key st)) as [E|NE].
  - exists st. rewrite E. split; [apply PositiveMap.gss|].
    split; [apply key_inj; assumption|].
    rewrite E in F. pose proof (Hbest t F). lia.
  - exists t. split; [rewrite PositiveMap.gso; [exact F | exact NE]|]. split; assumption.
Qed.

Lemma ins_other : forall st T s, range s -> covers T s -> covers (ins st T) s.
Proof.
  intros st T s Rs C. unfold ins.
  destruct (range_b st) eqn:R; [|exact C]. apply range_b_spec in R.
  destruct (PositiveMap.find (key st) T) as [t|] eqn:F.
  - destruct (acc t <? acc st) eqn:L; [|exact C].
    apply add_other; [exact Rs | exact R | exact C |].
    intros t' F'. rewrite F in F'. inversion F'; subst t'. lia.
  - apply add_other; [exact Rs | exact R | exact C |].
    intros t' F'. rewrite F in F'. discriminate F'.
Qed.

Lemma wf_ins4 : forall e st T, wf T -> wf (ins4 e st T).
Proof. intros e st T W. unfold ins4. apply wf_ins, wf_ins, wf_ins, wf_ins. exact W. Qed.

Lemma ins4_other : forall e st T s, range s -> covers T s -> covers (ins4 e st T) s.
Proof.
  intros e st T s Rs C. unfold ins4.
  apply ins_other; [exact Rs|]. apply ins_other; [exact Rs|].
  apply ins_other; [exact Rs|]. apply ins_other; [exact Rs|]. exact C.
Qed.

Lemma ins4_self : forall e c st T,
  wf T -> range (mstep e (norm c) st) -> covers (ins4 e st T) (mstep e (norm c) st).
Proof.
  intros e c st T W R. unfold ins4.
  destruct (norm_cases c) as [E|[E|[E|E]]]; rewrite E in *.
  - apply ins_self; [|exact R]. apply wf_ins, wf_ins, wf_ins. exact W.
  - apply ins_other; [exact R|]. apply ins_self; [|exact R]. apply wf_ins, wf_ins. exact W.
  - apply ins_other; [exact R|]. apply ins_other; [exact R|].
    apply ins_self; [|exact R]. apply wf_ins. exact W.
  - apply ins_other; [exact R|]. apply ins_other; [exact R|]. apply ins_other; [exact R|].
    apply ins_self; [exact W | exact R].
Qed.

(* ------------------------------------------------------------------ one step of the DP *)
Definition fstep (e : N) (A : table) (p : positive * mst) : table := ins4 e (snd p) A.

Lemma wf_fold : forall e l A, wf A -> wf (fold_left (fstep e) l A).
Proof.
  intros e l. induction l as [|p l IH]; intros A W; cbn [fold_left]; [exact W|].
  apply IH. unfold fstep. apply wf_ins4. exact W.
Qed.

Lemma fold_other : forall e l A s, range s -> covers A s -> covers (fold_left (fstep e) l A) s.
Proof.
  intros e l. induction l as [|p l IH]; intros A s Rs C; cbn [fold_left]; [exact C|].
  apply IH; [exact Rs|]. unfold fstep. apply ins4_other; assumption.
Qed.

Lemma fold_self : forall e c l A p,
  In p l -> wf A -> range (mstep e (norm c) (snd p)) ->
  covers (fold_left (fstep e) l A) (mstep e (norm c) (snd p)).
Proof.
  intros e c l. induction l as [|q l IH]; intros A p Hin W R; [destruct Hin|].
  cbn [fold_left]. destruct Hin as [E|Hin].
  - subst q. apply fold_other; [exact R|]. unfold fstep. apply ins4_self; assumption.
  - apply IH; [exact Hin | | exact R]. unfold fstep. apply wf_ins4. exact W.
Qed.

Lemma dpstep_fold : forall e T,
  dpstep e T = fold_left (fstep e) (PositiveMap.elements T) (PositiveMap.empty mst).
Proof. intros e T. unfold dpstep. rewrite PositiveMap.fold_1. reflexivity. Qed.

Lemma wf_dpstep : forall e T, wf (dpstep e T).
Proof. intros e T. rewrite dpstep_fold. apply wf_fold, wf_empty. Qed.

Lemma dpstep_covers : forall e c T s,
  e <= 5 -> range s -> covers T s -> covers (dpstep e T) (mstep e c s).
Proof.
  intros e c T s He Rs (t & F & Sh & A).
  rewrite (mstep_norm e c s).
  destruct (mstep_mono e (norm c) s t Sh A) as [Sh' A'].
  pose proof (mstep_range e (norm c) s He Rs) as Rs'.
  pose proof (same_shape_range _ _ Sh' Rs') as Rt'.
  apply covers_le with (s := mstep e (norm c) t); [|exact Sh' | exact A'].
  rewrite dpstep_fold.
  apply PositiveMap.elements_correct in F.
  apply (fold_self e c _ _ (key s, t)); [exact F | apply wf_empty | exact Rt'].
Qed.

(* ------------------------------------------------------------------ the initial table *)
Definition covers_b (T : table) (s : mst) : bool :=
  match PositiveMap.find (key s) T with
  | Some t => (o13 s =? o13 t) && (m13 s =? m13 t) && (o14 s =? o14 t) && (m14 s =? m14 t) &&
              (o15 s =? o15 t) && (m15 s =? m15 t) && (mM s =? mM t) && (acc s <=? acc t)
  | None => false
  end.

Lemma covers_b_spec : forall T s, covers_b T s = true -> covers T s.
Proof.
  intros T s H. unfold covers_b in H.
  destruct (PositiveMap.find (key s) T) as [t|] eqn:F; [|discriminate H].
  rewrite !andb_true_iff in H. rewrite !N.eqb_eq, N.leb_le in H.
  exists t. split; [exact F|]. unfold same_shape. tauto.
Qed.

Lemma init_covers : forall a b c, a < 2 -> b < 4 -> c < 8 -> covers init_table (minit a b c).
Proof.
  intros a b c Ha Hb Hc.
  assert (forallb (fun s => covers_b init_table s) init_list = true) as H
    by (vm_compute; reflexivity).
  rewrite forallb_forall in H. apply covers_b_spec, H.
  unfold init_list. apply in_flat_map. exists a. split; [cbn [In]; lia|].
  apply in_flat_map. exists b. split; [cbn [In]; lia|].
  apply in_map_iff. exists c. split; [reflexivity | cbn [In]; lia].
Qed.

Lemma init_range : forall a b c, a < 2 -> b < 4 -> c < 8 -> range (minit a b c).
Proof.
  intros a b c Ha Hb Hc. unfold range, minit. cbn [o13 m13 o14 m14 o15 m15]. lia.
Qed.

(* ------------------------------------------------------------------ the invariant *)
Lemma dprun_S : forall k, dprun (S k) = dpstep (sym_class (N.of_nat k)) (dprun k).
Proof. reflexivity. Qed.

Lemma mrun_S : forall ch k st,
  mrun ch (S k) st = mstep (sym_class (N.of_nat k)) (ch (N.of_nat k)) (mrun ch k st).
Proof. reflexivity. Qed.

Lemma dprun_inv : forall ch a b c, a < 2 -> b < 4 -> c < 8 ->
  forall n, (n <= 286)%nat ->
    range (mrun ch n (minit a b c)) /\ covers (dprun n) (mrun ch n (minit a b c)).
Proof.
  intros ch a b c Ha Hb Hc n. induction n as [|k IH]; intros Hn.
  - split; [apply init_range; assumption | apply init_covers; assumption].
  - destruct IH as [R C]; [lia|].
    assert (sym_class (N.of_nat k) <= 5) as He by (apply sym_class_le; lia).
    rewrite dprun_S, mrun_S. split.
    + apply mstep_range; assumption.
    + apply dpstep_covers; assumption.
Qed.

(* ------------------------------------------------------------------ the final check *)
Lemma check_final_sound : forall T s, check_final T = true -> covers T s -> mfinal s <= 1264.
Proof.
  intros T s H (t & F & Sh & A). unfold check_final in H. rewrite forallb_forall in H.
  apply PositiveMap.elements_correct in F. specialize (H _ F). cbn [snd] in H.
  pose proof (mfinal_mono s t Sh A). lia.
Qed.

Lemma check_final_286 : check_final (dprun 286) = true.
Proof. vm_compute. reflexivity. Qed.

(* the exact maximum over the table (documentation only; not used below) *)
Lemma max_final_286 : max_final (dprun 286) = 1234.
Proof. vm_compute. reflexivity. Qed.

Theorem machine_bound : machine_statement.
Proof.
  intros ch a b c Ha Hb Hc.
  apply (check_final_sound (dprun 286)); [exact check_final_286|].
  apply (dprun_inv ch a b c Ha Hb Hc 286%nat). apply Nat.le_refl.
Qed.

Print Assumptions machine_bound.
